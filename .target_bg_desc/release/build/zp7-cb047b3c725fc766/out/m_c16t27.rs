use asn1rs::prelude::*;

#[asn(transparent, tag(APPLICATION(9)))]

#[derive(Default, Debug, Clone, PartialEq, Hash)]
pub struct Tapp9(#[asn(integer(0..3))] pub u8);

impl Tapp9 {
    pub const fn value_min() -> u8 {
        0
    }

    pub const fn value_max() -> u8 {
        3
    }
}

impl Tapp9 {
    pub const fn new(value: u8) -> Self {
        Self(value)
    }
}

impl ::core::ops::Deref for Tapp9 {
    type Target = u8;

    fn deref(&self) -> &u8 {
        &self.0
    }
}

impl ::core::ops::DerefMut for Tapp9 {
    fn deref_mut(&mut self) -> &mut u8 {
        &mut self.0
    }
}

impl ::core::convert::From<u8> for Tapp9 {
    fn from(value: u8) -> Self {
        Self(value)
    }
}

impl ::core::convert::From<Tapp9> for u8 {
    fn from(value: Tapp9) -> Self {
        value.0
    }
}

#[asn(sequence)]

#[derive(Default, Debug, Clone, PartialEq, Hash)]
pub struct Tsq {
    #[asn(boolean)] pub z: bool,
}

impl Tsq {
}

#[asn(choice)]

#[derive(Debug, Clone, PartialEq, Hash)]
pub enum Tcho {
    #[asn(boolean, tag(4))] M(bool),
    #[asn(integer(0..7), tag(1))] N(u8),
}

impl Tcho {
    pub fn variants() -> [Self; 2] {
        [
        Tcho::M(Default::default()),
        Tcho::N(Default::default()),
        ]
    }

    pub fn value_index(&self) -> usize {
        match self {
            Tcho::M(_) => 0,
            Tcho::N(_) => 1,
        }
    }

    pub const fn n_min() -> u8 {
        0
    }

    pub const fn n_max() -> u8 {
        7
    }
}

impl Default for Tcho {
    fn default() -> Tcho {
        Tcho::M(Default::default())
    }
}

#[asn(choice, extensible_after(N))]

#[derive(Debug, Clone, PartialEq, Hash)]
pub enum Tchox {
    #[asn(boolean, tag(PRIVATE(1)))] M(bool),
    #[asn(integer(0..7), tag(PRIVATE(3)))] N(u8),
    #[asn(null, tag(APPLICATION(2)))] O(Null),
}

impl Tchox {
    pub fn variants() -> [Self; 3] {
        [
        Tchox::M(Default::default()),
        Tchox::N(Default::default()),
        Tchox::O(Default::default()),
        ]
    }

    pub fn value_index(&self) -> usize {
        match self {
            Tchox::M(_) => 0,
            Tchox::N(_) => 1,
            Tchox::O(_) => 2,
        }
    }

    pub const fn n_min() -> u8 {
        0
    }

    pub const fn n_max() -> u8 {
        7
    }
}

impl Default for Tchox {
    fn default() -> Tchox {
        Tchox::M(Default::default())
    }
}

#[asn(set)]

#[derive(Default, Debug, Clone, PartialEq, Hash)]
pub struct Tst {
    #[asn(boolean)] pub z: bool,
}

impl Tst {
}

#[asn(sequence, tag(APPLICATION(5)))]

#[derive(Default, Debug, Clone, PartialEq, Hash)]
pub struct Ttp15p6p7Is {
    #[asn(integer(0..3))] pub v: u8,
}

impl Ttp15p6p7Is {
    pub const fn v_min() -> u8 {
        0
    }

    pub const fn v_max() -> u8 {
        3
    }
}

#[asn(set)]

#[derive(Default, Debug, Clone, PartialEq, Hash)]
pub struct Ttp15p6p7 {
    #[asn(optional(complex(Ttp15p6p7Is, tag(APPLICATION(5)))), tag(APPLICATION(5)))] pub is: Option<Ttp15p6p7Is>,
    #[asn(integer(0..255))] pub i: u8,
    #[asn(optional(complex(Tapp9, tag(APPLICATION(9)))))] pub ra: Option<Tapp9>,
}

impl Ttp15p6p7 {
    pub const fn i_min() -> u8 {
        0
    }

    pub const fn i_max() -> u8 {
        255
    }
}

#[asn(sequence, tag(APPLICATION(5)))]

#[derive(Default, Debug, Clone, PartialEq, Hash)]
pub struct Ttp15p6p8Is {
    #[asn(integer(0..3))] pub v: u8,
}

impl Ttp15p6p8Is {
    pub const fn v_min() -> u8 {
        0
    }

    pub const fn v_max() -> u8 {
        3
    }
}

#[asn(set)]

#[derive(Default, Debug, Clone, PartialEq, Hash)]
pub struct Ttp15p6p8 {
    #[asn(optional(complex(Ttp15p6p8Is, tag(APPLICATION(5)))), tag(APPLICATION(5)))] pub is: Option<Ttp15p6p8Is>,
    #[asn(integer(0..255))] pub i: u8,
    #[asn(complex(Tsq, tag(UNIVERSAL(16))))] pub rs: Tsq,
}

impl Ttp15p6p8 {
    pub const fn i_min() -> u8 {
        0
    }

    pub const fn i_max() -> u8 {
        255
    }
}

#[asn(sequence, tag(APPLICATION(5)))]

#[derive(Default, Debug, Clone, PartialEq, Hash)]
pub struct Ttp15p6p9Is {
    #[asn(integer(0..3))] pub v: u8,
}

impl Ttp15p6p9Is {
    pub const fn v_min() -> u8 {
        0
    }

    pub const fn v_max() -> u8 {
        3
    }
}

#[asn(set)]

#[derive(Default, Debug, Clone, PartialEq, Hash)]
pub struct Ttp15p6p9 {
    #[asn(optional(complex(Ttp15p6p9Is, tag(APPLICATION(5)))), tag(APPLICATION(5)))] pub is: Option<Ttp15p6p9Is>,
    #[asn(integer(0..255))] pub i: u8,
    #[asn(optional(complex(Tcho, tag(1))))] pub rc: Option<Tcho>,
}

impl Ttp15p6p9 {
    pub const fn i_min() -> u8 {
        0
    }

    pub const fn i_max() -> u8 {
        255
    }
}

#[asn(sequence, tag(APPLICATION(5)))]

#[derive(Default, Debug, Clone, PartialEq, Hash)]
pub struct Ttp15p6p10Is {
    #[asn(integer(0..3))] pub v: u8,
}

impl Ttp15p6p10Is {
    pub const fn v_min() -> u8 {
        0
    }

    pub const fn v_max() -> u8 {
        3
    }
}

#[asn(set)]

#[derive(Default, Debug, Clone, PartialEq, Hash)]
pub struct Ttp15p6p10 {
    #[asn(optional(complex(Ttp15p6p10Is, tag(APPLICATION(5)))), tag(APPLICATION(5)))] pub is: Option<Ttp15p6p10Is>,
    #[asn(integer(0..255))] pub i: u8,
    #[asn(complex(Tst, tag(UNIVERSAL(17))))] pub rt: Tst,
}

impl Ttp15p6p10 {
    pub const fn i_min() -> u8 {
        0
    }

    pub const fn i_max() -> u8 {
        255
    }
}

#[asn(sequence, tag(APPLICATION(5)))]

#[derive(Default, Debug, Clone, PartialEq, Hash)]
pub struct Ttp15p6p11Is {
    #[asn(integer(0..3))] pub v: u8,
}

impl Ttp15p6p11Is {
    pub const fn v_min() -> u8 {
        0
    }

    pub const fn v_max() -> u8 {
        3
    }
}

#[asn(set)]

#[derive(Default, Debug, Clone, PartialEq, Hash)]
pub struct Ttp15p6p11 {
    #[asn(optional(complex(Ttp15p6p11Is, tag(APPLICATION(5)))), tag(APPLICATION(5)))] pub is: Option<Ttp15p6p11Is>,
    #[asn(integer(0..255))] pub i: u8,
    #[asn(optional(sequence_of(size(0..3), boolean)))] pub so: Option<Vec<bool>>,
}

impl Ttp15p6p11 {
    pub const fn i_min() -> u8 {
        0
    }

    pub const fn i_max() -> u8 {
        255
    }
}

#[asn(sequence, tag(APPLICATION(5)))]

#[derive(Default, Debug, Clone, PartialEq, Hash)]
pub struct Ttp15p6p12Is {
    #[asn(integer(0..3))] pub v: u8,
}

impl Ttp15p6p12Is {
    pub const fn v_min() -> u8 {
        0
    }

    pub const fn v_max() -> u8 {
        3
    }
}

#[asn(set)]

#[derive(Default, Debug, Clone, PartialEq, Hash)]
pub struct Ttp15p6p12 {
    #[asn(optional(complex(Ttp15p6p12Is, tag(APPLICATION(5)))), tag(APPLICATION(5)))] pub is: Option<Ttp15p6p12Is>,
    #[asn(integer(0..255))] pub i: u8,
    #[asn(set_of(size(0..2), boolean))] pub st: Vec<bool>,
}

impl Ttp15p6p12 {
    pub const fn i_min() -> u8 {
        0
    }

    pub const fn i_max() -> u8 {
        255
    }
}

#[asn(sequence, tag(APPLICATION(5)))]

#[derive(Default, Debug, Clone, PartialEq, Hash)]
pub struct Ttp15p6p13Is {
    #[asn(integer(0..3))] pub v: u8,
}

impl Ttp15p6p13Is {
    pub const fn v_min() -> u8 {
        0
    }

    pub const fn v_max() -> u8 {
        3
    }
}

#[asn(set)]

#[derive(Default, Debug, Clone, PartialEq, Hash)]
pub struct Ttp15p6p13 {
    #[asn(optional(complex(Ttp15p6p13Is, tag(APPLICATION(5)))), tag(APPLICATION(5)))] pub is: Option<Ttp15p6p13Is>,
    #[asn(integer(0..255))] pub i: u8,
    #[asn(optional(complex(Tchox, tag(PRIVATE(1)))))] pub rx: Option<Tchox>,
}

impl Ttp15p6p13 {
    pub const fn i_min() -> u8 {
        0
    }

    pub const fn i_max() -> u8 {
        255
    }
}

#[asn(sequence, tag(APPLICATION(5)))]

#[derive(Default, Debug, Clone, PartialEq, Hash)]
pub struct Ttp15p6p14Is {
    #[asn(integer(0..3))] pub v: u8,
}

impl Ttp15p6p14Is {
    pub const fn v_min() -> u8 {
        0
    }

    pub const fn v_max() -> u8 {
        3
    }
}

#[asn(set)]

#[derive(Default, Debug, Clone, PartialEq, Hash)]
pub struct Ttp15p6p14 {
    #[asn(optional(complex(Ttp15p6p14Is, tag(APPLICATION(5)))), tag(APPLICATION(5)))] pub is: Option<Ttp15p6p14Is>,
    #[asn(integer(0..255))] pub i: u8,
    #[asn(integer(0..1), tag(UNIVERSAL(2)))] pub u2: u8,
}

impl Ttp15p6p14 {
    pub const fn i_min() -> u8 {
        0
    }

    pub const fn i_max() -> u8 {
        255
    }

    pub const fn u2_min() -> u8 {
        0
    }

    pub const fn u2_max() -> u8 {
        1
    }
}

#[asn(sequence, tag(APPLICATION(5)))]

#[derive(Default, Debug, Clone, PartialEq, Hash)]
pub struct Ttp15p7p0Is {
    #[asn(integer(0..3))] pub v: u8,
}

impl Ttp15p7p0Is {
    pub const fn v_min() -> u8 {
        0
    }

    pub const fn v_max() -> u8 {
        3
    }
}

#[asn(set)]

#[derive(Default, Debug, Clone, PartialEq, Hash)]
pub struct Ttp15p7p0 {
    #[asn(optional(complex(Ttp15p7p0Is, tag(APPLICATION(5)))), tag(APPLICATION(5)))] pub is: Option<Ttp15p7p0Is>,
    #[asn(optional(complex(Tapp9, tag(APPLICATION(9)))))] pub ra: Option<Tapp9>,
    #[asn(integer(0..7), tag(UNIVERSAL(30)))] pub x: u8,
}

impl Ttp15p7p0 {
    pub const fn x_min() -> u8 {
        0
    }

    pub const fn x_max() -> u8 {
        7
    }
}

#[asn(sequence, tag(APPLICATION(5)))]

#[derive(Default, Debug, Clone, PartialEq, Hash)]
pub struct Ttp15p7p1Is {
    #[asn(integer(0..3))] pub v: u8,
}

impl Ttp15p7p1Is {
    pub const fn v_min() -> u8 {
        0
    }

    pub const fn v_max() -> u8 {
        3
    }
}

#[asn(set)]

#[derive(Default, Debug, Clone, PartialEq, Hash)]
pub struct Ttp15p7p1 {
    #[asn(optional(complex(Ttp15p7p1Is, tag(APPLICATION(5)))), tag(APPLICATION(5)))] pub is: Option<Ttp15p7p1Is>,
    #[asn(optional(complex(Tapp9, tag(APPLICATION(9)))))] pub ra: Option<Tapp9>,
    #[asn(optional(integer(0..15)), tag(APPLICATION(1)))] pub a: Option<u8>,
}

impl Ttp15p7p1 {
    pub const fn a_min() -> u8 {
        0
    }

    pub const fn a_max() -> u8 {
        15
    }
}

#[asn(sequence, tag(APPLICATION(5)))]

#[derive(Default, Debug, Clone, PartialEq, Hash)]
pub struct Ttp15p7p2Is {
    #[asn(integer(0..3))] pub v: u8,
}

impl Ttp15p7p2Is {
    pub const fn v_min() -> u8 {
        0
    }

    pub const fn v_max() -> u8 {
        3
    }
}

#[asn(set)]

#[derive(Default, Debug, Clone, PartialEq, Hash)]
pub struct Ttp15p7p2 {
    #[asn(optional(complex(Ttp15p7p2Is, tag(APPLICATION(5)))), tag(APPLICATION(5)))] pub is: Option<Ttp15p7p2Is>,
    #[asn(optional(complex(Tapp9, tag(APPLICATION(9)))))] pub ra: Option<Tapp9>,
    #[asn(integer(0..31), tag(3))] pub c3: u8,
}

impl Ttp15p7p2 {
    pub const fn c3_min() -> u8 {
        0
    }

    pub const fn c3_max() -> u8 {
        31
    }
}

#[asn(sequence, tag(APPLICATION(5)))]

#[derive(Default, Debug, Clone, PartialEq, Hash)]
pub struct Ttp15p7p3Is {
    #[asn(integer(0..3))] pub v: u8,
}

impl Ttp15p7p3Is {
    pub const fn v_min() -> u8 {
        0
    }

    pub const fn v_max() -> u8 {
        3
    }
}

#[asn(set)]

#[derive(Default, Debug, Clone, PartialEq, Hash)]
pub struct Ttp15p7p3 {
    #[asn(optional(complex(Ttp15p7p3Is, tag(APPLICATION(5)))), tag(APPLICATION(5)))] pub is: Option<Ttp15p7p3Is>,
    #[asn(optional(complex(Tapp9, tag(APPLICATION(9)))))] pub ra: Option<Tapp9>,
    #[asn(optional(integer(0..63)), tag(0))] pub c0: Option<u8>,
}

impl Ttp15p7p3 {
    pub const fn c0_min() -> u8 {
        0
    }

    pub const fn c0_max() -> u8 {
        63
    }
}

#[asn(sequence, tag(APPLICATION(5)))]

#[derive(Default, Debug, Clone, PartialEq, Hash)]
pub struct Ttp15p7p4Is {
    #[asn(integer(0..3))] pub v: u8,
}

impl Ttp15p7p4Is {
    pub const fn v_min() -> u8 {
        0
    }

    pub const fn v_max() -> u8 {
        3
    }
}

#[asn(set)]

#[derive(Default, Debug, Clone, PartialEq, Hash)]
pub struct Ttp15p7p4 {
    #[asn(optional(complex(Ttp15p7p4Is, tag(APPLICATION(5)))), tag(APPLICATION(5)))] pub is: Option<Ttp15p7p4Is>,
    #[asn(optional(complex(Tapp9, tag(APPLICATION(9)))))] pub ra: Option<Tapp9>,
    #[asn(integer(0..127), tag(PRIVATE(2)))] pub p: u8,
}

impl Ttp15p7p4 {
    pub const fn p_min() -> u8 {
        0
    }

    pub const fn p_max() -> u8 {
        127
    }
}

#[asn(sequence, tag(APPLICATION(5)))]

#[derive(Default, Debug, Clone, PartialEq, Hash)]
pub struct Ttp15p7p5Is {
    #[asn(integer(0..3))] pub v: u8,
}

impl Ttp15p7p5Is {
    pub const fn v_min() -> u8 {
        0
    }

    pub const fn v_max() -> u8 {
        3
    }
}

#[asn(set)]

#[derive(Default, Debug, Clone, PartialEq, Hash)]
pub struct Ttp15p7p5 {
    #[asn(optional(complex(Ttp15p7p5Is, tag(APPLICATION(5)))), tag(APPLICATION(5)))] pub is: Option<Ttp15p7p5Is>,
    #[asn(optional(complex(Tapp9, tag(APPLICATION(9)))))] pub ra: Option<Tapp9>,
    #[asn(optional(boolean))] pub b: Option<bool>,
}

impl Ttp15p7p5 {
}

#[asn(sequence, tag(APPLICATION(5)))]

#[derive(Default, Debug, Clone, PartialEq, Hash)]
pub struct Ttp15p7p6Is {
    #[asn(integer(0..3))] pub v: u8,
}

impl Ttp15p7p6Is {
    pub const fn v_min() -> u8 {
        0
    }

    pub const fn v_max() -> u8 {
        3
    }
}

#[asn(set)]

#[derive(Default, Debug, Clone, PartialEq, Hash)]
pub struct Ttp15p7p6 {
    #[asn(optional(complex(Ttp15p7p6Is, tag(APPLICATION(5)))), tag(APPLICATION(5)))] pub is: Option<Ttp15p7p6Is>,
    #[asn(optional(complex(Tapp9, tag(APPLICATION(9)))))] pub ra: Option<Tapp9>,
    #[asn(integer(0..255))] pub i: u8,
}

impl Ttp15p7p6 {
    pub const fn i_min() -> u8 {
        0
    }

    pub const fn i_max() -> u8 {
        255
    }
}

#[asn(sequence, tag(APPLICATION(5)))]

#[derive(Default, Debug, Clone, PartialEq, Hash)]
pub struct Ttp15p7p8Is {
    #[asn(integer(0..3))] pub v: u8,
}

impl Ttp15p7p8Is {
    pub const fn v_min() -> u8 {
        0
    }

    pub const fn v_max() -> u8 {
        3
    }
}

#[asn(set)]

#[derive(Default, Debug, Clone, PartialEq, Hash)]
pub struct Ttp15p7p8 {
    #[asn(optional(complex(Ttp15p7p8Is, tag(APPLICATION(5)))), tag(APPLICATION(5)))] pub is: Option<Ttp15p7p8Is>,
    #[asn(optional(complex(Tapp9, tag(APPLICATION(9)))))] pub ra: Option<Tapp9>,
    #[asn(complex(Tsq, tag(UNIVERSAL(16))))] pub rs: Tsq,
}

impl Ttp15p7p8 {
}

#[asn(sequence, tag(APPLICATION(5)))]

#[derive(Default, Debug, Clone, PartialEq, Hash)]
pub struct Ttp15p7p9Is {
    #[asn(integer(0..3))] pub v: u8,
}

impl Ttp15p7p9Is {
    pub const fn v_min() -> u8 {
        0
    }

    pub const fn v_max() -> u8 {
        3
    }
}

#[asn(set)]

#[derive(Default, Debug, Clone, PartialEq, Hash)]
pub struct Ttp15p7p9 {
    #[asn(optional(complex(Ttp15p7p9Is, tag(APPLICATION(5)))), tag(APPLICATION(5)))] pub is: Option<Ttp15p7p9Is>,
    #[asn(optional(complex(Tapp9, tag(APPLICATION(9)))))] pub ra: Option<Tapp9>,
    #[asn(optional(complex(Tcho, tag(1))))] pub rc: Option<Tcho>,
}

impl Ttp15p7p9 {
}

#[asn(sequence, tag(APPLICATION(5)))]

#[derive(Default, Debug, Clone, PartialEq, Hash)]
pub struct Ttp15p7p10Is {
    #[asn(integer(0..3))] pub v: u8,
}

impl Ttp15p7p10Is {
    pub const fn v_min() -> u8 {
        0
    }

    pub const fn v_max() -> u8 {
        3
    }
}

#[asn(set)]

#[derive(Default, Debug, Clone, PartialEq, Hash)]
pub struct Ttp15p7p10 {
    #[asn(optional(complex(Ttp15p7p10Is, tag(APPLICATION(5)))), tag(APPLICATION(5)))] pub is: Option<Ttp15p7p10Is>,
    #[asn(optional(complex(Tapp9, tag(APPLICATION(9)))))] pub ra: Option<Tapp9>,
    #[asn(complex(Tst, tag(UNIVERSAL(17))))] pub rt: Tst,
}

impl Ttp15p7p10 {
}

#[asn(sequence, tag(APPLICATION(5)))]

#[derive(Default, Debug, Clone, PartialEq, Hash)]
pub struct Ttp15p7p11Is {
    #[asn(integer(0..3))] pub v: u8,
}

impl Ttp15p7p11Is {
    pub const fn v_min() -> u8 {
        0
    }

    pub const fn v_max() -> u8 {
        3
    }
}

#[asn(set)]

#[derive(Default, Debug, Clone, PartialEq, Hash)]
pub struct Ttp15p7p11 {
    #[asn(optional(complex(Ttp15p7p11Is, tag(APPLICATION(5)))), tag(APPLICATION(5)))] pub is: Option<Ttp15p7p11Is>,
    #[asn(optional(complex(Tapp9, tag(APPLICATION(9)))))] pub ra: Option<Tapp9>,
    #[asn(optional(sequence_of(size(0..3), boolean)))] pub so: Option<Vec<bool>>,
}

impl Ttp15p7p11 {
}

#[asn(sequence, tag(APPLICATION(5)))]

#[derive(Default, Debug, Clone, PartialEq, Hash)]
pub struct Ttp15p7p12Is {
    #[asn(integer(0..3))] pub v: u8,
}

impl Ttp15p7p12Is {
    pub const fn v_min() -> u8 {
        0
    }

    pub const fn v_max() -> u8 {
        3
    }
}

#[asn(set)]

#[derive(Default, Debug, Clone, PartialEq, Hash)]
pub struct Ttp15p7p12 {
    #[asn(optional(complex(Ttp15p7p12Is, tag(APPLICATION(5)))), tag(APPLICATION(5)))] pub is: Option<Ttp15p7p12Is>,
    #[asn(optional(complex(Tapp9, tag(APPLICATION(9)))))] pub ra: Option<Tapp9>,
    #[asn(set_of(size(0..2), boolean))] pub st: Vec<bool>,
}

impl Ttp15p7p12 {
}

#[asn(sequence, tag(APPLICATION(5)))]

#[derive(Default, Debug, Clone, PartialEq, Hash)]
pub struct Ttp15p7p13Is {
    #[asn(integer(0..3))] pub v: u8,
}

impl Ttp15p7p13Is {
    pub const fn v_min() -> u8 {
        0
    }

    pub const fn v_max() -> u8 {
        3
    }
}

#[asn(set)]

#[derive(Default, Debug, Clone, PartialEq, Hash)]
pub struct Ttp15p7p13 {
    #[asn(optional(complex(Ttp15p7p13Is, tag(APPLICATION(5)))), tag(APPLICATION(5)))] pub is: Option<Ttp15p7p13Is>,
    #[asn(optional(complex(Tapp9, tag(APPLICATION(9)))))] pub ra: Option<Tapp9>,
    #[asn(optional(complex(Tchox, tag(PRIVATE(1)))))] pub rx: Option<Tchox>,
}

impl Ttp15p7p13 {
}

#[asn(sequence, tag(APPLICATION(5)))]

#[derive(Default, Debug, Clone, PartialEq, Hash)]
pub struct Ttp15p7p14Is {
    #[asn(integer(0..3))] pub v: u8,
}

impl Ttp15p7p14Is {
    pub const fn v_min() -> u8 {
        0
    }

    pub const fn v_max() -> u8 {
        3
    }
}

#[asn(set)]

#[derive(Default, Debug, Clone, PartialEq, Hash)]
pub struct Ttp15p7p14 {
    #[asn(optional(complex(Ttp15p7p14Is, tag(APPLICATION(5)))), tag(APPLICATION(5)))] pub is: Option<Ttp15p7p14Is>,
    #[asn(optional(complex(Tapp9, tag(APPLICATION(9)))))] pub ra: Option<Tapp9>,
    #[asn(integer(0..1), tag(UNIVERSAL(2)))] pub u2: u8,
}

impl Ttp15p7p14 {
    pub const fn u2_min() -> u8 {
        0
    }

    pub const fn u2_max() -> u8 {
        1
    }
}

#[asn(sequence, tag(APPLICATION(5)))]

#[derive(Default, Debug, Clone, PartialEq, Hash)]
pub struct Ttp15p8p0Is {
    #[asn(integer(0..3))] pub v: u8,
}

impl Ttp15p8p0Is {
    pub const fn v_min() -> u8 {
        0
    }

    pub const fn v_max() -> u8 {
        3
    }
}

#[asn(set)]

#[derive(Default, Debug, Clone, PartialEq, Hash)]
pub struct Ttp15p8p0 {
    #[asn(optional(complex(Ttp15p8p0Is, tag(APPLICATION(5)))), tag(APPLICATION(5)))] pub is: Option<Ttp15p8p0Is>,
    #[asn(complex(Tsq, tag(UNIVERSAL(16))))] pub rs: Tsq,
    #[asn(integer(0..7), tag(UNIVERSAL(30)))] pub x: u8,
}

impl Ttp15p8p0 {
    pub const fn x_min() -> u8 {
        0
    }

    pub const fn x_max() -> u8 {
        7
    }
}

#[asn(sequence, tag(APPLICATION(5)))]

#[derive(Default, Debug, Clone, PartialEq, Hash)]
pub struct Ttp15p8p1Is {
    #[asn(integer(0..3))] pub v: u8,
}

impl Ttp15p8p1Is {
    pub const fn v_min() -> u8 {
        0
    }

    pub const fn v_max() -> u8 {
        3
    }
}

#[asn(set)]

#[derive(Default, Debug, Clone, PartialEq, Hash)]
pub struct Ttp15p8p1 {
    #[asn(optional(complex(Ttp15p8p1Is, tag(APPLICATION(5)))), tag(APPLICATION(5)))] pub is: Option<Ttp15p8p1Is>,
    #[asn(complex(Tsq, tag(UNIVERSAL(16))))] pub rs: Tsq,
    #[asn(optional(integer(0..15)), tag(APPLICATION(1)))] pub a: Option<u8>,
}

impl Ttp15p8p1 {
    pub const fn a_min() -> u8 {
        0
    }

    pub const fn a_max() -> u8 {
        15
    }
}

#[asn(sequence, tag(APPLICATION(5)))]

#[derive(Default, Debug, Clone, PartialEq, Hash)]
pub struct Ttp15p8p2Is {
    #[asn(integer(0..3))] pub v: u8,
}

impl Ttp15p8p2Is {
    pub const fn v_min() -> u8 {
        0
    }

    pub const fn v_max() -> u8 {
        3
    }
}

#[asn(set)]

#[derive(Default, Debug, Clone, PartialEq, Hash)]
pub struct Ttp15p8p2 {
    #[asn(optional(complex(Ttp15p8p2Is, tag(APPLICATION(5)))), tag(APPLICATION(5)))] pub is: Option<Ttp15p8p2Is>,
    #[asn(complex(Tsq, tag(UNIVERSAL(16))))] pub rs: Tsq,
    #[asn(integer(0..31), tag(3))] pub c3: u8,
}

impl Ttp15p8p2 {
    pub const fn c3_min() -> u8 {
        0
    }

    pub const fn c3_max() -> u8 {
        31
    }
}

#[asn(sequence, tag(APPLICATION(5)))]

#[derive(Default, Debug, Clone, PartialEq, Hash)]
pub struct Ttp15p8p3Is {
    #[asn(integer(0..3))] pub v: u8,
}

impl Ttp15p8p3Is {
    pub const fn v_min() -> u8 {
        0
    }

    pub const fn v_max() -> u8 {
        3
    }
}

#[asn(set)]

#[derive(Default, Debug, Clone, PartialEq, Hash)]
pub struct Ttp15p8p3 {
    #[asn(optional(complex(Ttp15p8p3Is, tag(APPLICATION(5)))), tag(APPLICATION(5)))] pub is: Option<Ttp15p8p3Is>,
    #[asn(complex(Tsq, tag(UNIVERSAL(16))))] pub rs: Tsq,
    #[asn(optional(integer(0..63)), tag(0))] pub c0: Option<u8>,
}

impl Ttp15p8p3 {
    pub const fn c0_min() -> u8 {
        0
    }

    pub const fn c0_max() -> u8 {
        63
    }
}

#[asn(sequence, tag(APPLICATION(5)))]

#[derive(Default, Debug, Clone, PartialEq, Hash)]
pub struct Ttp15p8p4Is {
    #[asn(integer(0..3))] pub v: u8,
}

impl Ttp15p8p4Is {
    pub const fn v_min() -> u8 {
        0
    }

    pub const fn v_max() -> u8 {
        3
    }
}

#[asn(set)]

#[derive(Default, Debug, Clone, PartialEq, Hash)]
pub struct Ttp15p8p4 {
    #[asn(optional(complex(Ttp15p8p4Is, tag(APPLICATION(5)))), tag(APPLICATION(5)))] pub is: Option<Ttp15p8p4Is>,
    #[asn(complex(Tsq, tag(UNIVERSAL(16))))] pub rs: Tsq,
    #[asn(integer(0..127), tag(PRIVATE(2)))] pub p: u8,
}

impl Ttp15p8p4 {
    pub const fn p_min() -> u8 {
        0
    }

    pub const fn p_max() -> u8 {
        127
    }
}

#[asn(sequence, tag(APPLICATION(5)))]

#[derive(Default, Debug, Clone, PartialEq, Hash)]
pub struct Ttp15p8p5Is {
    #[asn(integer(0..3))] pub v: u8,
}

impl Ttp15p8p5Is {
    pub const fn v_min() -> u8 {
        0
    }

    pub const fn v_max() -> u8 {
        3
    }
}

#[asn(set)]

#[derive(Default, Debug, Clone, PartialEq, Hash)]
pub struct Ttp15p8p5 {
    #[asn(optional(complex(Ttp15p8p5Is, tag(APPLICATION(5)))), tag(APPLICATION(5)))] pub is: Option<Ttp15p8p5Is>,
    #[asn(complex(Tsq, tag(UNIVERSAL(16))))] pub rs: Tsq,
    #[asn(optional(boolean))] pub b: Option<bool>,
}

impl Ttp15p8p5 {
}

#[asn(sequence, tag(APPLICATION(5)))]

#[derive(Default, Debug, Clone, PartialEq, Hash)]
pub struct Ttp15p8p6Is {
    #[asn(integer(0..3))] pub v: u8,
}

impl Ttp15p8p6Is {
    pub const fn v_min() -> u8 {
        0
    }

    pub const fn v_max() -> u8 {
        3
    }
}

#[asn(set)]

#[derive(Default, Debug, Clone, PartialEq, Hash)]
pub struct Ttp15p8p6 {
    #[asn(optional(complex(Ttp15p8p6Is, tag(APPLICATION(5)))), tag(APPLICATION(5)))] pub is: Option<Ttp15p8p6Is>,
    #[asn(complex(Tsq, tag(UNIVERSAL(16))))] pub rs: Tsq,
    #[asn(integer(0..255))] pub i: u8,
}

impl Ttp15p8p6 {
    pub const fn i_min() -> u8 {
        0
    }

    pub const fn i_max() -> u8 {
        255
    }
}

#[asn(sequence, tag(APPLICATION(5)))]

#[derive(Default, Debug, Clone, PartialEq, Hash)]
pub struct Ttp15p8p7Is {
    #[asn(integer(0..3))] pub v: u8,
}

impl Ttp15p8p7Is {
    pub const fn v_min() -> u8 {
        0
    }

    pub const fn v_max() -> u8 {
        3
    }
}

#[asn(set)]

#[derive(Default, Debug, Clone, PartialEq, Hash)]
pub struct Ttp15p8p7 {
    #[asn(optional(complex(Ttp15p8p7Is, tag(APPLICATION(5)))), tag(APPLICATION(5)))] pub is: Option<Ttp15p8p7Is>,
    #[asn(complex(Tsq, tag(UNIVERSAL(16))))] pub rs: Tsq,
    #[asn(optional(complex(Tapp9, tag(APPLICATION(9)))))] pub ra: Option<Tapp9>,
}

impl Ttp15p8p7 {
}

#[asn(sequence, tag(APPLICATION(5)))]

#[derive(Default, Debug, Clone, PartialEq, Hash)]
pub struct Ttp15p8p9Is {
    #[asn(integer(0..3))] pub v: u8,
}

impl Ttp15p8p9Is {
    pub const fn v_min() -> u8 {
        0
    }

    pub const fn v_max() -> u8 {
        3
    }
}

#[asn(set)]

#[derive(Default, Debug, Clone, PartialEq, Hash)]
pub struct Ttp15p8p9 {
    #[asn(optional(complex(Ttp15p8p9Is, tag(APPLICATION(5)))), tag(APPLICATION(5)))] pub is: Option<Ttp15p8p9Is>,
    #[asn(complex(Tsq, tag(UNIVERSAL(16))))] pub rs: Tsq,
    #[asn(optional(complex(Tcho, tag(1))))] pub rc: Option<Tcho>,
}

impl Ttp15p8p9 {
}

#[asn(sequence, tag(APPLICATION(5)))]

#[derive(Default, Debug, Clone, PartialEq, Hash)]
pub struct Ttp15p8p10Is {
    #[asn(integer(0..3))] pub v: u8,
}

impl Ttp15p8p10Is {
    pub const fn v_min() -> u8 {
        0
    }

    pub const fn v_max() -> u8 {
        3
    }
}

#[asn(set)]

#[derive(Default, Debug, Clone, PartialEq, Hash)]
pub struct Ttp15p8p10 {
    #[asn(optional(complex(Ttp15p8p10Is, tag(APPLICATION(5)))), tag(APPLICATION(5)))] pub is: Option<Ttp15p8p10Is>,
    #[asn(complex(Tsq, tag(UNIVERSAL(16))))] pub rs: Tsq,
    #[asn(complex(Tst, tag(UNIVERSAL(17))))] pub rt: Tst,
}

impl Ttp15p8p10 {
}

#[asn(sequence, tag(APPLICATION(5)))]

#[derive(Default, Debug, Clone, PartialEq, Hash)]
pub struct Ttp15p8p11Is {
    #[asn(integer(0..3))] pub v: u8,
}

impl Ttp15p8p11Is {
    pub const fn v_min() -> u8 {
        0
    }

    pub const fn v_max() -> u8 {
        3
    }
}

#[asn(set)]

#[derive(Default, Debug, Clone, PartialEq, Hash)]
pub struct Ttp15p8p11 {
    #[asn(optional(complex(Ttp15p8p11Is, tag(APPLICATION(5)))), tag(APPLICATION(5)))] pub is: Option<Ttp15p8p11Is>,
    #[asn(complex(Tsq, tag(UNIVERSAL(16))))] pub rs: Tsq,
    #[asn(optional(sequence_of(size(0..3), boolean)))] pub so: Option<Vec<bool>>,
}

impl Ttp15p8p11 {
}

#[asn(sequence, tag(APPLICATION(5)))]

#[derive(Default, Debug, Clone, PartialEq, Hash)]
pub struct Ttp15p8p12Is {
    #[asn(integer(0..3))] pub v: u8,
}

impl Ttp15p8p12Is {
    pub const fn v_min() -> u8 {
        0
    }

    pub const fn v_max() -> u8 {
        3
    }
}

#[asn(set)]

#[derive(Default, Debug, Clone, PartialEq, Hash)]
pub struct Ttp15p8p12 {
    #[asn(optional(complex(Ttp15p8p12Is, tag(APPLICATION(5)))), tag(APPLICATION(5)))] pub is: Option<Ttp15p8p12Is>,
    #[asn(complex(Tsq, tag(UNIVERSAL(16))))] pub rs: Tsq,
    #[asn(set_of(size(0..2), boolean))] pub st: Vec<bool>,
}

impl Ttp15p8p12 {
}

#[asn(sequence, tag(APPLICATION(5)))]

#[derive(Default, Debug, Clone, PartialEq, Hash)]
pub struct Ttp15p8p13Is {
    #[asn(integer(0..3))] pub v: u8,
}

impl Ttp15p8p13Is {
    pub const fn v_min() -> u8 {
        0
    }

    pub const fn v_max() -> u8 {
        3
    }
}

#[asn(set)]

#[derive(Default, Debug, Clone, PartialEq, Hash)]
pub struct Ttp15p8p13 {
    #[asn(optional(complex(Ttp15p8p13Is, tag(APPLICATION(5)))), tag(APPLICATION(5)))] pub is: Option<Ttp15p8p13Is>,
    #[asn(complex(Tsq, tag(UNIVERSAL(16))))] pub rs: Tsq,
    #[asn(optional(complex(Tchox, tag(PRIVATE(1)))))] pub rx: Option<Tchox>,
}

impl Ttp15p8p13 {
}

#[asn(sequence, tag(APPLICATION(5)))]

#[derive(Default, Debug, Clone, PartialEq, Hash)]
pub struct Ttp15p8p14Is {
    #[asn(integer(0..3))] pub v: u8,
}

impl Ttp15p8p14Is {
    pub const fn v_min() -> u8 {
        0
    }

    pub const fn v_max() -> u8 {
        3
    }
}

#[asn(set)]

#[derive(Default, Debug, Clone, PartialEq, Hash)]
pub struct Ttp15p8p14 {
    #[asn(optional(complex(Ttp15p8p14Is, tag(APPLICATION(5)))), tag(APPLICATION(5)))] pub is: Option<Ttp15p8p14Is>,
    #[asn(complex(Tsq, tag(UNIVERSAL(16))))] pub rs: Tsq,
    #[asn(integer(0..1), tag(UNIVERSAL(2)))] pub u2: u8,
}

impl Ttp15p8p14 {
    pub const fn u2_min() -> u8 {
        0
    }

    pub const fn u2_max() -> u8 {
        1
    }
}

#[asn(sequence, tag(APPLICATION(5)))]

#[derive(Default, Debug, Clone, PartialEq, Hash)]
pub struct Ttp15p9p0Is {
    #[asn(integer(0..3))] pub v: u8,
}

impl Ttp15p9p0Is {
    pub const fn v_min() -> u8 {
        0
    }

    pub const fn v_max() -> u8 {
        3
    }
}

#[asn(set)]

#[derive(Default, Debug, Clone, PartialEq, Hash)]
pub struct Ttp15p9p0 {
    #[asn(optional(complex(Ttp15p9p0Is, tag(APPLICATION(5)))), tag(APPLICATION(5)))] pub is: Option<Ttp15p9p0Is>,
    #[asn(optional(complex(Tcho, tag(1))))] pub rc: Option<Tcho>,
    #[asn(integer(0..7), tag(UNIVERSAL(30)))] pub x: u8,
}

impl Ttp15p9p0 {
    pub const fn x_min() -> u8 {
        0
    }

    pub const fn x_max() -> u8 {
        7
    }
}

#[asn(sequence, tag(APPLICATION(5)))]

#[derive(Default, Debug, Clone, PartialEq, Hash)]
pub struct Ttp15p9p1Is {
    #[asn(integer(0..3))] pub v: u8,
}

impl Ttp15p9p1Is {
    pub const fn v_min() -> u8 {
        0
    }

    pub const fn v_max() -> u8 {
        3
    }
}

#[asn(set)]

#[derive(Default, Debug, Clone, PartialEq, Hash)]
pub struct Ttp15p9p1 {
    #[asn(optional(complex(Ttp15p9p1Is, tag(APPLICATION(5)))), tag(APPLICATION(5)))] pub is: Option<Ttp15p9p1Is>,
    #[asn(optional(complex(Tcho, tag(1))))] pub rc: Option<Tcho>,
    #[asn(optional(integer(0..15)), tag(APPLICATION(1)))] pub a: Option<u8>,
}

impl Ttp15p9p1 {
    pub const fn a_min() -> u8 {
        0
    }

    pub const fn a_max() -> u8 {
        15
    }
}

#[asn(sequence, tag(APPLICATION(5)))]

#[derive(Default, Debug, Clone, PartialEq, Hash)]
pub struct Ttp15p9p2Is {
    #[asn(integer(0..3))] pub v: u8,
}

impl Ttp15p9p2Is {
    pub const fn v_min() -> u8 {
        0
    }

    pub const fn v_max() -> u8 {
        3
    }
}

#[asn(set)]

#[derive(Default, Debug, Clone, PartialEq, Hash)]
pub struct Ttp15p9p2 {
    #[asn(optional(complex(Ttp15p9p2Is, tag(APPLICATION(5)))), tag(APPLICATION(5)))] pub is: Option<Ttp15p9p2Is>,
    #[asn(optional(complex(Tcho, tag(1))))] pub rc: Option<Tcho>,
    #[asn(integer(0..31), tag(3))] pub c3: u8,
}

impl Ttp15p9p2 {
    pub const fn c3_min() -> u8 {
        0
    }

    pub const fn c3_max() -> u8 {
        31
    }
}

#[asn(sequence, tag(APPLICATION(5)))]

#[derive(Default, Debug, Clone, PartialEq, Hash)]
pub struct Ttp15p9p3Is {
    #[asn(integer(0..3))] pub v: u8,
}

impl Ttp15p9p3Is {
    pub const fn v_min() -> u8 {
        0
    }

    pub const fn v_max() -> u8 {
        3
    }
}

#[asn(set)]

#[derive(Default, Debug, Clone, PartialEq, Hash)]
pub struct Ttp15p9p3 {
    #[asn(optional(complex(Ttp15p9p3Is, tag(APPLICATION(5)))), tag(APPLICATION(5)))] pub is: Option<Ttp15p9p3Is>,
    #[asn(optional(complex(Tcho, tag(1))))] pub rc: Option<Tcho>,
    #[asn(optional(integer(0..63)), tag(0))] pub c0: Option<u8>,
}

impl Ttp15p9p3 {
    pub const fn c0_min() -> u8 {
        0
    }

    pub const fn c0_max() -> u8 {
        63
    }
}

#[asn(sequence, tag(APPLICATION(5)))]

#[derive(Default, Debug, Clone, PartialEq, Hash)]
pub struct Ttp15p9p4Is {
    #[asn(integer(0..3))] pub v: u8,
}

impl Ttp15p9p4Is {
    pub const fn v_min() -> u8 {
        0
    }

    pub const fn v_max() -> u8 {
        3
    }
}

#[asn(set)]

#[derive(Default, Debug, Clone, PartialEq, Hash)]
pub struct Ttp15p9p4 {
    #[asn(optional(complex(Ttp15p9p4Is, tag(APPLICATION(5)))), tag(APPLICATION(5)))] pub is: Option<Ttp15p9p4Is>,
    #[asn(optional(complex(Tcho, tag(1))))] pub rc: Option<Tcho>,
    #[asn(integer(0..127), tag(PRIVATE(2)))] pub p: u8,
}

impl Ttp15p9p4 {
    pub const fn p_min() -> u8 {
        0
    }

    pub const fn p_max() -> u8 {
        127
    }
}

#[asn(sequence, tag(APPLICATION(5)))]

#[derive(Default, Debug, Clone, PartialEq, Hash)]
pub struct Ttp15p9p5Is {
    #[asn(integer(0..3))] pub v: u8,
}

impl Ttp15p9p5Is {
    pub const fn v_min() -> u8 {
        0
    }

    pub const fn v_max() -> u8 {
        3
    }
}

#[asn(set)]

#[derive(Default, Debug, Clone, PartialEq, Hash)]
pub struct Ttp15p9p5 {
    #[asn(optional(complex(Ttp15p9p5Is, tag(APPLICATION(5)))), tag(APPLICATION(5)))] pub is: Option<Ttp15p9p5Is>,
    #[asn(optional(complex(Tcho, tag(1))))] pub rc: Option<Tcho>,
    #[asn(optional(boolean))] pub b: Option<bool>,
}

impl Ttp15p9p5 {
}

#[asn(sequence, tag(APPLICATION(5)))]

#[derive(Default, Debug, Clone, PartialEq, Hash)]
pub struct Ttp15p9p6Is {
    #[asn(integer(0..3))] pub v: u8,
}

impl Ttp15p9p6Is {
    pub const fn v_min() -> u8 {
        0
    }

    pub const fn v_max() -> u8 {
        3
    }
}

#[asn(set)]

#[derive(Default, Debug, Clone, PartialEq, Hash)]
pub struct Ttp15p9p6 {
    #[asn(optional(complex(Ttp15p9p6Is, tag(APPLICATION(5)))), tag(APPLICATION(5)))] pub is: Option<Ttp15p9p6Is>,
    #[asn(optional(complex(Tcho, tag(1))))] pub rc: Option<Tcho>,
    #[asn(integer(0..255))] pub i: u8,
}

impl Ttp15p9p6 {
    pub const fn i_min() -> u8 {
        0
    }

    pub const fn i_max() -> u8 {
        255
    }
}

#[asn(sequence, tag(APPLICATION(5)))]

#[derive(Default, Debug, Clone, PartialEq, Hash)]
pub struct Ttp15p9p7Is {
    #[asn(integer(0..3))] pub v: u8,
}

impl Ttp15p9p7Is {
    pub const fn v_min() -> u8 {
        0
    }

    pub const fn v_max() -> u8 {
        3
    }
}

#[asn(set)]

#[derive(Default, Debug, Clone, PartialEq, Hash)]
pub struct Ttp15p9p7 {
    #[asn(optional(complex(Ttp15p9p7Is, tag(APPLICATION(5)))), tag(APPLICATION(5)))] pub is: Option<Ttp15p9p7Is>,
    #[asn(optional(complex(Tcho, tag(1))))] pub rc: Option<Tcho>,
    #[asn(optional(complex(Tapp9, tag(APPLICATION(9)))))] pub ra: Option<Tapp9>,
}

impl Ttp15p9p7 {
}

#[asn(sequence, tag(APPLICATION(5)))]

#[derive(Default, Debug, Clone, PartialEq, Hash)]
pub struct Ttp15p9p8Is {
    #[asn(integer(0..3))] pub v: u8,
}

impl Ttp15p9p8Is {
    pub const fn v_min() -> u8 {
        0
    }

    pub const fn v_max() -> u8 {
        3
    }
}

#[asn(set)]

#[derive(Default, Debug, Clone, PartialEq, Hash)]
pub struct Ttp15p9p8 {
    #[asn(optional(complex(Ttp15p9p8Is, tag(APPLICATION(5)))), tag(APPLICATION(5)))] pub is: Option<Ttp15p9p8Is>,
    #[asn(optional(complex(Tcho, tag(1))))] pub rc: Option<Tcho>,
    #[asn(complex(Tsq, tag(UNIVERSAL(16))))] pub rs: Tsq,
}

impl Ttp15p9p8 {
}

#[asn(sequence, tag(APPLICATION(5)))]

#[derive(Default, Debug, Clone, PartialEq, Hash)]
pub struct Ttp15p9p10Is {
    #[asn(integer(0..3))] pub v: u8,
}

impl Ttp15p9p10Is {
    pub const fn v_min() -> u8 {
        0
    }

    pub const fn v_max() -> u8 {
        3
    }
}

#[asn(set)]

#[derive(Default, Debug, Clone, PartialEq, Hash)]
pub struct Ttp15p9p10 {
    #[asn(optional(complex(Ttp15p9p10Is, tag(APPLICATION(5)))), tag(APPLICATION(5)))] pub is: Option<Ttp15p9p10Is>,
    #[asn(optional(complex(Tcho, tag(1))))] pub rc: Option<Tcho>,
    #[asn(complex(Tst, tag(UNIVERSAL(17))))] pub rt: Tst,
}

impl Ttp15p9p10 {
}

#[asn(sequence, tag(APPLICATION(5)))]

#[derive(Default, Debug, Clone, PartialEq, Hash)]
pub struct Ttp15p9p11Is {
    #[asn(integer(0..3))] pub v: u8,
}

impl Ttp15p9p11Is {
    pub const fn v_min() -> u8 {
        0
    }

    pub const fn v_max() -> u8 {
        3
    }
}

#[asn(set)]

#[derive(Default, Debug, Clone, PartialEq, Hash)]
pub struct Ttp15p9p11 {
    #[asn(optional(complex(Ttp15p9p11Is, tag(APPLICATION(5)))), tag(APPLICATION(5)))] pub is: Option<Ttp15p9p11Is>,
    #[asn(optional(complex(Tcho, tag(1))))] pub rc: Option<Tcho>,
    #[asn(optional(sequence_of(size(0..3), boolean)))] pub so: Option<Vec<bool>>,
}

impl Ttp15p9p11 {
}

#[asn(sequence, tag(APPLICATION(5)))]

#[derive(Default, Debug, Clone, PartialEq, Hash)]
pub struct Ttp15p9p12Is {
    #[asn(integer(0..3))] pub v: u8,
}

impl Ttp15p9p12Is {
    pub const fn v_min() -> u8 {
        0
    }

    pub const fn v_max() -> u8 {
        3
    }
}

#[asn(set)]

#[derive(Default, Debug, Clone, PartialEq, Hash)]
pub struct Ttp15p9p12 {
    #[asn(optional(complex(Ttp15p9p12Is, tag(APPLICATION(5)))), tag(APPLICATION(5)))] pub is: Option<Ttp15p9p12Is>,
    #[asn(optional(complex(Tcho, tag(1))))] pub rc: Option<Tcho>,
    #[asn(set_of(size(0..2), boolean))] pub st: Vec<bool>,
}

impl Ttp15p9p12 {
}

#[asn(sequence, tag(APPLICATION(5)))]

#[derive(Default, Debug, Clone, PartialEq, Hash)]
pub struct Ttp15p9p13Is {
    #[asn(integer(0..3))] pub v: u8,
}

impl Ttp15p9p13Is {
    pub const fn v_min() -> u8 {
        0
    }

    pub const fn v_max() -> u8 {
        3
    }
}

#[asn(set)]

#[derive(Default, Debug, Clone, PartialEq, Hash)]
pub struct Ttp15p9p13 {
    #[asn(optional(complex(Ttp15p9p13Is, tag(APPLICATION(5)))), tag(APPLICATION(5)))] pub is: Option<Ttp15p9p13Is>,
    #[asn(optional(complex(Tcho, tag(1))))] pub rc: Option<Tcho>,
    #[asn(optional(complex(Tchox, tag(PRIVATE(1)))))] pub rx: Option<Tchox>,
}

impl Ttp15p9p13 {
}

#[asn(sequence, tag(APPLICATION(5)))]

#[derive(Default, Debug, Clone, PartialEq, Hash)]
pub struct Ttp15p9p14Is {
    #[asn(integer(0..3))] pub v: u8,
}

impl Ttp15p9p14Is {
    pub const fn v_min() -> u8 {
        0
    }

    pub const fn v_max() -> u8 {
        3
    }
}

#[asn(set)]

#[derive(Default, Debug, Clone, PartialEq, Hash)]
pub struct Ttp15p9p14 {
    #[asn(optional(complex(Ttp15p9p14Is, tag(APPLICATION(5)))), tag(APPLICATION(5)))] pub is: Option<Ttp15p9p14Is>,
    #[asn(optional(complex(Tcho, tag(1))))] pub rc: Option<Tcho>,
    #[asn(integer(0..1), tag(UNIVERSAL(2)))] pub u2: u8,
}

impl Ttp15p9p14 {
    pub const fn u2_min() -> u8 {
        0
    }

    pub const fn u2_max() -> u8 {
        1
    }
}

#[asn(sequence, tag(APPLICATION(5)))]

#[derive(Default, Debug, Clone, PartialEq, Hash)]
pub struct Ttp15p10p0Is {
    #[asn(integer(0..3))] pub v: u8,
}

impl Ttp15p10p0Is {
    pub const fn v_min() -> u8 {
        0
    }

    pub const fn v_max() -> u8 {
        3
    }
}

#[asn(set)]

#[derive(Default, Debug, Clone, PartialEq, Hash)]
pub struct Ttp15p10p0 {
    #[asn(optional(complex(Ttp15p10p0Is, tag(APPLICATION(5)))), tag(APPLICATION(5)))] pub is: Option<Ttp15p10p0Is>,
    #[asn(complex(Tst, tag(UNIVERSAL(17))))] pub rt: Tst,
    #[asn(integer(0..7), tag(UNIVERSAL(30)))] pub x: u8,
}

impl Ttp15p10p0 {
    pub const fn x_min() -> u8 {
        0
    }

    pub const fn x_max() -> u8 {
        7
    }
}

#[asn(sequence, tag(APPLICATION(5)))]

#[derive(Default, Debug, Clone, PartialEq, Hash)]
pub struct Ttp15p10p1Is {
    #[asn(integer(0..3))] pub v: u8,
}

impl Ttp15p10p1Is {
    pub const fn v_min() -> u8 {
        0
    }

    pub const fn v_max() -> u8 {
        3
    }
}

#[asn(set)]

#[derive(Default, Debug, Clone, PartialEq, Hash)]
pub struct Ttp15p10p1 {
    #[asn(optional(complex(Ttp15p10p1Is, tag(APPLICATION(5)))), tag(APPLICATION(5)))] pub is: Option<Ttp15p10p1Is>,
    #[asn(complex(Tst, tag(UNIVERSAL(17))))] pub rt: Tst,
    #[asn(optional(integer(0..15)), tag(APPLICATION(1)))] pub a: Option<u8>,
}

impl Ttp15p10p1 {
    pub const fn a_min() -> u8 {
        0
    }

    pub const fn a_max() -> u8 {
        15
    }
}

#[asn(sequence, tag(APPLICATION(5)))]

#[derive(Default, Debug, Clone, PartialEq, Hash)]
pub struct Ttp15p10p2Is {
    #[asn(integer(0..3))] pub v: u8,
}

impl Ttp15p10p2Is {
    pub const fn v_min() -> u8 {
        0
    }

    pub const fn v_max() -> u8 {
        3
    }
}

#[asn(set)]

#[derive(Default, Debug, Clone, PartialEq, Hash)]
pub struct Ttp15p10p2 {
    #[asn(optional(complex(Ttp15p10p2Is, tag(APPLICATION(5)))), tag(APPLICATION(5)))] pub is: Option<Ttp15p10p2Is>,
    #[asn(complex(Tst, tag(UNIVERSAL(17))))] pub rt: Tst,
    #[asn(integer(0..31), tag(3))] pub c3: u8,
}

impl Ttp15p10p2 {
    pub const fn c3_min() -> u8 {
        0
    }

    pub const fn c3_max() -> u8 {
        31
    }
}

#[asn(sequence, tag(APPLICATION(5)))]

#[derive(Default, Debug, Clone, PartialEq, Hash)]
pub struct Ttp15p10p3Is {
    #[asn(integer(0..3))] pub v: u8,
}

impl Ttp15p10p3Is {
    pub const fn v_min() -> u8 {
        0
    }

    pub const fn v_max() -> u8 {
        3
    }
}

#[asn(set)]

#[derive(Default, Debug, Clone, PartialEq, Hash)]
pub struct Ttp15p10p3 {
    #[asn(optional(complex(Ttp15p10p3Is, tag(APPLICATION(5)))), tag(APPLICATION(5)))] pub is: Option<Ttp15p10p3Is>,
    #[asn(complex(Tst, tag(UNIVERSAL(17))))] pub rt: Tst,
    #[asn(optional(integer(0..63)), tag(0))] pub c0: Option<u8>,
}

impl Ttp15p10p3 {
    pub const fn c0_min() -> u8 {
        0
    }

    pub const fn c0_max() -> u8 {
        63
    }
}

#[asn(sequence, tag(APPLICATION(5)))]

#[derive(Default, Debug, Clone, PartialEq, Hash)]
pub struct Ttp15p10p4Is {
    #[asn(integer(0..3))] pub v: u8,
}

impl Ttp15p10p4Is {
    pub const fn v_min() -> u8 {
        0
    }

    pub const fn v_max() -> u8 {
        3
    }
}

#[asn(set)]

#[derive(Default, Debug, Clone, PartialEq, Hash)]
pub struct Ttp15p10p4 {
    #[asn(optional(complex(Ttp15p10p4Is, tag(APPLICATION(5)))), tag(APPLICATION(5)))] pub is: Option<Ttp15p10p4Is>,
    #[asn(complex(Tst, tag(UNIVERSAL(17))))] pub rt: Tst,
    #[asn(integer(0..127), tag(PRIVATE(2)))] pub p: u8,
}

impl Ttp15p10p4 {
    pub const fn p_min() -> u8 {
        0
    }

    pub const fn p_max() -> u8 {
        127
    }
}

#[asn(sequence, tag(APPLICATION(5)))]

#[derive(Default, Debug, Clone, PartialEq, Hash)]
pub struct Ttp15p10p5Is {
    #[asn(integer(0..3))] pub v: u8,
}

impl Ttp15p10p5Is {
    pub const fn v_min() -> u8 {
        0
    }

    pub const fn v_max() -> u8 {
        3
    }
}

#[asn(set)]

#[derive(Default, Debug, Clone, PartialEq, Hash)]
pub struct Ttp15p10p5 {
    #[asn(optional(complex(Ttp15p10p5Is, tag(APPLICATION(5)))), tag(APPLICATION(5)))] pub is: Option<Ttp15p10p5Is>,
    #[asn(complex(Tst, tag(UNIVERSAL(17))))] pub rt: Tst,
    #[asn(optional(boolean))] pub b: Option<bool>,
}

impl Ttp15p10p5 {
}

#[asn(sequence, tag(APPLICATION(5)))]

#[derive(Default, Debug, Clone, PartialEq, Hash)]
pub struct Ttp15p10p6Is {
    #[asn(integer(0..3))] pub v: u8,
}

impl Ttp15p10p6Is {
    pub const fn v_min() -> u8 {
        0
    }

    pub const fn v_max() -> u8 {
        3
    }
}

#[asn(set)]

#[derive(Default, Debug, Clone, PartialEq, Hash)]
pub struct Ttp15p10p6 {
    #[asn(optional(complex(Ttp15p10p6Is, tag(APPLICATION(5)))), tag(APPLICATION(5)))] pub is: Option<Ttp15p10p6Is>,
    #[asn(complex(Tst, tag(UNIVERSAL(17))))] pub rt: Tst,
    #[asn(integer(0..255))] pub i: u8,
}

impl Ttp15p10p6 {
    pub const fn i_min() -> u8 {
        0
    }

    pub const fn i_max() -> u8 {
        255
    }
}

#[asn(sequence, tag(APPLICATION(5)))]

#[derive(Default, Debug, Clone, PartialEq, Hash)]
pub struct Ttp15p10p7Is {
    #[asn(integer(0..3))] pub v: u8,
}

impl Ttp15p10p7Is {
    pub const fn v_min() -> u8 {
        0
    }

    pub const fn v_max() -> u8 {
        3
    }
}

#[asn(set)]

#[derive(Default, Debug, Clone, PartialEq, Hash)]
pub struct Ttp15p10p7 {
    #[asn(optional(complex(Ttp15p10p7Is, tag(APPLICATION(5)))), tag(APPLICATION(5)))] pub is: Option<Ttp15p10p7Is>,
    #[asn(complex(Tst, tag(UNIVERSAL(17))))] pub rt: Tst,
    #[asn(optional(complex(Tapp9, tag(APPLICATION(9)))))] pub ra: Option<Tapp9>,
}

impl Ttp15p10p7 {
}

#[asn(sequence, tag(APPLICATION(5)))]

#[derive(Default, Debug, Clone, PartialEq, Hash)]
pub struct Ttp15p10p8Is {
    #[asn(integer(0..3))] pub v: u8,
}

impl Ttp15p10p8Is {
    pub const fn v_min() -> u8 {
        0
    }

    pub const fn v_max() -> u8 {
        3
    }
}

#[asn(set)]

#[derive(Default, Debug, Clone, PartialEq, Hash)]
pub struct Ttp15p10p8 {
    #[asn(optional(complex(Ttp15p10p8Is, tag(APPLICATION(5)))), tag(APPLICATION(5)))] pub is: Option<Ttp15p10p8Is>,
    #[asn(complex(Tst, tag(UNIVERSAL(17))))] pub rt: Tst,
    #[asn(complex(Tsq, tag(UNIVERSAL(16))))] pub rs: Tsq,
}

impl Ttp15p10p8 {
}

#[asn(sequence, tag(APPLICATION(5)))]

#[derive(Default, Debug, Clone, PartialEq, Hash)]
pub struct Ttp15p10p9Is {
    #[asn(integer(0..3))] pub v: u8,
}

impl Ttp15p10p9Is {
    pub const fn v_min() -> u8 {
        0
    }

    pub const fn v_max() -> u8 {
        3
    }
}

#[asn(set)]

#[derive(Default, Debug, Clone, PartialEq, Hash)]
pub struct Ttp15p10p9 {
    #[asn(optional(complex(Ttp15p10p9Is, tag(APPLICATION(5)))), tag(APPLICATION(5)))] pub is: Option<Ttp15p10p9Is>,
    #[asn(complex(Tst, tag(UNIVERSAL(17))))] pub rt: Tst,
    #[asn(optional(complex(Tcho, tag(1))))] pub rc: Option<Tcho>,
}

impl Ttp15p10p9 {
}

#[asn(sequence, tag(APPLICATION(5)))]

#[derive(Default, Debug, Clone, PartialEq, Hash)]
pub struct Ttp15p10p11Is {
    #[asn(integer(0..3))] pub v: u8,
}

impl Ttp15p10p11Is {
    pub const fn v_min() -> u8 {
        0
    }

    pub const fn v_max() -> u8 {
        3
    }
}

#[asn(set)]

#[derive(Default, Debug, Clone, PartialEq, Hash)]
pub struct Ttp15p10p11 {
    #[asn(optional(complex(Ttp15p10p11Is, tag(APPLICATION(5)))), tag(APPLICATION(5)))] pub is: Option<Ttp15p10p11Is>,
    #[asn(complex(Tst, tag(UNIVERSAL(17))))] pub rt: Tst,
    #[asn(optional(sequence_of(size(0..3), boolean)))] pub so: Option<Vec<bool>>,
}

impl Ttp15p10p11 {
}

#[asn(sequence, tag(APPLICATION(5)))]

#[derive(Default, Debug, Clone, PartialEq, Hash)]
pub struct Ttp15p10p12Is {
    #[asn(integer(0..3))] pub v: u8,
}

impl Ttp15p10p12Is {
    pub const fn v_min() -> u8 {
        0
    }

    pub const fn v_max() -> u8 {
        3
    }
}

#[asn(set)]

#[derive(Default, Debug, Clone, PartialEq, Hash)]
pub struct Ttp15p10p12 {
    #[asn(optional(complex(Ttp15p10p12Is, tag(APPLICATION(5)))), tag(APPLICATION(5)))] pub is: Option<Ttp15p10p12Is>,
    #[asn(complex(Tst, tag(UNIVERSAL(17))))] pub rt: Tst,
    #[asn(set_of(size(0..2), boolean))] pub st: Vec<bool>,
}

impl Ttp15p10p12 {
}

#[asn(sequence, tag(APPLICATION(5)))]

#[derive(Default, Debug, Clone, PartialEq, Hash)]
pub struct Ttp15p10p13Is {
    #[asn(integer(0..3))] pub v: u8,
}

impl Ttp15p10p13Is {
    pub const fn v_min() -> u8 {
        0
    }

    pub const fn v_max() -> u8 {
        3
    }
}

#[asn(set)]

#[derive(Default, Debug, Clone, PartialEq, Hash)]
pub struct Ttp15p10p13 {
    #[asn(optional(complex(Ttp15p10p13Is, tag(APPLICATION(5)))), tag(APPLICATION(5)))] pub is: Option<Ttp15p10p13Is>,
    #[asn(complex(Tst, tag(UNIVERSAL(17))))] pub rt: Tst,
    #[asn(optional(complex(Tchox, tag(PRIVATE(1)))))] pub rx: Option<Tchox>,
}

impl Ttp15p10p13 {
}

#[asn(sequence, tag(APPLICATION(5)))]

#[derive(Default, Debug, Clone, PartialEq, Hash)]
pub struct Ttp15p10p14Is {
    #[asn(integer(0..3))] pub v: u8,
}

impl Ttp15p10p14Is {
    pub const fn v_min() -> u8 {
        0
    }

    pub const fn v_max() -> u8 {
        3
    }
}

#[asn(set)]

#[derive(Default, Debug, Clone, PartialEq, Hash)]
pub struct Ttp15p10p14 {
    #[asn(optional(complex(Ttp15p10p14Is, tag(APPLICATION(5)))), tag(APPLICATION(5)))] pub is: Option<Ttp15p10p14Is>,
    #[asn(complex(Tst, tag(UNIVERSAL(17))))] pub rt: Tst,
    #[asn(integer(0..1), tag(UNIVERSAL(2)))] pub u2: u8,
}

impl Ttp15p10p14 {
    pub const fn u2_min() -> u8 {
        0
    }

    pub const fn u2_max() -> u8 {
        1
    }
}

#[asn(sequence, tag(APPLICATION(5)))]

#[derive(Default, Debug, Clone, PartialEq, Hash)]
pub struct Ttp15p11p0Is {
    #[asn(integer(0..3))] pub v: u8,
}

impl Ttp15p11p0Is {
    pub const fn v_min() -> u8 {
        0
    }

    pub const fn v_max() -> u8 {
        3
    }
}

#[asn(set)]

#[derive(Default, Debug, Clone, PartialEq, Hash)]
pub struct Ttp15p11p0 {
    #[asn(optional(complex(Ttp15p11p0Is, tag(APPLICATION(5)))), tag(APPLICATION(5)))] pub is: Option<Ttp15p11p0Is>,
    #[asn(optional(sequence_of(size(0..3), boolean)))] pub so: Option<Vec<bool>>,
    #[asn(integer(0..7), tag(UNIVERSAL(30)))] pub x: u8,
}

impl Ttp15p11p0 {
    pub const fn x_min() -> u8 {
        0
    }

    pub const fn x_max() -> u8 {
        7
    }
}

#[asn(sequence, tag(APPLICATION(5)))]

#[derive(Default, Debug, Clone, PartialEq, Hash)]
pub struct Ttp15p11p1Is {
    #[asn(integer(0..3))] pub v: u8,
}

impl Ttp15p11p1Is {
    pub const fn v_min() -> u8 {
        0
    }

    pub const fn v_max() -> u8 {
        3
    }
}

#[asn(set)]

#[derive(Default, Debug, Clone, PartialEq, Hash)]
pub struct Ttp15p11p1 {
    #[asn(optional(complex(Ttp15p11p1Is, tag(APPLICATION(5)))), tag(APPLICATION(5)))] pub is: Option<Ttp15p11p1Is>,
    #[asn(optional(sequence_of(size(0..3), boolean)))] pub so: Option<Vec<bool>>,
    #[asn(optional(integer(0..15)), tag(APPLICATION(1)))] pub a: Option<u8>,
}

impl Ttp15p11p1 {
    pub const fn a_min() -> u8 {
        0
    }

    pub const fn a_max() -> u8 {
        15
    }
}

#[asn(sequence, tag(APPLICATION(5)))]

#[derive(Default, Debug, Clone, PartialEq, Hash)]
pub struct Ttp15p11p2Is {
    #[asn(integer(0..3))] pub v: u8,
}

impl Ttp15p11p2Is {
    pub const fn v_min() -> u8 {
        0
    }

    pub const fn v_max() -> u8 {
        3
    }
}

#[asn(set)]

#[derive(Default, Debug, Clone, PartialEq, Hash)]
pub struct Ttp15p11p2 {
    #[asn(optional(complex(Ttp15p11p2Is, tag(APPLICATION(5)))), tag(APPLICATION(5)))] pub is: Option<Ttp15p11p2Is>,
    #[asn(optional(sequence_of(size(0..3), boolean)))] pub so: Option<Vec<bool>>,
    #[asn(integer(0..31), tag(3))] pub c3: u8,
}

impl Ttp15p11p2 {
    pub const fn c3_min() -> u8 {
        0
    }

    pub const fn c3_max() -> u8 {
        31
    }
}

#[asn(sequence, tag(APPLICATION(5)))]

#[derive(Default, Debug, Clone, PartialEq, Hash)]
pub struct Ttp15p11p3Is {
    #[asn(integer(0..3))] pub v: u8,
}

impl Ttp15p11p3Is {
    pub const fn v_min() -> u8 {
        0
    }

    pub const fn v_max() -> u8 {
        3
    }
}

#[asn(set)]

#[derive(Default, Debug, Clone, PartialEq, Hash)]
pub struct Ttp15p11p3 {
    #[asn(optional(complex(Ttp15p11p3Is, tag(APPLICATION(5)))), tag(APPLICATION(5)))] pub is: Option<Ttp15p11p3Is>,
    #[asn(optional(sequence_of(size(0..3), boolean)))] pub so: Option<Vec<bool>>,
    #[asn(optional(integer(0..63)), tag(0))] pub c0: Option<u8>,
}

impl Ttp15p11p3 {
    pub const fn c0_min() -> u8 {
        0
    }

    pub const fn c0_max() -> u8 {
        63
    }
}

#[asn(sequence, tag(APPLICATION(5)))]

#[derive(Default, Debug, Clone, PartialEq, Hash)]
pub struct Ttp15p11p4Is {
    #[asn(integer(0..3))] pub v: u8,
}

impl Ttp15p11p4Is {
    pub const fn v_min() -> u8 {
        0
    }

    pub const fn v_max() -> u8 {
        3
    }
}

#[asn(set)]

#[derive(Default, Debug, Clone, PartialEq, Hash)]
pub struct Ttp15p11p4 {
    #[asn(optional(complex(Ttp15p11p4Is, tag(APPLICATION(5)))), tag(APPLICATION(5)))] pub is: Option<Ttp15p11p4Is>,
    #[asn(optional(sequence_of(size(0..3), boolean)))] pub so: Option<Vec<bool>>,
    #[asn(integer(0..127), tag(PRIVATE(2)))] pub p: u8,
}

impl Ttp15p11p4 {
    pub const fn p_min() -> u8 {
        0
    }

    pub const fn p_max() -> u8 {
        127
    }
}

#[asn(sequence, tag(APPLICATION(5)))]

#[derive(Default, Debug, Clone, PartialEq, Hash)]
pub struct Ttp15p11p5Is {
    #[asn(integer(0..3))] pub v: u8,
}

impl Ttp15p11p5Is {
    pub const fn v_min() -> u8 {
        0
    }

    pub const fn v_max() -> u8 {
        3
    }
}

#[asn(set)]

#[derive(Default, Debug, Clone, PartialEq, Hash)]
pub struct Ttp15p11p5 {
    #[asn(optional(complex(Ttp15p11p5Is, tag(APPLICATION(5)))), tag(APPLICATION(5)))] pub is: Option<Ttp15p11p5Is>,
    #[asn(optional(sequence_of(size(0..3), boolean)))] pub so: Option<Vec<bool>>,
    #[asn(optional(boolean))] pub b: Option<bool>,
}

impl Ttp15p11p5 {
}

#[asn(sequence, tag(APPLICATION(5)))]

#[derive(Default, Debug, Clone, PartialEq, Hash)]
pub struct Ttp15p11p6Is {
    #[asn(integer(0..3))] pub v: u8,
}

impl Ttp15p11p6Is {
    pub const fn v_min() -> u8 {
        0
    }

    pub const fn v_max() -> u8 {
        3
    }
}

#[asn(set)]

#[derive(Default, Debug, Clone, PartialEq, Hash)]
pub struct Ttp15p11p6 {
    #[asn(optional(complex(Ttp15p11p6Is, tag(APPLICATION(5)))), tag(APPLICATION(5)))] pub is: Option<Ttp15p11p6Is>,
    #[asn(optional(sequence_of(size(0..3), boolean)))] pub so: Option<Vec<bool>>,
    #[asn(integer(0..255))] pub i: u8,
}

impl Ttp15p11p6 {
    pub const fn i_min() -> u8 {
        0
    }

    pub const fn i_max() -> u8 {
        255
    }
}

#[asn(sequence, tag(APPLICATION(5)))]

#[derive(Default, Debug, Clone, PartialEq, Hash)]
pub struct Ttp15p11p7Is {
    #[asn(integer(0..3))] pub v: u8,
}

impl Ttp15p11p7Is {
    pub const fn v_min() -> u8 {
        0
    }

    pub const fn v_max() -> u8 {
        3
    }
}

#[asn(set)]

#[derive(Default, Debug, Clone, PartialEq, Hash)]
pub struct Ttp15p11p7 {
    #[asn(optional(complex(Ttp15p11p7Is, tag(APPLICATION(5)))), tag(APPLICATION(5)))] pub is: Option<Ttp15p11p7Is>,
    #[asn(optional(sequence_of(size(0..3), boolean)))] pub so: Option<Vec<bool>>,
    #[asn(optional(complex(Tapp9, tag(APPLICATION(9)))))] pub ra: Option<Tapp9>,
}

impl Ttp15p11p7 {
}

#[asn(sequence, tag(APPLICATION(5)))]

#[derive(Default, Debug, Clone, PartialEq, Hash)]
pub struct Ttp15p11p8Is {
    #[asn(integer(0..3))] pub v: u8,
}

impl Ttp15p11p8Is {
    pub const fn v_min() -> u8 {
        0
    }

    pub const fn v_max() -> u8 {
        3
    }
}

#[asn(set)]

#[derive(Default, Debug, Clone, PartialEq, Hash)]
pub struct Ttp15p11p8 {
    #[asn(optional(complex(Ttp15p11p8Is, tag(APPLICATION(5)))), tag(APPLICATION(5)))] pub is: Option<Ttp15p11p8Is>,
    #[asn(optional(sequence_of(size(0..3), boolean)))] pub so: Option<Vec<bool>>,
    #[asn(complex(Tsq, tag(UNIVERSAL(16))))] pub rs: Tsq,
}

impl Ttp15p11p8 {
}

#[asn(sequence, tag(APPLICATION(5)))]

#[derive(Default, Debug, Clone, PartialEq, Hash)]
pub struct Ttp15p11p9Is {
    #[asn(integer(0..3))] pub v: u8,
}

impl Ttp15p11p9Is {
    pub const fn v_min() -> u8 {
        0
    }

    pub const fn v_max() -> u8 {
        3
    }
}

#[asn(set)]

#[derive(Default, Debug, Clone, PartialEq, Hash)]
pub struct Ttp15p11p9 {
    #[asn(optional(complex(Ttp15p11p9Is, tag(APPLICATION(5)))), tag(APPLICATION(5)))] pub is: Option<Ttp15p11p9Is>,
    #[asn(optional(sequence_of(size(0..3), boolean)))] pub so: Option<Vec<bool>>,
    #[asn(optional(complex(Tcho, tag(1))))] pub rc: Option<Tcho>,
}

impl Ttp15p11p9 {
}

#[asn(sequence, tag(APPLICATION(5)))]

#[derive(Default, Debug, Clone, PartialEq, Hash)]
pub struct Ttp15p11p10Is {
    #[asn(integer(0..3))] pub v: u8,
}

impl Ttp15p11p10Is {
    pub const fn v_min() -> u8 {
        0
    }

    pub const fn v_max() -> u8 {
        3
    }
}

#[asn(set)]

#[derive(Default, Debug, Clone, PartialEq, Hash)]
pub struct Ttp15p11p10 {
    #[asn(optional(complex(Ttp15p11p10Is, tag(APPLICATION(5)))), tag(APPLICATION(5)))] pub is: Option<Ttp15p11p10Is>,
    #[asn(optional(sequence_of(size(0..3), boolean)))] pub so: Option<Vec<bool>>,
    #[asn(complex(Tst, tag(UNIVERSAL(17))))] pub rt: Tst,
}

impl Ttp15p11p10 {
}

#[asn(sequence, tag(APPLICATION(5)))]

#[derive(Default, Debug, Clone, PartialEq, Hash)]
pub struct Ttp15p11p12Is {
    #[asn(integer(0..3))] pub v: u8,
}

impl Ttp15p11p12Is {
    pub const fn v_min() -> u8 {
        0
    }

    pub const fn v_max() -> u8 {
        3
    }
}

#[asn(set)]

#[derive(Default, Debug, Clone, PartialEq, Hash)]
pub struct Ttp15p11p12 {
    #[asn(optional(complex(Ttp15p11p12Is, tag(APPLICATION(5)))), tag(APPLICATION(5)))] pub is: Option<Ttp15p11p12Is>,
    #[asn(optional(sequence_of(size(0..3), boolean)))] pub so: Option<Vec<bool>>,
    #[asn(set_of(size(0..2), boolean))] pub st: Vec<bool>,
}

impl Ttp15p11p12 {
}

#[asn(sequence, tag(APPLICATION(5)))]

#[derive(Default, Debug, Clone, PartialEq, Hash)]
pub struct Ttp15p11p13Is {
    #[asn(integer(0..3))] pub v: u8,
}

impl Ttp15p11p13Is {
    pub const fn v_min() -> u8 {
        0
    }

    pub const fn v_max() -> u8 {
        3
    }
}

#[asn(set)]

#[derive(Default, Debug, Clone, PartialEq, Hash)]
pub struct Ttp15p11p13 {
    #[asn(optional(complex(Ttp15p11p13Is, tag(APPLICATION(5)))), tag(APPLICATION(5)))] pub is: Option<Ttp15p11p13Is>,
    #[asn(optional(sequence_of(size(0..3), boolean)))] pub so: Option<Vec<bool>>,
    #[asn(optional(complex(Tchox, tag(PRIVATE(1)))))] pub rx: Option<Tchox>,
}

impl Ttp15p11p13 {
}

#[asn(sequence, tag(APPLICATION(5)))]

#[derive(Default, Debug, Clone, PartialEq, Hash)]
pub struct Ttp15p11p14Is {
    #[asn(integer(0..3))] pub v: u8,
}

impl Ttp15p11p14Is {
    pub const fn v_min() -> u8 {
        0
    }

    pub const fn v_max() -> u8 {
        3
    }
}

#[asn(set)]

#[derive(Default, Debug, Clone, PartialEq, Hash)]
pub struct Ttp15p11p14 {
    #[asn(optional(complex(Ttp15p11p14Is, tag(APPLICATION(5)))), tag(APPLICATION(5)))] pub is: Option<Ttp15p11p14Is>,
    #[asn(optional(sequence_of(size(0..3), boolean)))] pub so: Option<Vec<bool>>,
    #[asn(integer(0..1), tag(UNIVERSAL(2)))] pub u2: u8,
}

impl Ttp15p11p14 {
    pub const fn u2_min() -> u8 {
        0
    }

    pub const fn u2_max() -> u8 {
        1
    }
}

#[asn(sequence, tag(APPLICATION(5)))]

#[derive(Default, Debug, Clone, PartialEq, Hash)]
pub struct Ttp15p12p0Is {
    #[asn(integer(0..3))] pub v: u8,
}

impl Ttp15p12p0Is {
    pub const fn v_min() -> u8 {
        0
    }

    pub const fn v_max() -> u8 {
        3
    }
}

#[asn(set)]

#[derive(Default, Debug, Clone, PartialEq, Hash)]
pub struct Ttp15p12p0 {
    #[asn(optional(complex(Ttp15p12p0Is, tag(APPLICATION(5)))), tag(APPLICATION(5)))] pub is: Option<Ttp15p12p0Is>,
    #[asn(set_of(size(0..2), boolean))] pub st: Vec<bool>,
    #[asn(integer(0..7), tag(UNIVERSAL(30)))] pub x: u8,
}

impl Ttp15p12p0 {
    pub const fn x_min() -> u8 {
        0
    }

    pub const fn x_max() -> u8 {
        7
    }
}

#[asn(sequence, tag(APPLICATION(5)))]

#[derive(Default, Debug, Clone, PartialEq, Hash)]
pub struct Ttp15p12p1Is {
    #[asn(integer(0..3))] pub v: u8,
}

impl Ttp15p12p1Is {
    pub const fn v_min() -> u8 {
        0
    }

    pub const fn v_max() -> u8 {
        3
    }
}

#[asn(set)]

#[derive(Default, Debug, Clone, PartialEq, Hash)]
pub struct Ttp15p12p1 {
    #[asn(optional(complex(Ttp15p12p1Is, tag(APPLICATION(5)))), tag(APPLICATION(5)))] pub is: Option<Ttp15p12p1Is>,
    #[asn(set_of(size(0..2), boolean))] pub st: Vec<bool>,
    #[asn(optional(integer(0..15)), tag(APPLICATION(1)))] pub a: Option<u8>,
}

impl Ttp15p12p1 {
    pub const fn a_min() -> u8 {
        0
    }

    pub const fn a_max() -> u8 {
        15
    }
}

#[asn(sequence, tag(APPLICATION(5)))]

#[derive(Default, Debug, Clone, PartialEq, Hash)]
pub struct Ttp15p12p2Is {
    #[asn(integer(0..3))] pub v: u8,
}

impl Ttp15p12p2Is {
    pub const fn v_min() -> u8 {
        0
    }

    pub const fn v_max() -> u8 {
        3
    }
}

#[asn(set)]

#[derive(Default, Debug, Clone, PartialEq, Hash)]
pub struct Ttp15p12p2 {
    #[asn(optional(complex(Ttp15p12p2Is, tag(APPLICATION(5)))), tag(APPLICATION(5)))] pub is: Option<Ttp15p12p2Is>,
    #[asn(set_of(size(0..2), boolean))] pub st: Vec<bool>,
    #[asn(integer(0..31), tag(3))] pub c3: u8,
}

impl Ttp15p12p2 {
    pub const fn c3_min() -> u8 {
        0
    }

    pub const fn c3_max() -> u8 {
        31
    }
}

#[asn(sequence, tag(APPLICATION(5)))]

#[derive(Default, Debug, Clone, PartialEq, Hash)]
pub struct Ttp15p12p3Is {
    #[asn(integer(0..3))] pub v: u8,
}

impl Ttp15p12p3Is {
    pub const fn v_min() -> u8 {
        0
    }

    pub const fn v_max() -> u8 {
        3
    }
}

#[asn(set)]

#[derive(Default, Debug, Clone, PartialEq, Hash)]
pub struct Ttp15p12p3 {
    #[asn(optional(complex(Ttp15p12p3Is, tag(APPLICATION(5)))), tag(APPLICATION(5)))] pub is: Option<Ttp15p12p3Is>,
    #[asn(set_of(size(0..2), boolean))] pub st: Vec<bool>,
    #[asn(optional(integer(0..63)), tag(0))] pub c0: Option<u8>,
}

impl Ttp15p12p3 {
    pub const fn c0_min() -> u8 {
        0
    }

    pub const fn c0_max() -> u8 {
        63
    }
}

#[asn(sequence, tag(APPLICATION(5)))]

#[derive(Default, Debug, Clone, PartialEq, Hash)]
pub struct Ttp15p12p4Is {
    #[asn(integer(0..3))] pub v: u8,
}

impl Ttp15p12p4Is {
    pub const fn v_min() -> u8 {
        0
    }

    pub const fn v_max() -> u8 {
        3
    }
}

#[asn(set)]

#[derive(Default, Debug, Clone, PartialEq, Hash)]
pub struct Ttp15p12p4 {
    #[asn(optional(complex(Ttp15p12p4Is, tag(APPLICATION(5)))), tag(APPLICATION(5)))] pub is: Option<Ttp15p12p4Is>,
    #[asn(set_of(size(0..2), boolean))] pub st: Vec<bool>,
    #[asn(integer(0..127), tag(PRIVATE(2)))] pub p: u8,
}

impl Ttp15p12p4 {
    pub const fn p_min() -> u8 {
        0
    }

    pub const fn p_max() -> u8 {
        127
    }
}

#[asn(sequence, tag(APPLICATION(5)))]

#[derive(Default, Debug, Clone, PartialEq, Hash)]
pub struct Ttp15p12p5Is {
    #[asn(integer(0..3))] pub v: u8,
}

impl Ttp15p12p5Is {
    pub const fn v_min() -> u8 {
        0
    }

    pub const fn v_max() -> u8 {
        3
    }
}

#[asn(set)]

#[derive(Default, Debug, Clone, PartialEq, Hash)]
pub struct Ttp15p12p5 {
    #[asn(optional(complex(Ttp15p12p5Is, tag(APPLICATION(5)))), tag(APPLICATION(5)))] pub is: Option<Ttp15p12p5Is>,
    #[asn(set_of(size(0..2), boolean))] pub st: Vec<bool>,
    #[asn(optional(boolean))] pub b: Option<bool>,
}

impl Ttp15p12p5 {
}

#[asn(sequence, tag(APPLICATION(5)))]

#[derive(Default, Debug, Clone, PartialEq, Hash)]
pub struct Ttp15p12p6Is {
    #[asn(integer(0..3))] pub v: u8,
}

impl Ttp15p12p6Is {
    pub const fn v_min() -> u8 {
        0
    }

    pub const fn v_max() -> u8 {
        3
    }
}

#[asn(set)]

#[derive(Default, Debug, Clone, PartialEq, Hash)]
pub struct Ttp15p12p6 {
    #[asn(optional(complex(Ttp15p12p6Is, tag(APPLICATION(5)))), tag(APPLICATION(5)))] pub is: Option<Ttp15p12p6Is>,
    #[asn(set_of(size(0..2), boolean))] pub st: Vec<bool>,
    #[asn(integer(0..255))] pub i: u8,
}

impl Ttp15p12p6 {
    pub const fn i_min() -> u8 {
        0
    }

    pub const fn i_max() -> u8 {
        255
    }
}

#[asn(sequence, tag(APPLICATION(5)))]

#[derive(Default, Debug, Clone, PartialEq, Hash)]
pub struct Ttp15p12p7Is {
    #[asn(integer(0..3))] pub v: u8,
}

impl Ttp15p12p7Is {
    pub const fn v_min() -> u8 {
        0
    }

    pub const fn v_max() -> u8 {
        3
    }
}

#[asn(set)]

#[derive(Default, Debug, Clone, PartialEq, Hash)]
pub struct Ttp15p12p7 {
    #[asn(optional(complex(Ttp15p12p7Is, tag(APPLICATION(5)))), tag(APPLICATION(5)))] pub is: Option<Ttp15p12p7Is>,
    #[asn(set_of(size(0..2), boolean))] pub st: Vec<bool>,
    #[asn(optional(complex(Tapp9, tag(APPLICATION(9)))))] pub ra: Option<Tapp9>,
}

impl Ttp15p12p7 {
}

#[asn(sequence, tag(APPLICATION(5)))]

#[derive(Default, Debug, Clone, PartialEq, Hash)]
pub struct Ttp15p12p8Is {
    #[asn(integer(0..3))] pub v: u8,
}

impl Ttp15p12p8Is {
    pub const fn v_min() -> u8 {
        0
    }

    pub const fn v_max() -> u8 {
        3
    }
}

#[asn(set)]

#[derive(Default, Debug, Clone, PartialEq, Hash)]
pub struct Ttp15p12p8 {
    #[asn(optional(complex(Ttp15p12p8Is, tag(APPLICATION(5)))), tag(APPLICATION(5)))] pub is: Option<Ttp15p12p8Is>,
    #[asn(set_of(size(0..2), boolean))] pub st: Vec<bool>,
    #[asn(complex(Tsq, tag(UNIVERSAL(16))))] pub rs: Tsq,
}

impl Ttp15p12p8 {
}

#[asn(sequence, tag(APPLICATION(5)))]

#[derive(Default, Debug, Clone, PartialEq, Hash)]
pub struct Ttp15p12p9Is {
    #[asn(integer(0..3))] pub v: u8,
}

impl Ttp15p12p9Is {
    pub const fn v_min() -> u8 {
        0
    }

    pub const fn v_max() -> u8 {
        3
    }
}

#[asn(set)]

#[derive(Default, Debug, Clone, PartialEq, Hash)]
pub struct Ttp15p12p9 {
    #[asn(optional(complex(Ttp15p12p9Is, tag(APPLICATION(5)))), tag(APPLICATION(5)))] pub is: Option<Ttp15p12p9Is>,
    #[asn(set_of(size(0..2), boolean))] pub st: Vec<bool>,
    #[asn(optional(complex(Tcho, tag(1))))] pub rc: Option<Tcho>,
}

impl Ttp15p12p9 {
}

#[asn(sequence, tag(APPLICATION(5)))]

#[derive(Default, Debug, Clone, PartialEq, Hash)]
pub struct Ttp15p12p10Is {
    #[asn(integer(0..3))] pub v: u8,
}

impl Ttp15p12p10Is {
    pub const fn v_min() -> u8 {
        0
    }

    pub const fn v_max() -> u8 {
        3
    }
}

#[asn(set)]

#[derive(Default, Debug, Clone, PartialEq, Hash)]
pub struct Ttp15p12p10 {
    #[asn(optional(complex(Ttp15p12p10Is, tag(APPLICATION(5)))), tag(APPLICATION(5)))] pub is: Option<Ttp15p12p10Is>,
    #[asn(set_of(size(0..2), boolean))] pub st: Vec<bool>,
    #[asn(complex(Tst, tag(UNIVERSAL(17))))] pub rt: Tst,
}

impl Ttp15p12p10 {
}

#[asn(sequence, tag(APPLICATION(5)))]

#[derive(Default, Debug, Clone, PartialEq, Hash)]
pub struct Ttp15p12p11Is {
    #[asn(integer(0..3))] pub v: u8,
}

impl Ttp15p12p11Is {
    pub const fn v_min() -> u8 {
        0
    }

    pub const fn v_max() -> u8 {
        3
    }
}

#[asn(set)]

#[derive(Default, Debug, Clone, PartialEq, Hash)]
pub struct Ttp15p12p11 {
    #[asn(optional(complex(Ttp15p12p11Is, tag(APPLICATION(5)))), tag(APPLICATION(5)))] pub is: Option<Ttp15p12p11Is>,
    #[asn(set_of(size(0..2), boolean))] pub st: Vec<bool>,
    #[asn(optional(sequence_of(size(0..3), boolean)))] pub so: Option<Vec<bool>>,
}

impl Ttp15p12p11 {
}

#[asn(sequence, tag(APPLICATION(5)))]

#[derive(Default, Debug, Clone, PartialEq, Hash)]
pub struct Ttp15p12p13Is {
    #[asn(integer(0..3))] pub v: u8,
}

impl Ttp15p12p13Is {
    pub const fn v_min() -> u8 {
        0
    }

    pub const fn v_max() -> u8 {
        3
    }
}

#[asn(set)]

#[derive(Default, Debug, Clone, PartialEq, Hash)]
pub struct Ttp15p12p13 {
    #[asn(optional(complex(Ttp15p12p13Is, tag(APPLICATION(5)))), tag(APPLICATION(5)))] pub is: Option<Ttp15p12p13Is>,
    #[asn(set_of(size(0..2), boolean))] pub st: Vec<bool>,
    #[asn(optional(complex(Tchox, tag(PRIVATE(1)))))] pub rx: Option<Tchox>,
}

impl Ttp15p12p13 {
}

#[asn(sequence, tag(APPLICATION(5)))]

#[derive(Default, Debug, Clone, PartialEq, Hash)]
pub struct Ttp15p12p14Is {
    #[asn(integer(0..3))] pub v: u8,
}

impl Ttp15p12p14Is {
    pub const fn v_min() -> u8 {
        0
    }

    pub const fn v_max() -> u8 {
        3
    }
}

#[asn(set)]

#[derive(Default, Debug, Clone, PartialEq, Hash)]
pub struct Ttp15p12p14 {
    #[asn(optional(complex(Ttp15p12p14Is, tag(APPLICATION(5)))), tag(APPLICATION(5)))] pub is: Option<Ttp15p12p14Is>,
    #[asn(set_of(size(0..2), boolean))] pub st: Vec<bool>,
    #[asn(integer(0..1), tag(UNIVERSAL(2)))] pub u2: u8,
}

impl Ttp15p12p14 {
    pub const fn u2_min() -> u8 {
        0
    }

    pub const fn u2_max() -> u8 {
        1
    }
}

#[asn(sequence, tag(APPLICATION(5)))]

#[derive(Default, Debug, Clone, PartialEq, Hash)]
pub struct Ttp15p13p0Is {
    #[asn(integer(0..3))] pub v: u8,
}

impl Ttp15p13p0Is {
    pub const fn v_min() -> u8 {
        0
    }

    pub const fn v_max() -> u8 {
        3
    }
}

#[asn(set)]

#[derive(Default, Debug, Clone, PartialEq, Hash)]
pub struct Ttp15p13p0 {
    #[asn(optional(complex(Ttp15p13p0Is, tag(APPLICATION(5)))), tag(APPLICATION(5)))] pub is: Option<Ttp15p13p0Is>,
    #[asn(optional(complex(Tchox, tag(PRIVATE(1)))))] pub rx: Option<Tchox>,
    #[asn(integer(0..7), tag(UNIVERSAL(30)))] pub x: u8,
}

impl Ttp15p13p0 {
    pub const fn x_min() -> u8 {
        0
    }

    pub const fn x_max() -> u8 {
        7
    }
}

#[asn(sequence, tag(APPLICATION(5)))]

#[derive(Default, Debug, Clone, PartialEq, Hash)]
pub struct Ttp15p13p1Is {
    #[asn(integer(0..3))] pub v: u8,
}

impl Ttp15p13p1Is {
    pub const fn v_min() -> u8 {
        0
    }

    pub const fn v_max() -> u8 {
        3
    }
}

#[asn(set)]

#[derive(Default, Debug, Clone, PartialEq, Hash)]
pub struct Ttp15p13p1 {
    #[asn(optional(complex(Ttp15p13p1Is, tag(APPLICATION(5)))), tag(APPLICATION(5)))] pub is: Option<Ttp15p13p1Is>,
    #[asn(optional(complex(Tchox, tag(PRIVATE(1)))))] pub rx: Option<Tchox>,
    #[asn(optional(integer(0..15)), tag(APPLICATION(1)))] pub a: Option<u8>,
}

impl Ttp15p13p1 {
    pub const fn a_min() -> u8 {
        0
    }

    pub const fn a_max() -> u8 {
        15
    }
}

#[asn(sequence, tag(APPLICATION(5)))]

#[derive(Default, Debug, Clone, PartialEq, Hash)]
pub struct Ttp15p13p2Is {
    #[asn(integer(0..3))] pub v: u8,
}

impl Ttp15p13p2Is {
    pub const fn v_min() -> u8 {
        0
    }

    pub const fn v_max() -> u8 {
        3
    }
}

#[asn(set)]

#[derive(Default, Debug, Clone, PartialEq, Hash)]
pub struct Ttp15p13p2 {
    #[asn(optional(complex(Ttp15p13p2Is, tag(APPLICATION(5)))), tag(APPLICATION(5)))] pub is: Option<Ttp15p13p2Is>,
    #[asn(optional(complex(Tchox, tag(PRIVATE(1)))))] pub rx: Option<Tchox>,
    #[asn(integer(0..31), tag(3))] pub c3: u8,
}

impl Ttp15p13p2 {
    pub const fn c3_min() -> u8 {
        0
    }

    pub const fn c3_max() -> u8 {
        31
    }
}

#[asn(sequence, tag(APPLICATION(5)))]

#[derive(Default, Debug, Clone, PartialEq, Hash)]
pub struct Ttp15p13p3Is {
    #[asn(integer(0..3))] pub v: u8,
}

impl Ttp15p13p3Is {
    pub const fn v_min() -> u8 {
        0
    }

    pub const fn v_max() -> u8 {
        3
    }
}

#[asn(set)]

#[derive(Default, Debug, Clone, PartialEq, Hash)]
pub struct Ttp15p13p3 {
    #[asn(optional(complex(Ttp15p13p3Is, tag(APPLICATION(5)))), tag(APPLICATION(5)))] pub is: Option<Ttp15p13p3Is>,
    #[asn(optional(complex(Tchox, tag(PRIVATE(1)))))] pub rx: Option<Tchox>,
    #[asn(optional(integer(0..63)), tag(0))] pub c0: Option<u8>,
}

impl Ttp15p13p3 {
    pub const fn c0_min() -> u8 {
        0
    }

    pub const fn c0_max() -> u8 {
        63
    }
}

#[asn(sequence, tag(APPLICATION(5)))]

#[derive(Default, Debug, Clone, PartialEq, Hash)]
pub struct Ttp15p13p4Is {
    #[asn(integer(0..3))] pub v: u8,
}

impl Ttp15p13p4Is {
    pub const fn v_min() -> u8 {
        0
    }

    pub const fn v_max() -> u8 {
        3
    }
}

#[asn(set)]

#[derive(Default, Debug, Clone, PartialEq, Hash)]
pub struct Ttp15p13p4 {
    #[asn(optional(complex(Ttp15p13p4Is, tag(APPLICATION(5)))), tag(APPLICATION(5)))] pub is: Option<Ttp15p13p4Is>,
    #[asn(optional(complex(Tchox, tag(PRIVATE(1)))))] pub rx: Option<Tchox>,
    #[asn(integer(0..127), tag(PRIVATE(2)))] pub p: u8,
}

impl Ttp15p13p4 {
    pub const fn p_min() -> u8 {
        0
    }

    pub const fn p_max() -> u8 {
        127
    }
}

#[asn(sequence, tag(APPLICATION(5)))]

#[derive(Default, Debug, Clone, PartialEq, Hash)]
pub struct Ttp15p13p5Is {
    #[asn(integer(0..3))] pub v: u8,
}

impl Ttp15p13p5Is {
    pub const fn v_min() -> u8 {
        0
    }

    pub const fn v_max() -> u8 {
        3
    }
}

#[asn(set)]

#[derive(Default, Debug, Clone, PartialEq, Hash)]
pub struct Ttp15p13p5 {
    #[asn(optional(complex(Ttp15p13p5Is, tag(APPLICATION(5)))), tag(APPLICATION(5)))] pub is: Option<Ttp15p13p5Is>,
    #[asn(optional(complex(Tchox, tag(PRIVATE(1)))))] pub rx: Option<Tchox>,
    #[asn(optional(boolean))] pub b: Option<bool>,
}

impl Ttp15p13p5 {
}

#[asn(sequence, tag(APPLICATION(5)))]

#[derive(Default, Debug, Clone, PartialEq, Hash)]
pub struct Ttp15p13p6Is {
    #[asn(integer(0..3))] pub v: u8,
}

impl Ttp15p13p6Is {
    pub const fn v_min() -> u8 {
        0
    }

    pub const fn v_max() -> u8 {
        3
    }
}

#[asn(set)]

#[derive(Default, Debug, Clone, PartialEq, Hash)]
pub struct Ttp15p13p6 {
    #[asn(optional(complex(Ttp15p13p6Is, tag(APPLICATION(5)))), tag(APPLICATION(5)))] pub is: Option<Ttp15p13p6Is>,
    #[asn(optional(complex(Tchox, tag(PRIVATE(1)))))] pub rx: Option<Tchox>,
    #[asn(integer(0..255))] pub i: u8,
}

impl Ttp15p13p6 {
    pub const fn i_min() -> u8 {
        0
    }

    pub const fn i_max() -> u8 {
        255
    }
}

#[asn(sequence, tag(APPLICATION(5)))]

#[derive(Default, Debug, Clone, PartialEq, Hash)]
pub struct Ttp15p13p7Is {
    #[asn(integer(0..3))] pub v: u8,
}

impl Ttp15p13p7Is {
    pub const fn v_min() -> u8 {
        0
    }

    pub const fn v_max() -> u8 {
        3
    }
}

#[asn(set)]

#[derive(Default, Debug, Clone, PartialEq, Hash)]
pub struct Ttp15p13p7 {
    #[asn(optional(complex(Ttp15p13p7Is, tag(APPLICATION(5)))), tag(APPLICATION(5)))] pub is: Option<Ttp15p13p7Is>,
    #[asn(optional(complex(Tchox, tag(PRIVATE(1)))))] pub rx: Option<Tchox>,
    #[asn(optional(complex(Tapp9, tag(APPLICATION(9)))))] pub ra: Option<Tapp9>,
}

impl Ttp15p13p7 {
}

#[asn(sequence, tag(APPLICATION(5)))]

#[derive(Default, Debug, Clone, PartialEq, Hash)]
pub struct Ttp15p13p8Is {
    #[asn(integer(0..3))] pub v: u8,
}

impl Ttp15p13p8Is {
    pub const fn v_min() -> u8 {
        0
    }

    pub const fn v_max() -> u8 {
        3
    }
}

#[asn(set)]

#[derive(Default, Debug, Clone, PartialEq, Hash)]
pub struct Ttp15p13p8 {
    #[asn(optional(complex(Ttp15p13p8Is, tag(APPLICATION(5)))), tag(APPLICATION(5)))] pub is: Option<Ttp15p13p8Is>,
    #[asn(optional(complex(Tchox, tag(PRIVATE(1)))))] pub rx: Option<Tchox>,
    #[asn(complex(Tsq, tag(UNIVERSAL(16))))] pub rs: Tsq,
}

impl Ttp15p13p8 {
}

#[asn(sequence, tag(APPLICATION(5)))]

#[derive(Default, Debug, Clone, PartialEq, Hash)]
pub struct Ttp15p13p9Is {
    #[asn(integer(0..3))] pub v: u8,
}

impl Ttp15p13p9Is {
    pub const fn v_min() -> u8 {
        0
    }

    pub const fn v_max() -> u8 {
        3
    }
}

#[asn(set)]

#[derive(Default, Debug, Clone, PartialEq, Hash)]
pub struct Ttp15p13p9 {
    #[asn(optional(complex(Ttp15p13p9Is, tag(APPLICATION(5)))), tag(APPLICATION(5)))] pub is: Option<Ttp15p13p9Is>,
    #[asn(optional(complex(Tchox, tag(PRIVATE(1)))))] pub rx: Option<Tchox>,
    #[asn(optional(complex(Tcho, tag(1))))] pub rc: Option<Tcho>,
}

impl Ttp15p13p9 {
}

#[asn(sequence, tag(APPLICATION(5)))]

#[derive(Default, Debug, Clone, PartialEq, Hash)]
pub struct Ttp15p13p10Is {
    #[asn(integer(0..3))] pub v: u8,
}

impl Ttp15p13p10Is {
    pub const fn v_min() -> u8 {
        0
    }

    pub const fn v_max() -> u8 {
        3
    }
}

#[asn(set)]

#[derive(Default, Debug, Clone, PartialEq, Hash)]
pub struct Ttp15p13p10 {
    #[asn(optional(complex(Ttp15p13p10Is, tag(APPLICATION(5)))), tag(APPLICATION(5)))] pub is: Option<Ttp15p13p10Is>,
    #[asn(optional(complex(Tchox, tag(PRIVATE(1)))))] pub rx: Option<Tchox>,
    #[asn(complex(Tst, tag(UNIVERSAL(17))))] pub rt: Tst,
}

impl Ttp15p13p10 {
}

#[asn(sequence, tag(APPLICATION(5)))]

#[derive(Default, Debug, Clone, PartialEq, Hash)]
pub struct Ttp15p13p11Is {
    #[asn(integer(0..3))] pub v: u8,
}

impl Ttp15p13p11Is {
    pub const fn v_min() -> u8 {
        0
    }

    pub const fn v_max() -> u8 {
        3
    }
}

#[asn(set)]

#[derive(Default, Debug, Clone, PartialEq, Hash)]
pub struct Ttp15p13p11 {
    #[asn(optional(complex(Ttp15p13p11Is, tag(APPLICATION(5)))), tag(APPLICATION(5)))] pub is: Option<Ttp15p13p11Is>,
    #[asn(optional(complex(Tchox, tag(PRIVATE(1)))))] pub rx: Option<Tchox>,
    #[asn(optional(sequence_of(size(0..3), boolean)))] pub so: Option<Vec<bool>>,
}

impl Ttp15p13p11 {
}

#[asn(sequence, tag(APPLICATION(5)))]

#[derive(Default, Debug, Clone, PartialEq, Hash)]
pub struct Ttp15p13p12Is {
    #[asn(integer(0..3))] pub v: u8,
}

impl Ttp15p13p12Is {
    pub const fn v_min() -> u8 {
        0
    }

    pub const fn v_max() -> u8 {
        3
    }
}

#[asn(set)]

#[derive(Default, Debug, Clone, PartialEq, Hash)]
pub struct Ttp15p13p12 {
    #[asn(optional(complex(Ttp15p13p12Is, tag(APPLICATION(5)))), tag(APPLICATION(5)))] pub is: Option<Ttp15p13p12Is>,
    #[asn(optional(complex(Tchox, tag(PRIVATE(1)))))] pub rx: Option<Tchox>,
    #[asn(set_of(size(0..2), boolean))] pub st: Vec<bool>,
}

impl Ttp15p13p12 {
}

#[asn(sequence, tag(APPLICATION(5)))]

#[derive(Default, Debug, Clone, PartialEq, Hash)]
pub struct Ttp15p13p14Is {
    #[asn(integer(0..3))] pub v: u8,
}

impl Ttp15p13p14Is {
    pub const fn v_min() -> u8 {
        0
    }

    pub const fn v_max() -> u8 {
        3
    }
}

#[asn(set)]

#[derive(Default, Debug, Clone, PartialEq, Hash)]
pub struct Ttp15p13p14 {
    #[asn(optional(complex(Ttp15p13p14Is, tag(APPLICATION(5)))), tag(APPLICATION(5)))] pub is: Option<Ttp15p13p14Is>,
    #[asn(optional(complex(Tchox, tag(PRIVATE(1)))))] pub rx: Option<Tchox>,
    #[asn(integer(0..1), tag(UNIVERSAL(2)))] pub u2: u8,
}

impl Ttp15p13p14 {
    pub const fn u2_min() -> u8 {
        0
    }

    pub const fn u2_max() -> u8 {
        1
    }
}

#[asn(sequence, tag(APPLICATION(5)))]

#[derive(Default, Debug, Clone, PartialEq, Hash)]
pub struct Ttp15p14p0Is {
    #[asn(integer(0..3))] pub v: u8,
}

impl Ttp15p14p0Is {
    pub const fn v_min() -> u8 {
        0
    }

    pub const fn v_max() -> u8 {
        3
    }
}

#[asn(set)]

#[derive(Default, Debug, Clone, PartialEq, Hash)]
pub struct Ttp15p14p0 {
    #[asn(optional(complex(Ttp15p14p0Is, tag(APPLICATION(5)))), tag(APPLICATION(5)))] pub is: Option<Ttp15p14p0Is>,
    #[asn(integer(0..1), tag(UNIVERSAL(2)))] pub u2: u8,
    #[asn(integer(0..7), tag(UNIVERSAL(30)))] pub x: u8,
}

impl Ttp15p14p0 {
    pub const fn u2_min() -> u8 {
        0
    }

    pub const fn u2_max() -> u8 {
        1
    }

    pub const fn x_min() -> u8 {
        0
    }

    pub const fn x_max() -> u8 {
        7
    }
}

#[asn(sequence, tag(APPLICATION(5)))]

#[derive(Default, Debug, Clone, PartialEq, Hash)]
pub struct Ttp15p14p1Is {
    #[asn(integer(0..3))] pub v: u8,
}

impl Ttp15p14p1Is {
    pub const fn v_min() -> u8 {
        0
    }

    pub const fn v_max() -> u8 {
        3
    }
}

#[asn(set)]

#[derive(Default, Debug, Clone, PartialEq, Hash)]
pub struct Ttp15p14p1 {
    #[asn(optional(complex(Ttp15p14p1Is, tag(APPLICATION(5)))), tag(APPLICATION(5)))] pub is: Option<Ttp15p14p1Is>,
    #[asn(integer(0..1), tag(UNIVERSAL(2)))] pub u2: u8,
    #[asn(optional(integer(0..15)), tag(APPLICATION(1)))] pub a: Option<u8>,
}

impl Ttp15p14p1 {
    pub const fn u2_min() -> u8 {
        0
    }

    pub const fn u2_max() -> u8 {
        1
    }

    pub const fn a_min() -> u8 {
        0
    }

    pub const fn a_max() -> u8 {
        15
    }
}

#[asn(sequence, tag(APPLICATION(5)))]

#[derive(Default, Debug, Clone, PartialEq, Hash)]
pub struct Ttp15p14p2Is {
    #[asn(integer(0..3))] pub v: u8,
}

impl Ttp15p14p2Is {
    pub const fn v_min() -> u8 {
        0
    }

    pub const fn v_max() -> u8 {
        3
    }
}

#[asn(set)]

#[derive(Default, Debug, Clone, PartialEq, Hash)]
pub struct Ttp15p14p2 {
    #[asn(optional(complex(Ttp15p14p2Is, tag(APPLICATION(5)))), tag(APPLICATION(5)))] pub is: Option<Ttp15p14p2Is>,
    #[asn(integer(0..1), tag(UNIVERSAL(2)))] pub u2: u8,
    #[asn(integer(0..31), tag(3))] pub c3: u8,
}

impl Ttp15p14p2 {
    pub const fn u2_min() -> u8 {
        0
    }

    pub const fn u2_max() -> u8 {
        1
    }

    pub const fn c3_min() -> u8 {
        0
    }

    pub const fn c3_max() -> u8 {
        31
    }
}

#[asn(sequence, tag(APPLICATION(5)))]

#[derive(Default, Debug, Clone, PartialEq, Hash)]
pub struct Ttp15p14p3Is {
    #[asn(integer(0..3))] pub v: u8,
}

impl Ttp15p14p3Is {
    pub const fn v_min() -> u8 {
        0
    }

    pub const fn v_max() -> u8 {
        3
    }
}

#[asn(set)]

#[derive(Default, Debug, Clone, PartialEq, Hash)]
pub struct Ttp15p14p3 {
    #[asn(optional(complex(Ttp15p14p3Is, tag(APPLICATION(5)))), tag(APPLICATION(5)))] pub is: Option<Ttp15p14p3Is>,
    #[asn(integer(0..1), tag(UNIVERSAL(2)))] pub u2: u8,
    #[asn(optional(integer(0..63)), tag(0))] pub c0: Option<u8>,
}

impl Ttp15p14p3 {
    pub const fn u2_min() -> u8 {
        0
    }

    pub const fn u2_max() -> u8 {
        1
    }

    pub const fn c0_min() -> u8 {
        0
    }

    pub const fn c0_max() -> u8 {
        63
    }
}

#[asn(sequence, tag(APPLICATION(5)))]

#[derive(Default, Debug, Clone, PartialEq, Hash)]
pub struct Ttp15p14p4Is {
    #[asn(integer(0..3))] pub v: u8,
}

impl Ttp15p14p4Is {
    pub const fn v_min() -> u8 {
        0
    }

    pub const fn v_max() -> u8 {
        3
    }
}

#[asn(set)]

#[derive(Default, Debug, Clone, PartialEq, Hash)]
pub struct Ttp15p14p4 {
    #[asn(optional(complex(Ttp15p14p4Is, tag(APPLICATION(5)))), tag(APPLICATION(5)))] pub is: Option<Ttp15p14p4Is>,
    #[asn(integer(0..1), tag(UNIVERSAL(2)))] pub u2: u8,
    #[asn(integer(0..127), tag(PRIVATE(2)))] pub p: u8,
}

impl Ttp15p14p4 {
    pub const fn u2_min() -> u8 {
        0
    }

    pub const fn u2_max() -> u8 {
        1
    }

    pub const fn p_min() -> u8 {
        0
    }

    pub const fn p_max() -> u8 {
        127
    }
}

#[asn(sequence, tag(APPLICATION(5)))]

#[derive(Default, Debug, Clone, PartialEq, Hash)]
pub struct Ttp15p14p5Is {
    #[asn(integer(0..3))] pub v: u8,
}

impl Ttp15p14p5Is {
    pub const fn v_min() -> u8 {
        0
    }

    pub const fn v_max() -> u8 {
        3
    }
}

#[asn(set)]

#[derive(Default, Debug, Clone, PartialEq, Hash)]
pub struct Ttp15p14p5 {
    #[asn(optional(complex(Ttp15p14p5Is, tag(APPLICATION(5)))), tag(APPLICATION(5)))] pub is: Option<Ttp15p14p5Is>,
    #[asn(integer(0..1), tag(UNIVERSAL(2)))] pub u2: u8,
    #[asn(optional(boolean))] pub b: Option<bool>,
}

impl Ttp15p14p5 {
    pub const fn u2_min() -> u8 {
        0
    }

    pub const fn u2_max() -> u8 {
        1
    }
}

#[asn(sequence, tag(APPLICATION(5)))]

#[derive(Default, Debug, Clone, PartialEq, Hash)]
pub struct Ttp15p14p6Is {
    #[asn(integer(0..3))] pub v: u8,
}

impl Ttp15p14p6Is {
    pub const fn v_min() -> u8 {
        0
    }

    pub const fn v_max() -> u8 {
        3
    }
}

#[asn(set)]

#[derive(Default, Debug, Clone, PartialEq, Hash)]
pub struct Ttp15p14p6 {
    #[asn(optional(complex(Ttp15p14p6Is, tag(APPLICATION(5)))), tag(APPLICATION(5)))] pub is: Option<Ttp15p14p6Is>,
    #[asn(integer(0..1), tag(UNIVERSAL(2)))] pub u2: u8,
    #[asn(integer(0..255))] pub i: u8,
}

impl Ttp15p14p6 {
    pub const fn u2_min() -> u8 {
        0
    }

    pub const fn u2_max() -> u8 {
        1
    }

    pub const fn i_min() -> u8 {
        0
    }

    pub const fn i_max() -> u8 {
        255
    }
}

#[asn(sequence, tag(APPLICATION(5)))]

#[derive(Default, Debug, Clone, PartialEq, Hash)]
pub struct Ttp15p14p7Is {
    #[asn(integer(0..3))] pub v: u8,
}

impl Ttp15p14p7Is {
    pub const fn v_min() -> u8 {
        0
    }

    pub const fn v_max() -> u8 {
        3
    }
}

#[asn(set)]

#[derive(Default, Debug, Clone, PartialEq, Hash)]
pub struct Ttp15p14p7 {
    #[asn(optional(complex(Ttp15p14p7Is, tag(APPLICATION(5)))), tag(APPLICATION(5)))] pub is: Option<Ttp15p14p7Is>,
    #[asn(integer(0..1), tag(UNIVERSAL(2)))] pub u2: u8,
    #[asn(optional(complex(Tapp9, tag(APPLICATION(9)))))] pub ra: Option<Tapp9>,
}

impl Ttp15p14p7 {
    pub const fn u2_min() -> u8 {
        0
    }

    pub const fn u2_max() -> u8 {
        1
    }
}

#[asn(sequence, tag(APPLICATION(5)))]

#[derive(Default, Debug, Clone, PartialEq, Hash)]
pub struct Ttp15p14p8Is {
    #[asn(integer(0..3))] pub v: u8,
}

impl Ttp15p14p8Is {
    pub const fn v_min() -> u8 {
        0
    }

    pub const fn v_max() -> u8 {
        3
    }
}

#[asn(set)]

#[derive(Default, Debug, Clone, PartialEq, Hash)]
pub struct Ttp15p14p8 {
    #[asn(optional(complex(Ttp15p14p8Is, tag(APPLICATION(5)))), tag(APPLICATION(5)))] pub is: Option<Ttp15p14p8Is>,
    #[asn(integer(0..1), tag(UNIVERSAL(2)))] pub u2: u8,
    #[asn(complex(Tsq, tag(UNIVERSAL(16))))] pub rs: Tsq,
}

impl Ttp15p14p8 {
    pub const fn u2_min() -> u8 {
        0
    }

    pub const fn u2_max() -> u8 {
        1
    }
}

#[asn(sequence, tag(APPLICATION(5)))]

#[derive(Default, Debug, Clone, PartialEq, Hash)]
pub struct Ttp15p14p9Is {
    #[asn(integer(0..3))] pub v: u8,
}

impl Ttp15p14p9Is {
    pub const fn v_min() -> u8 {
        0
    }

    pub const fn v_max() -> u8 {
        3
    }
}

#[asn(set)]

#[derive(Default, Debug, Clone, PartialEq, Hash)]
pub struct Ttp15p14p9 {
    #[asn(optional(complex(Ttp15p14p9Is, tag(APPLICATION(5)))), tag(APPLICATION(5)))] pub is: Option<Ttp15p14p9Is>,
    #[asn(integer(0..1), tag(UNIVERSAL(2)))] pub u2: u8,
    #[asn(optional(complex(Tcho, tag(1))))] pub rc: Option<Tcho>,
}

impl Ttp15p14p9 {
    pub const fn u2_min() -> u8 {
        0
    }

    pub const fn u2_max() -> u8 {
        1
    }
}

#[asn(sequence, tag(APPLICATION(5)))]

#[derive(Default, Debug, Clone, PartialEq, Hash)]
pub struct Ttp15p14p10Is {
    #[asn(integer(0..3))] pub v: u8,
}

impl Ttp15p14p10Is {
    pub const fn v_min() -> u8 {
        0
    }

    pub const fn v_max() -> u8 {
        3
    }
}

#[asn(set)]

#[derive(Default, Debug, Clone, PartialEq, Hash)]
pub struct Ttp15p14p10 {
    #[asn(optional(complex(Ttp15p14p10Is, tag(APPLICATION(5)))), tag(APPLICATION(5)))] pub is: Option<Ttp15p14p10Is>,
    #[asn(integer(0..1), tag(UNIVERSAL(2)))] pub u2: u8,
    #[asn(complex(Tst, tag(UNIVERSAL(17))))] pub rt: Tst,
}

impl Ttp15p14p10 {
    pub const fn u2_min() -> u8 {
        0
    }

    pub const fn u2_max() -> u8 {
        1
    }
}

#[asn(sequence, tag(APPLICATION(5)))]

#[derive(Default, Debug, Clone, PartialEq, Hash)]
pub struct Ttp15p14p11Is {
    #[asn(integer(0..3))] pub v: u8,
}

impl Ttp15p14p11Is {
    pub const fn v_min() -> u8 {
        0
    }

    pub const fn v_max() -> u8 {
        3
    }
}

#[asn(set)]

#[derive(Default, Debug, Clone, PartialEq, Hash)]
pub struct Ttp15p14p11 {
    #[asn(optional(complex(Ttp15p14p11Is, tag(APPLICATION(5)))), tag(APPLICATION(5)))] pub is: Option<Ttp15p14p11Is>,
    #[asn(integer(0..1), tag(UNIVERSAL(2)))] pub u2: u8,
    #[asn(optional(sequence_of(size(0..3), boolean)))] pub so: Option<Vec<bool>>,
}

impl Ttp15p14p11 {
    pub const fn u2_min() -> u8 {
        0
    }

    pub const fn u2_max() -> u8 {
        1
    }
}

#[asn(sequence, tag(APPLICATION(5)))]

#[derive(Default, Debug, Clone, PartialEq, Hash)]
pub struct Ttp15p14p12Is {
    #[asn(integer(0..3))] pub v: u8,
}

impl Ttp15p14p12Is {
    pub const fn v_min() -> u8 {
        0
    }

    pub const fn v_max() -> u8 {
        3
    }
}

#[asn(set)]

#[derive(Default, Debug, Clone, PartialEq, Hash)]
pub struct Ttp15p14p12 {
    #[asn(optional(complex(Ttp15p14p12Is, tag(APPLICATION(5)))), tag(APPLICATION(5)))] pub is: Option<Ttp15p14p12Is>,
    #[asn(integer(0..1), tag(UNIVERSAL(2)))] pub u2: u8,
    #[asn(set_of(size(0..2), boolean))] pub st: Vec<bool>,
}

impl Ttp15p14p12 {
    pub const fn u2_min() -> u8 {
        0
    }

    pub const fn u2_max() -> u8 {
        1
    }
}

#[asn(sequence, tag(APPLICATION(5)))]

#[derive(Default, Debug, Clone, PartialEq, Hash)]
pub struct Ttp15p14p13Is {
    #[asn(integer(0..3))] pub v: u8,
}

impl Ttp15p14p13Is {
    pub const fn v_min() -> u8 {
        0
    }

    pub const fn v_max() -> u8 {
        3
    }
}

#[asn(set)]

#[derive(Default, Debug, Clone, PartialEq, Hash)]
pub struct Ttp15p14p13 {
    #[asn(optional(complex(Ttp15p14p13Is, tag(APPLICATION(5)))), tag(APPLICATION(5)))] pub is: Option<Ttp15p14p13Is>,
    #[asn(integer(0..1), tag(UNIVERSAL(2)))] pub u2: u8,
    #[asn(optional(complex(Tchox, tag(PRIVATE(1)))))] pub rx: Option<Tchox>,
}

impl Ttp15p14p13 {
    pub const fn u2_min() -> u8 {
        0
    }

    pub const fn u2_max() -> u8 {
        1
    }
}
// ---- harness conversions (generated by the zoo build script from the items above) ----
impl FromValue for Tapp9 { fn from_value(v: &Value) -> Self { Tapp9(FromValue::from_value(v)) } }
impl ToValue for Tapp9 { fn to_value(&self) -> Value { self.0.to_value() } }
impl FromValue for Tsq {
    fn from_value(v: &Value) -> Self {
        let s = match v { Value::Seq(s) => s, other => panic!("Tsq: expected Seq, got {other:?}") };
        assert_eq!(s.len(), 1, "Tsq: component count");
        let _ = s;
        Tsq {
            z: FromValue::from_value(s[0].as_ref().expect("component z of Tsq must be present")),
        }
    }
}
impl ToValue for Tsq {
    fn to_value(&self) -> Value {
        Value::Seq(vec![
            Some(self.z.to_value()),
        ])
    }
}
impl FromValue for Tcho {
    fn from_value(v: &Value) -> Self {
        let (i, inner) = match v { Value::Choice(i, inner) => (*i, &**inner), other => panic!("Tcho: expected Choice, got {other:?}") };
        match i {
            0 => Tcho::M(FromValue::from_value(inner)),
            1 => Tcho::N(FromValue::from_value(inner)),
            _ => panic!("Tcho: alternative index {i} out of range"),
        }
    }
}
impl ToValue for Tcho {
    fn to_value(&self) -> Value {
        match self {
            Tcho::M(x) => Value::Choice(0, Box::new(x.to_value())),
            Tcho::N(x) => Value::Choice(1, Box::new(x.to_value())),
        }
    }
}
impl FromValue for Tchox {
    fn from_value(v: &Value) -> Self {
        let (i, inner) = match v { Value::Choice(i, inner) => (*i, &**inner), other => panic!("Tchox: expected Choice, got {other:?}") };
        match i {
            0 => Tchox::M(FromValue::from_value(inner)),
            1 => Tchox::N(FromValue::from_value(inner)),
            2 => Tchox::O(FromValue::from_value(inner)),
            _ => panic!("Tchox: alternative index {i} out of range"),
        }
    }
}
impl ToValue for Tchox {
    fn to_value(&self) -> Value {
        match self {
            Tchox::M(x) => Value::Choice(0, Box::new(x.to_value())),
            Tchox::N(x) => Value::Choice(1, Box::new(x.to_value())),
            Tchox::O(x) => Value::Choice(2, Box::new(x.to_value())),
        }
    }
}
impl FromValue for Tst {
    fn from_value(v: &Value) -> Self {
        let s = match v { Value::Seq(s) => s, other => panic!("Tst: expected Seq, got {other:?}") };
        assert_eq!(s.len(), 1, "Tst: component count");
        let _ = s;
        Tst {
            z: FromValue::from_value(s[0].as_ref().expect("component z of Tst must be present")),
        }
    }
}
impl ToValue for Tst {
    fn to_value(&self) -> Value {
        Value::Seq(vec![
            Some(self.z.to_value()),
        ])
    }
}
impl FromValue for Ttp15p6p7Is {
    fn from_value(v: &Value) -> Self {
        let s = match v { Value::Seq(s) => s, other => panic!("Ttp15p6p7Is: expected Seq, got {other:?}") };
        assert_eq!(s.len(), 1, "Ttp15p6p7Is: component count");
        let _ = s;
        Ttp15p6p7Is {
            v: FromValue::from_value(s[0].as_ref().expect("component v of Ttp15p6p7Is must be present")),
        }
    }
}
impl ToValue for Ttp15p6p7Is {
    fn to_value(&self) -> Value {
        Value::Seq(vec![
            Some(self.v.to_value()),
        ])
    }
}
impl FromValue for Ttp15p6p7 {
    fn from_value(v: &Value) -> Self {
        let s = match v { Value::Seq(s) => s, other => panic!("Ttp15p6p7: expected Seq, got {other:?}") };
        assert_eq!(s.len(), 3, "Ttp15p6p7: component count");
        let _ = s;
        Ttp15p6p7 {
            is: s[0].as_ref().map(FromValue::from_value),
            i: FromValue::from_value(s[1].as_ref().expect("component i of Ttp15p6p7 must be present")),
            ra: s[2].as_ref().map(FromValue::from_value),
        }
    }
}
impl ToValue for Ttp15p6p7 {
    fn to_value(&self) -> Value {
        Value::Seq(vec![
            self.is.as_ref().map(|x| x.to_value()),
            Some(self.i.to_value()),
            self.ra.as_ref().map(|x| x.to_value()),
        ])
    }
}
impl FromValue for Ttp15p6p8Is {
    fn from_value(v: &Value) -> Self {
        let s = match v { Value::Seq(s) => s, other => panic!("Ttp15p6p8Is: expected Seq, got {other:?}") };
        assert_eq!(s.len(), 1, "Ttp15p6p8Is: component count");
        let _ = s;
        Ttp15p6p8Is {
            v: FromValue::from_value(s[0].as_ref().expect("component v of Ttp15p6p8Is must be present")),
        }
    }
}
impl ToValue for Ttp15p6p8Is {
    fn to_value(&self) -> Value {
        Value::Seq(vec![
            Some(self.v.to_value()),
        ])
    }
}
impl FromValue for Ttp15p6p8 {
    fn from_value(v: &Value) -> Self {
        let s = match v { Value::Seq(s) => s, other => panic!("Ttp15p6p8: expected Seq, got {other:?}") };
        assert_eq!(s.len(), 3, "Ttp15p6p8: component count");
        let _ = s;
        Ttp15p6p8 {
            is: s[0].as_ref().map(FromValue::from_value),
            i: FromValue::from_value(s[1].as_ref().expect("component i of Ttp15p6p8 must be present")),
            rs: FromValue::from_value(s[2].as_ref().expect("component rs of Ttp15p6p8 must be present")),
        }
    }
}
impl ToValue for Ttp15p6p8 {
    fn to_value(&self) -> Value {
        Value::Seq(vec![
            self.is.as_ref().map(|x| x.to_value()),
            Some(self.i.to_value()),
            Some(self.rs.to_value()),
        ])
    }
}
impl FromValue for Ttp15p6p9Is {
    fn from_value(v: &Value) -> Self {
        let s = match v { Value::Seq(s) => s, other => panic!("Ttp15p6p9Is: expected Seq, got {other:?}") };
        assert_eq!(s.len(), 1, "Ttp15p6p9Is: component count");
        let _ = s;
        Ttp15p6p9Is {
            v: FromValue::from_value(s[0].as_ref().expect("component v of Ttp15p6p9Is must be present")),
        }
    }
}
impl ToValue for Ttp15p6p9Is {
    fn to_value(&self) -> Value {
        Value::Seq(vec![
            Some(self.v.to_value()),
        ])
    }
}
impl FromValue for Ttp15p6p9 {
    fn from_value(v: &Value) -> Self {
        let s = match v { Value::Seq(s) => s, other => panic!("Ttp15p6p9: expected Seq, got {other:?}") };
        assert_eq!(s.len(), 3, "Ttp15p6p9: component count");
        let _ = s;
        Ttp15p6p9 {
            is: s[0].as_ref().map(FromValue::from_value),
            i: FromValue::from_value(s[1].as_ref().expect("component i of Ttp15p6p9 must be present")),
            rc: s[2].as_ref().map(FromValue::from_value),
        }
    }
}
impl ToValue for Ttp15p6p9 {
    fn to_value(&self) -> Value {
        Value::Seq(vec![
            self.is.as_ref().map(|x| x.to_value()),
            Some(self.i.to_value()),
            self.rc.as_ref().map(|x| x.to_value()),
        ])
    }
}
impl FromValue for Ttp15p6p10Is {
    fn from_value(v: &Value) -> Self {
        let s = match v { Value::Seq(s) => s, other => panic!("Ttp15p6p10Is: expected Seq, got {other:?}") };
        assert_eq!(s.len(), 1, "Ttp15p6p10Is: component count");
        let _ = s;
        Ttp15p6p10Is {
            v: FromValue::from_value(s[0].as_ref().expect("component v of Ttp15p6p10Is must be present")),
        }
    }
}
impl ToValue for Ttp15p6p10Is {
    fn to_value(&self) -> Value {
        Value::Seq(vec![
            Some(self.v.to_value()),
        ])
    }
}
impl FromValue for Ttp15p6p10 {
    fn from_value(v: &Value) -> Self {
        let s = match v { Value::Seq(s) => s, other => panic!("Ttp15p6p10: expected Seq, got {other:?}") };
        assert_eq!(s.len(), 3, "Ttp15p6p10: component count");
        let _ = s;
        Ttp15p6p10 {
            is: s[0].as_ref().map(FromValue::from_value),
            i: FromValue::from_value(s[1].as_ref().expect("component i of Ttp15p6p10 must be present")),
            rt: FromValue::from_value(s[2].as_ref().expect("component rt of Ttp15p6p10 must be present")),
        }
    }
}
impl ToValue for Ttp15p6p10 {
    fn to_value(&self) -> Value {
        Value::Seq(vec![
            self.is.as_ref().map(|x| x.to_value()),
            Some(self.i.to_value()),
            Some(self.rt.to_value()),
        ])
    }
}
impl FromValue for Ttp15p6p11Is {
    fn from_value(v: &Value) -> Self {
        let s = match v { Value::Seq(s) => s, other => panic!("Ttp15p6p11Is: expected Seq, got {other:?}") };
        assert_eq!(s.len(), 1, "Ttp15p6p11Is: component count");
        let _ = s;
        Ttp15p6p11Is {
            v: FromValue::from_value(s[0].as_ref().expect("component v of Ttp15p6p11Is must be present")),
        }
    }
}
impl ToValue for Ttp15p6p11Is {
    fn to_value(&self) -> Value {
        Value::Seq(vec![
            Some(self.v.to_value()),
        ])
    }
}
impl FromValue for Ttp15p6p11 {
    fn from_value(v: &Value) -> Self {
        let s = match v { Value::Seq(s) => s, other => panic!("Ttp15p6p11: expected Seq, got {other:?}") };
        assert_eq!(s.len(), 3, "Ttp15p6p11: component count");
        let _ = s;
        Ttp15p6p11 {
            is: s[0].as_ref().map(FromValue::from_value),
            i: FromValue::from_value(s[1].as_ref().expect("component i of Ttp15p6p11 must be present")),
            so: s[2].as_ref().map(FromValue::from_value),
        }
    }
}
impl ToValue for Ttp15p6p11 {
    fn to_value(&self) -> Value {
        Value::Seq(vec![
            self.is.as_ref().map(|x| x.to_value()),
            Some(self.i.to_value()),
            self.so.as_ref().map(|x| x.to_value()),
        ])
    }
}
impl FromValue for Ttp15p6p12Is {
    fn from_value(v: &Value) -> Self {
        let s = match v { Value::Seq(s) => s, other => panic!("Ttp15p6p12Is: expected Seq, got {other:?}") };
        assert_eq!(s.len(), 1, "Ttp15p6p12Is: component count");
        let _ = s;
        Ttp15p6p12Is {
            v: FromValue::from_value(s[0].as_ref().expect("component v of Ttp15p6p12Is must be present")),
        }
    }
}
impl ToValue for Ttp15p6p12Is {
    fn to_value(&self) -> Value {
        Value::Seq(vec![
            Some(self.v.to_value()),
        ])
    }
}
impl FromValue for Ttp15p6p12 {
    fn from_value(v: &Value) -> Self {
        let s = match v { Value::Seq(s) => s, other => panic!("Ttp15p6p12: expected Seq, got {other:?}") };
        assert_eq!(s.len(), 3, "Ttp15p6p12: component count");
        let _ = s;
        Ttp15p6p12 {
            is: s[0].as_ref().map(FromValue::from_value),
            i: FromValue::from_value(s[1].as_ref().expect("component i of Ttp15p6p12 must be present")),
            st: FromValue::from_value(s[2].as_ref().expect("component st of Ttp15p6p12 must be present")),
        }
    }
}
impl ToValue for Ttp15p6p12 {
    fn to_value(&self) -> Value {
        Value::Seq(vec![
            self.is.as_ref().map(|x| x.to_value()),
            Some(self.i.to_value()),
            Some(self.st.to_value()),
        ])
    }
}
impl FromValue for Ttp15p6p13Is {
    fn from_value(v: &Value) -> Self {
        let s = match v { Value::Seq(s) => s, other => panic!("Ttp15p6p13Is: expected Seq, got {other:?}") };
        assert_eq!(s.len(), 1, "Ttp15p6p13Is: component count");
        let _ = s;
        Ttp15p6p13Is {
            v: FromValue::from_value(s[0].as_ref().expect("component v of Ttp15p6p13Is must be present")),
        }
    }
}
impl ToValue for Ttp15p6p13Is {
    fn to_value(&self) -> Value {
        Value::Seq(vec![
            Some(self.v.to_value()),
        ])
    }
}
impl FromValue for Ttp15p6p13 {
    fn from_value(v: &Value) -> Self {
        let s = match v { Value::Seq(s) => s, other => panic!("Ttp15p6p13: expected Seq, got {other:?}") };
        assert_eq!(s.len(), 3, "Ttp15p6p13: component count");
        let _ = s;
        Ttp15p6p13 {
            is: s[0].as_ref().map(FromValue::from_value),
            i: FromValue::from_value(s[1].as_ref().expect("component i of Ttp15p6p13 must be present")),
            rx: s[2].as_ref().map(FromValue::from_value),
        }
    }
}
impl ToValue for Ttp15p6p13 {
    fn to_value(&self) -> Value {
        Value::Seq(vec![
            self.is.as_ref().map(|x| x.to_value()),
            Some(self.i.to_value()),
            self.rx.as_ref().map(|x| x.to_value()),
        ])
    }
}
impl FromValue for Ttp15p6p14Is {
    fn from_value(v: &Value) -> Self {
        let s = match v { Value::Seq(s) => s, other => panic!("Ttp15p6p14Is: expected Seq, got {other:?}") };
        assert_eq!(s.len(), 1, "Ttp15p6p14Is: component count");
        let _ = s;
        Ttp15p6p14Is {
            v: FromValue::from_value(s[0].as_ref().expect("component v of Ttp15p6p14Is must be present")),
        }
    }
}
impl ToValue for Ttp15p6p14Is {
    fn to_value(&self) -> Value {
        Value::Seq(vec![
            Some(self.v.to_value()),
        ])
    }
}
impl FromValue for Ttp15p6p14 {
    fn from_value(v: &Value) -> Self {
        let s = match v { Value::Seq(s) => s, other => panic!("Ttp15p6p14: expected Seq, got {other:?}") };
        assert_eq!(s.len(), 3, "Ttp15p6p14: component count");
        let _ = s;
        Ttp15p6p14 {
            is: s[0].as_ref().map(FromValue::from_value),
            i: FromValue::from_value(s[1].as_ref().expect("component i of Ttp15p6p14 must be present")),
            u2: FromValue::from_value(s[2].as_ref().expect("component u2 of Ttp15p6p14 must be present")),
        }
    }
}
impl ToValue for Ttp15p6p14 {
    fn to_value(&self) -> Value {
        Value::Seq(vec![
            self.is.as_ref().map(|x| x.to_value()),
            Some(self.i.to_value()),
            Some(self.u2.to_value()),
        ])
    }
}
impl FromValue for Ttp15p7p0Is {
    fn from_value(v: &Value) -> Self {
        let s = match v { Value::Seq(s) => s, other => panic!("Ttp15p7p0Is: expected Seq, got {other:?}") };
        assert_eq!(s.len(), 1, "Ttp15p7p0Is: component count");
        let _ = s;
        Ttp15p7p0Is {
            v: FromValue::from_value(s[0].as_ref().expect("component v of Ttp15p7p0Is must be present")),
        }
    }
}
impl ToValue for Ttp15p7p0Is {
    fn to_value(&self) -> Value {
        Value::Seq(vec![
            Some(self.v.to_value()),
        ])
    }
}
impl FromValue for Ttp15p7p0 {
    fn from_value(v: &Value) -> Self {
        let s = match v { Value::Seq(s) => s, other => panic!("Ttp15p7p0: expected Seq, got {other:?}") };
        assert_eq!(s.len(), 3, "Ttp15p7p0: component count");
        let _ = s;
        Ttp15p7p0 {
            is: s[0].as_ref().map(FromValue::from_value),
            ra: s[1].as_ref().map(FromValue::from_value),
            x: FromValue::from_value(s[2].as_ref().expect("component x of Ttp15p7p0 must be present")),
        }
    }
}
impl ToValue for Ttp15p7p0 {
    fn to_value(&self) -> Value {
        Value::Seq(vec![
            self.is.as_ref().map(|x| x.to_value()),
            self.ra.as_ref().map(|x| x.to_value()),
            Some(self.x.to_value()),
        ])
    }
}
impl FromValue for Ttp15p7p1Is {
    fn from_value(v: &Value) -> Self {
        let s = match v { Value::Seq(s) => s, other => panic!("Ttp15p7p1Is: expected Seq, got {other:?}") };
        assert_eq!(s.len(), 1, "Ttp15p7p1Is: component count");
        let _ = s;
        Ttp15p7p1Is {
            v: FromValue::from_value(s[0].as_ref().expect("component v of Ttp15p7p1Is must be present")),
        }
    }
}
impl ToValue for Ttp15p7p1Is {
    fn to_value(&self) -> Value {
        Value::Seq(vec![
            Some(self.v.to_value()),
        ])
    }
}
impl FromValue for Ttp15p7p1 {
    fn from_value(v: &Value) -> Self {
        let s = match v { Value::Seq(s) => s, other => panic!("Ttp15p7p1: expected Seq, got {other:?}") };
        assert_eq!(s.len(), 3, "Ttp15p7p1: component count");
        let _ = s;
        Ttp15p7p1 {
            is: s[0].as_ref().map(FromValue::from_value),
            ra: s[1].as_ref().map(FromValue::from_value),
            a: s[2].as_ref().map(FromValue::from_value),
        }
    }
}
impl ToValue for Ttp15p7p1 {
    fn to_value(&self) -> Value {
        Value::Seq(vec![
            self.is.as_ref().map(|x| x.to_value()),
            self.ra.as_ref().map(|x| x.to_value()),
            self.a.as_ref().map(|x| x.to_value()),
        ])
    }
}
impl FromValue for Ttp15p7p2Is {
    fn from_value(v: &Value) -> Self {
        let s = match v { Value::Seq(s) => s, other => panic!("Ttp15p7p2Is: expected Seq, got {other:?}") };
        assert_eq!(s.len(), 1, "Ttp15p7p2Is: component count");
        let _ = s;
        Ttp15p7p2Is {
            v: FromValue::from_value(s[0].as_ref().expect("component v of Ttp15p7p2Is must be present")),
        }
    }
}
impl ToValue for Ttp15p7p2Is {
    fn to_value(&self) -> Value {
        Value::Seq(vec![
            Some(self.v.to_value()),
        ])
    }
}
impl FromValue for Ttp15p7p2 {
    fn from_value(v: &Value) -> Self {
        let s = match v { Value::Seq(s) => s, other => panic!("Ttp15p7p2: expected Seq, got {other:?}") };
        assert_eq!(s.len(), 3, "Ttp15p7p2: component count");
        let _ = s;
        Ttp15p7p2 {
            is: s[0].as_ref().map(FromValue::from_value),
            ra: s[1].as_ref().map(FromValue::from_value),
            c3: FromValue::from_value(s[2].as_ref().expect("component c3 of Ttp15p7p2 must be present")),
        }
    }
}
impl ToValue for Ttp15p7p2 {
    fn to_value(&self) -> Value {
        Value::Seq(vec![
            self.is.as_ref().map(|x| x.to_value()),
            self.ra.as_ref().map(|x| x.to_value()),
            Some(self.c3.to_value()),
        ])
    }
}
impl FromValue for Ttp15p7p3Is {
    fn from_value(v: &Value) -> Self {
        let s = match v { Value::Seq(s) => s, other => panic!("Ttp15p7p3Is: expected Seq, got {other:?}") };
        assert_eq!(s.len(), 1, "Ttp15p7p3Is: component count");
        let _ = s;
        Ttp15p7p3Is {
            v: FromValue::from_value(s[0].as_ref().expect("component v of Ttp15p7p3Is must be present")),
        }
    }
}
impl ToValue for Ttp15p7p3Is {
    fn to_value(&self) -> Value {
        Value::Seq(vec![
            Some(self.v.to_value()),
        ])
    }
}
impl FromValue for Ttp15p7p3 {
    fn from_value(v: &Value) -> Self {
        let s = match v { Value::Seq(s) => s, other => panic!("Ttp15p7p3: expected Seq, got {other:?}") };
        assert_eq!(s.len(), 3, "Ttp15p7p3: component count");
        let _ = s;
        Ttp15p7p3 {
            is: s[0].as_ref().map(FromValue::from_value),
            ra: s[1].as_ref().map(FromValue::from_value),
            c0: s[2].as_ref().map(FromValue::from_value),
        }
    }
}
impl ToValue for Ttp15p7p3 {
    fn to_value(&self) -> Value {
        Value::Seq(vec![
            self.is.as_ref().map(|x| x.to_value()),
            self.ra.as_ref().map(|x| x.to_value()),
            self.c0.as_ref().map(|x| x.to_value()),
        ])
    }
}
impl FromValue for Ttp15p7p4Is {
    fn from_value(v: &Value) -> Self {
        let s = match v { Value::Seq(s) => s, other => panic!("Ttp15p7p4Is: expected Seq, got {other:?}") };
        assert_eq!(s.len(), 1, "Ttp15p7p4Is: component count");
        let _ = s;
        Ttp15p7p4Is {
            v: FromValue::from_value(s[0].as_ref().expect("component v of Ttp15p7p4Is must be present")),
        }
    }
}
impl ToValue for Ttp15p7p4Is {
    fn to_value(&self) -> Value {
        Value::Seq(vec![
            Some(self.v.to_value()),
        ])
    }
}
impl FromValue for Ttp15p7p4 {
    fn from_value(v: &Value) -> Self {
        let s = match v { Value::Seq(s) => s, other => panic!("Ttp15p7p4: expected Seq, got {other:?}") };
        assert_eq!(s.len(), 3, "Ttp15p7p4: component count");
        let _ = s;
        Ttp15p7p4 {
            is: s[0].as_ref().map(FromValue::from_value),
            ra: s[1].as_ref().map(FromValue::from_value),
            p: FromValue::from_value(s[2].as_ref().expect("component p of Ttp15p7p4 must be present")),
        }
    }
}
impl ToValue for Ttp15p7p4 {
    fn to_value(&self) -> Value {
        Value::Seq(vec![
            self.is.as_ref().map(|x| x.to_value()),
            self.ra.as_ref().map(|x| x.to_value()),
            Some(self.p.to_value()),
        ])
    }
}
impl FromValue for Ttp15p7p5Is {
    fn from_value(v: &Value) -> Self {
        let s = match v { Value::Seq(s) => s, other => panic!("Ttp15p7p5Is: expected Seq, got {other:?}") };
        assert_eq!(s.len(), 1, "Ttp15p7p5Is: component count");
        let _ = s;
        Ttp15p7p5Is {
            v: FromValue::from_value(s[0].as_ref().expect("component v of Ttp15p7p5Is must be present")),
        }
    }
}
impl ToValue for Ttp15p7p5Is {
    fn to_value(&self) -> Value {
        Value::Seq(vec![
            Some(self.v.to_value()),
        ])
    }
}
impl FromValue for Ttp15p7p5 {
    fn from_value(v: &Value) -> Self {
        let s = match v { Value::Seq(s) => s, other => panic!("Ttp15p7p5: expected Seq, got {other:?}") };
        assert_eq!(s.len(), 3, "Ttp15p7p5: component count");
        let _ = s;
        Ttp15p7p5 {
            is: s[0].as_ref().map(FromValue::from_value),
            ra: s[1].as_ref().map(FromValue::from_value),
            b: s[2].as_ref().map(FromValue::from_value),
        }
    }
}
impl ToValue for Ttp15p7p5 {
    fn to_value(&self) -> Value {
        Value::Seq(vec![
            self.is.as_ref().map(|x| x.to_value()),
            self.ra.as_ref().map(|x| x.to_value()),
            self.b.as_ref().map(|x| x.to_value()),
        ])
    }
}
impl FromValue for Ttp15p7p6Is {
    fn from_value(v: &Value) -> Self {
        let s = match v { Value::Seq(s) => s, other => panic!("Ttp15p7p6Is: expected Seq, got {other:?}") };
        assert_eq!(s.len(), 1, "Ttp15p7p6Is: component count");
        let _ = s;
        Ttp15p7p6Is {
            v: FromValue::from_value(s[0].as_ref().expect("component v of Ttp15p7p6Is must be present")),
        }
    }
}
impl ToValue for Ttp15p7p6Is {
    fn to_value(&self) -> Value {
        Value::Seq(vec![
            Some(self.v.to_value()),
        ])
    }
}
impl FromValue for Ttp15p7p6 {
    fn from_value(v: &Value) -> Self {
        let s = match v { Value::Seq(s) => s, other => panic!("Ttp15p7p6: expected Seq, got {other:?}") };
        assert_eq!(s.len(), 3, "Ttp15p7p6: component count");
        let _ = s;
        Ttp15p7p6 {
            is: s[0].as_ref().map(FromValue::from_value),
            ra: s[1].as_ref().map(FromValue::from_value),
            i: FromValue::from_value(s[2].as_ref().expect("component i of Ttp15p7p6 must be present")),
        }
    }
}
impl ToValue for Ttp15p7p6 {
    fn to_value(&self) -> Value {
        Value::Seq(vec![
            self.is.as_ref().map(|x| x.to_value()),
            self.ra.as_ref().map(|x| x.to_value()),
            Some(self.i.to_value()),
        ])
    }
}
impl FromValue for Ttp15p7p8Is {
    fn from_value(v: &Value) -> Self {
        let s = match v { Value::Seq(s) => s, other => panic!("Ttp15p7p8Is: expected Seq, got {other:?}") };
        assert_eq!(s.len(), 1, "Ttp15p7p8Is: component count");
        let _ = s;
        Ttp15p7p8Is {
            v: FromValue::from_value(s[0].as_ref().expect("component v of Ttp15p7p8Is must be present")),
        }
    }
}
impl ToValue for Ttp15p7p8Is {
    fn to_value(&self) -> Value {
        Value::Seq(vec![
            Some(self.v.to_value()),
        ])
    }
}
impl FromValue for Ttp15p7p8 {
    fn from_value(v: &Value) -> Self {
        let s = match v { Value::Seq(s) => s, other => panic!("Ttp15p7p8: expected Seq, got {other:?}") };
        assert_eq!(s.len(), 3, "Ttp15p7p8: component count");
        let _ = s;
        Ttp15p7p8 {
            is: s[0].as_ref().map(FromValue::from_value),
            ra: s[1].as_ref().map(FromValue::from_value),
            rs: FromValue::from_value(s[2].as_ref().expect("component rs of Ttp15p7p8 must be present")),
        }
    }
}
impl ToValue for Ttp15p7p8 {
    fn to_value(&self) -> Value {
        Value::Seq(vec![
            self.is.as_ref().map(|x| x.to_value()),
            self.ra.as_ref().map(|x| x.to_value()),
            Some(self.rs.to_value()),
        ])
    }
}
impl FromValue for Ttp15p7p9Is {
    fn from_value(v: &Value) -> Self {
        let s = match v { Value::Seq(s) => s, other => panic!("Ttp15p7p9Is: expected Seq, got {other:?}") };
        assert_eq!(s.len(), 1, "Ttp15p7p9Is: component count");
        let _ = s;
        Ttp15p7p9Is {
            v: FromValue::from_value(s[0].as_ref().expect("component v of Ttp15p7p9Is must be present")),
        }
    }
}
impl ToValue for Ttp15p7p9Is {
    fn to_value(&self) -> Value {
        Value::Seq(vec![
            Some(self.v.to_value()),
        ])
    }
}
impl FromValue for Ttp15p7p9 {
    fn from_value(v: &Value) -> Self {
        let s = match v { Value::Seq(s) => s, other => panic!("Ttp15p7p9: expected Seq, got {other:?}") };
        assert_eq!(s.len(), 3, "Ttp15p7p9: component count");
        let _ = s;
        Ttp15p7p9 {
            is: s[0].as_ref().map(FromValue::from_value),
            ra: s[1].as_ref().map(FromValue::from_value),
            rc: s[2].as_ref().map(FromValue::from_value),
        }
    }
}
impl ToValue for Ttp15p7p9 {
    fn to_value(&self) -> Value {
        Value::Seq(vec![
            self.is.as_ref().map(|x| x.to_value()),
            self.ra.as_ref().map(|x| x.to_value()),
            self.rc.as_ref().map(|x| x.to_value()),
        ])
    }
}
impl FromValue for Ttp15p7p10Is {
    fn from_value(v: &Value) -> Self {
        let s = match v { Value::Seq(s) => s, other => panic!("Ttp15p7p10Is: expected Seq, got {other:?}") };
        assert_eq!(s.len(), 1, "Ttp15p7p10Is: component count");
        let _ = s;
        Ttp15p7p10Is {
            v: FromValue::from_value(s[0].as_ref().expect("component v of Ttp15p7p10Is must be present")),
        }
    }
}
impl ToValue for Ttp15p7p10Is {
    fn to_value(&self) -> Value {
        Value::Seq(vec![
            Some(self.v.to_value()),
        ])
    }
}
impl FromValue for Ttp15p7p10 {
    fn from_value(v: &Value) -> Self {
        let s = match v { Value::Seq(s) => s, other => panic!("Ttp15p7p10: expected Seq, got {other:?}") };
        assert_eq!(s.len(), 3, "Ttp15p7p10: component count");
        let _ = s;
        Ttp15p7p10 {
            is: s[0].as_ref().map(FromValue::from_value),
            ra: s[1].as_ref().map(FromValue::from_value),
            rt: FromValue::from_value(s[2].as_ref().expect("component rt of Ttp15p7p10 must be present")),
        }
    }
}
impl ToValue for Ttp15p7p10 {
    fn to_value(&self) -> Value {
        Value::Seq(vec![
            self.is.as_ref().map(|x| x.to_value()),
            self.ra.as_ref().map(|x| x.to_value()),
            Some(self.rt.to_value()),
        ])
    }
}
impl FromValue for Ttp15p7p11Is {
    fn from_value(v: &Value) -> Self {
        let s = match v { Value::Seq(s) => s, other => panic!("Ttp15p7p11Is: expected Seq, got {other:?}") };
        assert_eq!(s.len(), 1, "Ttp15p7p11Is: component count");
        let _ = s;
        Ttp15p7p11Is {
            v: FromValue::from_value(s[0].as_ref().expect("component v of Ttp15p7p11Is must be present")),
        }
    }
}
impl ToValue for Ttp15p7p11Is {
    fn to_value(&self) -> Value {
        Value::Seq(vec![
            Some(self.v.to_value()),
        ])
    }
}
impl FromValue for Ttp15p7p11 {
    fn from_value(v: &Value) -> Self {
        let s = match v { Value::Seq(s) => s, other => panic!("Ttp15p7p11: expected Seq, got {other:?}") };
        assert_eq!(s.len(), 3, "Ttp15p7p11: component count");
        let _ = s;
        Ttp15p7p11 {
            is: s[0].as_ref().map(FromValue::from_value),
            ra: s[1].as_ref().map(FromValue::from_value),
            so: s[2].as_ref().map(FromValue::from_value),
        }
    }
}
impl ToValue for Ttp15p7p11 {
    fn to_value(&self) -> Value {
        Value::Seq(vec![
            self.is.as_ref().map(|x| x.to_value()),
            self.ra.as_ref().map(|x| x.to_value()),
            self.so.as_ref().map(|x| x.to_value()),
        ])
    }
}
impl FromValue for Ttp15p7p12Is {
    fn from_value(v: &Value) -> Self {
        let s = match v { Value::Seq(s) => s, other => panic!("Ttp15p7p12Is: expected Seq, got {other:?}") };
        assert_eq!(s.len(), 1, "Ttp15p7p12Is: component count");
        let _ = s;
        Ttp15p7p12Is {
            v: FromValue::from_value(s[0].as_ref().expect("component v of Ttp15p7p12Is must be present")),
        }
    }
}
impl ToValue for Ttp15p7p12Is {
    fn to_value(&self) -> Value {
        Value::Seq(vec![
            Some(self.v.to_value()),
        ])
    }
}
impl FromValue for Ttp15p7p12 {
    fn from_value(v: &Value) -> Self {
        let s = match v { Value::Seq(s) => s, other => panic!("Ttp15p7p12: expected Seq, got {other:?}") };
        assert_eq!(s.len(), 3, "Ttp15p7p12: component count");
        let _ = s;
        Ttp15p7p12 {
            is: s[0].as_ref().map(FromValue::from_value),
            ra: s[1].as_ref().map(FromValue::from_value),
            st: FromValue::from_value(s[2].as_ref().expect("component st of Ttp15p7p12 must be present")),
        }
    }
}
impl ToValue for Ttp15p7p12 {
    fn to_value(&self) -> Value {
        Value::Seq(vec![
            self.is.as_ref().map(|x| x.to_value()),
            self.ra.as_ref().map(|x| x.to_value()),
            Some(self.st.to_value()),
        ])
    }
}
impl FromValue for Ttp15p7p13Is {
    fn from_value(v: &Value) -> Self {
        let s = match v { Value::Seq(s) => s, other => panic!("Ttp15p7p13Is: expected Seq, got {other:?}") };
        assert_eq!(s.len(), 1, "Ttp15p7p13Is: component count");
        let _ = s;
        Ttp15p7p13Is {
            v: FromValue::from_value(s[0].as_ref().expect("component v of Ttp15p7p13Is must be present")),
        }
    }
}
impl ToValue for Ttp15p7p13Is {
    fn to_value(&self) -> Value {
        Value::Seq(vec![
            Some(self.v.to_value()),
        ])
    }
}
impl FromValue for Ttp15p7p13 {
    fn from_value(v: &Value) -> Self {
        let s = match v { Value::Seq(s) => s, other => panic!("Ttp15p7p13: expected Seq, got {other:?}") };
        assert_eq!(s.len(), 3, "Ttp15p7p13: component count");
        let _ = s;
        Ttp15p7p13 {
            is: s[0].as_ref().map(FromValue::from_value),
            ra: s[1].as_ref().map(FromValue::from_value),
            rx: s[2].as_ref().map(FromValue::from_value),
        }
    }
}
impl ToValue for Ttp15p7p13 {
    fn to_value(&self) -> Value {
        Value::Seq(vec![
            self.is.as_ref().map(|x| x.to_value()),
            self.ra.as_ref().map(|x| x.to_value()),
            self.rx.as_ref().map(|x| x.to_value()),
        ])
    }
}
impl FromValue for Ttp15p7p14Is {
    fn from_value(v: &Value) -> Self {
        let s = match v { Value::Seq(s) => s, other => panic!("Ttp15p7p14Is: expected Seq, got {other:?}") };
        assert_eq!(s.len(), 1, "Ttp15p7p14Is: component count");
        let _ = s;
        Ttp15p7p14Is {
            v: FromValue::from_value(s[0].as_ref().expect("component v of Ttp15p7p14Is must be present")),
        }
    }
}
impl ToValue for Ttp15p7p14Is {
    fn to_value(&self) -> Value {
        Value::Seq(vec![
            Some(self.v.to_value()),
        ])
    }
}
impl FromValue for Ttp15p7p14 {
    fn from_value(v: &Value) -> Self {
        let s = match v { Value::Seq(s) => s, other => panic!("Ttp15p7p14: expected Seq, got {other:?}") };
        assert_eq!(s.len(), 3, "Ttp15p7p14: component count");
        let _ = s;
        Ttp15p7p14 {
            is: s[0].as_ref().map(FromValue::from_value),
            ra: s[1].as_ref().map(FromValue::from_value),
            u2: FromValue::from_value(s[2].as_ref().expect("component u2 of Ttp15p7p14 must be present")),
        }
    }
}
impl ToValue for Ttp15p7p14 {
    fn to_value(&self) -> Value {
        Value::Seq(vec![
            self.is.as_ref().map(|x| x.to_value()),
            self.ra.as_ref().map(|x| x.to_value()),
            Some(self.u2.to_value()),
        ])
    }
}
impl FromValue for Ttp15p8p0Is {
    fn from_value(v: &Value) -> Self {
        let s = match v { Value::Seq(s) => s, other => panic!("Ttp15p8p0Is: expected Seq, got {other:?}") };
        assert_eq!(s.len(), 1, "Ttp15p8p0Is: component count");
        let _ = s;
        Ttp15p8p0Is {
            v: FromValue::from_value(s[0].as_ref().expect("component v of Ttp15p8p0Is must be present")),
        }
    }
}
impl ToValue for Ttp15p8p0Is {
    fn to_value(&self) -> Value {
        Value::Seq(vec![
            Some(self.v.to_value()),
        ])
    }
}
impl FromValue for Ttp15p8p0 {
    fn from_value(v: &Value) -> Self {
        let s = match v { Value::Seq(s) => s, other => panic!("Ttp15p8p0: expected Seq, got {other:?}") };
        assert_eq!(s.len(), 3, "Ttp15p8p0: component count");
        let _ = s;
        Ttp15p8p0 {
            is: s[0].as_ref().map(FromValue::from_value),
            rs: FromValue::from_value(s[1].as_ref().expect("component rs of Ttp15p8p0 must be present")),
            x: FromValue::from_value(s[2].as_ref().expect("component x of Ttp15p8p0 must be present")),
        }
    }
}
impl ToValue for Ttp15p8p0 {
    fn to_value(&self) -> Value {
        Value::Seq(vec![
            self.is.as_ref().map(|x| x.to_value()),
            Some(self.rs.to_value()),
            Some(self.x.to_value()),
        ])
    }
}
impl FromValue for Ttp15p8p1Is {
    fn from_value(v: &Value) -> Self {
        let s = match v { Value::Seq(s) => s, other => panic!("Ttp15p8p1Is: expected Seq, got {other:?}") };
        assert_eq!(s.len(), 1, "Ttp15p8p1Is: component count");
        let _ = s;
        Ttp15p8p1Is {
            v: FromValue::from_value(s[0].as_ref().expect("component v of Ttp15p8p1Is must be present")),
        }
    }
}
impl ToValue for Ttp15p8p1Is {
    fn to_value(&self) -> Value {
        Value::Seq(vec![
            Some(self.v.to_value()),
        ])
    }
}
impl FromValue for Ttp15p8p1 {
    fn from_value(v: &Value) -> Self {
        let s = match v { Value::Seq(s) => s, other => panic!("Ttp15p8p1: expected Seq, got {other:?}") };
        assert_eq!(s.len(), 3, "Ttp15p8p1: component count");
        let _ = s;
        Ttp15p8p1 {
            is: s[0].as_ref().map(FromValue::from_value),
            rs: FromValue::from_value(s[1].as_ref().expect("component rs of Ttp15p8p1 must be present")),
            a: s[2].as_ref().map(FromValue::from_value),
        }
    }
}
impl ToValue for Ttp15p8p1 {
    fn to_value(&self) -> Value {
        Value::Seq(vec![
            self.is.as_ref().map(|x| x.to_value()),
            Some(self.rs.to_value()),
            self.a.as_ref().map(|x| x.to_value()),
        ])
    }
}
impl FromValue for Ttp15p8p2Is {
    fn from_value(v: &Value) -> Self {
        let s = match v { Value::Seq(s) => s, other => panic!("Ttp15p8p2Is: expected Seq, got {other:?}") };
        assert_eq!(s.len(), 1, "Ttp15p8p2Is: component count");
        let _ = s;
        Ttp15p8p2Is {
            v: FromValue::from_value(s[0].as_ref().expect("component v of Ttp15p8p2Is must be present")),
        }
    }
}
impl ToValue for Ttp15p8p2Is {
    fn to_value(&self) -> Value {
        Value::Seq(vec![
            Some(self.v.to_value()),
        ])
    }
}
impl FromValue for Ttp15p8p2 {
    fn from_value(v: &Value) -> Self {
        let s = match v { Value::Seq(s) => s, other => panic!("Ttp15p8p2: expected Seq, got {other:?}") };
        assert_eq!(s.len(), 3, "Ttp15p8p2: component count");
        let _ = s;
        Ttp15p8p2 {
            is: s[0].as_ref().map(FromValue::from_value),
            rs: FromValue::from_value(s[1].as_ref().expect("component rs of Ttp15p8p2 must be present")),
            c3: FromValue::from_value(s[2].as_ref().expect("component c3 of Ttp15p8p2 must be present")),
        }
    }
}
impl ToValue for Ttp15p8p2 {
    fn to_value(&self) -> Value {
        Value::Seq(vec![
            self.is.as_ref().map(|x| x.to_value()),
            Some(self.rs.to_value()),
            Some(self.c3.to_value()),
        ])
    }
}
impl FromValue for Ttp15p8p3Is {
    fn from_value(v: &Value) -> Self {
        let s = match v { Value::Seq(s) => s, other => panic!("Ttp15p8p3Is: expected Seq, got {other:?}") };
        assert_eq!(s.len(), 1, "Ttp15p8p3Is: component count");
        let _ = s;
        Ttp15p8p3Is {
            v: FromValue::from_value(s[0].as_ref().expect("component v of Ttp15p8p3Is must be present")),
        }
    }
}
impl ToValue for Ttp15p8p3Is {
    fn to_value(&self) -> Value {
        Value::Seq(vec![
            Some(self.v.to_value()),
        ])
    }
}
impl FromValue for Ttp15p8p3 {
    fn from_value(v: &Value) -> Self {
        let s = match v { Value::Seq(s) => s, other => panic!("Ttp15p8p3: expected Seq, got {other:?}") };
        assert_eq!(s.len(), 3, "Ttp15p8p3: component count");
        let _ = s;
        Ttp15p8p3 {
            is: s[0].as_ref().map(FromValue::from_value),
            rs: FromValue::from_value(s[1].as_ref().expect("component rs of Ttp15p8p3 must be present")),
            c0: s[2].as_ref().map(FromValue::from_value),
        }
    }
}
impl ToValue for Ttp15p8p3 {
    fn to_value(&self) -> Value {
        Value::Seq(vec![
            self.is.as_ref().map(|x| x.to_value()),
            Some(self.rs.to_value()),
            self.c0.as_ref().map(|x| x.to_value()),
        ])
    }
}
impl FromValue for Ttp15p8p4Is {
    fn from_value(v: &Value) -> Self {
        let s = match v { Value::Seq(s) => s, other => panic!("Ttp15p8p4Is: expected Seq, got {other:?}") };
        assert_eq!(s.len(), 1, "Ttp15p8p4Is: component count");
        let _ = s;
        Ttp15p8p4Is {
            v: FromValue::from_value(s[0].as_ref().expect("component v of Ttp15p8p4Is must be present")),
        }
    }
}
impl ToValue for Ttp15p8p4Is {
    fn to_value(&self) -> Value {
        Value::Seq(vec![
            Some(self.v.to_value()),
        ])
    }
}
impl FromValue for Ttp15p8p4 {
    fn from_value(v: &Value) -> Self {
        let s = match v { Value::Seq(s) => s, other => panic!("Ttp15p8p4: expected Seq, got {other:?}") };
        assert_eq!(s.len(), 3, "Ttp15p8p4: component count");
        let _ = s;
        Ttp15p8p4 {
            is: s[0].as_ref().map(FromValue::from_value),
            rs: FromValue::from_value(s[1].as_ref().expect("component rs of Ttp15p8p4 must be present")),
            p: FromValue::from_value(s[2].as_ref().expect("component p of Ttp15p8p4 must be present")),
        }
    }
}
impl ToValue for Ttp15p8p4 {
    fn to_value(&self) -> Value {
        Value::Seq(vec![
            self.is.as_ref().map(|x| x.to_value()),
            Some(self.rs.to_value()),
            Some(self.p.to_value()),
        ])
    }
}
impl FromValue for Ttp15p8p5Is {
    fn from_value(v: &Value) -> Self {
        let s = match v { Value::Seq(s) => s, other => panic!("Ttp15p8p5Is: expected Seq, got {other:?}") };
        assert_eq!(s.len(), 1, "Ttp15p8p5Is: component count");
        let _ = s;
        Ttp15p8p5Is {
            v: FromValue::from_value(s[0].as_ref().expect("component v of Ttp15p8p5Is must be present")),
        }
    }
}
impl ToValue for Ttp15p8p5Is {
    fn to_value(&self) -> Value {
        Value::Seq(vec![
            Some(self.v.to_value()),
        ])
    }
}
impl FromValue for Ttp15p8p5 {
    fn from_value(v: &Value) -> Self {
        let s = match v { Value::Seq(s) => s, other => panic!("Ttp15p8p5: expected Seq, got {other:?}") };
        assert_eq!(s.len(), 3, "Ttp15p8p5: component count");
        let _ = s;
        Ttp15p8p5 {
            is: s[0].as_ref().map(FromValue::from_value),
            rs: FromValue::from_value(s[1].as_ref().expect("component rs of Ttp15p8p5 must be present")),
            b: s[2].as_ref().map(FromValue::from_value),
        }
    }
}
impl ToValue for Ttp15p8p5 {
    fn to_value(&self) -> Value {
        Value::Seq(vec![
            self.is.as_ref().map(|x| x.to_value()),
            Some(self.rs.to_value()),
            self.b.as_ref().map(|x| x.to_value()),
        ])
    }
}
impl FromValue for Ttp15p8p6Is {
    fn from_value(v: &Value) -> Self {
        let s = match v { Value::Seq(s) => s, other => panic!("Ttp15p8p6Is: expected Seq, got {other:?}") };
        assert_eq!(s.len(), 1, "Ttp15p8p6Is: component count");
        let _ = s;
        Ttp15p8p6Is {
            v: FromValue::from_value(s[0].as_ref().expect("component v of Ttp15p8p6Is must be present")),
        }
    }
}
impl ToValue for Ttp15p8p6Is {
    fn to_value(&self) -> Value {
        Value::Seq(vec![
            Some(self.v.to_value()),
        ])
    }
}
impl FromValue for Ttp15p8p6 {
    fn from_value(v: &Value) -> Self {
        let s = match v { Value::Seq(s) => s, other => panic!("Ttp15p8p6: expected Seq, got {other:?}") };
        assert_eq!(s.len(), 3, "Ttp15p8p6: component count");
        let _ = s;
        Ttp15p8p6 {
            is: s[0].as_ref().map(FromValue::from_value),
            rs: FromValue::from_value(s[1].as_ref().expect("component rs of Ttp15p8p6 must be present")),
            i: FromValue::from_value(s[2].as_ref().expect("component i of Ttp15p8p6 must be present")),
        }
    }
}
impl ToValue for Ttp15p8p6 {
    fn to_value(&self) -> Value {
        Value::Seq(vec![
            self.is.as_ref().map(|x| x.to_value()),
            Some(self.rs.to_value()),
            Some(self.i.to_value()),
        ])
    }
}
impl FromValue for Ttp15p8p7Is {
    fn from_value(v: &Value) -> Self {
        let s = match v { Value::Seq(s) => s, other => panic!("Ttp15p8p7Is: expected Seq, got {other:?}") };
        assert_eq!(s.len(), 1, "Ttp15p8p7Is: component count");
        let _ = s;
        Ttp15p8p7Is {
            v: FromValue::from_value(s[0].as_ref().expect("component v of Ttp15p8p7Is must be present")),
        }
    }
}
impl ToValue for Ttp15p8p7Is {
    fn to_value(&self) -> Value {
        Value::Seq(vec![
            Some(self.v.to_value()),
        ])
    }
}
impl FromValue for Ttp15p8p7 {
    fn from_value(v: &Value) -> Self {
        let s = match v { Value::Seq(s) => s, other => panic!("Ttp15p8p7: expected Seq, got {other:?}") };
        assert_eq!(s.len(), 3, "Ttp15p8p7: component count");
        let _ = s;
        Ttp15p8p7 {
            is: s[0].as_ref().map(FromValue::from_value),
            rs: FromValue::from_value(s[1].as_ref().expect("component rs of Ttp15p8p7 must be present")),
            ra: s[2].as_ref().map(FromValue::from_value),
        }
    }
}
impl ToValue for Ttp15p8p7 {
    fn to_value(&self) -> Value {
        Value::Seq(vec![
            self.is.as_ref().map(|x| x.to_value()),
            Some(self.rs.to_value()),
            self.ra.as_ref().map(|x| x.to_value()),
        ])
    }
}
impl FromValue for Ttp15p8p9Is {
    fn from_value(v: &Value) -> Self {
        let s = match v { Value::Seq(s) => s, other => panic!("Ttp15p8p9Is: expected Seq, got {other:?}") };
        assert_eq!(s.len(), 1, "Ttp15p8p9Is: component count");
        let _ = s;
        Ttp15p8p9Is {
            v: FromValue::from_value(s[0].as_ref().expect("component v of Ttp15p8p9Is must be present")),
        }
    }
}
impl ToValue for Ttp15p8p9Is {
    fn to_value(&self) -> Value {
        Value::Seq(vec![
            Some(self.v.to_value()),
        ])
    }
}
impl FromValue for Ttp15p8p9 {
    fn from_value(v: &Value) -> Self {
        let s = match v { Value::Seq(s) => s, other => panic!("Ttp15p8p9: expected Seq, got {other:?}") };
        assert_eq!(s.len(), 3, "Ttp15p8p9: component count");
        let _ = s;
        Ttp15p8p9 {
            is: s[0].as_ref().map(FromValue::from_value),
            rs: FromValue::from_value(s[1].as_ref().expect("component rs of Ttp15p8p9 must be present")),
            rc: s[2].as_ref().map(FromValue::from_value),
        }
    }
}
impl ToValue for Ttp15p8p9 {
    fn to_value(&self) -> Value {
        Value::Seq(vec![
            self.is.as_ref().map(|x| x.to_value()),
            Some(self.rs.to_value()),
            self.rc.as_ref().map(|x| x.to_value()),
        ])
    }
}
impl FromValue for Ttp15p8p10Is {
    fn from_value(v: &Value) -> Self {
        let s = match v { Value::Seq(s) => s, other => panic!("Ttp15p8p10Is: expected Seq, got {other:?}") };
        assert_eq!(s.len(), 1, "Ttp15p8p10Is: component count");
        let _ = s;
        Ttp15p8p10Is {
            v: FromValue::from_value(s[0].as_ref().expect("component v of Ttp15p8p10Is must be present")),
        }
    }
}
impl ToValue for Ttp15p8p10Is {
    fn to_value(&self) -> Value {
        Value::Seq(vec![
            Some(self.v.to_value()),
        ])
    }
}
impl FromValue for Ttp15p8p10 {
    fn from_value(v: &Value) -> Self {
        let s = match v { Value::Seq(s) => s, other => panic!("Ttp15p8p10: expected Seq, got {other:?}") };
        assert_eq!(s.len(), 3, "Ttp15p8p10: component count");
        let _ = s;
        Ttp15p8p10 {
            is: s[0].as_ref().map(FromValue::from_value),
            rs: FromValue::from_value(s[1].as_ref().expect("component rs of Ttp15p8p10 must be present")),
            rt: FromValue::from_value(s[2].as_ref().expect("component rt of Ttp15p8p10 must be present")),
        }
    }
}
impl ToValue for Ttp15p8p10 {
    fn to_value(&self) -> Value {
        Value::Seq(vec![
            self.is.as_ref().map(|x| x.to_value()),
            Some(self.rs.to_value()),
            Some(self.rt.to_value()),
        ])
    }
}
impl FromValue for Ttp15p8p11Is {
    fn from_value(v: &Value) -> Self {
        let s = match v { Value::Seq(s) => s, other => panic!("Ttp15p8p11Is: expected Seq, got {other:?}") };
        assert_eq!(s.len(), 1, "Ttp15p8p11Is: component count");
        let _ = s;
        Ttp15p8p11Is {
            v: FromValue::from_value(s[0].as_ref().expect("component v of Ttp15p8p11Is must be present")),
        }
    }
}
impl ToValue for Ttp15p8p11Is {
    fn to_value(&self) -> Value {
        Value::Seq(vec![
            Some(self.v.to_value()),
        ])
    }
}
impl FromValue for Ttp15p8p11 {
    fn from_value(v: &Value) -> Self {
        let s = match v { Value::Seq(s) => s, other => panic!("Ttp15p8p11: expected Seq, got {other:?}") };
        assert_eq!(s.len(), 3, "Ttp15p8p11: component count");
        let _ = s;
        Ttp15p8p11 {
            is: s[0].as_ref().map(FromValue::from_value),
            rs: FromValue::from_value(s[1].as_ref().expect("component rs of Ttp15p8p11 must be present")),
            so: s[2].as_ref().map(FromValue::from_value),
        }
    }
}
impl ToValue for Ttp15p8p11 {
    fn to_value(&self) -> Value {
        Value::Seq(vec![
            self.is.as_ref().map(|x| x.to_value()),
            Some(self.rs.to_value()),
            self.so.as_ref().map(|x| x.to_value()),
        ])
    }
}
impl FromValue for Ttp15p8p12Is {
    fn from_value(v: &Value) -> Self {
        let s = match v { Value::Seq(s) => s, other => panic!("Ttp15p8p12Is: expected Seq, got {other:?}") };
        assert_eq!(s.len(), 1, "Ttp15p8p12Is: component count");
        let _ = s;
        Ttp15p8p12Is {
            v: FromValue::from_value(s[0].as_ref().expect("component v of Ttp15p8p12Is must be present")),
        }
    }
}
impl ToValue for Ttp15p8p12Is {
    fn to_value(&self) -> Value {
        Value::Seq(vec![
            Some(self.v.to_value()),
        ])
    }
}
impl FromValue for Ttp15p8p12 {
    fn from_value(v: &Value) -> Self {
        let s = match v { Value::Seq(s) => s, other => panic!("Ttp15p8p12: expected Seq, got {other:?}") };
        assert_eq!(s.len(), 3, "Ttp15p8p12: component count");
        let _ = s;
        Ttp15p8p12 {
            is: s[0].as_ref().map(FromValue::from_value),
            rs: FromValue::from_value(s[1].as_ref().expect("component rs of Ttp15p8p12 must be present")),
            st: FromValue::from_value(s[2].as_ref().expect("component st of Ttp15p8p12 must be present")),
        }
    }
}
impl ToValue for Ttp15p8p12 {
    fn to_value(&self) -> Value {
        Value::Seq(vec![
            self.is.as_ref().map(|x| x.to_value()),
            Some(self.rs.to_value()),
            Some(self.st.to_value()),
        ])
    }
}
impl FromValue for Ttp15p8p13Is {
    fn from_value(v: &Value) -> Self {
        let s = match v { Value::Seq(s) => s, other => panic!("Ttp15p8p13Is: expected Seq, got {other:?}") };
        assert_eq!(s.len(), 1, "Ttp15p8p13Is: component count");
        let _ = s;
        Ttp15p8p13Is {
            v: FromValue::from_value(s[0].as_ref().expect("component v of Ttp15p8p13Is must be present")),
        }
    }
}
impl ToValue for Ttp15p8p13Is {
    fn to_value(&self) -> Value {
        Value::Seq(vec![
            Some(self.v.to_value()),
        ])
    }
}
impl FromValue for Ttp15p8p13 {
    fn from_value(v: &Value) -> Self {
        let s = match v { Value::Seq(s) => s, other => panic!("Ttp15p8p13: expected Seq, got {other:?}") };
        assert_eq!(s.len(), 3, "Ttp15p8p13: component count");
        let _ = s;
        Ttp15p8p13 {
            is: s[0].as_ref().map(FromValue::from_value),
            rs: FromValue::from_value(s[1].as_ref().expect("component rs of Ttp15p8p13 must be present")),
            rx: s[2].as_ref().map(FromValue::from_value),
        }
    }
}
impl ToValue for Ttp15p8p13 {
    fn to_value(&self) -> Value {
        Value::Seq(vec![
            self.is.as_ref().map(|x| x.to_value()),
            Some(self.rs.to_value()),
            self.rx.as_ref().map(|x| x.to_value()),
        ])
    }
}
impl FromValue for Ttp15p8p14Is {
    fn from_value(v: &Value) -> Self {
        let s = match v { Value::Seq(s) => s, other => panic!("Ttp15p8p14Is: expected Seq, got {other:?}") };
        assert_eq!(s.len(), 1, "Ttp15p8p14Is: component count");
        let _ = s;
        Ttp15p8p14Is {
            v: FromValue::from_value(s[0].as_ref().expect("component v of Ttp15p8p14Is must be present")),
        }
    }
}
impl ToValue for Ttp15p8p14Is {
    fn to_value(&self) -> Value {
        Value::Seq(vec![
            Some(self.v.to_value()),
        ])
    }
}
impl FromValue for Ttp15p8p14 {
    fn from_value(v: &Value) -> Self {
        let s = match v { Value::Seq(s) => s, other => panic!("Ttp15p8p14: expected Seq, got {other:?}") };
        assert_eq!(s.len(), 3, "Ttp15p8p14: component count");
        let _ = s;
        Ttp15p8p14 {
            is: s[0].as_ref().map(FromValue::from_value),
            rs: FromValue::from_value(s[1].as_ref().expect("component rs of Ttp15p8p14 must be present")),
            u2: FromValue::from_value(s[2].as_ref().expect("component u2 of Ttp15p8p14 must be present")),
        }
    }
}
impl ToValue for Ttp15p8p14 {
    fn to_value(&self) -> Value {
        Value::Seq(vec![
            self.is.as_ref().map(|x| x.to_value()),
            Some(self.rs.to_value()),
            Some(self.u2.to_value()),
        ])
    }
}
impl FromValue for Ttp15p9p0Is {
    fn from_value(v: &Value) -> Self {
        let s = match v { Value::Seq(s) => s, other => panic!("Ttp15p9p0Is: expected Seq, got {other:?}") };
        assert_eq!(s.len(), 1, "Ttp15p9p0Is: component count");
        let _ = s;
        Ttp15p9p0Is {
            v: FromValue::from_value(s[0].as_ref().expect("component v of Ttp15p9p0Is must be present")),
        }
    }
}
impl ToValue for Ttp15p9p0Is {
    fn to_value(&self) -> Value {
        Value::Seq(vec![
            Some(self.v.to_value()),
        ])
    }
}
impl FromValue for Ttp15p9p0 {
    fn from_value(v: &Value) -> Self {
        let s = match v { Value::Seq(s) => s, other => panic!("Ttp15p9p0: expected Seq, got {other:?}") };
        assert_eq!(s.len(), 3, "Ttp15p9p0: component count");
        let _ = s;
        Ttp15p9p0 {
            is: s[0].as_ref().map(FromValue::from_value),
            rc: s[1].as_ref().map(FromValue::from_value),
            x: FromValue::from_value(s[2].as_ref().expect("component x of Ttp15p9p0 must be present")),
        }
    }
}
impl ToValue for Ttp15p9p0 {
    fn to_value(&self) -> Value {
        Value::Seq(vec![
            self.is.as_ref().map(|x| x.to_value()),
            self.rc.as_ref().map(|x| x.to_value()),
            Some(self.x.to_value()),
        ])
    }
}
impl FromValue for Ttp15p9p1Is {
    fn from_value(v: &Value) -> Self {
        let s = match v { Value::Seq(s) => s, other => panic!("Ttp15p9p1Is: expected Seq, got {other:?}") };
        assert_eq!(s.len(), 1, "Ttp15p9p1Is: component count");
        let _ = s;
        Ttp15p9p1Is {
            v: FromValue::from_value(s[0].as_ref().expect("component v of Ttp15p9p1Is must be present")),
        }
    }
}
impl ToValue for Ttp15p9p1Is {
    fn to_value(&self) -> Value {
        Value::Seq(vec![
            Some(self.v.to_value()),
        ])
    }
}
impl FromValue for Ttp15p9p1 {
    fn from_value(v: &Value) -> Self {
        let s = match v { Value::Seq(s) => s, other => panic!("Ttp15p9p1: expected Seq, got {other:?}") };
        assert_eq!(s.len(), 3, "Ttp15p9p1: component count");
        let _ = s;
        Ttp15p9p1 {
            is: s[0].as_ref().map(FromValue::from_value),
            rc: s[1].as_ref().map(FromValue::from_value),
            a: s[2].as_ref().map(FromValue::from_value),
        }
    }
}
impl ToValue for Ttp15p9p1 {
    fn to_value(&self) -> Value {
        Value::Seq(vec![
            self.is.as_ref().map(|x| x.to_value()),
            self.rc.as_ref().map(|x| x.to_value()),
            self.a.as_ref().map(|x| x.to_value()),
        ])
    }
}
impl FromValue for Ttp15p9p2Is {
    fn from_value(v: &Value) -> Self {
        let s = match v { Value::Seq(s) => s, other => panic!("Ttp15p9p2Is: expected Seq, got {other:?}") };
        assert_eq!(s.len(), 1, "Ttp15p9p2Is: component count");
        let _ = s;
        Ttp15p9p2Is {
            v: FromValue::from_value(s[0].as_ref().expect("component v of Ttp15p9p2Is must be present")),
        }
    }
}
impl ToValue for Ttp15p9p2Is {
    fn to_value(&self) -> Value {
        Value::Seq(vec![
            Some(self.v.to_value()),
        ])
    }
}
impl FromValue for Ttp15p9p2 {
    fn from_value(v: &Value) -> Self {
        let s = match v { Value::Seq(s) => s, other => panic!("Ttp15p9p2: expected Seq, got {other:?}") };
        assert_eq!(s.len(), 3, "Ttp15p9p2: component count");
        let _ = s;
        Ttp15p9p2 {
            is: s[0].as_ref().map(FromValue::from_value),
            rc: s[1].as_ref().map(FromValue::from_value),
            c3: FromValue::from_value(s[2].as_ref().expect("component c3 of Ttp15p9p2 must be present")),
        }
    }
}
impl ToValue for Ttp15p9p2 {
    fn to_value(&self) -> Value {
        Value::Seq(vec![
            self.is.as_ref().map(|x| x.to_value()),
            self.rc.as_ref().map(|x| x.to_value()),
            Some(self.c3.to_value()),
        ])
    }
}
impl FromValue for Ttp15p9p3Is {
    fn from_value(v: &Value) -> Self {
        let s = match v { Value::Seq(s) => s, other => panic!("Ttp15p9p3Is: expected Seq, got {other:?}") };
        assert_eq!(s.len(), 1, "Ttp15p9p3Is: component count");
        let _ = s;
        Ttp15p9p3Is {
            v: FromValue::from_value(s[0].as_ref().expect("component v of Ttp15p9p3Is must be present")),
        }
    }
}
impl ToValue for Ttp15p9p3Is {
    fn to_value(&self) -> Value {
        Value::Seq(vec![
            Some(self.v.to_value()),
        ])
    }
}
impl FromValue for Ttp15p9p3 {
    fn from_value(v: &Value) -> Self {
        let s = match v { Value::Seq(s) => s, other => panic!("Ttp15p9p3: expected Seq, got {other:?}") };
        assert_eq!(s.len(), 3, "Ttp15p9p3: component count");
        let _ = s;
        Ttp15p9p3 {
            is: s[0].as_ref().map(FromValue::from_value),
            rc: s[1].as_ref().map(FromValue::from_value),
            c0: s[2].as_ref().map(FromValue::from_value),
        }
    }
}
impl ToValue for Ttp15p9p3 {
    fn to_value(&self) -> Value {
        Value::Seq(vec![
            self.is.as_ref().map(|x| x.to_value()),
            self.rc.as_ref().map(|x| x.to_value()),
            self.c0.as_ref().map(|x| x.to_value()),
        ])
    }
}
impl FromValue for Ttp15p9p4Is {
    fn from_value(v: &Value) -> Self {
        let s = match v { Value::Seq(s) => s, other => panic!("Ttp15p9p4Is: expected Seq, got {other:?}") };
        assert_eq!(s.len(), 1, "Ttp15p9p4Is: component count");
        let _ = s;
        Ttp15p9p4Is {
            v: FromValue::from_value(s[0].as_ref().expect("component v of Ttp15p9p4Is must be present")),
        }
    }
}
impl ToValue for Ttp15p9p4Is {
    fn to_value(&self) -> Value {
        Value::Seq(vec![
            Some(self.v.to_value()),
        ])
    }
}
impl FromValue for Ttp15p9p4 {
    fn from_value(v: &Value) -> Self {
        let s = match v { Value::Seq(s) => s, other => panic!("Ttp15p9p4: expected Seq, got {other:?}") };
        assert_eq!(s.len(), 3, "Ttp15p9p4: component count");
        let _ = s;
        Ttp15p9p4 {
            is: s[0].as_ref().map(FromValue::from_value),
            rc: s[1].as_ref().map(FromValue::from_value),
            p: FromValue::from_value(s[2].as_ref().expect("component p of Ttp15p9p4 must be present")),
        }
    }
}
impl ToValue for Ttp15p9p4 {
    fn to_value(&self) -> Value {
        Value::Seq(vec![
            self.is.as_ref().map(|x| x.to_value()),
            self.rc.as_ref().map(|x| x.to_value()),
            Some(self.p.to_value()),
        ])
    }
}
impl FromValue for Ttp15p9p5Is {
    fn from_value(v: &Value) -> Self {
        let s = match v { Value::Seq(s) => s, other => panic!("Ttp15p9p5Is: expected Seq, got {other:?}") };
        assert_eq!(s.len(), 1, "Ttp15p9p5Is: component count");
        let _ = s;
        Ttp15p9p5Is {
            v: FromValue::from_value(s[0].as_ref().expect("component v of Ttp15p9p5Is must be present")),
        }
    }
}
impl ToValue for Ttp15p9p5Is {
    fn to_value(&self) -> Value {
        Value::Seq(vec![
            Some(self.v.to_value()),
        ])
    }
}
impl FromValue for Ttp15p9p5 {
    fn from_value(v: &Value) -> Self {
        let s = match v { Value::Seq(s) => s, other => panic!("Ttp15p9p5: expected Seq, got {other:?}") };
        assert_eq!(s.len(), 3, "Ttp15p9p5: component count");
        let _ = s;
        Ttp15p9p5 {
            is: s[0].as_ref().map(FromValue::from_value),
            rc: s[1].as_ref().map(FromValue::from_value),
            b: s[2].as_ref().map(FromValue::from_value),
        }
    }
}
impl ToValue for Ttp15p9p5 {
    fn to_value(&self) -> Value {
        Value::Seq(vec![
            self.is.as_ref().map(|x| x.to_value()),
            self.rc.as_ref().map(|x| x.to_value()),
            self.b.as_ref().map(|x| x.to_value()),
        ])
    }
}
impl FromValue for Ttp15p9p6Is {
    fn from_value(v: &Value) -> Self {
        let s = match v { Value::Seq(s) => s, other => panic!("Ttp15p9p6Is: expected Seq, got {other:?}") };
        assert_eq!(s.len(), 1, "Ttp15p9p6Is: component count");
        let _ = s;
        Ttp15p9p6Is {
            v: FromValue::from_value(s[0].as_ref().expect("component v of Ttp15p9p6Is must be present")),
        }
    }
}
impl ToValue for Ttp15p9p6Is {
    fn to_value(&self) -> Value {
        Value::Seq(vec![
            Some(self.v.to_value()),
        ])
    }
}
impl FromValue for Ttp15p9p6 {
    fn from_value(v: &Value) -> Self {
        let s = match v { Value::Seq(s) => s, other => panic!("Ttp15p9p6: expected Seq, got {other:?}") };
        assert_eq!(s.len(), 3, "Ttp15p9p6: component count");
        let _ = s;
        Ttp15p9p6 {
            is: s[0].as_ref().map(FromValue::from_value),
            rc: s[1].as_ref().map(FromValue::from_value),
            i: FromValue::from_value(s[2].as_ref().expect("component i of Ttp15p9p6 must be present")),
        }
    }
}
impl ToValue for Ttp15p9p6 {
    fn to_value(&self) -> Value {
        Value::Seq(vec![
            self.is.as_ref().map(|x| x.to_value()),
            self.rc.as_ref().map(|x| x.to_value()),
            Some(self.i.to_value()),
        ])
    }
}
impl FromValue for Ttp15p9p7Is {
    fn from_value(v: &Value) -> Self {
        let s = match v { Value::Seq(s) => s, other => panic!("Ttp15p9p7Is: expected Seq, got {other:?}") };
        assert_eq!(s.len(), 1, "Ttp15p9p7Is: component count");
        let _ = s;
        Ttp15p9p7Is {
            v: FromValue::from_value(s[0].as_ref().expect("component v of Ttp15p9p7Is must be present")),
        }
    }
}
impl ToValue for Ttp15p9p7Is {
    fn to_value(&self) -> Value {
        Value::Seq(vec![
            Some(self.v.to_value()),
        ])
    }
}
impl FromValue for Ttp15p9p7 {
    fn from_value(v: &Value) -> Self {
        let s = match v { Value::Seq(s) => s, other => panic!("Ttp15p9p7: expected Seq, got {other:?}") };
        assert_eq!(s.len(), 3, "Ttp15p9p7: component count");
        let _ = s;
        Ttp15p9p7 {
            is: s[0].as_ref().map(FromValue::from_value),
            rc: s[1].as_ref().map(FromValue::from_value),
            ra: s[2].as_ref().map(FromValue::from_value),
        }
    }
}
impl ToValue for Ttp15p9p7 {
    fn to_value(&self) -> Value {
        Value::Seq(vec![
            self.is.as_ref().map(|x| x.to_value()),
            self.rc.as_ref().map(|x| x.to_value()),
            self.ra.as_ref().map(|x| x.to_value()),
        ])
    }
}
impl FromValue for Ttp15p9p8Is {
    fn from_value(v: &Value) -> Self {
        let s = match v { Value::Seq(s) => s, other => panic!("Ttp15p9p8Is: expected Seq, got {other:?}") };
        assert_eq!(s.len(), 1, "Ttp15p9p8Is: component count");
        let _ = s;
        Ttp15p9p8Is {
            v: FromValue::from_value(s[0].as_ref().expect("component v of Ttp15p9p8Is must be present")),
        }
    }
}
impl ToValue for Ttp15p9p8Is {
    fn to_value(&self) -> Value {
        Value::Seq(vec![
            Some(self.v.to_value()),
        ])
    }
}
impl FromValue for Ttp15p9p8 {
    fn from_value(v: &Value) -> Self {
        let s = match v { Value::Seq(s) => s, other => panic!("Ttp15p9p8: expected Seq, got {other:?}") };
        assert_eq!(s.len(), 3, "Ttp15p9p8: component count");
        let _ = s;
        Ttp15p9p8 {
            is: s[0].as_ref().map(FromValue::from_value),
            rc: s[1].as_ref().map(FromValue::from_value),
            rs: FromValue::from_value(s[2].as_ref().expect("component rs of Ttp15p9p8 must be present")),
        }
    }
}
impl ToValue for Ttp15p9p8 {
    fn to_value(&self) -> Value {
        Value::Seq(vec![
            self.is.as_ref().map(|x| x.to_value()),
            self.rc.as_ref().map(|x| x.to_value()),
            Some(self.rs.to_value()),
        ])
    }
}
impl FromValue for Ttp15p9p10Is {
    fn from_value(v: &Value) -> Self {
        let s = match v { Value::Seq(s) => s, other => panic!("Ttp15p9p10Is: expected Seq, got {other:?}") };
        assert_eq!(s.len(), 1, "Ttp15p9p10Is: component count");
        let _ = s;
        Ttp15p9p10Is {
            v: FromValue::from_value(s[0].as_ref().expect("component v of Ttp15p9p10Is must be present")),
        }
    }
}
impl ToValue for Ttp15p9p10Is {
    fn to_value(&self) -> Value {
        Value::Seq(vec![
            Some(self.v.to_value()),
        ])
    }
}
impl FromValue for Ttp15p9p10 {
    fn from_value(v: &Value) -> Self {
        let s = match v { Value::Seq(s) => s, other => panic!("Ttp15p9p10: expected Seq, got {other:?}") };
        assert_eq!(s.len(), 3, "Ttp15p9p10: component count");
        let _ = s;
        Ttp15p9p10 {
            is: s[0].as_ref().map(FromValue::from_value),
            rc: s[1].as_ref().map(FromValue::from_value),
            rt: FromValue::from_value(s[2].as_ref().expect("component rt of Ttp15p9p10 must be present")),
        }
    }
}
impl ToValue for Ttp15p9p10 {
    fn to_value(&self) -> Value {
        Value::Seq(vec![
            self.is.as_ref().map(|x| x.to_value()),
            self.rc.as_ref().map(|x| x.to_value()),
            Some(self.rt.to_value()),
        ])
    }
}
impl FromValue for Ttp15p9p11Is {
    fn from_value(v: &Value) -> Self {
        let s = match v { Value::Seq(s) => s, other => panic!("Ttp15p9p11Is: expected Seq, got {other:?}") };
        assert_eq!(s.len(), 1, "Ttp15p9p11Is: component count");
        let _ = s;
        Ttp15p9p11Is {
            v: FromValue::from_value(s[0].as_ref().expect("component v of Ttp15p9p11Is must be present")),
        }
    }
}
impl ToValue for Ttp15p9p11Is {
    fn to_value(&self) -> Value {
        Value::Seq(vec![
            Some(self.v.to_value()),
        ])
    }
}
impl FromValue for Ttp15p9p11 {
    fn from_value(v: &Value) -> Self {
        let s = match v { Value::Seq(s) => s, other => panic!("Ttp15p9p11: expected Seq, got {other:?}") };
        assert_eq!(s.len(), 3, "Ttp15p9p11: component count");
        let _ = s;
        Ttp15p9p11 {
            is: s[0].as_ref().map(FromValue::from_value),
            rc: s[1].as_ref().map(FromValue::from_value),
            so: s[2].as_ref().map(FromValue::from_value),
        }
    }
}
impl ToValue for Ttp15p9p11 {
    fn to_value(&self) -> Value {
        Value::Seq(vec![
            self.is.as_ref().map(|x| x.to_value()),
            self.rc.as_ref().map(|x| x.to_value()),
            self.so.as_ref().map(|x| x.to_value()),
        ])
    }
}
impl FromValue for Ttp15p9p12Is {
    fn from_value(v: &Value) -> Self {
        let s = match v { Value::Seq(s) => s, other => panic!("Ttp15p9p12Is: expected Seq, got {other:?}") };
        assert_eq!(s.len(), 1, "Ttp15p9p12Is: component count");
        let _ = s;
        Ttp15p9p12Is {
            v: FromValue::from_value(s[0].as_ref().expect("component v of Ttp15p9p12Is must be present")),
        }
    }
}
impl ToValue for Ttp15p9p12Is {
    fn to_value(&self) -> Value {
        Value::Seq(vec![
            Some(self.v.to_value()),
        ])
    }
}
impl FromValue for Ttp15p9p12 {
    fn from_value(v: &Value) -> Self {
        let s = match v { Value::Seq(s) => s, other => panic!("Ttp15p9p12: expected Seq, got {other:?}") };
        assert_eq!(s.len(), 3, "Ttp15p9p12: component count");
        let _ = s;
        Ttp15p9p12 {
            is: s[0].as_ref().map(FromValue::from_value),
            rc: s[1].as_ref().map(FromValue::from_value),
            st: FromValue::from_value(s[2].as_ref().expect("component st of Ttp15p9p12 must be present")),
        }
    }
}
impl ToValue for Ttp15p9p12 {
    fn to_value(&self) -> Value {
        Value::Seq(vec![
            self.is.as_ref().map(|x| x.to_value()),
            self.rc.as_ref().map(|x| x.to_value()),
            Some(self.st.to_value()),
        ])
    }
}
impl FromValue for Ttp15p9p13Is {
    fn from_value(v: &Value) -> Self {
        let s = match v { Value::Seq(s) => s, other => panic!("Ttp15p9p13Is: expected Seq, got {other:?}") };
        assert_eq!(s.len(), 1, "Ttp15p9p13Is: component count");
        let _ = s;
        Ttp15p9p13Is {
            v: FromValue::from_value(s[0].as_ref().expect("component v of Ttp15p9p13Is must be present")),
        }
    }
}
impl ToValue for Ttp15p9p13Is {
    fn to_value(&self) -> Value {
        Value::Seq(vec![
            Some(self.v.to_value()),
        ])
    }
}
impl FromValue for Ttp15p9p13 {
    fn from_value(v: &Value) -> Self {
        let s = match v { Value::Seq(s) => s, other => panic!("Ttp15p9p13: expected Seq, got {other:?}") };
        assert_eq!(s.len(), 3, "Ttp15p9p13: component count");
        let _ = s;
        Ttp15p9p13 {
            is: s[0].as_ref().map(FromValue::from_value),
            rc: s[1].as_ref().map(FromValue::from_value),
            rx: s[2].as_ref().map(FromValue::from_value),
        }
    }
}
impl ToValue for Ttp15p9p13 {
    fn to_value(&self) -> Value {
        Value::Seq(vec![
            self.is.as_ref().map(|x| x.to_value()),
            self.rc.as_ref().map(|x| x.to_value()),
            self.rx.as_ref().map(|x| x.to_value()),
        ])
    }
}
impl FromValue for Ttp15p9p14Is {
    fn from_value(v: &Value) -> Self {
        let s = match v { Value::Seq(s) => s, other => panic!("Ttp15p9p14Is: expected Seq, got {other:?}") };
        assert_eq!(s.len(), 1, "Ttp15p9p14Is: component count");
        let _ = s;
        Ttp15p9p14Is {
            v: FromValue::from_value(s[0].as_ref().expect("component v of Ttp15p9p14Is must be present")),
        }
    }
}
impl ToValue for Ttp15p9p14Is {
    fn to_value(&self) -> Value {
        Value::Seq(vec![
            Some(self.v.to_value()),
        ])
    }
}
impl FromValue for Ttp15p9p14 {
    fn from_value(v: &Value) -> Self {
        let s = match v { Value::Seq(s) => s, other => panic!("Ttp15p9p14: expected Seq, got {other:?}") };
        assert_eq!(s.len(), 3, "Ttp15p9p14: component count");
        let _ = s;
        Ttp15p9p14 {
            is: s[0].as_ref().map(FromValue::from_value),
            rc: s[1].as_ref().map(FromValue::from_value),
            u2: FromValue::from_value(s[2].as_ref().expect("component u2 of Ttp15p9p14 must be present")),
        }
    }
}
impl ToValue for Ttp15p9p14 {
    fn to_value(&self) -> Value {
        Value::Seq(vec![
            self.is.as_ref().map(|x| x.to_value()),
            self.rc.as_ref().map(|x| x.to_value()),
            Some(self.u2.to_value()),
        ])
    }
}
impl FromValue for Ttp15p10p0Is {
    fn from_value(v: &Value) -> Self {
        let s = match v { Value::Seq(s) => s, other => panic!("Ttp15p10p0Is: expected Seq, got {other:?}") };
        assert_eq!(s.len(), 1, "Ttp15p10p0Is: component count");
        let _ = s;
        Ttp15p10p0Is {
            v: FromValue::from_value(s[0].as_ref().expect("component v of Ttp15p10p0Is must be present")),
        }
    }
}
impl ToValue for Ttp15p10p0Is {
    fn to_value(&self) -> Value {
        Value::Seq(vec![
            Some(self.v.to_value()),
        ])
    }
}
impl FromValue for Ttp15p10p0 {
    fn from_value(v: &Value) -> Self {
        let s = match v { Value::Seq(s) => s, other => panic!("Ttp15p10p0: expected Seq, got {other:?}") };
        assert_eq!(s.len(), 3, "Ttp15p10p0: component count");
        let _ = s;
        Ttp15p10p0 {
            is: s[0].as_ref().map(FromValue::from_value),
            rt: FromValue::from_value(s[1].as_ref().expect("component rt of Ttp15p10p0 must be present")),
            x: FromValue::from_value(s[2].as_ref().expect("component x of Ttp15p10p0 must be present")),
        }
    }
}
impl ToValue for Ttp15p10p0 {
    fn to_value(&self) -> Value {
        Value::Seq(vec![
            self.is.as_ref().map(|x| x.to_value()),
            Some(self.rt.to_value()),
            Some(self.x.to_value()),
        ])
    }
}
impl FromValue for Ttp15p10p1Is {
    fn from_value(v: &Value) -> Self {
        let s = match v { Value::Seq(s) => s, other => panic!("Ttp15p10p1Is: expected Seq, got {other:?}") };
        assert_eq!(s.len(), 1, "Ttp15p10p1Is: component count");
        let _ = s;
        Ttp15p10p1Is {
            v: FromValue::from_value(s[0].as_ref().expect("component v of Ttp15p10p1Is must be present")),
        }
    }
}
impl ToValue for Ttp15p10p1Is {
    fn to_value(&self) -> Value {
        Value::Seq(vec![
            Some(self.v.to_value()),
        ])
    }
}
impl FromValue for Ttp15p10p1 {
    fn from_value(v: &Value) -> Self {
        let s = match v { Value::Seq(s) => s, other => panic!("Ttp15p10p1: expected Seq, got {other:?}") };
        assert_eq!(s.len(), 3, "Ttp15p10p1: component count");
        let _ = s;
        Ttp15p10p1 {
            is: s[0].as_ref().map(FromValue::from_value),
            rt: FromValue::from_value(s[1].as_ref().expect("component rt of Ttp15p10p1 must be present")),
            a: s[2].as_ref().map(FromValue::from_value),
        }
    }
}
impl ToValue for Ttp15p10p1 {
    fn to_value(&self) -> Value {
        Value::Seq(vec![
            self.is.as_ref().map(|x| x.to_value()),
            Some(self.rt.to_value()),
            self.a.as_ref().map(|x| x.to_value()),
        ])
    }
}
impl FromValue for Ttp15p10p2Is {
    fn from_value(v: &Value) -> Self {
        let s = match v { Value::Seq(s) => s, other => panic!("Ttp15p10p2Is: expected Seq, got {other:?}") };
        assert_eq!(s.len(), 1, "Ttp15p10p2Is: component count");
        let _ = s;
        Ttp15p10p2Is {
            v: FromValue::from_value(s[0].as_ref().expect("component v of Ttp15p10p2Is must be present")),
        }
    }
}
impl ToValue for Ttp15p10p2Is {
    fn to_value(&self) -> Value {
        Value::Seq(vec![
            Some(self.v.to_value()),
        ])
    }
}
impl FromValue for Ttp15p10p2 {
    fn from_value(v: &Value) -> Self {
        let s = match v { Value::Seq(s) => s, other => panic!("Ttp15p10p2: expected Seq, got {other:?}") };
        assert_eq!(s.len(), 3, "Ttp15p10p2: component count");
        let _ = s;
        Ttp15p10p2 {
            is: s[0].as_ref().map(FromValue::from_value),
            rt: FromValue::from_value(s[1].as_ref().expect("component rt of Ttp15p10p2 must be present")),
            c3: FromValue::from_value(s[2].as_ref().expect("component c3 of Ttp15p10p2 must be present")),
        }
    }
}
impl ToValue for Ttp15p10p2 {
    fn to_value(&self) -> Value {
        Value::Seq(vec![
            self.is.as_ref().map(|x| x.to_value()),
            Some(self.rt.to_value()),
            Some(self.c3.to_value()),
        ])
    }
}
impl FromValue for Ttp15p10p3Is {
    fn from_value(v: &Value) -> Self {
        let s = match v { Value::Seq(s) => s, other => panic!("Ttp15p10p3Is: expected Seq, got {other:?}") };
        assert_eq!(s.len(), 1, "Ttp15p10p3Is: component count");
        let _ = s;
        Ttp15p10p3Is {
            v: FromValue::from_value(s[0].as_ref().expect("component v of Ttp15p10p3Is must be present")),
        }
    }
}
impl ToValue for Ttp15p10p3Is {
    fn to_value(&self) -> Value {
        Value::Seq(vec![
            Some(self.v.to_value()),
        ])
    }
}
impl FromValue for Ttp15p10p3 {
    fn from_value(v: &Value) -> Self {
        let s = match v { Value::Seq(s) => s, other => panic!("Ttp15p10p3: expected Seq, got {other:?}") };
        assert_eq!(s.len(), 3, "Ttp15p10p3: component count");
        let _ = s;
        Ttp15p10p3 {
            is: s[0].as_ref().map(FromValue::from_value),
            rt: FromValue::from_value(s[1].as_ref().expect("component rt of Ttp15p10p3 must be present")),
            c0: s[2].as_ref().map(FromValue::from_value),
        }
    }
}
impl ToValue for Ttp15p10p3 {
    fn to_value(&self) -> Value {
        Value::Seq(vec![
            self.is.as_ref().map(|x| x.to_value()),
            Some(self.rt.to_value()),
            self.c0.as_ref().map(|x| x.to_value()),
        ])
    }
}
impl FromValue for Ttp15p10p4Is {
    fn from_value(v: &Value) -> Self {
        let s = match v { Value::Seq(s) => s, other => panic!("Ttp15p10p4Is: expected Seq, got {other:?}") };
        assert_eq!(s.len(), 1, "Ttp15p10p4Is: component count");
        let _ = s;
        Ttp15p10p4Is {
            v: FromValue::from_value(s[0].as_ref().expect("component v of Ttp15p10p4Is must be present")),
        }
    }
}
impl ToValue for Ttp15p10p4Is {
    fn to_value(&self) -> Value {
        Value::Seq(vec![
            Some(self.v.to_value()),
        ])
    }
}
impl FromValue for Ttp15p10p4 {
    fn from_value(v: &Value) -> Self {
        let s = match v { Value::Seq(s) => s, other => panic!("Ttp15p10p4: expected Seq, got {other:?}") };
        assert_eq!(s.len(), 3, "Ttp15p10p4: component count");
        let _ = s;
        Ttp15p10p4 {
            is: s[0].as_ref().map(FromValue::from_value),
            rt: FromValue::from_value(s[1].as_ref().expect("component rt of Ttp15p10p4 must be present")),
            p: FromValue::from_value(s[2].as_ref().expect("component p of Ttp15p10p4 must be present")),
        }
    }
}
impl ToValue for Ttp15p10p4 {
    fn to_value(&self) -> Value {
        Value::Seq(vec![
            self.is.as_ref().map(|x| x.to_value()),
            Some(self.rt.to_value()),
            Some(self.p.to_value()),
        ])
    }
}
impl FromValue for Ttp15p10p5Is {
    fn from_value(v: &Value) -> Self {
        let s = match v { Value::Seq(s) => s, other => panic!("Ttp15p10p5Is: expected Seq, got {other:?}") };
        assert_eq!(s.len(), 1, "Ttp15p10p5Is: component count");
        let _ = s;
        Ttp15p10p5Is {
            v: FromValue::from_value(s[0].as_ref().expect("component v of Ttp15p10p5Is must be present")),
        }
    }
}
impl ToValue for Ttp15p10p5Is {
    fn to_value(&self) -> Value {
        Value::Seq(vec![
            Some(self.v.to_value()),
        ])
    }
}
impl FromValue for Ttp15p10p5 {
    fn from_value(v: &Value) -> Self {
        let s = match v { Value::Seq(s) => s, other => panic!("Ttp15p10p5: expected Seq, got {other:?}") };
        assert_eq!(s.len(), 3, "Ttp15p10p5: component count");
        let _ = s;
        Ttp15p10p5 {
            is: s[0].as_ref().map(FromValue::from_value),
            rt: FromValue::from_value(s[1].as_ref().expect("component rt of Ttp15p10p5 must be present")),
            b: s[2].as_ref().map(FromValue::from_value),
        }
    }
}
impl ToValue for Ttp15p10p5 {
    fn to_value(&self) -> Value {
        Value::Seq(vec![
            self.is.as_ref().map(|x| x.to_value()),
            Some(self.rt.to_value()),
            self.b.as_ref().map(|x| x.to_value()),
        ])
    }
}
impl FromValue for Ttp15p10p6Is {
    fn from_value(v: &Value) -> Self {
        let s = match v { Value::Seq(s) => s, other => panic!("Ttp15p10p6Is: expected Seq, got {other:?}") };
        assert_eq!(s.len(), 1, "Ttp15p10p6Is: component count");
        let _ = s;
        Ttp15p10p6Is {
            v: FromValue::from_value(s[0].as_ref().expect("component v of Ttp15p10p6Is must be present")),
        }
    }
}
impl ToValue for Ttp15p10p6Is {
    fn to_value(&self) -> Value {
        Value::Seq(vec![
            Some(self.v.to_value()),
        ])
    }
}
impl FromValue for Ttp15p10p6 {
    fn from_value(v: &Value) -> Self {
        let s = match v { Value::Seq(s) => s, other => panic!("Ttp15p10p6: expected Seq, got {other:?}") };
        assert_eq!(s.len(), 3, "Ttp15p10p6: component count");
        let _ = s;
        Ttp15p10p6 {
            is: s[0].as_ref().map(FromValue::from_value),
            rt: FromValue::from_value(s[1].as_ref().expect("component rt of Ttp15p10p6 must be present")),
            i: FromValue::from_value(s[2].as_ref().expect("component i of Ttp15p10p6 must be present")),
        }
    }
}
impl ToValue for Ttp15p10p6 {
    fn to_value(&self) -> Value {
        Value::Seq(vec![
            self.is.as_ref().map(|x| x.to_value()),
            Some(self.rt.to_value()),
            Some(self.i.to_value()),
        ])
    }
}
impl FromValue for Ttp15p10p7Is {
    fn from_value(v: &Value) -> Self {
        let s = match v { Value::Seq(s) => s, other => panic!("Ttp15p10p7Is: expected Seq, got {other:?}") };
        assert_eq!(s.len(), 1, "Ttp15p10p7Is: component count");
        let _ = s;
        Ttp15p10p7Is {
            v: FromValue::from_value(s[0].as_ref().expect("component v of Ttp15p10p7Is must be present")),
        }
    }
}
impl ToValue for Ttp15p10p7Is {
    fn to_value(&self) -> Value {
        Value::Seq(vec![
            Some(self.v.to_value()),
        ])
    }
}
impl FromValue for Ttp15p10p7 {
    fn from_value(v: &Value) -> Self {
        let s = match v { Value::Seq(s) => s, other => panic!("Ttp15p10p7: expected Seq, got {other:?}") };
        assert_eq!(s.len(), 3, "Ttp15p10p7: component count");
        let _ = s;
        Ttp15p10p7 {
            is: s[0].as_ref().map(FromValue::from_value),
            rt: FromValue::from_value(s[1].as_ref().expect("component rt of Ttp15p10p7 must be present")),
            ra: s[2].as_ref().map(FromValue::from_value),
        }
    }
}
impl ToValue for Ttp15p10p7 {
    fn to_value(&self) -> Value {
        Value::Seq(vec![
            self.is.as_ref().map(|x| x.to_value()),
            Some(self.rt.to_value()),
            self.ra.as_ref().map(|x| x.to_value()),
        ])
    }
}
impl FromValue for Ttp15p10p8Is {
    fn from_value(v: &Value) -> Self {
        let s = match v { Value::Seq(s) => s, other => panic!("Ttp15p10p8Is: expected Seq, got {other:?}") };
        assert_eq!(s.len(), 1, "Ttp15p10p8Is: component count");
        let _ = s;
        Ttp15p10p8Is {
            v: FromValue::from_value(s[0].as_ref().expect("component v of Ttp15p10p8Is must be present")),
        }
    }
}
impl ToValue for Ttp15p10p8Is {
    fn to_value(&self) -> Value {
        Value::Seq(vec![
            Some(self.v.to_value()),
        ])
    }
}
impl FromValue for Ttp15p10p8 {
    fn from_value(v: &Value) -> Self {
        let s = match v { Value::Seq(s) => s, other => panic!("Ttp15p10p8: expected Seq, got {other:?}") };
        assert_eq!(s.len(), 3, "Ttp15p10p8: component count");
        let _ = s;
        Ttp15p10p8 {
            is: s[0].as_ref().map(FromValue::from_value),
            rt: FromValue::from_value(s[1].as_ref().expect("component rt of Ttp15p10p8 must be present")),
            rs: FromValue::from_value(s[2].as_ref().expect("component rs of Ttp15p10p8 must be present")),
        }
    }
}
impl ToValue for Ttp15p10p8 {
    fn to_value(&self) -> Value {
        Value::Seq(vec![
            self.is.as_ref().map(|x| x.to_value()),
            Some(self.rt.to_value()),
            Some(self.rs.to_value()),
        ])
    }
}
impl FromValue for Ttp15p10p9Is {
    fn from_value(v: &Value) -> Self {
        let s = match v { Value::Seq(s) => s, other => panic!("Ttp15p10p9Is: expected Seq, got {other:?}") };
        assert_eq!(s.len(), 1, "Ttp15p10p9Is: component count");
        let _ = s;
        Ttp15p10p9Is {
            v: FromValue::from_value(s[0].as_ref().expect("component v of Ttp15p10p9Is must be present")),
        }
    }
}
impl ToValue for Ttp15p10p9Is {
    fn to_value(&self) -> Value {
        Value::Seq(vec![
            Some(self.v.to_value()),
        ])
    }
}
impl FromValue for Ttp15p10p9 {
    fn from_value(v: &Value) -> Self {
        let s = match v { Value::Seq(s) => s, other => panic!("Ttp15p10p9: expected Seq, got {other:?}") };
        assert_eq!(s.len(), 3, "Ttp15p10p9: component count");
        let _ = s;
        Ttp15p10p9 {
            is: s[0].as_ref().map(FromValue::from_value),
            rt: FromValue::from_value(s[1].as_ref().expect("component rt of Ttp15p10p9 must be present")),
            rc: s[2].as_ref().map(FromValue::from_value),
        }
    }
}
impl ToValue for Ttp15p10p9 {
    fn to_value(&self) -> Value {
        Value::Seq(vec![
            self.is.as_ref().map(|x| x.to_value()),
            Some(self.rt.to_value()),
            self.rc.as_ref().map(|x| x.to_value()),
        ])
    }
}
impl FromValue for Ttp15p10p11Is {
    fn from_value(v: &Value) -> Self {
        let s = match v { Value::Seq(s) => s, other => panic!("Ttp15p10p11Is: expected Seq, got {other:?}") };
        assert_eq!(s.len(), 1, "Ttp15p10p11Is: component count");
        let _ = s;
        Ttp15p10p11Is {
            v: FromValue::from_value(s[0].as_ref().expect("component v of Ttp15p10p11Is must be present")),
        }
    }
}
impl ToValue for Ttp15p10p11Is {
    fn to_value(&self) -> Value {
        Value::Seq(vec![
            Some(self.v.to_value()),
        ])
    }
}
impl FromValue for Ttp15p10p11 {
    fn from_value(v: &Value) -> Self {
        let s = match v { Value::Seq(s) => s, other => panic!("Ttp15p10p11: expected Seq, got {other:?}") };
        assert_eq!(s.len(), 3, "Ttp15p10p11: component count");
        let _ = s;
        Ttp15p10p11 {
            is: s[0].as_ref().map(FromValue::from_value),
            rt: FromValue::from_value(s[1].as_ref().expect("component rt of Ttp15p10p11 must be present")),
            so: s[2].as_ref().map(FromValue::from_value),
        }
    }
}
impl ToValue for Ttp15p10p11 {
    fn to_value(&self) -> Value {
        Value::Seq(vec![
            self.is.as_ref().map(|x| x.to_value()),
            Some(self.rt.to_value()),
            self.so.as_ref().map(|x| x.to_value()),
        ])
    }
}
impl FromValue for Ttp15p10p12Is {
    fn from_value(v: &Value) -> Self {
        let s = match v { Value::Seq(s) => s, other => panic!("Ttp15p10p12Is: expected Seq, got {other:?}") };
        assert_eq!(s.len(), 1, "Ttp15p10p12Is: component count");
        let _ = s;
        Ttp15p10p12Is {
            v: FromValue::from_value(s[0].as_ref().expect("component v of Ttp15p10p12Is must be present")),
        }
    }
}
impl ToValue for Ttp15p10p12Is {
    fn to_value(&self) -> Value {
        Value::Seq(vec![
            Some(self.v.to_value()),
        ])
    }
}
impl FromValue for Ttp15p10p12 {
    fn from_value(v: &Value) -> Self {
        let s = match v { Value::Seq(s) => s, other => panic!("Ttp15p10p12: expected Seq, got {other:?}") };
        assert_eq!(s.len(), 3, "Ttp15p10p12: component count");
        let _ = s;
        Ttp15p10p12 {
            is: s[0].as_ref().map(FromValue::from_value),
            rt: FromValue::from_value(s[1].as_ref().expect("component rt of Ttp15p10p12 must be present")),
            st: FromValue::from_value(s[2].as_ref().expect("component st of Ttp15p10p12 must be present")),
        }
    }
}
impl ToValue for Ttp15p10p12 {
    fn to_value(&self) -> Value {
        Value::Seq(vec![
            self.is.as_ref().map(|x| x.to_value()),
            Some(self.rt.to_value()),
            Some(self.st.to_value()),
        ])
    }
}
impl FromValue for Ttp15p10p13Is {
    fn from_value(v: &Value) -> Self {
        let s = match v { Value::Seq(s) => s, other => panic!("Ttp15p10p13Is: expected Seq, got {other:?}") };
        assert_eq!(s.len(), 1, "Ttp15p10p13Is: component count");
        let _ = s;
        Ttp15p10p13Is {
            v: FromValue::from_value(s[0].as_ref().expect("component v of Ttp15p10p13Is must be present")),
        }
    }
}
impl ToValue for Ttp15p10p13Is {
    fn to_value(&self) -> Value {
        Value::Seq(vec![
            Some(self.v.to_value()),
        ])
    }
}
impl FromValue for Ttp15p10p13 {
    fn from_value(v: &Value) -> Self {
        let s = match v { Value::Seq(s) => s, other => panic!("Ttp15p10p13: expected Seq, got {other:?}") };
        assert_eq!(s.len(), 3, "Ttp15p10p13: component count");
        let _ = s;
        Ttp15p10p13 {
            is: s[0].as_ref().map(FromValue::from_value),
            rt: FromValue::from_value(s[1].as_ref().expect("component rt of Ttp15p10p13 must be present")),
            rx: s[2].as_ref().map(FromValue::from_value),
        }
    }
}
impl ToValue for Ttp15p10p13 {
    fn to_value(&self) -> Value {
        Value::Seq(vec![
            self.is.as_ref().map(|x| x.to_value()),
            Some(self.rt.to_value()),
            self.rx.as_ref().map(|x| x.to_value()),
        ])
    }
}
impl FromValue for Ttp15p10p14Is {
    fn from_value(v: &Value) -> Self {
        let s = match v { Value::Seq(s) => s, other => panic!("Ttp15p10p14Is: expected Seq, got {other:?}") };
        assert_eq!(s.len(), 1, "Ttp15p10p14Is: component count");
        let _ = s;
        Ttp15p10p14Is {
            v: FromValue::from_value(s[0].as_ref().expect("component v of Ttp15p10p14Is must be present")),
        }
    }
}
impl ToValue for Ttp15p10p14Is {
    fn to_value(&self) -> Value {
        Value::Seq(vec![
            Some(self.v.to_value()),
        ])
    }
}
impl FromValue for Ttp15p10p14 {
    fn from_value(v: &Value) -> Self {
        let s = match v { Value::Seq(s) => s, other => panic!("Ttp15p10p14: expected Seq, got {other:?}") };
        assert_eq!(s.len(), 3, "Ttp15p10p14: component count");
        let _ = s;
        Ttp15p10p14 {
            is: s[0].as_ref().map(FromValue::from_value),
            rt: FromValue::from_value(s[1].as_ref().expect("component rt of Ttp15p10p14 must be present")),
            u2: FromValue::from_value(s[2].as_ref().expect("component u2 of Ttp15p10p14 must be present")),
        }
    }
}
impl ToValue for Ttp15p10p14 {
    fn to_value(&self) -> Value {
        Value::Seq(vec![
            self.is.as_ref().map(|x| x.to_value()),
            Some(self.rt.to_value()),
            Some(self.u2.to_value()),
        ])
    }
}
impl FromValue for Ttp15p11p0Is {
    fn from_value(v: &Value) -> Self {
        let s = match v { Value::Seq(s) => s, other => panic!("Ttp15p11p0Is: expected Seq, got {other:?}") };
        assert_eq!(s.len(), 1, "Ttp15p11p0Is: component count");
        let _ = s;
        Ttp15p11p0Is {
            v: FromValue::from_value(s[0].as_ref().expect("component v of Ttp15p11p0Is must be present")),
        }
    }
}
impl ToValue for Ttp15p11p0Is {
    fn to_value(&self) -> Value {
        Value::Seq(vec![
            Some(self.v.to_value()),
        ])
    }
}
impl FromValue for Ttp15p11p0 {
    fn from_value(v: &Value) -> Self {
        let s = match v { Value::Seq(s) => s, other => panic!("Ttp15p11p0: expected Seq, got {other:?}") };
        assert_eq!(s.len(), 3, "Ttp15p11p0: component count");
        let _ = s;
        Ttp15p11p0 {
            is: s[0].as_ref().map(FromValue::from_value),
            so: s[1].as_ref().map(FromValue::from_value),
            x: FromValue::from_value(s[2].as_ref().expect("component x of Ttp15p11p0 must be present")),
        }
    }
}
impl ToValue for Ttp15p11p0 {
    fn to_value(&self) -> Value {
        Value::Seq(vec![
            self.is.as_ref().map(|x| x.to_value()),
            self.so.as_ref().map(|x| x.to_value()),
            Some(self.x.to_value()),
        ])
    }
}
impl FromValue for Ttp15p11p1Is {
    fn from_value(v: &Value) -> Self {
        let s = match v { Value::Seq(s) => s, other => panic!("Ttp15p11p1Is: expected Seq, got {other:?}") };
        assert_eq!(s.len(), 1, "Ttp15p11p1Is: component count");
        let _ = s;
        Ttp15p11p1Is {
            v: FromValue::from_value(s[0].as_ref().expect("component v of Ttp15p11p1Is must be present")),
        }
    }
}
impl ToValue for Ttp15p11p1Is {
    fn to_value(&self) -> Value {
        Value::Seq(vec![
            Some(self.v.to_value()),
        ])
    }
}
impl FromValue for Ttp15p11p1 {
    fn from_value(v: &Value) -> Self {
        let s = match v { Value::Seq(s) => s, other => panic!("Ttp15p11p1: expected Seq, got {other:?}") };
        assert_eq!(s.len(), 3, "Ttp15p11p1: component count");
        let _ = s;
        Ttp15p11p1 {
            is: s[0].as_ref().map(FromValue::from_value),
            so: s[1].as_ref().map(FromValue::from_value),
            a: s[2].as_ref().map(FromValue::from_value),
        }
    }
}
impl ToValue for Ttp15p11p1 {
    fn to_value(&self) -> Value {
        Value::Seq(vec![
            self.is.as_ref().map(|x| x.to_value()),
            self.so.as_ref().map(|x| x.to_value()),
            self.a.as_ref().map(|x| x.to_value()),
        ])
    }
}
impl FromValue for Ttp15p11p2Is {
    fn from_value(v: &Value) -> Self {
        let s = match v { Value::Seq(s) => s, other => panic!("Ttp15p11p2Is: expected Seq, got {other:?}") };
        assert_eq!(s.len(), 1, "Ttp15p11p2Is: component count");
        let _ = s;
        Ttp15p11p2Is {
            v: FromValue::from_value(s[0].as_ref().expect("component v of Ttp15p11p2Is must be present")),
        }
    }
}
impl ToValue for Ttp15p11p2Is {
    fn to_value(&self) -> Value {
        Value::Seq(vec![
            Some(self.v.to_value()),
        ])
    }
}
impl FromValue for Ttp15p11p2 {
    fn from_value(v: &Value) -> Self {
        let s = match v { Value::Seq(s) => s, other => panic!("Ttp15p11p2: expected Seq, got {other:?}") };
        assert_eq!(s.len(), 3, "Ttp15p11p2: component count");
        let _ = s;
        Ttp15p11p2 {
            is: s[0].as_ref().map(FromValue::from_value),
            so: s[1].as_ref().map(FromValue::from_value),
            c3: FromValue::from_value(s[2].as_ref().expect("component c3 of Ttp15p11p2 must be present")),
        }
    }
}
impl ToValue for Ttp15p11p2 {
    fn to_value(&self) -> Value {
        Value::Seq(vec![
            self.is.as_ref().map(|x| x.to_value()),
            self.so.as_ref().map(|x| x.to_value()),
            Some(self.c3.to_value()),
        ])
    }
}
impl FromValue for Ttp15p11p3Is {
    fn from_value(v: &Value) -> Self {
        let s = match v { Value::Seq(s) => s, other => panic!("Ttp15p11p3Is: expected Seq, got {other:?}") };
        assert_eq!(s.len(), 1, "Ttp15p11p3Is: component count");
        let _ = s;
        Ttp15p11p3Is {
            v: FromValue::from_value(s[0].as_ref().expect("component v of Ttp15p11p3Is must be present")),
        }
    }
}
impl ToValue for Ttp15p11p3Is {
    fn to_value(&self) -> Value {
        Value::Seq(vec![
            Some(self.v.to_value()),
        ])
    }
}
impl FromValue for Ttp15p11p3 {
    fn from_value(v: &Value) -> Self {
        let s = match v { Value::Seq(s) => s, other => panic!("Ttp15p11p3: expected Seq, got {other:?}") };
        assert_eq!(s.len(), 3, "Ttp15p11p3: component count");
        let _ = s;
        Ttp15p11p3 {
            is: s[0].as_ref().map(FromValue::from_value),
            so: s[1].as_ref().map(FromValue::from_value),
            c0: s[2].as_ref().map(FromValue::from_value),
        }
    }
}
impl ToValue for Ttp15p11p3 {
    fn to_value(&self) -> Value {
        Value::Seq(vec![
            self.is.as_ref().map(|x| x.to_value()),
            self.so.as_ref().map(|x| x.to_value()),
            self.c0.as_ref().map(|x| x.to_value()),
        ])
    }
}
impl FromValue for Ttp15p11p4Is {
    fn from_value(v: &Value) -> Self {
        let s = match v { Value::Seq(s) => s, other => panic!("Ttp15p11p4Is: expected Seq, got {other:?}") };
        assert_eq!(s.len(), 1, "Ttp15p11p4Is: component count");
        let _ = s;
        Ttp15p11p4Is {
            v: FromValue::from_value(s[0].as_ref().expect("component v of Ttp15p11p4Is must be present")),
        }
    }
}
impl ToValue for Ttp15p11p4Is {
    fn to_value(&self) -> Value {
        Value::Seq(vec![
            Some(self.v.to_value()),
        ])
    }
}
impl FromValue for Ttp15p11p4 {
    fn from_value(v: &Value) -> Self {
        let s = match v { Value::Seq(s) => s, other => panic!("Ttp15p11p4: expected Seq, got {other:?}") };
        assert_eq!(s.len(), 3, "Ttp15p11p4: component count");
        let _ = s;
        Ttp15p11p4 {
            is: s[0].as_ref().map(FromValue::from_value),
            so: s[1].as_ref().map(FromValue::from_value),
            p: FromValue::from_value(s[2].as_ref().expect("component p of Ttp15p11p4 must be present")),
        }
    }
}
impl ToValue for Ttp15p11p4 {
    fn to_value(&self) -> Value {
        Value::Seq(vec![
            self.is.as_ref().map(|x| x.to_value()),
            self.so.as_ref().map(|x| x.to_value()),
            Some(self.p.to_value()),
        ])
    }
}
impl FromValue for Ttp15p11p5Is {
    fn from_value(v: &Value) -> Self {
        let s = match v { Value::Seq(s) => s, other => panic!("Ttp15p11p5Is: expected Seq, got {other:?}") };
        assert_eq!(s.len(), 1, "Ttp15p11p5Is: component count");
        let _ = s;
        Ttp15p11p5Is {
            v: FromValue::from_value(s[0].as_ref().expect("component v of Ttp15p11p5Is must be present")),
        }
    }
}
impl ToValue for Ttp15p11p5Is {
    fn to_value(&self) -> Value {
        Value::Seq(vec![
            Some(self.v.to_value()),
        ])
    }
}
impl FromValue for Ttp15p11p5 {
    fn from_value(v: &Value) -> Self {
        let s = match v { Value::Seq(s) => s, other => panic!("Ttp15p11p5: expected Seq, got {other:?}") };
        assert_eq!(s.len(), 3, "Ttp15p11p5: component count");
        let _ = s;
        Ttp15p11p5 {
            is: s[0].as_ref().map(FromValue::from_value),
            so: s[1].as_ref().map(FromValue::from_value),
            b: s[2].as_ref().map(FromValue::from_value),
        }
    }
}
impl ToValue for Ttp15p11p5 {
    fn to_value(&self) -> Value {
        Value::Seq(vec![
            self.is.as_ref().map(|x| x.to_value()),
            self.so.as_ref().map(|x| x.to_value()),
            self.b.as_ref().map(|x| x.to_value()),
        ])
    }
}
impl FromValue for Ttp15p11p6Is {
    fn from_value(v: &Value) -> Self {
        let s = match v { Value::Seq(s) => s, other => panic!("Ttp15p11p6Is: expected Seq, got {other:?}") };
        assert_eq!(s.len(), 1, "Ttp15p11p6Is: component count");
        let _ = s;
        Ttp15p11p6Is {
            v: FromValue::from_value(s[0].as_ref().expect("component v of Ttp15p11p6Is must be present")),
        }
    }
}
impl ToValue for Ttp15p11p6Is {
    fn to_value(&self) -> Value {
        Value::Seq(vec![
            Some(self.v.to_value()),
        ])
    }
}
impl FromValue for Ttp15p11p6 {
    fn from_value(v: &Value) -> Self {
        let s = match v { Value::Seq(s) => s, other => panic!("Ttp15p11p6: expected Seq, got {other:?}") };
        assert_eq!(s.len(), 3, "Ttp15p11p6: component count");
        let _ = s;
        Ttp15p11p6 {
            is: s[0].as_ref().map(FromValue::from_value),
            so: s[1].as_ref().map(FromValue::from_value),
            i: FromValue::from_value(s[2].as_ref().expect("component i of Ttp15p11p6 must be present")),
        }
    }
}
impl ToValue for Ttp15p11p6 {
    fn to_value(&self) -> Value {
        Value::Seq(vec![
            self.is.as_ref().map(|x| x.to_value()),
            self.so.as_ref().map(|x| x.to_value()),
            Some(self.i.to_value()),
        ])
    }
}
impl FromValue for Ttp15p11p7Is {
    fn from_value(v: &Value) -> Self {
        let s = match v { Value::Seq(s) => s, other => panic!("Ttp15p11p7Is: expected Seq, got {other:?}") };
        assert_eq!(s.len(), 1, "Ttp15p11p7Is: component count");
        let _ = s;
        Ttp15p11p7Is {
            v: FromValue::from_value(s[0].as_ref().expect("component v of Ttp15p11p7Is must be present")),
        }
    }
}
impl ToValue for Ttp15p11p7Is {
    fn to_value(&self) -> Value {
        Value::Seq(vec![
            Some(self.v.to_value()),
        ])
    }
}
impl FromValue for Ttp15p11p7 {
    fn from_value(v: &Value) -> Self {
        let s = match v { Value::Seq(s) => s, other => panic!("Ttp15p11p7: expected Seq, got {other:?}") };
        assert_eq!(s.len(), 3, "Ttp15p11p7: component count");
        let _ = s;
        Ttp15p11p7 {
            is: s[0].as_ref().map(FromValue::from_value),
            so: s[1].as_ref().map(FromValue::from_value),
            ra: s[2].as_ref().map(FromValue::from_value),
        }
    }
}
impl ToValue for Ttp15p11p7 {
    fn to_value(&self) -> Value {
        Value::Seq(vec![
            self.is.as_ref().map(|x| x.to_value()),
            self.so.as_ref().map(|x| x.to_value()),
            self.ra.as_ref().map(|x| x.to_value()),
        ])
    }
}
impl FromValue for Ttp15p11p8Is {
    fn from_value(v: &Value) -> Self {
        let s = match v { Value::Seq(s) => s, other => panic!("Ttp15p11p8Is: expected Seq, got {other:?}") };
        assert_eq!(s.len(), 1, "Ttp15p11p8Is: component count");
        let _ = s;
        Ttp15p11p8Is {
            v: FromValue::from_value(s[0].as_ref().expect("component v of Ttp15p11p8Is must be present")),
        }
    }
}
impl ToValue for Ttp15p11p8Is {
    fn to_value(&self) -> Value {
        Value::Seq(vec![
            Some(self.v.to_value()),
        ])
    }
}
impl FromValue for Ttp15p11p8 {
    fn from_value(v: &Value) -> Self {
        let s = match v { Value::Seq(s) => s, other => panic!("Ttp15p11p8: expected Seq, got {other:?}") };
        assert_eq!(s.len(), 3, "Ttp15p11p8: component count");
        let _ = s;
        Ttp15p11p8 {
            is: s[0].as_ref().map(FromValue::from_value),
            so: s[1].as_ref().map(FromValue::from_value),
            rs: FromValue::from_value(s[2].as_ref().expect("component rs of Ttp15p11p8 must be present")),
        }
    }
}
impl ToValue for Ttp15p11p8 {
    fn to_value(&self) -> Value {
        Value::Seq(vec![
            self.is.as_ref().map(|x| x.to_value()),
            self.so.as_ref().map(|x| x.to_value()),
            Some(self.rs.to_value()),
        ])
    }
}
impl FromValue for Ttp15p11p9Is {
    fn from_value(v: &Value) -> Self {
        let s = match v { Value::Seq(s) => s, other => panic!("Ttp15p11p9Is: expected Seq, got {other:?}") };
        assert_eq!(s.len(), 1, "Ttp15p11p9Is: component count");
        let _ = s;
        Ttp15p11p9Is {
            v: FromValue::from_value(s[0].as_ref().expect("component v of Ttp15p11p9Is must be present")),
        }
    }
}
impl ToValue for Ttp15p11p9Is {
    fn to_value(&self) -> Value {
        Value::Seq(vec![
            Some(self.v.to_value()),
        ])
    }
}
impl FromValue for Ttp15p11p9 {
    fn from_value(v: &Value) -> Self {
        let s = match v { Value::Seq(s) => s, other => panic!("Ttp15p11p9: expected Seq, got {other:?}") };
        assert_eq!(s.len(), 3, "Ttp15p11p9: component count");
        let _ = s;
        Ttp15p11p9 {
            is: s[0].as_ref().map(FromValue::from_value),
            so: s[1].as_ref().map(FromValue::from_value),
            rc: s[2].as_ref().map(FromValue::from_value),
        }
    }
}
impl ToValue for Ttp15p11p9 {
    fn to_value(&self) -> Value {
        Value::Seq(vec![
            self.is.as_ref().map(|x| x.to_value()),
            self.so.as_ref().map(|x| x.to_value()),
            self.rc.as_ref().map(|x| x.to_value()),
        ])
    }
}
impl FromValue for Ttp15p11p10Is {
    fn from_value(v: &Value) -> Self {
        let s = match v { Value::Seq(s) => s, other => panic!("Ttp15p11p10Is: expected Seq, got {other:?}") };
        assert_eq!(s.len(), 1, "Ttp15p11p10Is: component count");
        let _ = s;
        Ttp15p11p10Is {
            v: FromValue::from_value(s[0].as_ref().expect("component v of Ttp15p11p10Is must be present")),
        }
    }
}
impl ToValue for Ttp15p11p10Is {
    fn to_value(&self) -> Value {
        Value::Seq(vec![
            Some(self.v.to_value()),
        ])
    }
}
impl FromValue for Ttp15p11p10 {
    fn from_value(v: &Value) -> Self {
        let s = match v { Value::Seq(s) => s, other => panic!("Ttp15p11p10: expected Seq, got {other:?}") };
        assert_eq!(s.len(), 3, "Ttp15p11p10: component count");
        let _ = s;
        Ttp15p11p10 {
            is: s[0].as_ref().map(FromValue::from_value),
            so: s[1].as_ref().map(FromValue::from_value),
            rt: FromValue::from_value(s[2].as_ref().expect("component rt of Ttp15p11p10 must be present")),
        }
    }
}
impl ToValue for Ttp15p11p10 {
    fn to_value(&self) -> Value {
        Value::Seq(vec![
            self.is.as_ref().map(|x| x.to_value()),
            self.so.as_ref().map(|x| x.to_value()),
            Some(self.rt.to_value()),
        ])
    }
}
impl FromValue for Ttp15p11p12Is {
    fn from_value(v: &Value) -> Self {
        let s = match v { Value::Seq(s) => s, other => panic!("Ttp15p11p12Is: expected Seq, got {other:?}") };
        assert_eq!(s.len(), 1, "Ttp15p11p12Is: component count");
        let _ = s;
        Ttp15p11p12Is {
            v: FromValue::from_value(s[0].as_ref().expect("component v of Ttp15p11p12Is must be present")),
        }
    }
}
impl ToValue for Ttp15p11p12Is {
    fn to_value(&self) -> Value {
        Value::Seq(vec![
            Some(self.v.to_value()),
        ])
    }
}
impl FromValue for Ttp15p11p12 {
    fn from_value(v: &Value) -> Self {
        let s = match v { Value::Seq(s) => s, other => panic!("Ttp15p11p12: expected Seq, got {other:?}") };
        assert_eq!(s.len(), 3, "Ttp15p11p12: component count");
        let _ = s;
        Ttp15p11p12 {
            is: s[0].as_ref().map(FromValue::from_value),
            so: s[1].as_ref().map(FromValue::from_value),
            st: FromValue::from_value(s[2].as_ref().expect("component st of Ttp15p11p12 must be present")),
        }
    }
}
impl ToValue for Ttp15p11p12 {
    fn to_value(&self) -> Value {
        Value::Seq(vec![
            self.is.as_ref().map(|x| x.to_value()),
            self.so.as_ref().map(|x| x.to_value()),
            Some(self.st.to_value()),
        ])
    }
}
impl FromValue for Ttp15p11p13Is {
    fn from_value(v: &Value) -> Self {
        let s = match v { Value::Seq(s) => s, other => panic!("Ttp15p11p13Is: expected Seq, got {other:?}") };
        assert_eq!(s.len(), 1, "Ttp15p11p13Is: component count");
        let _ = s;
        Ttp15p11p13Is {
            v: FromValue::from_value(s[0].as_ref().expect("component v of Ttp15p11p13Is must be present")),
        }
    }
}
impl ToValue for Ttp15p11p13Is {
    fn to_value(&self) -> Value {
        Value::Seq(vec![
            Some(self.v.to_value()),
        ])
    }
}
impl FromValue for Ttp15p11p13 {
    fn from_value(v: &Value) -> Self {
        let s = match v { Value::Seq(s) => s, other => panic!("Ttp15p11p13: expected Seq, got {other:?}") };
        assert_eq!(s.len(), 3, "Ttp15p11p13: component count");
        let _ = s;
        Ttp15p11p13 {
            is: s[0].as_ref().map(FromValue::from_value),
            so: s[1].as_ref().map(FromValue::from_value),
            rx: s[2].as_ref().map(FromValue::from_value),
        }
    }
}
impl ToValue for Ttp15p11p13 {
    fn to_value(&self) -> Value {
        Value::Seq(vec![
            self.is.as_ref().map(|x| x.to_value()),
            self.so.as_ref().map(|x| x.to_value()),
            self.rx.as_ref().map(|x| x.to_value()),
        ])
    }
}
impl FromValue for Ttp15p11p14Is {
    fn from_value(v: &Value) -> Self {
        let s = match v { Value::Seq(s) => s, other => panic!("Ttp15p11p14Is: expected Seq, got {other:?}") };
        assert_eq!(s.len(), 1, "Ttp15p11p14Is: component count");
        let _ = s;
        Ttp15p11p14Is {
            v: FromValue::from_value(s[0].as_ref().expect("component v of Ttp15p11p14Is must be present")),
        }
    }
}
impl ToValue for Ttp15p11p14Is {
    fn to_value(&self) -> Value {
        Value::Seq(vec![
            Some(self.v.to_value()),
        ])
    }
}
impl FromValue for Ttp15p11p14 {
    fn from_value(v: &Value) -> Self {
        let s = match v { Value::Seq(s) => s, other => panic!("Ttp15p11p14: expected Seq, got {other:?}") };
        assert_eq!(s.len(), 3, "Ttp15p11p14: component count");
        let _ = s;
        Ttp15p11p14 {
            is: s[0].as_ref().map(FromValue::from_value),
            so: s[1].as_ref().map(FromValue::from_value),
            u2: FromValue::from_value(s[2].as_ref().expect("component u2 of Ttp15p11p14 must be present")),
        }
    }
}
impl ToValue for Ttp15p11p14 {
    fn to_value(&self) -> Value {
        Value::Seq(vec![
            self.is.as_ref().map(|x| x.to_value()),
            self.so.as_ref().map(|x| x.to_value()),
            Some(self.u2.to_value()),
        ])
    }
}
impl FromValue for Ttp15p12p0Is {
    fn from_value(v: &Value) -> Self {
        let s = match v { Value::Seq(s) => s, other => panic!("Ttp15p12p0Is: expected Seq, got {other:?}") };
        assert_eq!(s.len(), 1, "Ttp15p12p0Is: component count");
        let _ = s;
        Ttp15p12p0Is {
            v: FromValue::from_value(s[0].as_ref().expect("component v of Ttp15p12p0Is must be present")),
        }
    }
}
impl ToValue for Ttp15p12p0Is {
    fn to_value(&self) -> Value {
        Value::Seq(vec![
            Some(self.v.to_value()),
        ])
    }
}
impl FromValue for Ttp15p12p0 {
    fn from_value(v: &Value) -> Self {
        let s = match v { Value::Seq(s) => s, other => panic!("Ttp15p12p0: expected Seq, got {other:?}") };
        assert_eq!(s.len(), 3, "Ttp15p12p0: component count");
        let _ = s;
        Ttp15p12p0 {
            is: s[0].as_ref().map(FromValue::from_value),
            st: FromValue::from_value(s[1].as_ref().expect("component st of Ttp15p12p0 must be present")),
            x: FromValue::from_value(s[2].as_ref().expect("component x of Ttp15p12p0 must be present")),
        }
    }
}
impl ToValue for Ttp15p12p0 {
    fn to_value(&self) -> Value {
        Value::Seq(vec![
            self.is.as_ref().map(|x| x.to_value()),
            Some(self.st.to_value()),
            Some(self.x.to_value()),
        ])
    }
}
impl FromValue for Ttp15p12p1Is {
    fn from_value(v: &Value) -> Self {
        let s = match v { Value::Seq(s) => s, other => panic!("Ttp15p12p1Is: expected Seq, got {other:?}") };
        assert_eq!(s.len(), 1, "Ttp15p12p1Is: component count");
        let _ = s;
        Ttp15p12p1Is {
            v: FromValue::from_value(s[0].as_ref().expect("component v of Ttp15p12p1Is must be present")),
        }
    }
}
impl ToValue for Ttp15p12p1Is {
    fn to_value(&self) -> Value {
        Value::Seq(vec![
            Some(self.v.to_value()),
        ])
    }
}
impl FromValue for Ttp15p12p1 {
    fn from_value(v: &Value) -> Self {
        let s = match v { Value::Seq(s) => s, other => panic!("Ttp15p12p1: expected Seq, got {other:?}") };
        assert_eq!(s.len(), 3, "Ttp15p12p1: component count");
        let _ = s;
        Ttp15p12p1 {
            is: s[0].as_ref().map(FromValue::from_value),
            st: FromValue::from_value(s[1].as_ref().expect("component st of Ttp15p12p1 must be present")),
            a: s[2].as_ref().map(FromValue::from_value),
        }
    }
}
impl ToValue for Ttp15p12p1 {
    fn to_value(&self) -> Value {
        Value::Seq(vec![
            self.is.as_ref().map(|x| x.to_value()),
            Some(self.st.to_value()),
            self.a.as_ref().map(|x| x.to_value()),
        ])
    }
}
impl FromValue for Ttp15p12p2Is {
    fn from_value(v: &Value) -> Self {
        let s = match v { Value::Seq(s) => s, other => panic!("Ttp15p12p2Is: expected Seq, got {other:?}") };
        assert_eq!(s.len(), 1, "Ttp15p12p2Is: component count");
        let _ = s;
        Ttp15p12p2Is {
            v: FromValue::from_value(s[0].as_ref().expect("component v of Ttp15p12p2Is must be present")),
        }
    }
}
impl ToValue for Ttp15p12p2Is {
    fn to_value(&self) -> Value {
        Value::Seq(vec![
            Some(self.v.to_value()),
        ])
    }
}
impl FromValue for Ttp15p12p2 {
    fn from_value(v: &Value) -> Self {
        let s = match v { Value::Seq(s) => s, other => panic!("Ttp15p12p2: expected Seq, got {other:?}") };
        assert_eq!(s.len(), 3, "Ttp15p12p2: component count");
        let _ = s;
        Ttp15p12p2 {
            is: s[0].as_ref().map(FromValue::from_value),
            st: FromValue::from_value(s[1].as_ref().expect("component st of Ttp15p12p2 must be present")),
            c3: FromValue::from_value(s[2].as_ref().expect("component c3 of Ttp15p12p2 must be present")),
        }
    }
}
impl ToValue for Ttp15p12p2 {
    fn to_value(&self) -> Value {
        Value::Seq(vec![
            self.is.as_ref().map(|x| x.to_value()),
            Some(self.st.to_value()),
            Some(self.c3.to_value()),
        ])
    }
}
impl FromValue for Ttp15p12p3Is {
    fn from_value(v: &Value) -> Self {
        let s = match v { Value::Seq(s) => s, other => panic!("Ttp15p12p3Is: expected Seq, got {other:?}") };
        assert_eq!(s.len(), 1, "Ttp15p12p3Is: component count");
        let _ = s;
        Ttp15p12p3Is {
            v: FromValue::from_value(s[0].as_ref().expect("component v of Ttp15p12p3Is must be present")),
        }
    }
}
impl ToValue for Ttp15p12p3Is {
    fn to_value(&self) -> Value {
        Value::Seq(vec![
            Some(self.v.to_value()),
        ])
    }
}
impl FromValue for Ttp15p12p3 {
    fn from_value(v: &Value) -> Self {
        let s = match v { Value::Seq(s) => s, other => panic!("Ttp15p12p3: expected Seq, got {other:?}") };
        assert_eq!(s.len(), 3, "Ttp15p12p3: component count");
        let _ = s;
        Ttp15p12p3 {
            is: s[0].as_ref().map(FromValue::from_value),
            st: FromValue::from_value(s[1].as_ref().expect("component st of Ttp15p12p3 must be present")),
            c0: s[2].as_ref().map(FromValue::from_value),
        }
    }
}
impl ToValue for Ttp15p12p3 {
    fn to_value(&self) -> Value {
        Value::Seq(vec![
            self.is.as_ref().map(|x| x.to_value()),
            Some(self.st.to_value()),
            self.c0.as_ref().map(|x| x.to_value()),
        ])
    }
}
impl FromValue for Ttp15p12p4Is {
    fn from_value(v: &Value) -> Self {
        let s = match v { Value::Seq(s) => s, other => panic!("Ttp15p12p4Is: expected Seq, got {other:?}") };
        assert_eq!(s.len(), 1, "Ttp15p12p4Is: component count");
        let _ = s;
        Ttp15p12p4Is {
            v: FromValue::from_value(s[0].as_ref().expect("component v of Ttp15p12p4Is must be present")),
        }
    }
}
impl ToValue for Ttp15p12p4Is {
    fn to_value(&self) -> Value {
        Value::Seq(vec![
            Some(self.v.to_value()),
        ])
    }
}
impl FromValue for Ttp15p12p4 {
    fn from_value(v: &Value) -> Self {
        let s = match v { Value::Seq(s) => s, other => panic!("Ttp15p12p4: expected Seq, got {other:?}") };
        assert_eq!(s.len(), 3, "Ttp15p12p4: component count");
        let _ = s;
        Ttp15p12p4 {
            is: s[0].as_ref().map(FromValue::from_value),
            st: FromValue::from_value(s[1].as_ref().expect("component st of Ttp15p12p4 must be present")),
            p: FromValue::from_value(s[2].as_ref().expect("component p of Ttp15p12p4 must be present")),
        }
    }
}
impl ToValue for Ttp15p12p4 {
    fn to_value(&self) -> Value {
        Value::Seq(vec![
            self.is.as_ref().map(|x| x.to_value()),
            Some(self.st.to_value()),
            Some(self.p.to_value()),
        ])
    }
}
impl FromValue for Ttp15p12p5Is {
    fn from_value(v: &Value) -> Self {
        let s = match v { Value::Seq(s) => s, other => panic!("Ttp15p12p5Is: expected Seq, got {other:?}") };
        assert_eq!(s.len(), 1, "Ttp15p12p5Is: component count");
        let _ = s;
        Ttp15p12p5Is {
            v: FromValue::from_value(s[0].as_ref().expect("component v of Ttp15p12p5Is must be present")),
        }
    }
}
impl ToValue for Ttp15p12p5Is {
    fn to_value(&self) -> Value {
        Value::Seq(vec![
            Some(self.v.to_value()),
        ])
    }
}
impl FromValue for Ttp15p12p5 {
    fn from_value(v: &Value) -> Self {
        let s = match v { Value::Seq(s) => s, other => panic!("Ttp15p12p5: expected Seq, got {other:?}") };
        assert_eq!(s.len(), 3, "Ttp15p12p5: component count");
        let _ = s;
        Ttp15p12p5 {
            is: s[0].as_ref().map(FromValue::from_value),
            st: FromValue::from_value(s[1].as_ref().expect("component st of Ttp15p12p5 must be present")),
            b: s[2].as_ref().map(FromValue::from_value),
        }
    }
}
impl ToValue for Ttp15p12p5 {
    fn to_value(&self) -> Value {
        Value::Seq(vec![
            self.is.as_ref().map(|x| x.to_value()),
            Some(self.st.to_value()),
            self.b.as_ref().map(|x| x.to_value()),
        ])
    }
}
impl FromValue for Ttp15p12p6Is {
    fn from_value(v: &Value) -> Self {
        let s = match v { Value::Seq(s) => s, other => panic!("Ttp15p12p6Is: expected Seq, got {other:?}") };
        assert_eq!(s.len(), 1, "Ttp15p12p6Is: component count");
        let _ = s;
        Ttp15p12p6Is {
            v: FromValue::from_value(s[0].as_ref().expect("component v of Ttp15p12p6Is must be present")),
        }
    }
}
impl ToValue for Ttp15p12p6Is {
    fn to_value(&self) -> Value {
        Value::Seq(vec![
            Some(self.v.to_value()),
        ])
    }
}
impl FromValue for Ttp15p12p6 {
    fn from_value(v: &Value) -> Self {
        let s = match v { Value::Seq(s) => s, other => panic!("Ttp15p12p6: expected Seq, got {other:?}") };
        assert_eq!(s.len(), 3, "Ttp15p12p6: component count");
        let _ = s;
        Ttp15p12p6 {
            is: s[0].as_ref().map(FromValue::from_value),
            st: FromValue::from_value(s[1].as_ref().expect("component st of Ttp15p12p6 must be present")),
            i: FromValue::from_value(s[2].as_ref().expect("component i of Ttp15p12p6 must be present")),
        }
    }
}
impl ToValue for Ttp15p12p6 {
    fn to_value(&self) -> Value {
        Value::Seq(vec![
            self.is.as_ref().map(|x| x.to_value()),
            Some(self.st.to_value()),
            Some(self.i.to_value()),
        ])
    }
}
impl FromValue for Ttp15p12p7Is {
    fn from_value(v: &Value) -> Self {
        let s = match v { Value::Seq(s) => s, other => panic!("Ttp15p12p7Is: expected Seq, got {other:?}") };
        assert_eq!(s.len(), 1, "Ttp15p12p7Is: component count");
        let _ = s;
        Ttp15p12p7Is {
            v: FromValue::from_value(s[0].as_ref().expect("component v of Ttp15p12p7Is must be present")),
        }
    }
}
impl ToValue for Ttp15p12p7Is {
    fn to_value(&self) -> Value {
        Value::Seq(vec![
            Some(self.v.to_value()),
        ])
    }
}
impl FromValue for Ttp15p12p7 {
    fn from_value(v: &Value) -> Self {
        let s = match v { Value::Seq(s) => s, other => panic!("Ttp15p12p7: expected Seq, got {other:?}") };
        assert_eq!(s.len(), 3, "Ttp15p12p7: component count");
        let _ = s;
        Ttp15p12p7 {
            is: s[0].as_ref().map(FromValue::from_value),
            st: FromValue::from_value(s[1].as_ref().expect("component st of Ttp15p12p7 must be present")),
            ra: s[2].as_ref().map(FromValue::from_value),
        }
    }
}
impl ToValue for Ttp15p12p7 {
    fn to_value(&self) -> Value {
        Value::Seq(vec![
            self.is.as_ref().map(|x| x.to_value()),
            Some(self.st.to_value()),
            self.ra.as_ref().map(|x| x.to_value()),
        ])
    }
}
impl FromValue for Ttp15p12p8Is {
    fn from_value(v: &Value) -> Self {
        let s = match v { Value::Seq(s) => s, other => panic!("Ttp15p12p8Is: expected Seq, got {other:?}") };
        assert_eq!(s.len(), 1, "Ttp15p12p8Is: component count");
        let _ = s;
        Ttp15p12p8Is {
            v: FromValue::from_value(s[0].as_ref().expect("component v of Ttp15p12p8Is must be present")),
        }
    }
}
impl ToValue for Ttp15p12p8Is {
    fn to_value(&self) -> Value {
        Value::Seq(vec![
            Some(self.v.to_value()),
        ])
    }
}
impl FromValue for Ttp15p12p8 {
    fn from_value(v: &Value) -> Self {
        let s = match v { Value::Seq(s) => s, other => panic!("Ttp15p12p8: expected Seq, got {other:?}") };
        assert_eq!(s.len(), 3, "Ttp15p12p8: component count");
        let _ = s;
        Ttp15p12p8 {
            is: s[0].as_ref().map(FromValue::from_value),
            st: FromValue::from_value(s[1].as_ref().expect("component st of Ttp15p12p8 must be present")),
            rs: FromValue::from_value(s[2].as_ref().expect("component rs of Ttp15p12p8 must be present")),
        }
    }
}
impl ToValue for Ttp15p12p8 {
    fn to_value(&self) -> Value {
        Value::Seq(vec![
            self.is.as_ref().map(|x| x.to_value()),
            Some(self.st.to_value()),
            Some(self.rs.to_value()),
        ])
    }
}
impl FromValue for Ttp15p12p9Is {
    fn from_value(v: &Value) -> Self {
        let s = match v { Value::Seq(s) => s, other => panic!("Ttp15p12p9Is: expected Seq, got {other:?}") };
        assert_eq!(s.len(), 1, "Ttp15p12p9Is: component count");
        let _ = s;
        Ttp15p12p9Is {
            v: FromValue::from_value(s[0].as_ref().expect("component v of Ttp15p12p9Is must be present")),
        }
    }
}
impl ToValue for Ttp15p12p9Is {
    fn to_value(&self) -> Value {
        Value::Seq(vec![
            Some(self.v.to_value()),
        ])
    }
}
impl FromValue for Ttp15p12p9 {
    fn from_value(v: &Value) -> Self {
        let s = match v { Value::Seq(s) => s, other => panic!("Ttp15p12p9: expected Seq, got {other:?}") };
        assert_eq!(s.len(), 3, "Ttp15p12p9: component count");
        let _ = s;
        Ttp15p12p9 {
            is: s[0].as_ref().map(FromValue::from_value),
            st: FromValue::from_value(s[1].as_ref().expect("component st of Ttp15p12p9 must be present")),
            rc: s[2].as_ref().map(FromValue::from_value),
        }
    }
}
impl ToValue for Ttp15p12p9 {
    fn to_value(&self) -> Value {
        Value::Seq(vec![
            self.is.as_ref().map(|x| x.to_value()),
            Some(self.st.to_value()),
            self.rc.as_ref().map(|x| x.to_value()),
        ])
    }
}
impl FromValue for Ttp15p12p10Is {
    fn from_value(v: &Value) -> Self {
        let s = match v { Value::Seq(s) => s, other => panic!("Ttp15p12p10Is: expected Seq, got {other:?}") };
        assert_eq!(s.len(), 1, "Ttp15p12p10Is: component count");
        let _ = s;
        Ttp15p12p10Is {
            v: FromValue::from_value(s[0].as_ref().expect("component v of Ttp15p12p10Is must be present")),
        }
    }
}
impl ToValue for Ttp15p12p10Is {
    fn to_value(&self) -> Value {
        Value::Seq(vec![
            Some(self.v.to_value()),
        ])
    }
}
impl FromValue for Ttp15p12p10 {
    fn from_value(v: &Value) -> Self {
        let s = match v { Value::Seq(s) => s, other => panic!("Ttp15p12p10: expected Seq, got {other:?}") };
        assert_eq!(s.len(), 3, "Ttp15p12p10: component count");
        let _ = s;
        Ttp15p12p10 {
            is: s[0].as_ref().map(FromValue::from_value),
            st: FromValue::from_value(s[1].as_ref().expect("component st of Ttp15p12p10 must be present")),
            rt: FromValue::from_value(s[2].as_ref().expect("component rt of Ttp15p12p10 must be present")),
        }
    }
}
impl ToValue for Ttp15p12p10 {
    fn to_value(&self) -> Value {
        Value::Seq(vec![
            self.is.as_ref().map(|x| x.to_value()),
            Some(self.st.to_value()),
            Some(self.rt.to_value()),
        ])
    }
}
impl FromValue for Ttp15p12p11Is {
    fn from_value(v: &Value) -> Self {
        let s = match v { Value::Seq(s) => s, other => panic!("Ttp15p12p11Is: expected Seq, got {other:?}") };
        assert_eq!(s.len(), 1, "Ttp15p12p11Is: component count");
        let _ = s;
        Ttp15p12p11Is {
            v: FromValue::from_value(s[0].as_ref().expect("component v of Ttp15p12p11Is must be present")),
        }
    }
}
impl ToValue for Ttp15p12p11Is {
    fn to_value(&self) -> Value {
        Value::Seq(vec![
            Some(self.v.to_value()),
        ])
    }
}
impl FromValue for Ttp15p12p11 {
    fn from_value(v: &Value) -> Self {
        let s = match v { Value::Seq(s) => s, other => panic!("Ttp15p12p11: expected Seq, got {other:?}") };
        assert_eq!(s.len(), 3, "Ttp15p12p11: component count");
        let _ = s;
        Ttp15p12p11 {
            is: s[0].as_ref().map(FromValue::from_value),
            st: FromValue::from_value(s[1].as_ref().expect("component st of Ttp15p12p11 must be present")),
            so: s[2].as_ref().map(FromValue::from_value),
        }
    }
}
impl ToValue for Ttp15p12p11 {
    fn to_value(&self) -> Value {
        Value::Seq(vec![
            self.is.as_ref().map(|x| x.to_value()),
            Some(self.st.to_value()),
            self.so.as_ref().map(|x| x.to_value()),
        ])
    }
}
impl FromValue for Ttp15p12p13Is {
    fn from_value(v: &Value) -> Self {
        let s = match v { Value::Seq(s) => s, other => panic!("Ttp15p12p13Is: expected Seq, got {other:?}") };
        assert_eq!(s.len(), 1, "Ttp15p12p13Is: component count");
        let _ = s;
        Ttp15p12p13Is {
            v: FromValue::from_value(s[0].as_ref().expect("component v of Ttp15p12p13Is must be present")),
        }
    }
}
impl ToValue for Ttp15p12p13Is {
    fn to_value(&self) -> Value {
        Value::Seq(vec![
            Some(self.v.to_value()),
        ])
    }
}
impl FromValue for Ttp15p12p13 {
    fn from_value(v: &Value) -> Self {
        let s = match v { Value::Seq(s) => s, other => panic!("Ttp15p12p13: expected Seq, got {other:?}") };
        assert_eq!(s.len(), 3, "Ttp15p12p13: component count");
        let _ = s;
        Ttp15p12p13 {
            is: s[0].as_ref().map(FromValue::from_value),
            st: FromValue::from_value(s[1].as_ref().expect("component st of Ttp15p12p13 must be present")),
            rx: s[2].as_ref().map(FromValue::from_value),
        }
    }
}
impl ToValue for Ttp15p12p13 {
    fn to_value(&self) -> Value {
        Value::Seq(vec![
            self.is.as_ref().map(|x| x.to_value()),
            Some(self.st.to_value()),
            self.rx.as_ref().map(|x| x.to_value()),
        ])
    }
}
impl FromValue for Ttp15p12p14Is {
    fn from_value(v: &Value) -> Self {
        let s = match v { Value::Seq(s) => s, other => panic!("Ttp15p12p14Is: expected Seq, got {other:?}") };
        assert_eq!(s.len(), 1, "Ttp15p12p14Is: component count");
        let _ = s;
        Ttp15p12p14Is {
            v: FromValue::from_value(s[0].as_ref().expect("component v of Ttp15p12p14Is must be present")),
        }
    }
}
impl ToValue for Ttp15p12p14Is {
    fn to_value(&self) -> Value {
        Value::Seq(vec![
            Some(self.v.to_value()),
        ])
    }
}
impl FromValue for Ttp15p12p14 {
    fn from_value(v: &Value) -> Self {
        let s = match v { Value::Seq(s) => s, other => panic!("Ttp15p12p14: expected Seq, got {other:?}") };
        assert_eq!(s.len(), 3, "Ttp15p12p14: component count");
        let _ = s;
        Ttp15p12p14 {
            is: s[0].as_ref().map(FromValue::from_value),
            st: FromValue::from_value(s[1].as_ref().expect("component st of Ttp15p12p14 must be present")),
            u2: FromValue::from_value(s[2].as_ref().expect("component u2 of Ttp15p12p14 must be present")),
        }
    }
}
impl ToValue for Ttp15p12p14 {
    fn to_value(&self) -> Value {
        Value::Seq(vec![
            self.is.as_ref().map(|x| x.to_value()),
            Some(self.st.to_value()),
            Some(self.u2.to_value()),
        ])
    }
}
impl FromValue for Ttp15p13p0Is {
    fn from_value(v: &Value) -> Self {
        let s = match v { Value::Seq(s) => s, other => panic!("Ttp15p13p0Is: expected Seq, got {other:?}") };
        assert_eq!(s.len(), 1, "Ttp15p13p0Is: component count");
        let _ = s;
        Ttp15p13p0Is {
            v: FromValue::from_value(s[0].as_ref().expect("component v of Ttp15p13p0Is must be present")),
        }
    }
}
impl ToValue for Ttp15p13p0Is {
    fn to_value(&self) -> Value {
        Value::Seq(vec![
            Some(self.v.to_value()),
        ])
    }
}
impl FromValue for Ttp15p13p0 {
    fn from_value(v: &Value) -> Self {
        let s = match v { Value::Seq(s) => s, other => panic!("Ttp15p13p0: expected Seq, got {other:?}") };
        assert_eq!(s.len(), 3, "Ttp15p13p0: component count");
        let _ = s;
        Ttp15p13p0 {
            is: s[0].as_ref().map(FromValue::from_value),
            rx: s[1].as_ref().map(FromValue::from_value),
            x: FromValue::from_value(s[2].as_ref().expect("component x of Ttp15p13p0 must be present")),
        }
    }
}
impl ToValue for Ttp15p13p0 {
    fn to_value(&self) -> Value {
        Value::Seq(vec![
            self.is.as_ref().map(|x| x.to_value()),
            self.rx.as_ref().map(|x| x.to_value()),
            Some(self.x.to_value()),
        ])
    }
}
impl FromValue for Ttp15p13p1Is {
    fn from_value(v: &Value) -> Self {
        let s = match v { Value::Seq(s) => s, other => panic!("Ttp15p13p1Is: expected Seq, got {other:?}") };
        assert_eq!(s.len(), 1, "Ttp15p13p1Is: component count");
        let _ = s;
        Ttp15p13p1Is {
            v: FromValue::from_value(s[0].as_ref().expect("component v of Ttp15p13p1Is must be present")),
        }
    }
}
impl ToValue for Ttp15p13p1Is {
    fn to_value(&self) -> Value {
        Value::Seq(vec![
            Some(self.v.to_value()),
        ])
    }
}
impl FromValue for Ttp15p13p1 {
    fn from_value(v: &Value) -> Self {
        let s = match v { Value::Seq(s) => s, other => panic!("Ttp15p13p1: expected Seq, got {other:?}") };
        assert_eq!(s.len(), 3, "Ttp15p13p1: component count");
        let _ = s;
        Ttp15p13p1 {
            is: s[0].as_ref().map(FromValue::from_value),
            rx: s[1].as_ref().map(FromValue::from_value),
            a: s[2].as_ref().map(FromValue::from_value),
        }
    }
}
impl ToValue for Ttp15p13p1 {
    fn to_value(&self) -> Value {
        Value::Seq(vec![
            self.is.as_ref().map(|x| x.to_value()),
            self.rx.as_ref().map(|x| x.to_value()),
            self.a.as_ref().map(|x| x.to_value()),
        ])
    }
}
impl FromValue for Ttp15p13p2Is {
    fn from_value(v: &Value) -> Self {
        let s = match v { Value::Seq(s) => s, other => panic!("Ttp15p13p2Is: expected Seq, got {other:?}") };
        assert_eq!(s.len(), 1, "Ttp15p13p2Is: component count");
        let _ = s;
        Ttp15p13p2Is {
            v: FromValue::from_value(s[0].as_ref().expect("component v of Ttp15p13p2Is must be present")),
        }
    }
}
impl ToValue for Ttp15p13p2Is {
    fn to_value(&self) -> Value {
        Value::Seq(vec![
            Some(self.v.to_value()),
        ])
    }
}
impl FromValue for Ttp15p13p2 {
    fn from_value(v: &Value) -> Self {
        let s = match v { Value::Seq(s) => s, other => panic!("Ttp15p13p2: expected Seq, got {other:?}") };
        assert_eq!(s.len(), 3, "Ttp15p13p2: component count");
        let _ = s;
        Ttp15p13p2 {
            is: s[0].as_ref().map(FromValue::from_value),
            rx: s[1].as_ref().map(FromValue::from_value),
            c3: FromValue::from_value(s[2].as_ref().expect("component c3 of Ttp15p13p2 must be present")),
        }
    }
}
impl ToValue for Ttp15p13p2 {
    fn to_value(&self) -> Value {
        Value::Seq(vec![
            self.is.as_ref().map(|x| x.to_value()),
            self.rx.as_ref().map(|x| x.to_value()),
            Some(self.c3.to_value()),
        ])
    }
}
impl FromValue for Ttp15p13p3Is {
    fn from_value(v: &Value) -> Self {
        let s = match v { Value::Seq(s) => s, other => panic!("Ttp15p13p3Is: expected Seq, got {other:?}") };
        assert_eq!(s.len(), 1, "Ttp15p13p3Is: component count");
        let _ = s;
        Ttp15p13p3Is {
            v: FromValue::from_value(s[0].as_ref().expect("component v of Ttp15p13p3Is must be present")),
        }
    }
}
impl ToValue for Ttp15p13p3Is {
    fn to_value(&self) -> Value {
        Value::Seq(vec![
            Some(self.v.to_value()),
        ])
    }
}
impl FromValue for Ttp15p13p3 {
    fn from_value(v: &Value) -> Self {
        let s = match v { Value::Seq(s) => s, other => panic!("Ttp15p13p3: expected Seq, got {other:?}") };
        assert_eq!(s.len(), 3, "Ttp15p13p3: component count");
        let _ = s;
        Ttp15p13p3 {
            is: s[0].as_ref().map(FromValue::from_value),
            rx: s[1].as_ref().map(FromValue::from_value),
            c0: s[2].as_ref().map(FromValue::from_value),
        }
    }
}
impl ToValue for Ttp15p13p3 {
    fn to_value(&self) -> Value {
        Value::Seq(vec![
            self.is.as_ref().map(|x| x.to_value()),
            self.rx.as_ref().map(|x| x.to_value()),
            self.c0.as_ref().map(|x| x.to_value()),
        ])
    }
}
impl FromValue for Ttp15p13p4Is {
    fn from_value(v: &Value) -> Self {
        let s = match v { Value::Seq(s) => s, other => panic!("Ttp15p13p4Is: expected Seq, got {other:?}") };
        assert_eq!(s.len(), 1, "Ttp15p13p4Is: component count");
        let _ = s;
        Ttp15p13p4Is {
            v: FromValue::from_value(s[0].as_ref().expect("component v of Ttp15p13p4Is must be present")),
        }
    }
}
impl ToValue for Ttp15p13p4Is {
    fn to_value(&self) -> Value {
        Value::Seq(vec![
            Some(self.v.to_value()),
        ])
    }
}
impl FromValue for Ttp15p13p4 {
    fn from_value(v: &Value) -> Self {
        let s = match v { Value::Seq(s) => s, other => panic!("Ttp15p13p4: expected Seq, got {other:?}") };
        assert_eq!(s.len(), 3, "Ttp15p13p4: component count");
        let _ = s;
        Ttp15p13p4 {
            is: s[0].as_ref().map(FromValue::from_value),
            rx: s[1].as_ref().map(FromValue::from_value),
            p: FromValue::from_value(s[2].as_ref().expect("component p of Ttp15p13p4 must be present")),
        }
    }
}
impl ToValue for Ttp15p13p4 {
    fn to_value(&self) -> Value {
        Value::Seq(vec![
            self.is.as_ref().map(|x| x.to_value()),
            self.rx.as_ref().map(|x| x.to_value()),
            Some(self.p.to_value()),
        ])
    }
}
impl FromValue for Ttp15p13p5Is {
    fn from_value(v: &Value) -> Self {
        let s = match v { Value::Seq(s) => s, other => panic!("Ttp15p13p5Is: expected Seq, got {other:?}") };
        assert_eq!(s.len(), 1, "Ttp15p13p5Is: component count");
        let _ = s;
        Ttp15p13p5Is {
            v: FromValue::from_value(s[0].as_ref().expect("component v of Ttp15p13p5Is must be present")),
        }
    }
}
impl ToValue for Ttp15p13p5Is {
    fn to_value(&self) -> Value {
        Value::Seq(vec![
            Some(self.v.to_value()),
        ])
    }
}
impl FromValue for Ttp15p13p5 {
    fn from_value(v: &Value) -> Self {
        let s = match v { Value::Seq(s) => s, other => panic!("Ttp15p13p5: expected Seq, got {other:?}") };
        assert_eq!(s.len(), 3, "Ttp15p13p5: component count");
        let _ = s;
        Ttp15p13p5 {
            is: s[0].as_ref().map(FromValue::from_value),
            rx: s[1].as_ref().map(FromValue::from_value),
            b: s[2].as_ref().map(FromValue::from_value),
        }
    }
}
impl ToValue for Ttp15p13p5 {
    fn to_value(&self) -> Value {
        Value::Seq(vec![
            self.is.as_ref().map(|x| x.to_value()),
            self.rx.as_ref().map(|x| x.to_value()),
            self.b.as_ref().map(|x| x.to_value()),
        ])
    }
}
impl FromValue for Ttp15p13p6Is {
    fn from_value(v: &Value) -> Self {
        let s = match v { Value::Seq(s) => s, other => panic!("Ttp15p13p6Is: expected Seq, got {other:?}") };
        assert_eq!(s.len(), 1, "Ttp15p13p6Is: component count");
        let _ = s;
        Ttp15p13p6Is {
            v: FromValue::from_value(s[0].as_ref().expect("component v of Ttp15p13p6Is must be present")),
        }
    }
}
impl ToValue for Ttp15p13p6Is {
    fn to_value(&self) -> Value {
        Value::Seq(vec![
            Some(self.v.to_value()),
        ])
    }
}
impl FromValue for Ttp15p13p6 {
    fn from_value(v: &Value) -> Self {
        let s = match v { Value::Seq(s) => s, other => panic!("Ttp15p13p6: expected Seq, got {other:?}") };
        assert_eq!(s.len(), 3, "Ttp15p13p6: component count");
        let _ = s;
        Ttp15p13p6 {
            is: s[0].as_ref().map(FromValue::from_value),
            rx: s[1].as_ref().map(FromValue::from_value),
            i: FromValue::from_value(s[2].as_ref().expect("component i of Ttp15p13p6 must be present")),
        }
    }
}
impl ToValue for Ttp15p13p6 {
    fn to_value(&self) -> Value {
        Value::Seq(vec![
            self.is.as_ref().map(|x| x.to_value()),
            self.rx.as_ref().map(|x| x.to_value()),
            Some(self.i.to_value()),
        ])
    }
}
impl FromValue for Ttp15p13p7Is {
    fn from_value(v: &Value) -> Self {
        let s = match v { Value::Seq(s) => s, other => panic!("Ttp15p13p7Is: expected Seq, got {other:?}") };
        assert_eq!(s.len(), 1, "Ttp15p13p7Is: component count");
        let _ = s;
        Ttp15p13p7Is {
            v: FromValue::from_value(s[0].as_ref().expect("component v of Ttp15p13p7Is must be present")),
        }
    }
}
impl ToValue for Ttp15p13p7Is {
    fn to_value(&self) -> Value {
        Value::Seq(vec![
            Some(self.v.to_value()),
        ])
    }
}
impl FromValue for Ttp15p13p7 {
    fn from_value(v: &Value) -> Self {
        let s = match v { Value::Seq(s) => s, other => panic!("Ttp15p13p7: expected Seq, got {other:?}") };
        assert_eq!(s.len(), 3, "Ttp15p13p7: component count");
        let _ = s;
        Ttp15p13p7 {
            is: s[0].as_ref().map(FromValue::from_value),
            rx: s[1].as_ref().map(FromValue::from_value),
            ra: s[2].as_ref().map(FromValue::from_value),
        }
    }
}
impl ToValue for Ttp15p13p7 {
    fn to_value(&self) -> Value {
        Value::Seq(vec![
            self.is.as_ref().map(|x| x.to_value()),
            self.rx.as_ref().map(|x| x.to_value()),
            self.ra.as_ref().map(|x| x.to_value()),
        ])
    }
}
impl FromValue for Ttp15p13p8Is {
    fn from_value(v: &Value) -> Self {
        let s = match v { Value::Seq(s) => s, other => panic!("Ttp15p13p8Is: expected Seq, got {other:?}") };
        assert_eq!(s.len(), 1, "Ttp15p13p8Is: component count");
        let _ = s;
        Ttp15p13p8Is {
            v: FromValue::from_value(s[0].as_ref().expect("component v of Ttp15p13p8Is must be present")),
        }
    }
}
impl ToValue for Ttp15p13p8Is {
    fn to_value(&self) -> Value {
        Value::Seq(vec![
            Some(self.v.to_value()),
        ])
    }
}
impl FromValue for Ttp15p13p8 {
    fn from_value(v: &Value) -> Self {
        let s = match v { Value::Seq(s) => s, other => panic!("Ttp15p13p8: expected Seq, got {other:?}") };
        assert_eq!(s.len(), 3, "Ttp15p13p8: component count");
        let _ = s;
        Ttp15p13p8 {
            is: s[0].as_ref().map(FromValue::from_value),
            rx: s[1].as_ref().map(FromValue::from_value),
            rs: FromValue::from_value(s[2].as_ref().expect("component rs of Ttp15p13p8 must be present")),
        }
    }
}
impl ToValue for Ttp15p13p8 {
    fn to_value(&self) -> Value {
        Value::Seq(vec![
            self.is.as_ref().map(|x| x.to_value()),
            self.rx.as_ref().map(|x| x.to_value()),
            Some(self.rs.to_value()),
        ])
    }
}
impl FromValue for Ttp15p13p9Is {
    fn from_value(v: &Value) -> Self {
        let s = match v { Value::Seq(s) => s, other => panic!("Ttp15p13p9Is: expected Seq, got {other:?}") };
        assert_eq!(s.len(), 1, "Ttp15p13p9Is: component count");
        let _ = s;
        Ttp15p13p9Is {
            v: FromValue::from_value(s[0].as_ref().expect("component v of Ttp15p13p9Is must be present")),
        }
    }
}
impl ToValue for Ttp15p13p9Is {
    fn to_value(&self) -> Value {
        Value::Seq(vec![
            Some(self.v.to_value()),
        ])
    }
}
impl FromValue for Ttp15p13p9 {
    fn from_value(v: &Value) -> Self {
        let s = match v { Value::Seq(s) => s, other => panic!("Ttp15p13p9: expected Seq, got {other:?}") };
        assert_eq!(s.len(), 3, "Ttp15p13p9: component count");
        let _ = s;
        Ttp15p13p9 {
            is: s[0].as_ref().map(FromValue::from_value),
            rx: s[1].as_ref().map(FromValue::from_value),
            rc: s[2].as_ref().map(FromValue::from_value),
        }
    }
}
impl ToValue for Ttp15p13p9 {
    fn to_value(&self) -> Value {
        Value::Seq(vec![
            self.is.as_ref().map(|x| x.to_value()),
            self.rx.as_ref().map(|x| x.to_value()),
            self.rc.as_ref().map(|x| x.to_value()),
        ])
    }
}
impl FromValue for Ttp15p13p10Is {
    fn from_value(v: &Value) -> Self {
        let s = match v { Value::Seq(s) => s, other => panic!("Ttp15p13p10Is: expected Seq, got {other:?}") };
        assert_eq!(s.len(), 1, "Ttp15p13p10Is: component count");
        let _ = s;
        Ttp15p13p10Is {
            v: FromValue::from_value(s[0].as_ref().expect("component v of Ttp15p13p10Is must be present")),
        }
    }
}
impl ToValue for Ttp15p13p10Is {
    fn to_value(&self) -> Value {
        Value::Seq(vec![
            Some(self.v.to_value()),
        ])
    }
}
impl FromValue for Ttp15p13p10 {
    fn from_value(v: &Value) -> Self {
        let s = match v { Value::Seq(s) => s, other => panic!("Ttp15p13p10: expected Seq, got {other:?}") };
        assert_eq!(s.len(), 3, "Ttp15p13p10: component count");
        let _ = s;
        Ttp15p13p10 {
            is: s[0].as_ref().map(FromValue::from_value),
            rx: s[1].as_ref().map(FromValue::from_value),
            rt: FromValue::from_value(s[2].as_ref().expect("component rt of Ttp15p13p10 must be present")),
        }
    }
}
impl ToValue for Ttp15p13p10 {
    fn to_value(&self) -> Value {
        Value::Seq(vec![
            self.is.as_ref().map(|x| x.to_value()),
            self.rx.as_ref().map(|x| x.to_value()),
            Some(self.rt.to_value()),
        ])
    }
}
impl FromValue for Ttp15p13p11Is {
    fn from_value(v: &Value) -> Self {
        let s = match v { Value::Seq(s) => s, other => panic!("Ttp15p13p11Is: expected Seq, got {other:?}") };
        assert_eq!(s.len(), 1, "Ttp15p13p11Is: component count");
        let _ = s;
        Ttp15p13p11Is {
            v: FromValue::from_value(s[0].as_ref().expect("component v of Ttp15p13p11Is must be present")),
        }
    }
}
impl ToValue for Ttp15p13p11Is {
    fn to_value(&self) -> Value {
        Value::Seq(vec![
            Some(self.v.to_value()),
        ])
    }
}
impl FromValue for Ttp15p13p11 {
    fn from_value(v: &Value) -> Self {
        let s = match v { Value::Seq(s) => s, other => panic!("Ttp15p13p11: expected Seq, got {other:?}") };
        assert_eq!(s.len(), 3, "Ttp15p13p11: component count");
        let _ = s;
        Ttp15p13p11 {
            is: s[0].as_ref().map(FromValue::from_value),
            rx: s[1].as_ref().map(FromValue::from_value),
            so: s[2].as_ref().map(FromValue::from_value),
        }
    }
}
impl ToValue for Ttp15p13p11 {
    fn to_value(&self) -> Value {
        Value::Seq(vec![
            self.is.as_ref().map(|x| x.to_value()),
            self.rx.as_ref().map(|x| x.to_value()),
            self.so.as_ref().map(|x| x.to_value()),
        ])
    }
}
impl FromValue for Ttp15p13p12Is {
    fn from_value(v: &Value) -> Self {
        let s = match v { Value::Seq(s) => s, other => panic!("Ttp15p13p12Is: expected Seq, got {other:?}") };
        assert_eq!(s.len(), 1, "Ttp15p13p12Is: component count");
        let _ = s;
        Ttp15p13p12Is {
            v: FromValue::from_value(s[0].as_ref().expect("component v of Ttp15p13p12Is must be present")),
        }
    }
}
impl ToValue for Ttp15p13p12Is {
    fn to_value(&self) -> Value {
        Value::Seq(vec![
            Some(self.v.to_value()),
        ])
    }
}
impl FromValue for Ttp15p13p12 {
    fn from_value(v: &Value) -> Self {
        let s = match v { Value::Seq(s) => s, other => panic!("Ttp15p13p12: expected Seq, got {other:?}") };
        assert_eq!(s.len(), 3, "Ttp15p13p12: component count");
        let _ = s;
        Ttp15p13p12 {
            is: s[0].as_ref().map(FromValue::from_value),
            rx: s[1].as_ref().map(FromValue::from_value),
            st: FromValue::from_value(s[2].as_ref().expect("component st of Ttp15p13p12 must be present")),
        }
    }
}
impl ToValue for Ttp15p13p12 {
    fn to_value(&self) -> Value {
        Value::Seq(vec![
            self.is.as_ref().map(|x| x.to_value()),
            self.rx.as_ref().map(|x| x.to_value()),
            Some(self.st.to_value()),
        ])
    }
}
impl FromValue for Ttp15p13p14Is {
    fn from_value(v: &Value) -> Self {
        let s = match v { Value::Seq(s) => s, other => panic!("Ttp15p13p14Is: expected Seq, got {other:?}") };
        assert_eq!(s.len(), 1, "Ttp15p13p14Is: component count");
        let _ = s;
        Ttp15p13p14Is {
            v: FromValue::from_value(s[0].as_ref().expect("component v of Ttp15p13p14Is must be present")),
        }
    }
}
impl ToValue for Ttp15p13p14Is {
    fn to_value(&self) -> Value {
        Value::Seq(vec![
            Some(self.v.to_value()),
        ])
    }
}
impl FromValue for Ttp15p13p14 {
    fn from_value(v: &Value) -> Self {
        let s = match v { Value::Seq(s) => s, other => panic!("Ttp15p13p14: expected Seq, got {other:?}") };
        assert_eq!(s.len(), 3, "Ttp15p13p14: component count");
        let _ = s;
        Ttp15p13p14 {
            is: s[0].as_ref().map(FromValue::from_value),
            rx: s[1].as_ref().map(FromValue::from_value),
            u2: FromValue::from_value(s[2].as_ref().expect("component u2 of Ttp15p13p14 must be present")),
        }
    }
}
impl ToValue for Ttp15p13p14 {
    fn to_value(&self) -> Value {
        Value::Seq(vec![
            self.is.as_ref().map(|x| x.to_value()),
            self.rx.as_ref().map(|x| x.to_value()),
            Some(self.u2.to_value()),
        ])
    }
}
impl FromValue for Ttp15p14p0Is {
    fn from_value(v: &Value) -> Self {
        let s = match v { Value::Seq(s) => s, other => panic!("Ttp15p14p0Is: expected Seq, got {other:?}") };
        assert_eq!(s.len(), 1, "Ttp15p14p0Is: component count");
        let _ = s;
        Ttp15p14p0Is {
            v: FromValue::from_value(s[0].as_ref().expect("component v of Ttp15p14p0Is must be present")),
        }
    }
}
impl ToValue for Ttp15p14p0Is {
    fn to_value(&self) -> Value {
        Value::Seq(vec![
            Some(self.v.to_value()),
        ])
    }
}
impl FromValue for Ttp15p14p0 {
    fn from_value(v: &Value) -> Self {
        let s = match v { Value::Seq(s) => s, other => panic!("Ttp15p14p0: expected Seq, got {other:?}") };
        assert_eq!(s.len(), 3, "Ttp15p14p0: component count");
        let _ = s;
        Ttp15p14p0 {
            is: s[0].as_ref().map(FromValue::from_value),
            u2: FromValue::from_value(s[1].as_ref().expect("component u2 of Ttp15p14p0 must be present")),
            x: FromValue::from_value(s[2].as_ref().expect("component x of Ttp15p14p0 must be present")),
        }
    }
}
impl ToValue for Ttp15p14p0 {
    fn to_value(&self) -> Value {
        Value::Seq(vec![
            self.is.as_ref().map(|x| x.to_value()),
            Some(self.u2.to_value()),
            Some(self.x.to_value()),
        ])
    }
}
impl FromValue for Ttp15p14p1Is {
    fn from_value(v: &Value) -> Self {
        let s = match v { Value::Seq(s) => s, other => panic!("Ttp15p14p1Is: expected Seq, got {other:?}") };
        assert_eq!(s.len(), 1, "Ttp15p14p1Is: component count");
        let _ = s;
        Ttp15p14p1Is {
            v: FromValue::from_value(s[0].as_ref().expect("component v of Ttp15p14p1Is must be present")),
        }
    }
}
impl ToValue for Ttp15p14p1Is {
    fn to_value(&self) -> Value {
        Value::Seq(vec![
            Some(self.v.to_value()),
        ])
    }
}
impl FromValue for Ttp15p14p1 {
    fn from_value(v: &Value) -> Self {
        let s = match v { Value::Seq(s) => s, other => panic!("Ttp15p14p1: expected Seq, got {other:?}") };
        assert_eq!(s.len(), 3, "Ttp15p14p1: component count");
        let _ = s;
        Ttp15p14p1 {
            is: s[0].as_ref().map(FromValue::from_value),
            u2: FromValue::from_value(s[1].as_ref().expect("component u2 of Ttp15p14p1 must be present")),
            a: s[2].as_ref().map(FromValue::from_value),
        }
    }
}
impl ToValue for Ttp15p14p1 {
    fn to_value(&self) -> Value {
        Value::Seq(vec![
            self.is.as_ref().map(|x| x.to_value()),
            Some(self.u2.to_value()),
            self.a.as_ref().map(|x| x.to_value()),
        ])
    }
}
impl FromValue for Ttp15p14p2Is {
    fn from_value(v: &Value) -> Self {
        let s = match v { Value::Seq(s) => s, other => panic!("Ttp15p14p2Is: expected Seq, got {other:?}") };
        assert_eq!(s.len(), 1, "Ttp15p14p2Is: component count");
        let _ = s;
        Ttp15p14p2Is {
            v: FromValue::from_value(s[0].as_ref().expect("component v of Ttp15p14p2Is must be present")),
        }
    }
}
impl ToValue for Ttp15p14p2Is {
    fn to_value(&self) -> Value {
        Value::Seq(vec![
            Some(self.v.to_value()),
        ])
    }
}
impl FromValue for Ttp15p14p2 {
    fn from_value(v: &Value) -> Self {
        let s = match v { Value::Seq(s) => s, other => panic!("Ttp15p14p2: expected Seq, got {other:?}") };
        assert_eq!(s.len(), 3, "Ttp15p14p2: component count");
        let _ = s;
        Ttp15p14p2 {
            is: s[0].as_ref().map(FromValue::from_value),
            u2: FromValue::from_value(s[1].as_ref().expect("component u2 of Ttp15p14p2 must be present")),
            c3: FromValue::from_value(s[2].as_ref().expect("component c3 of Ttp15p14p2 must be present")),
        }
    }
}
impl ToValue for Ttp15p14p2 {
    fn to_value(&self) -> Value {
        Value::Seq(vec![
            self.is.as_ref().map(|x| x.to_value()),
            Some(self.u2.to_value()),
            Some(self.c3.to_value()),
        ])
    }
}
impl FromValue for Ttp15p14p3Is {
    fn from_value(v: &Value) -> Self {
        let s = match v { Value::Seq(s) => s, other => panic!("Ttp15p14p3Is: expected Seq, got {other:?}") };
        assert_eq!(s.len(), 1, "Ttp15p14p3Is: component count");
        let _ = s;
        Ttp15p14p3Is {
            v: FromValue::from_value(s[0].as_ref().expect("component v of Ttp15p14p3Is must be present")),
        }
    }
}
impl ToValue for Ttp15p14p3Is {
    fn to_value(&self) -> Value {
        Value::Seq(vec![
            Some(self.v.to_value()),
        ])
    }
}
impl FromValue for Ttp15p14p3 {
    fn from_value(v: &Value) -> Self {
        let s = match v { Value::Seq(s) => s, other => panic!("Ttp15p14p3: expected Seq, got {other:?}") };
        assert_eq!(s.len(), 3, "Ttp15p14p3: component count");
        let _ = s;
        Ttp15p14p3 {
            is: s[0].as_ref().map(FromValue::from_value),
            u2: FromValue::from_value(s[1].as_ref().expect("component u2 of Ttp15p14p3 must be present")),
            c0: s[2].as_ref().map(FromValue::from_value),
        }
    }
}
impl ToValue for Ttp15p14p3 {
    fn to_value(&self) -> Value {
        Value::Seq(vec![
            self.is.as_ref().map(|x| x.to_value()),
            Some(self.u2.to_value()),
            self.c0.as_ref().map(|x| x.to_value()),
        ])
    }
}
impl FromValue for Ttp15p14p4Is {
    fn from_value(v: &Value) -> Self {
        let s = match v { Value::Seq(s) => s, other => panic!("Ttp15p14p4Is: expected Seq, got {other:?}") };
        assert_eq!(s.len(), 1, "Ttp15p14p4Is: component count");
        let _ = s;
        Ttp15p14p4Is {
            v: FromValue::from_value(s[0].as_ref().expect("component v of Ttp15p14p4Is must be present")),
        }
    }
}
impl ToValue for Ttp15p14p4Is {
    fn to_value(&self) -> Value {
        Value::Seq(vec![
            Some(self.v.to_value()),
        ])
    }
}
impl FromValue for Ttp15p14p4 {
    fn from_value(v: &Value) -> Self {
        let s = match v { Value::Seq(s) => s, other => panic!("Ttp15p14p4: expected Seq, got {other:?}") };
        assert_eq!(s.len(), 3, "Ttp15p14p4: component count");
        let _ = s;
        Ttp15p14p4 {
            is: s[0].as_ref().map(FromValue::from_value),
            u2: FromValue::from_value(s[1].as_ref().expect("component u2 of Ttp15p14p4 must be present")),
            p: FromValue::from_value(s[2].as_ref().expect("component p of Ttp15p14p4 must be present")),
        }
    }
}
impl ToValue for Ttp15p14p4 {
    fn to_value(&self) -> Value {
        Value::Seq(vec![
            self.is.as_ref().map(|x| x.to_value()),
            Some(self.u2.to_value()),
            Some(self.p.to_value()),
        ])
    }
}
impl FromValue for Ttp15p14p5Is {
    fn from_value(v: &Value) -> Self {
        let s = match v { Value::Seq(s) => s, other => panic!("Ttp15p14p5Is: expected Seq, got {other:?}") };
        assert_eq!(s.len(), 1, "Ttp15p14p5Is: component count");
        let _ = s;
        Ttp15p14p5Is {
            v: FromValue::from_value(s[0].as_ref().expect("component v of Ttp15p14p5Is must be present")),
        }
    }
}
impl ToValue for Ttp15p14p5Is {
    fn to_value(&self) -> Value {
        Value::Seq(vec![
            Some(self.v.to_value()),
        ])
    }
}
impl FromValue for Ttp15p14p5 {
    fn from_value(v: &Value) -> Self {
        let s = match v { Value::Seq(s) => s, other => panic!("Ttp15p14p5: expected Seq, got {other:?}") };
        assert_eq!(s.len(), 3, "Ttp15p14p5: component count");
        let _ = s;
        Ttp15p14p5 {
            is: s[0].as_ref().map(FromValue::from_value),
            u2: FromValue::from_value(s[1].as_ref().expect("component u2 of Ttp15p14p5 must be present")),
            b: s[2].as_ref().map(FromValue::from_value),
        }
    }
}
impl ToValue for Ttp15p14p5 {
    fn to_value(&self) -> Value {
        Value::Seq(vec![
            self.is.as_ref().map(|x| x.to_value()),
            Some(self.u2.to_value()),
            self.b.as_ref().map(|x| x.to_value()),
        ])
    }
}
impl FromValue for Ttp15p14p6Is {
    fn from_value(v: &Value) -> Self {
        let s = match v { Value::Seq(s) => s, other => panic!("Ttp15p14p6Is: expected Seq, got {other:?}") };
        assert_eq!(s.len(), 1, "Ttp15p14p6Is: component count");
        let _ = s;
        Ttp15p14p6Is {
            v: FromValue::from_value(s[0].as_ref().expect("component v of Ttp15p14p6Is must be present")),
        }
    }
}
impl ToValue for Ttp15p14p6Is {
    fn to_value(&self) -> Value {
        Value::Seq(vec![
            Some(self.v.to_value()),
        ])
    }
}
impl FromValue for Ttp15p14p6 {
    fn from_value(v: &Value) -> Self {
        let s = match v { Value::Seq(s) => s, other => panic!("Ttp15p14p6: expected Seq, got {other:?}") };
        assert_eq!(s.len(), 3, "Ttp15p14p6: component count");
        let _ = s;
        Ttp15p14p6 {
            is: s[0].as_ref().map(FromValue::from_value),
            u2: FromValue::from_value(s[1].as_ref().expect("component u2 of Ttp15p14p6 must be present")),
            i: FromValue::from_value(s[2].as_ref().expect("component i of Ttp15p14p6 must be present")),
        }
    }
}
impl ToValue for Ttp15p14p6 {
    fn to_value(&self) -> Value {
        Value::Seq(vec![
            self.is.as_ref().map(|x| x.to_value()),
            Some(self.u2.to_value()),
            Some(self.i.to_value()),
        ])
    }
}
impl FromValue for Ttp15p14p7Is {
    fn from_value(v: &Value) -> Self {
        let s = match v { Value::Seq(s) => s, other => panic!("Ttp15p14p7Is: expected Seq, got {other:?}") };
        assert_eq!(s.len(), 1, "Ttp15p14p7Is: component count");
        let _ = s;
        Ttp15p14p7Is {
            v: FromValue::from_value(s[0].as_ref().expect("component v of Ttp15p14p7Is must be present")),
        }
    }
}
impl ToValue for Ttp15p14p7Is {
    fn to_value(&self) -> Value {
        Value::Seq(vec![
            Some(self.v.to_value()),
        ])
    }
}
impl FromValue for Ttp15p14p7 {
    fn from_value(v: &Value) -> Self {
        let s = match v { Value::Seq(s) => s, other => panic!("Ttp15p14p7: expected Seq, got {other:?}") };
        assert_eq!(s.len(), 3, "Ttp15p14p7: component count");
        let _ = s;
        Ttp15p14p7 {
            is: s[0].as_ref().map(FromValue::from_value),
            u2: FromValue::from_value(s[1].as_ref().expect("component u2 of Ttp15p14p7 must be present")),
            ra: s[2].as_ref().map(FromValue::from_value),
        }
    }
}
impl ToValue for Ttp15p14p7 {
    fn to_value(&self) -> Value {
        Value::Seq(vec![
            self.is.as_ref().map(|x| x.to_value()),
            Some(self.u2.to_value()),
            self.ra.as_ref().map(|x| x.to_value()),
        ])
    }
}
impl FromValue for Ttp15p14p8Is {
    fn from_value(v: &Value) -> Self {
        let s = match v { Value::Seq(s) => s, other => panic!("Ttp15p14p8Is: expected Seq, got {other:?}") };
        assert_eq!(s.len(), 1, "Ttp15p14p8Is: component count");
        let _ = s;
        Ttp15p14p8Is {
            v: FromValue::from_value(s[0].as_ref().expect("component v of Ttp15p14p8Is must be present")),
        }
    }
}
impl ToValue for Ttp15p14p8Is {
    fn to_value(&self) -> Value {
        Value::Seq(vec![
            Some(self.v.to_value()),
        ])
    }
}
impl FromValue for Ttp15p14p8 {
    fn from_value(v: &Value) -> Self {
        let s = match v { Value::Seq(s) => s, other => panic!("Ttp15p14p8: expected Seq, got {other:?}") };
        assert_eq!(s.len(), 3, "Ttp15p14p8: component count");
        let _ = s;
        Ttp15p14p8 {
            is: s[0].as_ref().map(FromValue::from_value),
            u2: FromValue::from_value(s[1].as_ref().expect("component u2 of Ttp15p14p8 must be present")),
            rs: FromValue::from_value(s[2].as_ref().expect("component rs of Ttp15p14p8 must be present")),
        }
    }
}
impl ToValue for Ttp15p14p8 {
    fn to_value(&self) -> Value {
        Value::Seq(vec![
            self.is.as_ref().map(|x| x.to_value()),
            Some(self.u2.to_value()),
            Some(self.rs.to_value()),
        ])
    }
}
impl FromValue for Ttp15p14p9Is {
    fn from_value(v: &Value) -> Self {
        let s = match v { Value::Seq(s) => s, other => panic!("Ttp15p14p9Is: expected Seq, got {other:?}") };
        assert_eq!(s.len(), 1, "Ttp15p14p9Is: component count");
        let _ = s;
        Ttp15p14p9Is {
            v: FromValue::from_value(s[0].as_ref().expect("component v of Ttp15p14p9Is must be present")),
        }
    }
}
impl ToValue for Ttp15p14p9Is {
    fn to_value(&self) -> Value {
        Value::Seq(vec![
            Some(self.v.to_value()),
        ])
    }
}
impl FromValue for Ttp15p14p9 {
    fn from_value(v: &Value) -> Self {
        let s = match v { Value::Seq(s) => s, other => panic!("Ttp15p14p9: expected Seq, got {other:?}") };
        assert_eq!(s.len(), 3, "Ttp15p14p9: component count");
        let _ = s;
        Ttp15p14p9 {
            is: s[0].as_ref().map(FromValue::from_value),
            u2: FromValue::from_value(s[1].as_ref().expect("component u2 of Ttp15p14p9 must be present")),
            rc: s[2].as_ref().map(FromValue::from_value),
        }
    }
}
impl ToValue for Ttp15p14p9 {
    fn to_value(&self) -> Value {
        Value::Seq(vec![
            self.is.as_ref().map(|x| x.to_value()),
            Some(self.u2.to_value()),
            self.rc.as_ref().map(|x| x.to_value()),
        ])
    }
}
impl FromValue for Ttp15p14p10Is {
    fn from_value(v: &Value) -> Self {
        let s = match v { Value::Seq(s) => s, other => panic!("Ttp15p14p10Is: expected Seq, got {other:?}") };
        assert_eq!(s.len(), 1, "Ttp15p14p10Is: component count");
        let _ = s;
        Ttp15p14p10Is {
            v: FromValue::from_value(s[0].as_ref().expect("component v of Ttp15p14p10Is must be present")),
        }
    }
}
impl ToValue for Ttp15p14p10Is {
    fn to_value(&self) -> Value {
        Value::Seq(vec![
            Some(self.v.to_value()),
        ])
    }
}
impl FromValue for Ttp15p14p10 {
    fn from_value(v: &Value) -> Self {
        let s = match v { Value::Seq(s) => s, other => panic!("Ttp15p14p10: expected Seq, got {other:?}") };
        assert_eq!(s.len(), 3, "Ttp15p14p10: component count");
        let _ = s;
        Ttp15p14p10 {
            is: s[0].as_ref().map(FromValue::from_value),
            u2: FromValue::from_value(s[1].as_ref().expect("component u2 of Ttp15p14p10 must be present")),
            rt: FromValue::from_value(s[2].as_ref().expect("component rt of Ttp15p14p10 must be present")),
        }
    }
}
impl ToValue for Ttp15p14p10 {
    fn to_value(&self) -> Value {
        Value::Seq(vec![
            self.is.as_ref().map(|x| x.to_value()),
            Some(self.u2.to_value()),
            Some(self.rt.to_value()),
        ])
    }
}
impl FromValue for Ttp15p14p11Is {
    fn from_value(v: &Value) -> Self {
        let s = match v { Value::Seq(s) => s, other => panic!("Ttp15p14p11Is: expected Seq, got {other:?}") };
        assert_eq!(s.len(), 1, "Ttp15p14p11Is: component count");
        let _ = s;
        Ttp15p14p11Is {
            v: FromValue::from_value(s[0].as_ref().expect("component v of Ttp15p14p11Is must be present")),
        }
    }
}
impl ToValue for Ttp15p14p11Is {
    fn to_value(&self) -> Value {
        Value::Seq(vec![
            Some(self.v.to_value()),
        ])
    }
}
impl FromValue for Ttp15p14p11 {
    fn from_value(v: &Value) -> Self {
        let s = match v { Value::Seq(s) => s, other => panic!("Ttp15p14p11: expected Seq, got {other:?}") };
        assert_eq!(s.len(), 3, "Ttp15p14p11: component count");
        let _ = s;
        Ttp15p14p11 {
            is: s[0].as_ref().map(FromValue::from_value),
            u2: FromValue::from_value(s[1].as_ref().expect("component u2 of Ttp15p14p11 must be present")),
            so: s[2].as_ref().map(FromValue::from_value),
        }
    }
}
impl ToValue for Ttp15p14p11 {
    fn to_value(&self) -> Value {
        Value::Seq(vec![
            self.is.as_ref().map(|x| x.to_value()),
            Some(self.u2.to_value()),
            self.so.as_ref().map(|x| x.to_value()),
        ])
    }
}
impl FromValue for Ttp15p14p12Is {
    fn from_value(v: &Value) -> Self {
        let s = match v { Value::Seq(s) => s, other => panic!("Ttp15p14p12Is: expected Seq, got {other:?}") };
        assert_eq!(s.len(), 1, "Ttp15p14p12Is: component count");
        let _ = s;
        Ttp15p14p12Is {
            v: FromValue::from_value(s[0].as_ref().expect("component v of Ttp15p14p12Is must be present")),
        }
    }
}
impl ToValue for Ttp15p14p12Is {
    fn to_value(&self) -> Value {
        Value::Seq(vec![
            Some(self.v.to_value()),
        ])
    }
}
impl FromValue for Ttp15p14p12 {
    fn from_value(v: &Value) -> Self {
        let s = match v { Value::Seq(s) => s, other => panic!("Ttp15p14p12: expected Seq, got {other:?}") };
        assert_eq!(s.len(), 3, "Ttp15p14p12: component count");
        let _ = s;
        Ttp15p14p12 {
            is: s[0].as_ref().map(FromValue::from_value),
            u2: FromValue::from_value(s[1].as_ref().expect("component u2 of Ttp15p14p12 must be present")),
            st: FromValue::from_value(s[2].as_ref().expect("component st of Ttp15p14p12 must be present")),
        }
    }
}
impl ToValue for Ttp15p14p12 {
    fn to_value(&self) -> Value {
        Value::Seq(vec![
            self.is.as_ref().map(|x| x.to_value()),
            Some(self.u2.to_value()),
            Some(self.st.to_value()),
        ])
    }
}
impl FromValue for Ttp15p14p13Is {
    fn from_value(v: &Value) -> Self {
        let s = match v { Value::Seq(s) => s, other => panic!("Ttp15p14p13Is: expected Seq, got {other:?}") };
        assert_eq!(s.len(), 1, "Ttp15p14p13Is: component count");
        let _ = s;
        Ttp15p14p13Is {
            v: FromValue::from_value(s[0].as_ref().expect("component v of Ttp15p14p13Is must be present")),
        }
    }
}
impl ToValue for Ttp15p14p13Is {
    fn to_value(&self) -> Value {
        Value::Seq(vec![
            Some(self.v.to_value()),
        ])
    }
}
impl FromValue for Ttp15p14p13 {
    fn from_value(v: &Value) -> Self {
        let s = match v { Value::Seq(s) => s, other => panic!("Ttp15p14p13: expected Seq, got {other:?}") };
        assert_eq!(s.len(), 3, "Ttp15p14p13: component count");
        let _ = s;
        Ttp15p14p13 {
            is: s[0].as_ref().map(FromValue::from_value),
            u2: FromValue::from_value(s[1].as_ref().expect("component u2 of Ttp15p14p13 must be present")),
            rx: s[2].as_ref().map(FromValue::from_value),
        }
    }
}
impl ToValue for Ttp15p14p13 {
    fn to_value(&self) -> Value {
        Value::Seq(vec![
            self.is.as_ref().map(|x| x.to_value()),
            Some(self.u2.to_value()),
            self.rx.as_ref().map(|x| x.to_value()),
        ])
    }
}

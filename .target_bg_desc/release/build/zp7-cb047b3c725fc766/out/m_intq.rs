use asn1rs::prelude::*;

#[asn(transparent)]

#[derive(Default, Debug, Clone, PartialEq, Hash)]
pub struct Tiun(#[asn(integer(min..max))] pub u64);

impl Tiun {
    pub const fn value_min() -> u64 {
        0
    }

    pub const fn value_max() -> u64 {
        9_223_372_036_854_775_807
    }
}

impl Tiun {
    pub const fn new(value: u64) -> Self {
        Self(value)
    }
}

impl ::core::ops::Deref for Tiun {
    type Target = u64;

    fn deref(&self) -> &u64 {
        &self.0
    }
}

impl ::core::ops::DerefMut for Tiun {
    fn deref_mut(&mut self) -> &mut u64 {
        &mut self.0
    }
}

impl ::core::convert::From<u64> for Tiun {
    fn from(value: u64) -> Self {
        Self(value)
    }
}

impl ::core::convert::From<Tiun> for u64 {
    fn from(value: Tiun) -> Self {
        value.0
    }
}

#[asn(transparent)]

#[derive(Default, Debug, Clone, PartialEq, Hash)]
pub struct Til0(#[asn(integer(0..0))] pub u8);

impl Til0 {
    pub const fn value_min() -> u8 {
        0
    }

    pub const fn value_max() -> u8 {
        0
    }
}

impl Til0 {
    pub const fn new(value: u8) -> Self {
        Self(value)
    }
}

impl ::core::ops::Deref for Til0 {
    type Target = u8;

    fn deref(&self) -> &u8 {
        &self.0
    }
}

impl ::core::ops::DerefMut for Til0 {
    fn deref_mut(&mut self) -> &mut u8 {
        &mut self.0
    }
}

impl ::core::convert::From<u8> for Til0 {
    fn from(value: u8) -> Self {
        Self(value)
    }
}

impl ::core::convert::From<Til0> for u8 {
    fn from(value: Til0) -> Self {
        value.0
    }
}

#[asn(transparent)]

#[derive(Default, Debug, Clone, PartialEq, Hash)]
pub struct Til2(#[asn(integer(0..1))] pub u8);

impl Til2 {
    pub const fn value_min() -> u8 {
        0
    }

    pub const fn value_max() -> u8 {
        1
    }
}

impl Til2 {
    pub const fn new(value: u8) -> Self {
        Self(value)
    }
}

impl ::core::ops::Deref for Til2 {
    type Target = u8;

    fn deref(&self) -> &u8 {
        &self.0
    }
}

impl ::core::ops::DerefMut for Til2 {
    fn deref_mut(&mut self) -> &mut u8 {
        &mut self.0
    }
}

impl ::core::convert::From<u8> for Til2 {
    fn from(value: u8) -> Self {
        Self(value)
    }
}

impl ::core::convert::From<Til2> for u8 {
    fn from(value: Til2) -> Self {
        value.0
    }
}

#[asn(transparent)]

#[derive(Default, Debug, Clone, PartialEq, Hash)]
pub struct Til6(#[asn(integer(0..7))] pub u8);

impl Til6 {
    pub const fn value_min() -> u8 {
        0
    }

    pub const fn value_max() -> u8 {
        7
    }
}

impl Til6 {
    pub const fn new(value: u8) -> Self {
        Self(value)
    }
}

impl ::core::ops::Deref for Til6 {
    type Target = u8;

    fn deref(&self) -> &u8 {
        &self.0
    }
}

impl ::core::ops::DerefMut for Til6 {
    fn deref_mut(&mut self) -> &mut u8 {
        &mut self.0
    }
}

impl ::core::convert::From<u8> for Til6 {
    fn from(value: u8) -> Self {
        Self(value)
    }
}

impl ::core::convert::From<Til6> for u8 {
    fn from(value: Til6) -> Self {
        value.0
    }
}

#[asn(transparent)]

#[derive(Default, Debug, Clone, PartialEq, Hash)]
pub struct Til9(#[asn(integer(-5..5))] pub i8);

impl Til9 {
    pub const fn value_min() -> i8 {
        -5
    }

    pub const fn value_max() -> i8 {
        5
    }
}

impl Til9 {
    pub const fn new(value: i8) -> Self {
        Self(value)
    }
}

impl ::core::ops::Deref for Til9 {
    type Target = i8;

    fn deref(&self) -> &i8 {
        &self.0
    }
}

impl ::core::ops::DerefMut for Til9 {
    fn deref_mut(&mut self) -> &mut i8 {
        &mut self.0
    }
}

impl ::core::convert::From<i8> for Til9 {
    fn from(value: i8) -> Self {
        Self(value)
    }
}

impl ::core::convert::From<Til9> for i8 {
    fn from(value: Til9) -> Self {
        value.0
    }
}

#[asn(transparent)]

#[derive(Default, Debug, Clone, PartialEq, Hash)]
pub struct Til13(#[asn(integer(0..255))] pub u8);

impl Til13 {
    pub const fn value_min() -> u8 {
        0
    }

    pub const fn value_max() -> u8 {
        255
    }
}

impl Til13 {
    pub const fn new(value: u8) -> Self {
        Self(value)
    }
}

impl ::core::ops::Deref for Til13 {
    type Target = u8;

    fn deref(&self) -> &u8 {
        &self.0
    }
}

impl ::core::ops::DerefMut for Til13 {
    fn deref_mut(&mut self) -> &mut u8 {
        &mut self.0
    }
}

impl ::core::convert::From<u8> for Til13 {
    fn from(value: u8) -> Self {
        Self(value)
    }
}

impl ::core::convert::From<Til13> for u8 {
    fn from(value: Til13) -> Self {
        value.0
    }
}

#[asn(transparent)]

#[derive(Default, Debug, Clone, PartialEq, Hash)]
pub struct Til14(#[asn(integer(0..256))] pub u16);

impl Til14 {
    pub const fn value_min() -> u16 {
        0
    }

    pub const fn value_max() -> u16 {
        256
    }
}

impl Til14 {
    pub const fn new(value: u16) -> Self {
        Self(value)
    }
}

impl ::core::ops::Deref for Til14 {
    type Target = u16;

    fn deref(&self) -> &u16 {
        &self.0
    }
}

impl ::core::ops::DerefMut for Til14 {
    fn deref_mut(&mut self) -> &mut u16 {
        &mut self.0
    }
}

impl ::core::convert::From<u16> for Til14 {
    fn from(value: u16) -> Self {
        Self(value)
    }
}

impl ::core::convert::From<Til14> for u16 {
    fn from(value: Til14) -> Self {
        value.0
    }
}

#[asn(transparent)]

#[derive(Default, Debug, Clone, PartialEq, Hash)]
pub struct Til16(#[asn(integer(-128..127))] pub i8);

impl Til16 {
    pub const fn value_min() -> i8 {
        -128
    }

    pub const fn value_max() -> i8 {
        127
    }
}

impl Til16 {
    pub const fn new(value: i8) -> Self {
        Self(value)
    }
}

impl ::core::ops::Deref for Til16 {
    type Target = i8;

    fn deref(&self) -> &i8 {
        &self.0
    }
}

impl ::core::ops::DerefMut for Til16 {
    fn deref_mut(&mut self) -> &mut i8 {
        &mut self.0
    }
}

impl ::core::convert::From<i8> for Til16 {
    fn from(value: i8) -> Self {
        Self(value)
    }
}

impl ::core::convert::From<Til16> for i8 {
    fn from(value: Til16) -> Self {
        value.0
    }
}

#[asn(transparent)]

#[derive(Default, Debug, Clone, PartialEq, Hash)]
pub struct Til17(#[asn(integer(-129..127))] pub i16);

impl Til17 {
    pub const fn value_min() -> i16 {
        -129
    }

    pub const fn value_max() -> i16 {
        127
    }
}

impl Til17 {
    pub const fn new(value: i16) -> Self {
        Self(value)
    }
}

impl ::core::ops::Deref for Til17 {
    type Target = i16;

    fn deref(&self) -> &i16 {
        &self.0
    }
}

impl ::core::ops::DerefMut for Til17 {
    fn deref_mut(&mut self) -> &mut i16 {
        &mut self.0
    }
}

impl ::core::convert::From<i16> for Til17 {
    fn from(value: i16) -> Self {
        Self(value)
    }
}

impl ::core::convert::From<Til17> for i16 {
    fn from(value: Til17) -> Self {
        value.0
    }
}

#[asn(transparent)]

#[derive(Default, Debug, Clone, PartialEq, Hash)]
pub struct Til18(#[asn(integer(0..65535))] pub u16);

impl Til18 {
    pub const fn value_min() -> u16 {
        0
    }

    pub const fn value_max() -> u16 {
        65_535
    }
}

impl Til18 {
    pub const fn new(value: u16) -> Self {
        Self(value)
    }
}

impl ::core::ops::Deref for Til18 {
    type Target = u16;

    fn deref(&self) -> &u16 {
        &self.0
    }
}

impl ::core::ops::DerefMut for Til18 {
    fn deref_mut(&mut self) -> &mut u16 {
        &mut self.0
    }
}

impl ::core::convert::From<u16> for Til18 {
    fn from(value: u16) -> Self {
        Self(value)
    }
}

impl ::core::convert::From<Til18> for u16 {
    fn from(value: Til18) -> Self {
        value.0
    }
}

#[asn(transparent)]

#[derive(Default, Debug, Clone, PartialEq, Hash)]
pub struct Til20(#[asn(integer(-32768..32767))] pub i16);

impl Til20 {
    pub const fn value_min() -> i16 {
        -32_768
    }

    pub const fn value_max() -> i16 {
        32_767
    }
}

impl Til20 {
    pub const fn new(value: i16) -> Self {
        Self(value)
    }
}

impl ::core::ops::Deref for Til20 {
    type Target = i16;

    fn deref(&self) -> &i16 {
        &self.0
    }
}

impl ::core::ops::DerefMut for Til20 {
    fn deref_mut(&mut self) -> &mut i16 {
        &mut self.0
    }
}

impl ::core::convert::From<i16> for Til20 {
    fn from(value: i16) -> Self {
        Self(value)
    }
}

impl ::core::convert::From<Til20> for i16 {
    fn from(value: Til20) -> Self {
        value.0
    }
}

#[asn(transparent)]

#[derive(Default, Debug, Clone, PartialEq, Hash)]
pub struct Til21(#[asn(integer(0..4294967295))] pub u32);

impl Til21 {
    pub const fn value_min() -> u32 {
        0
    }

    pub const fn value_max() -> u32 {
        4_294_967_295
    }
}

impl Til21 {
    pub const fn new(value: u32) -> Self {
        Self(value)
    }
}

impl ::core::ops::Deref for Til21 {
    type Target = u32;

    fn deref(&self) -> &u32 {
        &self.0
    }
}

impl ::core::ops::DerefMut for Til21 {
    fn deref_mut(&mut self) -> &mut u32 {
        &mut self.0
    }
}

impl ::core::convert::From<u32> for Til21 {
    fn from(value: u32) -> Self {
        Self(value)
    }
}

impl ::core::convert::From<Til21> for u32 {
    fn from(value: Til21) -> Self {
        value.0
    }
}

#[asn(transparent)]

#[derive(Default, Debug, Clone, PartialEq, Hash)]
pub struct Til23(#[asn(integer(-2147483648..2147483647))] pub i32);

impl Til23 {
    pub const fn value_min() -> i32 {
        -2_147_483_648
    }

    pub const fn value_max() -> i32 {
        2_147_483_647
    }
}

impl Til23 {
    pub const fn new(value: i32) -> Self {
        Self(value)
    }
}

impl ::core::ops::Deref for Til23 {
    type Target = i32;

    fn deref(&self) -> &i32 {
        &self.0
    }
}

impl ::core::ops::DerefMut for Til23 {
    fn deref_mut(&mut self) -> &mut i32 {
        &mut self.0
    }
}

impl ::core::convert::From<i32> for Til23 {
    fn from(value: i32) -> Self {
        Self(value)
    }
}

impl ::core::convert::From<Til23> for i32 {
    fn from(value: Til23) -> Self {
        value.0
    }
}

#[asn(transparent)]

#[derive(Default, Debug, Clone, PartialEq, Hash)]
pub struct Til25(#[asn(integer(-9223372036854775808..9223372036854775807))] pub i64);

impl Til25 {
    pub const fn value_min() -> i64 {
        -9_223_372_036_854_775_808
    }

    pub const fn value_max() -> i64 {
        9_223_372_036_854_775_807
    }
}

impl Til25 {
    pub const fn new(value: i64) -> Self {
        Self(value)
    }
}

impl ::core::ops::Deref for Til25 {
    type Target = i64;

    fn deref(&self) -> &i64 {
        &self.0
    }
}

impl ::core::ops::DerefMut for Til25 {
    fn deref_mut(&mut self) -> &mut i64 {
        &mut self.0
    }
}

impl ::core::convert::From<i64> for Til25 {
    fn from(value: i64) -> Self {
        Self(value)
    }
}

impl ::core::convert::From<Til25> for i64 {
    fn from(value: Til25) -> Self {
        value.0
    }
}

#[asn(transparent)]

#[derive(Default, Debug, Clone, PartialEq, Hash)]
pub struct Tis0(#[asn(integer(1..9223372036854775807))] pub u64);

impl Tis0 {
    pub const fn value_min() -> u64 {
        1
    }

    pub const fn value_max() -> u64 {
        9_223_372_036_854_775_807
    }
}

impl Tis0 {
    pub const fn new(value: u64) -> Self {
        Self(value)
    }
}

impl ::core::ops::Deref for Tis0 {
    type Target = u64;

    fn deref(&self) -> &u64 {
        &self.0
    }
}

impl ::core::ops::DerefMut for Tis0 {
    fn deref_mut(&mut self) -> &mut u64 {
        &mut self.0
    }
}

impl ::core::convert::From<u64> for Tis0 {
    fn from(value: u64) -> Self {
        Self(value)
    }
}

impl ::core::convert::From<Tis0> for u64 {
    fn from(value: Tis0) -> Self {
        value.0
    }
}

#[asn(transparent)]

#[derive(Default, Debug, Clone, PartialEq, Hash)]
pub struct Tis1(#[asn(integer(min..max))] pub u64);

impl Tis1 {
    pub const fn value_min() -> u64 {
        0
    }

    pub const fn value_max() -> u64 {
        9_223_372_036_854_775_807
    }
}

impl Tis1 {
    pub const fn new(value: u64) -> Self {
        Self(value)
    }
}

impl ::core::ops::Deref for Tis1 {
    type Target = u64;

    fn deref(&self) -> &u64 {
        &self.0
    }
}

impl ::core::ops::DerefMut for Tis1 {
    fn deref_mut(&mut self) -> &mut u64 {
        &mut self.0
    }
}

impl ::core::convert::From<u64> for Tis1 {
    fn from(value: u64) -> Self {
        Self(value)
    }
}

impl ::core::convert::From<Tis1> for u64 {
    fn from(value: Tis1) -> Self {
        value.0
    }
}

#[asn(transparent)]

#[derive(Default, Debug, Clone, PartialEq, Hash)]
pub struct Tis3(#[asn(integer(0..5))] pub u8);

impl Tis3 {
    pub const fn value_min() -> u8 {
        0
    }

    pub const fn value_max() -> u8 {
        5
    }
}

impl Tis3 {
    pub const fn new(value: u8) -> Self {
        Self(value)
    }
}

impl ::core::ops::Deref for Tis3 {
    type Target = u8;

    fn deref(&self) -> &u8 {
        &self.0
    }
}

impl ::core::ops::DerefMut for Tis3 {
    fn deref_mut(&mut self) -> &mut u8 {
        &mut self.0
    }
}

impl ::core::convert::From<u8> for Tis3 {
    fn from(value: u8) -> Self {
        Self(value)
    }
}

impl ::core::convert::From<Tis3> for u8 {
    fn from(value: Tis3) -> Self {
        value.0
    }
}

#[asn(transparent)]

#[derive(Default, Debug, Clone, PartialEq, Hash)]
pub struct Tix0(#[asn(integer(0..7,...))] pub u64);

impl Tix0 {
    pub const fn value_min() -> u64 {
        0
    }

    pub const fn value_max() -> u64 {
        7
    }
}

impl Tix0 {
    pub const fn new(value: u64) -> Self {
        Self(value)
    }
}

impl ::core::ops::Deref for Tix0 {
    type Target = u64;

    fn deref(&self) -> &u64 {
        &self.0
    }
}

impl ::core::ops::DerefMut for Tix0 {
    fn deref_mut(&mut self) -> &mut u64 {
        &mut self.0
    }
}

impl ::core::convert::From<u64> for Tix0 {
    fn from(value: u64) -> Self {
        Self(value)
    }
}

impl ::core::convert::From<Tix0> for u64 {
    fn from(value: Tix0) -> Self {
        value.0
    }
}

#[asn(transparent)]

#[derive(Default, Debug, Clone, PartialEq, Hash)]
pub struct Tix1(#[asn(integer(0..255,...))] pub u64);

impl Tix1 {
    pub const fn value_min() -> u64 {
        0
    }

    pub const fn value_max() -> u64 {
        255
    }
}

impl Tix1 {
    pub const fn new(value: u64) -> Self {
        Self(value)
    }
}

impl ::core::ops::Deref for Tix1 {
    type Target = u64;

    fn deref(&self) -> &u64 {
        &self.0
    }
}

impl ::core::ops::DerefMut for Tix1 {
    fn deref_mut(&mut self) -> &mut u64 {
        &mut self.0
    }
}

impl ::core::convert::From<u64> for Tix1 {
    fn from(value: u64) -> Self {
        Self(value)
    }
}

impl ::core::convert::From<Tix1> for u64 {
    fn from(value: Tix1) -> Self {
        value.0
    }
}

#[asn(transparent)]

#[derive(Default, Debug, Clone, PartialEq, Hash)]
pub struct Tix2(#[asn(integer(-5..5,...))] pub i64);

impl Tix2 {
    pub const fn value_min() -> i64 {
        -5
    }

    pub const fn value_max() -> i64 {
        5
    }
}

impl Tix2 {
    pub const fn new(value: i64) -> Self {
        Self(value)
    }
}

impl ::core::ops::Deref for Tix2 {
    type Target = i64;

    fn deref(&self) -> &i64 {
        &self.0
    }
}

impl ::core::ops::DerefMut for Tix2 {
    fn deref_mut(&mut self) -> &mut i64 {
        &mut self.0
    }
}

impl ::core::convert::From<i64> for Tix2 {
    fn from(value: i64) -> Self {
        Self(value)
    }
}

impl ::core::convert::From<Tix2> for i64 {
    fn from(value: Tix2) -> Self {
        value.0
    }
}

#[asn(enumerated)]

#[derive(Debug, Clone, PartialEq, Hash, Copy, PartialOrd, Eq, Default)]
pub enum Ten2 {
    #[default] E0,
    E1,
}

impl Ten2 {
    pub fn variant(index: usize) -> Option<Self> {
        match index {
            0 => Some(Ten2::E0),
            1 => Some(Ten2::E1),
            _ => None,
        }
    }

    pub const fn variants() -> [Self; 2] {
        [
        Ten2::E0,
        Ten2::E1,
        ]
    }

    pub fn value_index(self) -> usize {
        match self {
            Ten2::E0 => 0,
            Ten2::E1 => 1,
        }
    }
}

#[asn(enumerated)]

#[derive(Debug, Clone, PartialEq, Hash, Copy, PartialOrd, Eq, Default)]
pub enum Ten5 {
    #[default] E0,
    E1,
    E2,
    E3,
    E4,
}

impl Ten5 {
    pub fn variant(index: usize) -> Option<Self> {
        match index {
            0 => Some(Ten5::E0),
            1 => Some(Ten5::E1),
            2 => Some(Ten5::E2),
            3 => Some(Ten5::E3),
            4 => Some(Ten5::E4),
            _ => None,
        }
    }

    pub const fn variants() -> [Self; 5] {
        [
        Ten5::E0,
        Ten5::E1,
        Ten5::E2,
        Ten5::E3,
        Ten5::E4,
        ]
    }

    pub fn value_index(self) -> usize {
        match self {
            Ten5::E0 => 0,
            Ten5::E1 => 1,
            Ten5::E2 => 2,
            Ten5::E3 => 3,
            Ten5::E4 => 4,
        }
    }
}

#[asn(enumerated, extensible_after(C))]

#[derive(Debug, Clone, PartialEq, Hash, Copy, PartialOrd, Eq, Default)]
pub enum Tex1 {
    #[default] A,
    B,
    C,
    D,
}

impl Tex1 {
    pub fn variant(index: usize) -> Option<Self> {
        match index {
            0 => Some(Tex1::A),
            1 => Some(Tex1::B),
            2 => Some(Tex1::C),
            3 => Some(Tex1::D),
            _ => None,
        }
    }

    pub const fn variants() -> [Self; 4] {
        [
        Tex1::A,
        Tex1::B,
        Tex1::C,
        Tex1::D,
        ]
    }

    pub fn value_index(self) -> usize {
        match self {
            Tex1::A => 0,
            Tex1::B => 1,
            Tex1::C => 2,
            Tex1::D => 3,
        }
    }
}

#[asn(enumerated)]

#[derive(Debug, Clone, PartialEq, Hash, Copy, PartialOrd, Eq, Default)]
pub enum Tenum {
    #[default] A,
    B,
    C,
}

impl Tenum {
    pub fn variant(index: usize) -> Option<Self> {
        match index {
            0 => Some(Tenum::A),
            1 => Some(Tenum::B),
            2 => Some(Tenum::C),
            _ => None,
        }
    }

    pub const fn variants() -> [Self; 3] {
        [
        Tenum::A,
        Tenum::B,
        Tenum::C,
        ]
    }

    pub fn value_index(self) -> usize {
        match self {
            Tenum::A => 0,
            Tenum::B => 1,
            Tenum::C => 2,
        }
    }
}

#[asn(transparent)]

#[derive(Default, Debug, Clone, PartialEq, Hash)]
pub struct Tbool(#[asn(boolean)] pub bool);

impl Tbool {
}

impl Tbool {
    pub const fn new(value: bool) -> Self {
        Self(value)
    }
}

impl ::core::ops::Deref for Tbool {
    type Target = bool;

    fn deref(&self) -> &bool {
        &self.0
    }
}

impl ::core::ops::DerefMut for Tbool {
    fn deref_mut(&mut self) -> &mut bool {
        &mut self.0
    }
}

impl ::core::convert::From<bool> for Tbool {
    fn from(value: bool) -> Self {
        Self(value)
    }
}

impl ::core::convert::From<Tbool> for bool {
    fn from(value: Tbool) -> Self {
        value.0
    }
}

#[asn(transparent)]

#[derive(Default, Debug, Clone, PartialEq, Hash)]
pub struct Tnull(#[asn(null)] pub Null);

impl Tnull {
}

impl Tnull {
    pub const fn new(value: Null) -> Self {
        Self(value)
    }
}

impl ::core::ops::Deref for Tnull {
    type Target = Null;

    fn deref(&self) -> &Null {
        &self.0
    }
}

impl ::core::ops::DerefMut for Tnull {
    fn deref_mut(&mut self) -> &mut Null {
        &mut self.0
    }
}

impl ::core::convert::From<Null> for Tnull {
    fn from(value: Null) -> Self {
        Self(value)
    }
}

impl ::core::convert::From<Tnull> for Null {
    fn from(value: Tnull) -> Self {
        value.0
    }
}
// ---- harness conversions (generated by the zoo build script from the items above) ----
impl FromValue for Tiun { fn from_value(v: &Value) -> Self { Tiun(FromValue::from_value(v)) } }
impl ToValue for Tiun { fn to_value(&self) -> Value { self.0.to_value() } }
impl FromValue for Til0 { fn from_value(v: &Value) -> Self { Til0(FromValue::from_value(v)) } }
impl ToValue for Til0 { fn to_value(&self) -> Value { self.0.to_value() } }
impl FromValue for Til2 { fn from_value(v: &Value) -> Self { Til2(FromValue::from_value(v)) } }
impl ToValue for Til2 { fn to_value(&self) -> Value { self.0.to_value() } }
impl FromValue for Til6 { fn from_value(v: &Value) -> Self { Til6(FromValue::from_value(v)) } }
impl ToValue for Til6 { fn to_value(&self) -> Value { self.0.to_value() } }
impl FromValue for Til9 { fn from_value(v: &Value) -> Self { Til9(FromValue::from_value(v)) } }
impl ToValue for Til9 { fn to_value(&self) -> Value { self.0.to_value() } }
impl FromValue for Til13 { fn from_value(v: &Value) -> Self { Til13(FromValue::from_value(v)) } }
impl ToValue for Til13 { fn to_value(&self) -> Value { self.0.to_value() } }
impl FromValue for Til14 { fn from_value(v: &Value) -> Self { Til14(FromValue::from_value(v)) } }
impl ToValue for Til14 { fn to_value(&self) -> Value { self.0.to_value() } }
impl FromValue for Til16 { fn from_value(v: &Value) -> Self { Til16(FromValue::from_value(v)) } }
impl ToValue for Til16 { fn to_value(&self) -> Value { self.0.to_value() } }
impl FromValue for Til17 { fn from_value(v: &Value) -> Self { Til17(FromValue::from_value(v)) } }
impl ToValue for Til17 { fn to_value(&self) -> Value { self.0.to_value() } }
impl FromValue for Til18 { fn from_value(v: &Value) -> Self { Til18(FromValue::from_value(v)) } }
impl ToValue for Til18 { fn to_value(&self) -> Value { self.0.to_value() } }
impl FromValue for Til20 { fn from_value(v: &Value) -> Self { Til20(FromValue::from_value(v)) } }
impl ToValue for Til20 { fn to_value(&self) -> Value { self.0.to_value() } }
impl FromValue for Til21 { fn from_value(v: &Value) -> Self { Til21(FromValue::from_value(v)) } }
impl ToValue for Til21 { fn to_value(&self) -> Value { self.0.to_value() } }
impl FromValue for Til23 { fn from_value(v: &Value) -> Self { Til23(FromValue::from_value(v)) } }
impl ToValue for Til23 { fn to_value(&self) -> Value { self.0.to_value() } }
impl FromValue for Til25 { fn from_value(v: &Value) -> Self { Til25(FromValue::from_value(v)) } }
impl ToValue for Til25 { fn to_value(&self) -> Value { self.0.to_value() } }
impl FromValue for Tis0 { fn from_value(v: &Value) -> Self { Tis0(FromValue::from_value(v)) } }
impl ToValue for Tis0 { fn to_value(&self) -> Value { self.0.to_value() } }
impl FromValue for Tis1 { fn from_value(v: &Value) -> Self { Tis1(FromValue::from_value(v)) } }
impl ToValue for Tis1 { fn to_value(&self) -> Value { self.0.to_value() } }
impl FromValue for Tis3 { fn from_value(v: &Value) -> Self { Tis3(FromValue::from_value(v)) } }
impl ToValue for Tis3 { fn to_value(&self) -> Value { self.0.to_value() } }
impl FromValue for Tix0 { fn from_value(v: &Value) -> Self { Tix0(FromValue::from_value(v)) } }
impl ToValue for Tix0 { fn to_value(&self) -> Value { self.0.to_value() } }
impl FromValue for Tix1 { fn from_value(v: &Value) -> Self { Tix1(FromValue::from_value(v)) } }
impl ToValue for Tix1 { fn to_value(&self) -> Value { self.0.to_value() } }
impl FromValue for Tix2 { fn from_value(v: &Value) -> Self { Tix2(FromValue::from_value(v)) } }
impl ToValue for Tix2 { fn to_value(&self) -> Value { self.0.to_value() } }
impl FromValue for Ten2 {
    fn from_value(v: &Value) -> Self {
        match v {
            Value::Enum(0) => Ten2::E0,
            Value::Enum(1) => Ten2::E1,
            other => panic!("Ten2: bad enum value {other:?}"),
        }
    }
}
impl ToValue for Ten2 {
    fn to_value(&self) -> Value {
        match self {
            Ten2::E0 => Value::Enum(0),
            Ten2::E1 => Value::Enum(1),
        }
    }
}
impl FromValue for Ten5 {
    fn from_value(v: &Value) -> Self {
        match v {
            Value::Enum(0) => Ten5::E0,
            Value::Enum(1) => Ten5::E1,
            Value::Enum(2) => Ten5::E2,
            Value::Enum(3) => Ten5::E3,
            Value::Enum(4) => Ten5::E4,
            other => panic!("Ten5: bad enum value {other:?}"),
        }
    }
}
impl ToValue for Ten5 {
    fn to_value(&self) -> Value {
        match self {
            Ten5::E0 => Value::Enum(0),
            Ten5::E1 => Value::Enum(1),
            Ten5::E2 => Value::Enum(2),
            Ten5::E3 => Value::Enum(3),
            Ten5::E4 => Value::Enum(4),
        }
    }
}
impl FromValue for Tex1 {
    fn from_value(v: &Value) -> Self {
        match v {
            Value::Enum(0) => Tex1::A,
            Value::Enum(1) => Tex1::B,
            Value::Enum(2) => Tex1::C,
            Value::Enum(3) => Tex1::D,
            other => panic!("Tex1: bad enum value {other:?}"),
        }
    }
}
impl ToValue for Tex1 {
    fn to_value(&self) -> Value {
        match self {
            Tex1::A => Value::Enum(0),
            Tex1::B => Value::Enum(1),
            Tex1::C => Value::Enum(2),
            Tex1::D => Value::Enum(3),
        }
    }
}
impl FromValue for Tenum {
    fn from_value(v: &Value) -> Self {
        match v {
            Value::Enum(0) => Tenum::A,
            Value::Enum(1) => Tenum::B,
            Value::Enum(2) => Tenum::C,
            other => panic!("Tenum: bad enum value {other:?}"),
        }
    }
}
impl ToValue for Tenum {
    fn to_value(&self) -> Value {
        match self {
            Tenum::A => Value::Enum(0),
            Tenum::B => Value::Enum(1),
            Tenum::C => Value::Enum(2),
        }
    }
}
impl FromValue for Tbool { fn from_value(v: &Value) -> Self { Tbool(FromValue::from_value(v)) } }
impl ToValue for Tbool { fn to_value(&self) -> Value { self.0.to_value() } }
impl FromValue for Tnull { fn from_value(v: &Value) -> Self { Tnull(FromValue::from_value(v)) } }
impl ToValue for Tnull { fn to_value(&self) -> Value { self.0.to_value() } }

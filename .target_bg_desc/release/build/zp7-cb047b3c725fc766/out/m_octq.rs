use asn1rs::prelude::*;

#[asn(transparent)]

#[derive(Default, Debug, Clone, PartialEq, Hash)]
pub struct Toctany(#[asn(octet_string)] pub Vec<u8>);

impl Toctany {
}

impl Toctany {
    pub const fn new(value: Vec<u8>) -> Self {
        Self(value)
    }
}

impl ::core::ops::Deref for Toctany {
    type Target = Vec<u8>;

    fn deref(&self) -> &Vec<u8> {
        &self.0
    }
}

impl ::core::ops::DerefMut for Toctany {
    fn deref_mut(&mut self) -> &mut Vec<u8> {
        &mut self.0
    }
}

impl ::core::convert::From<Vec<u8>> for Toctany {
    fn from(value: Vec<u8>) -> Self {
        Self(value)
    }
}

impl ::core::convert::From<Toctany> for Vec<u8> {
    fn from(value: Toctany) -> Self {
        value.0
    }
}

#[asn(transparent)]

#[derive(Default, Debug, Clone, PartialEq, Hash)]
pub struct Toctf1(#[asn(octet_string(size(1)))] pub Vec<u8>);

impl Toctf1 {
}

impl Toctf1 {
    pub const fn new(value: Vec<u8>) -> Self {
        Self(value)
    }
}

impl ::core::ops::Deref for Toctf1 {
    type Target = Vec<u8>;

    fn deref(&self) -> &Vec<u8> {
        &self.0
    }
}

impl ::core::ops::DerefMut for Toctf1 {
    fn deref_mut(&mut self) -> &mut Vec<u8> {
        &mut self.0
    }
}

impl ::core::convert::From<Vec<u8>> for Toctf1 {
    fn from(value: Vec<u8>) -> Self {
        Self(value)
    }
}

impl ::core::convert::From<Toctf1> for Vec<u8> {
    fn from(value: Toctf1) -> Self {
        value.0
    }
}

#[asn(transparent)]

#[derive(Default, Debug, Clone, PartialEq, Hash)]
pub struct Toctf3(#[asn(octet_string(size(3)))] pub Vec<u8>);

impl Toctf3 {
}

impl Toctf3 {
    pub const fn new(value: Vec<u8>) -> Self {
        Self(value)
    }
}

impl ::core::ops::Deref for Toctf3 {
    type Target = Vec<u8>;

    fn deref(&self) -> &Vec<u8> {
        &self.0
    }
}

impl ::core::ops::DerefMut for Toctf3 {
    fn deref_mut(&mut self) -> &mut Vec<u8> {
        &mut self.0
    }
}

impl ::core::convert::From<Vec<u8>> for Toctf3 {
    fn from(value: Vec<u8>) -> Self {
        Self(value)
    }
}

impl ::core::convert::From<Toctf3> for Vec<u8> {
    fn from(value: Toctf3) -> Self {
        value.0
    }
}

#[asn(transparent)]

#[derive(Default, Debug, Clone, PartialEq, Hash)]
pub struct Toctf65535(#[asn(octet_string(size(65535)))] pub Vec<u8>);

impl Toctf65535 {
}

impl Toctf65535 {
    pub const fn new(value: Vec<u8>) -> Self {
        Self(value)
    }
}

impl ::core::ops::Deref for Toctf65535 {
    type Target = Vec<u8>;

    fn deref(&self) -> &Vec<u8> {
        &self.0
    }
}

impl ::core::ops::DerefMut for Toctf65535 {
    fn deref_mut(&mut self) -> &mut Vec<u8> {
        &mut self.0
    }
}

impl ::core::convert::From<Vec<u8>> for Toctf65535 {
    fn from(value: Vec<u8>) -> Self {
        Self(value)
    }
}

impl ::core::convert::From<Toctf65535> for Vec<u8> {
    fn from(value: Toctf65535) -> Self {
        value.0
    }
}

#[asn(transparent)]

#[derive(Default, Debug, Clone, PartialEq, Hash)]
pub struct Toctf65536(#[asn(octet_string(size(65536)))] pub Vec<u8>);

impl Toctf65536 {
}

impl Toctf65536 {
    pub const fn new(value: Vec<u8>) -> Self {
        Self(value)
    }
}

impl ::core::ops::Deref for Toctf65536 {
    type Target = Vec<u8>;

    fn deref(&self) -> &Vec<u8> {
        &self.0
    }
}

impl ::core::ops::DerefMut for Toctf65536 {
    fn deref_mut(&mut self) -> &mut Vec<u8> {
        &mut self.0
    }
}

impl ::core::convert::From<Vec<u8>> for Toctf65536 {
    fn from(value: Vec<u8>) -> Self {
        Self(value)
    }
}

impl ::core::convert::From<Toctf65536> for Vec<u8> {
    fn from(value: Toctf65536) -> Self {
        value.0
    }
}

#[asn(transparent)]

#[derive(Default, Debug, Clone, PartialEq, Hash)]
pub struct Toctr1to4(#[asn(octet_string(size(1..4)))] pub Vec<u8>);

impl Toctr1to4 {
}

impl Toctr1to4 {
    pub const fn new(value: Vec<u8>) -> Self {
        Self(value)
    }
}

impl ::core::ops::Deref for Toctr1to4 {
    type Target = Vec<u8>;

    fn deref(&self) -> &Vec<u8> {
        &self.0
    }
}

impl ::core::ops::DerefMut for Toctr1to4 {
    fn deref_mut(&mut self) -> &mut Vec<u8> {
        &mut self.0
    }
}

impl ::core::convert::From<Vec<u8>> for Toctr1to4 {
    fn from(value: Vec<u8>) -> Self {
        Self(value)
    }
}

impl ::core::convert::From<Toctr1to4> for Vec<u8> {
    fn from(value: Toctr1to4) -> Self {
        value.0
    }
}

#[asn(transparent)]

#[derive(Default, Debug, Clone, PartialEq, Hash)]
pub struct Toctr4to6(#[asn(octet_string(size(4..6)))] pub Vec<u8>);

impl Toctr4to6 {
}

impl Toctr4to6 {
    pub const fn new(value: Vec<u8>) -> Self {
        Self(value)
    }
}

impl ::core::ops::Deref for Toctr4to6 {
    type Target = Vec<u8>;

    fn deref(&self) -> &Vec<u8> {
        &self.0
    }
}

impl ::core::ops::DerefMut for Toctr4to6 {
    fn deref_mut(&mut self) -> &mut Vec<u8> {
        &mut self.0
    }
}

impl ::core::convert::From<Vec<u8>> for Toctr4to6 {
    fn from(value: Vec<u8>) -> Self {
        Self(value)
    }
}

impl ::core::convert::From<Toctr4to6> for Vec<u8> {
    fn from(value: Toctr4to6) -> Self {
        value.0
    }
}

#[asn(transparent)]

#[derive(Default, Debug, Clone, PartialEq, Hash)]
pub struct Toctr1to70000(#[asn(octet_string(size(1..70000)))] pub Vec<u8>);

impl Toctr1to70000 {
}

impl Toctr1to70000 {
    pub const fn new(value: Vec<u8>) -> Self {
        Self(value)
    }
}

impl ::core::ops::Deref for Toctr1to70000 {
    type Target = Vec<u8>;

    fn deref(&self) -> &Vec<u8> {
        &self.0
    }
}

impl ::core::ops::DerefMut for Toctr1to70000 {
    fn deref_mut(&mut self) -> &mut Vec<u8> {
        &mut self.0
    }
}

impl ::core::convert::From<Vec<u8>> for Toctr1to70000 {
    fn from(value: Vec<u8>) -> Self {
        Self(value)
    }
}

impl ::core::convert::From<Toctr1to70000> for Vec<u8> {
    fn from(value: Toctr1to70000) -> Self {
        value.0
    }
}

#[asn(transparent)]

#[derive(Default, Debug, Clone, PartialEq, Hash)]
pub struct Toctr2tomax(#[asn(octet_string(size(2..9223372036854775807)))] pub Vec<u8>);

impl Toctr2tomax {
}

impl Toctr2tomax {
    pub const fn new(value: Vec<u8>) -> Self {
        Self(value)
    }
}

impl ::core::ops::Deref for Toctr2tomax {
    type Target = Vec<u8>;

    fn deref(&self) -> &Vec<u8> {
        &self.0
    }
}

impl ::core::ops::DerefMut for Toctr2tomax {
    fn deref_mut(&mut self) -> &mut Vec<u8> {
        &mut self.0
    }
}

impl ::core::convert::From<Vec<u8>> for Toctr2tomax {
    fn from(value: Vec<u8>) -> Self {
        Self(value)
    }
}

impl ::core::convert::From<Toctr2tomax> for Vec<u8> {
    fn from(value: Toctr2tomax) -> Self {
        value.0
    }
}

#[asn(transparent)]

#[derive(Default, Debug, Clone, PartialEq, Hash)]
pub struct Toctf3x(#[asn(octet_string(size(3,...)))] pub Vec<u8>);

impl Toctf3x {
}

impl Toctf3x {
    pub const fn new(value: Vec<u8>) -> Self {
        Self(value)
    }
}

impl ::core::ops::Deref for Toctf3x {
    type Target = Vec<u8>;

    fn deref(&self) -> &Vec<u8> {
        &self.0
    }
}

impl ::core::ops::DerefMut for Toctf3x {
    fn deref_mut(&mut self) -> &mut Vec<u8> {
        &mut self.0
    }
}

impl ::core::convert::From<Vec<u8>> for Toctf3x {
    fn from(value: Vec<u8>) -> Self {
        Self(value)
    }
}

impl ::core::convert::From<Toctf3x> for Vec<u8> {
    fn from(value: Toctf3x) -> Self {
        value.0
    }
}

#[asn(transparent)]

#[derive(Default, Debug, Clone, PartialEq, Hash)]
pub struct Toctr1to4x(#[asn(octet_string(size(1..4,...)))] pub Vec<u8>);

impl Toctr1to4x {
}

impl Toctr1to4x {
    pub const fn new(value: Vec<u8>) -> Self {
        Self(value)
    }
}

impl ::core::ops::Deref for Toctr1to4x {
    type Target = Vec<u8>;

    fn deref(&self) -> &Vec<u8> {
        &self.0
    }
}

impl ::core::ops::DerefMut for Toctr1to4x {
    fn deref_mut(&mut self) -> &mut Vec<u8> {
        &mut self.0
    }
}

impl ::core::convert::From<Vec<u8>> for Toctr1to4x {
    fn from(value: Vec<u8>) -> Self {
        Self(value)
    }
}

impl ::core::convert::From<Toctr1to4x> for Vec<u8> {
    fn from(value: Toctr1to4x) -> Self {
        value.0
    }
}
// ---- harness conversions (generated by the zoo build script from the items above) ----
impl FromValue for Toctany { fn from_value(v: &Value) -> Self { Toctany(FromValue::from_value(v)) } }
impl ToValue for Toctany { fn to_value(&self) -> Value { self.0.to_value() } }
impl FromValue for Toctf1 { fn from_value(v: &Value) -> Self { Toctf1(FromValue::from_value(v)) } }
impl ToValue for Toctf1 { fn to_value(&self) -> Value { self.0.to_value() } }
impl FromValue for Toctf3 { fn from_value(v: &Value) -> Self { Toctf3(FromValue::from_value(v)) } }
impl ToValue for Toctf3 { fn to_value(&self) -> Value { self.0.to_value() } }
impl FromValue for Toctf65535 { fn from_value(v: &Value) -> Self { Toctf65535(FromValue::from_value(v)) } }
impl ToValue for Toctf65535 { fn to_value(&self) -> Value { self.0.to_value() } }
impl FromValue for Toctf65536 { fn from_value(v: &Value) -> Self { Toctf65536(FromValue::from_value(v)) } }
impl ToValue for Toctf65536 { fn to_value(&self) -> Value { self.0.to_value() } }
impl FromValue for Toctr1to4 { fn from_value(v: &Value) -> Self { Toctr1to4(FromValue::from_value(v)) } }
impl ToValue for Toctr1to4 { fn to_value(&self) -> Value { self.0.to_value() } }
impl FromValue for Toctr4to6 { fn from_value(v: &Value) -> Self { Toctr4to6(FromValue::from_value(v)) } }
impl ToValue for Toctr4to6 { fn to_value(&self) -> Value { self.0.to_value() } }
impl FromValue for Toctr1to70000 { fn from_value(v: &Value) -> Self { Toctr1to70000(FromValue::from_value(v)) } }
impl ToValue for Toctr1to70000 { fn to_value(&self) -> Value { self.0.to_value() } }
impl FromValue for Toctr2tomax { fn from_value(v: &Value) -> Self { Toctr2tomax(FromValue::from_value(v)) } }
impl ToValue for Toctr2tomax { fn to_value(&self) -> Value { self.0.to_value() } }
impl FromValue for Toctf3x { fn from_value(v: &Value) -> Self { Toctf3x(FromValue::from_value(v)) } }
impl ToValue for Toctf3x { fn to_value(&self) -> Value { self.0.to_value() } }
impl FromValue for Toctr1to4x { fn from_value(v: &Value) -> Self { Toctr1to4x(FromValue::from_value(v)) } }
impl ToValue for Toctr1to4x { fn to_value(&self) -> Value { self.0.to_value() } }

use asn1rs::prelude::*;

#[asn(sequence)]

#[derive(Default, Debug, Clone, PartialEq, Hash)]
pub struct Tplain {
    #[asn(integer(0..7))] pub p: u8,
    #[asn(boolean)] pub q: bool,
}

impl Tplain {
    pub const fn p_min() -> u8 {
        0
    }

    pub const fn p_max() -> u8 {
        7
    }
}

#[asn(transparent)]

#[derive(Default, Debug, Clone, PartialEq, Hash)]
pub struct Tsmall(#[asn(integer(0..255))] pub u8);

impl Tsmall {
    pub const fn value_min() -> u8 {
        0
    }

    pub const fn value_max() -> u8 {
        255
    }
}

impl Tsmall {
    pub const fn new(value: u8) -> Self {
        Self(value)
    }
}

impl ::core::ops::Deref for Tsmall {
    type Target = u8;

    fn deref(&self) -> &u8 {
        &self.0
    }
}

impl ::core::ops::DerefMut for Tsmall {
    fn deref_mut(&mut self) -> &mut u8 {
        &mut self.0
    }
}

impl ::core::convert::From<u8> for Tsmall {
    fn from(value: u8) -> Self {
        Self(value)
    }
}

impl ::core::convert::From<Tsmall> for u8 {
    fn from(value: Tsmall) -> Self {
        value.0
    }
}

#[asn(choice)]

#[derive(Debug, Clone, PartialEq, Hash)]
pub enum Tchoice {
    #[asn(integer(0..7))] I(u8),
    #[asn(boolean)] B(bool),
}

impl Tchoice {
    pub fn variants() -> [Self; 2] {
        [
        Tchoice::I(Default::default()),
        Tchoice::B(Default::default()),
        ]
    }

    pub fn value_index(&self) -> usize {
        match self {
            Tchoice::I(_) => 0,
            Tchoice::B(_) => 1,
        }
    }

    pub const fn i_min() -> u8 {
        0
    }

    pub const fn i_max() -> u8 {
        7
    }
}

impl Default for Tchoice {
    fn default() -> Tchoice {
        Tchoice::I(Default::default())
    }
}

#[asn(set)]

#[derive(Default, Debug, Clone, PartialEq, Hash)]
pub struct Tq1mn {
    #[asn(complex(Tplain, tag(UNIVERSAL(16))))] pub f0: Tplain,
}

impl Tq1mn {
}

#[asn(set, extensible_after(f0))]

#[derive(Default, Debug, Clone, PartialEq, Hash)]
pub struct Tq1me0 {
    #[asn(complex(Tplain, tag(UNIVERSAL(16))))] pub f0: Tplain,
}

impl Tq1me0 {
}

#[asn(set, extensible_after(f0))]

#[derive(Default, Debug, Clone, PartialEq, Hash)]
pub struct Tq1me1 {
    #[asn(complex(Tplain, tag(UNIVERSAL(16))))] pub f0: Tplain,
}

impl Tq1me1 {
}

#[asn(set)]

#[derive(Default, Debug, Clone, PartialEq, Hash)]
pub struct Tq1on {
    #[asn(optional(complex(Tplain, tag(UNIVERSAL(16)))))] pub f0: Option<Tplain>,
}

impl Tq1on {
}

#[asn(set, extensible_after(f0))]

#[derive(Default, Debug, Clone, PartialEq, Hash)]
pub struct Tq1oe0 {
    #[asn(optional(complex(Tplain, tag(UNIVERSAL(16)))))] pub f0: Option<Tplain>,
}

impl Tq1oe0 {
}

#[asn(set, extensible_after(f0))]

#[derive(Default, Debug, Clone, PartialEq, Hash)]
pub struct Tq1oe1 {
    #[asn(optional(complex(Tplain, tag(UNIVERSAL(16)))))] pub f0: Option<Tplain>,
}

impl Tq1oe1 {
}

#[asn(set)]

#[derive(Default, Debug, Clone, PartialEq, Hash)]
pub struct Tq2mmn {
    #[asn(complex(Tplain, tag(UNIVERSAL(16))))] pub f0: Tplain,
    #[asn(complex(Tchoice, tag(UNIVERSAL(1))))] pub f1: Tchoice,
}

impl Tq2mmn {
}

#[asn(set, extensible_after(f0))]

#[derive(Default, Debug, Clone, PartialEq, Hash)]
pub struct Tq2mme0 {
    #[asn(complex(Tplain, tag(UNIVERSAL(16))))] pub f0: Tplain,
    #[asn(optional(complex(Tchoice, tag(UNIVERSAL(1)))))] pub f1: Option<Tchoice>,
}

impl Tq2mme0 {
}

#[asn(set, extensible_after(f0))]

#[derive(Default, Debug, Clone, PartialEq, Hash)]
pub struct Tq2mme1 {
    #[asn(complex(Tplain, tag(UNIVERSAL(16))))] pub f0: Tplain,
    #[asn(optional(complex(Tchoice, tag(UNIVERSAL(1)))))] pub f1: Option<Tchoice>,
}

impl Tq2mme1 {
}

#[asn(set, extensible_after(f1))]

#[derive(Default, Debug, Clone, PartialEq, Hash)]
pub struct Tq2mme2 {
    #[asn(complex(Tplain, tag(UNIVERSAL(16))))] pub f0: Tplain,
    #[asn(complex(Tchoice, tag(UNIVERSAL(1))))] pub f1: Tchoice,
}

impl Tq2mme2 {
}

#[asn(set)]

#[derive(Default, Debug, Clone, PartialEq, Hash)]
pub struct Tq2omn {
    #[asn(optional(complex(Tplain, tag(UNIVERSAL(16)))))] pub f0: Option<Tplain>,
    #[asn(complex(Tchoice, tag(UNIVERSAL(1))))] pub f1: Tchoice,
}

impl Tq2omn {
}

#[asn(set, extensible_after(f0))]

#[derive(Default, Debug, Clone, PartialEq, Hash)]
pub struct Tq2ome0 {
    #[asn(optional(complex(Tplain, tag(UNIVERSAL(16)))))] pub f0: Option<Tplain>,
    #[asn(optional(complex(Tchoice, tag(UNIVERSAL(1)))))] pub f1: Option<Tchoice>,
}

impl Tq2ome0 {
}

#[asn(set, extensible_after(f0))]

#[derive(Default, Debug, Clone, PartialEq, Hash)]
pub struct Tq2ome1 {
    #[asn(optional(complex(Tplain, tag(UNIVERSAL(16)))))] pub f0: Option<Tplain>,
    #[asn(optional(complex(Tchoice, tag(UNIVERSAL(1)))))] pub f1: Option<Tchoice>,
}

impl Tq2ome1 {
}

#[asn(set, extensible_after(f1))]

#[derive(Default, Debug, Clone, PartialEq, Hash)]
pub struct Tq2ome2 {
    #[asn(optional(complex(Tplain, tag(UNIVERSAL(16)))))] pub f0: Option<Tplain>,
    #[asn(complex(Tchoice, tag(UNIVERSAL(1))))] pub f1: Tchoice,
}

impl Tq2ome2 {
}

#[asn(set)]

#[derive(Default, Debug, Clone, PartialEq, Hash)]
pub struct Tq2mon {
    #[asn(complex(Tplain, tag(UNIVERSAL(16))))] pub f0: Tplain,
    #[asn(optional(complex(Tchoice, tag(UNIVERSAL(1)))))] pub f1: Option<Tchoice>,
}

impl Tq2mon {
}

#[asn(set, extensible_after(f0))]

#[derive(Default, Debug, Clone, PartialEq, Hash)]
pub struct Tq2moe0 {
    #[asn(complex(Tplain, tag(UNIVERSAL(16))))] pub f0: Tplain,
    #[asn(optional(complex(Tchoice, tag(UNIVERSAL(1)))))] pub f1: Option<Tchoice>,
}

impl Tq2moe0 {
}

#[asn(set, extensible_after(f0))]

#[derive(Default, Debug, Clone, PartialEq, Hash)]
pub struct Tq2moe1 {
    #[asn(complex(Tplain, tag(UNIVERSAL(16))))] pub f0: Tplain,
    #[asn(optional(complex(Tchoice, tag(UNIVERSAL(1)))))] pub f1: Option<Tchoice>,
}

impl Tq2moe1 {
}

#[asn(set, extensible_after(f1))]

#[derive(Default, Debug, Clone, PartialEq, Hash)]
pub struct Tq2moe2 {
    #[asn(complex(Tplain, tag(UNIVERSAL(16))))] pub f0: Tplain,
    #[asn(optional(complex(Tchoice, tag(UNIVERSAL(1)))))] pub f1: Option<Tchoice>,
}

impl Tq2moe2 {
}

#[asn(set)]

#[derive(Default, Debug, Clone, PartialEq, Hash)]
pub struct Tq2oon {
    #[asn(optional(complex(Tplain, tag(UNIVERSAL(16)))))] pub f0: Option<Tplain>,
    #[asn(optional(complex(Tchoice, tag(UNIVERSAL(1)))))] pub f1: Option<Tchoice>,
}

impl Tq2oon {
}

#[asn(set, extensible_after(f0))]

#[derive(Default, Debug, Clone, PartialEq, Hash)]
pub struct Tq2ooe0 {
    #[asn(optional(complex(Tplain, tag(UNIVERSAL(16)))))] pub f0: Option<Tplain>,
    #[asn(optional(complex(Tchoice, tag(UNIVERSAL(1)))))] pub f1: Option<Tchoice>,
}

impl Tq2ooe0 {
}

#[asn(set, extensible_after(f0))]

#[derive(Default, Debug, Clone, PartialEq, Hash)]
pub struct Tq2ooe1 {
    #[asn(optional(complex(Tplain, tag(UNIVERSAL(16)))))] pub f0: Option<Tplain>,
    #[asn(optional(complex(Tchoice, tag(UNIVERSAL(1)))))] pub f1: Option<Tchoice>,
}

impl Tq2ooe1 {
}

#[asn(set, extensible_after(f1))]

#[derive(Default, Debug, Clone, PartialEq, Hash)]
pub struct Tq2ooe2 {
    #[asn(optional(complex(Tplain, tag(UNIVERSAL(16)))))] pub f0: Option<Tplain>,
    #[asn(optional(complex(Tchoice, tag(UNIVERSAL(1)))))] pub f1: Option<Tchoice>,
}

impl Tq2ooe2 {
}
// ---- harness conversions (generated by the zoo build script from the items above) ----
impl FromValue for Tplain {
    fn from_value(v: &Value) -> Self {
        let s = match v { Value::Seq(s) => s, other => panic!("Tplain: expected Seq, got {other:?}") };
        assert_eq!(s.len(), 2, "Tplain: component count");
        let _ = s;
        Tplain {
            p: FromValue::from_value(s[0].as_ref().expect("component p of Tplain must be present")),
            q: FromValue::from_value(s[1].as_ref().expect("component q of Tplain must be present")),
        }
    }
}
impl ToValue for Tplain {
    fn to_value(&self) -> Value {
        Value::Seq(vec![
            Some(self.p.to_value()),
            Some(self.q.to_value()),
        ])
    }
}
impl FromValue for Tsmall { fn from_value(v: &Value) -> Self { Tsmall(FromValue::from_value(v)) } }
impl ToValue for Tsmall { fn to_value(&self) -> Value { self.0.to_value() } }
impl FromValue for Tchoice {
    fn from_value(v: &Value) -> Self {
        let (i, inner) = match v { Value::Choice(i, inner) => (*i, &**inner), other => panic!("Tchoice: expected Choice, got {other:?}") };
        match i {
            0 => Tchoice::I(FromValue::from_value(inner)),
            1 => Tchoice::B(FromValue::from_value(inner)),
            _ => panic!("Tchoice: alternative index {i} out of range"),
        }
    }
}
impl ToValue for Tchoice {
    fn to_value(&self) -> Value {
        match self {
            Tchoice::I(x) => Value::Choice(0, Box::new(x.to_value())),
            Tchoice::B(x) => Value::Choice(1, Box::new(x.to_value())),
        }
    }
}
impl FromValue for Tq1mn {
    fn from_value(v: &Value) -> Self {
        let s = match v { Value::Seq(s) => s, other => panic!("Tq1mn: expected Seq, got {other:?}") };
        assert_eq!(s.len(), 1, "Tq1mn: component count");
        let _ = s;
        Tq1mn {
            f0: FromValue::from_value(s[0].as_ref().expect("component f0 of Tq1mn must be present")),
        }
    }
}
impl ToValue for Tq1mn {
    fn to_value(&self) -> Value {
        Value::Seq(vec![
            Some(self.f0.to_value()),
        ])
    }
}
impl FromValue for Tq1me0 {
    fn from_value(v: &Value) -> Self {
        let s = match v { Value::Seq(s) => s, other => panic!("Tq1me0: expected Seq, got {other:?}") };
        assert_eq!(s.len(), 1, "Tq1me0: component count");
        let _ = s;
        Tq1me0 {
            f0: FromValue::from_value(s[0].as_ref().expect("component f0 of Tq1me0 must be present")),
        }
    }
}
impl ToValue for Tq1me0 {
    fn to_value(&self) -> Value {
        Value::Seq(vec![
            Some(self.f0.to_value()),
        ])
    }
}
impl FromValue for Tq1me1 {
    fn from_value(v: &Value) -> Self {
        let s = match v { Value::Seq(s) => s, other => panic!("Tq1me1: expected Seq, got {other:?}") };
        assert_eq!(s.len(), 1, "Tq1me1: component count");
        let _ = s;
        Tq1me1 {
            f0: FromValue::from_value(s[0].as_ref().expect("component f0 of Tq1me1 must be present")),
        }
    }
}
impl ToValue for Tq1me1 {
    fn to_value(&self) -> Value {
        Value::Seq(vec![
            Some(self.f0.to_value()),
        ])
    }
}
impl FromValue for Tq1on {
    fn from_value(v: &Value) -> Self {
        let s = match v { Value::Seq(s) => s, other => panic!("Tq1on: expected Seq, got {other:?}") };
        assert_eq!(s.len(), 1, "Tq1on: component count");
        let _ = s;
        Tq1on {
            f0: s[0].as_ref().map(FromValue::from_value),
        }
    }
}
impl ToValue for Tq1on {
    fn to_value(&self) -> Value {
        Value::Seq(vec![
            self.f0.as_ref().map(|x| x.to_value()),
        ])
    }
}
impl FromValue for Tq1oe0 {
    fn from_value(v: &Value) -> Self {
        let s = match v { Value::Seq(s) => s, other => panic!("Tq1oe0: expected Seq, got {other:?}") };
        assert_eq!(s.len(), 1, "Tq1oe0: component count");
        let _ = s;
        Tq1oe0 {
            f0: s[0].as_ref().map(FromValue::from_value),
        }
    }
}
impl ToValue for Tq1oe0 {
    fn to_value(&self) -> Value {
        Value::Seq(vec![
            self.f0.as_ref().map(|x| x.to_value()),
        ])
    }
}
impl FromValue for Tq1oe1 {
    fn from_value(v: &Value) -> Self {
        let s = match v { Value::Seq(s) => s, other => panic!("Tq1oe1: expected Seq, got {other:?}") };
        assert_eq!(s.len(), 1, "Tq1oe1: component count");
        let _ = s;
        Tq1oe1 {
            f0: s[0].as_ref().map(FromValue::from_value),
        }
    }
}
impl ToValue for Tq1oe1 {
    fn to_value(&self) -> Value {
        Value::Seq(vec![
            self.f0.as_ref().map(|x| x.to_value()),
        ])
    }
}
impl FromValue for Tq2mmn {
    fn from_value(v: &Value) -> Self {
        let s = match v { Value::Seq(s) => s, other => panic!("Tq2mmn: expected Seq, got {other:?}") };
        assert_eq!(s.len(), 2, "Tq2mmn: component count");
        let _ = s;
        Tq2mmn {
            f0: FromValue::from_value(s[0].as_ref().expect("component f0 of Tq2mmn must be present")),
            f1: FromValue::from_value(s[1].as_ref().expect("component f1 of Tq2mmn must be present")),
        }
    }
}
impl ToValue for Tq2mmn {
    fn to_value(&self) -> Value {
        Value::Seq(vec![
            Some(self.f0.to_value()),
            Some(self.f1.to_value()),
        ])
    }
}
impl FromValue for Tq2mme0 {
    fn from_value(v: &Value) -> Self {
        let s = match v { Value::Seq(s) => s, other => panic!("Tq2mme0: expected Seq, got {other:?}") };
        assert_eq!(s.len(), 2, "Tq2mme0: component count");
        let _ = s;
        Tq2mme0 {
            f0: FromValue::from_value(s[0].as_ref().expect("component f0 of Tq2mme0 must be present")),
            f1: s[1].as_ref().map(FromValue::from_value),
        }
    }
}
impl ToValue for Tq2mme0 {
    fn to_value(&self) -> Value {
        Value::Seq(vec![
            Some(self.f0.to_value()),
            self.f1.as_ref().map(|x| x.to_value()),
        ])
    }
}
impl FromValue for Tq2mme1 {
    fn from_value(v: &Value) -> Self {
        let s = match v { Value::Seq(s) => s, other => panic!("Tq2mme1: expected Seq, got {other:?}") };
        assert_eq!(s.len(), 2, "Tq2mme1: component count");
        let _ = s;
        Tq2mme1 {
            f0: FromValue::from_value(s[0].as_ref().expect("component f0 of Tq2mme1 must be present")),
            f1: s[1].as_ref().map(FromValue::from_value),
        }
    }
}
impl ToValue for Tq2mme1 {
    fn to_value(&self) -> Value {
        Value::Seq(vec![
            Some(self.f0.to_value()),
            self.f1.as_ref().map(|x| x.to_value()),
        ])
    }
}
impl FromValue for Tq2mme2 {
    fn from_value(v: &Value) -> Self {
        let s = match v { Value::Seq(s) => s, other => panic!("Tq2mme2: expected Seq, got {other:?}") };
        assert_eq!(s.len(), 2, "Tq2mme2: component count");
        let _ = s;
        Tq2mme2 {
            f0: FromValue::from_value(s[0].as_ref().expect("component f0 of Tq2mme2 must be present")),
            f1: FromValue::from_value(s[1].as_ref().expect("component f1 of Tq2mme2 must be present")),
        }
    }
}
impl ToValue for Tq2mme2 {
    fn to_value(&self) -> Value {
        Value::Seq(vec![
            Some(self.f0.to_value()),
            Some(self.f1.to_value()),
        ])
    }
}
impl FromValue for Tq2omn {
    fn from_value(v: &Value) -> Self {
        let s = match v { Value::Seq(s) => s, other => panic!("Tq2omn: expected Seq, got {other:?}") };
        assert_eq!(s.len(), 2, "Tq2omn: component count");
        let _ = s;
        Tq2omn {
            f0: s[0].as_ref().map(FromValue::from_value),
            f1: FromValue::from_value(s[1].as_ref().expect("component f1 of Tq2omn must be present")),
        }
    }
}
impl ToValue for Tq2omn {
    fn to_value(&self) -> Value {
        Value::Seq(vec![
            self.f0.as_ref().map(|x| x.to_value()),
            Some(self.f1.to_value()),
        ])
    }
}
impl FromValue for Tq2ome0 {
    fn from_value(v: &Value) -> Self {
        let s = match v { Value::Seq(s) => s, other => panic!("Tq2ome0: expected Seq, got {other:?}") };
        assert_eq!(s.len(), 2, "Tq2ome0: component count");
        let _ = s;
        Tq2ome0 {
            f0: s[0].as_ref().map(FromValue::from_value),
            f1: s[1].as_ref().map(FromValue::from_value),
        }
    }
}
impl ToValue for Tq2ome0 {
    fn to_value(&self) -> Value {
        Value::Seq(vec![
            self.f0.as_ref().map(|x| x.to_value()),
            self.f1.as_ref().map(|x| x.to_value()),
        ])
    }
}
impl FromValue for Tq2ome1 {
    fn from_value(v: &Value) -> Self {
        let s = match v { Value::Seq(s) => s, other => panic!("Tq2ome1: expected Seq, got {other:?}") };
        assert_eq!(s.len(), 2, "Tq2ome1: component count");
        let _ = s;
        Tq2ome1 {
            f0: s[0].as_ref().map(FromValue::from_value),
            f1: s[1].as_ref().map(FromValue::from_value),
        }
    }
}
impl ToValue for Tq2ome1 {
    fn to_value(&self) -> Value {
        Value::Seq(vec![
            self.f0.as_ref().map(|x| x.to_value()),
            self.f1.as_ref().map(|x| x.to_value()),
        ])
    }
}
impl FromValue for Tq2ome2 {
    fn from_value(v: &Value) -> Self {
        let s = match v { Value::Seq(s) => s, other => panic!("Tq2ome2: expected Seq, got {other:?}") };
        assert_eq!(s.len(), 2, "Tq2ome2: component count");
        let _ = s;
        Tq2ome2 {
            f0: s[0].as_ref().map(FromValue::from_value),
            f1: FromValue::from_value(s[1].as_ref().expect("component f1 of Tq2ome2 must be present")),
        }
    }
}
impl ToValue for Tq2ome2 {
    fn to_value(&self) -> Value {
        Value::Seq(vec![
            self.f0.as_ref().map(|x| x.to_value()),
            Some(self.f1.to_value()),
        ])
    }
}
impl FromValue for Tq2mon {
    fn from_value(v: &Value) -> Self {
        let s = match v { Value::Seq(s) => s, other => panic!("Tq2mon: expected Seq, got {other:?}") };
        assert_eq!(s.len(), 2, "Tq2mon: component count");
        let _ = s;
        Tq2mon {
            f0: FromValue::from_value(s[0].as_ref().expect("component f0 of Tq2mon must be present")),
            f1: s[1].as_ref().map(FromValue::from_value),
        }
    }
}
impl ToValue for Tq2mon {
    fn to_value(&self) -> Value {
        Value::Seq(vec![
            Some(self.f0.to_value()),
            self.f1.as_ref().map(|x| x.to_value()),
        ])
    }
}
impl FromValue for Tq2moe0 {
    fn from_value(v: &Value) -> Self {
        let s = match v { Value::Seq(s) => s, other => panic!("Tq2moe0: expected Seq, got {other:?}") };
        assert_eq!(s.len(), 2, "Tq2moe0: component count");
        let _ = s;
        Tq2moe0 {
            f0: FromValue::from_value(s[0].as_ref().expect("component f0 of Tq2moe0 must be present")),
            f1: s[1].as_ref().map(FromValue::from_value),
        }
    }
}
impl ToValue for Tq2moe0 {
    fn to_value(&self) -> Value {
        Value::Seq(vec![
            Some(self.f0.to_value()),
            self.f1.as_ref().map(|x| x.to_value()),
        ])
    }
}
impl FromValue for Tq2moe1 {
    fn from_value(v: &Value) -> Self {
        let s = match v { Value::Seq(s) => s, other => panic!("Tq2moe1: expected Seq, got {other:?}") };
        assert_eq!(s.len(), 2, "Tq2moe1: component count");
        let _ = s;
        Tq2moe1 {
            f0: FromValue::from_value(s[0].as_ref().expect("component f0 of Tq2moe1 must be present")),
            f1: s[1].as_ref().map(FromValue::from_value),
        }
    }
}
impl ToValue for Tq2moe1 {
    fn to_value(&self) -> Value {
        Value::Seq(vec![
            Some(self.f0.to_value()),
            self.f1.as_ref().map(|x| x.to_value()),
        ])
    }
}
impl FromValue for Tq2moe2 {
    fn from_value(v: &Value) -> Self {
        let s = match v { Value::Seq(s) => s, other => panic!("Tq2moe2: expected Seq, got {other:?}") };
        assert_eq!(s.len(), 2, "Tq2moe2: component count");
        let _ = s;
        Tq2moe2 {
            f0: FromValue::from_value(s[0].as_ref().expect("component f0 of Tq2moe2 must be present")),
            f1: s[1].as_ref().map(FromValue::from_value),
        }
    }
}
impl ToValue for Tq2moe2 {
    fn to_value(&self) -> Value {
        Value::Seq(vec![
            Some(self.f0.to_value()),
            self.f1.as_ref().map(|x| x.to_value()),
        ])
    }
}
impl FromValue for Tq2oon {
    fn from_value(v: &Value) -> Self {
        let s = match v { Value::Seq(s) => s, other => panic!("Tq2oon: expected Seq, got {other:?}") };
        assert_eq!(s.len(), 2, "Tq2oon: component count");
        let _ = s;
        Tq2oon {
            f0: s[0].as_ref().map(FromValue::from_value),
            f1: s[1].as_ref().map(FromValue::from_value),
        }
    }
}
impl ToValue for Tq2oon {
    fn to_value(&self) -> Value {
        Value::Seq(vec![
            self.f0.as_ref().map(|x| x.to_value()),
            self.f1.as_ref().map(|x| x.to_value()),
        ])
    }
}
impl FromValue for Tq2ooe0 {
    fn from_value(v: &Value) -> Self {
        let s = match v { Value::Seq(s) => s, other => panic!("Tq2ooe0: expected Seq, got {other:?}") };
        assert_eq!(s.len(), 2, "Tq2ooe0: component count");
        let _ = s;
        Tq2ooe0 {
            f0: s[0].as_ref().map(FromValue::from_value),
            f1: s[1].as_ref().map(FromValue::from_value),
        }
    }
}
impl ToValue for Tq2ooe0 {
    fn to_value(&self) -> Value {
        Value::Seq(vec![
            self.f0.as_ref().map(|x| x.to_value()),
            self.f1.as_ref().map(|x| x.to_value()),
        ])
    }
}
impl FromValue for Tq2ooe1 {
    fn from_value(v: &Value) -> Self {
        let s = match v { Value::Seq(s) => s, other => panic!("Tq2ooe1: expected Seq, got {other:?}") };
        assert_eq!(s.len(), 2, "Tq2ooe1: component count");
        let _ = s;
        Tq2ooe1 {
            f0: s[0].as_ref().map(FromValue::from_value),
            f1: s[1].as_ref().map(FromValue::from_value),
        }
    }
}
impl ToValue for Tq2ooe1 {
    fn to_value(&self) -> Value {
        Value::Seq(vec![
            self.f0.as_ref().map(|x| x.to_value()),
            self.f1.as_ref().map(|x| x.to_value()),
        ])
    }
}
impl FromValue for Tq2ooe2 {
    fn from_value(v: &Value) -> Self {
        let s = match v { Value::Seq(s) => s, other => panic!("Tq2ooe2: expected Seq, got {other:?}") };
        assert_eq!(s.len(), 2, "Tq2ooe2: component count");
        let _ = s;
        Tq2ooe2 {
            f0: s[0].as_ref().map(FromValue::from_value),
            f1: s[1].as_ref().map(FromValue::from_value),
        }
    }
}
impl ToValue for Tq2ooe2 {
    fn to_value(&self) -> Value {
        Value::Seq(vec![
            self.f0.as_ref().map(|x| x.to_value()),
            self.f1.as_ref().map(|x| x.to_value()),
        ])
    }
}

use asn1rs::prelude::*;

#[asn(sequence, extensible_after(f4))]

#[derive(Default, Debug, Clone, PartialEq, Hash)]
pub struct Ts5mdmdde5 {
    #[asn(integer(0..7))] pub f0: u8,
    #[asn(default(integer(0..7), 5))] pub f1: u8,
    #[asn(integer(0..7))] pub f2: u8,
    #[asn(default(integer(0..7), 5))] pub f3: u8,
    #[asn(default(integer(0..7), 5))] pub f4: u8,
}

impl Ts5mdmdde5 {
    pub const fn f0_min() -> u8 {
        0
    }

    pub const fn f0_max() -> u8 {
        7
    }

    pub const fn f1_min() -> u8 {
        0
    }

    pub const fn f1_max() -> u8 {
        7
    }

    pub const fn f2_min() -> u8 {
        0
    }

    pub const fn f2_max() -> u8 {
        7
    }

    pub const fn f3_min() -> u8 {
        0
    }

    pub const fn f3_max() -> u8 {
        7
    }

    pub const fn f4_min() -> u8 {
        0
    }

    pub const fn f4_max() -> u8 {
        7
    }
}

#[asn(sequence)]

#[derive(Default, Debug, Clone, PartialEq, Hash)]
pub struct Ts5odmddn {
    #[asn(optional(integer(0..7)))] pub f0: Option<u8>,
    #[asn(default(integer(0..7), 5))] pub f1: u8,
    #[asn(integer(0..7))] pub f2: u8,
    #[asn(default(integer(0..7), 5))] pub f3: u8,
    #[asn(default(integer(0..7), 5))] pub f4: u8,
}

impl Ts5odmddn {
    pub const fn f0_min() -> u8 {
        0
    }

    pub const fn f0_max() -> u8 {
        7
    }

    pub const fn f1_min() -> u8 {
        0
    }

    pub const fn f1_max() -> u8 {
        7
    }

    pub const fn f2_min() -> u8 {
        0
    }

    pub const fn f2_max() -> u8 {
        7
    }

    pub const fn f3_min() -> u8 {
        0
    }

    pub const fn f3_max() -> u8 {
        7
    }

    pub const fn f4_min() -> u8 {
        0
    }

    pub const fn f4_max() -> u8 {
        7
    }
}

#[asn(sequence, extensible_after(f0))]

#[derive(Default, Debug, Clone, PartialEq, Hash)]
pub struct Ts5odmdde0 {
    #[asn(optional(integer(0..7)))] pub f0: Option<u8>,
    #[asn(default(integer(0..7), 5))] pub f1: u8,
    #[asn(optional(integer(0..7)))] pub f2: Option<u8>,
    #[asn(default(integer(0..7), 5))] pub f3: u8,
    #[asn(default(integer(0..7), 5))] pub f4: u8,
}

impl Ts5odmdde0 {
    pub const fn f0_min() -> u8 {
        0
    }

    pub const fn f0_max() -> u8 {
        7
    }

    pub const fn f1_min() -> u8 {
        0
    }

    pub const fn f1_max() -> u8 {
        7
    }

    pub const fn f2_min() -> u8 {
        0
    }

    pub const fn f2_max() -> u8 {
        7
    }

    pub const fn f3_min() -> u8 {
        0
    }

    pub const fn f3_max() -> u8 {
        7
    }

    pub const fn f4_min() -> u8 {
        0
    }

    pub const fn f4_max() -> u8 {
        7
    }
}

#[asn(sequence, extensible_after(f0))]

#[derive(Default, Debug, Clone, PartialEq, Hash)]
pub struct Ts5odmdde1 {
    #[asn(optional(integer(0..7)))] pub f0: Option<u8>,
    #[asn(default(integer(0..7), 5))] pub f1: u8,
    #[asn(optional(integer(0..7)))] pub f2: Option<u8>,
    #[asn(default(integer(0..7), 5))] pub f3: u8,
    #[asn(default(integer(0..7), 5))] pub f4: u8,
}

impl Ts5odmdde1 {
    pub const fn f0_min() -> u8 {
        0
    }

    pub const fn f0_max() -> u8 {
        7
    }

    pub const fn f1_min() -> u8 {
        0
    }

    pub const fn f1_max() -> u8 {
        7
    }

    pub const fn f2_min() -> u8 {
        0
    }

    pub const fn f2_max() -> u8 {
        7
    }

    pub const fn f3_min() -> u8 {
        0
    }

    pub const fn f3_max() -> u8 {
        7
    }

    pub const fn f4_min() -> u8 {
        0
    }

    pub const fn f4_max() -> u8 {
        7
    }
}

#[asn(sequence, extensible_after(f1))]

#[derive(Default, Debug, Clone, PartialEq, Hash)]
pub struct Ts5odmdde2 {
    #[asn(optional(integer(0..7)))] pub f0: Option<u8>,
    #[asn(default(integer(0..7), 5))] pub f1: u8,
    #[asn(optional(integer(0..7)))] pub f2: Option<u8>,
    #[asn(default(integer(0..7), 5))] pub f3: u8,
    #[asn(default(integer(0..7), 5))] pub f4: u8,
}

impl Ts5odmdde2 {
    pub const fn f0_min() -> u8 {
        0
    }

    pub const fn f0_max() -> u8 {
        7
    }

    pub const fn f1_min() -> u8 {
        0
    }

    pub const fn f1_max() -> u8 {
        7
    }

    pub const fn f2_min() -> u8 {
        0
    }

    pub const fn f2_max() -> u8 {
        7
    }

    pub const fn f3_min() -> u8 {
        0
    }

    pub const fn f3_max() -> u8 {
        7
    }

    pub const fn f4_min() -> u8 {
        0
    }

    pub const fn f4_max() -> u8 {
        7
    }
}

#[asn(sequence, extensible_after(f2))]

#[derive(Default, Debug, Clone, PartialEq, Hash)]
pub struct Ts5odmdde3 {
    #[asn(optional(integer(0..7)))] pub f0: Option<u8>,
    #[asn(default(integer(0..7), 5))] pub f1: u8,
    #[asn(integer(0..7))] pub f2: u8,
    #[asn(default(integer(0..7), 5))] pub f3: u8,
    #[asn(default(integer(0..7), 5))] pub f4: u8,
}

impl Ts5odmdde3 {
    pub const fn f0_min() -> u8 {
        0
    }

    pub const fn f0_max() -> u8 {
        7
    }

    pub const fn f1_min() -> u8 {
        0
    }

    pub const fn f1_max() -> u8 {
        7
    }

    pub const fn f2_min() -> u8 {
        0
    }

    pub const fn f2_max() -> u8 {
        7
    }

    pub const fn f3_min() -> u8 {
        0
    }

    pub const fn f3_max() -> u8 {
        7
    }

    pub const fn f4_min() -> u8 {
        0
    }

    pub const fn f4_max() -> u8 {
        7
    }
}

#[asn(sequence, extensible_after(f3))]

#[derive(Default, Debug, Clone, PartialEq, Hash)]
pub struct Ts5odmdde4 {
    #[asn(optional(integer(0..7)))] pub f0: Option<u8>,
    #[asn(default(integer(0..7), 5))] pub f1: u8,
    #[asn(integer(0..7))] pub f2: u8,
    #[asn(default(integer(0..7), 5))] pub f3: u8,
    #[asn(default(integer(0..7), 5))] pub f4: u8,
}

impl Ts5odmdde4 {
    pub const fn f0_min() -> u8 {
        0
    }

    pub const fn f0_max() -> u8 {
        7
    }

    pub const fn f1_min() -> u8 {
        0
    }

    pub const fn f1_max() -> u8 {
        7
    }

    pub const fn f2_min() -> u8 {
        0
    }

    pub const fn f2_max() -> u8 {
        7
    }

    pub const fn f3_min() -> u8 {
        0
    }

    pub const fn f3_max() -> u8 {
        7
    }

    pub const fn f4_min() -> u8 {
        0
    }

    pub const fn f4_max() -> u8 {
        7
    }
}

#[asn(sequence, extensible_after(f4))]

#[derive(Default, Debug, Clone, PartialEq, Hash)]
pub struct Ts5odmdde5 {
    #[asn(optional(integer(0..7)))] pub f0: Option<u8>,
    #[asn(default(integer(0..7), 5))] pub f1: u8,
    #[asn(integer(0..7))] pub f2: u8,
    #[asn(default(integer(0..7), 5))] pub f3: u8,
    #[asn(default(integer(0..7), 5))] pub f4: u8,
}

impl Ts5odmdde5 {
    pub const fn f0_min() -> u8 {
        0
    }

    pub const fn f0_max() -> u8 {
        7
    }

    pub const fn f1_min() -> u8 {
        0
    }

    pub const fn f1_max() -> u8 {
        7
    }

    pub const fn f2_min() -> u8 {
        0
    }

    pub const fn f2_max() -> u8 {
        7
    }

    pub const fn f3_min() -> u8 {
        0
    }

    pub const fn f3_max() -> u8 {
        7
    }

    pub const fn f4_min() -> u8 {
        0
    }

    pub const fn f4_max() -> u8 {
        7
    }
}

#[asn(sequence)]

#[derive(Default, Debug, Clone, PartialEq, Hash)]
pub struct Ts5ddmddn {
    #[asn(default(integer(0..7), 5))] pub f0: u8,
    #[asn(default(integer(0..7), 5))] pub f1: u8,
    #[asn(integer(0..7))] pub f2: u8,
    #[asn(default(integer(0..7), 5))] pub f3: u8,
    #[asn(default(integer(0..7), 5))] pub f4: u8,
}

impl Ts5ddmddn {
    pub const fn f0_min() -> u8 {
        0
    }

    pub const fn f0_max() -> u8 {
        7
    }

    pub const fn f1_min() -> u8 {
        0
    }

    pub const fn f1_max() -> u8 {
        7
    }

    pub const fn f2_min() -> u8 {
        0
    }

    pub const fn f2_max() -> u8 {
        7
    }

    pub const fn f3_min() -> u8 {
        0
    }

    pub const fn f3_max() -> u8 {
        7
    }

    pub const fn f4_min() -> u8 {
        0
    }

    pub const fn f4_max() -> u8 {
        7
    }
}

#[asn(sequence, extensible_after(f0))]

#[derive(Default, Debug, Clone, PartialEq, Hash)]
pub struct Ts5ddmdde0 {
    #[asn(default(integer(0..7), 5))] pub f0: u8,
    #[asn(default(integer(0..7), 5))] pub f1: u8,
    #[asn(optional(integer(0..7)))] pub f2: Option<u8>,
    #[asn(default(integer(0..7), 5))] pub f3: u8,
    #[asn(default(integer(0..7), 5))] pub f4: u8,
}

impl Ts5ddmdde0 {
    pub const fn f0_min() -> u8 {
        0
    }

    pub const fn f0_max() -> u8 {
        7
    }

    pub const fn f1_min() -> u8 {
        0
    }

    pub const fn f1_max() -> u8 {
        7
    }

    pub const fn f2_min() -> u8 {
        0
    }

    pub const fn f2_max() -> u8 {
        7
    }

    pub const fn f3_min() -> u8 {
        0
    }

    pub const fn f3_max() -> u8 {
        7
    }

    pub const fn f4_min() -> u8 {
        0
    }

    pub const fn f4_max() -> u8 {
        7
    }
}

#[asn(sequence, extensible_after(f0))]

#[derive(Default, Debug, Clone, PartialEq, Hash)]
pub struct Ts5ddmdde1 {
    #[asn(default(integer(0..7), 5))] pub f0: u8,
    #[asn(default(integer(0..7), 5))] pub f1: u8,
    #[asn(optional(integer(0..7)))] pub f2: Option<u8>,
    #[asn(default(integer(0..7), 5))] pub f3: u8,
    #[asn(default(integer(0..7), 5))] pub f4: u8,
}

impl Ts5ddmdde1 {
    pub const fn f0_min() -> u8 {
        0
    }

    pub const fn f0_max() -> u8 {
        7
    }

    pub const fn f1_min() -> u8 {
        0
    }

    pub const fn f1_max() -> u8 {
        7
    }

    pub const fn f2_min() -> u8 {
        0
    }

    pub const fn f2_max() -> u8 {
        7
    }

    pub const fn f3_min() -> u8 {
        0
    }

    pub const fn f3_max() -> u8 {
        7
    }

    pub const fn f4_min() -> u8 {
        0
    }

    pub const fn f4_max() -> u8 {
        7
    }
}

#[asn(sequence, extensible_after(f1))]

#[derive(Default, Debug, Clone, PartialEq, Hash)]
pub struct Ts5ddmdde2 {
    #[asn(default(integer(0..7), 5))] pub f0: u8,
    #[asn(default(integer(0..7), 5))] pub f1: u8,
    #[asn(optional(integer(0..7)))] pub f2: Option<u8>,
    #[asn(default(integer(0..7), 5))] pub f3: u8,
    #[asn(default(integer(0..7), 5))] pub f4: u8,
}

impl Ts5ddmdde2 {
    pub const fn f0_min() -> u8 {
        0
    }

    pub const fn f0_max() -> u8 {
        7
    }

    pub const fn f1_min() -> u8 {
        0
    }

    pub const fn f1_max() -> u8 {
        7
    }

    pub const fn f2_min() -> u8 {
        0
    }

    pub const fn f2_max() -> u8 {
        7
    }

    pub const fn f3_min() -> u8 {
        0
    }

    pub const fn f3_max() -> u8 {
        7
    }

    pub const fn f4_min() -> u8 {
        0
    }

    pub const fn f4_max() -> u8 {
        7
    }
}

#[asn(sequence, extensible_after(f2))]

#[derive(Default, Debug, Clone, PartialEq, Hash)]
pub struct Ts5ddmdde3 {
    #[asn(default(integer(0..7), 5))] pub f0: u8,
    #[asn(default(integer(0..7), 5))] pub f1: u8,
    #[asn(integer(0..7))] pub f2: u8,
    #[asn(default(integer(0..7), 5))] pub f3: u8,
    #[asn(default(integer(0..7), 5))] pub f4: u8,
}

impl Ts5ddmdde3 {
    pub const fn f0_min() -> u8 {
        0
    }

    pub const fn f0_max() -> u8 {
        7
    }

    pub const fn f1_min() -> u8 {
        0
    }

    pub const fn f1_max() -> u8 {
        7
    }

    pub const fn f2_min() -> u8 {
        0
    }

    pub const fn f2_max() -> u8 {
        7
    }

    pub const fn f3_min() -> u8 {
        0
    }

    pub const fn f3_max() -> u8 {
        7
    }

    pub const fn f4_min() -> u8 {
        0
    }

    pub const fn f4_max() -> u8 {
        7
    }
}

#[asn(sequence, extensible_after(f3))]

#[derive(Default, Debug, Clone, PartialEq, Hash)]
pub struct Ts5ddmdde4 {
    #[asn(default(integer(0..7), 5))] pub f0: u8,
    #[asn(default(integer(0..7), 5))] pub f1: u8,
    #[asn(integer(0..7))] pub f2: u8,
    #[asn(default(integer(0..7), 5))] pub f3: u8,
    #[asn(default(integer(0..7), 5))] pub f4: u8,
}

impl Ts5ddmdde4 {
    pub const fn f0_min() -> u8 {
        0
    }

    pub const fn f0_max() -> u8 {
        7
    }

    pub const fn f1_min() -> u8 {
        0
    }

    pub const fn f1_max() -> u8 {
        7
    }

    pub const fn f2_min() -> u8 {
        0
    }

    pub const fn f2_max() -> u8 {
        7
    }

    pub const fn f3_min() -> u8 {
        0
    }

    pub const fn f3_max() -> u8 {
        7
    }

    pub const fn f4_min() -> u8 {
        0
    }

    pub const fn f4_max() -> u8 {
        7
    }
}

#[asn(sequence, extensible_after(f4))]

#[derive(Default, Debug, Clone, PartialEq, Hash)]
pub struct Ts5ddmdde5 {
    #[asn(default(integer(0..7), 5))] pub f0: u8,
    #[asn(default(integer(0..7), 5))] pub f1: u8,
    #[asn(integer(0..7))] pub f2: u8,
    #[asn(default(integer(0..7), 5))] pub f3: u8,
    #[asn(default(integer(0..7), 5))] pub f4: u8,
}

impl Ts5ddmdde5 {
    pub const fn f0_min() -> u8 {
        0
    }

    pub const fn f0_max() -> u8 {
        7
    }

    pub const fn f1_min() -> u8 {
        0
    }

    pub const fn f1_max() -> u8 {
        7
    }

    pub const fn f2_min() -> u8 {
        0
    }

    pub const fn f2_max() -> u8 {
        7
    }

    pub const fn f3_min() -> u8 {
        0
    }

    pub const fn f3_max() -> u8 {
        7
    }

    pub const fn f4_min() -> u8 {
        0
    }

    pub const fn f4_max() -> u8 {
        7
    }
}

#[asn(sequence)]

#[derive(Default, Debug, Clone, PartialEq, Hash)]
pub struct Ts5mmoddn {
    #[asn(integer(0..7))] pub f0: u8,
    #[asn(integer(0..7))] pub f1: u8,
    #[asn(optional(integer(0..7)))] pub f2: Option<u8>,
    #[asn(default(integer(0..7), 5))] pub f3: u8,
    #[asn(default(integer(0..7), 5))] pub f4: u8,
}

impl Ts5mmoddn {
    pub const fn f0_min() -> u8 {
        0
    }

    pub const fn f0_max() -> u8 {
        7
    }

    pub const fn f1_min() -> u8 {
        0
    }

    pub const fn f1_max() -> u8 {
        7
    }

    pub const fn f2_min() -> u8 {
        0
    }

    pub const fn f2_max() -> u8 {
        7
    }

    pub const fn f3_min() -> u8 {
        0
    }

    pub const fn f3_max() -> u8 {
        7
    }

    pub const fn f4_min() -> u8 {
        0
    }

    pub const fn f4_max() -> u8 {
        7
    }
}

#[asn(sequence, extensible_after(f0))]

#[derive(Default, Debug, Clone, PartialEq, Hash)]
pub struct Ts5mmodde0 {
    #[asn(integer(0..7))] pub f0: u8,
    #[asn(optional(integer(0..7)))] pub f1: Option<u8>,
    #[asn(optional(integer(0..7)))] pub f2: Option<u8>,
    #[asn(default(integer(0..7), 5))] pub f3: u8,
    #[asn(default(integer(0..7), 5))] pub f4: u8,
}

impl Ts5mmodde0 {
    pub const fn f0_min() -> u8 {
        0
    }

    pub const fn f0_max() -> u8 {
        7
    }

    pub const fn f1_min() -> u8 {
        0
    }

    pub const fn f1_max() -> u8 {
        7
    }

    pub const fn f2_min() -> u8 {
        0
    }

    pub const fn f2_max() -> u8 {
        7
    }

    pub const fn f3_min() -> u8 {
        0
    }

    pub const fn f3_max() -> u8 {
        7
    }

    pub const fn f4_min() -> u8 {
        0
    }

    pub const fn f4_max() -> u8 {
        7
    }
}

#[asn(sequence, extensible_after(f0))]

#[derive(Default, Debug, Clone, PartialEq, Hash)]
pub struct Ts5mmodde1 {
    #[asn(integer(0..7))] pub f0: u8,
    #[asn(optional(integer(0..7)))] pub f1: Option<u8>,
    #[asn(optional(integer(0..7)))] pub f2: Option<u8>,
    #[asn(default(integer(0..7), 5))] pub f3: u8,
    #[asn(default(integer(0..7), 5))] pub f4: u8,
}

impl Ts5mmodde1 {
    pub const fn f0_min() -> u8 {
        0
    }

    pub const fn f0_max() -> u8 {
        7
    }

    pub const fn f1_min() -> u8 {
        0
    }

    pub const fn f1_max() -> u8 {
        7
    }

    pub const fn f2_min() -> u8 {
        0
    }

    pub const fn f2_max() -> u8 {
        7
    }

    pub const fn f3_min() -> u8 {
        0
    }

    pub const fn f3_max() -> u8 {
        7
    }

    pub const fn f4_min() -> u8 {
        0
    }

    pub const fn f4_max() -> u8 {
        7
    }
}

#[asn(sequence, extensible_after(f1))]

#[derive(Default, Debug, Clone, PartialEq, Hash)]
pub struct Ts5mmodde2 {
    #[asn(integer(0..7))] pub f0: u8,
    #[asn(integer(0..7))] pub f1: u8,
    #[asn(optional(integer(0..7)))] pub f2: Option<u8>,
    #[asn(default(integer(0..7), 5))] pub f3: u8,
    #[asn(default(integer(0..7), 5))] pub f4: u8,
}

impl Ts5mmodde2 {
    pub const fn f0_min() -> u8 {
        0
    }

    pub const fn f0_max() -> u8 {
        7
    }

    pub const fn f1_min() -> u8 {
        0
    }

    pub const fn f1_max() -> u8 {
        7
    }

    pub const fn f2_min() -> u8 {
        0
    }

    pub const fn f2_max() -> u8 {
        7
    }

    pub const fn f3_min() -> u8 {
        0
    }

    pub const fn f3_max() -> u8 {
        7
    }

    pub const fn f4_min() -> u8 {
        0
    }

    pub const fn f4_max() -> u8 {
        7
    }
}

#[asn(sequence, extensible_after(f2))]

#[derive(Default, Debug, Clone, PartialEq, Hash)]
pub struct Ts5mmodde3 {
    #[asn(integer(0..7))] pub f0: u8,
    #[asn(integer(0..7))] pub f1: u8,
    #[asn(optional(integer(0..7)))] pub f2: Option<u8>,
    #[asn(default(integer(0..7), 5))] pub f3: u8,
    #[asn(default(integer(0..7), 5))] pub f4: u8,
}

impl Ts5mmodde3 {
    pub const fn f0_min() -> u8 {
        0
    }

    pub const fn f0_max() -> u8 {
        7
    }

    pub const fn f1_min() -> u8 {
        0
    }

    pub const fn f1_max() -> u8 {
        7
    }

    pub const fn f2_min() -> u8 {
        0
    }

    pub const fn f2_max() -> u8 {
        7
    }

    pub const fn f3_min() -> u8 {
        0
    }

    pub const fn f3_max() -> u8 {
        7
    }

    pub const fn f4_min() -> u8 {
        0
    }

    pub const fn f4_max() -> u8 {
        7
    }
}

#[asn(sequence, extensible_after(f3))]

#[derive(Default, Debug, Clone, PartialEq, Hash)]
pub struct Ts5mmodde4 {
    #[asn(integer(0..7))] pub f0: u8,
    #[asn(integer(0..7))] pub f1: u8,
    #[asn(optional(integer(0..7)))] pub f2: Option<u8>,
    #[asn(default(integer(0..7), 5))] pub f3: u8,
    #[asn(default(integer(0..7), 5))] pub f4: u8,
}

impl Ts5mmodde4 {
    pub const fn f0_min() -> u8 {
        0
    }

    pub const fn f0_max() -> u8 {
        7
    }

    pub const fn f1_min() -> u8 {
        0
    }

    pub const fn f1_max() -> u8 {
        7
    }

    pub const fn f2_min() -> u8 {
        0
    }

    pub const fn f2_max() -> u8 {
        7
    }

    pub const fn f3_min() -> u8 {
        0
    }

    pub const fn f3_max() -> u8 {
        7
    }

    pub const fn f4_min() -> u8 {
        0
    }

    pub const fn f4_max() -> u8 {
        7
    }
}

#[asn(sequence, extensible_after(f4))]

#[derive(Default, Debug, Clone, PartialEq, Hash)]
pub struct Ts5mmodde5 {
    #[asn(integer(0..7))] pub f0: u8,
    #[asn(integer(0..7))] pub f1: u8,
    #[asn(optional(integer(0..7)))] pub f2: Option<u8>,
    #[asn(default(integer(0..7), 5))] pub f3: u8,
    #[asn(default(integer(0..7), 5))] pub f4: u8,
}

impl Ts5mmodde5 {
    pub const fn f0_min() -> u8 {
        0
    }

    pub const fn f0_max() -> u8 {
        7
    }

    pub const fn f1_min() -> u8 {
        0
    }

    pub const fn f1_max() -> u8 {
        7
    }

    pub const fn f2_min() -> u8 {
        0
    }

    pub const fn f2_max() -> u8 {
        7
    }

    pub const fn f3_min() -> u8 {
        0
    }

    pub const fn f3_max() -> u8 {
        7
    }

    pub const fn f4_min() -> u8 {
        0
    }

    pub const fn f4_max() -> u8 {
        7
    }
}

#[asn(sequence)]

#[derive(Default, Debug, Clone, PartialEq, Hash)]
pub struct Ts5omoddn {
    #[asn(optional(integer(0..7)))] pub f0: Option<u8>,
    #[asn(integer(0..7))] pub f1: u8,
    #[asn(optional(integer(0..7)))] pub f2: Option<u8>,
    #[asn(default(integer(0..7), 5))] pub f3: u8,
    #[asn(default(integer(0..7), 5))] pub f4: u8,
}

impl Ts5omoddn {
    pub const fn f0_min() -> u8 {
        0
    }

    pub const fn f0_max() -> u8 {
        7
    }

    pub const fn f1_min() -> u8 {
        0
    }

    pub const fn f1_max() -> u8 {
        7
    }

    pub const fn f2_min() -> u8 {
        0
    }

    pub const fn f2_max() -> u8 {
        7
    }

    pub const fn f3_min() -> u8 {
        0
    }

    pub const fn f3_max() -> u8 {
        7
    }

    pub const fn f4_min() -> u8 {
        0
    }

    pub const fn f4_max() -> u8 {
        7
    }
}

#[asn(sequence, extensible_after(f0))]

#[derive(Default, Debug, Clone, PartialEq, Hash)]
pub struct Ts5omodde0 {
    #[asn(optional(integer(0..7)))] pub f0: Option<u8>,
    #[asn(optional(integer(0..7)))] pub f1: Option<u8>,
    #[asn(optional(integer(0..7)))] pub f2: Option<u8>,
    #[asn(default(integer(0..7), 5))] pub f3: u8,
    #[asn(default(integer(0..7), 5))] pub f4: u8,
}

impl Ts5omodde0 {
    pub const fn f0_min() -> u8 {
        0
    }

    pub const fn f0_max() -> u8 {
        7
    }

    pub const fn f1_min() -> u8 {
        0
    }

    pub const fn f1_max() -> u8 {
        7
    }

    pub const fn f2_min() -> u8 {
        0
    }

    pub const fn f2_max() -> u8 {
        7
    }

    pub const fn f3_min() -> u8 {
        0
    }

    pub const fn f3_max() -> u8 {
        7
    }

    pub const fn f4_min() -> u8 {
        0
    }

    pub const fn f4_max() -> u8 {
        7
    }
}

#[asn(sequence, extensible_after(f0))]

#[derive(Default, Debug, Clone, PartialEq, Hash)]
pub struct Ts5omodde1 {
    #[asn(optional(integer(0..7)))] pub f0: Option<u8>,
    #[asn(optional(integer(0..7)))] pub f1: Option<u8>,
    #[asn(optional(integer(0..7)))] pub f2: Option<u8>,
    #[asn(default(integer(0..7), 5))] pub f3: u8,
    #[asn(default(integer(0..7), 5))] pub f4: u8,
}

impl Ts5omodde1 {
    pub const fn f0_min() -> u8 {
        0
    }

    pub const fn f0_max() -> u8 {
        7
    }

    pub const fn f1_min() -> u8 {
        0
    }

    pub const fn f1_max() -> u8 {
        7
    }

    pub const fn f2_min() -> u8 {
        0
    }

    pub const fn f2_max() -> u8 {
        7
    }

    pub const fn f3_min() -> u8 {
        0
    }

    pub const fn f3_max() -> u8 {
        7
    }

    pub const fn f4_min() -> u8 {
        0
    }

    pub const fn f4_max() -> u8 {
        7
    }
}

#[asn(sequence, extensible_after(f1))]

#[derive(Default, Debug, Clone, PartialEq, Hash)]
pub struct Ts5omodde2 {
    #[asn(optional(integer(0..7)))] pub f0: Option<u8>,
    #[asn(integer(0..7))] pub f1: u8,
    #[asn(optional(integer(0..7)))] pub f2: Option<u8>,
    #[asn(default(integer(0..7), 5))] pub f3: u8,
    #[asn(default(integer(0..7), 5))] pub f4: u8,
}

impl Ts5omodde2 {
    pub const fn f0_min() -> u8 {
        0
    }

    pub const fn f0_max() -> u8 {
        7
    }

    pub const fn f1_min() -> u8 {
        0
    }

    pub const fn f1_max() -> u8 {
        7
    }

    pub const fn f2_min() -> u8 {
        0
    }

    pub const fn f2_max() -> u8 {
        7
    }

    pub const fn f3_min() -> u8 {
        0
    }

    pub const fn f3_max() -> u8 {
        7
    }

    pub const fn f4_min() -> u8 {
        0
    }

    pub const fn f4_max() -> u8 {
        7
    }
}

#[asn(sequence, extensible_after(f2))]

#[derive(Default, Debug, Clone, PartialEq, Hash)]
pub struct Ts5omodde3 {
    #[asn(optional(integer(0..7)))] pub f0: Option<u8>,
    #[asn(integer(0..7))] pub f1: u8,
    #[asn(optional(integer(0..7)))] pub f2: Option<u8>,
    #[asn(default(integer(0..7), 5))] pub f3: u8,
    #[asn(default(integer(0..7), 5))] pub f4: u8,
}

impl Ts5omodde3 {
    pub const fn f0_min() -> u8 {
        0
    }

    pub const fn f0_max() -> u8 {
        7
    }

    pub const fn f1_min() -> u8 {
        0
    }

    pub const fn f1_max() -> u8 {
        7
    }

    pub const fn f2_min() -> u8 {
        0
    }

    pub const fn f2_max() -> u8 {
        7
    }

    pub const fn f3_min() -> u8 {
        0
    }

    pub const fn f3_max() -> u8 {
        7
    }

    pub const fn f4_min() -> u8 {
        0
    }

    pub const fn f4_max() -> u8 {
        7
    }
}

#[asn(sequence, extensible_after(f3))]

#[derive(Default, Debug, Clone, PartialEq, Hash)]
pub struct Ts5omodde4 {
    #[asn(optional(integer(0..7)))] pub f0: Option<u8>,
    #[asn(integer(0..7))] pub f1: u8,
    #[asn(optional(integer(0..7)))] pub f2: Option<u8>,
    #[asn(default(integer(0..7), 5))] pub f3: u8,
    #[asn(default(integer(0..7), 5))] pub f4: u8,
}

impl Ts5omodde4 {
    pub const fn f0_min() -> u8 {
        0
    }

    pub const fn f0_max() -> u8 {
        7
    }

    pub const fn f1_min() -> u8 {
        0
    }

    pub const fn f1_max() -> u8 {
        7
    }

    pub const fn f2_min() -> u8 {
        0
    }

    pub const fn f2_max() -> u8 {
        7
    }

    pub const fn f3_min() -> u8 {
        0
    }

    pub const fn f3_max() -> u8 {
        7
    }

    pub const fn f4_min() -> u8 {
        0
    }

    pub const fn f4_max() -> u8 {
        7
    }
}

#[asn(sequence, extensible_after(f4))]

#[derive(Default, Debug, Clone, PartialEq, Hash)]
pub struct Ts5omodde5 {
    #[asn(optional(integer(0..7)))] pub f0: Option<u8>,
    #[asn(integer(0..7))] pub f1: u8,
    #[asn(optional(integer(0..7)))] pub f2: Option<u8>,
    #[asn(default(integer(0..7), 5))] pub f3: u8,
    #[asn(default(integer(0..7), 5))] pub f4: u8,
}

impl Ts5omodde5 {
    pub const fn f0_min() -> u8 {
        0
    }

    pub const fn f0_max() -> u8 {
        7
    }

    pub const fn f1_min() -> u8 {
        0
    }

    pub const fn f1_max() -> u8 {
        7
    }

    pub const fn f2_min() -> u8 {
        0
    }

    pub const fn f2_max() -> u8 {
        7
    }

    pub const fn f3_min() -> u8 {
        0
    }

    pub const fn f3_max() -> u8 {
        7
    }

    pub const fn f4_min() -> u8 {
        0
    }

    pub const fn f4_max() -> u8 {
        7
    }
}

#[asn(sequence)]

#[derive(Default, Debug, Clone, PartialEq, Hash)]
pub struct Ts5dmoddn {
    #[asn(default(integer(0..7), 5))] pub f0: u8,
    #[asn(integer(0..7))] pub f1: u8,
    #[asn(optional(integer(0..7)))] pub f2: Option<u8>,
    #[asn(default(integer(0..7), 5))] pub f3: u8,
    #[asn(default(integer(0..7), 5))] pub f4: u8,
}

impl Ts5dmoddn {
    pub const fn f0_min() -> u8 {
        0
    }

    pub const fn f0_max() -> u8 {
        7
    }

    pub const fn f1_min() -> u8 {
        0
    }

    pub const fn f1_max() -> u8 {
        7
    }

    pub const fn f2_min() -> u8 {
        0
    }

    pub const fn f2_max() -> u8 {
        7
    }

    pub const fn f3_min() -> u8 {
        0
    }

    pub const fn f3_max() -> u8 {
        7
    }

    pub const fn f4_min() -> u8 {
        0
    }

    pub const fn f4_max() -> u8 {
        7
    }
}

#[asn(sequence, extensible_after(f0))]

#[derive(Default, Debug, Clone, PartialEq, Hash)]
pub struct Ts5dmodde0 {
    #[asn(default(integer(0..7), 5))] pub f0: u8,
    #[asn(optional(integer(0..7)))] pub f1: Option<u8>,
    #[asn(optional(integer(0..7)))] pub f2: Option<u8>,
    #[asn(default(integer(0..7), 5))] pub f3: u8,
    #[asn(default(integer(0..7), 5))] pub f4: u8,
}

impl Ts5dmodde0 {
    pub const fn f0_min() -> u8 {
        0
    }

    pub const fn f0_max() -> u8 {
        7
    }

    pub const fn f1_min() -> u8 {
        0
    }

    pub const fn f1_max() -> u8 {
        7
    }

    pub const fn f2_min() -> u8 {
        0
    }

    pub const fn f2_max() -> u8 {
        7
    }

    pub const fn f3_min() -> u8 {
        0
    }

    pub const fn f3_max() -> u8 {
        7
    }

    pub const fn f4_min() -> u8 {
        0
    }

    pub const fn f4_max() -> u8 {
        7
    }
}

#[asn(sequence, extensible_after(f0))]

#[derive(Default, Debug, Clone, PartialEq, Hash)]
pub struct Ts5dmodde1 {
    #[asn(default(integer(0..7), 5))] pub f0: u8,
    #[asn(optional(integer(0..7)))] pub f1: Option<u8>,
    #[asn(optional(integer(0..7)))] pub f2: Option<u8>,
    #[asn(default(integer(0..7), 5))] pub f3: u8,
    #[asn(default(integer(0..7), 5))] pub f4: u8,
}

impl Ts5dmodde1 {
    pub const fn f0_min() -> u8 {
        0
    }

    pub const fn f0_max() -> u8 {
        7
    }

    pub const fn f1_min() -> u8 {
        0
    }

    pub const fn f1_max() -> u8 {
        7
    }

    pub const fn f2_min() -> u8 {
        0
    }

    pub const fn f2_max() -> u8 {
        7
    }

    pub const fn f3_min() -> u8 {
        0
    }

    pub const fn f3_max() -> u8 {
        7
    }

    pub const fn f4_min() -> u8 {
        0
    }

    pub const fn f4_max() -> u8 {
        7
    }
}

#[asn(sequence, extensible_after(f1))]

#[derive(Default, Debug, Clone, PartialEq, Hash)]
pub struct Ts5dmodde2 {
    #[asn(default(integer(0..7), 5))] pub f0: u8,
    #[asn(integer(0..7))] pub f1: u8,
    #[asn(optional(integer(0..7)))] pub f2: Option<u8>,
    #[asn(default(integer(0..7), 5))] pub f3: u8,
    #[asn(default(integer(0..7), 5))] pub f4: u8,
}

impl Ts5dmodde2 {
    pub const fn f0_min() -> u8 {
        0
    }

    pub const fn f0_max() -> u8 {
        7
    }

    pub const fn f1_min() -> u8 {
        0
    }

    pub const fn f1_max() -> u8 {
        7
    }

    pub const fn f2_min() -> u8 {
        0
    }

    pub const fn f2_max() -> u8 {
        7
    }

    pub const fn f3_min() -> u8 {
        0
    }

    pub const fn f3_max() -> u8 {
        7
    }

    pub const fn f4_min() -> u8 {
        0
    }

    pub const fn f4_max() -> u8 {
        7
    }
}

#[asn(sequence, extensible_after(f2))]

#[derive(Default, Debug, Clone, PartialEq, Hash)]
pub struct Ts5dmodde3 {
    #[asn(default(integer(0..7), 5))] pub f0: u8,
    #[asn(integer(0..7))] pub f1: u8,
    #[asn(optional(integer(0..7)))] pub f2: Option<u8>,
    #[asn(default(integer(0..7), 5))] pub f3: u8,
    #[asn(default(integer(0..7), 5))] pub f4: u8,
}

impl Ts5dmodde3 {
    pub const fn f0_min() -> u8 {
        0
    }

    pub const fn f0_max() -> u8 {
        7
    }

    pub const fn f1_min() -> u8 {
        0
    }

    pub const fn f1_max() -> u8 {
        7
    }

    pub const fn f2_min() -> u8 {
        0
    }

    pub const fn f2_max() -> u8 {
        7
    }

    pub const fn f3_min() -> u8 {
        0
    }

    pub const fn f3_max() -> u8 {
        7
    }

    pub const fn f4_min() -> u8 {
        0
    }

    pub const fn f4_max() -> u8 {
        7
    }
}

#[asn(sequence, extensible_after(f3))]

#[derive(Default, Debug, Clone, PartialEq, Hash)]
pub struct Ts5dmodde4 {
    #[asn(default(integer(0..7), 5))] pub f0: u8,
    #[asn(integer(0..7))] pub f1: u8,
    #[asn(optional(integer(0..7)))] pub f2: Option<u8>,
    #[asn(default(integer(0..7), 5))] pub f3: u8,
    #[asn(default(integer(0..7), 5))] pub f4: u8,
}

impl Ts5dmodde4 {
    pub const fn f0_min() -> u8 {
        0
    }

    pub const fn f0_max() -> u8 {
        7
    }

    pub const fn f1_min() -> u8 {
        0
    }

    pub const fn f1_max() -> u8 {
        7
    }

    pub const fn f2_min() -> u8 {
        0
    }

    pub const fn f2_max() -> u8 {
        7
    }

    pub const fn f3_min() -> u8 {
        0
    }

    pub const fn f3_max() -> u8 {
        7
    }

    pub const fn f4_min() -> u8 {
        0
    }

    pub const fn f4_max() -> u8 {
        7
    }
}

#[asn(sequence, extensible_after(f4))]

#[derive(Default, Debug, Clone, PartialEq, Hash)]
pub struct Ts5dmodde5 {
    #[asn(default(integer(0..7), 5))] pub f0: u8,
    #[asn(integer(0..7))] pub f1: u8,
    #[asn(optional(integer(0..7)))] pub f2: Option<u8>,
    #[asn(default(integer(0..7), 5))] pub f3: u8,
    #[asn(default(integer(0..7), 5))] pub f4: u8,
}

impl Ts5dmodde5 {
    pub const fn f0_min() -> u8 {
        0
    }

    pub const fn f0_max() -> u8 {
        7
    }

    pub const fn f1_min() -> u8 {
        0
    }

    pub const fn f1_max() -> u8 {
        7
    }

    pub const fn f2_min() -> u8 {
        0
    }

    pub const fn f2_max() -> u8 {
        7
    }

    pub const fn f3_min() -> u8 {
        0
    }

    pub const fn f3_max() -> u8 {
        7
    }

    pub const fn f4_min() -> u8 {
        0
    }

    pub const fn f4_max() -> u8 {
        7
    }
}

#[asn(sequence)]

#[derive(Default, Debug, Clone, PartialEq, Hash)]
pub struct Ts5mooddn {
    #[asn(integer(0..7))] pub f0: u8,
    #[asn(optional(integer(0..7)))] pub f1: Option<u8>,
    #[asn(optional(integer(0..7)))] pub f2: Option<u8>,
    #[asn(default(integer(0..7), 5))] pub f3: u8,
    #[asn(default(integer(0..7), 5))] pub f4: u8,
}

impl Ts5mooddn {
    pub const fn f0_min() -> u8 {
        0
    }

    pub const fn f0_max() -> u8 {
        7
    }

    pub const fn f1_min() -> u8 {
        0
    }

    pub const fn f1_max() -> u8 {
        7
    }

    pub const fn f2_min() -> u8 {
        0
    }

    pub const fn f2_max() -> u8 {
        7
    }

    pub const fn f3_min() -> u8 {
        0
    }

    pub const fn f3_max() -> u8 {
        7
    }

    pub const fn f4_min() -> u8 {
        0
    }

    pub const fn f4_max() -> u8 {
        7
    }
}

#[asn(sequence, extensible_after(f0))]

#[derive(Default, Debug, Clone, PartialEq, Hash)]
pub struct Ts5moodde0 {
    #[asn(integer(0..7))] pub f0: u8,
    #[asn(optional(integer(0..7)))] pub f1: Option<u8>,
    #[asn(optional(integer(0..7)))] pub f2: Option<u8>,
    #[asn(default(integer(0..7), 5))] pub f3: u8,
    #[asn(default(integer(0..7), 5))] pub f4: u8,
}

impl Ts5moodde0 {
    pub const fn f0_min() -> u8 {
        0
    }

    pub const fn f0_max() -> u8 {
        7
    }

    pub const fn f1_min() -> u8 {
        0
    }

    pub const fn f1_max() -> u8 {
        7
    }

    pub const fn f2_min() -> u8 {
        0
    }

    pub const fn f2_max() -> u8 {
        7
    }

    pub const fn f3_min() -> u8 {
        0
    }

    pub const fn f3_max() -> u8 {
        7
    }

    pub const fn f4_min() -> u8 {
        0
    }

    pub const fn f4_max() -> u8 {
        7
    }
}

#[asn(sequence, extensible_after(f0))]

#[derive(Default, Debug, Clone, PartialEq, Hash)]
pub struct Ts5moodde1 {
    #[asn(integer(0..7))] pub f0: u8,
    #[asn(optional(integer(0..7)))] pub f1: Option<u8>,
    #[asn(optional(integer(0..7)))] pub f2: Option<u8>,
    #[asn(default(integer(0..7), 5))] pub f3: u8,
    #[asn(default(integer(0..7), 5))] pub f4: u8,
}

impl Ts5moodde1 {
    pub const fn f0_min() -> u8 {
        0
    }

    pub const fn f0_max() -> u8 {
        7
    }

    pub const fn f1_min() -> u8 {
        0
    }

    pub const fn f1_max() -> u8 {
        7
    }

    pub const fn f2_min() -> u8 {
        0
    }

    pub const fn f2_max() -> u8 {
        7
    }

    pub const fn f3_min() -> u8 {
        0
    }

    pub const fn f3_max() -> u8 {
        7
    }

    pub const fn f4_min() -> u8 {
        0
    }

    pub const fn f4_max() -> u8 {
        7
    }
}

#[asn(sequence, extensible_after(f1))]

#[derive(Default, Debug, Clone, PartialEq, Hash)]
pub struct Ts5moodde2 {
    #[asn(integer(0..7))] pub f0: u8,
    #[asn(optional(integer(0..7)))] pub f1: Option<u8>,
    #[asn(optional(integer(0..7)))] pub f2: Option<u8>,
    #[asn(default(integer(0..7), 5))] pub f3: u8,
    #[asn(default(integer(0..7), 5))] pub f4: u8,
}

impl Ts5moodde2 {
    pub const fn f0_min() -> u8 {
        0
    }

    pub const fn f0_max() -> u8 {
        7
    }

    pub const fn f1_min() -> u8 {
        0
    }

    pub const fn f1_max() -> u8 {
        7
    }

    pub const fn f2_min() -> u8 {
        0
    }

    pub const fn f2_max() -> u8 {
        7
    }

    pub const fn f3_min() -> u8 {
        0
    }

    pub const fn f3_max() -> u8 {
        7
    }

    pub const fn f4_min() -> u8 {
        0
    }

    pub const fn f4_max() -> u8 {
        7
    }
}

#[asn(sequence, extensible_after(f2))]

#[derive(Default, Debug, Clone, PartialEq, Hash)]
pub struct Ts5moodde3 {
    #[asn(integer(0..7))] pub f0: u8,
    #[asn(optional(integer(0..7)))] pub f1: Option<u8>,
    #[asn(optional(integer(0..7)))] pub f2: Option<u8>,
    #[asn(default(integer(0..7), 5))] pub f3: u8,
    #[asn(default(integer(0..7), 5))] pub f4: u8,
}

impl Ts5moodde3 {
    pub const fn f0_min() -> u8 {
        0
    }

    pub const fn f0_max() -> u8 {
        7
    }

    pub const fn f1_min() -> u8 {
        0
    }

    pub const fn f1_max() -> u8 {
        7
    }

    pub const fn f2_min() -> u8 {
        0
    }

    pub const fn f2_max() -> u8 {
        7
    }

    pub const fn f3_min() -> u8 {
        0
    }

    pub const fn f3_max() -> u8 {
        7
    }

    pub const fn f4_min() -> u8 {
        0
    }

    pub const fn f4_max() -> u8 {
        7
    }
}

#[asn(sequence, extensible_after(f3))]

#[derive(Default, Debug, Clone, PartialEq, Hash)]
pub struct Ts5moodde4 {
    #[asn(integer(0..7))] pub f0: u8,
    #[asn(optional(integer(0..7)))] pub f1: Option<u8>,
    #[asn(optional(integer(0..7)))] pub f2: Option<u8>,
    #[asn(default(integer(0..7), 5))] pub f3: u8,
    #[asn(default(integer(0..7), 5))] pub f4: u8,
}

impl Ts5moodde4 {
    pub const fn f0_min() -> u8 {
        0
    }

    pub const fn f0_max() -> u8 {
        7
    }

    pub const fn f1_min() -> u8 {
        0
    }

    pub const fn f1_max() -> u8 {
        7
    }

    pub const fn f2_min() -> u8 {
        0
    }

    pub const fn f2_max() -> u8 {
        7
    }

    pub const fn f3_min() -> u8 {
        0
    }

    pub const fn f3_max() -> u8 {
        7
    }

    pub const fn f4_min() -> u8 {
        0
    }

    pub const fn f4_max() -> u8 {
        7
    }
}

#[asn(sequence, extensible_after(f4))]

#[derive(Default, Debug, Clone, PartialEq, Hash)]
pub struct Ts5moodde5 {
    #[asn(integer(0..7))] pub f0: u8,
    #[asn(optional(integer(0..7)))] pub f1: Option<u8>,
    #[asn(optional(integer(0..7)))] pub f2: Option<u8>,
    #[asn(default(integer(0..7), 5))] pub f3: u8,
    #[asn(default(integer(0..7), 5))] pub f4: u8,
}

impl Ts5moodde5 {
    pub const fn f0_min() -> u8 {
        0
    }

    pub const fn f0_max() -> u8 {
        7
    }

    pub const fn f1_min() -> u8 {
        0
    }

    pub const fn f1_max() -> u8 {
        7
    }

    pub const fn f2_min() -> u8 {
        0
    }

    pub const fn f2_max() -> u8 {
        7
    }

    pub const fn f3_min() -> u8 {
        0
    }

    pub const fn f3_max() -> u8 {
        7
    }

    pub const fn f4_min() -> u8 {
        0
    }

    pub const fn f4_max() -> u8 {
        7
    }
}

#[asn(sequence)]

#[derive(Default, Debug, Clone, PartialEq, Hash)]
pub struct Ts5oooddn {
    #[asn(optional(integer(0..7)))] pub f0: Option<u8>,
    #[asn(optional(integer(0..7)))] pub f1: Option<u8>,
    #[asn(optional(integer(0..7)))] pub f2: Option<u8>,
    #[asn(default(integer(0..7), 5))] pub f3: u8,
    #[asn(default(integer(0..7), 5))] pub f4: u8,
}

impl Ts5oooddn {
    pub const fn f0_min() -> u8 {
        0
    }

    pub const fn f0_max() -> u8 {
        7
    }

    pub const fn f1_min() -> u8 {
        0
    }

    pub const fn f1_max() -> u8 {
        7
    }

    pub const fn f2_min() -> u8 {
        0
    }

    pub const fn f2_max() -> u8 {
        7
    }

    pub const fn f3_min() -> u8 {
        0
    }

    pub const fn f3_max() -> u8 {
        7
    }

    pub const fn f4_min() -> u8 {
        0
    }

    pub const fn f4_max() -> u8 {
        7
    }
}

#[asn(sequence, extensible_after(f0))]

#[derive(Default, Debug, Clone, PartialEq, Hash)]
pub struct Ts5ooodde0 {
    #[asn(optional(integer(0..7)))] pub f0: Option<u8>,
    #[asn(optional(integer(0..7)))] pub f1: Option<u8>,
    #[asn(optional(integer(0..7)))] pub f2: Option<u8>,
    #[asn(default(integer(0..7), 5))] pub f3: u8,
    #[asn(default(integer(0..7), 5))] pub f4: u8,
}

impl Ts5ooodde0 {
    pub const fn f0_min() -> u8 {
        0
    }

    pub const fn f0_max() -> u8 {
        7
    }

    pub const fn f1_min() -> u8 {
        0
    }

    pub const fn f1_max() -> u8 {
        7
    }

    pub const fn f2_min() -> u8 {
        0
    }

    pub const fn f2_max() -> u8 {
        7
    }

    pub const fn f3_min() -> u8 {
        0
    }

    pub const fn f3_max() -> u8 {
        7
    }

    pub const fn f4_min() -> u8 {
        0
    }

    pub const fn f4_max() -> u8 {
        7
    }
}

#[asn(sequence, extensible_after(f0))]

#[derive(Default, Debug, Clone, PartialEq, Hash)]
pub struct Ts5ooodde1 {
    #[asn(optional(integer(0..7)))] pub f0: Option<u8>,
    #[asn(optional(integer(0..7)))] pub f1: Option<u8>,
    #[asn(optional(integer(0..7)))] pub f2: Option<u8>,
    #[asn(default(integer(0..7), 5))] pub f3: u8,
    #[asn(default(integer(0..7), 5))] pub f4: u8,
}

impl Ts5ooodde1 {
    pub const fn f0_min() -> u8 {
        0
    }

    pub const fn f0_max() -> u8 {
        7
    }

    pub const fn f1_min() -> u8 {
        0
    }

    pub const fn f1_max() -> u8 {
        7
    }

    pub const fn f2_min() -> u8 {
        0
    }

    pub const fn f2_max() -> u8 {
        7
    }

    pub const fn f3_min() -> u8 {
        0
    }

    pub const fn f3_max() -> u8 {
        7
    }

    pub const fn f4_min() -> u8 {
        0
    }

    pub const fn f4_max() -> u8 {
        7
    }
}

#[asn(sequence, extensible_after(f1))]

#[derive(Default, Debug, Clone, PartialEq, Hash)]
pub struct Ts5ooodde2 {
    #[asn(optional(integer(0..7)))] pub f0: Option<u8>,
    #[asn(optional(integer(0..7)))] pub f1: Option<u8>,
    #[asn(optional(integer(0..7)))] pub f2: Option<u8>,
    #[asn(default(integer(0..7), 5))] pub f3: u8,
    #[asn(default(integer(0..7), 5))] pub f4: u8,
}

impl Ts5ooodde2 {
    pub const fn f0_min() -> u8 {
        0
    }

    pub const fn f0_max() -> u8 {
        7
    }

    pub const fn f1_min() -> u8 {
        0
    }

    pub const fn f1_max() -> u8 {
        7
    }

    pub const fn f2_min() -> u8 {
        0
    }

    pub const fn f2_max() -> u8 {
        7
    }

    pub const fn f3_min() -> u8 {
        0
    }

    pub const fn f3_max() -> u8 {
        7
    }

    pub const fn f4_min() -> u8 {
        0
    }

    pub const fn f4_max() -> u8 {
        7
    }
}

#[asn(sequence, extensible_after(f2))]

#[derive(Default, Debug, Clone, PartialEq, Hash)]
pub struct Ts5ooodde3 {
    #[asn(optional(integer(0..7)))] pub f0: Option<u8>,
    #[asn(optional(integer(0..7)))] pub f1: Option<u8>,
    #[asn(optional(integer(0..7)))] pub f2: Option<u8>,
    #[asn(default(integer(0..7), 5))] pub f3: u8,
    #[asn(default(integer(0..7), 5))] pub f4: u8,
}

impl Ts5ooodde3 {
    pub const fn f0_min() -> u8 {
        0
    }

    pub const fn f0_max() -> u8 {
        7
    }

    pub const fn f1_min() -> u8 {
        0
    }

    pub const fn f1_max() -> u8 {
        7
    }

    pub const fn f2_min() -> u8 {
        0
    }

    pub const fn f2_max() -> u8 {
        7
    }

    pub const fn f3_min() -> u8 {
        0
    }

    pub const fn f3_max() -> u8 {
        7
    }

    pub const fn f4_min() -> u8 {
        0
    }

    pub const fn f4_max() -> u8 {
        7
    }
}

#[asn(sequence, extensible_after(f3))]

#[derive(Default, Debug, Clone, PartialEq, Hash)]
pub struct Ts5ooodde4 {
    #[asn(optional(integer(0..7)))] pub f0: Option<u8>,
    #[asn(optional(integer(0..7)))] pub f1: Option<u8>,
    #[asn(optional(integer(0..7)))] pub f2: Option<u8>,
    #[asn(default(integer(0..7), 5))] pub f3: u8,
    #[asn(default(integer(0..7), 5))] pub f4: u8,
}

impl Ts5ooodde4 {
    pub const fn f0_min() -> u8 {
        0
    }

    pub const fn f0_max() -> u8 {
        7
    }

    pub const fn f1_min() -> u8 {
        0
    }

    pub const fn f1_max() -> u8 {
        7
    }

    pub const fn f2_min() -> u8 {
        0
    }

    pub const fn f2_max() -> u8 {
        7
    }

    pub const fn f3_min() -> u8 {
        0
    }

    pub const fn f3_max() -> u8 {
        7
    }

    pub const fn f4_min() -> u8 {
        0
    }

    pub const fn f4_max() -> u8 {
        7
    }
}

#[asn(sequence, extensible_after(f4))]

#[derive(Default, Debug, Clone, PartialEq, Hash)]
pub struct Ts5ooodde5 {
    #[asn(optional(integer(0..7)))] pub f0: Option<u8>,
    #[asn(optional(integer(0..7)))] pub f1: Option<u8>,
    #[asn(optional(integer(0..7)))] pub f2: Option<u8>,
    #[asn(default(integer(0..7), 5))] pub f3: u8,
    #[asn(default(integer(0..7), 5))] pub f4: u8,
}

impl Ts5ooodde5 {
    pub const fn f0_min() -> u8 {
        0
    }

    pub const fn f0_max() -> u8 {
        7
    }

    pub const fn f1_min() -> u8 {
        0
    }

    pub const fn f1_max() -> u8 {
        7
    }

    pub const fn f2_min() -> u8 {
        0
    }

    pub const fn f2_max() -> u8 {
        7
    }

    pub const fn f3_min() -> u8 {
        0
    }

    pub const fn f3_max() -> u8 {
        7
    }

    pub const fn f4_min() -> u8 {
        0
    }

    pub const fn f4_max() -> u8 {
        7
    }
}

#[asn(sequence)]

#[derive(Default, Debug, Clone, PartialEq, Hash)]
pub struct Ts5dooddn {
    #[asn(default(integer(0..7), 5))] pub f0: u8,
    #[asn(optional(integer(0..7)))] pub f1: Option<u8>,
    #[asn(optional(integer(0..7)))] pub f2: Option<u8>,
    #[asn(default(integer(0..7), 5))] pub f3: u8,
    #[asn(default(integer(0..7), 5))] pub f4: u8,
}

impl Ts5dooddn {
    pub const fn f0_min() -> u8 {
        0
    }

    pub const fn f0_max() -> u8 {
        7
    }

    pub const fn f1_min() -> u8 {
        0
    }

    pub const fn f1_max() -> u8 {
        7
    }

    pub const fn f2_min() -> u8 {
        0
    }

    pub const fn f2_max() -> u8 {
        7
    }

    pub const fn f3_min() -> u8 {
        0
    }

    pub const fn f3_max() -> u8 {
        7
    }

    pub const fn f4_min() -> u8 {
        0
    }

    pub const fn f4_max() -> u8 {
        7
    }
}

#[asn(sequence, extensible_after(f0))]

#[derive(Default, Debug, Clone, PartialEq, Hash)]
pub struct Ts5doodde0 {
    #[asn(default(integer(0..7), 5))] pub f0: u8,
    #[asn(optional(integer(0..7)))] pub f1: Option<u8>,
    #[asn(optional(integer(0..7)))] pub f2: Option<u8>,
    #[asn(default(integer(0..7), 5))] pub f3: u8,
    #[asn(default(integer(0..7), 5))] pub f4: u8,
}

impl Ts5doodde0 {
    pub const fn f0_min() -> u8 {
        0
    }

    pub const fn f0_max() -> u8 {
        7
    }

    pub const fn f1_min() -> u8 {
        0
    }

    pub const fn f1_max() -> u8 {
        7
    }

    pub const fn f2_min() -> u8 {
        0
    }

    pub const fn f2_max() -> u8 {
        7
    }

    pub const fn f3_min() -> u8 {
        0
    }

    pub const fn f3_max() -> u8 {
        7
    }

    pub const fn f4_min() -> u8 {
        0
    }

    pub const fn f4_max() -> u8 {
        7
    }
}

#[asn(sequence, extensible_after(f0))]

#[derive(Default, Debug, Clone, PartialEq, Hash)]
pub struct Ts5doodde1 {
    #[asn(default(integer(0..7), 5))] pub f0: u8,
    #[asn(optional(integer(0..7)))] pub f1: Option<u8>,
    #[asn(optional(integer(0..7)))] pub f2: Option<u8>,
    #[asn(default(integer(0..7), 5))] pub f3: u8,
    #[asn(default(integer(0..7), 5))] pub f4: u8,
}

impl Ts5doodde1 {
    pub const fn f0_min() -> u8 {
        0
    }

    pub const fn f0_max() -> u8 {
        7
    }

    pub const fn f1_min() -> u8 {
        0
    }

    pub const fn f1_max() -> u8 {
        7
    }

    pub const fn f2_min() -> u8 {
        0
    }

    pub const fn f2_max() -> u8 {
        7
    }

    pub const fn f3_min() -> u8 {
        0
    }

    pub const fn f3_max() -> u8 {
        7
    }

    pub const fn f4_min() -> u8 {
        0
    }

    pub const fn f4_max() -> u8 {
        7
    }
}

#[asn(sequence, extensible_after(f1))]

#[derive(Default, Debug, Clone, PartialEq, Hash)]
pub struct Ts5doodde2 {
    #[asn(default(integer(0..7), 5))] pub f0: u8,
    #[asn(optional(integer(0..7)))] pub f1: Option<u8>,
    #[asn(optional(integer(0..7)))] pub f2: Option<u8>,
    #[asn(default(integer(0..7), 5))] pub f3: u8,
    #[asn(default(integer(0..7), 5))] pub f4: u8,
}

impl Ts5doodde2 {
    pub const fn f0_min() -> u8 {
        0
    }

    pub const fn f0_max() -> u8 {
        7
    }

    pub const fn f1_min() -> u8 {
        0
    }

    pub const fn f1_max() -> u8 {
        7
    }

    pub const fn f2_min() -> u8 {
        0
    }

    pub const fn f2_max() -> u8 {
        7
    }

    pub const fn f3_min() -> u8 {
        0
    }

    pub const fn f3_max() -> u8 {
        7
    }

    pub const fn f4_min() -> u8 {
        0
    }

    pub const fn f4_max() -> u8 {
        7
    }
}

#[asn(sequence, extensible_after(f2))]

#[derive(Default, Debug, Clone, PartialEq, Hash)]
pub struct Ts5doodde3 {
    #[asn(default(integer(0..7), 5))] pub f0: u8,
    #[asn(optional(integer(0..7)))] pub f1: Option<u8>,
    #[asn(optional(integer(0..7)))] pub f2: Option<u8>,
    #[asn(default(integer(0..7), 5))] pub f3: u8,
    #[asn(default(integer(0..7), 5))] pub f4: u8,
}

impl Ts5doodde3 {
    pub const fn f0_min() -> u8 {
        0
    }

    pub const fn f0_max() -> u8 {
        7
    }

    pub const fn f1_min() -> u8 {
        0
    }

    pub const fn f1_max() -> u8 {
        7
    }

    pub const fn f2_min() -> u8 {
        0
    }

    pub const fn f2_max() -> u8 {
        7
    }

    pub const fn f3_min() -> u8 {
        0
    }

    pub const fn f3_max() -> u8 {
        7
    }

    pub const fn f4_min() -> u8 {
        0
    }

    pub const fn f4_max() -> u8 {
        7
    }
}

#[asn(sequence, extensible_after(f3))]

#[derive(Default, Debug, Clone, PartialEq, Hash)]
pub struct Ts5doodde4 {
    #[asn(default(integer(0..7), 5))] pub f0: u8,
    #[asn(optional(integer(0..7)))] pub f1: Option<u8>,
    #[asn(optional(integer(0..7)))] pub f2: Option<u8>,
    #[asn(default(integer(0..7), 5))] pub f3: u8,
    #[asn(default(integer(0..7), 5))] pub f4: u8,
}

impl Ts5doodde4 {
    pub const fn f0_min() -> u8 {
        0
    }

    pub const fn f0_max() -> u8 {
        7
    }

    pub const fn f1_min() -> u8 {
        0
    }

    pub const fn f1_max() -> u8 {
        7
    }

    pub const fn f2_min() -> u8 {
        0
    }

    pub const fn f2_max() -> u8 {
        7
    }

    pub const fn f3_min() -> u8 {
        0
    }

    pub const fn f3_max() -> u8 {
        7
    }

    pub const fn f4_min() -> u8 {
        0
    }

    pub const fn f4_max() -> u8 {
        7
    }
}

#[asn(sequence, extensible_after(f4))]

#[derive(Default, Debug, Clone, PartialEq, Hash)]
pub struct Ts5doodde5 {
    #[asn(default(integer(0..7), 5))] pub f0: u8,
    #[asn(optional(integer(0..7)))] pub f1: Option<u8>,
    #[asn(optional(integer(0..7)))] pub f2: Option<u8>,
    #[asn(default(integer(0..7), 5))] pub f3: u8,
    #[asn(default(integer(0..7), 5))] pub f4: u8,
}

impl Ts5doodde5 {
    pub const fn f0_min() -> u8 {
        0
    }

    pub const fn f0_max() -> u8 {
        7
    }

    pub const fn f1_min() -> u8 {
        0
    }

    pub const fn f1_max() -> u8 {
        7
    }

    pub const fn f2_min() -> u8 {
        0
    }

    pub const fn f2_max() -> u8 {
        7
    }

    pub const fn f3_min() -> u8 {
        0
    }

    pub const fn f3_max() -> u8 {
        7
    }

    pub const fn f4_min() -> u8 {
        0
    }

    pub const fn f4_max() -> u8 {
        7
    }
}

#[asn(sequence)]

#[derive(Default, Debug, Clone, PartialEq, Hash)]
pub struct Ts5mdoddn {
    #[asn(integer(0..7))] pub f0: u8,
    #[asn(default(integer(0..7), 5))] pub f1: u8,
    #[asn(optional(integer(0..7)))] pub f2: Option<u8>,
    #[asn(default(integer(0..7), 5))] pub f3: u8,
    #[asn(default(integer(0..7), 5))] pub f4: u8,
}

impl Ts5mdoddn {
    pub const fn f0_min() -> u8 {
        0
    }

    pub const fn f0_max() -> u8 {
        7
    }

    pub const fn f1_min() -> u8 {
        0
    }

    pub const fn f1_max() -> u8 {
        7
    }

    pub const fn f2_min() -> u8 {
        0
    }

    pub const fn f2_max() -> u8 {
        7
    }

    pub const fn f3_min() -> u8 {
        0
    }

    pub const fn f3_max() -> u8 {
        7
    }

    pub const fn f4_min() -> u8 {
        0
    }

    pub const fn f4_max() -> u8 {
        7
    }
}

#[asn(sequence, extensible_after(f0))]

#[derive(Default, Debug, Clone, PartialEq, Hash)]
pub struct Ts5mdodde0 {
    #[asn(integer(0..7))] pub f0: u8,
    #[asn(default(integer(0..7), 5))] pub f1: u8,
    #[asn(optional(integer(0..7)))] pub f2: Option<u8>,
    #[asn(default(integer(0..7), 5))] pub f3: u8,
    #[asn(default(integer(0..7), 5))] pub f4: u8,
}

impl Ts5mdodde0 {
    pub const fn f0_min() -> u8 {
        0
    }

    pub const fn f0_max() -> u8 {
        7
    }

    pub const fn f1_min() -> u8 {
        0
    }

    pub const fn f1_max() -> u8 {
        7
    }

    pub const fn f2_min() -> u8 {
        0
    }

    pub const fn f2_max() -> u8 {
        7
    }

    pub const fn f3_min() -> u8 {
        0
    }

    pub const fn f3_max() -> u8 {
        7
    }

    pub const fn f4_min() -> u8 {
        0
    }

    pub const fn f4_max() -> u8 {
        7
    }
}

#[asn(sequence, extensible_after(f0))]

#[derive(Default, Debug, Clone, PartialEq, Hash)]
pub struct Ts5mdodde1 {
    #[asn(integer(0..7))] pub f0: u8,
    #[asn(default(integer(0..7), 5))] pub f1: u8,
    #[asn(optional(integer(0..7)))] pub f2: Option<u8>,
    #[asn(default(integer(0..7), 5))] pub f3: u8,
    #[asn(default(integer(0..7), 5))] pub f4: u8,
}

impl Ts5mdodde1 {
    pub const fn f0_min() -> u8 {
        0
    }

    pub const fn f0_max() -> u8 {
        7
    }

    pub const fn f1_min() -> u8 {
        0
    }

    pub const fn f1_max() -> u8 {
        7
    }

    pub const fn f2_min() -> u8 {
        0
    }

    pub const fn f2_max() -> u8 {
        7
    }

    pub const fn f3_min() -> u8 {
        0
    }

    pub const fn f3_max() -> u8 {
        7
    }

    pub const fn f4_min() -> u8 {
        0
    }

    pub const fn f4_max() -> u8 {
        7
    }
}

#[asn(sequence, extensible_after(f1))]

#[derive(Default, Debug, Clone, PartialEq, Hash)]
pub struct Ts5mdodde2 {
    #[asn(integer(0..7))] pub f0: u8,
    #[asn(default(integer(0..7), 5))] pub f1: u8,
    #[asn(optional(integer(0..7)))] pub f2: Option<u8>,
    #[asn(default(integer(0..7), 5))] pub f3: u8,
    #[asn(default(integer(0..7), 5))] pub f4: u8,
}

impl Ts5mdodde2 {
    pub const fn f0_min() -> u8 {
        0
    }

    pub const fn f0_max() -> u8 {
        7
    }

    pub const fn f1_min() -> u8 {
        0
    }

    pub const fn f1_max() -> u8 {
        7
    }

    pub const fn f2_min() -> u8 {
        0
    }

    pub const fn f2_max() -> u8 {
        7
    }

    pub const fn f3_min() -> u8 {
        0
    }

    pub const fn f3_max() -> u8 {
        7
    }

    pub const fn f4_min() -> u8 {
        0
    }

    pub const fn f4_max() -> u8 {
        7
    }
}

#[asn(sequence, extensible_after(f2))]

#[derive(Default, Debug, Clone, PartialEq, Hash)]
pub struct Ts5mdodde3 {
    #[asn(integer(0..7))] pub f0: u8,
    #[asn(default(integer(0..7), 5))] pub f1: u8,
    #[asn(optional(integer(0..7)))] pub f2: Option<u8>,
    #[asn(default(integer(0..7), 5))] pub f3: u8,
    #[asn(default(integer(0..7), 5))] pub f4: u8,
}

impl Ts5mdodde3 {
    pub const fn f0_min() -> u8 {
        0
    }

    pub const fn f0_max() -> u8 {
        7
    }

    pub const fn f1_min() -> u8 {
        0
    }

    pub const fn f1_max() -> u8 {
        7
    }

    pub const fn f2_min() -> u8 {
        0
    }

    pub const fn f2_max() -> u8 {
        7
    }

    pub const fn f3_min() -> u8 {
        0
    }

    pub const fn f3_max() -> u8 {
        7
    }

    pub const fn f4_min() -> u8 {
        0
    }

    pub const fn f4_max() -> u8 {
        7
    }
}

#[asn(sequence, extensible_after(f3))]

#[derive(Default, Debug, Clone, PartialEq, Hash)]
pub struct Ts5mdodde4 {
    #[asn(integer(0..7))] pub f0: u8,
    #[asn(default(integer(0..7), 5))] pub f1: u8,
    #[asn(optional(integer(0..7)))] pub f2: Option<u8>,
    #[asn(default(integer(0..7), 5))] pub f3: u8,
    #[asn(default(integer(0..7), 5))] pub f4: u8,
}

impl Ts5mdodde4 {
    pub const fn f0_min() -> u8 {
        0
    }

    pub const fn f0_max() -> u8 {
        7
    }

    pub const fn f1_min() -> u8 {
        0
    }

    pub const fn f1_max() -> u8 {
        7
    }

    pub const fn f2_min() -> u8 {
        0
    }

    pub const fn f2_max() -> u8 {
        7
    }

    pub const fn f3_min() -> u8 {
        0
    }

    pub const fn f3_max() -> u8 {
        7
    }

    pub const fn f4_min() -> u8 {
        0
    }

    pub const fn f4_max() -> u8 {
        7
    }
}

#[asn(sequence, extensible_after(f4))]

#[derive(Default, Debug, Clone, PartialEq, Hash)]
pub struct Ts5mdodde5 {
    #[asn(integer(0..7))] pub f0: u8,
    #[asn(default(integer(0..7), 5))] pub f1: u8,
    #[asn(optional(integer(0..7)))] pub f2: Option<u8>,
    #[asn(default(integer(0..7), 5))] pub f3: u8,
    #[asn(default(integer(0..7), 5))] pub f4: u8,
}

impl Ts5mdodde5 {
    pub const fn f0_min() -> u8 {
        0
    }

    pub const fn f0_max() -> u8 {
        7
    }

    pub const fn f1_min() -> u8 {
        0
    }

    pub const fn f1_max() -> u8 {
        7
    }

    pub const fn f2_min() -> u8 {
        0
    }

    pub const fn f2_max() -> u8 {
        7
    }

    pub const fn f3_min() -> u8 {
        0
    }

    pub const fn f3_max() -> u8 {
        7
    }

    pub const fn f4_min() -> u8 {
        0
    }

    pub const fn f4_max() -> u8 {
        7
    }
}

#[asn(sequence)]

#[derive(Default, Debug, Clone, PartialEq, Hash)]
pub struct Ts5ododdn {
    #[asn(optional(integer(0..7)))] pub f0: Option<u8>,
    #[asn(default(integer(0..7), 5))] pub f1: u8,
    #[asn(optional(integer(0..7)))] pub f2: Option<u8>,
    #[asn(default(integer(0..7), 5))] pub f3: u8,
    #[asn(default(integer(0..7), 5))] pub f4: u8,
}

impl Ts5ododdn {
    pub const fn f0_min() -> u8 {
        0
    }

    pub const fn f0_max() -> u8 {
        7
    }

    pub const fn f1_min() -> u8 {
        0
    }

    pub const fn f1_max() -> u8 {
        7
    }

    pub const fn f2_min() -> u8 {
        0
    }

    pub const fn f2_max() -> u8 {
        7
    }

    pub const fn f3_min() -> u8 {
        0
    }

    pub const fn f3_max() -> u8 {
        7
    }

    pub const fn f4_min() -> u8 {
        0
    }

    pub const fn f4_max() -> u8 {
        7
    }
}

#[asn(sequence, extensible_after(f0))]

#[derive(Default, Debug, Clone, PartialEq, Hash)]
pub struct Ts5ododde0 {
    #[asn(optional(integer(0..7)))] pub f0: Option<u8>,
    #[asn(default(integer(0..7), 5))] pub f1: u8,
    #[asn(optional(integer(0..7)))] pub f2: Option<u8>,
    #[asn(default(integer(0..7), 5))] pub f3: u8,
    #[asn(default(integer(0..7), 5))] pub f4: u8,
}

impl Ts5ododde0 {
    pub const fn f0_min() -> u8 {
        0
    }

    pub const fn f0_max() -> u8 {
        7
    }

    pub const fn f1_min() -> u8 {
        0
    }

    pub const fn f1_max() -> u8 {
        7
    }

    pub const fn f2_min() -> u8 {
        0
    }

    pub const fn f2_max() -> u8 {
        7
    }

    pub const fn f3_min() -> u8 {
        0
    }

    pub const fn f3_max() -> u8 {
        7
    }

    pub const fn f4_min() -> u8 {
        0
    }

    pub const fn f4_max() -> u8 {
        7
    }
}

#[asn(sequence, extensible_after(f0))]

#[derive(Default, Debug, Clone, PartialEq, Hash)]
pub struct Ts5ododde1 {
    #[asn(optional(integer(0..7)))] pub f0: Option<u8>,
    #[asn(default(integer(0..7), 5))] pub f1: u8,
    #[asn(optional(integer(0..7)))] pub f2: Option<u8>,
    #[asn(default(integer(0..7), 5))] pub f3: u8,
    #[asn(default(integer(0..7), 5))] pub f4: u8,
}

impl Ts5ododde1 {
    pub const fn f0_min() -> u8 {
        0
    }

    pub const fn f0_max() -> u8 {
        7
    }

    pub const fn f1_min() -> u8 {
        0
    }

    pub const fn f1_max() -> u8 {
        7
    }

    pub const fn f2_min() -> u8 {
        0
    }

    pub const fn f2_max() -> u8 {
        7
    }

    pub const fn f3_min() -> u8 {
        0
    }

    pub const fn f3_max() -> u8 {
        7
    }

    pub const fn f4_min() -> u8 {
        0
    }

    pub const fn f4_max() -> u8 {
        7
    }
}

#[asn(sequence, extensible_after(f1))]

#[derive(Default, Debug, Clone, PartialEq, Hash)]
pub struct Ts5ododde2 {
    #[asn(optional(integer(0..7)))] pub f0: Option<u8>,
    #[asn(default(integer(0..7), 5))] pub f1: u8,
    #[asn(optional(integer(0..7)))] pub f2: Option<u8>,
    #[asn(default(integer(0..7), 5))] pub f3: u8,
    #[asn(default(integer(0..7), 5))] pub f4: u8,
}

impl Ts5ododde2 {
    pub const fn f0_min() -> u8 {
        0
    }

    pub const fn f0_max() -> u8 {
        7
    }

    pub const fn f1_min() -> u8 {
        0
    }

    pub const fn f1_max() -> u8 {
        7
    }

    pub const fn f2_min() -> u8 {
        0
    }

    pub const fn f2_max() -> u8 {
        7
    }

    pub const fn f3_min() -> u8 {
        0
    }

    pub const fn f3_max() -> u8 {
        7
    }

    pub const fn f4_min() -> u8 {
        0
    }

    pub const fn f4_max() -> u8 {
        7
    }
}

#[asn(sequence, extensible_after(f2))]

#[derive(Default, Debug, Clone, PartialEq, Hash)]
pub struct Ts5ododde3 {
    #[asn(optional(integer(0..7)))] pub f0: Option<u8>,
    #[asn(default(integer(0..7), 5))] pub f1: u8,
    #[asn(optional(integer(0..7)))] pub f2: Option<u8>,
    #[asn(default(integer(0..7), 5))] pub f3: u8,
    #[asn(default(integer(0..7), 5))] pub f4: u8,
}

impl Ts5ododde3 {
    pub const fn f0_min() -> u8 {
        0
    }

    pub const fn f0_max() -> u8 {
        7
    }

    pub const fn f1_min() -> u8 {
        0
    }

    pub const fn f1_max() -> u8 {
        7
    }

    pub const fn f2_min() -> u8 {
        0
    }

    pub const fn f2_max() -> u8 {
        7
    }

    pub const fn f3_min() -> u8 {
        0
    }

    pub const fn f3_max() -> u8 {
        7
    }

    pub const fn f4_min() -> u8 {
        0
    }

    pub const fn f4_max() -> u8 {
        7
    }
}

#[asn(sequence, extensible_after(f3))]

#[derive(Default, Debug, Clone, PartialEq, Hash)]
pub struct Ts5ododde4 {
    #[asn(optional(integer(0..7)))] pub f0: Option<u8>,
    #[asn(default(integer(0..7), 5))] pub f1: u8,
    #[asn(optional(integer(0..7)))] pub f2: Option<u8>,
    #[asn(default(integer(0..7), 5))] pub f3: u8,
    #[asn(default(integer(0..7), 5))] pub f4: u8,
}

impl Ts5ododde4 {
    pub const fn f0_min() -> u8 {
        0
    }

    pub const fn f0_max() -> u8 {
        7
    }

    pub const fn f1_min() -> u8 {
        0
    }

    pub const fn f1_max() -> u8 {
        7
    }

    pub const fn f2_min() -> u8 {
        0
    }

    pub const fn f2_max() -> u8 {
        7
    }

    pub const fn f3_min() -> u8 {
        0
    }

    pub const fn f3_max() -> u8 {
        7
    }

    pub const fn f4_min() -> u8 {
        0
    }

    pub const fn f4_max() -> u8 {
        7
    }
}

#[asn(sequence, extensible_after(f4))]

#[derive(Default, Debug, Clone, PartialEq, Hash)]
pub struct Ts5ododde5 {
    #[asn(optional(integer(0..7)))] pub f0: Option<u8>,
    #[asn(default(integer(0..7), 5))] pub f1: u8,
    #[asn(optional(integer(0..7)))] pub f2: Option<u8>,
    #[asn(default(integer(0..7), 5))] pub f3: u8,
    #[asn(default(integer(0..7), 5))] pub f4: u8,
}

impl Ts5ododde5 {
    pub const fn f0_min() -> u8 {
        0
    }

    pub const fn f0_max() -> u8 {
        7
    }

    pub const fn f1_min() -> u8 {
        0
    }

    pub const fn f1_max() -> u8 {
        7
    }

    pub const fn f2_min() -> u8 {
        0
    }

    pub const fn f2_max() -> u8 {
        7
    }

    pub const fn f3_min() -> u8 {
        0
    }

    pub const fn f3_max() -> u8 {
        7
    }

    pub const fn f4_min() -> u8 {
        0
    }

    pub const fn f4_max() -> u8 {
        7
    }
}

#[asn(sequence)]

#[derive(Default, Debug, Clone, PartialEq, Hash)]
pub struct Ts5ddoddn {
    #[asn(default(integer(0..7), 5))] pub f0: u8,
    #[asn(default(integer(0..7), 5))] pub f1: u8,
    #[asn(optional(integer(0..7)))] pub f2: Option<u8>,
    #[asn(default(integer(0..7), 5))] pub f3: u8,
    #[asn(default(integer(0..7), 5))] pub f4: u8,
}

impl Ts5ddoddn {
    pub const fn f0_min() -> u8 {
        0
    }

    pub const fn f0_max() -> u8 {
        7
    }

    pub const fn f1_min() -> u8 {
        0
    }

    pub const fn f1_max() -> u8 {
        7
    }

    pub const fn f2_min() -> u8 {
        0
    }

    pub const fn f2_max() -> u8 {
        7
    }

    pub const fn f3_min() -> u8 {
        0
    }

    pub const fn f3_max() -> u8 {
        7
    }

    pub const fn f4_min() -> u8 {
        0
    }

    pub const fn f4_max() -> u8 {
        7
    }
}

#[asn(sequence, extensible_after(f0))]

#[derive(Default, Debug, Clone, PartialEq, Hash)]
pub struct Ts5ddodde0 {
    #[asn(default(integer(0..7), 5))] pub f0: u8,
    #[asn(default(integer(0..7), 5))] pub f1: u8,
    #[asn(optional(integer(0..7)))] pub f2: Option<u8>,
    #[asn(default(integer(0..7), 5))] pub f3: u8,
    #[asn(default(integer(0..7), 5))] pub f4: u8,
}

impl Ts5ddodde0 {
    pub const fn f0_min() -> u8 {
        0
    }

    pub const fn f0_max() -> u8 {
        7
    }

    pub const fn f1_min() -> u8 {
        0
    }

    pub const fn f1_max() -> u8 {
        7
    }

    pub const fn f2_min() -> u8 {
        0
    }

    pub const fn f2_max() -> u8 {
        7
    }

    pub const fn f3_min() -> u8 {
        0
    }

    pub const fn f3_max() -> u8 {
        7
    }

    pub const fn f4_min() -> u8 {
        0
    }

    pub const fn f4_max() -> u8 {
        7
    }
}

#[asn(sequence, extensible_after(f0))]

#[derive(Default, Debug, Clone, PartialEq, Hash)]
pub struct Ts5ddodde1 {
    #[asn(default(integer(0..7), 5))] pub f0: u8,
    #[asn(default(integer(0..7), 5))] pub f1: u8,
    #[asn(optional(integer(0..7)))] pub f2: Option<u8>,
    #[asn(default(integer(0..7), 5))] pub f3: u8,
    #[asn(default(integer(0..7), 5))] pub f4: u8,
}

impl Ts5ddodde1 {
    pub const fn f0_min() -> u8 {
        0
    }

    pub const fn f0_max() -> u8 {
        7
    }

    pub const fn f1_min() -> u8 {
        0
    }

    pub const fn f1_max() -> u8 {
        7
    }

    pub const fn f2_min() -> u8 {
        0
    }

    pub const fn f2_max() -> u8 {
        7
    }

    pub const fn f3_min() -> u8 {
        0
    }

    pub const fn f3_max() -> u8 {
        7
    }

    pub const fn f4_min() -> u8 {
        0
    }

    pub const fn f4_max() -> u8 {
        7
    }
}

#[asn(sequence, extensible_after(f1))]

#[derive(Default, Debug, Clone, PartialEq, Hash)]
pub struct Ts5ddodde2 {
    #[asn(default(integer(0..7), 5))] pub f0: u8,
    #[asn(default(integer(0..7), 5))] pub f1: u8,
    #[asn(optional(integer(0..7)))] pub f2: Option<u8>,
    #[asn(default(integer(0..7), 5))] pub f3: u8,
    #[asn(default(integer(0..7), 5))] pub f4: u8,
}

impl Ts5ddodde2 {
    pub const fn f0_min() -> u8 {
        0
    }

    pub const fn f0_max() -> u8 {
        7
    }

    pub const fn f1_min() -> u8 {
        0
    }

    pub const fn f1_max() -> u8 {
        7
    }

    pub const fn f2_min() -> u8 {
        0
    }

    pub const fn f2_max() -> u8 {
        7
    }

    pub const fn f3_min() -> u8 {
        0
    }

    pub const fn f3_max() -> u8 {
        7
    }

    pub const fn f4_min() -> u8 {
        0
    }

    pub const fn f4_max() -> u8 {
        7
    }
}

#[asn(sequence, extensible_after(f2))]

#[derive(Default, Debug, Clone, PartialEq, Hash)]
pub struct Ts5ddodde3 {
    #[asn(default(integer(0..7), 5))] pub f0: u8,
    #[asn(default(integer(0..7), 5))] pub f1: u8,
    #[asn(optional(integer(0..7)))] pub f2: Option<u8>,
    #[asn(default(integer(0..7), 5))] pub f3: u8,
    #[asn(default(integer(0..7), 5))] pub f4: u8,
}

impl Ts5ddodde3 {
    pub const fn f0_min() -> u8 {
        0
    }

    pub const fn f0_max() -> u8 {
        7
    }

    pub const fn f1_min() -> u8 {
        0
    }

    pub const fn f1_max() -> u8 {
        7
    }

    pub const fn f2_min() -> u8 {
        0
    }

    pub const fn f2_max() -> u8 {
        7
    }

    pub const fn f3_min() -> u8 {
        0
    }

    pub const fn f3_max() -> u8 {
        7
    }

    pub const fn f4_min() -> u8 {
        0
    }

    pub const fn f4_max() -> u8 {
        7
    }
}

#[asn(sequence, extensible_after(f3))]

#[derive(Default, Debug, Clone, PartialEq, Hash)]
pub struct Ts5ddodde4 {
    #[asn(default(integer(0..7), 5))] pub f0: u8,
    #[asn(default(integer(0..7), 5))] pub f1: u8,
    #[asn(optional(integer(0..7)))] pub f2: Option<u8>,
    #[asn(default(integer(0..7), 5))] pub f3: u8,
    #[asn(default(integer(0..7), 5))] pub f4: u8,
}

impl Ts5ddodde4 {
    pub const fn f0_min() -> u8 {
        0
    }

    pub const fn f0_max() -> u8 {
        7
    }

    pub const fn f1_min() -> u8 {
        0
    }

    pub const fn f1_max() -> u8 {
        7
    }

    pub const fn f2_min() -> u8 {
        0
    }

    pub const fn f2_max() -> u8 {
        7
    }

    pub const fn f3_min() -> u8 {
        0
    }

    pub const fn f3_max() -> u8 {
        7
    }

    pub const fn f4_min() -> u8 {
        0
    }

    pub const fn f4_max() -> u8 {
        7
    }
}

#[asn(sequence, extensible_after(f4))]

#[derive(Default, Debug, Clone, PartialEq, Hash)]
pub struct Ts5ddodde5 {
    #[asn(default(integer(0..7), 5))] pub f0: u8,
    #[asn(default(integer(0..7), 5))] pub f1: u8,
    #[asn(optional(integer(0..7)))] pub f2: Option<u8>,
    #[asn(default(integer(0..7), 5))] pub f3: u8,
    #[asn(default(integer(0..7), 5))] pub f4: u8,
}

impl Ts5ddodde5 {
    pub const fn f0_min() -> u8 {
        0
    }

    pub const fn f0_max() -> u8 {
        7
    }

    pub const fn f1_min() -> u8 {
        0
    }

    pub const fn f1_max() -> u8 {
        7
    }

    pub const fn f2_min() -> u8 {
        0
    }

    pub const fn f2_max() -> u8 {
        7
    }

    pub const fn f3_min() -> u8 {
        0
    }

    pub const fn f3_max() -> u8 {
        7
    }

    pub const fn f4_min() -> u8 {
        0
    }

    pub const fn f4_max() -> u8 {
        7
    }
}

#[asn(sequence)]

#[derive(Default, Debug, Clone, PartialEq, Hash)]
pub struct Ts5mmdddn {
    #[asn(integer(0..7))] pub f0: u8,
    #[asn(integer(0..7))] pub f1: u8,
    #[asn(default(integer(0..7), 5))] pub f2: u8,
    #[asn(default(integer(0..7), 5))] pub f3: u8,
    #[asn(default(integer(0..7), 5))] pub f4: u8,
}

impl Ts5mmdddn {
    pub const fn f0_min() -> u8 {
        0
    }

    pub const fn f0_max() -> u8 {
        7
    }

    pub const fn f1_min() -> u8 {
        0
    }

    pub const fn f1_max() -> u8 {
        7
    }

    pub const fn f2_min() -> u8 {
        0
    }

    pub const fn f2_max() -> u8 {
        7
    }

    pub const fn f3_min() -> u8 {
        0
    }

    pub const fn f3_max() -> u8 {
        7
    }

    pub const fn f4_min() -> u8 {
        0
    }

    pub const fn f4_max() -> u8 {
        7
    }
}

#[asn(sequence, extensible_after(f0))]

#[derive(Default, Debug, Clone, PartialEq, Hash)]
pub struct Ts5mmddde0 {
    #[asn(integer(0..7))] pub f0: u8,
    #[asn(optional(integer(0..7)))] pub f1: Option<u8>,
    #[asn(default(integer(0..7), 5))] pub f2: u8,
    #[asn(default(integer(0..7), 5))] pub f3: u8,
    #[asn(default(integer(0..7), 5))] pub f4: u8,
}

impl Ts5mmddde0 {
    pub const fn f0_min() -> u8 {
        0
    }

    pub const fn f0_max() -> u8 {
        7
    }

    pub const fn f1_min() -> u8 {
        0
    }

    pub const fn f1_max() -> u8 {
        7
    }

    pub const fn f2_min() -> u8 {
        0
    }

    pub const fn f2_max() -> u8 {
        7
    }

    pub const fn f3_min() -> u8 {
        0
    }

    pub const fn f3_max() -> u8 {
        7
    }

    pub const fn f4_min() -> u8 {
        0
    }

    pub const fn f4_max() -> u8 {
        7
    }
}

#[asn(sequence, extensible_after(f0))]

#[derive(Default, Debug, Clone, PartialEq, Hash)]
pub struct Ts5mmddde1 {
    #[asn(integer(0..7))] pub f0: u8,
    #[asn(optional(integer(0..7)))] pub f1: Option<u8>,
    #[asn(default(integer(0..7), 5))] pub f2: u8,
    #[asn(default(integer(0..7), 5))] pub f3: u8,
    #[asn(default(integer(0..7), 5))] pub f4: u8,
}

impl Ts5mmddde1 {
    pub const fn f0_min() -> u8 {
        0
    }

    pub const fn f0_max() -> u8 {
        7
    }

    pub const fn f1_min() -> u8 {
        0
    }

    pub const fn f1_max() -> u8 {
        7
    }

    pub const fn f2_min() -> u8 {
        0
    }

    pub const fn f2_max() -> u8 {
        7
    }

    pub const fn f3_min() -> u8 {
        0
    }

    pub const fn f3_max() -> u8 {
        7
    }

    pub const fn f4_min() -> u8 {
        0
    }

    pub const fn f4_max() -> u8 {
        7
    }
}

#[asn(sequence, extensible_after(f1))]

#[derive(Default, Debug, Clone, PartialEq, Hash)]
pub struct Ts5mmddde2 {
    #[asn(integer(0..7))] pub f0: u8,
    #[asn(integer(0..7))] pub f1: u8,
    #[asn(default(integer(0..7), 5))] pub f2: u8,
    #[asn(default(integer(0..7), 5))] pub f3: u8,
    #[asn(default(integer(0..7), 5))] pub f4: u8,
}

impl Ts5mmddde2 {
    pub const fn f0_min() -> u8 {
        0
    }

    pub const fn f0_max() -> u8 {
        7
    }

    pub const fn f1_min() -> u8 {
        0
    }

    pub const fn f1_max() -> u8 {
        7
    }

    pub const fn f2_min() -> u8 {
        0
    }

    pub const fn f2_max() -> u8 {
        7
    }

    pub const fn f3_min() -> u8 {
        0
    }

    pub const fn f3_max() -> u8 {
        7
    }

    pub const fn f4_min() -> u8 {
        0
    }

    pub const fn f4_max() -> u8 {
        7
    }
}

#[asn(sequence, extensible_after(f2))]

#[derive(Default, Debug, Clone, PartialEq, Hash)]
pub struct Ts5mmddde3 {
    #[asn(integer(0..7))] pub f0: u8,
    #[asn(integer(0..7))] pub f1: u8,
    #[asn(default(integer(0..7), 5))] pub f2: u8,
    #[asn(default(integer(0..7), 5))] pub f3: u8,
    #[asn(default(integer(0..7), 5))] pub f4: u8,
}

impl Ts5mmddde3 {
    pub const fn f0_min() -> u8 {
        0
    }

    pub const fn f0_max() -> u8 {
        7
    }

    pub const fn f1_min() -> u8 {
        0
    }

    pub const fn f1_max() -> u8 {
        7
    }

    pub const fn f2_min() -> u8 {
        0
    }

    pub const fn f2_max() -> u8 {
        7
    }

    pub const fn f3_min() -> u8 {
        0
    }

    pub const fn f3_max() -> u8 {
        7
    }

    pub const fn f4_min() -> u8 {
        0
    }

    pub const fn f4_max() -> u8 {
        7
    }
}

#[asn(sequence, extensible_after(f3))]

#[derive(Default, Debug, Clone, PartialEq, Hash)]
pub struct Ts5mmddde4 {
    #[asn(integer(0..7))] pub f0: u8,
    #[asn(integer(0..7))] pub f1: u8,
    #[asn(default(integer(0..7), 5))] pub f2: u8,
    #[asn(default(integer(0..7), 5))] pub f3: u8,
    #[asn(default(integer(0..7), 5))] pub f4: u8,
}

impl Ts5mmddde4 {
    pub const fn f0_min() -> u8 {
        0
    }

    pub const fn f0_max() -> u8 {
        7
    }

    pub const fn f1_min() -> u8 {
        0
    }

    pub const fn f1_max() -> u8 {
        7
    }

    pub const fn f2_min() -> u8 {
        0
    }

    pub const fn f2_max() -> u8 {
        7
    }

    pub const fn f3_min() -> u8 {
        0
    }

    pub const fn f3_max() -> u8 {
        7
    }

    pub const fn f4_min() -> u8 {
        0
    }

    pub const fn f4_max() -> u8 {
        7
    }
}

#[asn(sequence, extensible_after(f4))]

#[derive(Default, Debug, Clone, PartialEq, Hash)]
pub struct Ts5mmddde5 {
    #[asn(integer(0..7))] pub f0: u8,
    #[asn(integer(0..7))] pub f1: u8,
    #[asn(default(integer(0..7), 5))] pub f2: u8,
    #[asn(default(integer(0..7), 5))] pub f3: u8,
    #[asn(default(integer(0..7), 5))] pub f4: u8,
}

impl Ts5mmddde5 {
    pub const fn f0_min() -> u8 {
        0
    }

    pub const fn f0_max() -> u8 {
        7
    }

    pub const fn f1_min() -> u8 {
        0
    }

    pub const fn f1_max() -> u8 {
        7
    }

    pub const fn f2_min() -> u8 {
        0
    }

    pub const fn f2_max() -> u8 {
        7
    }

    pub const fn f3_min() -> u8 {
        0
    }

    pub const fn f3_max() -> u8 {
        7
    }

    pub const fn f4_min() -> u8 {
        0
    }

    pub const fn f4_max() -> u8 {
        7
    }
}

#[asn(sequence)]

#[derive(Default, Debug, Clone, PartialEq, Hash)]
pub struct Ts5omdddn {
    #[asn(optional(integer(0..7)))] pub f0: Option<u8>,
    #[asn(integer(0..7))] pub f1: u8,
    #[asn(default(integer(0..7), 5))] pub f2: u8,
    #[asn(default(integer(0..7), 5))] pub f3: u8,
    #[asn(default(integer(0..7), 5))] pub f4: u8,
}

impl Ts5omdddn {
    pub const fn f0_min() -> u8 {
        0
    }

    pub const fn f0_max() -> u8 {
        7
    }

    pub const fn f1_min() -> u8 {
        0
    }

    pub const fn f1_max() -> u8 {
        7
    }

    pub const fn f2_min() -> u8 {
        0
    }

    pub const fn f2_max() -> u8 {
        7
    }

    pub const fn f3_min() -> u8 {
        0
    }

    pub const fn f3_max() -> u8 {
        7
    }

    pub const fn f4_min() -> u8 {
        0
    }

    pub const fn f4_max() -> u8 {
        7
    }
}

#[asn(sequence, extensible_after(f0))]

#[derive(Default, Debug, Clone, PartialEq, Hash)]
pub struct Ts5omddde0 {
    #[asn(optional(integer(0..7)))] pub f0: Option<u8>,
    #[asn(optional(integer(0..7)))] pub f1: Option<u8>,
    #[asn(default(integer(0..7), 5))] pub f2: u8,
    #[asn(default(integer(0..7), 5))] pub f3: u8,
    #[asn(default(integer(0..7), 5))] pub f4: u8,
}

impl Ts5omddde0 {
    pub const fn f0_min() -> u8 {
        0
    }

    pub const fn f0_max() -> u8 {
        7
    }

    pub const fn f1_min() -> u8 {
        0
    }

    pub const fn f1_max() -> u8 {
        7
    }

    pub const fn f2_min() -> u8 {
        0
    }

    pub const fn f2_max() -> u8 {
        7
    }

    pub const fn f3_min() -> u8 {
        0
    }

    pub const fn f3_max() -> u8 {
        7
    }

    pub const fn f4_min() -> u8 {
        0
    }

    pub const fn f4_max() -> u8 {
        7
    }
}

#[asn(sequence, extensible_after(f0))]

#[derive(Default, Debug, Clone, PartialEq, Hash)]
pub struct Ts5omddde1 {
    #[asn(optional(integer(0..7)))] pub f0: Option<u8>,
    #[asn(optional(integer(0..7)))] pub f1: Option<u8>,
    #[asn(default(integer(0..7), 5))] pub f2: u8,
    #[asn(default(integer(0..7), 5))] pub f3: u8,
    #[asn(default(integer(0..7), 5))] pub f4: u8,
}

impl Ts5omddde1 {
    pub const fn f0_min() -> u8 {
        0
    }

    pub const fn f0_max() -> u8 {
        7
    }

    pub const fn f1_min() -> u8 {
        0
    }

    pub const fn f1_max() -> u8 {
        7
    }

    pub const fn f2_min() -> u8 {
        0
    }

    pub const fn f2_max() -> u8 {
        7
    }

    pub const fn f3_min() -> u8 {
        0
    }

    pub const fn f3_max() -> u8 {
        7
    }

    pub const fn f4_min() -> u8 {
        0
    }

    pub const fn f4_max() -> u8 {
        7
    }
}

#[asn(sequence, extensible_after(f1))]

#[derive(Default, Debug, Clone, PartialEq, Hash)]
pub struct Ts5omddde2 {
    #[asn(optional(integer(0..7)))] pub f0: Option<u8>,
    #[asn(integer(0..7))] pub f1: u8,
    #[asn(default(integer(0..7), 5))] pub f2: u8,
    #[asn(default(integer(0..7), 5))] pub f3: u8,
    #[asn(default(integer(0..7), 5))] pub f4: u8,
}

impl Ts5omddde2 {
    pub const fn f0_min() -> u8 {
        0
    }

    pub const fn f0_max() -> u8 {
        7
    }

    pub const fn f1_min() -> u8 {
        0
    }

    pub const fn f1_max() -> u8 {
        7
    }

    pub const fn f2_min() -> u8 {
        0
    }

    pub const fn f2_max() -> u8 {
        7
    }

    pub const fn f3_min() -> u8 {
        0
    }

    pub const fn f3_max() -> u8 {
        7
    }

    pub const fn f4_min() -> u8 {
        0
    }

    pub const fn f4_max() -> u8 {
        7
    }
}

#[asn(sequence, extensible_after(f2))]

#[derive(Default, Debug, Clone, PartialEq, Hash)]
pub struct Ts5omddde3 {
    #[asn(optional(integer(0..7)))] pub f0: Option<u8>,
    #[asn(integer(0..7))] pub f1: u8,
    #[asn(default(integer(0..7), 5))] pub f2: u8,
    #[asn(default(integer(0..7), 5))] pub f3: u8,
    #[asn(default(integer(0..7), 5))] pub f4: u8,
}

impl Ts5omddde3 {
    pub const fn f0_min() -> u8 {
        0
    }

    pub const fn f0_max() -> u8 {
        7
    }

    pub const fn f1_min() -> u8 {
        0
    }

    pub const fn f1_max() -> u8 {
        7
    }

    pub const fn f2_min() -> u8 {
        0
    }

    pub const fn f2_max() -> u8 {
        7
    }

    pub const fn f3_min() -> u8 {
        0
    }

    pub const fn f3_max() -> u8 {
        7
    }

    pub const fn f4_min() -> u8 {
        0
    }

    pub const fn f4_max() -> u8 {
        7
    }
}

#[asn(sequence, extensible_after(f3))]

#[derive(Default, Debug, Clone, PartialEq, Hash)]
pub struct Ts5omddde4 {
    #[asn(optional(integer(0..7)))] pub f0: Option<u8>,
    #[asn(integer(0..7))] pub f1: u8,
    #[asn(default(integer(0..7), 5))] pub f2: u8,
    #[asn(default(integer(0..7), 5))] pub f3: u8,
    #[asn(default(integer(0..7), 5))] pub f4: u8,
}

impl Ts5omddde4 {
    pub const fn f0_min() -> u8 {
        0
    }

    pub const fn f0_max() -> u8 {
        7
    }

    pub const fn f1_min() -> u8 {
        0
    }

    pub const fn f1_max() -> u8 {
        7
    }

    pub const fn f2_min() -> u8 {
        0
    }

    pub const fn f2_max() -> u8 {
        7
    }

    pub const fn f3_min() -> u8 {
        0
    }

    pub const fn f3_max() -> u8 {
        7
    }

    pub const fn f4_min() -> u8 {
        0
    }

    pub const fn f4_max() -> u8 {
        7
    }
}

#[asn(sequence, extensible_after(f4))]

#[derive(Default, Debug, Clone, PartialEq, Hash)]
pub struct Ts5omddde5 {
    #[asn(optional(integer(0..7)))] pub f0: Option<u8>,
    #[asn(integer(0..7))] pub f1: u8,
    #[asn(default(integer(0..7), 5))] pub f2: u8,
    #[asn(default(integer(0..7), 5))] pub f3: u8,
    #[asn(default(integer(0..7), 5))] pub f4: u8,
}

impl Ts5omddde5 {
    pub const fn f0_min() -> u8 {
        0
    }

    pub const fn f0_max() -> u8 {
        7
    }

    pub const fn f1_min() -> u8 {
        0
    }

    pub const fn f1_max() -> u8 {
        7
    }

    pub const fn f2_min() -> u8 {
        0
    }

    pub const fn f2_max() -> u8 {
        7
    }

    pub const fn f3_min() -> u8 {
        0
    }

    pub const fn f3_max() -> u8 {
        7
    }

    pub const fn f4_min() -> u8 {
        0
    }

    pub const fn f4_max() -> u8 {
        7
    }
}

#[asn(sequence)]

#[derive(Default, Debug, Clone, PartialEq, Hash)]
pub struct Ts5dmdddn {
    #[asn(default(integer(0..7), 5))] pub f0: u8,
    #[asn(integer(0..7))] pub f1: u8,
    #[asn(default(integer(0..7), 5))] pub f2: u8,
    #[asn(default(integer(0..7), 5))] pub f3: u8,
    #[asn(default(integer(0..7), 5))] pub f4: u8,
}

impl Ts5dmdddn {
    pub const fn f0_min() -> u8 {
        0
    }

    pub const fn f0_max() -> u8 {
        7
    }

    pub const fn f1_min() -> u8 {
        0
    }

    pub const fn f1_max() -> u8 {
        7
    }

    pub const fn f2_min() -> u8 {
        0
    }

    pub const fn f2_max() -> u8 {
        7
    }

    pub const fn f3_min() -> u8 {
        0
    }

    pub const fn f3_max() -> u8 {
        7
    }

    pub const fn f4_min() -> u8 {
        0
    }

    pub const fn f4_max() -> u8 {
        7
    }
}

#[asn(sequence, extensible_after(f0))]

#[derive(Default, Debug, Clone, PartialEq, Hash)]
pub struct Ts5dmddde0 {
    #[asn(default(integer(0..7), 5))] pub f0: u8,
    #[asn(optional(integer(0..7)))] pub f1: Option<u8>,
    #[asn(default(integer(0..7), 5))] pub f2: u8,
    #[asn(default(integer(0..7), 5))] pub f3: u8,
    #[asn(default(integer(0..7), 5))] pub f4: u8,
}

impl Ts5dmddde0 {
    pub const fn f0_min() -> u8 {
        0
    }

    pub const fn f0_max() -> u8 {
        7
    }

    pub const fn f1_min() -> u8 {
        0
    }

    pub const fn f1_max() -> u8 {
        7
    }

    pub const fn f2_min() -> u8 {
        0
    }

    pub const fn f2_max() -> u8 {
        7
    }

    pub const fn f3_min() -> u8 {
        0
    }

    pub const fn f3_max() -> u8 {
        7
    }

    pub const fn f4_min() -> u8 {
        0
    }

    pub const fn f4_max() -> u8 {
        7
    }
}

#[asn(sequence, extensible_after(f0))]

#[derive(Default, Debug, Clone, PartialEq, Hash)]
pub struct Ts5dmddde1 {
    #[asn(default(integer(0..7), 5))] pub f0: u8,
    #[asn(optional(integer(0..7)))] pub f1: Option<u8>,
    #[asn(default(integer(0..7), 5))] pub f2: u8,
    #[asn(default(integer(0..7), 5))] pub f3: u8,
    #[asn(default(integer(0..7), 5))] pub f4: u8,
}

impl Ts5dmddde1 {
    pub const fn f0_min() -> u8 {
        0
    }

    pub const fn f0_max() -> u8 {
        7
    }

    pub const fn f1_min() -> u8 {
        0
    }

    pub const fn f1_max() -> u8 {
        7
    }

    pub const fn f2_min() -> u8 {
        0
    }

    pub const fn f2_max() -> u8 {
        7
    }

    pub const fn f3_min() -> u8 {
        0
    }

    pub const fn f3_max() -> u8 {
        7
    }

    pub const fn f4_min() -> u8 {
        0
    }

    pub const fn f4_max() -> u8 {
        7
    }
}

#[asn(sequence, extensible_after(f1))]

#[derive(Default, Debug, Clone, PartialEq, Hash)]
pub struct Ts5dmddde2 {
    #[asn(default(integer(0..7), 5))] pub f0: u8,
    #[asn(integer(0..7))] pub f1: u8,
    #[asn(default(integer(0..7), 5))] pub f2: u8,
    #[asn(default(integer(0..7), 5))] pub f3: u8,
    #[asn(default(integer(0..7), 5))] pub f4: u8,
}

impl Ts5dmddde2 {
    pub const fn f0_min() -> u8 {
        0
    }

    pub const fn f0_max() -> u8 {
        7
    }

    pub const fn f1_min() -> u8 {
        0
    }

    pub const fn f1_max() -> u8 {
        7
    }

    pub const fn f2_min() -> u8 {
        0
    }

    pub const fn f2_max() -> u8 {
        7
    }

    pub const fn f3_min() -> u8 {
        0
    }

    pub const fn f3_max() -> u8 {
        7
    }

    pub const fn f4_min() -> u8 {
        0
    }

    pub const fn f4_max() -> u8 {
        7
    }
}

#[asn(sequence, extensible_after(f2))]

#[derive(Default, Debug, Clone, PartialEq, Hash)]
pub struct Ts5dmddde3 {
    #[asn(default(integer(0..7), 5))] pub f0: u8,
    #[asn(integer(0..7))] pub f1: u8,
    #[asn(default(integer(0..7), 5))] pub f2: u8,
    #[asn(default(integer(0..7), 5))] pub f3: u8,
    #[asn(default(integer(0..7), 5))] pub f4: u8,
}

impl Ts5dmddde3 {
    pub const fn f0_min() -> u8 {
        0
    }

    pub const fn f0_max() -> u8 {
        7
    }

    pub const fn f1_min() -> u8 {
        0
    }

    pub const fn f1_max() -> u8 {
        7
    }

    pub const fn f2_min() -> u8 {
        0
    }

    pub const fn f2_max() -> u8 {
        7
    }

    pub const fn f3_min() -> u8 {
        0
    }

    pub const fn f3_max() -> u8 {
        7
    }

    pub const fn f4_min() -> u8 {
        0
    }

    pub const fn f4_max() -> u8 {
        7
    }
}

#[asn(sequence, extensible_after(f3))]

#[derive(Default, Debug, Clone, PartialEq, Hash)]
pub struct Ts5dmddde4 {
    #[asn(default(integer(0..7), 5))] pub f0: u8,
    #[asn(integer(0..7))] pub f1: u8,
    #[asn(default(integer(0..7), 5))] pub f2: u8,
    #[asn(default(integer(0..7), 5))] pub f3: u8,
    #[asn(default(integer(0..7), 5))] pub f4: u8,
}

impl Ts5dmddde4 {
    pub const fn f0_min() -> u8 {
        0
    }

    pub const fn f0_max() -> u8 {
        7
    }

    pub const fn f1_min() -> u8 {
        0
    }

    pub const fn f1_max() -> u8 {
        7
    }

    pub const fn f2_min() -> u8 {
        0
    }

    pub const fn f2_max() -> u8 {
        7
    }

    pub const fn f3_min() -> u8 {
        0
    }

    pub const fn f3_max() -> u8 {
        7
    }

    pub const fn f4_min() -> u8 {
        0
    }

    pub const fn f4_max() -> u8 {
        7
    }
}

#[asn(sequence, extensible_after(f4))]

#[derive(Default, Debug, Clone, PartialEq, Hash)]
pub struct Ts5dmddde5 {
    #[asn(default(integer(0..7), 5))] pub f0: u8,
    #[asn(integer(0..7))] pub f1: u8,
    #[asn(default(integer(0..7), 5))] pub f2: u8,
    #[asn(default(integer(0..7), 5))] pub f3: u8,
    #[asn(default(integer(0..7), 5))] pub f4: u8,
}

impl Ts5dmddde5 {
    pub const fn f0_min() -> u8 {
        0
    }

    pub const fn f0_max() -> u8 {
        7
    }

    pub const fn f1_min() -> u8 {
        0
    }

    pub const fn f1_max() -> u8 {
        7
    }

    pub const fn f2_min() -> u8 {
        0
    }

    pub const fn f2_max() -> u8 {
        7
    }

    pub const fn f3_min() -> u8 {
        0
    }

    pub const fn f3_max() -> u8 {
        7
    }

    pub const fn f4_min() -> u8 {
        0
    }

    pub const fn f4_max() -> u8 {
        7
    }
}

#[asn(sequence)]

#[derive(Default, Debug, Clone, PartialEq, Hash)]
pub struct Ts5modddn {
    #[asn(integer(0..7))] pub f0: u8,
    #[asn(optional(integer(0..7)))] pub f1: Option<u8>,
    #[asn(default(integer(0..7), 5))] pub f2: u8,
    #[asn(default(integer(0..7), 5))] pub f3: u8,
    #[asn(default(integer(0..7), 5))] pub f4: u8,
}

impl Ts5modddn {
    pub const fn f0_min() -> u8 {
        0
    }

    pub const fn f0_max() -> u8 {
        7
    }

    pub const fn f1_min() -> u8 {
        0
    }

    pub const fn f1_max() -> u8 {
        7
    }

    pub const fn f2_min() -> u8 {
        0
    }

    pub const fn f2_max() -> u8 {
        7
    }

    pub const fn f3_min() -> u8 {
        0
    }

    pub const fn f3_max() -> u8 {
        7
    }

    pub const fn f4_min() -> u8 {
        0
    }

    pub const fn f4_max() -> u8 {
        7
    }
}

#[asn(sequence, extensible_after(f0))]

#[derive(Default, Debug, Clone, PartialEq, Hash)]
pub struct Ts5moddde0 {
    #[asn(integer(0..7))] pub f0: u8,
    #[asn(optional(integer(0..7)))] pub f1: Option<u8>,
    #[asn(default(integer(0..7), 5))] pub f2: u8,
    #[asn(default(integer(0..7), 5))] pub f3: u8,
    #[asn(default(integer(0..7), 5))] pub f4: u8,
}

impl Ts5moddde0 {
    pub const fn f0_min() -> u8 {
        0
    }

    pub const fn f0_max() -> u8 {
        7
    }

    pub const fn f1_min() -> u8 {
        0
    }

    pub const fn f1_max() -> u8 {
        7
    }

    pub const fn f2_min() -> u8 {
        0
    }

    pub const fn f2_max() -> u8 {
        7
    }

    pub const fn f3_min() -> u8 {
        0
    }

    pub const fn f3_max() -> u8 {
        7
    }

    pub const fn f4_min() -> u8 {
        0
    }

    pub const fn f4_max() -> u8 {
        7
    }
}

#[asn(sequence, extensible_after(f0))]

#[derive(Default, Debug, Clone, PartialEq, Hash)]
pub struct Ts5moddde1 {
    #[asn(integer(0..7))] pub f0: u8,
    #[asn(optional(integer(0..7)))] pub f1: Option<u8>,
    #[asn(default(integer(0..7), 5))] pub f2: u8,
    #[asn(default(integer(0..7), 5))] pub f3: u8,
    #[asn(default(integer(0..7), 5))] pub f4: u8,
}

impl Ts5moddde1 {
    pub const fn f0_min() -> u8 {
        0
    }

    pub const fn f0_max() -> u8 {
        7
    }

    pub const fn f1_min() -> u8 {
        0
    }

    pub const fn f1_max() -> u8 {
        7
    }

    pub const fn f2_min() -> u8 {
        0
    }

    pub const fn f2_max() -> u8 {
        7
    }

    pub const fn f3_min() -> u8 {
        0
    }

    pub const fn f3_max() -> u8 {
        7
    }

    pub const fn f4_min() -> u8 {
        0
    }

    pub const fn f4_max() -> u8 {
        7
    }
}

#[asn(sequence, extensible_after(f1))]

#[derive(Default, Debug, Clone, PartialEq, Hash)]
pub struct Ts5moddde2 {
    #[asn(integer(0..7))] pub f0: u8,
    #[asn(optional(integer(0..7)))] pub f1: Option<u8>,
    #[asn(default(integer(0..7), 5))] pub f2: u8,
    #[asn(default(integer(0..7), 5))] pub f3: u8,
    #[asn(default(integer(0..7), 5))] pub f4: u8,
}

impl Ts5moddde2 {
    pub const fn f0_min() -> u8 {
        0
    }

    pub const fn f0_max() -> u8 {
        7
    }

    pub const fn f1_min() -> u8 {
        0
    }

    pub const fn f1_max() -> u8 {
        7
    }

    pub const fn f2_min() -> u8 {
        0
    }

    pub const fn f2_max() -> u8 {
        7
    }

    pub const fn f3_min() -> u8 {
        0
    }

    pub const fn f3_max() -> u8 {
        7
    }

    pub const fn f4_min() -> u8 {
        0
    }

    pub const fn f4_max() -> u8 {
        7
    }
}

#[asn(sequence, extensible_after(f2))]

#[derive(Default, Debug, Clone, PartialEq, Hash)]
pub struct Ts5moddde3 {
    #[asn(integer(0..7))] pub f0: u8,
    #[asn(optional(integer(0..7)))] pub f1: Option<u8>,
    #[asn(default(integer(0..7), 5))] pub f2: u8,
    #[asn(default(integer(0..7), 5))] pub f3: u8,
    #[asn(default(integer(0..7), 5))] pub f4: u8,
}

impl Ts5moddde3 {
    pub const fn f0_min() -> u8 {
        0
    }

    pub const fn f0_max() -> u8 {
        7
    }

    pub const fn f1_min() -> u8 {
        0
    }

    pub const fn f1_max() -> u8 {
        7
    }

    pub const fn f2_min() -> u8 {
        0
    }

    pub const fn f2_max() -> u8 {
        7
    }

    pub const fn f3_min() -> u8 {
        0
    }

    pub const fn f3_max() -> u8 {
        7
    }

    pub const fn f4_min() -> u8 {
        0
    }

    pub const fn f4_max() -> u8 {
        7
    }
}

#[asn(sequence, extensible_after(f3))]

#[derive(Default, Debug, Clone, PartialEq, Hash)]
pub struct Ts5moddde4 {
    #[asn(integer(0..7))] pub f0: u8,
    #[asn(optional(integer(0..7)))] pub f1: Option<u8>,
    #[asn(default(integer(0..7), 5))] pub f2: u8,
    #[asn(default(integer(0..7), 5))] pub f3: u8,
    #[asn(default(integer(0..7), 5))] pub f4: u8,
}

impl Ts5moddde4 {
    pub const fn f0_min() -> u8 {
        0
    }

    pub const fn f0_max() -> u8 {
        7
    }

    pub const fn f1_min() -> u8 {
        0
    }

    pub const fn f1_max() -> u8 {
        7
    }

    pub const fn f2_min() -> u8 {
        0
    }

    pub const fn f2_max() -> u8 {
        7
    }

    pub const fn f3_min() -> u8 {
        0
    }

    pub const fn f3_max() -> u8 {
        7
    }

    pub const fn f4_min() -> u8 {
        0
    }

    pub const fn f4_max() -> u8 {
        7
    }
}

#[asn(sequence, extensible_after(f4))]

#[derive(Default, Debug, Clone, PartialEq, Hash)]
pub struct Ts5moddde5 {
    #[asn(integer(0..7))] pub f0: u8,
    #[asn(optional(integer(0..7)))] pub f1: Option<u8>,
    #[asn(default(integer(0..7), 5))] pub f2: u8,
    #[asn(default(integer(0..7), 5))] pub f3: u8,
    #[asn(default(integer(0..7), 5))] pub f4: u8,
}

impl Ts5moddde5 {
    pub const fn f0_min() -> u8 {
        0
    }

    pub const fn f0_max() -> u8 {
        7
    }

    pub const fn f1_min() -> u8 {
        0
    }

    pub const fn f1_max() -> u8 {
        7
    }

    pub const fn f2_min() -> u8 {
        0
    }

    pub const fn f2_max() -> u8 {
        7
    }

    pub const fn f3_min() -> u8 {
        0
    }

    pub const fn f3_max() -> u8 {
        7
    }

    pub const fn f4_min() -> u8 {
        0
    }

    pub const fn f4_max() -> u8 {
        7
    }
}

#[asn(sequence)]

#[derive(Default, Debug, Clone, PartialEq, Hash)]
pub struct Ts5oodddn {
    #[asn(optional(integer(0..7)))] pub f0: Option<u8>,
    #[asn(optional(integer(0..7)))] pub f1: Option<u8>,
    #[asn(default(integer(0..7), 5))] pub f2: u8,
    #[asn(default(integer(0..7), 5))] pub f3: u8,
    #[asn(default(integer(0..7), 5))] pub f4: u8,
}

impl Ts5oodddn {
    pub const fn f0_min() -> u8 {
        0
    }

    pub const fn f0_max() -> u8 {
        7
    }

    pub const fn f1_min() -> u8 {
        0
    }

    pub const fn f1_max() -> u8 {
        7
    }

    pub const fn f2_min() -> u8 {
        0
    }

    pub const fn f2_max() -> u8 {
        7
    }

    pub const fn f3_min() -> u8 {
        0
    }

    pub const fn f3_max() -> u8 {
        7
    }

    pub const fn f4_min() -> u8 {
        0
    }

    pub const fn f4_max() -> u8 {
        7
    }
}

#[asn(sequence, extensible_after(f0))]

#[derive(Default, Debug, Clone, PartialEq, Hash)]
pub struct Ts5ooddde0 {
    #[asn(optional(integer(0..7)))] pub f0: Option<u8>,
    #[asn(optional(integer(0..7)))] pub f1: Option<u8>,
    #[asn(default(integer(0..7), 5))] pub f2: u8,
    #[asn(default(integer(0..7), 5))] pub f3: u8,
    #[asn(default(integer(0..7), 5))] pub f4: u8,
}

impl Ts5ooddde0 {
    pub const fn f0_min() -> u8 {
        0
    }

    pub const fn f0_max() -> u8 {
        7
    }

    pub const fn f1_min() -> u8 {
        0
    }

    pub const fn f1_max() -> u8 {
        7
    }

    pub const fn f2_min() -> u8 {
        0
    }

    pub const fn f2_max() -> u8 {
        7
    }

    pub const fn f3_min() -> u8 {
        0
    }

    pub const fn f3_max() -> u8 {
        7
    }

    pub const fn f4_min() -> u8 {
        0
    }

    pub const fn f4_max() -> u8 {
        7
    }
}

#[asn(sequence, extensible_after(f0))]

#[derive(Default, Debug, Clone, PartialEq, Hash)]
pub struct Ts5ooddde1 {
    #[asn(optional(integer(0..7)))] pub f0: Option<u8>,
    #[asn(optional(integer(0..7)))] pub f1: Option<u8>,
    #[asn(default(integer(0..7), 5))] pub f2: u8,
    #[asn(default(integer(0..7), 5))] pub f3: u8,
    #[asn(default(integer(0..7), 5))] pub f4: u8,
}

impl Ts5ooddde1 {
    pub const fn f0_min() -> u8 {
        0
    }

    pub const fn f0_max() -> u8 {
        7
    }

    pub const fn f1_min() -> u8 {
        0
    }

    pub const fn f1_max() -> u8 {
        7
    }

    pub const fn f2_min() -> u8 {
        0
    }

    pub const fn f2_max() -> u8 {
        7
    }

    pub const fn f3_min() -> u8 {
        0
    }

    pub const fn f3_max() -> u8 {
        7
    }

    pub const fn f4_min() -> u8 {
        0
    }

    pub const fn f4_max() -> u8 {
        7
    }
}

#[asn(sequence, extensible_after(f1))]

#[derive(Default, Debug, Clone, PartialEq, Hash)]
pub struct Ts5ooddde2 {
    #[asn(optional(integer(0..7)))] pub f0: Option<u8>,
    #[asn(optional(integer(0..7)))] pub f1: Option<u8>,
    #[asn(default(integer(0..7), 5))] pub f2: u8,
    #[asn(default(integer(0..7), 5))] pub f3: u8,
    #[asn(default(integer(0..7), 5))] pub f4: u8,
}

impl Ts5ooddde2 {
    pub const fn f0_min() -> u8 {
        0
    }

    pub const fn f0_max() -> u8 {
        7
    }

    pub const fn f1_min() -> u8 {
        0
    }

    pub const fn f1_max() -> u8 {
        7
    }

    pub const fn f2_min() -> u8 {
        0
    }

    pub const fn f2_max() -> u8 {
        7
    }

    pub const fn f3_min() -> u8 {
        0
    }

    pub const fn f3_max() -> u8 {
        7
    }

    pub const fn f4_min() -> u8 {
        0
    }

    pub const fn f4_max() -> u8 {
        7
    }
}

#[asn(sequence, extensible_after(f2))]

#[derive(Default, Debug, Clone, PartialEq, Hash)]
pub struct Ts5ooddde3 {
    #[asn(optional(integer(0..7)))] pub f0: Option<u8>,
    #[asn(optional(integer(0..7)))] pub f1: Option<u8>,
    #[asn(default(integer(0..7), 5))] pub f2: u8,
    #[asn(default(integer(0..7), 5))] pub f3: u8,
    #[asn(default(integer(0..7), 5))] pub f4: u8,
}

impl Ts5ooddde3 {
    pub const fn f0_min() -> u8 {
        0
    }

    pub const fn f0_max() -> u8 {
        7
    }

    pub const fn f1_min() -> u8 {
        0
    }

    pub const fn f1_max() -> u8 {
        7
    }

    pub const fn f2_min() -> u8 {
        0
    }

    pub const fn f2_max() -> u8 {
        7
    }

    pub const fn f3_min() -> u8 {
        0
    }

    pub const fn f3_max() -> u8 {
        7
    }

    pub const fn f4_min() -> u8 {
        0
    }

    pub const fn f4_max() -> u8 {
        7
    }
}

#[asn(sequence, extensible_after(f3))]

#[derive(Default, Debug, Clone, PartialEq, Hash)]
pub struct Ts5ooddde4 {
    #[asn(optional(integer(0..7)))] pub f0: Option<u8>,
    #[asn(optional(integer(0..7)))] pub f1: Option<u8>,
    #[asn(default(integer(0..7), 5))] pub f2: u8,
    #[asn(default(integer(0..7), 5))] pub f3: u8,
    #[asn(default(integer(0..7), 5))] pub f4: u8,
}

impl Ts5ooddde4 {
    pub const fn f0_min() -> u8 {
        0
    }

    pub const fn f0_max() -> u8 {
        7
    }

    pub const fn f1_min() -> u8 {
        0
    }

    pub const fn f1_max() -> u8 {
        7
    }

    pub const fn f2_min() -> u8 {
        0
    }

    pub const fn f2_max() -> u8 {
        7
    }

    pub const fn f3_min() -> u8 {
        0
    }

    pub const fn f3_max() -> u8 {
        7
    }

    pub const fn f4_min() -> u8 {
        0
    }

    pub const fn f4_max() -> u8 {
        7
    }
}

#[asn(sequence, extensible_after(f4))]

#[derive(Default, Debug, Clone, PartialEq, Hash)]
pub struct Ts5ooddde5 {
    #[asn(optional(integer(0..7)))] pub f0: Option<u8>,
    #[asn(optional(integer(0..7)))] pub f1: Option<u8>,
    #[asn(default(integer(0..7), 5))] pub f2: u8,
    #[asn(default(integer(0..7), 5))] pub f3: u8,
    #[asn(default(integer(0..7), 5))] pub f4: u8,
}

impl Ts5ooddde5 {
    pub const fn f0_min() -> u8 {
        0
    }

    pub const fn f0_max() -> u8 {
        7
    }

    pub const fn f1_min() -> u8 {
        0
    }

    pub const fn f1_max() -> u8 {
        7
    }

    pub const fn f2_min() -> u8 {
        0
    }

    pub const fn f2_max() -> u8 {
        7
    }

    pub const fn f3_min() -> u8 {
        0
    }

    pub const fn f3_max() -> u8 {
        7
    }

    pub const fn f4_min() -> u8 {
        0
    }

    pub const fn f4_max() -> u8 {
        7
    }
}

#[asn(sequence)]

#[derive(Default, Debug, Clone, PartialEq, Hash)]
pub struct Ts5dodddn {
    #[asn(default(integer(0..7), 5))] pub f0: u8,
    #[asn(optional(integer(0..7)))] pub f1: Option<u8>,
    #[asn(default(integer(0..7), 5))] pub f2: u8,
    #[asn(default(integer(0..7), 5))] pub f3: u8,
    #[asn(default(integer(0..7), 5))] pub f4: u8,
}

impl Ts5dodddn {
    pub const fn f0_min() -> u8 {
        0
    }

    pub const fn f0_max() -> u8 {
        7
    }

    pub const fn f1_min() -> u8 {
        0
    }

    pub const fn f1_max() -> u8 {
        7
    }

    pub const fn f2_min() -> u8 {
        0
    }

    pub const fn f2_max() -> u8 {
        7
    }

    pub const fn f3_min() -> u8 {
        0
    }

    pub const fn f3_max() -> u8 {
        7
    }

    pub const fn f4_min() -> u8 {
        0
    }

    pub const fn f4_max() -> u8 {
        7
    }
}

#[asn(sequence, extensible_after(f0))]

#[derive(Default, Debug, Clone, PartialEq, Hash)]
pub struct Ts5doddde0 {
    #[asn(default(integer(0..7), 5))] pub f0: u8,
    #[asn(optional(integer(0..7)))] pub f1: Option<u8>,
    #[asn(default(integer(0..7), 5))] pub f2: u8,
    #[asn(default(integer(0..7), 5))] pub f3: u8,
    #[asn(default(integer(0..7), 5))] pub f4: u8,
}

impl Ts5doddde0 {
    pub const fn f0_min() -> u8 {
        0
    }

    pub const fn f0_max() -> u8 {
        7
    }

    pub const fn f1_min() -> u8 {
        0
    }

    pub const fn f1_max() -> u8 {
        7
    }

    pub const fn f2_min() -> u8 {
        0
    }

    pub const fn f2_max() -> u8 {
        7
    }

    pub const fn f3_min() -> u8 {
        0
    }

    pub const fn f3_max() -> u8 {
        7
    }

    pub const fn f4_min() -> u8 {
        0
    }

    pub const fn f4_max() -> u8 {
        7
    }
}

#[asn(sequence, extensible_after(f0))]

#[derive(Default, Debug, Clone, PartialEq, Hash)]
pub struct Ts5doddde1 {
    #[asn(default(integer(0..7), 5))] pub f0: u8,
    #[asn(optional(integer(0..7)))] pub f1: Option<u8>,
    #[asn(default(integer(0..7), 5))] pub f2: u8,
    #[asn(default(integer(0..7), 5))] pub f3: u8,
    #[asn(default(integer(0..7), 5))] pub f4: u8,
}

impl Ts5doddde1 {
    pub const fn f0_min() -> u8 {
        0
    }

    pub const fn f0_max() -> u8 {
        7
    }

    pub const fn f1_min() -> u8 {
        0
    }

    pub const fn f1_max() -> u8 {
        7
    }

    pub const fn f2_min() -> u8 {
        0
    }

    pub const fn f2_max() -> u8 {
        7
    }

    pub const fn f3_min() -> u8 {
        0
    }

    pub const fn f3_max() -> u8 {
        7
    }

    pub const fn f4_min() -> u8 {
        0
    }

    pub const fn f4_max() -> u8 {
        7
    }
}

#[asn(sequence, extensible_after(f1))]

#[derive(Default, Debug, Clone, PartialEq, Hash)]
pub struct Ts5doddde2 {
    #[asn(default(integer(0..7), 5))] pub f0: u8,
    #[asn(optional(integer(0..7)))] pub f1: Option<u8>,
    #[asn(default(integer(0..7), 5))] pub f2: u8,
    #[asn(default(integer(0..7), 5))] pub f3: u8,
    #[asn(default(integer(0..7), 5))] pub f4: u8,
}

impl Ts5doddde2 {
    pub const fn f0_min() -> u8 {
        0
    }

    pub const fn f0_max() -> u8 {
        7
    }

    pub const fn f1_min() -> u8 {
        0
    }

    pub const fn f1_max() -> u8 {
        7
    }

    pub const fn f2_min() -> u8 {
        0
    }

    pub const fn f2_max() -> u8 {
        7
    }

    pub const fn f3_min() -> u8 {
        0
    }

    pub const fn f3_max() -> u8 {
        7
    }

    pub const fn f4_min() -> u8 {
        0
    }

    pub const fn f4_max() -> u8 {
        7
    }
}

#[asn(sequence, extensible_after(f2))]

#[derive(Default, Debug, Clone, PartialEq, Hash)]
pub struct Ts5doddde3 {
    #[asn(default(integer(0..7), 5))] pub f0: u8,
    #[asn(optional(integer(0..7)))] pub f1: Option<u8>,
    #[asn(default(integer(0..7), 5))] pub f2: u8,
    #[asn(default(integer(0..7), 5))] pub f3: u8,
    #[asn(default(integer(0..7), 5))] pub f4: u8,
}

impl Ts5doddde3 {
    pub const fn f0_min() -> u8 {
        0
    }

    pub const fn f0_max() -> u8 {
        7
    }

    pub const fn f1_min() -> u8 {
        0
    }

    pub const fn f1_max() -> u8 {
        7
    }

    pub const fn f2_min() -> u8 {
        0
    }

    pub const fn f2_max() -> u8 {
        7
    }

    pub const fn f3_min() -> u8 {
        0
    }

    pub const fn f3_max() -> u8 {
        7
    }

    pub const fn f4_min() -> u8 {
        0
    }

    pub const fn f4_max() -> u8 {
        7
    }
}

#[asn(sequence, extensible_after(f3))]

#[derive(Default, Debug, Clone, PartialEq, Hash)]
pub struct Ts5doddde4 {
    #[asn(default(integer(0..7), 5))] pub f0: u8,
    #[asn(optional(integer(0..7)))] pub f1: Option<u8>,
    #[asn(default(integer(0..7), 5))] pub f2: u8,
    #[asn(default(integer(0..7), 5))] pub f3: u8,
    #[asn(default(integer(0..7), 5))] pub f4: u8,
}

impl Ts5doddde4 {
    pub const fn f0_min() -> u8 {
        0
    }

    pub const fn f0_max() -> u8 {
        7
    }

    pub const fn f1_min() -> u8 {
        0
    }

    pub const fn f1_max() -> u8 {
        7
    }

    pub const fn f2_min() -> u8 {
        0
    }

    pub const fn f2_max() -> u8 {
        7
    }

    pub const fn f3_min() -> u8 {
        0
    }

    pub const fn f3_max() -> u8 {
        7
    }

    pub const fn f4_min() -> u8 {
        0
    }

    pub const fn f4_max() -> u8 {
        7
    }
}

#[asn(sequence, extensible_after(f4))]

#[derive(Default, Debug, Clone, PartialEq, Hash)]
pub struct Ts5doddde5 {
    #[asn(default(integer(0..7), 5))] pub f0: u8,
    #[asn(optional(integer(0..7)))] pub f1: Option<u8>,
    #[asn(default(integer(0..7), 5))] pub f2: u8,
    #[asn(default(integer(0..7), 5))] pub f3: u8,
    #[asn(default(integer(0..7), 5))] pub f4: u8,
}

impl Ts5doddde5 {
    pub const fn f0_min() -> u8 {
        0
    }

    pub const fn f0_max() -> u8 {
        7
    }

    pub const fn f1_min() -> u8 {
        0
    }

    pub const fn f1_max() -> u8 {
        7
    }

    pub const fn f2_min() -> u8 {
        0
    }

    pub const fn f2_max() -> u8 {
        7
    }

    pub const fn f3_min() -> u8 {
        0
    }

    pub const fn f3_max() -> u8 {
        7
    }

    pub const fn f4_min() -> u8 {
        0
    }

    pub const fn f4_max() -> u8 {
        7
    }
}
// ---- harness conversions (generated by the zoo build script from the items above) ----
impl FromValue for Ts5mdmdde5 {
    fn from_value(v: &Value) -> Self {
        let s = match v { Value::Seq(s) => s, other => panic!("Ts5mdmdde5: expected Seq, got {other:?}") };
        assert_eq!(s.len(), 5, "Ts5mdmdde5: component count");
        let _ = s;
        Ts5mdmdde5 {
            f0: FromValue::from_value(s[0].as_ref().expect("component f0 of Ts5mdmdde5 must be present")),
            f1: FromValue::from_value(s[1].as_ref().expect("component f1 of Ts5mdmdde5 must be present")),
            f2: FromValue::from_value(s[2].as_ref().expect("component f2 of Ts5mdmdde5 must be present")),
            f3: FromValue::from_value(s[3].as_ref().expect("component f3 of Ts5mdmdde5 must be present")),
            f4: FromValue::from_value(s[4].as_ref().expect("component f4 of Ts5mdmdde5 must be present")),
        }
    }
}
impl ToValue for Ts5mdmdde5 {
    fn to_value(&self) -> Value {
        Value::Seq(vec![
            Some(self.f0.to_value()),
            Some(self.f1.to_value()),
            Some(self.f2.to_value()),
            Some(self.f3.to_value()),
            Some(self.f4.to_value()),
        ])
    }
}
impl FromValue for Ts5odmddn {
    fn from_value(v: &Value) -> Self {
        let s = match v { Value::Seq(s) => s, other => panic!("Ts5odmddn: expected Seq, got {other:?}") };
        assert_eq!(s.len(), 5, "Ts5odmddn: component count");
        let _ = s;
        Ts5odmddn {
            f0: s[0].as_ref().map(FromValue::from_value),
            f1: FromValue::from_value(s[1].as_ref().expect("component f1 of Ts5odmddn must be present")),
            f2: FromValue::from_value(s[2].as_ref().expect("component f2 of Ts5odmddn must be present")),
            f3: FromValue::from_value(s[3].as_ref().expect("component f3 of Ts5odmddn must be present")),
            f4: FromValue::from_value(s[4].as_ref().expect("component f4 of Ts5odmddn must be present")),
        }
    }
}
impl ToValue for Ts5odmddn {
    fn to_value(&self) -> Value {
        Value::Seq(vec![
            self.f0.as_ref().map(|x| x.to_value()),
            Some(self.f1.to_value()),
            Some(self.f2.to_value()),
            Some(self.f3.to_value()),
            Some(self.f4.to_value()),
        ])
    }
}
impl FromValue for Ts5odmdde0 {
    fn from_value(v: &Value) -> Self {
        let s = match v { Value::Seq(s) => s, other => panic!("Ts5odmdde0: expected Seq, got {other:?}") };
        assert_eq!(s.len(), 5, "Ts5odmdde0: component count");
        let _ = s;
        Ts5odmdde0 {
            f0: s[0].as_ref().map(FromValue::from_value),
            f1: FromValue::from_value(s[1].as_ref().expect("component f1 of Ts5odmdde0 must be present")),
            f2: s[2].as_ref().map(FromValue::from_value),
            f3: FromValue::from_value(s[3].as_ref().expect("component f3 of Ts5odmdde0 must be present")),
            f4: FromValue::from_value(s[4].as_ref().expect("component f4 of Ts5odmdde0 must be present")),
        }
    }
}
impl ToValue for Ts5odmdde0 {
    fn to_value(&self) -> Value {
        Value::Seq(vec![
            self.f0.as_ref().map(|x| x.to_value()),
            Some(self.f1.to_value()),
            self.f2.as_ref().map(|x| x.to_value()),
            Some(self.f3.to_value()),
            Some(self.f4.to_value()),
        ])
    }
}
impl FromValue for Ts5odmdde1 {
    fn from_value(v: &Value) -> Self {
        let s = match v { Value::Seq(s) => s, other => panic!("Ts5odmdde1: expected Seq, got {other:?}") };
        assert_eq!(s.len(), 5, "Ts5odmdde1: component count");
        let _ = s;
        Ts5odmdde1 {
            f0: s[0].as_ref().map(FromValue::from_value),
            f1: FromValue::from_value(s[1].as_ref().expect("component f1 of Ts5odmdde1 must be present")),
            f2: s[2].as_ref().map(FromValue::from_value),
            f3: FromValue::from_value(s[3].as_ref().expect("component f3 of Ts5odmdde1 must be present")),
            f4: FromValue::from_value(s[4].as_ref().expect("component f4 of Ts5odmdde1 must be present")),
        }
    }
}
impl ToValue for Ts5odmdde1 {
    fn to_value(&self) -> Value {
        Value::Seq(vec![
            self.f0.as_ref().map(|x| x.to_value()),
            Some(self.f1.to_value()),
            self.f2.as_ref().map(|x| x.to_value()),
            Some(self.f3.to_value()),
            Some(self.f4.to_value()),
        ])
    }
}
impl FromValue for Ts5odmdde2 {
    fn from_value(v: &Value) -> Self {
        let s = match v { Value::Seq(s) => s, other => panic!("Ts5odmdde2: expected Seq, got {other:?}") };
        assert_eq!(s.len(), 5, "Ts5odmdde2: component count");
        let _ = s;
        Ts5odmdde2 {
            f0: s[0].as_ref().map(FromValue::from_value),
            f1: FromValue::from_value(s[1].as_ref().expect("component f1 of Ts5odmdde2 must be present")),
            f2: s[2].as_ref().map(FromValue::from_value),
            f3: FromValue::from_value(s[3].as_ref().expect("component f3 of Ts5odmdde2 must be present")),
            f4: FromValue::from_value(s[4].as_ref().expect("component f4 of Ts5odmdde2 must be present")),
        }
    }
}
impl ToValue for Ts5odmdde2 {
    fn to_value(&self) -> Value {
        Value::Seq(vec![
            self.f0.as_ref().map(|x| x.to_value()),
            Some(self.f1.to_value()),
            self.f2.as_ref().map(|x| x.to_value()),
            Some(self.f3.to_value()),
            Some(self.f4.to_value()),
        ])
    }
}
impl FromValue for Ts5odmdde3 {
    fn from_value(v: &Value) -> Self {
        let s = match v { Value::Seq(s) => s, other => panic!("Ts5odmdde3: expected Seq, got {other:?}") };
        assert_eq!(s.len(), 5, "Ts5odmdde3: component count");
        let _ = s;
        Ts5odmdde3 {
            f0: s[0].as_ref().map(FromValue::from_value),
            f1: FromValue::from_value(s[1].as_ref().expect("component f1 of Ts5odmdde3 must be present")),
            f2: FromValue::from_value(s[2].as_ref().expect("component f2 of Ts5odmdde3 must be present")),
            f3: FromValue::from_value(s[3].as_ref().expect("component f3 of Ts5odmdde3 must be present")),
            f4: FromValue::from_value(s[4].as_ref().expect("component f4 of Ts5odmdde3 must be present")),
        }
    }
}
impl ToValue for Ts5odmdde3 {
    fn to_value(&self) -> Value {
        Value::Seq(vec![
            self.f0.as_ref().map(|x| x.to_value()),
            Some(self.f1.to_value()),
            Some(self.f2.to_value()),
            Some(self.f3.to_value()),
            Some(self.f4.to_value()),
        ])
    }
}
impl FromValue for Ts5odmdde4 {
    fn from_value(v: &Value) -> Self {
        let s = match v { Value::Seq(s) => s, other => panic!("Ts5odmdde4: expected Seq, got {other:?}") };
        assert_eq!(s.len(), 5, "Ts5odmdde4: component count");
        let _ = s;
        Ts5odmdde4 {
            f0: s[0].as_ref().map(FromValue::from_value),
            f1: FromValue::from_value(s[1].as_ref().expect("component f1 of Ts5odmdde4 must be present")),
            f2: FromValue::from_value(s[2].as_ref().expect("component f2 of Ts5odmdde4 must be present")),
            f3: FromValue::from_value(s[3].as_ref().expect("component f3 of Ts5odmdde4 must be present")),
            f4: FromValue::from_value(s[4].as_ref().expect("component f4 of Ts5odmdde4 must be present")),
        }
    }
}
impl ToValue for Ts5odmdde4 {
    fn to_value(&self) -> Value {
        Value::Seq(vec![
            self.f0.as_ref().map(|x| x.to_value()),
            Some(self.f1.to_value()),
            Some(self.f2.to_value()),
            Some(self.f3.to_value()),
            Some(self.f4.to_value()),
        ])
    }
}
impl FromValue for Ts5odmdde5 {
    fn from_value(v: &Value) -> Self {
        let s = match v { Value::Seq(s) => s, other => panic!("Ts5odmdde5: expected Seq, got {other:?}") };
        assert_eq!(s.len(), 5, "Ts5odmdde5: component count");
        let _ = s;
        Ts5odmdde5 {
            f0: s[0].as_ref().map(FromValue::from_value),
            f1: FromValue::from_value(s[1].as_ref().expect("component f1 of Ts5odmdde5 must be present")),
            f2: FromValue::from_value(s[2].as_ref().expect("component f2 of Ts5odmdde5 must be present")),
            f3: FromValue::from_value(s[3].as_ref().expect("component f3 of Ts5odmdde5 must be present")),
            f4: FromValue::from_value(s[4].as_ref().expect("component f4 of Ts5odmdde5 must be present")),
        }
    }
}
impl ToValue for Ts5odmdde5 {
    fn to_value(&self) -> Value {
        Value::Seq(vec![
            self.f0.as_ref().map(|x| x.to_value()),
            Some(self.f1.to_value()),
            Some(self.f2.to_value()),
            Some(self.f3.to_value()),
            Some(self.f4.to_value()),
        ])
    }
}
impl FromValue for Ts5ddmddn {
    fn from_value(v: &Value) -> Self {
        let s = match v { Value::Seq(s) => s, other => panic!("Ts5ddmddn: expected Seq, got {other:?}") };
        assert_eq!(s.len(), 5, "Ts5ddmddn: component count");
        let _ = s;
        Ts5ddmddn {
            f0: FromValue::from_value(s[0].as_ref().expect("component f0 of Ts5ddmddn must be present")),
            f1: FromValue::from_value(s[1].as_ref().expect("component f1 of Ts5ddmddn must be present")),
            f2: FromValue::from_value(s[2].as_ref().expect("component f2 of Ts5ddmddn must be present")),
            f3: FromValue::from_value(s[3].as_ref().expect("component f3 of Ts5ddmddn must be present")),
            f4: FromValue::from_value(s[4].as_ref().expect("component f4 of Ts5ddmddn must be present")),
        }
    }
}
impl ToValue for Ts5ddmddn {
    fn to_value(&self) -> Value {
        Value::Seq(vec![
            Some(self.f0.to_value()),
            Some(self.f1.to_value()),
            Some(self.f2.to_value()),
            Some(self.f3.to_value()),
            Some(self.f4.to_value()),
        ])
    }
}
impl FromValue for Ts5ddmdde0 {
    fn from_value(v: &Value) -> Self {
        let s = match v { Value::Seq(s) => s, other => panic!("Ts5ddmdde0: expected Seq, got {other:?}") };
        assert_eq!(s.len(), 5, "Ts5ddmdde0: component count");
        let _ = s;
        Ts5ddmdde0 {
            f0: FromValue::from_value(s[0].as_ref().expect("component f0 of Ts5ddmdde0 must be present")),
            f1: FromValue::from_value(s[1].as_ref().expect("component f1 of Ts5ddmdde0 must be present")),
            f2: s[2].as_ref().map(FromValue::from_value),
            f3: FromValue::from_value(s[3].as_ref().expect("component f3 of Ts5ddmdde0 must be present")),
            f4: FromValue::from_value(s[4].as_ref().expect("component f4 of Ts5ddmdde0 must be present")),
        }
    }
}
impl ToValue for Ts5ddmdde0 {
    fn to_value(&self) -> Value {
        Value::Seq(vec![
            Some(self.f0.to_value()),
            Some(self.f1.to_value()),
            self.f2.as_ref().map(|x| x.to_value()),
            Some(self.f3.to_value()),
            Some(self.f4.to_value()),
        ])
    }
}
impl FromValue for Ts5ddmdde1 {
    fn from_value(v: &Value) -> Self {
        let s = match v { Value::Seq(s) => s, other => panic!("Ts5ddmdde1: expected Seq, got {other:?}") };
        assert_eq!(s.len(), 5, "Ts5ddmdde1: component count");
        let _ = s;
        Ts5ddmdde1 {
            f0: FromValue::from_value(s[0].as_ref().expect("component f0 of Ts5ddmdde1 must be present")),
            f1: FromValue::from_value(s[1].as_ref().expect("component f1 of Ts5ddmdde1 must be present")),
            f2: s[2].as_ref().map(FromValue::from_value),
            f3: FromValue::from_value(s[3].as_ref().expect("component f3 of Ts5ddmdde1 must be present")),
            f4: FromValue::from_value(s[4].as_ref().expect("component f4 of Ts5ddmdde1 must be present")),
        }
    }
}
impl ToValue for Ts5ddmdde1 {
    fn to_value(&self) -> Value {
        Value::Seq(vec![
            Some(self.f0.to_value()),
            Some(self.f1.to_value()),
            self.f2.as_ref().map(|x| x.to_value()),
            Some(self.f3.to_value()),
            Some(self.f4.to_value()),
        ])
    }
}
impl FromValue for Ts5ddmdde2 {
    fn from_value(v: &Value) -> Self {
        let s = match v { Value::Seq(s) => s, other => panic!("Ts5ddmdde2: expected Seq, got {other:?}") };
        assert_eq!(s.len(), 5, "Ts5ddmdde2: component count");
        let _ = s;
        Ts5ddmdde2 {
            f0: FromValue::from_value(s[0].as_ref().expect("component f0 of Ts5ddmdde2 must be present")),
            f1: FromValue::from_value(s[1].as_ref().expect("component f1 of Ts5ddmdde2 must be present")),
            f2: s[2].as_ref().map(FromValue::from_value),
            f3: FromValue::from_value(s[3].as_ref().expect("component f3 of Ts5ddmdde2 must be present")),
            f4: FromValue::from_value(s[4].as_ref().expect("component f4 of Ts5ddmdde2 must be present")),
        }
    }
}
impl ToValue for Ts5ddmdde2 {
    fn to_value(&self) -> Value {
        Value::Seq(vec![
            Some(self.f0.to_value()),
            Some(self.f1.to_value()),
            self.f2.as_ref().map(|x| x.to_value()),
            Some(self.f3.to_value()),
            Some(self.f4.to_value()),
        ])
    }
}
impl FromValue for Ts5ddmdde3 {
    fn from_value(v: &Value) -> Self {
        let s = match v { Value::Seq(s) => s, other => panic!("Ts5ddmdde3: expected Seq, got {other:?}") };
        assert_eq!(s.len(), 5, "Ts5ddmdde3: component count");
        let _ = s;
        Ts5ddmdde3 {
            f0: FromValue::from_value(s[0].as_ref().expect("component f0 of Ts5ddmdde3 must be present")),
            f1: FromValue::from_value(s[1].as_ref().expect("component f1 of Ts5ddmdde3 must be present")),
            f2: FromValue::from_value(s[2].as_ref().expect("component f2 of Ts5ddmdde3 must be present")),
            f3: FromValue::from_value(s[3].as_ref().expect("component f3 of Ts5ddmdde3 must be present")),
            f4: FromValue::from_value(s[4].as_ref().expect("component f4 of Ts5ddmdde3 must be present")),
        }
    }
}
impl ToValue for Ts5ddmdde3 {
    fn to_value(&self) -> Value {
        Value::Seq(vec![
            Some(self.f0.to_value()),
            Some(self.f1.to_value()),
            Some(self.f2.to_value()),
            Some(self.f3.to_value()),
            Some(self.f4.to_value()),
        ])
    }
}
impl FromValue for Ts5ddmdde4 {
    fn from_value(v: &Value) -> Self {
        let s = match v { Value::Seq(s) => s, other => panic!("Ts5ddmdde4: expected Seq, got {other:?}") };
        assert_eq!(s.len(), 5, "Ts5ddmdde4: component count");
        let _ = s;
        Ts5ddmdde4 {
            f0: FromValue::from_value(s[0].as_ref().expect("component f0 of Ts5ddmdde4 must be present")),
            f1: FromValue::from_value(s[1].as_ref().expect("component f1 of Ts5ddmdde4 must be present")),
            f2: FromValue::from_value(s[2].as_ref().expect("component f2 of Ts5ddmdde4 must be present")),
            f3: FromValue::from_value(s[3].as_ref().expect("component f3 of Ts5ddmdde4 must be present")),
            f4: FromValue::from_value(s[4].as_ref().expect("component f4 of Ts5ddmdde4 must be present")),
        }
    }
}
impl ToValue for Ts5ddmdde4 {
    fn to_value(&self) -> Value {
        Value::Seq(vec![
            Some(self.f0.to_value()),
            Some(self.f1.to_value()),
            Some(self.f2.to_value()),
            Some(self.f3.to_value()),
            Some(self.f4.to_value()),
        ])
    }
}
impl FromValue for Ts5ddmdde5 {
    fn from_value(v: &Value) -> Self {
        let s = match v { Value::Seq(s) => s, other => panic!("Ts5ddmdde5: expected Seq, got {other:?}") };
        assert_eq!(s.len(), 5, "Ts5ddmdde5: component count");
        let _ = s;
        Ts5ddmdde5 {
            f0: FromValue::from_value(s[0].as_ref().expect("component f0 of Ts5ddmdde5 must be present")),
            f1: FromValue::from_value(s[1].as_ref().expect("component f1 of Ts5ddmdde5 must be present")),
            f2: FromValue::from_value(s[2].as_ref().expect("component f2 of Ts5ddmdde5 must be present")),
            f3: FromValue::from_value(s[3].as_ref().expect("component f3 of Ts5ddmdde5 must be present")),
            f4: FromValue::from_value(s[4].as_ref().expect("component f4 of Ts5ddmdde5 must be present")),
        }
    }
}
impl ToValue for Ts5ddmdde5 {
    fn to_value(&self) -> Value {
        Value::Seq(vec![
            Some(self.f0.to_value()),
            Some(self.f1.to_value()),
            Some(self.f2.to_value()),
            Some(self.f3.to_value()),
            Some(self.f4.to_value()),
        ])
    }
}
impl FromValue for Ts5mmoddn {
    fn from_value(v: &Value) -> Self {
        let s = match v { Value::Seq(s) => s, other => panic!("Ts5mmoddn: expected Seq, got {other:?}") };
        assert_eq!(s.len(), 5, "Ts5mmoddn: component count");
        let _ = s;
        Ts5mmoddn {
            f0: FromValue::from_value(s[0].as_ref().expect("component f0 of Ts5mmoddn must be present")),
            f1: FromValue::from_value(s[1].as_ref().expect("component f1 of Ts5mmoddn must be present")),
            f2: s[2].as_ref().map(FromValue::from_value),
            f3: FromValue::from_value(s[3].as_ref().expect("component f3 of Ts5mmoddn must be present")),
            f4: FromValue::from_value(s[4].as_ref().expect("component f4 of Ts5mmoddn must be present")),
        }
    }
}
impl ToValue for Ts5mmoddn {
    fn to_value(&self) -> Value {
        Value::Seq(vec![
            Some(self.f0.to_value()),
            Some(self.f1.to_value()),
            self.f2.as_ref().map(|x| x.to_value()),
            Some(self.f3.to_value()),
            Some(self.f4.to_value()),
        ])
    }
}
impl FromValue for Ts5mmodde0 {
    fn from_value(v: &Value) -> Self {
        let s = match v { Value::Seq(s) => s, other => panic!("Ts5mmodde0: expected Seq, got {other:?}") };
        assert_eq!(s.len(), 5, "Ts5mmodde0: component count");
        let _ = s;
        Ts5mmodde0 {
            f0: FromValue::from_value(s[0].as_ref().expect("component f0 of Ts5mmodde0 must be present")),
            f1: s[1].as_ref().map(FromValue::from_value),
            f2: s[2].as_ref().map(FromValue::from_value),
            f3: FromValue::from_value(s[3].as_ref().expect("component f3 of Ts5mmodde0 must be present")),
            f4: FromValue::from_value(s[4].as_ref().expect("component f4 of Ts5mmodde0 must be present")),
        }
    }
}
impl ToValue for Ts5mmodde0 {
    fn to_value(&self) -> Value {
        Value::Seq(vec![
            Some(self.f0.to_value()),
            self.f1.as_ref().map(|x| x.to_value()),
            self.f2.as_ref().map(|x| x.to_value()),
            Some(self.f3.to_value()),
            Some(self.f4.to_value()),
        ])
    }
}
impl FromValue for Ts5mmodde1 {
    fn from_value(v: &Value) -> Self {
        let s = match v { Value::Seq(s) => s, other => panic!("Ts5mmodde1: expected Seq, got {other:?}") };
        assert_eq!(s.len(), 5, "Ts5mmodde1: component count");
        let _ = s;
        Ts5mmodde1 {
            f0: FromValue::from_value(s[0].as_ref().expect("component f0 of Ts5mmodde1 must be present")),
            f1: s[1].as_ref().map(FromValue::from_value),
            f2: s[2].as_ref().map(FromValue::from_value),
            f3: FromValue::from_value(s[3].as_ref().expect("component f3 of Ts5mmodde1 must be present")),
            f4: FromValue::from_value(s[4].as_ref().expect("component f4 of Ts5mmodde1 must be present")),
        }
    }
}
impl ToValue for Ts5mmodde1 {
    fn to_value(&self) -> Value {
        Value::Seq(vec![
            Some(self.f0.to_value()),
            self.f1.as_ref().map(|x| x.to_value()),
            self.f2.as_ref().map(|x| x.to_value()),
            Some(self.f3.to_value()),
            Some(self.f4.to_value()),
        ])
    }
}
impl FromValue for Ts5mmodde2 {
    fn from_value(v: &Value) -> Self {
        let s = match v { Value::Seq(s) => s, other => panic!("Ts5mmodde2: expected Seq, got {other:?}") };
        assert_eq!(s.len(), 5, "Ts5mmodde2: component count");
        let _ = s;
        Ts5mmodde2 {
            f0: FromValue::from_value(s[0].as_ref().expect("component f0 of Ts5mmodde2 must be present")),
            f1: FromValue::from_value(s[1].as_ref().expect("component f1 of Ts5mmodde2 must be present")),
            f2: s[2].as_ref().map(FromValue::from_value),
            f3: FromValue::from_value(s[3].as_ref().expect("component f3 of Ts5mmodde2 must be present")),
            f4: FromValue::from_value(s[4].as_ref().expect("component f4 of Ts5mmodde2 must be present")),
        }
    }
}
impl ToValue for Ts5mmodde2 {
    fn to_value(&self) -> Value {
        Value::Seq(vec![
            Some(self.f0.to_value()),
            Some(self.f1.to_value()),
            self.f2.as_ref().map(|x| x.to_value()),
            Some(self.f3.to_value()),
            Some(self.f4.to_value()),
        ])
    }
}
impl FromValue for Ts5mmodde3 {
    fn from_value(v: &Value) -> Self {
        let s = match v { Value::Seq(s) => s, other => panic!("Ts5mmodde3: expected Seq, got {other:?}") };
        assert_eq!(s.len(), 5, "Ts5mmodde3: component count");
        let _ = s;
        Ts5mmodde3 {
            f0: FromValue::from_value(s[0].as_ref().expect("component f0 of Ts5mmodde3 must be present")),
            f1: FromValue::from_value(s[1].as_ref().expect("component f1 of Ts5mmodde3 must be present")),
            f2: s[2].as_ref().map(FromValue::from_value),
            f3: FromValue::from_value(s[3].as_ref().expect("component f3 of Ts5mmodde3 must be present")),
            f4: FromValue::from_value(s[4].as_ref().expect("component f4 of Ts5mmodde3 must be present")),
        }
    }
}
impl ToValue for Ts5mmodde3 {
    fn to_value(&self) -> Value {
        Value::Seq(vec![
            Some(self.f0.to_value()),
            Some(self.f1.to_value()),
            self.f2.as_ref().map(|x| x.to_value()),
            Some(self.f3.to_value()),
            Some(self.f4.to_value()),
        ])
    }
}
impl FromValue for Ts5mmodde4 {
    fn from_value(v: &Value) -> Self {
        let s = match v { Value::Seq(s) => s, other => panic!("Ts5mmodde4: expected Seq, got {other:?}") };
        assert_eq!(s.len(), 5, "Ts5mmodde4: component count");
        let _ = s;
        Ts5mmodde4 {
            f0: FromValue::from_value(s[0].as_ref().expect("component f0 of Ts5mmodde4 must be present")),
            f1: FromValue::from_value(s[1].as_ref().expect("component f1 of Ts5mmodde4 must be present")),
            f2: s[2].as_ref().map(FromValue::from_value),
            f3: FromValue::from_value(s[3].as_ref().expect("component f3 of Ts5mmodde4 must be present")),
            f4: FromValue::from_value(s[4].as_ref().expect("component f4 of Ts5mmodde4 must be present")),
        }
    }
}
impl ToValue for Ts5mmodde4 {
    fn to_value(&self) -> Value {
        Value::Seq(vec![
            Some(self.f0.to_value()),
            Some(self.f1.to_value()),
            self.f2.as_ref().map(|x| x.to_value()),
            Some(self.f3.to_value()),
            Some(self.f4.to_value()),
        ])
    }
}
impl FromValue for Ts5mmodde5 {
    fn from_value(v: &Value) -> Self {
        let s = match v { Value::Seq(s) => s, other => panic!("Ts5mmodde5: expected Seq, got {other:?}") };
        assert_eq!(s.len(), 5, "Ts5mmodde5: component count");
        let _ = s;
        Ts5mmodde5 {
            f0: FromValue::from_value(s[0].as_ref().expect("component f0 of Ts5mmodde5 must be present")),
            f1: FromValue::from_value(s[1].as_ref().expect("component f1 of Ts5mmodde5 must be present")),
            f2: s[2].as_ref().map(FromValue::from_value),
            f3: FromValue::from_value(s[3].as_ref().expect("component f3 of Ts5mmodde5 must be present")),
            f4: FromValue::from_value(s[4].as_ref().expect("component f4 of Ts5mmodde5 must be present")),
        }
    }
}
impl ToValue for Ts5mmodde5 {
    fn to_value(&self) -> Value {
        Value::Seq(vec![
            Some(self.f0.to_value()),
            Some(self.f1.to_value()),
            self.f2.as_ref().map(|x| x.to_value()),
            Some(self.f3.to_value()),
            Some(self.f4.to_value()),
        ])
    }
}
impl FromValue for Ts5omoddn {
    fn from_value(v: &Value) -> Self {
        let s = match v { Value::Seq(s) => s, other => panic!("Ts5omoddn: expected Seq, got {other:?}") };
        assert_eq!(s.len(), 5, "Ts5omoddn: component count");
        let _ = s;
        Ts5omoddn {
            f0: s[0].as_ref().map(FromValue::from_value),
            f1: FromValue::from_value(s[1].as_ref().expect("component f1 of Ts5omoddn must be present")),
            f2: s[2].as_ref().map(FromValue::from_value),
            f3: FromValue::from_value(s[3].as_ref().expect("component f3 of Ts5omoddn must be present")),
            f4: FromValue::from_value(s[4].as_ref().expect("component f4 of Ts5omoddn must be present")),
        }
    }
}
impl ToValue for Ts5omoddn {
    fn to_value(&self) -> Value {
        Value::Seq(vec![
            self.f0.as_ref().map(|x| x.to_value()),
            Some(self.f1.to_value()),
            self.f2.as_ref().map(|x| x.to_value()),
            Some(self.f3.to_value()),
            Some(self.f4.to_value()),
        ])
    }
}
impl FromValue for Ts5omodde0 {
    fn from_value(v: &Value) -> Self {
        let s = match v { Value::Seq(s) => s, other => panic!("Ts5omodde0: expected Seq, got {other:?}") };
        assert_eq!(s.len(), 5, "Ts5omodde0: component count");
        let _ = s;
        Ts5omodde0 {
            f0: s[0].as_ref().map(FromValue::from_value),
            f1: s[1].as_ref().map(FromValue::from_value),
            f2: s[2].as_ref().map(FromValue::from_value),
            f3: FromValue::from_value(s[3].as_ref().expect("component f3 of Ts5omodde0 must be present")),
            f4: FromValue::from_value(s[4].as_ref().expect("component f4 of Ts5omodde0 must be present")),
        }
    }
}
impl ToValue for Ts5omodde0 {
    fn to_value(&self) -> Value {
        Value::Seq(vec![
            self.f0.as_ref().map(|x| x.to_value()),
            self.f1.as_ref().map(|x| x.to_value()),
            self.f2.as_ref().map(|x| x.to_value()),
            Some(self.f3.to_value()),
            Some(self.f4.to_value()),
        ])
    }
}
impl FromValue for Ts5omodde1 {
    fn from_value(v: &Value) -> Self {
        let s = match v { Value::Seq(s) => s, other => panic!("Ts5omodde1: expected Seq, got {other:?}") };
        assert_eq!(s.len(), 5, "Ts5omodde1: component count");
        let _ = s;
        Ts5omodde1 {
            f0: s[0].as_ref().map(FromValue::from_value),
            f1: s[1].as_ref().map(FromValue::from_value),
            f2: s[2].as_ref().map(FromValue::from_value),
            f3: FromValue::from_value(s[3].as_ref().expect("component f3 of Ts5omodde1 must be present")),
            f4: FromValue::from_value(s[4].as_ref().expect("component f4 of Ts5omodde1 must be present")),
        }
    }
}
impl ToValue for Ts5omodde1 {
    fn to_value(&self) -> Value {
        Value::Seq(vec![
            self.f0.as_ref().map(|x| x.to_value()),
            self.f1.as_ref().map(|x| x.to_value()),
            self.f2.as_ref().map(|x| x.to_value()),
            Some(self.f3.to_value()),
            Some(self.f4.to_value()),
        ])
    }
}
impl FromValue for Ts5omodde2 {
    fn from_value(v: &Value) -> Self {
        let s = match v { Value::Seq(s) => s, other => panic!("Ts5omodde2: expected Seq, got {other:?}") };
        assert_eq!(s.len(), 5, "Ts5omodde2: component count");
        let _ = s;
        Ts5omodde2 {
            f0: s[0].as_ref().map(FromValue::from_value),
            f1: FromValue::from_value(s[1].as_ref().expect("component f1 of Ts5omodde2 must be present")),
            f2: s[2].as_ref().map(FromValue::from_value),
            f3: FromValue::from_value(s[3].as_ref().expect("component f3 of Ts5omodde2 must be present")),
            f4: FromValue::from_value(s[4].as_ref().expect("component f4 of Ts5omodde2 must be present")),
        }
    }
}
impl ToValue for Ts5omodde2 {
    fn to_value(&self) -> Value {
        Value::Seq(vec![
            self.f0.as_ref().map(|x| x.to_value()),
            Some(self.f1.to_value()),
            self.f2.as_ref().map(|x| x.to_value()),
            Some(self.f3.to_value()),
            Some(self.f4.to_value()),
        ])
    }
}
impl FromValue for Ts5omodde3 {
    fn from_value(v: &Value) -> Self {
        let s = match v { Value::Seq(s) => s, other => panic!("Ts5omodde3: expected Seq, got {other:?}") };
        assert_eq!(s.len(), 5, "Ts5omodde3: component count");
        let _ = s;
        Ts5omodde3 {
            f0: s[0].as_ref().map(FromValue::from_value),
            f1: FromValue::from_value(s[1].as_ref().expect("component f1 of Ts5omodde3 must be present")),
            f2: s[2].as_ref().map(FromValue::from_value),
            f3: FromValue::from_value(s[3].as_ref().expect("component f3 of Ts5omodde3 must be present")),
            f4: FromValue::from_value(s[4].as_ref().expect("component f4 of Ts5omodde3 must be present")),
        }
    }
}
impl ToValue for Ts5omodde3 {
    fn to_value(&self) -> Value {
        Value::Seq(vec![
            self.f0.as_ref().map(|x| x.to_value()),
            Some(self.f1.to_value()),
            self.f2.as_ref().map(|x| x.to_value()),
            Some(self.f3.to_value()),
            Some(self.f4.to_value()),
        ])
    }
}
impl FromValue for Ts5omodde4 {
    fn from_value(v: &Value) -> Self {
        let s = match v { Value::Seq(s) => s, other => panic!("Ts5omodde4: expected Seq, got {other:?}") };
        assert_eq!(s.len(), 5, "Ts5omodde4: component count");
        let _ = s;
        Ts5omodde4 {
            f0: s[0].as_ref().map(FromValue::from_value),
            f1: FromValue::from_value(s[1].as_ref().expect("component f1 of Ts5omodde4 must be present")),
            f2: s[2].as_ref().map(FromValue::from_value),
            f3: FromValue::from_value(s[3].as_ref().expect("component f3 of Ts5omodde4 must be present")),
            f4: FromValue::from_value(s[4].as_ref().expect("component f4 of Ts5omodde4 must be present")),
        }
    }
}
impl ToValue for Ts5omodde4 {
    fn to_value(&self) -> Value {
        Value::Seq(vec![
            self.f0.as_ref().map(|x| x.to_value()),
            Some(self.f1.to_value()),
            self.f2.as_ref().map(|x| x.to_value()),
            Some(self.f3.to_value()),
            Some(self.f4.to_value()),
        ])
    }
}
impl FromValue for Ts5omodde5 {
    fn from_value(v: &Value) -> Self {
        let s = match v { Value::Seq(s) => s, other => panic!("Ts5omodde5: expected Seq, got {other:?}") };
        assert_eq!(s.len(), 5, "Ts5omodde5: component count");
        let _ = s;
        Ts5omodde5 {
            f0: s[0].as_ref().map(FromValue::from_value),
            f1: FromValue::from_value(s[1].as_ref().expect("component f1 of Ts5omodde5 must be present")),
            f2: s[2].as_ref().map(FromValue::from_value),
            f3: FromValue::from_value(s[3].as_ref().expect("component f3 of Ts5omodde5 must be present")),
            f4: FromValue::from_value(s[4].as_ref().expect("component f4 of Ts5omodde5 must be present")),
        }
    }
}
impl ToValue for Ts5omodde5 {
    fn to_value(&self) -> Value {
        Value::Seq(vec![
            self.f0.as_ref().map(|x| x.to_value()),
            Some(self.f1.to_value()),
            self.f2.as_ref().map(|x| x.to_value()),
            Some(self.f3.to_value()),
            Some(self.f4.to_value()),
        ])
    }
}
impl FromValue for Ts5dmoddn {
    fn from_value(v: &Value) -> Self {
        let s = match v { Value::Seq(s) => s, other => panic!("Ts5dmoddn: expected Seq, got {other:?}") };
        assert_eq!(s.len(), 5, "Ts5dmoddn: component count");
        let _ = s;
        Ts5dmoddn {
            f0: FromValue::from_value(s[0].as_ref().expect("component f0 of Ts5dmoddn must be present")),
            f1: FromValue::from_value(s[1].as_ref().expect("component f1 of Ts5dmoddn must be present")),
            f2: s[2].as_ref().map(FromValue::from_value),
            f3: FromValue::from_value(s[3].as_ref().expect("component f3 of Ts5dmoddn must be present")),
            f4: FromValue::from_value(s[4].as_ref().expect("component f4 of Ts5dmoddn must be present")),
        }
    }
}
impl ToValue for Ts5dmoddn {
    fn to_value(&self) -> Value {
        Value::Seq(vec![
            Some(self.f0.to_value()),
            Some(self.f1.to_value()),
            self.f2.as_ref().map(|x| x.to_value()),
            Some(self.f3.to_value()),
            Some(self.f4.to_value()),
        ])
    }
}
impl FromValue for Ts5dmodde0 {
    fn from_value(v: &Value) -> Self {
        let s = match v { Value::Seq(s) => s, other => panic!("Ts5dmodde0: expected Seq, got {other:?}") };
        assert_eq!(s.len(), 5, "Ts5dmodde0: component count");
        let _ = s;
        Ts5dmodde0 {
            f0: FromValue::from_value(s[0].as_ref().expect("component f0 of Ts5dmodde0 must be present")),
            f1: s[1].as_ref().map(FromValue::from_value),
            f2: s[2].as_ref().map(FromValue::from_value),
            f3: FromValue::from_value(s[3].as_ref().expect("component f3 of Ts5dmodde0 must be present")),
            f4: FromValue::from_value(s[4].as_ref().expect("component f4 of Ts5dmodde0 must be present")),
        }
    }
}
impl ToValue for Ts5dmodde0 {
    fn to_value(&self) -> Value {
        Value::Seq(vec![
            Some(self.f0.to_value()),
            self.f1.as_ref().map(|x| x.to_value()),
            self.f2.as_ref().map(|x| x.to_value()),
            Some(self.f3.to_value()),
            Some(self.f4.to_value()),
        ])
    }
}
impl FromValue for Ts5dmodde1 {
    fn from_value(v: &Value) -> Self {
        let s = match v { Value::Seq(s) => s, other => panic!("Ts5dmodde1: expected Seq, got {other:?}") };
        assert_eq!(s.len(), 5, "Ts5dmodde1: component count");
        let _ = s;
        Ts5dmodde1 {
            f0: FromValue::from_value(s[0].as_ref().expect("component f0 of Ts5dmodde1 must be present")),
            f1: s[1].as_ref().map(FromValue::from_value),
            f2: s[2].as_ref().map(FromValue::from_value),
            f3: FromValue::from_value(s[3].as_ref().expect("component f3 of Ts5dmodde1 must be present")),
            f4: FromValue::from_value(s[4].as_ref().expect("component f4 of Ts5dmodde1 must be present")),
        }
    }
}
impl ToValue for Ts5dmodde1 {
    fn to_value(&self) -> Value {
        Value::Seq(vec![
            Some(self.f0.to_value()),
            self.f1.as_ref().map(|x| x.to_value()),
            self.f2.as_ref().map(|x| x.to_value()),
            Some(self.f3.to_value()),
            Some(self.f4.to_value()),
        ])
    }
}
impl FromValue for Ts5dmodde2 {
    fn from_value(v: &Value) -> Self {
        let s = match v { Value::Seq(s) => s, other => panic!("Ts5dmodde2: expected Seq, got {other:?}") };
        assert_eq!(s.len(), 5, "Ts5dmodde2: component count");
        let _ = s;
        Ts5dmodde2 {
            f0: FromValue::from_value(s[0].as_ref().expect("component f0 of Ts5dmodde2 must be present")),
            f1: FromValue::from_value(s[1].as_ref().expect("component f1 of Ts5dmodde2 must be present")),
            f2: s[2].as_ref().map(FromValue::from_value),
            f3: FromValue::from_value(s[3].as_ref().expect("component f3 of Ts5dmodde2 must be present")),
            f4: FromValue::from_value(s[4].as_ref().expect("component f4 of Ts5dmodde2 must be present")),
        }
    }
}
impl ToValue for Ts5dmodde2 {
    fn to_value(&self) -> Value {
        Value::Seq(vec![
            Some(self.f0.to_value()),
            Some(self.f1.to_value()),
            self.f2.as_ref().map(|x| x.to_value()),
            Some(self.f3.to_value()),
            Some(self.f4.to_value()),
        ])
    }
}
impl FromValue for Ts5dmodde3 {
    fn from_value(v: &Value) -> Self {
        let s = match v { Value::Seq(s) => s, other => panic!("Ts5dmodde3: expected Seq, got {other:?}") };
        assert_eq!(s.len(), 5, "Ts5dmodde3: component count");
        let _ = s;
        Ts5dmodde3 {
            f0: FromValue::from_value(s[0].as_ref().expect("component f0 of Ts5dmodde3 must be present")),
            f1: FromValue::from_value(s[1].as_ref().expect("component f1 of Ts5dmodde3 must be present")),
            f2: s[2].as_ref().map(FromValue::from_value),
            f3: FromValue::from_value(s[3].as_ref().expect("component f3 of Ts5dmodde3 must be present")),
            f4: FromValue::from_value(s[4].as_ref().expect("component f4 of Ts5dmodde3 must be present")),
        }
    }
}
impl ToValue for Ts5dmodde3 {
    fn to_value(&self) -> Value {
        Value::Seq(vec![
            Some(self.f0.to_value()),
            Some(self.f1.to_value()),
            self.f2.as_ref().map(|x| x.to_value()),
            Some(self.f3.to_value()),
            Some(self.f4.to_value()),
        ])
    }
}
impl FromValue for Ts5dmodde4 {
    fn from_value(v: &Value) -> Self {
        let s = match v { Value::Seq(s) => s, other => panic!("Ts5dmodde4: expected Seq, got {other:?}") };
        assert_eq!(s.len(), 5, "Ts5dmodde4: component count");
        let _ = s;
        Ts5dmodde4 {
            f0: FromValue::from_value(s[0].as_ref().expect("component f0 of Ts5dmodde4 must be present")),
            f1: FromValue::from_value(s[1].as_ref().expect("component f1 of Ts5dmodde4 must be present")),
            f2: s[2].as_ref().map(FromValue::from_value),
            f3: FromValue::from_value(s[3].as_ref().expect("component f3 of Ts5dmodde4 must be present")),
            f4: FromValue::from_value(s[4].as_ref().expect("component f4 of Ts5dmodde4 must be present")),
        }
    }
}
impl ToValue for Ts5dmodde4 {
    fn to_value(&self) -> Value {
        Value::Seq(vec![
            Some(self.f0.to_value()),
            Some(self.f1.to_value()),
            self.f2.as_ref().map(|x| x.to_value()),
            Some(self.f3.to_value()),
            Some(self.f4.to_value()),
        ])
    }
}
impl FromValue for Ts5dmodde5 {
    fn from_value(v: &Value) -> Self {
        let s = match v { Value::Seq(s) => s, other => panic!("Ts5dmodde5: expected Seq, got {other:?}") };
        assert_eq!(s.len(), 5, "Ts5dmodde5: component count");
        let _ = s;
        Ts5dmodde5 {
            f0: FromValue::from_value(s[0].as_ref().expect("component f0 of Ts5dmodde5 must be present")),
            f1: FromValue::from_value(s[1].as_ref().expect("component f1 of Ts5dmodde5 must be present")),
            f2: s[2].as_ref().map(FromValue::from_value),
            f3: FromValue::from_value(s[3].as_ref().expect("component f3 of Ts5dmodde5 must be present")),
            f4: FromValue::from_value(s[4].as_ref().expect("component f4 of Ts5dmodde5 must be present")),
        }
    }
}
impl ToValue for Ts5dmodde5 {
    fn to_value(&self) -> Value {
        Value::Seq(vec![
            Some(self.f0.to_value()),
            Some(self.f1.to_value()),
            self.f2.as_ref().map(|x| x.to_value()),
            Some(self.f3.to_value()),
            Some(self.f4.to_value()),
        ])
    }
}
impl FromValue for Ts5mooddn {
    fn from_value(v: &Value) -> Self {
        let s = match v { Value::Seq(s) => s, other => panic!("Ts5mooddn: expected Seq, got {other:?}") };
        assert_eq!(s.len(), 5, "Ts5mooddn: component count");
        let _ = s;
        Ts5mooddn {
            f0: FromValue::from_value(s[0].as_ref().expect("component f0 of Ts5mooddn must be present")),
            f1: s[1].as_ref().map(FromValue::from_value),
            f2: s[2].as_ref().map(FromValue::from_value),
            f3: FromValue::from_value(s[3].as_ref().expect("component f3 of Ts5mooddn must be present")),
            f4: FromValue::from_value(s[4].as_ref().expect("component f4 of Ts5mooddn must be present")),
        }
    }
}
impl ToValue for Ts5mooddn {
    fn to_value(&self) -> Value {
        Value::Seq(vec![
            Some(self.f0.to_value()),
            self.f1.as_ref().map(|x| x.to_value()),
            self.f2.as_ref().map(|x| x.to_value()),
            Some(self.f3.to_value()),
            Some(self.f4.to_value()),
        ])
    }
}
impl FromValue for Ts5moodde0 {
    fn from_value(v: &Value) -> Self {
        let s = match v { Value::Seq(s) => s, other => panic!("Ts5moodde0: expected Seq, got {other:?}") };
        assert_eq!(s.len(), 5, "Ts5moodde0: component count");
        let _ = s;
        Ts5moodde0 {
            f0: FromValue::from_value(s[0].as_ref().expect("component f0 of Ts5moodde0 must be present")),
            f1: s[1].as_ref().map(FromValue::from_value),
            f2: s[2].as_ref().map(FromValue::from_value),
            f3: FromValue::from_value(s[3].as_ref().expect("component f3 of Ts5moodde0 must be present")),
            f4: FromValue::from_value(s[4].as_ref().expect("component f4 of Ts5moodde0 must be present")),
        }
    }
}
impl ToValue for Ts5moodde0 {
    fn to_value(&self) -> Value {
        Value::Seq(vec![
            Some(self.f0.to_value()),
            self.f1.as_ref().map(|x| x.to_value()),
            self.f2.as_ref().map(|x| x.to_value()),
            Some(self.f3.to_value()),
            Some(self.f4.to_value()),
        ])
    }
}
impl FromValue for Ts5moodde1 {
    fn from_value(v: &Value) -> Self {
        let s = match v { Value::Seq(s) => s, other => panic!("Ts5moodde1: expected Seq, got {other:?}") };
        assert_eq!(s.len(), 5, "Ts5moodde1: component count");
        let _ = s;
        Ts5moodde1 {
            f0: FromValue::from_value(s[0].as_ref().expect("component f0 of Ts5moodde1 must be present")),
            f1: s[1].as_ref().map(FromValue::from_value),
            f2: s[2].as_ref().map(FromValue::from_value),
            f3: FromValue::from_value(s[3].as_ref().expect("component f3 of Ts5moodde1 must be present")),
            f4: FromValue::from_value(s[4].as_ref().expect("component f4 of Ts5moodde1 must be present")),
        }
    }
}
impl ToValue for Ts5moodde1 {
    fn to_value(&self) -> Value {
        Value::Seq(vec![
            Some(self.f0.to_value()),
            self.f1.as_ref().map(|x| x.to_value()),
            self.f2.as_ref().map(|x| x.to_value()),
            Some(self.f3.to_value()),
            Some(self.f4.to_value()),
        ])
    }
}
impl FromValue for Ts5moodde2 {
    fn from_value(v: &Value) -> Self {
        let s = match v { Value::Seq(s) => s, other => panic!("Ts5moodde2: expected Seq, got {other:?}") };
        assert_eq!(s.len(), 5, "Ts5moodde2: component count");
        let _ = s;
        Ts5moodde2 {
            f0: FromValue::from_value(s[0].as_ref().expect("component f0 of Ts5moodde2 must be present")),
            f1: s[1].as_ref().map(FromValue::from_value),
            f2: s[2].as_ref().map(FromValue::from_value),
            f3: FromValue::from_value(s[3].as_ref().expect("component f3 of Ts5moodde2 must be present")),
            f4: FromValue::from_value(s[4].as_ref().expect("component f4 of Ts5moodde2 must be present")),
        }
    }
}
impl ToValue for Ts5moodde2 {
    fn to_value(&self) -> Value {
        Value::Seq(vec![
            Some(self.f0.to_value()),
            self.f1.as_ref().map(|x| x.to_value()),
            self.f2.as_ref().map(|x| x.to_value()),
            Some(self.f3.to_value()),
            Some(self.f4.to_value()),
        ])
    }
}
impl FromValue for Ts5moodde3 {
    fn from_value(v: &Value) -> Self {
        let s = match v { Value::Seq(s) => s, other => panic!("Ts5moodde3: expected Seq, got {other:?}") };
        assert_eq!(s.len(), 5, "Ts5moodde3: component count");
        let _ = s;
        Ts5moodde3 {
            f0: FromValue::from_value(s[0].as_ref().expect("component f0 of Ts5moodde3 must be present")),
            f1: s[1].as_ref().map(FromValue::from_value),
            f2: s[2].as_ref().map(FromValue::from_value),
            f3: FromValue::from_value(s[3].as_ref().expect("component f3 of Ts5moodde3 must be present")),
            f4: FromValue::from_value(s[4].as_ref().expect("component f4 of Ts5moodde3 must be present")),
        }
    }
}
impl ToValue for Ts5moodde3 {
    fn to_value(&self) -> Value {
        Value::Seq(vec![
            Some(self.f0.to_value()),
            self.f1.as_ref().map(|x| x.to_value()),
            self.f2.as_ref().map(|x| x.to_value()),
            Some(self.f3.to_value()),
            Some(self.f4.to_value()),
        ])
    }
}
impl FromValue for Ts5moodde4 {
    fn from_value(v: &Value) -> Self {
        let s = match v { Value::Seq(s) => s, other => panic!("Ts5moodde4: expected Seq, got {other:?}") };
        assert_eq!(s.len(), 5, "Ts5moodde4: component count");
        let _ = s;
        Ts5moodde4 {
            f0: FromValue::from_value(s[0].as_ref().expect("component f0 of Ts5moodde4 must be present")),
            f1: s[1].as_ref().map(FromValue::from_value),
            f2: s[2].as_ref().map(FromValue::from_value),
            f3: FromValue::from_value(s[3].as_ref().expect("component f3 of Ts5moodde4 must be present")),
            f4: FromValue::from_value(s[4].as_ref().expect("component f4 of Ts5moodde4 must be present")),
        }
    }
}
impl ToValue for Ts5moodde4 {
    fn to_value(&self) -> Value {
        Value::Seq(vec![
            Some(self.f0.to_value()),
            self.f1.as_ref().map(|x| x.to_value()),
            self.f2.as_ref().map(|x| x.to_value()),
            Some(self.f3.to_value()),
            Some(self.f4.to_value()),
        ])
    }
}
impl FromValue for Ts5moodde5 {
    fn from_value(v: &Value) -> Self {
        let s = match v { Value::Seq(s) => s, other => panic!("Ts5moodde5: expected Seq, got {other:?}") };
        assert_eq!(s.len(), 5, "Ts5moodde5: component count");
        let _ = s;
        Ts5moodde5 {
            f0: FromValue::from_value(s[0].as_ref().expect("component f0 of Ts5moodde5 must be present")),
            f1: s[1].as_ref().map(FromValue::from_value),
            f2: s[2].as_ref().map(FromValue::from_value),
            f3: FromValue::from_value(s[3].as_ref().expect("component f3 of Ts5moodde5 must be present")),
            f4: FromValue::from_value(s[4].as_ref().expect("component f4 of Ts5moodde5 must be present")),
        }
    }
}
impl ToValue for Ts5moodde5 {
    fn to_value(&self) -> Value {
        Value::Seq(vec![
            Some(self.f0.to_value()),
            self.f1.as_ref().map(|x| x.to_value()),
            self.f2.as_ref().map(|x| x.to_value()),
            Some(self.f3.to_value()),
            Some(self.f4.to_value()),
        ])
    }
}
impl FromValue for Ts5oooddn {
    fn from_value(v: &Value) -> Self {
        let s = match v { Value::Seq(s) => s, other => panic!("Ts5oooddn: expected Seq, got {other:?}") };
        assert_eq!(s.len(), 5, "Ts5oooddn: component count");
        let _ = s;
        Ts5oooddn {
            f0: s[0].as_ref().map(FromValue::from_value),
            f1: s[1].as_ref().map(FromValue::from_value),
            f2: s[2].as_ref().map(FromValue::from_value),
            f3: FromValue::from_value(s[3].as_ref().expect("component f3 of Ts5oooddn must be present")),
            f4: FromValue::from_value(s[4].as_ref().expect("component f4 of Ts5oooddn must be present")),
        }
    }
}
impl ToValue for Ts5oooddn {
    fn to_value(&self) -> Value {
        Value::Seq(vec![
            self.f0.as_ref().map(|x| x.to_value()),
            self.f1.as_ref().map(|x| x.to_value()),
            self.f2.as_ref().map(|x| x.to_value()),
            Some(self.f3.to_value()),
            Some(self.f4.to_value()),
        ])
    }
}
impl FromValue for Ts5ooodde0 {
    fn from_value(v: &Value) -> Self {
        let s = match v { Value::Seq(s) => s, other => panic!("Ts5ooodde0: expected Seq, got {other:?}") };
        assert_eq!(s.len(), 5, "Ts5ooodde0: component count");
        let _ = s;
        Ts5ooodde0 {
            f0: s[0].as_ref().map(FromValue::from_value),
            f1: s[1].as_ref().map(FromValue::from_value),
            f2: s[2].as_ref().map(FromValue::from_value),
            f3: FromValue::from_value(s[3].as_ref().expect("component f3 of Ts5ooodde0 must be present")),
            f4: FromValue::from_value(s[4].as_ref().expect("component f4 of Ts5ooodde0 must be present")),
        }
    }
}
impl ToValue for Ts5ooodde0 {
    fn to_value(&self) -> Value {
        Value::Seq(vec![
            self.f0.as_ref().map(|x| x.to_value()),
            self.f1.as_ref().map(|x| x.to_value()),
            self.f2.as_ref().map(|x| x.to_value()),
            Some(self.f3.to_value()),
            Some(self.f4.to_value()),
        ])
    }
}
impl FromValue for Ts5ooodde1 {
    fn from_value(v: &Value) -> Self {
        let s = match v { Value::Seq(s) => s, other => panic!("Ts5ooodde1: expected Seq, got {other:?}") };
        assert_eq!(s.len(), 5, "Ts5ooodde1: component count");
        let _ = s;
        Ts5ooodde1 {
            f0: s[0].as_ref().map(FromValue::from_value),
            f1: s[1].as_ref().map(FromValue::from_value),
            f2: s[2].as_ref().map(FromValue::from_value),
            f3: FromValue::from_value(s[3].as_ref().expect("component f3 of Ts5ooodde1 must be present")),
            f4: FromValue::from_value(s[4].as_ref().expect("component f4 of Ts5ooodde1 must be present")),
        }
    }
}
impl ToValue for Ts5ooodde1 {
    fn to_value(&self) -> Value {
        Value::Seq(vec![
            self.f0.as_ref().map(|x| x.to_value()),
            self.f1.as_ref().map(|x| x.to_value()),
            self.f2.as_ref().map(|x| x.to_value()),
            Some(self.f3.to_value()),
            Some(self.f4.to_value()),
        ])
    }
}
impl FromValue for Ts5ooodde2 {
    fn from_value(v: &Value) -> Self {
        let s = match v { Value::Seq(s) => s, other => panic!("Ts5ooodde2: expected Seq, got {other:?}") };
        assert_eq!(s.len(), 5, "Ts5ooodde2: component count");
        let _ = s;
        Ts5ooodde2 {
            f0: s[0].as_ref().map(FromValue::from_value),
            f1: s[1].as_ref().map(FromValue::from_value),
            f2: s[2].as_ref().map(FromValue::from_value),
            f3: FromValue::from_value(s[3].as_ref().expect("component f3 of Ts5ooodde2 must be present")),
            f4: FromValue::from_value(s[4].as_ref().expect("component f4 of Ts5ooodde2 must be present")),
        }
    }
}
impl ToValue for Ts5ooodde2 {
    fn to_value(&self) -> Value {
        Value::Seq(vec![
            self.f0.as_ref().map(|x| x.to_value()),
            self.f1.as_ref().map(|x| x.to_value()),
            self.f2.as_ref().map(|x| x.to_value()),
            Some(self.f3.to_value()),
            Some(self.f4.to_value()),
        ])
    }
}
impl FromValue for Ts5ooodde3 {
    fn from_value(v: &Value) -> Self {
        let s = match v { Value::Seq(s) => s, other => panic!("Ts5ooodde3: expected Seq, got {other:?}") };
        assert_eq!(s.len(), 5, "Ts5ooodde3: component count");
        let _ = s;
        Ts5ooodde3 {
            f0: s[0].as_ref().map(FromValue::from_value),
            f1: s[1].as_ref().map(FromValue::from_value),
            f2: s[2].as_ref().map(FromValue::from_value),
            f3: FromValue::from_value(s[3].as_ref().expect("component f3 of Ts5ooodde3 must be present")),
            f4: FromValue::from_value(s[4].as_ref().expect("component f4 of Ts5ooodde3 must be present")),
        }
    }
}
impl ToValue for Ts5ooodde3 {
    fn to_value(&self) -> Value {
        Value::Seq(vec![
            self.f0.as_ref().map(|x| x.to_value()),
            self.f1.as_ref().map(|x| x.to_value()),
            self.f2.as_ref().map(|x| x.to_value()),
            Some(self.f3.to_value()),
            Some(self.f4.to_value()),
        ])
    }
}
impl FromValue for Ts5ooodde4 {
    fn from_value(v: &Value) -> Self {
        let s = match v { Value::Seq(s) => s, other => panic!("Ts5ooodde4: expected Seq, got {other:?}") };
        assert_eq!(s.len(), 5, "Ts5ooodde4: component count");
        let _ = s;
        Ts5ooodde4 {
            f0: s[0].as_ref().map(FromValue::from_value),
            f1: s[1].as_ref().map(FromValue::from_value),
            f2: s[2].as_ref().map(FromValue::from_value),
            f3: FromValue::from_value(s[3].as_ref().expect("component f3 of Ts5ooodde4 must be present")),
            f4: FromValue::from_value(s[4].as_ref().expect("component f4 of Ts5ooodde4 must be present")),
        }
    }
}
impl ToValue for Ts5ooodde4 {
    fn to_value(&self) -> Value {
        Value::Seq(vec![
            self.f0.as_ref().map(|x| x.to_value()),
            self.f1.as_ref().map(|x| x.to_value()),
            self.f2.as_ref().map(|x| x.to_value()),
            Some(self.f3.to_value()),
            Some(self.f4.to_value()),
        ])
    }
}
impl FromValue for Ts5ooodde5 {
    fn from_value(v: &Value) -> Self {
        let s = match v { Value::Seq(s) => s, other => panic!("Ts5ooodde5: expected Seq, got {other:?}") };
        assert_eq!(s.len(), 5, "Ts5ooodde5: component count");
        let _ = s;
        Ts5ooodde5 {
            f0: s[0].as_ref().map(FromValue::from_value),
            f1: s[1].as_ref().map(FromValue::from_value),
            f2: s[2].as_ref().map(FromValue::from_value),
            f3: FromValue::from_value(s[3].as_ref().expect("component f3 of Ts5ooodde5 must be present")),
            f4: FromValue::from_value(s[4].as_ref().expect("component f4 of Ts5ooodde5 must be present")),
        }
    }
}
impl ToValue for Ts5ooodde5 {
    fn to_value(&self) -> Value {
        Value::Seq(vec![
            self.f0.as_ref().map(|x| x.to_value()),
            self.f1.as_ref().map(|x| x.to_value()),
            self.f2.as_ref().map(|x| x.to_value()),
            Some(self.f3.to_value()),
            Some(self.f4.to_value()),
        ])
    }
}
impl FromValue for Ts5dooddn {
    fn from_value(v: &Value) -> Self {
        let s = match v { Value::Seq(s) => s, other => panic!("Ts5dooddn: expected Seq, got {other:?}") };
        assert_eq!(s.len(), 5, "Ts5dooddn: component count");
        let _ = s;
        Ts5dooddn {
            f0: FromValue::from_value(s[0].as_ref().expect("component f0 of Ts5dooddn must be present")),
            f1: s[1].as_ref().map(FromValue::from_value),
            f2: s[2].as_ref().map(FromValue::from_value),
            f3: FromValue::from_value(s[3].as_ref().expect("component f3 of Ts5dooddn must be present")),
            f4: FromValue::from_value(s[4].as_ref().expect("component f4 of Ts5dooddn must be present")),
        }
    }
}
impl ToValue for Ts5dooddn {
    fn to_value(&self) -> Value {
        Value::Seq(vec![
            Some(self.f0.to_value()),
            self.f1.as_ref().map(|x| x.to_value()),
            self.f2.as_ref().map(|x| x.to_value()),
            Some(self.f3.to_value()),
            Some(self.f4.to_value()),
        ])
    }
}
impl FromValue for Ts5doodde0 {
    fn from_value(v: &Value) -> Self {
        let s = match v { Value::Seq(s) => s, other => panic!("Ts5doodde0: expected Seq, got {other:?}") };
        assert_eq!(s.len(), 5, "Ts5doodde0: component count");
        let _ = s;
        Ts5doodde0 {
            f0: FromValue::from_value(s[0].as_ref().expect("component f0 of Ts5doodde0 must be present")),
            f1: s[1].as_ref().map(FromValue::from_value),
            f2: s[2].as_ref().map(FromValue::from_value),
            f3: FromValue::from_value(s[3].as_ref().expect("component f3 of Ts5doodde0 must be present")),
            f4: FromValue::from_value(s[4].as_ref().expect("component f4 of Ts5doodde0 must be present")),
        }
    }
}
impl ToValue for Ts5doodde0 {
    fn to_value(&self) -> Value {
        Value::Seq(vec![
            Some(self.f0.to_value()),
            self.f1.as_ref().map(|x| x.to_value()),
            self.f2.as_ref().map(|x| x.to_value()),
            Some(self.f3.to_value()),
            Some(self.f4.to_value()),
        ])
    }
}
impl FromValue for Ts5doodde1 {
    fn from_value(v: &Value) -> Self {
        let s = match v { Value::Seq(s) => s, other => panic!("Ts5doodde1: expected Seq, got {other:?}") };
        assert_eq!(s.len(), 5, "Ts5doodde1: component count");
        let _ = s;
        Ts5doodde1 {
            f0: FromValue::from_value(s[0].as_ref().expect("component f0 of Ts5doodde1 must be present")),
            f1: s[1].as_ref().map(FromValue::from_value),
            f2: s[2].as_ref().map(FromValue::from_value),
            f3: FromValue::from_value(s[3].as_ref().expect("component f3 of Ts5doodde1 must be present")),
            f4: FromValue::from_value(s[4].as_ref().expect("component f4 of Ts5doodde1 must be present")),
        }
    }
}
impl ToValue for Ts5doodde1 {
    fn to_value(&self) -> Value {
        Value::Seq(vec![
            Some(self.f0.to_value()),
            self.f1.as_ref().map(|x| x.to_value()),
            self.f2.as_ref().map(|x| x.to_value()),
            Some(self.f3.to_value()),
            Some(self.f4.to_value()),
        ])
    }
}
impl FromValue for Ts5doodde2 {
    fn from_value(v: &Value) -> Self {
        let s = match v { Value::Seq(s) => s, other => panic!("Ts5doodde2: expected Seq, got {other:?}") };
        assert_eq!(s.len(), 5, "Ts5doodde2: component count");
        let _ = s;
        Ts5doodde2 {
            f0: FromValue::from_value(s[0].as_ref().expect("component f0 of Ts5doodde2 must be present")),
            f1: s[1].as_ref().map(FromValue::from_value),
            f2: s[2].as_ref().map(FromValue::from_value),
            f3: FromValue::from_value(s[3].as_ref().expect("component f3 of Ts5doodde2 must be present")),
            f4: FromValue::from_value(s[4].as_ref().expect("component f4 of Ts5doodde2 must be present")),
        }
    }
}
impl ToValue for Ts5doodde2 {
    fn to_value(&self) -> Value {
        Value::Seq(vec![
            Some(self.f0.to_value()),
            self.f1.as_ref().map(|x| x.to_value()),
            self.f2.as_ref().map(|x| x.to_value()),
            Some(self.f3.to_value()),
            Some(self.f4.to_value()),
        ])
    }
}
impl FromValue for Ts5doodde3 {
    fn from_value(v: &Value) -> Self {
        let s = match v { Value::Seq(s) => s, other => panic!("Ts5doodde3: expected Seq, got {other:?}") };
        assert_eq!(s.len(), 5, "Ts5doodde3: component count");
        let _ = s;
        Ts5doodde3 {
            f0: FromValue::from_value(s[0].as_ref().expect("component f0 of Ts5doodde3 must be present")),
            f1: s[1].as_ref().map(FromValue::from_value),
            f2: s[2].as_ref().map(FromValue::from_value),
            f3: FromValue::from_value(s[3].as_ref().expect("component f3 of Ts5doodde3 must be present")),
            f4: FromValue::from_value(s[4].as_ref().expect("component f4 of Ts5doodde3 must be present")),
        }
    }
}
impl ToValue for Ts5doodde3 {
    fn to_value(&self) -> Value {
        Value::Seq(vec![
            Some(self.f0.to_value()),
            self.f1.as_ref().map(|x| x.to_value()),
            self.f2.as_ref().map(|x| x.to_value()),
            Some(self.f3.to_value()),
            Some(self.f4.to_value()),
        ])
    }
}
impl FromValue for Ts5doodde4 {
    fn from_value(v: &Value) -> Self {
        let s = match v { Value::Seq(s) => s, other => panic!("Ts5doodde4: expected Seq, got {other:?}") };
        assert_eq!(s.len(), 5, "Ts5doodde4: component count");
        let _ = s;
        Ts5doodde4 {
            f0: FromValue::from_value(s[0].as_ref().expect("component f0 of Ts5doodde4 must be present")),
            f1: s[1].as_ref().map(FromValue::from_value),
            f2: s[2].as_ref().map(FromValue::from_value),
            f3: FromValue::from_value(s[3].as_ref().expect("component f3 of Ts5doodde4 must be present")),
            f4: FromValue::from_value(s[4].as_ref().expect("component f4 of Ts5doodde4 must be present")),
        }
    }
}
impl ToValue for Ts5doodde4 {
    fn to_value(&self) -> Value {
        Value::Seq(vec![
            Some(self.f0.to_value()),
            self.f1.as_ref().map(|x| x.to_value()),
            self.f2.as_ref().map(|x| x.to_value()),
            Some(self.f3.to_value()),
            Some(self.f4.to_value()),
        ])
    }
}
impl FromValue for Ts5doodde5 {
    fn from_value(v: &Value) -> Self {
        let s = match v { Value::Seq(s) => s, other => panic!("Ts5doodde5: expected Seq, got {other:?}") };
        assert_eq!(s.len(), 5, "Ts5doodde5: component count");
        let _ = s;
        Ts5doodde5 {
            f0: FromValue::from_value(s[0].as_ref().expect("component f0 of Ts5doodde5 must be present")),
            f1: s[1].as_ref().map(FromValue::from_value),
            f2: s[2].as_ref().map(FromValue::from_value),
            f3: FromValue::from_value(s[3].as_ref().expect("component f3 of Ts5doodde5 must be present")),
            f4: FromValue::from_value(s[4].as_ref().expect("component f4 of Ts5doodde5 must be present")),
        }
    }
}
impl ToValue for Ts5doodde5 {
    fn to_value(&self) -> Value {
        Value::Seq(vec![
            Some(self.f0.to_value()),
            self.f1.as_ref().map(|x| x.to_value()),
            self.f2.as_ref().map(|x| x.to_value()),
            Some(self.f3.to_value()),
            Some(self.f4.to_value()),
        ])
    }
}
impl FromValue for Ts5mdoddn {
    fn from_value(v: &Value) -> Self {
        let s = match v { Value::Seq(s) => s, other => panic!("Ts5mdoddn: expected Seq, got {other:?}") };
        assert_eq!(s.len(), 5, "Ts5mdoddn: component count");
        let _ = s;
        Ts5mdoddn {
            f0: FromValue::from_value(s[0].as_ref().expect("component f0 of Ts5mdoddn must be present")),
            f1: FromValue::from_value(s[1].as_ref().expect("component f1 of Ts5mdoddn must be present")),
            f2: s[2].as_ref().map(FromValue::from_value),
            f3: FromValue::from_value(s[3].as_ref().expect("component f3 of Ts5mdoddn must be present")),
            f4: FromValue::from_value(s[4].as_ref().expect("component f4 of Ts5mdoddn must be present")),
        }
    }
}
impl ToValue for Ts5mdoddn {
    fn to_value(&self) -> Value {
        Value::Seq(vec![
            Some(self.f0.to_value()),
            Some(self.f1.to_value()),
            self.f2.as_ref().map(|x| x.to_value()),
            Some(self.f3.to_value()),
            Some(self.f4.to_value()),
        ])
    }
}
impl FromValue for Ts5mdodde0 {
    fn from_value(v: &Value) -> Self {
        let s = match v { Value::Seq(s) => s, other => panic!("Ts5mdodde0: expected Seq, got {other:?}") };
        assert_eq!(s.len(), 5, "Ts5mdodde0: component count");
        let _ = s;
        Ts5mdodde0 {
            f0: FromValue::from_value(s[0].as_ref().expect("component f0 of Ts5mdodde0 must be present")),
            f1: FromValue::from_value(s[1].as_ref().expect("component f1 of Ts5mdodde0 must be present")),
            f2: s[2].as_ref().map(FromValue::from_value),
            f3: FromValue::from_value(s[3].as_ref().expect("component f3 of Ts5mdodde0 must be present")),
            f4: FromValue::from_value(s[4].as_ref().expect("component f4 of Ts5mdodde0 must be present")),
        }
    }
}
impl ToValue for Ts5mdodde0 {
    fn to_value(&self) -> Value {
        Value::Seq(vec![
            Some(self.f0.to_value()),
            Some(self.f1.to_value()),
            self.f2.as_ref().map(|x| x.to_value()),
            Some(self.f3.to_value()),
            Some(self.f4.to_value()),
        ])
    }
}
impl FromValue for Ts5mdodde1 {
    fn from_value(v: &Value) -> Self {
        let s = match v { Value::Seq(s) => s, other => panic!("Ts5mdodde1: expected Seq, got {other:?}") };
        assert_eq!(s.len(), 5, "Ts5mdodde1: component count");
        let _ = s;
        Ts5mdodde1 {
            f0: FromValue::from_value(s[0].as_ref().expect("component f0 of Ts5mdodde1 must be present")),
            f1: FromValue::from_value(s[1].as_ref().expect("component f1 of Ts5mdodde1 must be present")),
            f2: s[2].as_ref().map(FromValue::from_value),
            f3: FromValue::from_value(s[3].as_ref().expect("component f3 of Ts5mdodde1 must be present")),
            f4: FromValue::from_value(s[4].as_ref().expect("component f4 of Ts5mdodde1 must be present")),
        }
    }
}
impl ToValue for Ts5mdodde1 {
    fn to_value(&self) -> Value {
        Value::Seq(vec![
            Some(self.f0.to_value()),
            Some(self.f1.to_value()),
            self.f2.as_ref().map(|x| x.to_value()),
            Some(self.f3.to_value()),
            Some(self.f4.to_value()),
        ])
    }
}
impl FromValue for Ts5mdodde2 {
    fn from_value(v: &Value) -> Self {
        let s = match v { Value::Seq(s) => s, other => panic!("Ts5mdodde2: expected Seq, got {other:?}") };
        assert_eq!(s.len(), 5, "Ts5mdodde2: component count");
        let _ = s;
        Ts5mdodde2 {
            f0: FromValue::from_value(s[0].as_ref().expect("component f0 of Ts5mdodde2 must be present")),
            f1: FromValue::from_value(s[1].as_ref().expect("component f1 of Ts5mdodde2 must be present")),
            f2: s[2].as_ref().map(FromValue::from_value),
            f3: FromValue::from_value(s[3].as_ref().expect("component f3 of Ts5mdodde2 must be present")),
            f4: FromValue::from_value(s[4].as_ref().expect("component f4 of Ts5mdodde2 must be present")),
        }
    }
}
impl ToValue for Ts5mdodde2 {
    fn to_value(&self) -> Value {
        Value::Seq(vec![
            Some(self.f0.to_value()),
            Some(self.f1.to_value()),
            self.f2.as_ref().map(|x| x.to_value()),
            Some(self.f3.to_value()),
            Some(self.f4.to_value()),
        ])
    }
}
impl FromValue for Ts5mdodde3 {
    fn from_value(v: &Value) -> Self {
        let s = match v { Value::Seq(s) => s, other => panic!("Ts5mdodde3: expected Seq, got {other:?}") };
        assert_eq!(s.len(), 5, "Ts5mdodde3: component count");
        let _ = s;
        Ts5mdodde3 {
            f0: FromValue::from_value(s[0].as_ref().expect("component f0 of Ts5mdodde3 must be present")),
            f1: FromValue::from_value(s[1].as_ref().expect("component f1 of Ts5mdodde3 must be present")),
            f2: s[2].as_ref().map(FromValue::from_value),
            f3: FromValue::from_value(s[3].as_ref().expect("component f3 of Ts5mdodde3 must be present")),
            f4: FromValue::from_value(s[4].as_ref().expect("component f4 of Ts5mdodde3 must be present")),
        }
    }
}
impl ToValue for Ts5mdodde3 {
    fn to_value(&self) -> Value {
        Value::Seq(vec![
            Some(self.f0.to_value()),
            Some(self.f1.to_value()),
            self.f2.as_ref().map(|x| x.to_value()),
            Some(self.f3.to_value()),
            Some(self.f4.to_value()),
        ])
    }
}
impl FromValue for Ts5mdodde4 {
    fn from_value(v: &Value) -> Self {
        let s = match v { Value::Seq(s) => s, other => panic!("Ts5mdodde4: expected Seq, got {other:?}") };
        assert_eq!(s.len(), 5, "Ts5mdodde4: component count");
        let _ = s;
        Ts5mdodde4 {
            f0: FromValue::from_value(s[0].as_ref().expect("component f0 of Ts5mdodde4 must be present")),
            f1: FromValue::from_value(s[1].as_ref().expect("component f1 of Ts5mdodde4 must be present")),
            f2: s[2].as_ref().map(FromValue::from_value),
            f3: FromValue::from_value(s[3].as_ref().expect("component f3 of Ts5mdodde4 must be present")),
            f4: FromValue::from_value(s[4].as_ref().expect("component f4 of Ts5mdodde4 must be present")),
        }
    }
}
impl ToValue for Ts5mdodde4 {
    fn to_value(&self) -> Value {
        Value::Seq(vec![
            Some(self.f0.to_value()),
            Some(self.f1.to_value()),
            self.f2.as_ref().map(|x| x.to_value()),
            Some(self.f3.to_value()),
            Some(self.f4.to_value()),
        ])
    }
}
impl FromValue for Ts5mdodde5 {
    fn from_value(v: &Value) -> Self {
        let s = match v { Value::Seq(s) => s, other => panic!("Ts5mdodde5: expected Seq, got {other:?}") };
        assert_eq!(s.len(), 5, "Ts5mdodde5: component count");
        let _ = s;
        Ts5mdodde5 {
            f0: FromValue::from_value(s[0].as_ref().expect("component f0 of Ts5mdodde5 must be present")),
            f1: FromValue::from_value(s[1].as_ref().expect("component f1 of Ts5mdodde5 must be present")),
            f2: s[2].as_ref().map(FromValue::from_value),
            f3: FromValue::from_value(s[3].as_ref().expect("component f3 of Ts5mdodde5 must be present")),
            f4: FromValue::from_value(s[4].as_ref().expect("component f4 of Ts5mdodde5 must be present")),
        }
    }
}
impl ToValue for Ts5mdodde5 {
    fn to_value(&self) -> Value {
        Value::Seq(vec![
            Some(self.f0.to_value()),
            Some(self.f1.to_value()),
            self.f2.as_ref().map(|x| x.to_value()),
            Some(self.f3.to_value()),
            Some(self.f4.to_value()),
        ])
    }
}
impl FromValue for Ts5ododdn {
    fn from_value(v: &Value) -> Self {
        let s = match v { Value::Seq(s) => s, other => panic!("Ts5ododdn: expected Seq, got {other:?}") };
        assert_eq!(s.len(), 5, "Ts5ododdn: component count");
        let _ = s;
        Ts5ododdn {
            f0: s[0].as_ref().map(FromValue::from_value),
            f1: FromValue::from_value(s[1].as_ref().expect("component f1 of Ts5ododdn must be present")),
            f2: s[2].as_ref().map(FromValue::from_value),
            f3: FromValue::from_value(s[3].as_ref().expect("component f3 of Ts5ododdn must be present")),
            f4: FromValue::from_value(s[4].as_ref().expect("component f4 of Ts5ododdn must be present")),
        }
    }
}
impl ToValue for Ts5ododdn {
    fn to_value(&self) -> Value {
        Value::Seq(vec![
            self.f0.as_ref().map(|x| x.to_value()),
            Some(self.f1.to_value()),
            self.f2.as_ref().map(|x| x.to_value()),
            Some(self.f3.to_value()),
            Some(self.f4.to_value()),
        ])
    }
}
impl FromValue for Ts5ododde0 {
    fn from_value(v: &Value) -> Self {
        let s = match v { Value::Seq(s) => s, other => panic!("Ts5ododde0: expected Seq, got {other:?}") };
        assert_eq!(s.len(), 5, "Ts5ododde0: component count");
        let _ = s;
        Ts5ododde0 {
            f0: s[0].as_ref().map(FromValue::from_value),
            f1: FromValue::from_value(s[1].as_ref().expect("component f1 of Ts5ododde0 must be present")),
            f2: s[2].as_ref().map(FromValue::from_value),
            f3: FromValue::from_value(s[3].as_ref().expect("component f3 of Ts5ododde0 must be present")),
            f4: FromValue::from_value(s[4].as_ref().expect("component f4 of Ts5ododde0 must be present")),
        }
    }
}
impl ToValue for Ts5ododde0 {
    fn to_value(&self) -> Value {
        Value::Seq(vec![
            self.f0.as_ref().map(|x| x.to_value()),
            Some(self.f1.to_value()),
            self.f2.as_ref().map(|x| x.to_value()),
            Some(self.f3.to_value()),
            Some(self.f4.to_value()),
        ])
    }
}
impl FromValue for Ts5ododde1 {
    fn from_value(v: &Value) -> Self {
        let s = match v { Value::Seq(s) => s, other => panic!("Ts5ododde1: expected Seq, got {other:?}") };
        assert_eq!(s.len(), 5, "Ts5ododde1: component count");
        let _ = s;
        Ts5ododde1 {
            f0: s[0].as_ref().map(FromValue::from_value),
            f1: FromValue::from_value(s[1].as_ref().expect("component f1 of Ts5ododde1 must be present")),
            f2: s[2].as_ref().map(FromValue::from_value),
            f3: FromValue::from_value(s[3].as_ref().expect("component f3 of Ts5ododde1 must be present")),
            f4: FromValue::from_value(s[4].as_ref().expect("component f4 of Ts5ododde1 must be present")),
        }
    }
}
impl ToValue for Ts5ododde1 {
    fn to_value(&self) -> Value {
        Value::Seq(vec![
            self.f0.as_ref().map(|x| x.to_value()),
            Some(self.f1.to_value()),
            self.f2.as_ref().map(|x| x.to_value()),
            Some(self.f3.to_value()),
            Some(self.f4.to_value()),
        ])
    }
}
impl FromValue for Ts5ododde2 {
    fn from_value(v: &Value) -> Self {
        let s = match v { Value::Seq(s) => s, other => panic!("Ts5ododde2: expected Seq, got {other:?}") };
        assert_eq!(s.len(), 5, "Ts5ododde2: component count");
        let _ = s;
        Ts5ododde2 {
            f0: s[0].as_ref().map(FromValue::from_value),
            f1: FromValue::from_value(s[1].as_ref().expect("component f1 of Ts5ododde2 must be present")),
            f2: s[2].as_ref().map(FromValue::from_value),
            f3: FromValue::from_value(s[3].as_ref().expect("component f3 of Ts5ododde2 must be present")),
            f4: FromValue::from_value(s[4].as_ref().expect("component f4 of Ts5ododde2 must be present")),
        }
    }
}
impl ToValue for Ts5ododde2 {
    fn to_value(&self) -> Value {
        Value::Seq(vec![
            self.f0.as_ref().map(|x| x.to_value()),
            Some(self.f1.to_value()),
            self.f2.as_ref().map(|x| x.to_value()),
            Some(self.f3.to_value()),
            Some(self.f4.to_value()),
        ])
    }
}
impl FromValue for Ts5ododde3 {
    fn from_value(v: &Value) -> Self {
        let s = match v { Value::Seq(s) => s, other => panic!("Ts5ododde3: expected Seq, got {other:?}") };
        assert_eq!(s.len(), 5, "Ts5ododde3: component count");
        let _ = s;
        Ts5ododde3 {
            f0: s[0].as_ref().map(FromValue::from_value),
            f1: FromValue::from_value(s[1].as_ref().expect("component f1 of Ts5ododde3 must be present")),
            f2: s[2].as_ref().map(FromValue::from_value),
            f3: FromValue::from_value(s[3].as_ref().expect("component f3 of Ts5ododde3 must be present")),
            f4: FromValue::from_value(s[4].as_ref().expect("component f4 of Ts5ododde3 must be present")),
        }
    }
}
impl ToValue for Ts5ododde3 {
    fn to_value(&self) -> Value {
        Value::Seq(vec![
            self.f0.as_ref().map(|x| x.to_value()),
            Some(self.f1.to_value()),
            self.f2.as_ref().map(|x| x.to_value()),
            Some(self.f3.to_value()),
            Some(self.f4.to_value()),
        ])
    }
}
impl FromValue for Ts5ododde4 {
    fn from_value(v: &Value) -> Self {
        let s = match v { Value::Seq(s) => s, other => panic!("Ts5ododde4: expected Seq, got {other:?}") };
        assert_eq!(s.len(), 5, "Ts5ododde4: component count");
        let _ = s;
        Ts5ododde4 {
            f0: s[0].as_ref().map(FromValue::from_value),
            f1: FromValue::from_value(s[1].as_ref().expect("component f1 of Ts5ododde4 must be present")),
            f2: s[2].as_ref().map(FromValue::from_value),
            f3: FromValue::from_value(s[3].as_ref().expect("component f3 of Ts5ododde4 must be present")),
            f4: FromValue::from_value(s[4].as_ref().expect("component f4 of Ts5ododde4 must be present")),
        }
    }
}
impl ToValue for Ts5ododde4 {
    fn to_value(&self) -> Value {
        Value::Seq(vec![
            self.f0.as_ref().map(|x| x.to_value()),
            Some(self.f1.to_value()),
            self.f2.as_ref().map(|x| x.to_value()),
            Some(self.f3.to_value()),
            Some(self.f4.to_value()),
        ])
    }
}
impl FromValue for Ts5ododde5 {
    fn from_value(v: &Value) -> Self {
        let s = match v { Value::Seq(s) => s, other => panic!("Ts5ododde5: expected Seq, got {other:?}") };
        assert_eq!(s.len(), 5, "Ts5ododde5: component count");
        let _ = s;
        Ts5ododde5 {
            f0: s[0].as_ref().map(FromValue::from_value),
            f1: FromValue::from_value(s[1].as_ref().expect("component f1 of Ts5ododde5 must be present")),
            f2: s[2].as_ref().map(FromValue::from_value),
            f3: FromValue::from_value(s[3].as_ref().expect("component f3 of Ts5ododde5 must be present")),
            f4: FromValue::from_value(s[4].as_ref().expect("component f4 of Ts5ododde5 must be present")),
        }
    }
}
impl ToValue for Ts5ododde5 {
    fn to_value(&self) -> Value {
        Value::Seq(vec![
            self.f0.as_ref().map(|x| x.to_value()),
            Some(self.f1.to_value()),
            self.f2.as_ref().map(|x| x.to_value()),
            Some(self.f3.to_value()),
            Some(self.f4.to_value()),
        ])
    }
}
impl FromValue for Ts5ddoddn {
    fn from_value(v: &Value) -> Self {
        let s = match v { Value::Seq(s) => s, other => panic!("Ts5ddoddn: expected Seq, got {other:?}") };
        assert_eq!(s.len(), 5, "Ts5ddoddn: component count");
        let _ = s;
        Ts5ddoddn {
            f0: FromValue::from_value(s[0].as_ref().expect("component f0 of Ts5ddoddn must be present")),
            f1: FromValue::from_value(s[1].as_ref().expect("component f1 of Ts5ddoddn must be present")),
            f2: s[2].as_ref().map(FromValue::from_value),
            f3: FromValue::from_value(s[3].as_ref().expect("component f3 of Ts5ddoddn must be present")),
            f4: FromValue::from_value(s[4].as_ref().expect("component f4 of Ts5ddoddn must be present")),
        }
    }
}
impl ToValue for Ts5ddoddn {
    fn to_value(&self) -> Value {
        Value::Seq(vec![
            Some(self.f0.to_value()),
            Some(self.f1.to_value()),
            self.f2.as_ref().map(|x| x.to_value()),
            Some(self.f3.to_value()),
            Some(self.f4.to_value()),
        ])
    }
}
impl FromValue for Ts5ddodde0 {
    fn from_value(v: &Value) -> Self {
        let s = match v { Value::Seq(s) => s, other => panic!("Ts5ddodde0: expected Seq, got {other:?}") };
        assert_eq!(s.len(), 5, "Ts5ddodde0: component count");
        let _ = s;
        Ts5ddodde0 {
            f0: FromValue::from_value(s[0].as_ref().expect("component f0 of Ts5ddodde0 must be present")),
            f1: FromValue::from_value(s[1].as_ref().expect("component f1 of Ts5ddodde0 must be present")),
            f2: s[2].as_ref().map(FromValue::from_value),
            f3: FromValue::from_value(s[3].as_ref().expect("component f3 of Ts5ddodde0 must be present")),
            f4: FromValue::from_value(s[4].as_ref().expect("component f4 of Ts5ddodde0 must be present")),
        }
    }
}
impl ToValue for Ts5ddodde0 {
    fn to_value(&self) -> Value {
        Value::Seq(vec![
            Some(self.f0.to_value()),
            Some(self.f1.to_value()),
            self.f2.as_ref().map(|x| x.to_value()),
            Some(self.f3.to_value()),
            Some(self.f4.to_value()),
        ])
    }
}
impl FromValue for Ts5ddodde1 {
    fn from_value(v: &Value) -> Self {
        let s = match v { Value::Seq(s) => s, other => panic!("Ts5ddodde1: expected Seq, got {other:?}") };
        assert_eq!(s.len(), 5, "Ts5ddodde1: component count");
        let _ = s;
        Ts5ddodde1 {
            f0: FromValue::from_value(s[0].as_ref().expect("component f0 of Ts5ddodde1 must be present")),
            f1: FromValue::from_value(s[1].as_ref().expect("component f1 of Ts5ddodde1 must be present")),
            f2: s[2].as_ref().map(FromValue::from_value),
            f3: FromValue::from_value(s[3].as_ref().expect("component f3 of Ts5ddodde1 must be present")),
            f4: FromValue::from_value(s[4].as_ref().expect("component f4 of Ts5ddodde1 must be present")),
        }
    }
}
impl ToValue for Ts5ddodde1 {
    fn to_value(&self) -> Value {
        Value::Seq(vec![
            Some(self.f0.to_value()),
            Some(self.f1.to_value()),
            self.f2.as_ref().map(|x| x.to_value()),
            Some(self.f3.to_value()),
            Some(self.f4.to_value()),
        ])
    }
}
impl FromValue for Ts5ddodde2 {
    fn from_value(v: &Value) -> Self {
        let s = match v { Value::Seq(s) => s, other => panic!("Ts5ddodde2: expected Seq, got {other:?}") };
        assert_eq!(s.len(), 5, "Ts5ddodde2: component count");
        let _ = s;
        Ts5ddodde2 {
            f0: FromValue::from_value(s[0].as_ref().expect("component f0 of Ts5ddodde2 must be present")),
            f1: FromValue::from_value(s[1].as_ref().expect("component f1 of Ts5ddodde2 must be present")),
            f2: s[2].as_ref().map(FromValue::from_value),
            f3: FromValue::from_value(s[3].as_ref().expect("component f3 of Ts5ddodde2 must be present")),
            f4: FromValue::from_value(s[4].as_ref().expect("component f4 of Ts5ddodde2 must be present")),
        }
    }
}
impl ToValue for Ts5ddodde2 {
    fn to_value(&self) -> Value {
        Value::Seq(vec![
            Some(self.f0.to_value()),
            Some(self.f1.to_value()),
            self.f2.as_ref().map(|x| x.to_value()),
            Some(self.f3.to_value()),
            Some(self.f4.to_value()),
        ])
    }
}
impl FromValue for Ts5ddodde3 {
    fn from_value(v: &Value) -> Self {
        let s = match v { Value::Seq(s) => s, other => panic!("Ts5ddodde3: expected Seq, got {other:?}") };
        assert_eq!(s.len(), 5, "Ts5ddodde3: component count");
        let _ = s;
        Ts5ddodde3 {
            f0: FromValue::from_value(s[0].as_ref().expect("component f0 of Ts5ddodde3 must be present")),
            f1: FromValue::from_value(s[1].as_ref().expect("component f1 of Ts5ddodde3 must be present")),
            f2: s[2].as_ref().map(FromValue::from_value),
            f3: FromValue::from_value(s[3].as_ref().expect("component f3 of Ts5ddodde3 must be present")),
            f4: FromValue::from_value(s[4].as_ref().expect("component f4 of Ts5ddodde3 must be present")),
        }
    }
}
impl ToValue for Ts5ddodde3 {
    fn to_value(&self) -> Value {
        Value::Seq(vec![
            Some(self.f0.to_value()),
            Some(self.f1.to_value()),
            self.f2.as_ref().map(|x| x.to_value()),
            Some(self.f3.to_value()),
            Some(self.f4.to_value()),
        ])
    }
}
impl FromValue for Ts5ddodde4 {
    fn from_value(v: &Value) -> Self {
        let s = match v { Value::Seq(s) => s, other => panic!("Ts5ddodde4: expected Seq, got {other:?}") };
        assert_eq!(s.len(), 5, "Ts5ddodde4: component count");
        let _ = s;
        Ts5ddodde4 {
            f0: FromValue::from_value(s[0].as_ref().expect("component f0 of Ts5ddodde4 must be present")),
            f1: FromValue::from_value(s[1].as_ref().expect("component f1 of Ts5ddodde4 must be present")),
            f2: s[2].as_ref().map(FromValue::from_value),
            f3: FromValue::from_value(s[3].as_ref().expect("component f3 of Ts5ddodde4 must be present")),
            f4: FromValue::from_value(s[4].as_ref().expect("component f4 of Ts5ddodde4 must be present")),
        }
    }
}
impl ToValue for Ts5ddodde4 {
    fn to_value(&self) -> Value {
        Value::Seq(vec![
            Some(self.f0.to_value()),
            Some(self.f1.to_value()),
            self.f2.as_ref().map(|x| x.to_value()),
            Some(self.f3.to_value()),
            Some(self.f4.to_value()),
        ])
    }
}
impl FromValue for Ts5ddodde5 {
    fn from_value(v: &Value) -> Self {
        let s = match v { Value::Seq(s) => s, other => panic!("Ts5ddodde5: expected Seq, got {other:?}") };
        assert_eq!(s.len(), 5, "Ts5ddodde5: component count");
        let _ = s;
        Ts5ddodde5 {
            f0: FromValue::from_value(s[0].as_ref().expect("component f0 of Ts5ddodde5 must be present")),
            f1: FromValue::from_value(s[1].as_ref().expect("component f1 of Ts5ddodde5 must be present")),
            f2: s[2].as_ref().map(FromValue::from_value),
            f3: FromValue::from_value(s[3].as_ref().expect("component f3 of Ts5ddodde5 must be present")),
            f4: FromValue::from_value(s[4].as_ref().expect("component f4 of Ts5ddodde5 must be present")),
        }
    }
}
impl ToValue for Ts5ddodde5 {
    fn to_value(&self) -> Value {
        Value::Seq(vec![
            Some(self.f0.to_value()),
            Some(self.f1.to_value()),
            self.f2.as_ref().map(|x| x.to_value()),
            Some(self.f3.to_value()),
            Some(self.f4.to_value()),
        ])
    }
}
impl FromValue for Ts5mmdddn {
    fn from_value(v: &Value) -> Self {
        let s = match v { Value::Seq(s) => s, other => panic!("Ts5mmdddn: expected Seq, got {other:?}") };
        assert_eq!(s.len(), 5, "Ts5mmdddn: component count");
        let _ = s;
        Ts5mmdddn {
            f0: FromValue::from_value(s[0].as_ref().expect("component f0 of Ts5mmdddn must be present")),
            f1: FromValue::from_value(s[1].as_ref().expect("component f1 of Ts5mmdddn must be present")),
            f2: FromValue::from_value(s[2].as_ref().expect("component f2 of Ts5mmdddn must be present")),
            f3: FromValue::from_value(s[3].as_ref().expect("component f3 of Ts5mmdddn must be present")),
            f4: FromValue::from_value(s[4].as_ref().expect("component f4 of Ts5mmdddn must be present")),
        }
    }
}
impl ToValue for Ts5mmdddn {
    fn to_value(&self) -> Value {
        Value::Seq(vec![
            Some(self.f0.to_value()),
            Some(self.f1.to_value()),
            Some(self.f2.to_value()),
            Some(self.f3.to_value()),
            Some(self.f4.to_value()),
        ])
    }
}
impl FromValue for Ts5mmddde0 {
    fn from_value(v: &Value) -> Self {
        let s = match v { Value::Seq(s) => s, other => panic!("Ts5mmddde0: expected Seq, got {other:?}") };
        assert_eq!(s.len(), 5, "Ts5mmddde0: component count");
        let _ = s;
        Ts5mmddde0 {
            f0: FromValue::from_value(s[0].as_ref().expect("component f0 of Ts5mmddde0 must be present")),
            f1: s[1].as_ref().map(FromValue::from_value),
            f2: FromValue::from_value(s[2].as_ref().expect("component f2 of Ts5mmddde0 must be present")),
            f3: FromValue::from_value(s[3].as_ref().expect("component f3 of Ts5mmddde0 must be present")),
            f4: FromValue::from_value(s[4].as_ref().expect("component f4 of Ts5mmddde0 must be present")),
        }
    }
}
impl ToValue for Ts5mmddde0 {
    fn to_value(&self) -> Value {
        Value::Seq(vec![
            Some(self.f0.to_value()),
            self.f1.as_ref().map(|x| x.to_value()),
            Some(self.f2.to_value()),
            Some(self.f3.to_value()),
            Some(self.f4.to_value()),
        ])
    }
}
impl FromValue for Ts5mmddde1 {
    fn from_value(v: &Value) -> Self {
        let s = match v { Value::Seq(s) => s, other => panic!("Ts5mmddde1: expected Seq, got {other:?}") };
        assert_eq!(s.len(), 5, "Ts5mmddde1: component count");
        let _ = s;
        Ts5mmddde1 {
            f0: FromValue::from_value(s[0].as_ref().expect("component f0 of Ts5mmddde1 must be present")),
            f1: s[1].as_ref().map(FromValue::from_value),
            f2: FromValue::from_value(s[2].as_ref().expect("component f2 of Ts5mmddde1 must be present")),
            f3: FromValue::from_value(s[3].as_ref().expect("component f3 of Ts5mmddde1 must be present")),
            f4: FromValue::from_value(s[4].as_ref().expect("component f4 of Ts5mmddde1 must be present")),
        }
    }
}
impl ToValue for Ts5mmddde1 {
    fn to_value(&self) -> Value {
        Value::Seq(vec![
            Some(self.f0.to_value()),
            self.f1.as_ref().map(|x| x.to_value()),
            Some(self.f2.to_value()),
            Some(self.f3.to_value()),
            Some(self.f4.to_value()),
        ])
    }
}
impl FromValue for Ts5mmddde2 {
    fn from_value(v: &Value) -> Self {
        let s = match v { Value::Seq(s) => s, other => panic!("Ts5mmddde2: expected Seq, got {other:?}") };
        assert_eq!(s.len(), 5, "Ts5mmddde2: component count");
        let _ = s;
        Ts5mmddde2 {
            f0: FromValue::from_value(s[0].as_ref().expect("component f0 of Ts5mmddde2 must be present")),
            f1: FromValue::from_value(s[1].as_ref().expect("component f1 of Ts5mmddde2 must be present")),
            f2: FromValue::from_value(s[2].as_ref().expect("component f2 of Ts5mmddde2 must be present")),
            f3: FromValue::from_value(s[3].as_ref().expect("component f3 of Ts5mmddde2 must be present")),
            f4: FromValue::from_value(s[4].as_ref().expect("component f4 of Ts5mmddde2 must be present")),
        }
    }
}
impl ToValue for Ts5mmddde2 {
    fn to_value(&self) -> Value {
        Value::Seq(vec![
            Some(self.f0.to_value()),
            Some(self.f1.to_value()),
            Some(self.f2.to_value()),
            Some(self.f3.to_value()),
            Some(self.f4.to_value()),
        ])
    }
}
impl FromValue for Ts5mmddde3 {
    fn from_value(v: &Value) -> Self {
        let s = match v { Value::Seq(s) => s, other => panic!("Ts5mmddde3: expected Seq, got {other:?}") };
        assert_eq!(s.len(), 5, "Ts5mmddde3: component count");
        let _ = s;
        Ts5mmddde3 {
            f0: FromValue::from_value(s[0].as_ref().expect("component f0 of Ts5mmddde3 must be present")),
            f1: FromValue::from_value(s[1].as_ref().expect("component f1 of Ts5mmddde3 must be present")),
            f2: FromValue::from_value(s[2].as_ref().expect("component f2 of Ts5mmddde3 must be present")),
            f3: FromValue::from_value(s[3].as_ref().expect("component f3 of Ts5mmddde3 must be present")),
            f4: FromValue::from_value(s[4].as_ref().expect("component f4 of Ts5mmddde3 must be present")),
        }
    }
}
impl ToValue for Ts5mmddde3 {
    fn to_value(&self) -> Value {
        Value::Seq(vec![
            Some(self.f0.to_value()),
            Some(self.f1.to_value()),
            Some(self.f2.to_value()),
            Some(self.f3.to_value()),
            Some(self.f4.to_value()),
        ])
    }
}
impl FromValue for Ts5mmddde4 {
    fn from_value(v: &Value) -> Self {
        let s = match v { Value::Seq(s) => s, other => panic!("Ts5mmddde4: expected Seq, got {other:?}") };
        assert_eq!(s.len(), 5, "Ts5mmddde4: component count");
        let _ = s;
        Ts5mmddde4 {
            f0: FromValue::from_value(s[0].as_ref().expect("component f0 of Ts5mmddde4 must be present")),
            f1: FromValue::from_value(s[1].as_ref().expect("component f1 of Ts5mmddde4 must be present")),
            f2: FromValue::from_value(s[2].as_ref().expect("component f2 of Ts5mmddde4 must be present")),
            f3: FromValue::from_value(s[3].as_ref().expect("component f3 of Ts5mmddde4 must be present")),
            f4: FromValue::from_value(s[4].as_ref().expect("component f4 of Ts5mmddde4 must be present")),
        }
    }
}
impl ToValue for Ts5mmddde4 {
    fn to_value(&self) -> Value {
        Value::Seq(vec![
            Some(self.f0.to_value()),
            Some(self.f1.to_value()),
            Some(self.f2.to_value()),
            Some(self.f3.to_value()),
            Some(self.f4.to_value()),
        ])
    }
}
impl FromValue for Ts5mmddde5 {
    fn from_value(v: &Value) -> Self {
        let s = match v { Value::Seq(s) => s, other => panic!("Ts5mmddde5: expected Seq, got {other:?}") };
        assert_eq!(s.len(), 5, "Ts5mmddde5: component count");
        let _ = s;
        Ts5mmddde5 {
            f0: FromValue::from_value(s[0].as_ref().expect("component f0 of Ts5mmddde5 must be present")),
            f1: FromValue::from_value(s[1].as_ref().expect("component f1 of Ts5mmddde5 must be present")),
            f2: FromValue::from_value(s[2].as_ref().expect("component f2 of Ts5mmddde5 must be present")),
            f3: FromValue::from_value(s[3].as_ref().expect("component f3 of Ts5mmddde5 must be present")),
            f4: FromValue::from_value(s[4].as_ref().expect("component f4 of Ts5mmddde5 must be present")),
        }
    }
}
impl ToValue for Ts5mmddde5 {
    fn to_value(&self) -> Value {
        Value::Seq(vec![
            Some(self.f0.to_value()),
            Some(self.f1.to_value()),
            Some(self.f2.to_value()),
            Some(self.f3.to_value()),
            Some(self.f4.to_value()),
        ])
    }
}
impl FromValue for Ts5omdddn {
    fn from_value(v: &Value) -> Self {
        let s = match v { Value::Seq(s) => s, other => panic!("Ts5omdddn: expected Seq, got {other:?}") };
        assert_eq!(s.len(), 5, "Ts5omdddn: component count");
        let _ = s;
        Ts5omdddn {
            f0: s[0].as_ref().map(FromValue::from_value),
            f1: FromValue::from_value(s[1].as_ref().expect("component f1 of Ts5omdddn must be present")),
            f2: FromValue::from_value(s[2].as_ref().expect("component f2 of Ts5omdddn must be present")),
            f3: FromValue::from_value(s[3].as_ref().expect("component f3 of Ts5omdddn must be present")),
            f4: FromValue::from_value(s[4].as_ref().expect("component f4 of Ts5omdddn must be present")),
        }
    }
}
impl ToValue for Ts5omdddn {
    fn to_value(&self) -> Value {
        Value::Seq(vec![
            self.f0.as_ref().map(|x| x.to_value()),
            Some(self.f1.to_value()),
            Some(self.f2.to_value()),
            Some(self.f3.to_value()),
            Some(self.f4.to_value()),
        ])
    }
}
impl FromValue for Ts5omddde0 {
    fn from_value(v: &Value) -> Self {
        let s = match v { Value::Seq(s) => s, other => panic!("Ts5omddde0: expected Seq, got {other:?}") };
        assert_eq!(s.len(), 5, "Ts5omddde0: component count");
        let _ = s;
        Ts5omddde0 {
            f0: s[0].as_ref().map(FromValue::from_value),
            f1: s[1].as_ref().map(FromValue::from_value),
            f2: FromValue::from_value(s[2].as_ref().expect("component f2 of Ts5omddde0 must be present")),
            f3: FromValue::from_value(s[3].as_ref().expect("component f3 of Ts5omddde0 must be present")),
            f4: FromValue::from_value(s[4].as_ref().expect("component f4 of Ts5omddde0 must be present")),
        }
    }
}
impl ToValue for Ts5omddde0 {
    fn to_value(&self) -> Value {
        Value::Seq(vec![
            self.f0.as_ref().map(|x| x.to_value()),
            self.f1.as_ref().map(|x| x.to_value()),
            Some(self.f2.to_value()),
            Some(self.f3.to_value()),
            Some(self.f4.to_value()),
        ])
    }
}
impl FromValue for Ts5omddde1 {
    fn from_value(v: &Value) -> Self {
        let s = match v { Value::Seq(s) => s, other => panic!("Ts5omddde1: expected Seq, got {other:?}") };
        assert_eq!(s.len(), 5, "Ts5omddde1: component count");
        let _ = s;
        Ts5omddde1 {
            f0: s[0].as_ref().map(FromValue::from_value),
            f1: s[1].as_ref().map(FromValue::from_value),
            f2: FromValue::from_value(s[2].as_ref().expect("component f2 of Ts5omddde1 must be present")),
            f3: FromValue::from_value(s[3].as_ref().expect("component f3 of Ts5omddde1 must be present")),
            f4: FromValue::from_value(s[4].as_ref().expect("component f4 of Ts5omddde1 must be present")),
        }
    }
}
impl ToValue for Ts5omddde1 {
    fn to_value(&self) -> Value {
        Value::Seq(vec![
            self.f0.as_ref().map(|x| x.to_value()),
            self.f1.as_ref().map(|x| x.to_value()),
            Some(self.f2.to_value()),
            Some(self.f3.to_value()),
            Some(self.f4.to_value()),
        ])
    }
}
impl FromValue for Ts5omddde2 {
    fn from_value(v: &Value) -> Self {
        let s = match v { Value::Seq(s) => s, other => panic!("Ts5omddde2: expected Seq, got {other:?}") };
        assert_eq!(s.len(), 5, "Ts5omddde2: component count");
        let _ = s;
        Ts5omddde2 {
            f0: s[0].as_ref().map(FromValue::from_value),
            f1: FromValue::from_value(s[1].as_ref().expect("component f1 of Ts5omddde2 must be present")),
            f2: FromValue::from_value(s[2].as_ref().expect("component f2 of Ts5omddde2 must be present")),
            f3: FromValue::from_value(s[3].as_ref().expect("component f3 of Ts5omddde2 must be present")),
            f4: FromValue::from_value(s[4].as_ref().expect("component f4 of Ts5omddde2 must be present")),
        }
    }
}
impl ToValue for Ts5omddde2 {
    fn to_value(&self) -> Value {
        Value::Seq(vec![
            self.f0.as_ref().map(|x| x.to_value()),
            Some(self.f1.to_value()),
            Some(self.f2.to_value()),
            Some(self.f3.to_value()),
            Some(self.f4.to_value()),
        ])
    }
}
impl FromValue for Ts5omddde3 {
    fn from_value(v: &Value) -> Self {
        let s = match v { Value::Seq(s) => s, other => panic!("Ts5omddde3: expected Seq, got {other:?}") };
        assert_eq!(s.len(), 5, "Ts5omddde3: component count");
        let _ = s;
        Ts5omddde3 {
            f0: s[0].as_ref().map(FromValue::from_value),
            f1: FromValue::from_value(s[1].as_ref().expect("component f1 of Ts5omddde3 must be present")),
            f2: FromValue::from_value(s[2].as_ref().expect("component f2 of Ts5omddde3 must be present")),
            f3: FromValue::from_value(s[3].as_ref().expect("component f3 of Ts5omddde3 must be present")),
            f4: FromValue::from_value(s[4].as_ref().expect("component f4 of Ts5omddde3 must be present")),
        }
    }
}
impl ToValue for Ts5omddde3 {
    fn to_value(&self) -> Value {
        Value::Seq(vec![
            self.f0.as_ref().map(|x| x.to_value()),
            Some(self.f1.to_value()),
            Some(self.f2.to_value()),
            Some(self.f3.to_value()),
            Some(self.f4.to_value()),
        ])
    }
}
impl FromValue for Ts5omddde4 {
    fn from_value(v: &Value) -> Self {
        let s = match v { Value::Seq(s) => s, other => panic!("Ts5omddde4: expected Seq, got {other:?}") };
        assert_eq!(s.len(), 5, "Ts5omddde4: component count");
        let _ = s;
        Ts5omddde4 {
            f0: s[0].as_ref().map(FromValue::from_value),
            f1: FromValue::from_value(s[1].as_ref().expect("component f1 of Ts5omddde4 must be present")),
            f2: FromValue::from_value(s[2].as_ref().expect("component f2 of Ts5omddde4 must be present")),
            f3: FromValue::from_value(s[3].as_ref().expect("component f3 of Ts5omddde4 must be present")),
            f4: FromValue::from_value(s[4].as_ref().expect("component f4 of Ts5omddde4 must be present")),
        }
    }
}
impl ToValue for Ts5omddde4 {
    fn to_value(&self) -> Value {
        Value::Seq(vec![
            self.f0.as_ref().map(|x| x.to_value()),
            Some(self.f1.to_value()),
            Some(self.f2.to_value()),
            Some(self.f3.to_value()),
            Some(self.f4.to_value()),
        ])
    }
}
impl FromValue for Ts5omddde5 {
    fn from_value(v: &Value) -> Self {
        let s = match v { Value::Seq(s) => s, other => panic!("Ts5omddde5: expected Seq, got {other:?}") };
        assert_eq!(s.len(), 5, "Ts5omddde5: component count");
        let _ = s;
        Ts5omddde5 {
            f0: s[0].as_ref().map(FromValue::from_value),
            f1: FromValue::from_value(s[1].as_ref().expect("component f1 of Ts5omddde5 must be present")),
            f2: FromValue::from_value(s[2].as_ref().expect("component f2 of Ts5omddde5 must be present")),
            f3: FromValue::from_value(s[3].as_ref().expect("component f3 of Ts5omddde5 must be present")),
            f4: FromValue::from_value(s[4].as_ref().expect("component f4 of Ts5omddde5 must be present")),
        }
    }
}
impl ToValue for Ts5omddde5 {
    fn to_value(&self) -> Value {
        Value::Seq(vec![
            self.f0.as_ref().map(|x| x.to_value()),
            Some(self.f1.to_value()),
            Some(self.f2.to_value()),
            Some(self.f3.to_value()),
            Some(self.f4.to_value()),
        ])
    }
}
impl FromValue for Ts5dmdddn {
    fn from_value(v: &Value) -> Self {
        let s = match v { Value::Seq(s) => s, other => panic!("Ts5dmdddn: expected Seq, got {other:?}") };
        assert_eq!(s.len(), 5, "Ts5dmdddn: component count");
        let _ = s;
        Ts5dmdddn {
            f0: FromValue::from_value(s[0].as_ref().expect("component f0 of Ts5dmdddn must be present")),
            f1: FromValue::from_value(s[1].as_ref().expect("component f1 of Ts5dmdddn must be present")),
            f2: FromValue::from_value(s[2].as_ref().expect("component f2 of Ts5dmdddn must be present")),
            f3: FromValue::from_value(s[3].as_ref().expect("component f3 of Ts5dmdddn must be present")),
            f4: FromValue::from_value(s[4].as_ref().expect("component f4 of Ts5dmdddn must be present")),
        }
    }
}
impl ToValue for Ts5dmdddn {
    fn to_value(&self) -> Value {
        Value::Seq(vec![
            Some(self.f0.to_value()),
            Some(self.f1.to_value()),
            Some(self.f2.to_value()),
            Some(self.f3.to_value()),
            Some(self.f4.to_value()),
        ])
    }
}
impl FromValue for Ts5dmddde0 {
    fn from_value(v: &Value) -> Self {
        let s = match v { Value::Seq(s) => s, other => panic!("Ts5dmddde0: expected Seq, got {other:?}") };
        assert_eq!(s.len(), 5, "Ts5dmddde0: component count");
        let _ = s;
        Ts5dmddde0 {
            f0: FromValue::from_value(s[0].as_ref().expect("component f0 of Ts5dmddde0 must be present")),
            f1: s[1].as_ref().map(FromValue::from_value),
            f2: FromValue::from_value(s[2].as_ref().expect("component f2 of Ts5dmddde0 must be present")),
            f3: FromValue::from_value(s[3].as_ref().expect("component f3 of Ts5dmddde0 must be present")),
            f4: FromValue::from_value(s[4].as_ref().expect("component f4 of Ts5dmddde0 must be present")),
        }
    }
}
impl ToValue for Ts5dmddde0 {
    fn to_value(&self) -> Value {
        Value::Seq(vec![
            Some(self.f0.to_value()),
            self.f1.as_ref().map(|x| x.to_value()),
            Some(self.f2.to_value()),
            Some(self.f3.to_value()),
            Some(self.f4.to_value()),
        ])
    }
}
impl FromValue for Ts5dmddde1 {
    fn from_value(v: &Value) -> Self {
        let s = match v { Value::Seq(s) => s, other => panic!("Ts5dmddde1: expected Seq, got {other:?}") };
        assert_eq!(s.len(), 5, "Ts5dmddde1: component count");
        let _ = s;
        Ts5dmddde1 {
            f0: FromValue::from_value(s[0].as_ref().expect("component f0 of Ts5dmddde1 must be present")),
            f1: s[1].as_ref().map(FromValue::from_value),
            f2: FromValue::from_value(s[2].as_ref().expect("component f2 of Ts5dmddde1 must be present")),
            f3: FromValue::from_value(s[3].as_ref().expect("component f3 of Ts5dmddde1 must be present")),
            f4: FromValue::from_value(s[4].as_ref().expect("component f4 of Ts5dmddde1 must be present")),
        }
    }
}
impl ToValue for Ts5dmddde1 {
    fn to_value(&self) -> Value {
        Value::Seq(vec![
            Some(self.f0.to_value()),
            self.f1.as_ref().map(|x| x.to_value()),
            Some(self.f2.to_value()),
            Some(self.f3.to_value()),
            Some(self.f4.to_value()),
        ])
    }
}
impl FromValue for Ts5dmddde2 {
    fn from_value(v: &Value) -> Self {
        let s = match v { Value::Seq(s) => s, other => panic!("Ts5dmddde2: expected Seq, got {other:?}") };
        assert_eq!(s.len(), 5, "Ts5dmddde2: component count");
        let _ = s;
        Ts5dmddde2 {
            f0: FromValue::from_value(s[0].as_ref().expect("component f0 of Ts5dmddde2 must be present")),
            f1: FromValue::from_value(s[1].as_ref().expect("component f1 of Ts5dmddde2 must be present")),
            f2: FromValue::from_value(s[2].as_ref().expect("component f2 of Ts5dmddde2 must be present")),
            f3: FromValue::from_value(s[3].as_ref().expect("component f3 of Ts5dmddde2 must be present")),
            f4: FromValue::from_value(s[4].as_ref().expect("component f4 of Ts5dmddde2 must be present")),
        }
    }
}
impl ToValue for Ts5dmddde2 {
    fn to_value(&self) -> Value {
        Value::Seq(vec![
            Some(self.f0.to_value()),
            Some(self.f1.to_value()),
            Some(self.f2.to_value()),
            Some(self.f3.to_value()),
            Some(self.f4.to_value()),
        ])
    }
}
impl FromValue for Ts5dmddde3 {
    fn from_value(v: &Value) -> Self {
        let s = match v { Value::Seq(s) => s, other => panic!("Ts5dmddde3: expected Seq, got {other:?}") };
        assert_eq!(s.len(), 5, "Ts5dmddde3: component count");
        let _ = s;
        Ts5dmddde3 {
            f0: FromValue::from_value(s[0].as_ref().expect("component f0 of Ts5dmddde3 must be present")),
            f1: FromValue::from_value(s[1].as_ref().expect("component f1 of Ts5dmddde3 must be present")),
            f2: FromValue::from_value(s[2].as_ref().expect("component f2 of Ts5dmddde3 must be present")),
            f3: FromValue::from_value(s[3].as_ref().expect("component f3 of Ts5dmddde3 must be present")),
            f4: FromValue::from_value(s[4].as_ref().expect("component f4 of Ts5dmddde3 must be present")),
        }
    }
}
impl ToValue for Ts5dmddde3 {
    fn to_value(&self) -> Value {
        Value::Seq(vec![
            Some(self.f0.to_value()),
            Some(self.f1.to_value()),
            Some(self.f2.to_value()),
            Some(self.f3.to_value()),
            Some(self.f4.to_value()),
        ])
    }
}
impl FromValue for Ts5dmddde4 {
    fn from_value(v: &Value) -> Self {
        let s = match v { Value::Seq(s) => s, other => panic!("Ts5dmddde4: expected Seq, got {other:?}") };
        assert_eq!(s.len(), 5, "Ts5dmddde4: component count");
        let _ = s;
        Ts5dmddde4 {
            f0: FromValue::from_value(s[0].as_ref().expect("component f0 of Ts5dmddde4 must be present")),
            f1: FromValue::from_value(s[1].as_ref().expect("component f1 of Ts5dmddde4 must be present")),
            f2: FromValue::from_value(s[2].as_ref().expect("component f2 of Ts5dmddde4 must be present")),
            f3: FromValue::from_value(s[3].as_ref().expect("component f3 of Ts5dmddde4 must be present")),
            f4: FromValue::from_value(s[4].as_ref().expect("component f4 of Ts5dmddde4 must be present")),
        }
    }
}
impl ToValue for Ts5dmddde4 {
    fn to_value(&self) -> Value {
        Value::Seq(vec![
            Some(self.f0.to_value()),
            Some(self.f1.to_value()),
            Some(self.f2.to_value()),
            Some(self.f3.to_value()),
            Some(self.f4.to_value()),
        ])
    }
}
impl FromValue for Ts5dmddde5 {
    fn from_value(v: &Value) -> Self {
        let s = match v { Value::Seq(s) => s, other => panic!("Ts5dmddde5: expected Seq, got {other:?}") };
        assert_eq!(s.len(), 5, "Ts5dmddde5: component count");
        let _ = s;
        Ts5dmddde5 {
            f0: FromValue::from_value(s[0].as_ref().expect("component f0 of Ts5dmddde5 must be present")),
            f1: FromValue::from_value(s[1].as_ref().expect("component f1 of Ts5dmddde5 must be present")),
            f2: FromValue::from_value(s[2].as_ref().expect("component f2 of Ts5dmddde5 must be present")),
            f3: FromValue::from_value(s[3].as_ref().expect("component f3 of Ts5dmddde5 must be present")),
            f4: FromValue::from_value(s[4].as_ref().expect("component f4 of Ts5dmddde5 must be present")),
        }
    }
}
impl ToValue for Ts5dmddde5 {
    fn to_value(&self) -> Value {
        Value::Seq(vec![
            Some(self.f0.to_value()),
            Some(self.f1.to_value()),
            Some(self.f2.to_value()),
            Some(self.f3.to_value()),
            Some(self.f4.to_value()),
        ])
    }
}
impl FromValue for Ts5modddn {
    fn from_value(v: &Value) -> Self {
        let s = match v { Value::Seq(s) => s, other => panic!("Ts5modddn: expected Seq, got {other:?}") };
        assert_eq!(s.len(), 5, "Ts5modddn: component count");
        let _ = s;
        Ts5modddn {
            f0: FromValue::from_value(s[0].as_ref().expect("component f0 of Ts5modddn must be present")),
            f1: s[1].as_ref().map(FromValue::from_value),
            f2: FromValue::from_value(s[2].as_ref().expect("component f2 of Ts5modddn must be present")),
            f3: FromValue::from_value(s[3].as_ref().expect("component f3 of Ts5modddn must be present")),
            f4: FromValue::from_value(s[4].as_ref().expect("component f4 of Ts5modddn must be present")),
        }
    }
}
impl ToValue for Ts5modddn {
    fn to_value(&self) -> Value {
        Value::Seq(vec![
            Some(self.f0.to_value()),
            self.f1.as_ref().map(|x| x.to_value()),
            Some(self.f2.to_value()),
            Some(self.f3.to_value()),
            Some(self.f4.to_value()),
        ])
    }
}
impl FromValue for Ts5moddde0 {
    fn from_value(v: &Value) -> Self {
        let s = match v { Value::Seq(s) => s, other => panic!("Ts5moddde0: expected Seq, got {other:?}") };
        assert_eq!(s.len(), 5, "Ts5moddde0: component count");
        let _ = s;
        Ts5moddde0 {
            f0: FromValue::from_value(s[0].as_ref().expect("component f0 of Ts5moddde0 must be present")),
            f1: s[1].as_ref().map(FromValue::from_value),
            f2: FromValue::from_value(s[2].as_ref().expect("component f2 of Ts5moddde0 must be present")),
            f3: FromValue::from_value(s[3].as_ref().expect("component f3 of Ts5moddde0 must be present")),
            f4: FromValue::from_value(s[4].as_ref().expect("component f4 of Ts5moddde0 must be present")),
        }
    }
}
impl ToValue for Ts5moddde0 {
    fn to_value(&self) -> Value {
        Value::Seq(vec![
            Some(self.f0.to_value()),
            self.f1.as_ref().map(|x| x.to_value()),
            Some(self.f2.to_value()),
            Some(self.f3.to_value()),
            Some(self.f4.to_value()),
        ])
    }
}
impl FromValue for Ts5moddde1 {
    fn from_value(v: &Value) -> Self {
        let s = match v { Value::Seq(s) => s, other => panic!("Ts5moddde1: expected Seq, got {other:?}") };
        assert_eq!(s.len(), 5, "Ts5moddde1: component count");
        let _ = s;
        Ts5moddde1 {
            f0: FromValue::from_value(s[0].as_ref().expect("component f0 of Ts5moddde1 must be present")),
            f1: s[1].as_ref().map(FromValue::from_value),
            f2: FromValue::from_value(s[2].as_ref().expect("component f2 of Ts5moddde1 must be present")),
            f3: FromValue::from_value(s[3].as_ref().expect("component f3 of Ts5moddde1 must be present")),
            f4: FromValue::from_value(s[4].as_ref().expect("component f4 of Ts5moddde1 must be present")),
        }
    }
}
impl ToValue for Ts5moddde1 {
    fn to_value(&self) -> Value {
        Value::Seq(vec![
            Some(self.f0.to_value()),
            self.f1.as_ref().map(|x| x.to_value()),
            Some(self.f2.to_value()),
            Some(self.f3.to_value()),
            Some(self.f4.to_value()),
        ])
    }
}
impl FromValue for Ts5moddde2 {
    fn from_value(v: &Value) -> Self {
        let s = match v { Value::Seq(s) => s, other => panic!("Ts5moddde2: expected Seq, got {other:?}") };
        assert_eq!(s.len(), 5, "Ts5moddde2: component count");
        let _ = s;
        Ts5moddde2 {
            f0: FromValue::from_value(s[0].as_ref().expect("component f0 of Ts5moddde2 must be present")),
            f1: s[1].as_ref().map(FromValue::from_value),
            f2: FromValue::from_value(s[2].as_ref().expect("component f2 of Ts5moddde2 must be present")),
            f3: FromValue::from_value(s[3].as_ref().expect("component f3 of Ts5moddde2 must be present")),
            f4: FromValue::from_value(s[4].as_ref().expect("component f4 of Ts5moddde2 must be present")),
        }
    }
}
impl ToValue for Ts5moddde2 {
    fn to_value(&self) -> Value {
        Value::Seq(vec![
            Some(self.f0.to_value()),
            self.f1.as_ref().map(|x| x.to_value()),
            Some(self.f2.to_value()),
            Some(self.f3.to_value()),
            Some(self.f4.to_value()),
        ])
    }
}
impl FromValue for Ts5moddde3 {
    fn from_value(v: &Value) -> Self {
        let s = match v { Value::Seq(s) => s, other => panic!("Ts5moddde3: expected Seq, got {other:?}") };
        assert_eq!(s.len(), 5, "Ts5moddde3: component count");
        let _ = s;
        Ts5moddde3 {
            f0: FromValue::from_value(s[0].as_ref().expect("component f0 of Ts5moddde3 must be present")),
            f1: s[1].as_ref().map(FromValue::from_value),
            f2: FromValue::from_value(s[2].as_ref().expect("component f2 of Ts5moddde3 must be present")),
            f3: FromValue::from_value(s[3].as_ref().expect("component f3 of Ts5moddde3 must be present")),
            f4: FromValue::from_value(s[4].as_ref().expect("component f4 of Ts5moddde3 must be present")),
        }
    }
}
impl ToValue for Ts5moddde3 {
    fn to_value(&self) -> Value {
        Value::Seq(vec![
            Some(self.f0.to_value()),
            self.f1.as_ref().map(|x| x.to_value()),
            Some(self.f2.to_value()),
            Some(self.f3.to_value()),
            Some(self.f4.to_value()),
        ])
    }
}
impl FromValue for Ts5moddde4 {
    fn from_value(v: &Value) -> Self {
        let s = match v { Value::Seq(s) => s, other => panic!("Ts5moddde4: expected Seq, got {other:?}") };
        assert_eq!(s.len(), 5, "Ts5moddde4: component count");
        let _ = s;
        Ts5moddde4 {
            f0: FromValue::from_value(s[0].as_ref().expect("component f0 of Ts5moddde4 must be present")),
            f1: s[1].as_ref().map(FromValue::from_value),
            f2: FromValue::from_value(s[2].as_ref().expect("component f2 of Ts5moddde4 must be present")),
            f3: FromValue::from_value(s[3].as_ref().expect("component f3 of Ts5moddde4 must be present")),
            f4: FromValue::from_value(s[4].as_ref().expect("component f4 of Ts5moddde4 must be present")),
        }
    }
}
impl ToValue for Ts5moddde4 {
    fn to_value(&self) -> Value {
        Value::Seq(vec![
            Some(self.f0.to_value()),
            self.f1.as_ref().map(|x| x.to_value()),
            Some(self.f2.to_value()),
            Some(self.f3.to_value()),
            Some(self.f4.to_value()),
        ])
    }
}
impl FromValue for Ts5moddde5 {
    fn from_value(v: &Value) -> Self {
        let s = match v { Value::Seq(s) => s, other => panic!("Ts5moddde5: expected Seq, got {other:?}") };
        assert_eq!(s.len(), 5, "Ts5moddde5: component count");
        let _ = s;
        Ts5moddde5 {
            f0: FromValue::from_value(s[0].as_ref().expect("component f0 of Ts5moddde5 must be present")),
            f1: s[1].as_ref().map(FromValue::from_value),
            f2: FromValue::from_value(s[2].as_ref().expect("component f2 of Ts5moddde5 must be present")),
            f3: FromValue::from_value(s[3].as_ref().expect("component f3 of Ts5moddde5 must be present")),
            f4: FromValue::from_value(s[4].as_ref().expect("component f4 of Ts5moddde5 must be present")),
        }
    }
}
impl ToValue for Ts5moddde5 {
    fn to_value(&self) -> Value {
        Value::Seq(vec![
            Some(self.f0.to_value()),
            self.f1.as_ref().map(|x| x.to_value()),
            Some(self.f2.to_value()),
            Some(self.f3.to_value()),
            Some(self.f4.to_value()),
        ])
    }
}
impl FromValue for Ts5oodddn {
    fn from_value(v: &Value) -> Self {
        let s = match v { Value::Seq(s) => s, other => panic!("Ts5oodddn: expected Seq, got {other:?}") };
        assert_eq!(s.len(), 5, "Ts5oodddn: component count");
        let _ = s;
        Ts5oodddn {
            f0: s[0].as_ref().map(FromValue::from_value),
            f1: s[1].as_ref().map(FromValue::from_value),
            f2: FromValue::from_value(s[2].as_ref().expect("component f2 of Ts5oodddn must be present")),
            f3: FromValue::from_value(s[3].as_ref().expect("component f3 of Ts5oodddn must be present")),
            f4: FromValue::from_value(s[4].as_ref().expect("component f4 of Ts5oodddn must be present")),
        }
    }
}
impl ToValue for Ts5oodddn {
    fn to_value(&self) -> Value {
        Value::Seq(vec![
            self.f0.as_ref().map(|x| x.to_value()),
            self.f1.as_ref().map(|x| x.to_value()),
            Some(self.f2.to_value()),
            Some(self.f3.to_value()),
            Some(self.f4.to_value()),
        ])
    }
}
impl FromValue for Ts5ooddde0 {
    fn from_value(v: &Value) -> Self {
        let s = match v { Value::Seq(s) => s, other => panic!("Ts5ooddde0: expected Seq, got {other:?}") };
        assert_eq!(s.len(), 5, "Ts5ooddde0: component count");
        let _ = s;
        Ts5ooddde0 {
            f0: s[0].as_ref().map(FromValue::from_value),
            f1: s[1].as_ref().map(FromValue::from_value),
            f2: FromValue::from_value(s[2].as_ref().expect("component f2 of Ts5ooddde0 must be present")),
            f3: FromValue::from_value(s[3].as_ref().expect("component f3 of Ts5ooddde0 must be present")),
            f4: FromValue::from_value(s[4].as_ref().expect("component f4 of Ts5ooddde0 must be present")),
        }
    }
}
impl ToValue for Ts5ooddde0 {
    fn to_value(&self) -> Value {
        Value::Seq(vec![
            self.f0.as_ref().map(|x| x.to_value()),
            self.f1.as_ref().map(|x| x.to_value()),
            Some(self.f2.to_value()),
            Some(self.f3.to_value()),
            Some(self.f4.to_value()),
        ])
    }
}
impl FromValue for Ts5ooddde1 {
    fn from_value(v: &Value) -> Self {
        let s = match v { Value::Seq(s) => s, other => panic!("Ts5ooddde1: expected Seq, got {other:?}") };
        assert_eq!(s.len(), 5, "Ts5ooddde1: component count");
        let _ = s;
        Ts5ooddde1 {
            f0: s[0].as_ref().map(FromValue::from_value),
            f1: s[1].as_ref().map(FromValue::from_value),
            f2: FromValue::from_value(s[2].as_ref().expect("component f2 of Ts5ooddde1 must be present")),
            f3: FromValue::from_value(s[3].as_ref().expect("component f3 of Ts5ooddde1 must be present")),
            f4: FromValue::from_value(s[4].as_ref().expect("component f4 of Ts5ooddde1 must be present")),
        }
    }
}
impl ToValue for Ts5ooddde1 {
    fn to_value(&self) -> Value {
        Value::Seq(vec![
            self.f0.as_ref().map(|x| x.to_value()),
            self.f1.as_ref().map(|x| x.to_value()),
            Some(self.f2.to_value()),
            Some(self.f3.to_value()),
            Some(self.f4.to_value()),
        ])
    }
}
impl FromValue for Ts5ooddde2 {
    fn from_value(v: &Value) -> Self {
        let s = match v { Value::Seq(s) => s, other => panic!("Ts5ooddde2: expected Seq, got {other:?}") };
        assert_eq!(s.len(), 5, "Ts5ooddde2: component count");
        let _ = s;
        Ts5ooddde2 {
            f0: s[0].as_ref().map(FromValue::from_value),
            f1: s[1].as_ref().map(FromValue::from_value),
            f2: FromValue::from_value(s[2].as_ref().expect("component f2 of Ts5ooddde2 must be present")),
            f3: FromValue::from_value(s[3].as_ref().expect("component f3 of Ts5ooddde2 must be present")),
            f4: FromValue::from_value(s[4].as_ref().expect("component f4 of Ts5ooddde2 must be present")),
        }
    }
}
impl ToValue for Ts5ooddde2 {
    fn to_value(&self) -> Value {
        Value::Seq(vec![
            self.f0.as_ref().map(|x| x.to_value()),
            self.f1.as_ref().map(|x| x.to_value()),
            Some(self.f2.to_value()),
            Some(self.f3.to_value()),
            Some(self.f4.to_value()),
        ])
    }
}
impl FromValue for Ts5ooddde3 {
    fn from_value(v: &Value) -> Self {
        let s = match v { Value::Seq(s) => s, other => panic!("Ts5ooddde3: expected Seq, got {other:?}") };
        assert_eq!(s.len(), 5, "Ts5ooddde3: component count");
        let _ = s;
        Ts5ooddde3 {
            f0: s[0].as_ref().map(FromValue::from_value),
            f1: s[1].as_ref().map(FromValue::from_value),
            f2: FromValue::from_value(s[2].as_ref().expect("component f2 of Ts5ooddde3 must be present")),
            f3: FromValue::from_value(s[3].as_ref().expect("component f3 of Ts5ooddde3 must be present")),
            f4: FromValue::from_value(s[4].as_ref().expect("component f4 of Ts5ooddde3 must be present")),
        }
    }
}
impl ToValue for Ts5ooddde3 {
    fn to_value(&self) -> Value {
        Value::Seq(vec![
            self.f0.as_ref().map(|x| x.to_value()),
            self.f1.as_ref().map(|x| x.to_value()),
            Some(self.f2.to_value()),
            Some(self.f3.to_value()),
            Some(self.f4.to_value()),
        ])
    }
}
impl FromValue for Ts5ooddde4 {
    fn from_value(v: &Value) -> Self {
        let s = match v { Value::Seq(s) => s, other => panic!("Ts5ooddde4: expected Seq, got {other:?}") };
        assert_eq!(s.len(), 5, "Ts5ooddde4: component count");
        let _ = s;
        Ts5ooddde4 {
            f0: s[0].as_ref().map(FromValue::from_value),
            f1: s[1].as_ref().map(FromValue::from_value),
            f2: FromValue::from_value(s[2].as_ref().expect("component f2 of Ts5ooddde4 must be present")),
            f3: FromValue::from_value(s[3].as_ref().expect("component f3 of Ts5ooddde4 must be present")),
            f4: FromValue::from_value(s[4].as_ref().expect("component f4 of Ts5ooddde4 must be present")),
        }
    }
}
impl ToValue for Ts5ooddde4 {
    fn to_value(&self) -> Value {
        Value::Seq(vec![
            self.f0.as_ref().map(|x| x.to_value()),
            self.f1.as_ref().map(|x| x.to_value()),
            Some(self.f2.to_value()),
            Some(self.f3.to_value()),
            Some(self.f4.to_value()),
        ])
    }
}
impl FromValue for Ts5ooddde5 {
    fn from_value(v: &Value) -> Self {
        let s = match v { Value::Seq(s) => s, other => panic!("Ts5ooddde5: expected Seq, got {other:?}") };
        assert_eq!(s.len(), 5, "Ts5ooddde5: component count");
        let _ = s;
        Ts5ooddde5 {
            f0: s[0].as_ref().map(FromValue::from_value),
            f1: s[1].as_ref().map(FromValue::from_value),
            f2: FromValue::from_value(s[2].as_ref().expect("component f2 of Ts5ooddde5 must be present")),
            f3: FromValue::from_value(s[3].as_ref().expect("component f3 of Ts5ooddde5 must be present")),
            f4: FromValue::from_value(s[4].as_ref().expect("component f4 of Ts5ooddde5 must be present")),
        }
    }
}
impl ToValue for Ts5ooddde5 {
    fn to_value(&self) -> Value {
        Value::Seq(vec![
            self.f0.as_ref().map(|x| x.to_value()),
            self.f1.as_ref().map(|x| x.to_value()),
            Some(self.f2.to_value()),
            Some(self.f3.to_value()),
            Some(self.f4.to_value()),
        ])
    }
}
impl FromValue for Ts5dodddn {
    fn from_value(v: &Value) -> Self {
        let s = match v { Value::Seq(s) => s, other => panic!("Ts5dodddn: expected Seq, got {other:?}") };
        assert_eq!(s.len(), 5, "Ts5dodddn: component count");
        let _ = s;
        Ts5dodddn {
            f0: FromValue::from_value(s[0].as_ref().expect("component f0 of Ts5dodddn must be present")),
            f1: s[1].as_ref().map(FromValue::from_value),
            f2: FromValue::from_value(s[2].as_ref().expect("component f2 of Ts5dodddn must be present")),
            f3: FromValue::from_value(s[3].as_ref().expect("component f3 of Ts5dodddn must be present")),
            f4: FromValue::from_value(s[4].as_ref().expect("component f4 of Ts5dodddn must be present")),
        }
    }
}
impl ToValue for Ts5dodddn {
    fn to_value(&self) -> Value {
        Value::Seq(vec![
            Some(self.f0.to_value()),
            self.f1.as_ref().map(|x| x.to_value()),
            Some(self.f2.to_value()),
            Some(self.f3.to_value()),
            Some(self.f4.to_value()),
        ])
    }
}
impl FromValue for Ts5doddde0 {
    fn from_value(v: &Value) -> Self {
        let s = match v { Value::Seq(s) => s, other => panic!("Ts5doddde0: expected Seq, got {other:?}") };
        assert_eq!(s.len(), 5, "Ts5doddde0: component count");
        let _ = s;
        Ts5doddde0 {
            f0: FromValue::from_value(s[0].as_ref().expect("component f0 of Ts5doddde0 must be present")),
            f1: s[1].as_ref().map(FromValue::from_value),
            f2: FromValue::from_value(s[2].as_ref().expect("component f2 of Ts5doddde0 must be present")),
            f3: FromValue::from_value(s[3].as_ref().expect("component f3 of Ts5doddde0 must be present")),
            f4: FromValue::from_value(s[4].as_ref().expect("component f4 of Ts5doddde0 must be present")),
        }
    }
}
impl ToValue for Ts5doddde0 {
    fn to_value(&self) -> Value {
        Value::Seq(vec![
            Some(self.f0.to_value()),
            self.f1.as_ref().map(|x| x.to_value()),
            Some(self.f2.to_value()),
            Some(self.f3.to_value()),
            Some(self.f4.to_value()),
        ])
    }
}
impl FromValue for Ts5doddde1 {
    fn from_value(v: &Value) -> Self {
        let s = match v { Value::Seq(s) => s, other => panic!("Ts5doddde1: expected Seq, got {other:?}") };
        assert_eq!(s.len(), 5, "Ts5doddde1: component count");
        let _ = s;
        Ts5doddde1 {
            f0: FromValue::from_value(s[0].as_ref().expect("component f0 of Ts5doddde1 must be present")),
            f1: s[1].as_ref().map(FromValue::from_value),
            f2: FromValue::from_value(s[2].as_ref().expect("component f2 of Ts5doddde1 must be present")),
            f3: FromValue::from_value(s[3].as_ref().expect("component f3 of Ts5doddde1 must be present")),
            f4: FromValue::from_value(s[4].as_ref().expect("component f4 of Ts5doddde1 must be present")),
        }
    }
}
impl ToValue for Ts5doddde1 {
    fn to_value(&self) -> Value {
        Value::Seq(vec![
            Some(self.f0.to_value()),
            self.f1.as_ref().map(|x| x.to_value()),
            Some(self.f2.to_value()),
            Some(self.f3.to_value()),
            Some(self.f4.to_value()),
        ])
    }
}
impl FromValue for Ts5doddde2 {
    fn from_value(v: &Value) -> Self {
        let s = match v { Value::Seq(s) => s, other => panic!("Ts5doddde2: expected Seq, got {other:?}") };
        assert_eq!(s.len(), 5, "Ts5doddde2: component count");
        let _ = s;
        Ts5doddde2 {
            f0: FromValue::from_value(s[0].as_ref().expect("component f0 of Ts5doddde2 must be present")),
            f1: s[1].as_ref().map(FromValue::from_value),
            f2: FromValue::from_value(s[2].as_ref().expect("component f2 of Ts5doddde2 must be present")),
            f3: FromValue::from_value(s[3].as_ref().expect("component f3 of Ts5doddde2 must be present")),
            f4: FromValue::from_value(s[4].as_ref().expect("component f4 of Ts5doddde2 must be present")),
        }
    }
}
impl ToValue for Ts5doddde2 {
    fn to_value(&self) -> Value {
        Value::Seq(vec![
            Some(self.f0.to_value()),
            self.f1.as_ref().map(|x| x.to_value()),
            Some(self.f2.to_value()),
            Some(self.f3.to_value()),
            Some(self.f4.to_value()),
        ])
    }
}
impl FromValue for Ts5doddde3 {
    fn from_value(v: &Value) -> Self {
        let s = match v { Value::Seq(s) => s, other => panic!("Ts5doddde3: expected Seq, got {other:?}") };
        assert_eq!(s.len(), 5, "Ts5doddde3: component count");
        let _ = s;
        Ts5doddde3 {
            f0: FromValue::from_value(s[0].as_ref().expect("component f0 of Ts5doddde3 must be present")),
            f1: s[1].as_ref().map(FromValue::from_value),
            f2: FromValue::from_value(s[2].as_ref().expect("component f2 of Ts5doddde3 must be present")),
            f3: FromValue::from_value(s[3].as_ref().expect("component f3 of Ts5doddde3 must be present")),
            f4: FromValue::from_value(s[4].as_ref().expect("component f4 of Ts5doddde3 must be present")),
        }
    }
}
impl ToValue for Ts5doddde3 {
    fn to_value(&self) -> Value {
        Value::Seq(vec![
            Some(self.f0.to_value()),
            self.f1.as_ref().map(|x| x.to_value()),
            Some(self.f2.to_value()),
            Some(self.f3.to_value()),
            Some(self.f4.to_value()),
        ])
    }
}
impl FromValue for Ts5doddde4 {
    fn from_value(v: &Value) -> Self {
        let s = match v { Value::Seq(s) => s, other => panic!("Ts5doddde4: expected Seq, got {other:?}") };
        assert_eq!(s.len(), 5, "Ts5doddde4: component count");
        let _ = s;
        Ts5doddde4 {
            f0: FromValue::from_value(s[0].as_ref().expect("component f0 of Ts5doddde4 must be present")),
            f1: s[1].as_ref().map(FromValue::from_value),
            f2: FromValue::from_value(s[2].as_ref().expect("component f2 of Ts5doddde4 must be present")),
            f3: FromValue::from_value(s[3].as_ref().expect("component f3 of Ts5doddde4 must be present")),
            f4: FromValue::from_value(s[4].as_ref().expect("component f4 of Ts5doddde4 must be present")),
        }
    }
}
impl ToValue for Ts5doddde4 {
    fn to_value(&self) -> Value {
        Value::Seq(vec![
            Some(self.f0.to_value()),
            self.f1.as_ref().map(|x| x.to_value()),
            Some(self.f2.to_value()),
            Some(self.f3.to_value()),
            Some(self.f4.to_value()),
        ])
    }
}
impl FromValue for Ts5doddde5 {
    fn from_value(v: &Value) -> Self {
        let s = match v { Value::Seq(s) => s, other => panic!("Ts5doddde5: expected Seq, got {other:?}") };
        assert_eq!(s.len(), 5, "Ts5doddde5: component count");
        let _ = s;
        Ts5doddde5 {
            f0: FromValue::from_value(s[0].as_ref().expect("component f0 of Ts5doddde5 must be present")),
            f1: s[1].as_ref().map(FromValue::from_value),
            f2: FromValue::from_value(s[2].as_ref().expect("component f2 of Ts5doddde5 must be present")),
            f3: FromValue::from_value(s[3].as_ref().expect("component f3 of Ts5doddde5 must be present")),
            f4: FromValue::from_value(s[4].as_ref().expect("component f4 of Ts5doddde5 must be present")),
        }
    }
}
impl ToValue for Ts5doddde5 {
    fn to_value(&self) -> Value {
        Value::Seq(vec![
            Some(self.f0.to_value()),
            self.f1.as_ref().map(|x| x.to_value()),
            Some(self.f2.to_value()),
            Some(self.f3.to_value()),
            Some(self.f4.to_value()),
        ])
    }
}

use asn1rs::prelude::*;

#[asn(sequence, extensible_after(f3))]

#[derive(Default, Debug, Clone, PartialEq, Hash)]
pub struct Ts5oommoe4 {
    #[asn(optional(integer(0..7)))] pub f0: Option<u8>,
    #[asn(optional(integer(0..7)))] pub f1: Option<u8>,
    #[asn(integer(0..7))] pub f2: u8,
    #[asn(integer(0..7))] pub f3: u8,
    #[asn(optional(integer(0..7)))] pub f4: Option<u8>,
}

impl Ts5oommoe4 {
    pub const fn f0_min() -> u8 {
        0
    }

    pub const fn f0_max() -> u8 {
        7
    }

    pub const fn f1_min() -> u8 {
        0
    }

    pub const fn f1_max() -> u8 {
        7
    }

    pub const fn f2_min() -> u8 {
        0
    }

    pub const fn f2_max() -> u8 {
        7
    }

    pub const fn f3_min() -> u8 {
        0
    }

    pub const fn f3_max() -> u8 {
        7
    }

    pub const fn f4_min() -> u8 {
        0
    }

    pub const fn f4_max() -> u8 {
        7
    }
}

#[asn(sequence, extensible_after(f4))]

#[derive(Default, Debug, Clone, PartialEq, Hash)]
pub struct Ts5oommoe5 {
    #[asn(optional(integer(0..7)))] pub f0: Option<u8>,
    #[asn(optional(integer(0..7)))] pub f1: Option<u8>,
    #[asn(integer(0..7))] pub f2: u8,
    #[asn(integer(0..7))] pub f3: u8,
    #[asn(optional(integer(0..7)))] pub f4: Option<u8>,
}

impl Ts5oommoe5 {
    pub const fn f0_min() -> u8 {
        0
    }

    pub const fn f0_max() -> u8 {
        7
    }

    pub const fn f1_min() -> u8 {
        0
    }

    pub const fn f1_max() -> u8 {
        7
    }

    pub const fn f2_min() -> u8 {
        0
    }

    pub const fn f2_max() -> u8 {
        7
    }

    pub const fn f3_min() -> u8 {
        0
    }

    pub const fn f3_max() -> u8 {
        7
    }

    pub const fn f4_min() -> u8 {
        0
    }

    pub const fn f4_max() -> u8 {
        7
    }
}

#[asn(sequence)]

#[derive(Default, Debug, Clone, PartialEq, Hash)]
pub struct Ts5dommon {
    #[asn(default(integer(0..7), 5))] pub f0: u8,
    #[asn(optional(integer(0..7)))] pub f1: Option<u8>,
    #[asn(integer(0..7))] pub f2: u8,
    #[asn(integer(0..7))] pub f3: u8,
    #[asn(optional(integer(0..7)))] pub f4: Option<u8>,
}

impl Ts5dommon {
    pub const fn f0_min() -> u8 {
        0
    }

    pub const fn f0_max() -> u8 {
        7
    }

    pub const fn f1_min() -> u8 {
        0
    }

    pub const fn f1_max() -> u8 {
        7
    }

    pub const fn f2_min() -> u8 {
        0
    }

    pub const fn f2_max() -> u8 {
        7
    }

    pub const fn f3_min() -> u8 {
        0
    }

    pub const fn f3_max() -> u8 {
        7
    }

    pub const fn f4_min() -> u8 {
        0
    }

    pub const fn f4_max() -> u8 {
        7
    }
}

#[asn(sequence, extensible_after(f0))]

#[derive(Default, Debug, Clone, PartialEq, Hash)]
pub struct Ts5dommoe0 {
    #[asn(default(integer(0..7), 5))] pub f0: u8,
    #[asn(optional(integer(0..7)))] pub f1: Option<u8>,
    #[asn(optional(integer(0..7)))] pub f2: Option<u8>,
    #[asn(optional(integer(0..7)))] pub f3: Option<u8>,
    #[asn(optional(integer(0..7)))] pub f4: Option<u8>,
}

impl Ts5dommoe0 {
    pub const fn f0_min() -> u8 {
        0
    }

    pub const fn f0_max() -> u8 {
        7
    }

    pub const fn f1_min() -> u8 {
        0
    }

    pub const fn f1_max() -> u8 {
        7
    }

    pub const fn f2_min() -> u8 {
        0
    }

    pub const fn f2_max() -> u8 {
        7
    }

    pub const fn f3_min() -> u8 {
        0
    }

    pub const fn f3_max() -> u8 {
        7
    }

    pub const fn f4_min() -> u8 {
        0
    }

    pub const fn f4_max() -> u8 {
        7
    }
}

#[asn(sequence, extensible_after(f0))]

#[derive(Default, Debug, Clone, PartialEq, Hash)]
pub struct Ts5dommoe1 {
    #[asn(default(integer(0..7), 5))] pub f0: u8,
    #[asn(optional(integer(0..7)))] pub f1: Option<u8>,
    #[asn(optional(integer(0..7)))] pub f2: Option<u8>,
    #[asn(optional(integer(0..7)))] pub f3: Option<u8>,
    #[asn(optional(integer(0..7)))] pub f4: Option<u8>,
}

impl Ts5dommoe1 {
    pub const fn f0_min() -> u8 {
        0
    }

    pub const fn f0_max() -> u8 {
        7
    }

    pub const fn f1_min() -> u8 {
        0
    }

    pub const fn f1_max() -> u8 {
        7
    }

    pub const fn f2_min() -> u8 {
        0
    }

    pub const fn f2_max() -> u8 {
        7
    }

    pub const fn f3_min() -> u8 {
        0
    }

    pub const fn f3_max() -> u8 {
        7
    }

    pub const fn f4_min() -> u8 {
        0
    }

    pub const fn f4_max() -> u8 {
        7
    }
}

#[asn(sequence, extensible_after(f1))]

#[derive(Default, Debug, Clone, PartialEq, Hash)]
pub struct Ts5dommoe2 {
    #[asn(default(integer(0..7), 5))] pub f0: u8,
    #[asn(optional(integer(0..7)))] pub f1: Option<u8>,
    #[asn(optional(integer(0..7)))] pub f2: Option<u8>,
    #[asn(optional(integer(0..7)))] pub f3: Option<u8>,
    #[asn(optional(integer(0..7)))] pub f4: Option<u8>,
}

impl Ts5dommoe2 {
    pub const fn f0_min() -> u8 {
        0
    }

    pub const fn f0_max() -> u8 {
        7
    }

    pub const fn f1_min() -> u8 {
        0
    }

    pub const fn f1_max() -> u8 {
        7
    }

    pub const fn f2_min() -> u8 {
        0
    }

    pub const fn f2_max() -> u8 {
        7
    }

    pub const fn f3_min() -> u8 {
        0
    }

    pub const fn f3_max() -> u8 {
        7
    }

    pub const fn f4_min() -> u8 {
        0
    }

    pub const fn f4_max() -> u8 {
        7
    }
}

#[asn(sequence, extensible_after(f2))]

#[derive(Default, Debug, Clone, PartialEq, Hash)]
pub struct Ts5dommoe3 {
    #[asn(default(integer(0..7), 5))] pub f0: u8,
    #[asn(optional(integer(0..7)))] pub f1: Option<u8>,
    #[asn(integer(0..7))] pub f2: u8,
    #[asn(optional(integer(0..7)))] pub f3: Option<u8>,
    #[asn(optional(integer(0..7)))] pub f4: Option<u8>,
}

impl Ts5dommoe3 {
    pub const fn f0_min() -> u8 {
        0
    }

    pub const fn f0_max() -> u8 {
        7
    }

    pub const fn f1_min() -> u8 {
        0
    }

    pub const fn f1_max() -> u8 {
        7
    }

    pub const fn f2_min() -> u8 {
        0
    }

    pub const fn f2_max() -> u8 {
        7
    }

    pub const fn f3_min() -> u8 {
        0
    }

    pub const fn f3_max() -> u8 {
        7
    }

    pub const fn f4_min() -> u8 {
        0
    }

    pub const fn f4_max() -> u8 {
        7
    }
}

#[asn(sequence, extensible_after(f3))]

#[derive(Default, Debug, Clone, PartialEq, Hash)]
pub struct Ts5dommoe4 {
    #[asn(default(integer(0..7), 5))] pub f0: u8,
    #[asn(optional(integer(0..7)))] pub f1: Option<u8>,
    #[asn(integer(0..7))] pub f2: u8,
    #[asn(integer(0..7))] pub f3: u8,
    #[asn(optional(integer(0..7)))] pub f4: Option<u8>,
}

impl Ts5dommoe4 {
    pub const fn f0_min() -> u8 {
        0
    }

    pub const fn f0_max() -> u8 {
        7
    }

    pub const fn f1_min() -> u8 {
        0
    }

    pub const fn f1_max() -> u8 {
        7
    }

    pub const fn f2_min() -> u8 {
        0
    }

    pub const fn f2_max() -> u8 {
        7
    }

    pub const fn f3_min() -> u8 {
        0
    }

    pub const fn f3_max() -> u8 {
        7
    }

    pub const fn f4_min() -> u8 {
        0
    }

    pub const fn f4_max() -> u8 {
        7
    }
}

#[asn(sequence, extensible_after(f4))]

#[derive(Default, Debug, Clone, PartialEq, Hash)]
pub struct Ts5dommoe5 {
    #[asn(default(integer(0..7), 5))] pub f0: u8,
    #[asn(optional(integer(0..7)))] pub f1: Option<u8>,
    #[asn(integer(0..7))] pub f2: u8,
    #[asn(integer(0..7))] pub f3: u8,
    #[asn(optional(integer(0..7)))] pub f4: Option<u8>,
}

impl Ts5dommoe5 {
    pub const fn f0_min() -> u8 {
        0
    }

    pub const fn f0_max() -> u8 {
        7
    }

    pub const fn f1_min() -> u8 {
        0
    }

    pub const fn f1_max() -> u8 {
        7
    }

    pub const fn f2_min() -> u8 {
        0
    }

    pub const fn f2_max() -> u8 {
        7
    }

    pub const fn f3_min() -> u8 {
        0
    }

    pub const fn f3_max() -> u8 {
        7
    }

    pub const fn f4_min() -> u8 {
        0
    }

    pub const fn f4_max() -> u8 {
        7
    }
}

#[asn(sequence)]

#[derive(Default, Debug, Clone, PartialEq, Hash)]
pub struct Ts5mdmmon {
    #[asn(integer(0..7))] pub f0: u8,
    #[asn(default(integer(0..7), 5))] pub f1: u8,
    #[asn(integer(0..7))] pub f2: u8,
    #[asn(integer(0..7))] pub f3: u8,
    #[asn(optional(integer(0..7)))] pub f4: Option<u8>,
}

impl Ts5mdmmon {
    pub const fn f0_min() -> u8 {
        0
    }

    pub const fn f0_max() -> u8 {
        7
    }

    pub const fn f1_min() -> u8 {
        0
    }

    pub const fn f1_max() -> u8 {
        7
    }

    pub const fn f2_min() -> u8 {
        0
    }

    pub const fn f2_max() -> u8 {
        7
    }

    pub const fn f3_min() -> u8 {
        0
    }

    pub const fn f3_max() -> u8 {
        7
    }

    pub const fn f4_min() -> u8 {
        0
    }

    pub const fn f4_max() -> u8 {
        7
    }
}

#[asn(sequence, extensible_after(f0))]

#[derive(Default, Debug, Clone, PartialEq, Hash)]
pub struct Ts5mdmmoe0 {
    #[asn(integer(0..7))] pub f0: u8,
    #[asn(default(integer(0..7), 5))] pub f1: u8,
    #[asn(optional(integer(0..7)))] pub f2: Option<u8>,
    #[asn(optional(integer(0..7)))] pub f3: Option<u8>,
    #[asn(optional(integer(0..7)))] pub f4: Option<u8>,
}

impl Ts5mdmmoe0 {
    pub const fn f0_min() -> u8 {
        0
    }

    pub const fn f0_max() -> u8 {
        7
    }

    pub const fn f1_min() -> u8 {
        0
    }

    pub const fn f1_max() -> u8 {
        7
    }

    pub const fn f2_min() -> u8 {
        0
    }

    pub const fn f2_max() -> u8 {
        7
    }

    pub const fn f3_min() -> u8 {
        0
    }

    pub const fn f3_max() -> u8 {
        7
    }

    pub const fn f4_min() -> u8 {
        0
    }

    pub const fn f4_max() -> u8 {
        7
    }
}

#[asn(sequence, extensible_after(f0))]

#[derive(Default, Debug, Clone, PartialEq, Hash)]
pub struct Ts5mdmmoe1 {
    #[asn(integer(0..7))] pub f0: u8,
    #[asn(default(integer(0..7), 5))] pub f1: u8,
    #[asn(optional(integer(0..7)))] pub f2: Option<u8>,
    #[asn(optional(integer(0..7)))] pub f3: Option<u8>,
    #[asn(optional(integer(0..7)))] pub f4: Option<u8>,
}

impl Ts5mdmmoe1 {
    pub const fn f0_min() -> u8 {
        0
    }

    pub const fn f0_max() -> u8 {
        7
    }

    pub const fn f1_min() -> u8 {
        0
    }

    pub const fn f1_max() -> u8 {
        7
    }

    pub const fn f2_min() -> u8 {
        0
    }

    pub const fn f2_max() -> u8 {
        7
    }

    pub const fn f3_min() -> u8 {
        0
    }

    pub const fn f3_max() -> u8 {
        7
    }

    pub const fn f4_min() -> u8 {
        0
    }

    pub const fn f4_max() -> u8 {
        7
    }
}

#[asn(sequence, extensible_after(f1))]

#[derive(Default, Debug, Clone, PartialEq, Hash)]
pub struct Ts5mdmmoe2 {
    #[asn(integer(0..7))] pub f0: u8,
    #[asn(default(integer(0..7), 5))] pub f1: u8,
    #[asn(optional(integer(0..7)))] pub f2: Option<u8>,
    #[asn(optional(integer(0..7)))] pub f3: Option<u8>,
    #[asn(optional(integer(0..7)))] pub f4: Option<u8>,
}

impl Ts5mdmmoe2 {
    pub const fn f0_min() -> u8 {
        0
    }

    pub const fn f0_max() -> u8 {
        7
    }

    pub const fn f1_min() -> u8 {
        0
    }

    pub const fn f1_max() -> u8 {
        7
    }

    pub const fn f2_min() -> u8 {
        0
    }

    pub const fn f2_max() -> u8 {
        7
    }

    pub const fn f3_min() -> u8 {
        0
    }

    pub const fn f3_max() -> u8 {
        7
    }

    pub const fn f4_min() -> u8 {
        0
    }

    pub const fn f4_max() -> u8 {
        7
    }
}

#[asn(sequence, extensible_after(f2))]

#[derive(Default, Debug, Clone, PartialEq, Hash)]
pub struct Ts5mdmmoe3 {
    #[asn(integer(0..7))] pub f0: u8,
    #[asn(default(integer(0..7), 5))] pub f1: u8,
    #[asn(integer(0..7))] pub f2: u8,
    #[asn(optional(integer(0..7)))] pub f3: Option<u8>,
    #[asn(optional(integer(0..7)))] pub f4: Option<u8>,
}

impl Ts5mdmmoe3 {
    pub const fn f0_min() -> u8 {
        0
    }

    pub const fn f0_max() -> u8 {
        7
    }

    pub const fn f1_min() -> u8 {
        0
    }

    pub const fn f1_max() -> u8 {
        7
    }

    pub const fn f2_min() -> u8 {
        0
    }

    pub const fn f2_max() -> u8 {
        7
    }

    pub const fn f3_min() -> u8 {
        0
    }

    pub const fn f3_max() -> u8 {
        7
    }

    pub const fn f4_min() -> u8 {
        0
    }

    pub const fn f4_max() -> u8 {
        7
    }
}

#[asn(sequence, extensible_after(f3))]

#[derive(Default, Debug, Clone, PartialEq, Hash)]
pub struct Ts5mdmmoe4 {
    #[asn(integer(0..7))] pub f0: u8,
    #[asn(default(integer(0..7), 5))] pub f1: u8,
    #[asn(integer(0..7))] pub f2: u8,
    #[asn(integer(0..7))] pub f3: u8,
    #[asn(optional(integer(0..7)))] pub f4: Option<u8>,
}

impl Ts5mdmmoe4 {
    pub const fn f0_min() -> u8 {
        0
    }

    pub const fn f0_max() -> u8 {
        7
    }

    pub const fn f1_min() -> u8 {
        0
    }

    pub const fn f1_max() -> u8 {
        7
    }

    pub const fn f2_min() -> u8 {
        0
    }

    pub const fn f2_max() -> u8 {
        7
    }

    pub const fn f3_min() -> u8 {
        0
    }

    pub const fn f3_max() -> u8 {
        7
    }

    pub const fn f4_min() -> u8 {
        0
    }

    pub const fn f4_max() -> u8 {
        7
    }
}

#[asn(sequence, extensible_after(f4))]

#[derive(Default, Debug, Clone, PartialEq, Hash)]
pub struct Ts5mdmmoe5 {
    #[asn(integer(0..7))] pub f0: u8,
    #[asn(default(integer(0..7), 5))] pub f1: u8,
    #[asn(integer(0..7))] pub f2: u8,
    #[asn(integer(0..7))] pub f3: u8,
    #[asn(optional(integer(0..7)))] pub f4: Option<u8>,
}

impl Ts5mdmmoe5 {
    pub const fn f0_min() -> u8 {
        0
    }

    pub const fn f0_max() -> u8 {
        7
    }

    pub const fn f1_min() -> u8 {
        0
    }

    pub const fn f1_max() -> u8 {
        7
    }

    pub const fn f2_min() -> u8 {
        0
    }

    pub const fn f2_max() -> u8 {
        7
    }

    pub const fn f3_min() -> u8 {
        0
    }

    pub const fn f3_max() -> u8 {
        7
    }

    pub const fn f4_min() -> u8 {
        0
    }

    pub const fn f4_max() -> u8 {
        7
    }
}

#[asn(sequence)]

#[derive(Default, Debug, Clone, PartialEq, Hash)]
pub struct Ts5odmmon {
    #[asn(optional(integer(0..7)))] pub f0: Option<u8>,
    #[asn(default(integer(0..7), 5))] pub f1: u8,
    #[asn(integer(0..7))] pub f2: u8,
    #[asn(integer(0..7))] pub f3: u8,
    #[asn(optional(integer(0..7)))] pub f4: Option<u8>,
}

impl Ts5odmmon {
    pub const fn f0_min() -> u8 {
        0
    }

    pub const fn f0_max() -> u8 {
        7
    }

    pub const fn f1_min() -> u8 {
        0
    }

    pub const fn f1_max() -> u8 {
        7
    }

    pub const fn f2_min() -> u8 {
        0
    }

    pub const fn f2_max() -> u8 {
        7
    }

    pub const fn f3_min() -> u8 {
        0
    }

    pub const fn f3_max() -> u8 {
        7
    }

    pub const fn f4_min() -> u8 {
        0
    }

    pub const fn f4_max() -> u8 {
        7
    }
}

#[asn(sequence, extensible_after(f0))]

#[derive(Default, Debug, Clone, PartialEq, Hash)]
pub struct Ts5odmmoe0 {
    #[asn(optional(integer(0..7)))] pub f0: Option<u8>,
    #[asn(default(integer(0..7), 5))] pub f1: u8,
    #[asn(optional(integer(0..7)))] pub f2: Option<u8>,
    #[asn(optional(integer(0..7)))] pub f3: Option<u8>,
    #[asn(optional(integer(0..7)))] pub f4: Option<u8>,
}

impl Ts5odmmoe0 {
    pub const fn f0_min() -> u8 {
        0
    }

    pub const fn f0_max() -> u8 {
        7
    }

    pub const fn f1_min() -> u8 {
        0
    }

    pub const fn f1_max() -> u8 {
        7
    }

    pub const fn f2_min() -> u8 {
        0
    }

    pub const fn f2_max() -> u8 {
        7
    }

    pub const fn f3_min() -> u8 {
        0
    }

    pub const fn f3_max() -> u8 {
        7
    }

    pub const fn f4_min() -> u8 {
        0
    }

    pub const fn f4_max() -> u8 {
        7
    }
}

#[asn(sequence, extensible_after(f0))]

#[derive(Default, Debug, Clone, PartialEq, Hash)]
pub struct Ts5odmmoe1 {
    #[asn(optional(integer(0..7)))] pub f0: Option<u8>,
    #[asn(default(integer(0..7), 5))] pub f1: u8,
    #[asn(optional(integer(0..7)))] pub f2: Option<u8>,
    #[asn(optional(integer(0..7)))] pub f3: Option<u8>,
    #[asn(optional(integer(0..7)))] pub f4: Option<u8>,
}

impl Ts5odmmoe1 {
    pub const fn f0_min() -> u8 {
        0
    }

    pub const fn f0_max() -> u8 {
        7
    }

    pub const fn f1_min() -> u8 {
        0
    }

    pub const fn f1_max() -> u8 {
        7
    }

    pub const fn f2_min() -> u8 {
        0
    }

    pub const fn f2_max() -> u8 {
        7
    }

    pub const fn f3_min() -> u8 {
        0
    }

    pub const fn f3_max() -> u8 {
        7
    }

    pub const fn f4_min() -> u8 {
        0
    }

    pub const fn f4_max() -> u8 {
        7
    }
}

#[asn(sequence, extensible_after(f1))]

#[derive(Default, Debug, Clone, PartialEq, Hash)]
pub struct Ts5odmmoe2 {
    #[asn(optional(integer(0..7)))] pub f0: Option<u8>,
    #[asn(default(integer(0..7), 5))] pub f1: u8,
    #[asn(optional(integer(0..7)))] pub f2: Option<u8>,
    #[asn(optional(integer(0..7)))] pub f3: Option<u8>,
    #[asn(optional(integer(0..7)))] pub f4: Option<u8>,
}

impl Ts5odmmoe2 {
    pub const fn f0_min() -> u8 {
        0
    }

    pub const fn f0_max() -> u8 {
        7
    }

    pub const fn f1_min() -> u8 {
        0
    }

    pub const fn f1_max() -> u8 {
        7
    }

    pub const fn f2_min() -> u8 {
        0
    }

    pub const fn f2_max() -> u8 {
        7
    }

    pub const fn f3_min() -> u8 {
        0
    }

    pub const fn f3_max() -> u8 {
        7
    }

    pub const fn f4_min() -> u8 {
        0
    }

    pub const fn f4_max() -> u8 {
        7
    }
}

#[asn(sequence, extensible_after(f2))]

#[derive(Default, Debug, Clone, PartialEq, Hash)]
pub struct Ts5odmmoe3 {
    #[asn(optional(integer(0..7)))] pub f0: Option<u8>,
    #[asn(default(integer(0..7), 5))] pub f1: u8,
    #[asn(integer(0..7))] pub f2: u8,
    #[asn(optional(integer(0..7)))] pub f3: Option<u8>,
    #[asn(optional(integer(0..7)))] pub f4: Option<u8>,
}

impl Ts5odmmoe3 {
    pub const fn f0_min() -> u8 {
        0
    }

    pub const fn f0_max() -> u8 {
        7
    }

    pub const fn f1_min() -> u8 {
        0
    }

    pub const fn f1_max() -> u8 {
        7
    }

    pub const fn f2_min() -> u8 {
        0
    }

    pub const fn f2_max() -> u8 {
        7
    }

    pub const fn f3_min() -> u8 {
        0
    }

    pub const fn f3_max() -> u8 {
        7
    }

    pub const fn f4_min() -> u8 {
        0
    }

    pub const fn f4_max() -> u8 {
        7
    }
}

#[asn(sequence, extensible_after(f3))]

#[derive(Default, Debug, Clone, PartialEq, Hash)]
pub struct Ts5odmmoe4 {
    #[asn(optional(integer(0..7)))] pub f0: Option<u8>,
    #[asn(default(integer(0..7), 5))] pub f1: u8,
    #[asn(integer(0..7))] pub f2: u8,
    #[asn(integer(0..7))] pub f3: u8,
    #[asn(optional(integer(0..7)))] pub f4: Option<u8>,
}

impl Ts5odmmoe4 {
    pub const fn f0_min() -> u8 {
        0
    }

    pub const fn f0_max() -> u8 {
        7
    }

    pub const fn f1_min() -> u8 {
        0
    }

    pub const fn f1_max() -> u8 {
        7
    }

    pub const fn f2_min() -> u8 {
        0
    }

    pub const fn f2_max() -> u8 {
        7
    }

    pub const fn f3_min() -> u8 {
        0
    }

    pub const fn f3_max() -> u8 {
        7
    }

    pub const fn f4_min() -> u8 {
        0
    }

    pub const fn f4_max() -> u8 {
        7
    }
}

#[asn(sequence, extensible_after(f4))]

#[derive(Default, Debug, Clone, PartialEq, Hash)]
pub struct Ts5odmmoe5 {
    #[asn(optional(integer(0..7)))] pub f0: Option<u8>,
    #[asn(default(integer(0..7), 5))] pub f1: u8,
    #[asn(integer(0..7))] pub f2: u8,
    #[asn(integer(0..7))] pub f3: u8,
    #[asn(optional(integer(0..7)))] pub f4: Option<u8>,
}

impl Ts5odmmoe5 {
    pub const fn f0_min() -> u8 {
        0
    }

    pub const fn f0_max() -> u8 {
        7
    }

    pub const fn f1_min() -> u8 {
        0
    }

    pub const fn f1_max() -> u8 {
        7
    }

    pub const fn f2_min() -> u8 {
        0
    }

    pub const fn f2_max() -> u8 {
        7
    }

    pub const fn f3_min() -> u8 {
        0
    }

    pub const fn f3_max() -> u8 {
        7
    }

    pub const fn f4_min() -> u8 {
        0
    }

    pub const fn f4_max() -> u8 {
        7
    }
}

#[asn(sequence)]

#[derive(Default, Debug, Clone, PartialEq, Hash)]
pub struct Ts5ddmmon {
    #[asn(default(integer(0..7), 5))] pub f0: u8,
    #[asn(default(integer(0..7), 5))] pub f1: u8,
    #[asn(integer(0..7))] pub f2: u8,
    #[asn(integer(0..7))] pub f3: u8,
    #[asn(optional(integer(0..7)))] pub f4: Option<u8>,
}

impl Ts5ddmmon {
    pub const fn f0_min() -> u8 {
        0
    }

    pub const fn f0_max() -> u8 {
        7
    }

    pub const fn f1_min() -> u8 {
        0
    }

    pub const fn f1_max() -> u8 {
        7
    }

    pub const fn f2_min() -> u8 {
        0
    }

    pub const fn f2_max() -> u8 {
        7
    }

    pub const fn f3_min() -> u8 {
        0
    }

    pub const fn f3_max() -> u8 {
        7
    }

    pub const fn f4_min() -> u8 {
        0
    }

    pub const fn f4_max() -> u8 {
        7
    }
}

#[asn(sequence, extensible_after(f0))]

#[derive(Default, Debug, Clone, PartialEq, Hash)]
pub struct Ts5ddmmoe0 {
    #[asn(default(integer(0..7), 5))] pub f0: u8,
    #[asn(default(integer(0..7), 5))] pub f1: u8,
    #[asn(optional(integer(0..7)))] pub f2: Option<u8>,
    #[asn(optional(integer(0..7)))] pub f3: Option<u8>,
    #[asn(optional(integer(0..7)))] pub f4: Option<u8>,
}

impl Ts5ddmmoe0 {
    pub const fn f0_min() -> u8 {
        0
    }

    pub const fn f0_max() -> u8 {
        7
    }

    pub const fn f1_min() -> u8 {
        0
    }

    pub const fn f1_max() -> u8 {
        7
    }

    pub const fn f2_min() -> u8 {
        0
    }

    pub const fn f2_max() -> u8 {
        7
    }

    pub const fn f3_min() -> u8 {
        0
    }

    pub const fn f3_max() -> u8 {
        7
    }

    pub const fn f4_min() -> u8 {
        0
    }

    pub const fn f4_max() -> u8 {
        7
    }
}

#[asn(sequence, extensible_after(f0))]

#[derive(Default, Debug, Clone, PartialEq, Hash)]
pub struct Ts5ddmmoe1 {
    #[asn(default(integer(0..7), 5))] pub f0: u8,
    #[asn(default(integer(0..7), 5))] pub f1: u8,
    #[asn(optional(integer(0..7)))] pub f2: Option<u8>,
    #[asn(optional(integer(0..7)))] pub f3: Option<u8>,
    #[asn(optional(integer(0..7)))] pub f4: Option<u8>,
}

impl Ts5ddmmoe1 {
    pub const fn f0_min() -> u8 {
        0
    }

    pub const fn f0_max() -> u8 {
        7
    }

    pub const fn f1_min() -> u8 {
        0
    }

    pub const fn f1_max() -> u8 {
        7
    }

    pub const fn f2_min() -> u8 {
        0
    }

    pub const fn f2_max() -> u8 {
        7
    }

    pub const fn f3_min() -> u8 {
        0
    }

    pub const fn f3_max() -> u8 {
        7
    }

    pub const fn f4_min() -> u8 {
        0
    }

    pub const fn f4_max() -> u8 {
        7
    }
}

#[asn(sequence, extensible_after(f1))]

#[derive(Default, Debug, Clone, PartialEq, Hash)]
pub struct Ts5ddmmoe2 {
    #[asn(default(integer(0..7), 5))] pub f0: u8,
    #[asn(default(integer(0..7), 5))] pub f1: u8,
    #[asn(optional(integer(0..7)))] pub f2: Option<u8>,
    #[asn(optional(integer(0..7)))] pub f3: Option<u8>,
    #[asn(optional(integer(0..7)))] pub f4: Option<u8>,
}

impl Ts5ddmmoe2 {
    pub const fn f0_min() -> u8 {
        0
    }

    pub const fn f0_max() -> u8 {
        7
    }

    pub const fn f1_min() -> u8 {
        0
    }

    pub const fn f1_max() -> u8 {
        7
    }

    pub const fn f2_min() -> u8 {
        0
    }

    pub const fn f2_max() -> u8 {
        7
    }

    pub const fn f3_min() -> u8 {
        0
    }

    pub const fn f3_max() -> u8 {
        7
    }

    pub const fn f4_min() -> u8 {
        0
    }

    pub const fn f4_max() -> u8 {
        7
    }
}

#[asn(sequence, extensible_after(f2))]

#[derive(Default, Debug, Clone, PartialEq, Hash)]
pub struct Ts5ddmmoe3 {
    #[asn(default(integer(0..7), 5))] pub f0: u8,
    #[asn(default(integer(0..7), 5))] pub f1: u8,
    #[asn(integer(0..7))] pub f2: u8,
    #[asn(optional(integer(0..7)))] pub f3: Option<u8>,
    #[asn(optional(integer(0..7)))] pub f4: Option<u8>,
}

impl Ts5ddmmoe3 {
    pub const fn f0_min() -> u8 {
        0
    }

    pub const fn f0_max() -> u8 {
        7
    }

    pub const fn f1_min() -> u8 {
        0
    }

    pub const fn f1_max() -> u8 {
        7
    }

    pub const fn f2_min() -> u8 {
        0
    }

    pub const fn f2_max() -> u8 {
        7
    }

    pub const fn f3_min() -> u8 {
        0
    }

    pub const fn f3_max() -> u8 {
        7
    }

    pub const fn f4_min() -> u8 {
        0
    }

    pub const fn f4_max() -> u8 {
        7
    }
}

#[asn(sequence, extensible_after(f3))]

#[derive(Default, Debug, Clone, PartialEq, Hash)]
pub struct Ts5ddmmoe4 {
    #[asn(default(integer(0..7), 5))] pub f0: u8,
    #[asn(default(integer(0..7), 5))] pub f1: u8,
    #[asn(integer(0..7))] pub f2: u8,
    #[asn(integer(0..7))] pub f3: u8,
    #[asn(optional(integer(0..7)))] pub f4: Option<u8>,
}

impl Ts5ddmmoe4 {
    pub const fn f0_min() -> u8 {
        0
    }

    pub const fn f0_max() -> u8 {
        7
    }

    pub const fn f1_min() -> u8 {
        0
    }

    pub const fn f1_max() -> u8 {
        7
    }

    pub const fn f2_min() -> u8 {
        0
    }

    pub const fn f2_max() -> u8 {
        7
    }

    pub const fn f3_min() -> u8 {
        0
    }

    pub const fn f3_max() -> u8 {
        7
    }

    pub const fn f4_min() -> u8 {
        0
    }

    pub const fn f4_max() -> u8 {
        7
    }
}

#[asn(sequence, extensible_after(f4))]

#[derive(Default, Debug, Clone, PartialEq, Hash)]
pub struct Ts5ddmmoe5 {
    #[asn(default(integer(0..7), 5))] pub f0: u8,
    #[asn(default(integer(0..7), 5))] pub f1: u8,
    #[asn(integer(0..7))] pub f2: u8,
    #[asn(integer(0..7))] pub f3: u8,
    #[asn(optional(integer(0..7)))] pub f4: Option<u8>,
}

impl Ts5ddmmoe5 {
    pub const fn f0_min() -> u8 {
        0
    }

    pub const fn f0_max() -> u8 {
        7
    }

    pub const fn f1_min() -> u8 {
        0
    }

    pub const fn f1_max() -> u8 {
        7
    }

    pub const fn f2_min() -> u8 {
        0
    }

    pub const fn f2_max() -> u8 {
        7
    }

    pub const fn f3_min() -> u8 {
        0
    }

    pub const fn f3_max() -> u8 {
        7
    }

    pub const fn f4_min() -> u8 {
        0
    }

    pub const fn f4_max() -> u8 {
        7
    }
}

#[asn(sequence)]

#[derive(Default, Debug, Clone, PartialEq, Hash)]
pub struct Ts5mmomon {
    #[asn(integer(0..7))] pub f0: u8,
    #[asn(integer(0..7))] pub f1: u8,
    #[asn(optional(integer(0..7)))] pub f2: Option<u8>,
    #[asn(integer(0..7))] pub f3: u8,
    #[asn(optional(integer(0..7)))] pub f4: Option<u8>,
}

impl Ts5mmomon {
    pub const fn f0_min() -> u8 {
        0
    }

    pub const fn f0_max() -> u8 {
        7
    }

    pub const fn f1_min() -> u8 {
        0
    }

    pub const fn f1_max() -> u8 {
        7
    }

    pub const fn f2_min() -> u8 {
        0
    }

    pub const fn f2_max() -> u8 {
        7
    }

    pub const fn f3_min() -> u8 {
        0
    }

    pub const fn f3_max() -> u8 {
        7
    }

    pub const fn f4_min() -> u8 {
        0
    }

    pub const fn f4_max() -> u8 {
        7
    }
}

#[asn(sequence, extensible_after(f0))]

#[derive(Default, Debug, Clone, PartialEq, Hash)]
pub struct Ts5mmomoe0 {
    #[asn(integer(0..7))] pub f0: u8,
    #[asn(optional(integer(0..7)))] pub f1: Option<u8>,
    #[asn(optional(integer(0..7)))] pub f2: Option<u8>,
    #[asn(optional(integer(0..7)))] pub f3: Option<u8>,
    #[asn(optional(integer(0..7)))] pub f4: Option<u8>,
}

impl Ts5mmomoe0 {
    pub const fn f0_min() -> u8 {
        0
    }

    pub const fn f0_max() -> u8 {
        7
    }

    pub const fn f1_min() -> u8 {
        0
    }

    pub const fn f1_max() -> u8 {
        7
    }

    pub const fn f2_min() -> u8 {
        0
    }

    pub const fn f2_max() -> u8 {
        7
    }

    pub const fn f3_min() -> u8 {
        0
    }

    pub const fn f3_max() -> u8 {
        7
    }

    pub const fn f4_min() -> u8 {
        0
    }

    pub const fn f4_max() -> u8 {
        7
    }
}

#[asn(sequence, extensible_after(f0))]

#[derive(Default, Debug, Clone, PartialEq, Hash)]
pub struct Ts5mmomoe1 {
    #[asn(integer(0..7))] pub f0: u8,
    #[asn(optional(integer(0..7)))] pub f1: Option<u8>,
    #[asn(optional(integer(0..7)))] pub f2: Option<u8>,
    #[asn(optional(integer(0..7)))] pub f3: Option<u8>,
    #[asn(optional(integer(0..7)))] pub f4: Option<u8>,
}

impl Ts5mmomoe1 {
    pub const fn f0_min() -> u8 {
        0
    }

    pub const fn f0_max() -> u8 {
        7
    }

    pub const fn f1_min() -> u8 {
        0
    }

    pub const fn f1_max() -> u8 {
        7
    }

    pub const fn f2_min() -> u8 {
        0
    }

    pub const fn f2_max() -> u8 {
        7
    }

    pub const fn f3_min() -> u8 {
        0
    }

    pub const fn f3_max() -> u8 {
        7
    }

    pub const fn f4_min() -> u8 {
        0
    }

    pub const fn f4_max() -> u8 {
        7
    }
}

#[asn(sequence, extensible_after(f1))]

#[derive(Default, Debug, Clone, PartialEq, Hash)]
pub struct Ts5mmomoe2 {
    #[asn(integer(0..7))] pub f0: u8,
    #[asn(integer(0..7))] pub f1: u8,
    #[asn(optional(integer(0..7)))] pub f2: Option<u8>,
    #[asn(optional(integer(0..7)))] pub f3: Option<u8>,
    #[asn(optional(integer(0..7)))] pub f4: Option<u8>,
}

impl Ts5mmomoe2 {
    pub const fn f0_min() -> u8 {
        0
    }

    pub const fn f0_max() -> u8 {
        7
    }

    pub const fn f1_min() -> u8 {
        0
    }

    pub const fn f1_max() -> u8 {
        7
    }

    pub const fn f2_min() -> u8 {
        0
    }

    pub const fn f2_max() -> u8 {
        7
    }

    pub const fn f3_min() -> u8 {
        0
    }

    pub const fn f3_max() -> u8 {
        7
    }

    pub const fn f4_min() -> u8 {
        0
    }

    pub const fn f4_max() -> u8 {
        7
    }
}

#[asn(sequence, extensible_after(f2))]

#[derive(Default, Debug, Clone, PartialEq, Hash)]
pub struct Ts5mmomoe3 {
    #[asn(integer(0..7))] pub f0: u8,
    #[asn(integer(0..7))] pub f1: u8,
    #[asn(optional(integer(0..7)))] pub f2: Option<u8>,
    #[asn(optional(integer(0..7)))] pub f3: Option<u8>,
    #[asn(optional(integer(0..7)))] pub f4: Option<u8>,
}

impl Ts5mmomoe3 {
    pub const fn f0_min() -> u8 {
        0
    }

    pub const fn f0_max() -> u8 {
        7
    }

    pub const fn f1_min() -> u8 {
        0
    }

    pub const fn f1_max() -> u8 {
        7
    }

    pub const fn f2_min() -> u8 {
        0
    }

    pub const fn f2_max() -> u8 {
        7
    }

    pub const fn f3_min() -> u8 {
        0
    }

    pub const fn f3_max() -> u8 {
        7
    }

    pub const fn f4_min() -> u8 {
        0
    }

    pub const fn f4_max() -> u8 {
        7
    }
}

#[asn(sequence, extensible_after(f3))]

#[derive(Default, Debug, Clone, PartialEq, Hash)]
pub struct Ts5mmomoe4 {
    #[asn(integer(0..7))] pub f0: u8,
    #[asn(integer(0..7))] pub f1: u8,
    #[asn(optional(integer(0..7)))] pub f2: Option<u8>,
    #[asn(integer(0..7))] pub f3: u8,
    #[asn(optional(integer(0..7)))] pub f4: Option<u8>,
}

impl Ts5mmomoe4 {
    pub const fn f0_min() -> u8 {
        0
    }

    pub const fn f0_max() -> u8 {
        7
    }

    pub const fn f1_min() -> u8 {
        0
    }

    pub const fn f1_max() -> u8 {
        7
    }

    pub const fn f2_min() -> u8 {
        0
    }

    pub const fn f2_max() -> u8 {
        7
    }

    pub const fn f3_min() -> u8 {
        0
    }

    pub const fn f3_max() -> u8 {
        7
    }

    pub const fn f4_min() -> u8 {
        0
    }

    pub const fn f4_max() -> u8 {
        7
    }
}

#[asn(sequence, extensible_after(f4))]

#[derive(Default, Debug, Clone, PartialEq, Hash)]
pub struct Ts5mmomoe5 {
    #[asn(integer(0..7))] pub f0: u8,
    #[asn(integer(0..7))] pub f1: u8,
    #[asn(optional(integer(0..7)))] pub f2: Option<u8>,
    #[asn(integer(0..7))] pub f3: u8,
    #[asn(optional(integer(0..7)))] pub f4: Option<u8>,
}

impl Ts5mmomoe5 {
    pub const fn f0_min() -> u8 {
        0
    }

    pub const fn f0_max() -> u8 {
        7
    }

    pub const fn f1_min() -> u8 {
        0
    }

    pub const fn f1_max() -> u8 {
        7
    }

    pub const fn f2_min() -> u8 {
        0
    }

    pub const fn f2_max() -> u8 {
        7
    }

    pub const fn f3_min() -> u8 {
        0
    }

    pub const fn f3_max() -> u8 {
        7
    }

    pub const fn f4_min() -> u8 {
        0
    }

    pub const fn f4_max() -> u8 {
        7
    }
}

#[asn(sequence)]

#[derive(Default, Debug, Clone, PartialEq, Hash)]
pub struct Ts5omomon {
    #[asn(optional(integer(0..7)))] pub f0: Option<u8>,
    #[asn(integer(0..7))] pub f1: u8,
    #[asn(optional(integer(0..7)))] pub f2: Option<u8>,
    #[asn(integer(0..7))] pub f3: u8,
    #[asn(optional(integer(0..7)))] pub f4: Option<u8>,
}

impl Ts5omomon {
    pub const fn f0_min() -> u8 {
        0
    }

    pub const fn f0_max() -> u8 {
        7
    }

    pub const fn f1_min() -> u8 {
        0
    }

    pub const fn f1_max() -> u8 {
        7
    }

    pub const fn f2_min() -> u8 {
        0
    }

    pub const fn f2_max() -> u8 {
        7
    }

    pub const fn f3_min() -> u8 {
        0
    }

    pub const fn f3_max() -> u8 {
        7
    }

    pub const fn f4_min() -> u8 {
        0
    }

    pub const fn f4_max() -> u8 {
        7
    }
}

#[asn(sequence, extensible_after(f0))]

#[derive(Default, Debug, Clone, PartialEq, Hash)]
pub struct Ts5omomoe0 {
    #[asn(optional(integer(0..7)))] pub f0: Option<u8>,
    #[asn(optional(integer(0..7)))] pub f1: Option<u8>,
    #[asn(optional(integer(0..7)))] pub f2: Option<u8>,
    #[asn(optional(integer(0..7)))] pub f3: Option<u8>,
    #[asn(optional(integer(0..7)))] pub f4: Option<u8>,
}

impl Ts5omomoe0 {
    pub const fn f0_min() -> u8 {
        0
    }

    pub const fn f0_max() -> u8 {
        7
    }

    pub const fn f1_min() -> u8 {
        0
    }

    pub const fn f1_max() -> u8 {
        7
    }

    pub const fn f2_min() -> u8 {
        0
    }

    pub const fn f2_max() -> u8 {
        7
    }

    pub const fn f3_min() -> u8 {
        0
    }

    pub const fn f3_max() -> u8 {
        7
    }

    pub const fn f4_min() -> u8 {
        0
    }

    pub const fn f4_max() -> u8 {
        7
    }
}

#[asn(sequence, extensible_after(f0))]

#[derive(Default, Debug, Clone, PartialEq, Hash)]
pub struct Ts5omomoe1 {
    #[asn(optional(integer(0..7)))] pub f0: Option<u8>,
    #[asn(optional(integer(0..7)))] pub f1: Option<u8>,
    #[asn(optional(integer(0..7)))] pub f2: Option<u8>,
    #[asn(optional(integer(0..7)))] pub f3: Option<u8>,
    #[asn(optional(integer(0..7)))] pub f4: Option<u8>,
}

impl Ts5omomoe1 {
    pub const fn f0_min() -> u8 {
        0
    }

    pub const fn f0_max() -> u8 {
        7
    }

    pub const fn f1_min() -> u8 {
        0
    }

    pub const fn f1_max() -> u8 {
        7
    }

    pub const fn f2_min() -> u8 {
        0
    }

    pub const fn f2_max() -> u8 {
        7
    }

    pub const fn f3_min() -> u8 {
        0
    }

    pub const fn f3_max() -> u8 {
        7
    }

    pub const fn f4_min() -> u8 {
        0
    }

    pub const fn f4_max() -> u8 {
        7
    }
}

#[asn(sequence, extensible_after(f1))]

#[derive(Default, Debug, Clone, PartialEq, Hash)]
pub struct Ts5omomoe2 {
    #[asn(optional(integer(0..7)))] pub f0: Option<u8>,
    #[asn(integer(0..7))] pub f1: u8,
    #[asn(optional(integer(0..7)))] pub f2: Option<u8>,
    #[asn(optional(integer(0..7)))] pub f3: Option<u8>,
    #[asn(optional(integer(0..7)))] pub f4: Option<u8>,
}

impl Ts5omomoe2 {
    pub const fn f0_min() -> u8 {
        0
    }

    pub const fn f0_max() -> u8 {
        7
    }

    pub const fn f1_min() -> u8 {
        0
    }

    pub const fn f1_max() -> u8 {
        7
    }

    pub const fn f2_min() -> u8 {
        0
    }

    pub const fn f2_max() -> u8 {
        7
    }

    pub const fn f3_min() -> u8 {
        0
    }

    pub const fn f3_max() -> u8 {
        7
    }

    pub const fn f4_min() -> u8 {
        0
    }

    pub const fn f4_max() -> u8 {
        7
    }
}

#[asn(sequence, extensible_after(f2))]

#[derive(Default, Debug, Clone, PartialEq, Hash)]
pub struct Ts5omomoe3 {
    #[asn(optional(integer(0..7)))] pub f0: Option<u8>,
    #[asn(integer(0..7))] pub f1: u8,
    #[asn(optional(integer(0..7)))] pub f2: Option<u8>,
    #[asn(optional(integer(0..7)))] pub f3: Option<u8>,
    #[asn(optional(integer(0..7)))] pub f4: Option<u8>,
}

impl Ts5omomoe3 {
    pub const fn f0_min() -> u8 {
        0
    }

    pub const fn f0_max() -> u8 {
        7
    }

    pub const fn f1_min() -> u8 {
        0
    }

    pub const fn f1_max() -> u8 {
        7
    }

    pub const fn f2_min() -> u8 {
        0
    }

    pub const fn f2_max() -> u8 {
        7
    }

    pub const fn f3_min() -> u8 {
        0
    }

    pub const fn f3_max() -> u8 {
        7
    }

    pub const fn f4_min() -> u8 {
        0
    }

    pub const fn f4_max() -> u8 {
        7
    }
}

#[asn(sequence, extensible_after(f3))]

#[derive(Default, Debug, Clone, PartialEq, Hash)]
pub struct Ts5omomoe4 {
    #[asn(optional(integer(0..7)))] pub f0: Option<u8>,
    #[asn(integer(0..7))] pub f1: u8,
    #[asn(optional(integer(0..7)))] pub f2: Option<u8>,
    #[asn(integer(0..7))] pub f3: u8,
    #[asn(optional(integer(0..7)))] pub f4: Option<u8>,
}

impl Ts5omomoe4 {
    pub const fn f0_min() -> u8 {
        0
    }

    pub const fn f0_max() -> u8 {
        7
    }

    pub const fn f1_min() -> u8 {
        0
    }

    pub const fn f1_max() -> u8 {
        7
    }

    pub const fn f2_min() -> u8 {
        0
    }

    pub const fn f2_max() -> u8 {
        7
    }

    pub const fn f3_min() -> u8 {
        0
    }

    pub const fn f3_max() -> u8 {
        7
    }

    pub const fn f4_min() -> u8 {
        0
    }

    pub const fn f4_max() -> u8 {
        7
    }
}

#[asn(sequence, extensible_after(f4))]

#[derive(Default, Debug, Clone, PartialEq, Hash)]
pub struct Ts5omomoe5 {
    #[asn(optional(integer(0..7)))] pub f0: Option<u8>,
    #[asn(integer(0..7))] pub f1: u8,
    #[asn(optional(integer(0..7)))] pub f2: Option<u8>,
    #[asn(integer(0..7))] pub f3: u8,
    #[asn(optional(integer(0..7)))] pub f4: Option<u8>,
}

impl Ts5omomoe5 {
    pub const fn f0_min() -> u8 {
        0
    }

    pub const fn f0_max() -> u8 {
        7
    }

    pub const fn f1_min() -> u8 {
        0
    }

    pub const fn f1_max() -> u8 {
        7
    }

    pub const fn f2_min() -> u8 {
        0
    }

    pub const fn f2_max() -> u8 {
        7
    }

    pub const fn f3_min() -> u8 {
        0
    }

    pub const fn f3_max() -> u8 {
        7
    }

    pub const fn f4_min() -> u8 {
        0
    }

    pub const fn f4_max() -> u8 {
        7
    }
}

#[asn(sequence)]

#[derive(Default, Debug, Clone, PartialEq, Hash)]
pub struct Ts5dmomon {
    #[asn(default(integer(0..7), 5))] pub f0: u8,
    #[asn(integer(0..7))] pub f1: u8,
    #[asn(optional(integer(0..7)))] pub f2: Option<u8>,
    #[asn(integer(0..7))] pub f3: u8,
    #[asn(optional(integer(0..7)))] pub f4: Option<u8>,
}

impl Ts5dmomon {
    pub const fn f0_min() -> u8 {
        0
    }

    pub const fn f0_max() -> u8 {
        7
    }

    pub const fn f1_min() -> u8 {
        0
    }

    pub const fn f1_max() -> u8 {
        7
    }

    pub const fn f2_min() -> u8 {
        0
    }

    pub const fn f2_max() -> u8 {
        7
    }

    pub const fn f3_min() -> u8 {
        0
    }

    pub const fn f3_max() -> u8 {
        7
    }

    pub const fn f4_min() -> u8 {
        0
    }

    pub const fn f4_max() -> u8 {
        7
    }
}

#[asn(sequence, extensible_after(f0))]

#[derive(Default, Debug, Clone, PartialEq, Hash)]
pub struct Ts5dmomoe0 {
    #[asn(default(integer(0..7), 5))] pub f0: u8,
    #[asn(optional(integer(0..7)))] pub f1: Option<u8>,
    #[asn(optional(integer(0..7)))] pub f2: Option<u8>,
    #[asn(optional(integer(0..7)))] pub f3: Option<u8>,
    #[asn(optional(integer(0..7)))] pub f4: Option<u8>,
}

impl Ts5dmomoe0 {
    pub const fn f0_min() -> u8 {
        0
    }

    pub const fn f0_max() -> u8 {
        7
    }

    pub const fn f1_min() -> u8 {
        0
    }

    pub const fn f1_max() -> u8 {
        7
    }

    pub const fn f2_min() -> u8 {
        0
    }

    pub const fn f2_max() -> u8 {
        7
    }

    pub const fn f3_min() -> u8 {
        0
    }

    pub const fn f3_max() -> u8 {
        7
    }

    pub const fn f4_min() -> u8 {
        0
    }

    pub const fn f4_max() -> u8 {
        7
    }
}

#[asn(sequence, extensible_after(f0))]

#[derive(Default, Debug, Clone, PartialEq, Hash)]
pub struct Ts5dmomoe1 {
    #[asn(default(integer(0..7), 5))] pub f0: u8,
    #[asn(optional(integer(0..7)))] pub f1: Option<u8>,
    #[asn(optional(integer(0..7)))] pub f2: Option<u8>,
    #[asn(optional(integer(0..7)))] pub f3: Option<u8>,
    #[asn(optional(integer(0..7)))] pub f4: Option<u8>,
}

impl Ts5dmomoe1 {
    pub const fn f0_min() -> u8 {
        0
    }

    pub const fn f0_max() -> u8 {
        7
    }

    pub const fn f1_min() -> u8 {
        0
    }

    pub const fn f1_max() -> u8 {
        7
    }

    pub const fn f2_min() -> u8 {
        0
    }

    pub const fn f2_max() -> u8 {
        7
    }

    pub const fn f3_min() -> u8 {
        0
    }

    pub const fn f3_max() -> u8 {
        7
    }

    pub const fn f4_min() -> u8 {
        0
    }

    pub const fn f4_max() -> u8 {
        7
    }
}

#[asn(sequence, extensible_after(f1))]

#[derive(Default, Debug, Clone, PartialEq, Hash)]
pub struct Ts5dmomoe2 {
    #[asn(default(integer(0..7), 5))] pub f0: u8,
    #[asn(integer(0..7))] pub f1: u8,
    #[asn(optional(integer(0..7)))] pub f2: Option<u8>,
    #[asn(optional(integer(0..7)))] pub f3: Option<u8>,
    #[asn(optional(integer(0..7)))] pub f4: Option<u8>,
}

impl Ts5dmomoe2 {
    pub const fn f0_min() -> u8 {
        0
    }

    pub const fn f0_max() -> u8 {
        7
    }

    pub const fn f1_min() -> u8 {
        0
    }

    pub const fn f1_max() -> u8 {
        7
    }

    pub const fn f2_min() -> u8 {
        0
    }

    pub const fn f2_max() -> u8 {
        7
    }

    pub const fn f3_min() -> u8 {
        0
    }

    pub const fn f3_max() -> u8 {
        7
    }

    pub const fn f4_min() -> u8 {
        0
    }

    pub const fn f4_max() -> u8 {
        7
    }
}

#[asn(sequence, extensible_after(f2))]

#[derive(Default, Debug, Clone, PartialEq, Hash)]
pub struct Ts5dmomoe3 {
    #[asn(default(integer(0..7), 5))] pub f0: u8,
    #[asn(integer(0..7))] pub f1: u8,
    #[asn(optional(integer(0..7)))] pub f2: Option<u8>,
    #[asn(optional(integer(0..7)))] pub f3: Option<u8>,
    #[asn(optional(integer(0..7)))] pub f4: Option<u8>,
}

impl Ts5dmomoe3 {
    pub const fn f0_min() -> u8 {
        0
    }

    pub const fn f0_max() -> u8 {
        7
    }

    pub const fn f1_min() -> u8 {
        0
    }

    pub const fn f1_max() -> u8 {
        7
    }

    pub const fn f2_min() -> u8 {
        0
    }

    pub const fn f2_max() -> u8 {
        7
    }

    pub const fn f3_min() -> u8 {
        0
    }

    pub const fn f3_max() -> u8 {
        7
    }

    pub const fn f4_min() -> u8 {
        0
    }

    pub const fn f4_max() -> u8 {
        7
    }
}

#[asn(sequence, extensible_after(f3))]

#[derive(Default, Debug, Clone, PartialEq, Hash)]
pub struct Ts5dmomoe4 {
    #[asn(default(integer(0..7), 5))] pub f0: u8,
    #[asn(integer(0..7))] pub f1: u8,
    #[asn(optional(integer(0..7)))] pub f2: Option<u8>,
    #[asn(integer(0..7))] pub f3: u8,
    #[asn(optional(integer(0..7)))] pub f4: Option<u8>,
}

impl Ts5dmomoe4 {
    pub const fn f0_min() -> u8 {
        0
    }

    pub const fn f0_max() -> u8 {
        7
    }

    pub const fn f1_min() -> u8 {
        0
    }

    pub const fn f1_max() -> u8 {
        7
    }

    pub const fn f2_min() -> u8 {
        0
    }

    pub const fn f2_max() -> u8 {
        7
    }

    pub const fn f3_min() -> u8 {
        0
    }

    pub const fn f3_max() -> u8 {
        7
    }

    pub const fn f4_min() -> u8 {
        0
    }

    pub const fn f4_max() -> u8 {
        7
    }
}

#[asn(sequence, extensible_after(f4))]

#[derive(Default, Debug, Clone, PartialEq, Hash)]
pub struct Ts5dmomoe5 {
    #[asn(default(integer(0..7), 5))] pub f0: u8,
    #[asn(integer(0..7))] pub f1: u8,
    #[asn(optional(integer(0..7)))] pub f2: Option<u8>,
    #[asn(integer(0..7))] pub f3: u8,
    #[asn(optional(integer(0..7)))] pub f4: Option<u8>,
}

impl Ts5dmomoe5 {
    pub const fn f0_min() -> u8 {
        0
    }

    pub const fn f0_max() -> u8 {
        7
    }

    pub const fn f1_min() -> u8 {
        0
    }

    pub const fn f1_max() -> u8 {
        7
    }

    pub const fn f2_min() -> u8 {
        0
    }

    pub const fn f2_max() -> u8 {
        7
    }

    pub const fn f3_min() -> u8 {
        0
    }

    pub const fn f3_max() -> u8 {
        7
    }

    pub const fn f4_min() -> u8 {
        0
    }

    pub const fn f4_max() -> u8 {
        7
    }
}

#[asn(sequence)]

#[derive(Default, Debug, Clone, PartialEq, Hash)]
pub struct Ts5moomon {
    #[asn(integer(0..7))] pub f0: u8,
    #[asn(optional(integer(0..7)))] pub f1: Option<u8>,
    #[asn(optional(integer(0..7)))] pub f2: Option<u8>,
    #[asn(integer(0..7))] pub f3: u8,
    #[asn(optional(integer(0..7)))] pub f4: Option<u8>,
}

impl Ts5moomon {
    pub const fn f0_min() -> u8 {
        0
    }

    pub const fn f0_max() -> u8 {
        7
    }

    pub const fn f1_min() -> u8 {
        0
    }

    pub const fn f1_max() -> u8 {
        7
    }

    pub const fn f2_min() -> u8 {
        0
    }

    pub const fn f2_max() -> u8 {
        7
    }

    pub const fn f3_min() -> u8 {
        0
    }

    pub const fn f3_max() -> u8 {
        7
    }

    pub const fn f4_min() -> u8 {
        0
    }

    pub const fn f4_max() -> u8 {
        7
    }
}

#[asn(sequence, extensible_after(f0))]

#[derive(Default, Debug, Clone, PartialEq, Hash)]
pub struct Ts5moomoe0 {
    #[asn(integer(0..7))] pub f0: u8,
    #[asn(optional(integer(0..7)))] pub f1: Option<u8>,
    #[asn(optional(integer(0..7)))] pub f2: Option<u8>,
    #[asn(optional(integer(0..7)))] pub f3: Option<u8>,
    #[asn(optional(integer(0..7)))] pub f4: Option<u8>,
}

impl Ts5moomoe0 {
    pub const fn f0_min() -> u8 {
        0
    }

    pub const fn f0_max() -> u8 {
        7
    }

    pub const fn f1_min() -> u8 {
        0
    }

    pub const fn f1_max() -> u8 {
        7
    }

    pub const fn f2_min() -> u8 {
        0
    }

    pub const fn f2_max() -> u8 {
        7
    }

    pub const fn f3_min() -> u8 {
        0
    }

    pub const fn f3_max() -> u8 {
        7
    }

    pub const fn f4_min() -> u8 {
        0
    }

    pub const fn f4_max() -> u8 {
        7
    }
}

#[asn(sequence, extensible_after(f0))]

#[derive(Default, Debug, Clone, PartialEq, Hash)]
pub struct Ts5moomoe1 {
    #[asn(integer(0..7))] pub f0: u8,
    #[asn(optional(integer(0..7)))] pub f1: Option<u8>,
    #[asn(optional(integer(0..7)))] pub f2: Option<u8>,
    #[asn(optional(integer(0..7)))] pub f3: Option<u8>,
    #[asn(optional(integer(0..7)))] pub f4: Option<u8>,
}

impl Ts5moomoe1 {
    pub const fn f0_min() -> u8 {
        0
    }

    pub const fn f0_max() -> u8 {
        7
    }

    pub const fn f1_min() -> u8 {
        0
    }

    pub const fn f1_max() -> u8 {
        7
    }

    pub const fn f2_min() -> u8 {
        0
    }

    pub const fn f2_max() -> u8 {
        7
    }

    pub const fn f3_min() -> u8 {
        0
    }

    pub const fn f3_max() -> u8 {
        7
    }

    pub const fn f4_min() -> u8 {
        0
    }

    pub const fn f4_max() -> u8 {
        7
    }
}

#[asn(sequence, extensible_after(f1))]

#[derive(Default, Debug, Clone, PartialEq, Hash)]
pub struct Ts5moomoe2 {
    #[asn(integer(0..7))] pub f0: u8,
    #[asn(optional(integer(0..7)))] pub f1: Option<u8>,
    #[asn(optional(integer(0..7)))] pub f2: Option<u8>,
    #[asn(optional(integer(0..7)))] pub f3: Option<u8>,
    #[asn(optional(integer(0..7)))] pub f4: Option<u8>,
}

impl Ts5moomoe2 {
    pub const fn f0_min() -> u8 {
        0
    }

    pub const fn f0_max() -> u8 {
        7
    }

    pub const fn f1_min() -> u8 {
        0
    }

    pub const fn f1_max() -> u8 {
        7
    }

    pub const fn f2_min() -> u8 {
        0
    }

    pub const fn f2_max() -> u8 {
        7
    }

    pub const fn f3_min() -> u8 {
        0
    }

    pub const fn f3_max() -> u8 {
        7
    }

    pub const fn f4_min() -> u8 {
        0
    }

    pub const fn f4_max() -> u8 {
        7
    }
}

#[asn(sequence, extensible_after(f2))]

#[derive(Default, Debug, Clone, PartialEq, Hash)]
pub struct Ts5moomoe3 {
    #[asn(integer(0..7))] pub f0: u8,
    #[asn(optional(integer(0..7)))] pub f1: Option<u8>,
    #[asn(optional(integer(0..7)))] pub f2: Option<u8>,
    #[asn(optional(integer(0..7)))] pub f3: Option<u8>,
    #[asn(optional(integer(0..7)))] pub f4: Option<u8>,
}

impl Ts5moomoe3 {
    pub const fn f0_min() -> u8 {
        0
    }

    pub const fn f0_max() -> u8 {
        7
    }

    pub const fn f1_min() -> u8 {
        0
    }

    pub const fn f1_max() -> u8 {
        7
    }

    pub const fn f2_min() -> u8 {
        0
    }

    pub const fn f2_max() -> u8 {
        7
    }

    pub const fn f3_min() -> u8 {
        0
    }

    pub const fn f3_max() -> u8 {
        7
    }

    pub const fn f4_min() -> u8 {
        0
    }

    pub const fn f4_max() -> u8 {
        7
    }
}

#[asn(sequence, extensible_after(f3))]

#[derive(Default, Debug, Clone, PartialEq, Hash)]
pub struct Ts5moomoe4 {
    #[asn(integer(0..7))] pub f0: u8,
    #[asn(optional(integer(0..7)))] pub f1: Option<u8>,
    #[asn(optional(integer(0..7)))] pub f2: Option<u8>,
    #[asn(integer(0..7))] pub f3: u8,
    #[asn(optional(integer(0..7)))] pub f4: Option<u8>,
}

impl Ts5moomoe4 {
    pub const fn f0_min() -> u8 {
        0
    }

    pub const fn f0_max() -> u8 {
        7
    }

    pub const fn f1_min() -> u8 {
        0
    }

    pub const fn f1_max() -> u8 {
        7
    }

    pub const fn f2_min() -> u8 {
        0
    }

    pub const fn f2_max() -> u8 {
        7
    }

    pub const fn f3_min() -> u8 {
        0
    }

    pub const fn f3_max() -> u8 {
        7
    }

    pub const fn f4_min() -> u8 {
        0
    }

    pub const fn f4_max() -> u8 {
        7
    }
}

#[asn(sequence, extensible_after(f4))]

#[derive(Default, Debug, Clone, PartialEq, Hash)]
pub struct Ts5moomoe5 {
    #[asn(integer(0..7))] pub f0: u8,
    #[asn(optional(integer(0..7)))] pub f1: Option<u8>,
    #[asn(optional(integer(0..7)))] pub f2: Option<u8>,
    #[asn(integer(0..7))] pub f3: u8,
    #[asn(optional(integer(0..7)))] pub f4: Option<u8>,
}

impl Ts5moomoe5 {
    pub const fn f0_min() -> u8 {
        0
    }

    pub const fn f0_max() -> u8 {
        7
    }

    pub const fn f1_min() -> u8 {
        0
    }

    pub const fn f1_max() -> u8 {
        7
    }

    pub const fn f2_min() -> u8 {
        0
    }

    pub const fn f2_max() -> u8 {
        7
    }

    pub const fn f3_min() -> u8 {
        0
    }

    pub const fn f3_max() -> u8 {
        7
    }

    pub const fn f4_min() -> u8 {
        0
    }

    pub const fn f4_max() -> u8 {
        7
    }
}

#[asn(sequence)]

#[derive(Default, Debug, Clone, PartialEq, Hash)]
pub struct Ts5ooomon {
    #[asn(optional(integer(0..7)))] pub f0: Option<u8>,
    #[asn(optional(integer(0..7)))] pub f1: Option<u8>,
    #[asn(optional(integer(0..7)))] pub f2: Option<u8>,
    #[asn(integer(0..7))] pub f3: u8,
    #[asn(optional(integer(0..7)))] pub f4: Option<u8>,
}

impl Ts5ooomon {
    pub const fn f0_min() -> u8 {
        0
    }

    pub const fn f0_max() -> u8 {
        7
    }

    pub const fn f1_min() -> u8 {
        0
    }

    pub const fn f1_max() -> u8 {
        7
    }

    pub const fn f2_min() -> u8 {
        0
    }

    pub const fn f2_max() -> u8 {
        7
    }

    pub const fn f3_min() -> u8 {
        0
    }

    pub const fn f3_max() -> u8 {
        7
    }

    pub const fn f4_min() -> u8 {
        0
    }

    pub const fn f4_max() -> u8 {
        7
    }
}

#[asn(sequence, extensible_after(f0))]

#[derive(Default, Debug, Clone, PartialEq, Hash)]
pub struct Ts5ooomoe0 {
    #[asn(optional(integer(0..7)))] pub f0: Option<u8>,
    #[asn(optional(integer(0..7)))] pub f1: Option<u8>,
    #[asn(optional(integer(0..7)))] pub f2: Option<u8>,
    #[asn(optional(integer(0..7)))] pub f3: Option<u8>,
    #[asn(optional(integer(0..7)))] pub f4: Option<u8>,
}

impl Ts5ooomoe0 {
    pub const fn f0_min() -> u8 {
        0
    }

    pub const fn f0_max() -> u8 {
        7
    }

    pub const fn f1_min() -> u8 {
        0
    }

    pub const fn f1_max() -> u8 {
        7
    }

    pub const fn f2_min() -> u8 {
        0
    }

    pub const fn f2_max() -> u8 {
        7
    }

    pub const fn f3_min() -> u8 {
        0
    }

    pub const fn f3_max() -> u8 {
        7
    }

    pub const fn f4_min() -> u8 {
        0
    }

    pub const fn f4_max() -> u8 {
        7
    }
}

#[asn(sequence, extensible_after(f0))]

#[derive(Default, Debug, Clone, PartialEq, Hash)]
pub struct Ts5ooomoe1 {
    #[asn(optional(integer(0..7)))] pub f0: Option<u8>,
    #[asn(optional(integer(0..7)))] pub f1: Option<u8>,
    #[asn(optional(integer(0..7)))] pub f2: Option<u8>,
    #[asn(optional(integer(0..7)))] pub f3: Option<u8>,
    #[asn(optional(integer(0..7)))] pub f4: Option<u8>,
}

impl Ts5ooomoe1 {
    pub const fn f0_min() -> u8 {
        0
    }

    pub const fn f0_max() -> u8 {
        7
    }

    pub const fn f1_min() -> u8 {
        0
    }

    pub const fn f1_max() -> u8 {
        7
    }

    pub const fn f2_min() -> u8 {
        0
    }

    pub const fn f2_max() -> u8 {
        7
    }

    pub const fn f3_min() -> u8 {
        0
    }

    pub const fn f3_max() -> u8 {
        7
    }

    pub const fn f4_min() -> u8 {
        0
    }

    pub const fn f4_max() -> u8 {
        7
    }
}

#[asn(sequence, extensible_after(f1))]

#[derive(Default, Debug, Clone, PartialEq, Hash)]
pub struct Ts5ooomoe2 {
    #[asn(optional(integer(0..7)))] pub f0: Option<u8>,
    #[asn(optional(integer(0..7)))] pub f1: Option<u8>,
    #[asn(optional(integer(0..7)))] pub f2: Option<u8>,
    #[asn(optional(integer(0..7)))] pub f3: Option<u8>,
    #[asn(optional(integer(0..7)))] pub f4: Option<u8>,
}

impl Ts5ooomoe2 {
    pub const fn f0_min() -> u8 {
        0
    }

    pub const fn f0_max() -> u8 {
        7
    }

    pub const fn f1_min() -> u8 {
        0
    }

    pub const fn f1_max() -> u8 {
        7
    }

    pub const fn f2_min() -> u8 {
        0
    }

    pub const fn f2_max() -> u8 {
        7
    }

    pub const fn f3_min() -> u8 {
        0
    }

    pub const fn f3_max() -> u8 {
        7
    }

    pub const fn f4_min() -> u8 {
        0
    }

    pub const fn f4_max() -> u8 {
        7
    }
}

#[asn(sequence, extensible_after(f2))]

#[derive(Default, Debug, Clone, PartialEq, Hash)]
pub struct Ts5ooomoe3 {
    #[asn(optional(integer(0..7)))] pub f0: Option<u8>,
    #[asn(optional(integer(0..7)))] pub f1: Option<u8>,
    #[asn(optional(integer(0..7)))] pub f2: Option<u8>,
    #[asn(optional(integer(0..7)))] pub f3: Option<u8>,
    #[asn(optional(integer(0..7)))] pub f4: Option<u8>,
}

impl Ts5ooomoe3 {
    pub const fn f0_min() -> u8 {
        0
    }

    pub const fn f0_max() -> u8 {
        7
    }

    pub const fn f1_min() -> u8 {
        0
    }

    pub const fn f1_max() -> u8 {
        7
    }

    pub const fn f2_min() -> u8 {
        0
    }

    pub const fn f2_max() -> u8 {
        7
    }

    pub const fn f3_min() -> u8 {
        0
    }

    pub const fn f3_max() -> u8 {
        7
    }

    pub const fn f4_min() -> u8 {
        0
    }

    pub const fn f4_max() -> u8 {
        7
    }
}

#[asn(sequence, extensible_after(f3))]

#[derive(Default, Debug, Clone, PartialEq, Hash)]
pub struct Ts5ooomoe4 {
    #[asn(optional(integer(0..7)))] pub f0: Option<u8>,
    #[asn(optional(integer(0..7)))] pub f1: Option<u8>,
    #[asn(optional(integer(0..7)))] pub f2: Option<u8>,
    #[asn(integer(0..7))] pub f3: u8,
    #[asn(optional(integer(0..7)))] pub f4: Option<u8>,
}

impl Ts5ooomoe4 {
    pub const fn f0_min() -> u8 {
        0
    }

    pub const fn f0_max() -> u8 {
        7
    }

    pub const fn f1_min() -> u8 {
        0
    }

    pub const fn f1_max() -> u8 {
        7
    }

    pub const fn f2_min() -> u8 {
        0
    }

    pub const fn f2_max() -> u8 {
        7
    }

    pub const fn f3_min() -> u8 {
        0
    }

    pub const fn f3_max() -> u8 {
        7
    }

    pub const fn f4_min() -> u8 {
        0
    }

    pub const fn f4_max() -> u8 {
        7
    }
}

#[asn(sequence, extensible_after(f4))]

#[derive(Default, Debug, Clone, PartialEq, Hash)]
pub struct Ts5ooomoe5 {
    #[asn(optional(integer(0..7)))] pub f0: Option<u8>,
    #[asn(optional(integer(0..7)))] pub f1: Option<u8>,
    #[asn(optional(integer(0..7)))] pub f2: Option<u8>,
    #[asn(integer(0..7))] pub f3: u8,
    #[asn(optional(integer(0..7)))] pub f4: Option<u8>,
}

impl Ts5ooomoe5 {
    pub const fn f0_min() -> u8 {
        0
    }

    pub const fn f0_max() -> u8 {
        7
    }

    pub const fn f1_min() -> u8 {
        0
    }

    pub const fn f1_max() -> u8 {
        7
    }

    pub const fn f2_min() -> u8 {
        0
    }

    pub const fn f2_max() -> u8 {
        7
    }

    pub const fn f3_min() -> u8 {
        0
    }

    pub const fn f3_max() -> u8 {
        7
    }

    pub const fn f4_min() -> u8 {
        0
    }

    pub const fn f4_max() -> u8 {
        7
    }
}

#[asn(sequence)]

#[derive(Default, Debug, Clone, PartialEq, Hash)]
pub struct Ts5doomon {
    #[asn(default(integer(0..7), 5))] pub f0: u8,
    #[asn(optional(integer(0..7)))] pub f1: Option<u8>,
    #[asn(optional(integer(0..7)))] pub f2: Option<u8>,
    #[asn(integer(0..7))] pub f3: u8,
    #[asn(optional(integer(0..7)))] pub f4: Option<u8>,
}

impl Ts5doomon {
    pub const fn f0_min() -> u8 {
        0
    }

    pub const fn f0_max() -> u8 {
        7
    }

    pub const fn f1_min() -> u8 {
        0
    }

    pub const fn f1_max() -> u8 {
        7
    }

    pub const fn f2_min() -> u8 {
        0
    }

    pub const fn f2_max() -> u8 {
        7
    }

    pub const fn f3_min() -> u8 {
        0
    }

    pub const fn f3_max() -> u8 {
        7
    }

    pub const fn f4_min() -> u8 {
        0
    }

    pub const fn f4_max() -> u8 {
        7
    }
}

#[asn(sequence, extensible_after(f0))]

#[derive(Default, Debug, Clone, PartialEq, Hash)]
pub struct Ts5doomoe0 {
    #[asn(default(integer(0..7), 5))] pub f0: u8,
    #[asn(optional(integer(0..7)))] pub f1: Option<u8>,
    #[asn(optional(integer(0..7)))] pub f2: Option<u8>,
    #[asn(optional(integer(0..7)))] pub f3: Option<u8>,
    #[asn(optional(integer(0..7)))] pub f4: Option<u8>,
}

impl Ts5doomoe0 {
    pub const fn f0_min() -> u8 {
        0
    }

    pub const fn f0_max() -> u8 {
        7
    }

    pub const fn f1_min() -> u8 {
        0
    }

    pub const fn f1_max() -> u8 {
        7
    }

    pub const fn f2_min() -> u8 {
        0
    }

    pub const fn f2_max() -> u8 {
        7
    }

    pub const fn f3_min() -> u8 {
        0
    }

    pub const fn f3_max() -> u8 {
        7
    }

    pub const fn f4_min() -> u8 {
        0
    }

    pub const fn f4_max() -> u8 {
        7
    }
}

#[asn(sequence, extensible_after(f0))]

#[derive(Default, Debug, Clone, PartialEq, Hash)]
pub struct Ts5doomoe1 {
    #[asn(default(integer(0..7), 5))] pub f0: u8,
    #[asn(optional(integer(0..7)))] pub f1: Option<u8>,
    #[asn(optional(integer(0..7)))] pub f2: Option<u8>,
    #[asn(optional(integer(0..7)))] pub f3: Option<u8>,
    #[asn(optional(integer(0..7)))] pub f4: Option<u8>,
}

impl Ts5doomoe1 {
    pub const fn f0_min() -> u8 {
        0
    }

    pub const fn f0_max() -> u8 {
        7
    }

    pub const fn f1_min() -> u8 {
        0
    }

    pub const fn f1_max() -> u8 {
        7
    }

    pub const fn f2_min() -> u8 {
        0
    }

    pub const fn f2_max() -> u8 {
        7
    }

    pub const fn f3_min() -> u8 {
        0
    }

    pub const fn f3_max() -> u8 {
        7
    }

    pub const fn f4_min() -> u8 {
        0
    }

    pub const fn f4_max() -> u8 {
        7
    }
}

#[asn(sequence, extensible_after(f1))]

#[derive(Default, Debug, Clone, PartialEq, Hash)]
pub struct Ts5doomoe2 {
    #[asn(default(integer(0..7), 5))] pub f0: u8,
    #[asn(optional(integer(0..7)))] pub f1: Option<u8>,
    #[asn(optional(integer(0..7)))] pub f2: Option<u8>,
    #[asn(optional(integer(0..7)))] pub f3: Option<u8>,
    #[asn(optional(integer(0..7)))] pub f4: Option<u8>,
}

impl Ts5doomoe2 {
    pub const fn f0_min() -> u8 {
        0
    }

    pub const fn f0_max() -> u8 {
        7
    }

    pub const fn f1_min() -> u8 {
        0
    }

    pub const fn f1_max() -> u8 {
        7
    }

    pub const fn f2_min() -> u8 {
        0
    }

    pub const fn f2_max() -> u8 {
        7
    }

    pub const fn f3_min() -> u8 {
        0
    }

    pub const fn f3_max() -> u8 {
        7
    }

    pub const fn f4_min() -> u8 {
        0
    }

    pub const fn f4_max() -> u8 {
        7
    }
}

#[asn(sequence, extensible_after(f2))]

#[derive(Default, Debug, Clone, PartialEq, Hash)]
pub struct Ts5doomoe3 {
    #[asn(default(integer(0..7), 5))] pub f0: u8,
    #[asn(optional(integer(0..7)))] pub f1: Option<u8>,
    #[asn(optional(integer(0..7)))] pub f2: Option<u8>,
    #[asn(optional(integer(0..7)))] pub f3: Option<u8>,
    #[asn(optional(integer(0..7)))] pub f4: Option<u8>,
}

impl Ts5doomoe3 {
    pub const fn f0_min() -> u8 {
        0
    }

    pub const fn f0_max() -> u8 {
        7
    }

    pub const fn f1_min() -> u8 {
        0
    }

    pub const fn f1_max() -> u8 {
        7
    }

    pub const fn f2_min() -> u8 {
        0
    }

    pub const fn f2_max() -> u8 {
        7
    }

    pub const fn f3_min() -> u8 {
        0
    }

    pub const fn f3_max() -> u8 {
        7
    }

    pub const fn f4_min() -> u8 {
        0
    }

    pub const fn f4_max() -> u8 {
        7
    }
}

#[asn(sequence, extensible_after(f3))]

#[derive(Default, Debug, Clone, PartialEq, Hash)]
pub struct Ts5doomoe4 {
    #[asn(default(integer(0..7), 5))] pub f0: u8,
    #[asn(optional(integer(0..7)))] pub f1: Option<u8>,
    #[asn(optional(integer(0..7)))] pub f2: Option<u8>,
    #[asn(integer(0..7))] pub f3: u8,
    #[asn(optional(integer(0..7)))] pub f4: Option<u8>,
}

impl Ts5doomoe4 {
    pub const fn f0_min() -> u8 {
        0
    }

    pub const fn f0_max() -> u8 {
        7
    }

    pub const fn f1_min() -> u8 {
        0
    }

    pub const fn f1_max() -> u8 {
        7
    }

    pub const fn f2_min() -> u8 {
        0
    }

    pub const fn f2_max() -> u8 {
        7
    }

    pub const fn f3_min() -> u8 {
        0
    }

    pub const fn f3_max() -> u8 {
        7
    }

    pub const fn f4_min() -> u8 {
        0
    }

    pub const fn f4_max() -> u8 {
        7
    }
}

#[asn(sequence, extensible_after(f4))]

#[derive(Default, Debug, Clone, PartialEq, Hash)]
pub struct Ts5doomoe5 {
    #[asn(default(integer(0..7), 5))] pub f0: u8,
    #[asn(optional(integer(0..7)))] pub f1: Option<u8>,
    #[asn(optional(integer(0..7)))] pub f2: Option<u8>,
    #[asn(integer(0..7))] pub f3: u8,
    #[asn(optional(integer(0..7)))] pub f4: Option<u8>,
}

impl Ts5doomoe5 {
    pub const fn f0_min() -> u8 {
        0
    }

    pub const fn f0_max() -> u8 {
        7
    }

    pub const fn f1_min() -> u8 {
        0
    }

    pub const fn f1_max() -> u8 {
        7
    }

    pub const fn f2_min() -> u8 {
        0
    }

    pub const fn f2_max() -> u8 {
        7
    }

    pub const fn f3_min() -> u8 {
        0
    }

    pub const fn f3_max() -> u8 {
        7
    }

    pub const fn f4_min() -> u8 {
        0
    }

    pub const fn f4_max() -> u8 {
        7
    }
}

#[asn(sequence)]

#[derive(Default, Debug, Clone, PartialEq, Hash)]
pub struct Ts5mdomon {
    #[asn(integer(0..7))] pub f0: u8,
    #[asn(default(integer(0..7), 5))] pub f1: u8,
    #[asn(optional(integer(0..7)))] pub f2: Option<u8>,
    #[asn(integer(0..7))] pub f3: u8,
    #[asn(optional(integer(0..7)))] pub f4: Option<u8>,
}

impl Ts5mdomon {
    pub const fn f0_min() -> u8 {
        0
    }

    pub const fn f0_max() -> u8 {
        7
    }

    pub const fn f1_min() -> u8 {
        0
    }

    pub const fn f1_max() -> u8 {
        7
    }

    pub const fn f2_min() -> u8 {
        0
    }

    pub const fn f2_max() -> u8 {
        7
    }

    pub const fn f3_min() -> u8 {
        0
    }

    pub const fn f3_max() -> u8 {
        7
    }

    pub const fn f4_min() -> u8 {
        0
    }

    pub const fn f4_max() -> u8 {
        7
    }
}

#[asn(sequence, extensible_after(f0))]

#[derive(Default, Debug, Clone, PartialEq, Hash)]
pub struct Ts5mdomoe0 {
    #[asn(integer(0..7))] pub f0: u8,
    #[asn(default(integer(0..7), 5))] pub f1: u8,
    #[asn(optional(integer(0..7)))] pub f2: Option<u8>,
    #[asn(optional(integer(0..7)))] pub f3: Option<u8>,
    #[asn(optional(integer(0..7)))] pub f4: Option<u8>,
}

impl Ts5mdomoe0 {
    pub const fn f0_min() -> u8 {
        0
    }

    pub const fn f0_max() -> u8 {
        7
    }

    pub const fn f1_min() -> u8 {
        0
    }

    pub const fn f1_max() -> u8 {
        7
    }

    pub const fn f2_min() -> u8 {
        0
    }

    pub const fn f2_max() -> u8 {
        7
    }

    pub const fn f3_min() -> u8 {
        0
    }

    pub const fn f3_max() -> u8 {
        7
    }

    pub const fn f4_min() -> u8 {
        0
    }

    pub const fn f4_max() -> u8 {
        7
    }
}

#[asn(sequence, extensible_after(f0))]

#[derive(Default, Debug, Clone, PartialEq, Hash)]
pub struct Ts5mdomoe1 {
    #[asn(integer(0..7))] pub f0: u8,
    #[asn(default(integer(0..7), 5))] pub f1: u8,
    #[asn(optional(integer(0..7)))] pub f2: Option<u8>,
    #[asn(optional(integer(0..7)))] pub f3: Option<u8>,
    #[asn(optional(integer(0..7)))] pub f4: Option<u8>,
}

impl Ts5mdomoe1 {
    pub const fn f0_min() -> u8 {
        0
    }

    pub const fn f0_max() -> u8 {
        7
    }

    pub const fn f1_min() -> u8 {
        0
    }

    pub const fn f1_max() -> u8 {
        7
    }

    pub const fn f2_min() -> u8 {
        0
    }

    pub const fn f2_max() -> u8 {
        7
    }

    pub const fn f3_min() -> u8 {
        0
    }

    pub const fn f3_max() -> u8 {
        7
    }

    pub const fn f4_min() -> u8 {
        0
    }

    pub const fn f4_max() -> u8 {
        7
    }
}

#[asn(sequence, extensible_after(f1))]

#[derive(Default, Debug, Clone, PartialEq, Hash)]
pub struct Ts5mdomoe2 {
    #[asn(integer(0..7))] pub f0: u8,
    #[asn(default(integer(0..7), 5))] pub f1: u8,
    #[asn(optional(integer(0..7)))] pub f2: Option<u8>,
    #[asn(optional(integer(0..7)))] pub f3: Option<u8>,
    #[asn(optional(integer(0..7)))] pub f4: Option<u8>,
}

impl Ts5mdomoe2 {
    pub const fn f0_min() -> u8 {
        0
    }

    pub const fn f0_max() -> u8 {
        7
    }

    pub const fn f1_min() -> u8 {
        0
    }

    pub const fn f1_max() -> u8 {
        7
    }

    pub const fn f2_min() -> u8 {
        0
    }

    pub const fn f2_max() -> u8 {
        7
    }

    pub const fn f3_min() -> u8 {
        0
    }

    pub const fn f3_max() -> u8 {
        7
    }

    pub const fn f4_min() -> u8 {
        0
    }

    pub const fn f4_max() -> u8 {
        7
    }
}

#[asn(sequence, extensible_after(f2))]

#[derive(Default, Debug, Clone, PartialEq, Hash)]
pub struct Ts5mdomoe3 {
    #[asn(integer(0..7))] pub f0: u8,
    #[asn(default(integer(0..7), 5))] pub f1: u8,
    #[asn(optional(integer(0..7)))] pub f2: Option<u8>,
    #[asn(optional(integer(0..7)))] pub f3: Option<u8>,
    #[asn(optional(integer(0..7)))] pub f4: Option<u8>,
}

impl Ts5mdomoe3 {
    pub const fn f0_min() -> u8 {
        0
    }

    pub const fn f0_max() -> u8 {
        7
    }

    pub const fn f1_min() -> u8 {
        0
    }

    pub const fn f1_max() -> u8 {
        7
    }

    pub const fn f2_min() -> u8 {
        0
    }

    pub const fn f2_max() -> u8 {
        7
    }

    pub const fn f3_min() -> u8 {
        0
    }

    pub const fn f3_max() -> u8 {
        7
    }

    pub const fn f4_min() -> u8 {
        0
    }

    pub const fn f4_max() -> u8 {
        7
    }
}

#[asn(sequence, extensible_after(f3))]

#[derive(Default, Debug, Clone, PartialEq, Hash)]
pub struct Ts5mdomoe4 {
    #[asn(integer(0..7))] pub f0: u8,
    #[asn(default(integer(0..7), 5))] pub f1: u8,
    #[asn(optional(integer(0..7)))] pub f2: Option<u8>,
    #[asn(integer(0..7))] pub f3: u8,
    #[asn(optional(integer(0..7)))] pub f4: Option<u8>,
}

impl Ts5mdomoe4 {
    pub const fn f0_min() -> u8 {
        0
    }

    pub const fn f0_max() -> u8 {
        7
    }

    pub const fn f1_min() -> u8 {
        0
    }

    pub const fn f1_max() -> u8 {
        7
    }

    pub const fn f2_min() -> u8 {
        0
    }

    pub const fn f2_max() -> u8 {
        7
    }

    pub const fn f3_min() -> u8 {
        0
    }

    pub const fn f3_max() -> u8 {
        7
    }

    pub const fn f4_min() -> u8 {
        0
    }

    pub const fn f4_max() -> u8 {
        7
    }
}

#[asn(sequence, extensible_after(f4))]

#[derive(Default, Debug, Clone, PartialEq, Hash)]
pub struct Ts5mdomoe5 {
    #[asn(integer(0..7))] pub f0: u8,
    #[asn(default(integer(0..7), 5))] pub f1: u8,
    #[asn(optional(integer(0..7)))] pub f2: Option<u8>,
    #[asn(integer(0..7))] pub f3: u8,
    #[asn(optional(integer(0..7)))] pub f4: Option<u8>,
}

impl Ts5mdomoe5 {
    pub const fn f0_min() -> u8 {
        0
    }

    pub const fn f0_max() -> u8 {
        7
    }

    pub const fn f1_min() -> u8 {
        0
    }

    pub const fn f1_max() -> u8 {
        7
    }

    pub const fn f2_min() -> u8 {
        0
    }

    pub const fn f2_max() -> u8 {
        7
    }

    pub const fn f3_min() -> u8 {
        0
    }

    pub const fn f3_max() -> u8 {
        7
    }

    pub const fn f4_min() -> u8 {
        0
    }

    pub const fn f4_max() -> u8 {
        7
    }
}

#[asn(sequence)]

#[derive(Default, Debug, Clone, PartialEq, Hash)]
pub struct Ts5odomon {
    #[asn(optional(integer(0..7)))] pub f0: Option<u8>,
    #[asn(default(integer(0..7), 5))] pub f1: u8,
    #[asn(optional(integer(0..7)))] pub f2: Option<u8>,
    #[asn(integer(0..7))] pub f3: u8,
    #[asn(optional(integer(0..7)))] pub f4: Option<u8>,
}

impl Ts5odomon {
    pub const fn f0_min() -> u8 {
        0
    }

    pub const fn f0_max() -> u8 {
        7
    }

    pub const fn f1_min() -> u8 {
        0
    }

    pub const fn f1_max() -> u8 {
        7
    }

    pub const fn f2_min() -> u8 {
        0
    }

    pub const fn f2_max() -> u8 {
        7
    }

    pub const fn f3_min() -> u8 {
        0
    }

    pub const fn f3_max() -> u8 {
        7
    }

    pub const fn f4_min() -> u8 {
        0
    }

    pub const fn f4_max() -> u8 {
        7
    }
}

#[asn(sequence, extensible_after(f0))]

#[derive(Default, Debug, Clone, PartialEq, Hash)]
pub struct Ts5odomoe0 {
    #[asn(optional(integer(0..7)))] pub f0: Option<u8>,
    #[asn(default(integer(0..7), 5))] pub f1: u8,
    #[asn(optional(integer(0..7)))] pub f2: Option<u8>,
    #[asn(optional(integer(0..7)))] pub f3: Option<u8>,
    #[asn(optional(integer(0..7)))] pub f4: Option<u8>,
}

impl Ts5odomoe0 {
    pub const fn f0_min() -> u8 {
        0
    }

    pub const fn f0_max() -> u8 {
        7
    }

    pub const fn f1_min() -> u8 {
        0
    }

    pub const fn f1_max() -> u8 {
        7
    }

    pub const fn f2_min() -> u8 {
        0
    }

    pub const fn f2_max() -> u8 {
        7
    }

    pub const fn f3_min() -> u8 {
        0
    }

    pub const fn f3_max() -> u8 {
        7
    }

    pub const fn f4_min() -> u8 {
        0
    }

    pub const fn f4_max() -> u8 {
        7
    }
}

#[asn(sequence, extensible_after(f0))]

#[derive(Default, Debug, Clone, PartialEq, Hash)]
pub struct Ts5odomoe1 {
    #[asn(optional(integer(0..7)))] pub f0: Option<u8>,
    #[asn(default(integer(0..7), 5))] pub f1: u8,
    #[asn(optional(integer(0..7)))] pub f2: Option<u8>,
    #[asn(optional(integer(0..7)))] pub f3: Option<u8>,
    #[asn(optional(integer(0..7)))] pub f4: Option<u8>,
}

impl Ts5odomoe1 {
    pub const fn f0_min() -> u8 {
        0
    }

    pub const fn f0_max() -> u8 {
        7
    }

    pub const fn f1_min() -> u8 {
        0
    }

    pub const fn f1_max() -> u8 {
        7
    }

    pub const fn f2_min() -> u8 {
        0
    }

    pub const fn f2_max() -> u8 {
        7
    }

    pub const fn f3_min() -> u8 {
        0
    }

    pub const fn f3_max() -> u8 {
        7
    }

    pub const fn f4_min() -> u8 {
        0
    }

    pub const fn f4_max() -> u8 {
        7
    }
}

#[asn(sequence, extensible_after(f1))]

#[derive(Default, Debug, Clone, PartialEq, Hash)]
pub struct Ts5odomoe2 {
    #[asn(optional(integer(0..7)))] pub f0: Option<u8>,
    #[asn(default(integer(0..7), 5))] pub f1: u8,
    #[asn(optional(integer(0..7)))] pub f2: Option<u8>,
    #[asn(optional(integer(0..7)))] pub f3: Option<u8>,
    #[asn(optional(integer(0..7)))] pub f4: Option<u8>,
}

impl Ts5odomoe2 {
    pub const fn f0_min() -> u8 {
        0
    }

    pub const fn f0_max() -> u8 {
        7
    }

    pub const fn f1_min() -> u8 {
        0
    }

    pub const fn f1_max() -> u8 {
        7
    }

    pub const fn f2_min() -> u8 {
        0
    }

    pub const fn f2_max() -> u8 {
        7
    }

    pub const fn f3_min() -> u8 {
        0
    }

    pub const fn f3_max() -> u8 {
        7
    }

    pub const fn f4_min() -> u8 {
        0
    }

    pub const fn f4_max() -> u8 {
        7
    }
}

#[asn(sequence, extensible_after(f2))]

#[derive(Default, Debug, Clone, PartialEq, Hash)]
pub struct Ts5odomoe3 {
    #[asn(optional(integer(0..7)))] pub f0: Option<u8>,
    #[asn(default(integer(0..7), 5))] pub f1: u8,
    #[asn(optional(integer(0..7)))] pub f2: Option<u8>,
    #[asn(optional(integer(0..7)))] pub f3: Option<u8>,
    #[asn(optional(integer(0..7)))] pub f4: Option<u8>,
}

impl Ts5odomoe3 {
    pub const fn f0_min() -> u8 {
        0
    }

    pub const fn f0_max() -> u8 {
        7
    }

    pub const fn f1_min() -> u8 {
        0
    }

    pub const fn f1_max() -> u8 {
        7
    }

    pub const fn f2_min() -> u8 {
        0
    }

    pub const fn f2_max() -> u8 {
        7
    }

    pub const fn f3_min() -> u8 {
        0
    }

    pub const fn f3_max() -> u8 {
        7
    }

    pub const fn f4_min() -> u8 {
        0
    }

    pub const fn f4_max() -> u8 {
        7
    }
}

#[asn(sequence, extensible_after(f3))]

#[derive(Default, Debug, Clone, PartialEq, Hash)]
pub struct Ts5odomoe4 {
    #[asn(optional(integer(0..7)))] pub f0: Option<u8>,
    #[asn(default(integer(0..7), 5))] pub f1: u8,
    #[asn(optional(integer(0..7)))] pub f2: Option<u8>,
    #[asn(integer(0..7))] pub f3: u8,
    #[asn(optional(integer(0..7)))] pub f4: Option<u8>,
}

impl Ts5odomoe4 {
    pub const fn f0_min() -> u8 {
        0
    }

    pub const fn f0_max() -> u8 {
        7
    }

    pub const fn f1_min() -> u8 {
        0
    }

    pub const fn f1_max() -> u8 {
        7
    }

    pub const fn f2_min() -> u8 {
        0
    }

    pub const fn f2_max() -> u8 {
        7
    }

    pub const fn f3_min() -> u8 {
        0
    }

    pub const fn f3_max() -> u8 {
        7
    }

    pub const fn f4_min() -> u8 {
        0
    }

    pub const fn f4_max() -> u8 {
        7
    }
}

#[asn(sequence, extensible_after(f4))]

#[derive(Default, Debug, Clone, PartialEq, Hash)]
pub struct Ts5odomoe5 {
    #[asn(optional(integer(0..7)))] pub f0: Option<u8>,
    #[asn(default(integer(0..7), 5))] pub f1: u8,
    #[asn(optional(integer(0..7)))] pub f2: Option<u8>,
    #[asn(integer(0..7))] pub f3: u8,
    #[asn(optional(integer(0..7)))] pub f4: Option<u8>,
}

impl Ts5odomoe5 {
    pub const fn f0_min() -> u8 {
        0
    }

    pub const fn f0_max() -> u8 {
        7
    }

    pub const fn f1_min() -> u8 {
        0
    }

    pub const fn f1_max() -> u8 {
        7
    }

    pub const fn f2_min() -> u8 {
        0
    }

    pub const fn f2_max() -> u8 {
        7
    }

    pub const fn f3_min() -> u8 {
        0
    }

    pub const fn f3_max() -> u8 {
        7
    }

    pub const fn f4_min() -> u8 {
        0
    }

    pub const fn f4_max() -> u8 {
        7
    }
}

#[asn(sequence)]

#[derive(Default, Debug, Clone, PartialEq, Hash)]
pub struct Ts5ddomon {
    #[asn(default(integer(0..7), 5))] pub f0: u8,
    #[asn(default(integer(0..7), 5))] pub f1: u8,
    #[asn(optional(integer(0..7)))] pub f2: Option<u8>,
    #[asn(integer(0..7))] pub f3: u8,
    #[asn(optional(integer(0..7)))] pub f4: Option<u8>,
}

impl Ts5ddomon {
    pub const fn f0_min() -> u8 {
        0
    }

    pub const fn f0_max() -> u8 {
        7
    }

    pub const fn f1_min() -> u8 {
        0
    }

    pub const fn f1_max() -> u8 {
        7
    }

    pub const fn f2_min() -> u8 {
        0
    }

    pub const fn f2_max() -> u8 {
        7
    }

    pub const fn f3_min() -> u8 {
        0
    }

    pub const fn f3_max() -> u8 {
        7
    }

    pub const fn f4_min() -> u8 {
        0
    }

    pub const fn f4_max() -> u8 {
        7
    }
}

#[asn(sequence, extensible_after(f0))]

#[derive(Default, Debug, Clone, PartialEq, Hash)]
pub struct Ts5ddomoe0 {
    #[asn(default(integer(0..7), 5))] pub f0: u8,
    #[asn(default(integer(0..7), 5))] pub f1: u8,
    #[asn(optional(integer(0..7)))] pub f2: Option<u8>,
    #[asn(optional(integer(0..7)))] pub f3: Option<u8>,
    #[asn(optional(integer(0..7)))] pub f4: Option<u8>,
}

impl Ts5ddomoe0 {
    pub const fn f0_min() -> u8 {
        0
    }

    pub const fn f0_max() -> u8 {
        7
    }

    pub const fn f1_min() -> u8 {
        0
    }

    pub const fn f1_max() -> u8 {
        7
    }

    pub const fn f2_min() -> u8 {
        0
    }

    pub const fn f2_max() -> u8 {
        7
    }

    pub const fn f3_min() -> u8 {
        0
    }

    pub const fn f3_max() -> u8 {
        7
    }

    pub const fn f4_min() -> u8 {
        0
    }

    pub const fn f4_max() -> u8 {
        7
    }
}

#[asn(sequence, extensible_after(f0))]

#[derive(Default, Debug, Clone, PartialEq, Hash)]
pub struct Ts5ddomoe1 {
    #[asn(default(integer(0..7), 5))] pub f0: u8,
    #[asn(default(integer(0..7), 5))] pub f1: u8,
    #[asn(optional(integer(0..7)))] pub f2: Option<u8>,
    #[asn(optional(integer(0..7)))] pub f3: Option<u8>,
    #[asn(optional(integer(0..7)))] pub f4: Option<u8>,
}

impl Ts5ddomoe1 {
    pub const fn f0_min() -> u8 {
        0
    }

    pub const fn f0_max() -> u8 {
        7
    }

    pub const fn f1_min() -> u8 {
        0
    }

    pub const fn f1_max() -> u8 {
        7
    }

    pub const fn f2_min() -> u8 {
        0
    }

    pub const fn f2_max() -> u8 {
        7
    }

    pub const fn f3_min() -> u8 {
        0
    }

    pub const fn f3_max() -> u8 {
        7
    }

    pub const fn f4_min() -> u8 {
        0
    }

    pub const fn f4_max() -> u8 {
        7
    }
}

#[asn(sequence, extensible_after(f1))]

#[derive(Default, Debug, Clone, PartialEq, Hash)]
pub struct Ts5ddomoe2 {
    #[asn(default(integer(0..7), 5))] pub f0: u8,
    #[asn(default(integer(0..7), 5))] pub f1: u8,
    #[asn(optional(integer(0..7)))] pub f2: Option<u8>,
    #[asn(optional(integer(0..7)))] pub f3: Option<u8>,
    #[asn(optional(integer(0..7)))] pub f4: Option<u8>,
}

impl Ts5ddomoe2 {
    pub const fn f0_min() -> u8 {
        0
    }

    pub const fn f0_max() -> u8 {
        7
    }

    pub const fn f1_min() -> u8 {
        0
    }

    pub const fn f1_max() -> u8 {
        7
    }

    pub const fn f2_min() -> u8 {
        0
    }

    pub const fn f2_max() -> u8 {
        7
    }

    pub const fn f3_min() -> u8 {
        0
    }

    pub const fn f3_max() -> u8 {
        7
    }

    pub const fn f4_min() -> u8 {
        0
    }

    pub const fn f4_max() -> u8 {
        7
    }
}

#[asn(sequence, extensible_after(f2))]

#[derive(Default, Debug, Clone, PartialEq, Hash)]
pub struct Ts5ddomoe3 {
    #[asn(default(integer(0..7), 5))] pub f0: u8,
    #[asn(default(integer(0..7), 5))] pub f1: u8,
    #[asn(optional(integer(0..7)))] pub f2: Option<u8>,
    #[asn(optional(integer(0..7)))] pub f3: Option<u8>,
    #[asn(optional(integer(0..7)))] pub f4: Option<u8>,
}

impl Ts5ddomoe3 {
    pub const fn f0_min() -> u8 {
        0
    }

    pub const fn f0_max() -> u8 {
        7
    }

    pub const fn f1_min() -> u8 {
        0
    }

    pub const fn f1_max() -> u8 {
        7
    }

    pub const fn f2_min() -> u8 {
        0
    }

    pub const fn f2_max() -> u8 {
        7
    }

    pub const fn f3_min() -> u8 {
        0
    }

    pub const fn f3_max() -> u8 {
        7
    }

    pub const fn f4_min() -> u8 {
        0
    }

    pub const fn f4_max() -> u8 {
        7
    }
}

#[asn(sequence, extensible_after(f3))]

#[derive(Default, Debug, Clone, PartialEq, Hash)]
pub struct Ts5ddomoe4 {
    #[asn(default(integer(0..7), 5))] pub f0: u8,
    #[asn(default(integer(0..7), 5))] pub f1: u8,
    #[asn(optional(integer(0..7)))] pub f2: Option<u8>,
    #[asn(integer(0..7))] pub f3: u8,
    #[asn(optional(integer(0..7)))] pub f4: Option<u8>,
}

impl Ts5ddomoe4 {
    pub const fn f0_min() -> u8 {
        0
    }

    pub const fn f0_max() -> u8 {
        7
    }

    pub const fn f1_min() -> u8 {
        0
    }

    pub const fn f1_max() -> u8 {
        7
    }

    pub const fn f2_min() -> u8 {
        0
    }

    pub const fn f2_max() -> u8 {
        7
    }

    pub const fn f3_min() -> u8 {
        0
    }

    pub const fn f3_max() -> u8 {
        7
    }

    pub const fn f4_min() -> u8 {
        0
    }

    pub const fn f4_max() -> u8 {
        7
    }
}

#[asn(sequence, extensible_after(f4))]

#[derive(Default, Debug, Clone, PartialEq, Hash)]
pub struct Ts5ddomoe5 {
    #[asn(default(integer(0..7), 5))] pub f0: u8,
    #[asn(default(integer(0..7), 5))] pub f1: u8,
    #[asn(optional(integer(0..7)))] pub f2: Option<u8>,
    #[asn(integer(0..7))] pub f3: u8,
    #[asn(optional(integer(0..7)))] pub f4: Option<u8>,
}

impl Ts5ddomoe5 {
    pub const fn f0_min() -> u8 {
        0
    }

    pub const fn f0_max() -> u8 {
        7
    }

    pub const fn f1_min() -> u8 {
        0
    }

    pub const fn f1_max() -> u8 {
        7
    }

    pub const fn f2_min() -> u8 {
        0
    }

    pub const fn f2_max() -> u8 {
        7
    }

    pub const fn f3_min() -> u8 {
        0
    }

    pub const fn f3_max() -> u8 {
        7
    }

    pub const fn f4_min() -> u8 {
        0
    }

    pub const fn f4_max() -> u8 {
        7
    }
}

#[asn(sequence)]

#[derive(Default, Debug, Clone, PartialEq, Hash)]
pub struct Ts5mmdmon {
    #[asn(integer(0..7))] pub f0: u8,
    #[asn(integer(0..7))] pub f1: u8,
    #[asn(default(integer(0..7), 5))] pub f2: u8,
    #[asn(integer(0..7))] pub f3: u8,
    #[asn(optional(integer(0..7)))] pub f4: Option<u8>,
}

impl Ts5mmdmon {
    pub const fn f0_min() -> u8 {
        0
    }

    pub const fn f0_max() -> u8 {
        7
    }

    pub const fn f1_min() -> u8 {
        0
    }

    pub const fn f1_max() -> u8 {
        7
    }

    pub const fn f2_min() -> u8 {
        0
    }

    pub const fn f2_max() -> u8 {
        7
    }

    pub const fn f3_min() -> u8 {
        0
    }

    pub const fn f3_max() -> u8 {
        7
    }

    pub const fn f4_min() -> u8 {
        0
    }

    pub const fn f4_max() -> u8 {
        7
    }
}

#[asn(sequence, extensible_after(f0))]

#[derive(Default, Debug, Clone, PartialEq, Hash)]
pub struct Ts5mmdmoe0 {
    #[asn(integer(0..7))] pub f0: u8,
    #[asn(optional(integer(0..7)))] pub f1: Option<u8>,
    #[asn(default(integer(0..7), 5))] pub f2: u8,
    #[asn(optional(integer(0..7)))] pub f3: Option<u8>,
    #[asn(optional(integer(0..7)))] pub f4: Option<u8>,
}

impl Ts5mmdmoe0 {
    pub const fn f0_min() -> u8 {
        0
    }

    pub const fn f0_max() -> u8 {
        7
    }

    pub const fn f1_min() -> u8 {
        0
    }

    pub const fn f1_max() -> u8 {
        7
    }

    pub const fn f2_min() -> u8 {
        0
    }

    pub const fn f2_max() -> u8 {
        7
    }

    pub const fn f3_min() -> u8 {
        0
    }

    pub const fn f3_max() -> u8 {
        7
    }

    pub const fn f4_min() -> u8 {
        0
    }

    pub const fn f4_max() -> u8 {
        7
    }
}

#[asn(sequence, extensible_after(f0))]

#[derive(Default, Debug, Clone, PartialEq, Hash)]
pub struct Ts5mmdmoe1 {
    #[asn(integer(0..7))] pub f0: u8,
    #[asn(optional(integer(0..7)))] pub f1: Option<u8>,
    #[asn(default(integer(0..7), 5))] pub f2: u8,
    #[asn(optional(integer(0..7)))] pub f3: Option<u8>,
    #[asn(optional(integer(0..7)))] pub f4: Option<u8>,
}

impl Ts5mmdmoe1 {
    pub const fn f0_min() -> u8 {
        0
    }

    pub const fn f0_max() -> u8 {
        7
    }

    pub const fn f1_min() -> u8 {
        0
    }

    pub const fn f1_max() -> u8 {
        7
    }

    pub const fn f2_min() -> u8 {
        0
    }

    pub const fn f2_max() -> u8 {
        7
    }

    pub const fn f3_min() -> u8 {
        0
    }

    pub const fn f3_max() -> u8 {
        7
    }

    pub const fn f4_min() -> u8 {
        0
    }

    pub const fn f4_max() -> u8 {
        7
    }
}

#[asn(sequence, extensible_after(f1))]

#[derive(Default, Debug, Clone, PartialEq, Hash)]
pub struct Ts5mmdmoe2 {
    #[asn(integer(0..7))] pub f0: u8,
    #[asn(integer(0..7))] pub f1: u8,
    #[asn(default(integer(0..7), 5))] pub f2: u8,
    #[asn(optional(integer(0..7)))] pub f3: Option<u8>,
    #[asn(optional(integer(0..7)))] pub f4: Option<u8>,
}

impl Ts5mmdmoe2 {
    pub const fn f0_min() -> u8 {
        0
    }

    pub const fn f0_max() -> u8 {
        7
    }

    pub const fn f1_min() -> u8 {
        0
    }

    pub const fn f1_max() -> u8 {
        7
    }

    pub const fn f2_min() -> u8 {
        0
    }

    pub const fn f2_max() -> u8 {
        7
    }

    pub const fn f3_min() -> u8 {
        0
    }

    pub const fn f3_max() -> u8 {
        7
    }

    pub const fn f4_min() -> u8 {
        0
    }

    pub const fn f4_max() -> u8 {
        7
    }
}

#[asn(sequence, extensible_after(f2))]

#[derive(Default, Debug, Clone, PartialEq, Hash)]
pub struct Ts5mmdmoe3 {
    #[asn(integer(0..7))] pub f0: u8,
    #[asn(integer(0..7))] pub f1: u8,
    #[asn(default(integer(0..7), 5))] pub f2: u8,
    #[asn(optional(integer(0..7)))] pub f3: Option<u8>,
    #[asn(optional(integer(0..7)))] pub f4: Option<u8>,
}

impl Ts5mmdmoe3 {
    pub const fn f0_min() -> u8 {
        0
    }

    pub const fn f0_max() -> u8 {
        7
    }

    pub const fn f1_min() -> u8 {
        0
    }

    pub const fn f1_max() -> u8 {
        7
    }

    pub const fn f2_min() -> u8 {
        0
    }

    pub const fn f2_max() -> u8 {
        7
    }

    pub const fn f3_min() -> u8 {
        0
    }

    pub const fn f3_max() -> u8 {
        7
    }

    pub const fn f4_min() -> u8 {
        0
    }

    pub const fn f4_max() -> u8 {
        7
    }
}

#[asn(sequence, extensible_after(f3))]

#[derive(Default, Debug, Clone, PartialEq, Hash)]
pub struct Ts5mmdmoe4 {
    #[asn(integer(0..7))] pub f0: u8,
    #[asn(integer(0..7))] pub f1: u8,
    #[asn(default(integer(0..7), 5))] pub f2: u8,
    #[asn(integer(0..7))] pub f3: u8,
    #[asn(optional(integer(0..7)))] pub f4: Option<u8>,
}

impl Ts5mmdmoe4 {
    pub const fn f0_min() -> u8 {
        0
    }

    pub const fn f0_max() -> u8 {
        7
    }

    pub const fn f1_min() -> u8 {
        0
    }

    pub const fn f1_max() -> u8 {
        7
    }

    pub const fn f2_min() -> u8 {
        0
    }

    pub const fn f2_max() -> u8 {
        7
    }

    pub const fn f3_min() -> u8 {
        0
    }

    pub const fn f3_max() -> u8 {
        7
    }

    pub const fn f4_min() -> u8 {
        0
    }

    pub const fn f4_max() -> u8 {
        7
    }
}

#[asn(sequence, extensible_after(f4))]

#[derive(Default, Debug, Clone, PartialEq, Hash)]
pub struct Ts5mmdmoe5 {
    #[asn(integer(0..7))] pub f0: u8,
    #[asn(integer(0..7))] pub f1: u8,
    #[asn(default(integer(0..7), 5))] pub f2: u8,
    #[asn(integer(0..7))] pub f3: u8,
    #[asn(optional(integer(0..7)))] pub f4: Option<u8>,
}

impl Ts5mmdmoe5 {
    pub const fn f0_min() -> u8 {
        0
    }

    pub const fn f0_max() -> u8 {
        7
    }

    pub const fn f1_min() -> u8 {
        0
    }

    pub const fn f1_max() -> u8 {
        7
    }

    pub const fn f2_min() -> u8 {
        0
    }

    pub const fn f2_max() -> u8 {
        7
    }

    pub const fn f3_min() -> u8 {
        0
    }

    pub const fn f3_max() -> u8 {
        7
    }

    pub const fn f4_min() -> u8 {
        0
    }

    pub const fn f4_max() -> u8 {
        7
    }
}

#[asn(sequence)]

#[derive(Default, Debug, Clone, PartialEq, Hash)]
pub struct Ts5omdmon {
    #[asn(optional(integer(0..7)))] pub f0: Option<u8>,
    #[asn(integer(0..7))] pub f1: u8,
    #[asn(default(integer(0..7), 5))] pub f2: u8,
    #[asn(integer(0..7))] pub f3: u8,
    #[asn(optional(integer(0..7)))] pub f4: Option<u8>,
}

impl Ts5omdmon {
    pub const fn f0_min() -> u8 {
        0
    }

    pub const fn f0_max() -> u8 {
        7
    }

    pub const fn f1_min() -> u8 {
        0
    }

    pub const fn f1_max() -> u8 {
        7
    }

    pub const fn f2_min() -> u8 {
        0
    }

    pub const fn f2_max() -> u8 {
        7
    }

    pub const fn f3_min() -> u8 {
        0
    }

    pub const fn f3_max() -> u8 {
        7
    }

    pub const fn f4_min() -> u8 {
        0
    }

    pub const fn f4_max() -> u8 {
        7
    }
}

#[asn(sequence, extensible_after(f0))]

#[derive(Default, Debug, Clone, PartialEq, Hash)]
pub struct Ts5omdmoe0 {
    #[asn(optional(integer(0..7)))] pub f0: Option<u8>,
    #[asn(optional(integer(0..7)))] pub f1: Option<u8>,
    #[asn(default(integer(0..7), 5))] pub f2: u8,
    #[asn(optional(integer(0..7)))] pub f3: Option<u8>,
    #[asn(optional(integer(0..7)))] pub f4: Option<u8>,
}

impl Ts5omdmoe0 {
    pub const fn f0_min() -> u8 {
        0
    }

    pub const fn f0_max() -> u8 {
        7
    }

    pub const fn f1_min() -> u8 {
        0
    }

    pub const fn f1_max() -> u8 {
        7
    }

    pub const fn f2_min() -> u8 {
        0
    }

    pub const fn f2_max() -> u8 {
        7
    }

    pub const fn f3_min() -> u8 {
        0
    }

    pub const fn f3_max() -> u8 {
        7
    }

    pub const fn f4_min() -> u8 {
        0
    }

    pub const fn f4_max() -> u8 {
        7
    }
}

#[asn(sequence, extensible_after(f0))]

#[derive(Default, Debug, Clone, PartialEq, Hash)]
pub struct Ts5omdmoe1 {
    #[asn(optional(integer(0..7)))] pub f0: Option<u8>,
    #[asn(optional(integer(0..7)))] pub f1: Option<u8>,
    #[asn(default(integer(0..7), 5))] pub f2: u8,
    #[asn(optional(integer(0..7)))] pub f3: Option<u8>,
    #[asn(optional(integer(0..7)))] pub f4: Option<u8>,
}

impl Ts5omdmoe1 {
    pub const fn f0_min() -> u8 {
        0
    }

    pub const fn f0_max() -> u8 {
        7
    }

    pub const fn f1_min() -> u8 {
        0
    }

    pub const fn f1_max() -> u8 {
        7
    }

    pub const fn f2_min() -> u8 {
        0
    }

    pub const fn f2_max() -> u8 {
        7
    }

    pub const fn f3_min() -> u8 {
        0
    }

    pub const fn f3_max() -> u8 {
        7
    }

    pub const fn f4_min() -> u8 {
        0
    }

    pub const fn f4_max() -> u8 {
        7
    }
}

#[asn(sequence, extensible_after(f1))]

#[derive(Default, Debug, Clone, PartialEq, Hash)]
pub struct Ts5omdmoe2 {
    #[asn(optional(integer(0..7)))] pub f0: Option<u8>,
    #[asn(integer(0..7))] pub f1: u8,
    #[asn(default(integer(0..7), 5))] pub f2: u8,
    #[asn(optional(integer(0..7)))] pub f3: Option<u8>,
    #[asn(optional(integer(0..7)))] pub f4: Option<u8>,
}

impl Ts5omdmoe2 {
    pub const fn f0_min() -> u8 {
        0
    }

    pub const fn f0_max() -> u8 {
        7
    }

    pub const fn f1_min() -> u8 {
        0
    }

    pub const fn f1_max() -> u8 {
        7
    }

    pub const fn f2_min() -> u8 {
        0
    }

    pub const fn f2_max() -> u8 {
        7
    }

    pub const fn f3_min() -> u8 {
        0
    }

    pub const fn f3_max() -> u8 {
        7
    }

    pub const fn f4_min() -> u8 {
        0
    }

    pub const fn f4_max() -> u8 {
        7
    }
}

#[asn(sequence, extensible_after(f2))]

#[derive(Default, Debug, Clone, PartialEq, Hash)]
pub struct Ts5omdmoe3 {
    #[asn(optional(integer(0..7)))] pub f0: Option<u8>,
    #[asn(integer(0..7))] pub f1: u8,
    #[asn(default(integer(0..7), 5))] pub f2: u8,
    #[asn(optional(integer(0..7)))] pub f3: Option<u8>,
    #[asn(optional(integer(0..7)))] pub f4: Option<u8>,
}

impl Ts5omdmoe3 {
    pub const fn f0_min() -> u8 {
        0
    }

    pub const fn f0_max() -> u8 {
        7
    }

    pub const fn f1_min() -> u8 {
        0
    }

    pub const fn f1_max() -> u8 {
        7
    }

    pub const fn f2_min() -> u8 {
        0
    }

    pub const fn f2_max() -> u8 {
        7
    }

    pub const fn f3_min() -> u8 {
        0
    }

    pub const fn f3_max() -> u8 {
        7
    }

    pub const fn f4_min() -> u8 {
        0
    }

    pub const fn f4_max() -> u8 {
        7
    }
}

#[asn(sequence, extensible_after(f3))]

#[derive(Default, Debug, Clone, PartialEq, Hash)]
pub struct Ts5omdmoe4 {
    #[asn(optional(integer(0..7)))] pub f0: Option<u8>,
    #[asn(integer(0..7))] pub f1: u8,
    #[asn(default(integer(0..7), 5))] pub f2: u8,
    #[asn(integer(0..7))] pub f3: u8,
    #[asn(optional(integer(0..7)))] pub f4: Option<u8>,
}

impl Ts5omdmoe4 {
    pub const fn f0_min() -> u8 {
        0
    }

    pub const fn f0_max() -> u8 {
        7
    }

    pub const fn f1_min() -> u8 {
        0
    }

    pub const fn f1_max() -> u8 {
        7
    }

    pub const fn f2_min() -> u8 {
        0
    }

    pub const fn f2_max() -> u8 {
        7
    }

    pub const fn f3_min() -> u8 {
        0
    }

    pub const fn f3_max() -> u8 {
        7
    }

    pub const fn f4_min() -> u8 {
        0
    }

    pub const fn f4_max() -> u8 {
        7
    }
}

#[asn(sequence, extensible_after(f4))]

#[derive(Default, Debug, Clone, PartialEq, Hash)]
pub struct Ts5omdmoe5 {
    #[asn(optional(integer(0..7)))] pub f0: Option<u8>,
    #[asn(integer(0..7))] pub f1: u8,
    #[asn(default(integer(0..7), 5))] pub f2: u8,
    #[asn(integer(0..7))] pub f3: u8,
    #[asn(optional(integer(0..7)))] pub f4: Option<u8>,
}

impl Ts5omdmoe5 {
    pub const fn f0_min() -> u8 {
        0
    }

    pub const fn f0_max() -> u8 {
        7
    }

    pub const fn f1_min() -> u8 {
        0
    }

    pub const fn f1_max() -> u8 {
        7
    }

    pub const fn f2_min() -> u8 {
        0
    }

    pub const fn f2_max() -> u8 {
        7
    }

    pub const fn f3_min() -> u8 {
        0
    }

    pub const fn f3_max() -> u8 {
        7
    }

    pub const fn f4_min() -> u8 {
        0
    }

    pub const fn f4_max() -> u8 {
        7
    }
}

#[asn(sequence)]

#[derive(Default, Debug, Clone, PartialEq, Hash)]
pub struct Ts5dmdmon {
    #[asn(default(integer(0..7), 5))] pub f0: u8,
    #[asn(integer(0..7))] pub f1: u8,
    #[asn(default(integer(0..7), 5))] pub f2: u8,
    #[asn(integer(0..7))] pub f3: u8,
    #[asn(optional(integer(0..7)))] pub f4: Option<u8>,
}

impl Ts5dmdmon {
    pub const fn f0_min() -> u8 {
        0
    }

    pub const fn f0_max() -> u8 {
        7
    }

    pub const fn f1_min() -> u8 {
        0
    }

    pub const fn f1_max() -> u8 {
        7
    }

    pub const fn f2_min() -> u8 {
        0
    }

    pub const fn f2_max() -> u8 {
        7
    }

    pub const fn f3_min() -> u8 {
        0
    }

    pub const fn f3_max() -> u8 {
        7
    }

    pub const fn f4_min() -> u8 {
        0
    }

    pub const fn f4_max() -> u8 {
        7
    }
}

#[asn(sequence, extensible_after(f0))]

#[derive(Default, Debug, Clone, PartialEq, Hash)]
pub struct Ts5dmdmoe0 {
    #[asn(default(integer(0..7), 5))] pub f0: u8,
    #[asn(optional(integer(0..7)))] pub f1: Option<u8>,
    #[asn(default(integer(0..7), 5))] pub f2: u8,
    #[asn(optional(integer(0..7)))] pub f3: Option<u8>,
    #[asn(optional(integer(0..7)))] pub f4: Option<u8>,
}

impl Ts5dmdmoe0 {
    pub const fn f0_min() -> u8 {
        0
    }

    pub const fn f0_max() -> u8 {
        7
    }

    pub const fn f1_min() -> u8 {
        0
    }

    pub const fn f1_max() -> u8 {
        7
    }

    pub const fn f2_min() -> u8 {
        0
    }

    pub const fn f2_max() -> u8 {
        7
    }

    pub const fn f3_min() -> u8 {
        0
    }

    pub const fn f3_max() -> u8 {
        7
    }

    pub const fn f4_min() -> u8 {
        0
    }

    pub const fn f4_max() -> u8 {
        7
    }
}

#[asn(sequence, extensible_after(f0))]

#[derive(Default, Debug, Clone, PartialEq, Hash)]
pub struct Ts5dmdmoe1 {
    #[asn(default(integer(0..7), 5))] pub f0: u8,
    #[asn(optional(integer(0..7)))] pub f1: Option<u8>,
    #[asn(default(integer(0..7), 5))] pub f2: u8,
    #[asn(optional(integer(0..7)))] pub f3: Option<u8>,
    #[asn(optional(integer(0..7)))] pub f4: Option<u8>,
}

impl Ts5dmdmoe1 {
    pub const fn f0_min() -> u8 {
        0
    }

    pub const fn f0_max() -> u8 {
        7
    }

    pub const fn f1_min() -> u8 {
        0
    }

    pub const fn f1_max() -> u8 {
        7
    }

    pub const fn f2_min() -> u8 {
        0
    }

    pub const fn f2_max() -> u8 {
        7
    }

    pub const fn f3_min() -> u8 {
        0
    }

    pub const fn f3_max() -> u8 {
        7
    }

    pub const fn f4_min() -> u8 {
        0
    }

    pub const fn f4_max() -> u8 {
        7
    }
}

#[asn(sequence, extensible_after(f1))]

#[derive(Default, Debug, Clone, PartialEq, Hash)]
pub struct Ts5dmdmoe2 {
    #[asn(default(integer(0..7), 5))] pub f0: u8,
    #[asn(integer(0..7))] pub f1: u8,
    #[asn(default(integer(0..7), 5))] pub f2: u8,
    #[asn(optional(integer(0..7)))] pub f3: Option<u8>,
    #[asn(optional(integer(0..7)))] pub f4: Option<u8>,
}

impl Ts5dmdmoe2 {
    pub const fn f0_min() -> u8 {
        0
    }

    pub const fn f0_max() -> u8 {
        7
    }

    pub const fn f1_min() -> u8 {
        0
    }

    pub const fn f1_max() -> u8 {
        7
    }

    pub const fn f2_min() -> u8 {
        0
    }

    pub const fn f2_max() -> u8 {
        7
    }

    pub const fn f3_min() -> u8 {
        0
    }

    pub const fn f3_max() -> u8 {
        7
    }

    pub const fn f4_min() -> u8 {
        0
    }

    pub const fn f4_max() -> u8 {
        7
    }
}

#[asn(sequence, extensible_after(f2))]

#[derive(Default, Debug, Clone, PartialEq, Hash)]
pub struct Ts5dmdmoe3 {
    #[asn(default(integer(0..7), 5))] pub f0: u8,
    #[asn(integer(0..7))] pub f1: u8,
    #[asn(default(integer(0..7), 5))] pub f2: u8,
    #[asn(optional(integer(0..7)))] pub f3: Option<u8>,
    #[asn(optional(integer(0..7)))] pub f4: Option<u8>,
}

impl Ts5dmdmoe3 {
    pub const fn f0_min() -> u8 {
        0
    }

    pub const fn f0_max() -> u8 {
        7
    }

    pub const fn f1_min() -> u8 {
        0
    }

    pub const fn f1_max() -> u8 {
        7
    }

    pub const fn f2_min() -> u8 {
        0
    }

    pub const fn f2_max() -> u8 {
        7
    }

    pub const fn f3_min() -> u8 {
        0
    }

    pub const fn f3_max() -> u8 {
        7
    }

    pub const fn f4_min() -> u8 {
        0
    }

    pub const fn f4_max() -> u8 {
        7
    }
}

#[asn(sequence, extensible_after(f3))]

#[derive(Default, Debug, Clone, PartialEq, Hash)]
pub struct Ts5dmdmoe4 {
    #[asn(default(integer(0..7), 5))] pub f0: u8,
    #[asn(integer(0..7))] pub f1: u8,
    #[asn(default(integer(0..7), 5))] pub f2: u8,
    #[asn(integer(0..7))] pub f3: u8,
    #[asn(optional(integer(0..7)))] pub f4: Option<u8>,
}

impl Ts5dmdmoe4 {
    pub const fn f0_min() -> u8 {
        0
    }

    pub const fn f0_max() -> u8 {
        7
    }

    pub const fn f1_min() -> u8 {
        0
    }

    pub const fn f1_max() -> u8 {
        7
    }

    pub const fn f2_min() -> u8 {
        0
    }

    pub const fn f2_max() -> u8 {
        7
    }

    pub const fn f3_min() -> u8 {
        0
    }

    pub const fn f3_max() -> u8 {
        7
    }

    pub const fn f4_min() -> u8 {
        0
    }

    pub const fn f4_max() -> u8 {
        7
    }
}

#[asn(sequence, extensible_after(f4))]

#[derive(Default, Debug, Clone, PartialEq, Hash)]
pub struct Ts5dmdmoe5 {
    #[asn(default(integer(0..7), 5))] pub f0: u8,
    #[asn(integer(0..7))] pub f1: u8,
    #[asn(default(integer(0..7), 5))] pub f2: u8,
    #[asn(integer(0..7))] pub f3: u8,
    #[asn(optional(integer(0..7)))] pub f4: Option<u8>,
}

impl Ts5dmdmoe5 {
    pub const fn f0_min() -> u8 {
        0
    }

    pub const fn f0_max() -> u8 {
        7
    }

    pub const fn f1_min() -> u8 {
        0
    }

    pub const fn f1_max() -> u8 {
        7
    }

    pub const fn f2_min() -> u8 {
        0
    }

    pub const fn f2_max() -> u8 {
        7
    }

    pub const fn f3_min() -> u8 {
        0
    }

    pub const fn f3_max() -> u8 {
        7
    }

    pub const fn f4_min() -> u8 {
        0
    }

    pub const fn f4_max() -> u8 {
        7
    }
}

#[asn(sequence)]

#[derive(Default, Debug, Clone, PartialEq, Hash)]
pub struct Ts5modmon {
    #[asn(integer(0..7))] pub f0: u8,
    #[asn(optional(integer(0..7)))] pub f1: Option<u8>,
    #[asn(default(integer(0..7), 5))] pub f2: u8,
    #[asn(integer(0..7))] pub f3: u8,
    #[asn(optional(integer(0..7)))] pub f4: Option<u8>,
}

impl Ts5modmon {
    pub const fn f0_min() -> u8 {
        0
    }

    pub const fn f0_max() -> u8 {
        7
    }

    pub const fn f1_min() -> u8 {
        0
    }

    pub const fn f1_max() -> u8 {
        7
    }

    pub const fn f2_min() -> u8 {
        0
    }

    pub const fn f2_max() -> u8 {
        7
    }

    pub const fn f3_min() -> u8 {
        0
    }

    pub const fn f3_max() -> u8 {
        7
    }

    pub const fn f4_min() -> u8 {
        0
    }

    pub const fn f4_max() -> u8 {
        7
    }
}

#[asn(sequence, extensible_after(f0))]

#[derive(Default, Debug, Clone, PartialEq, Hash)]
pub struct Ts5modmoe0 {
    #[asn(integer(0..7))] pub f0: u8,
    #[asn(optional(integer(0..7)))] pub f1: Option<u8>,
    #[asn(default(integer(0..7), 5))] pub f2: u8,
    #[asn(optional(integer(0..7)))] pub f3: Option<u8>,
    #[asn(optional(integer(0..7)))] pub f4: Option<u8>,
}

impl Ts5modmoe0 {
    pub const fn f0_min() -> u8 {
        0
    }

    pub const fn f0_max() -> u8 {
        7
    }

    pub const fn f1_min() -> u8 {
        0
    }

    pub const fn f1_max() -> u8 {
        7
    }

    pub const fn f2_min() -> u8 {
        0
    }

    pub const fn f2_max() -> u8 {
        7
    }

    pub const fn f3_min() -> u8 {
        0
    }

    pub const fn f3_max() -> u8 {
        7
    }

    pub const fn f4_min() -> u8 {
        0
    }

    pub const fn f4_max() -> u8 {
        7
    }
}

#[asn(sequence, extensible_after(f0))]

#[derive(Default, Debug, Clone, PartialEq, Hash)]
pub struct Ts5modmoe1 {
    #[asn(integer(0..7))] pub f0: u8,
    #[asn(optional(integer(0..7)))] pub f1: Option<u8>,
    #[asn(default(integer(0..7), 5))] pub f2: u8,
    #[asn(optional(integer(0..7)))] pub f3: Option<u8>,
    #[asn(optional(integer(0..7)))] pub f4: Option<u8>,
}

impl Ts5modmoe1 {
    pub const fn f0_min() -> u8 {
        0
    }

    pub const fn f0_max() -> u8 {
        7
    }

    pub const fn f1_min() -> u8 {
        0
    }

    pub const fn f1_max() -> u8 {
        7
    }

    pub const fn f2_min() -> u8 {
        0
    }

    pub const fn f2_max() -> u8 {
        7
    }

    pub const fn f3_min() -> u8 {
        0
    }

    pub const fn f3_max() -> u8 {
        7
    }

    pub const fn f4_min() -> u8 {
        0
    }

    pub const fn f4_max() -> u8 {
        7
    }
}

#[asn(sequence, extensible_after(f1))]

#[derive(Default, Debug, Clone, PartialEq, Hash)]
pub struct Ts5modmoe2 {
    #[asn(integer(0..7))] pub f0: u8,
    #[asn(optional(integer(0..7)))] pub f1: Option<u8>,
    #[asn(default(integer(0..7), 5))] pub f2: u8,
    #[asn(optional(integer(0..7)))] pub f3: Option<u8>,
    #[asn(optional(integer(0..7)))] pub f4: Option<u8>,
}

impl Ts5modmoe2 {
    pub const fn f0_min() -> u8 {
        0
    }

    pub const fn f0_max() -> u8 {
        7
    }

    pub const fn f1_min() -> u8 {
        0
    }

    pub const fn f1_max() -> u8 {
        7
    }

    pub const fn f2_min() -> u8 {
        0
    }

    pub const fn f2_max() -> u8 {
        7
    }

    pub const fn f3_min() -> u8 {
        0
    }

    pub const fn f3_max() -> u8 {
        7
    }

    pub const fn f4_min() -> u8 {
        0
    }

    pub const fn f4_max() -> u8 {
        7
    }
}

#[asn(sequence, extensible_after(f2))]

#[derive(Default, Debug, Clone, PartialEq, Hash)]
pub struct Ts5modmoe3 {
    #[asn(integer(0..7))] pub f0: u8,
    #[asn(optional(integer(0..7)))] pub f1: Option<u8>,
    #[asn(default(integer(0..7), 5))] pub f2: u8,
    #[asn(optional(integer(0..7)))] pub f3: Option<u8>,
    #[asn(optional(integer(0..7)))] pub f4: Option<u8>,
}

impl Ts5modmoe3 {
    pub const fn f0_min() -> u8 {
        0
    }

    pub const fn f0_max() -> u8 {
        7
    }

    pub const fn f1_min() -> u8 {
        0
    }

    pub const fn f1_max() -> u8 {
        7
    }

    pub const fn f2_min() -> u8 {
        0
    }

    pub const fn f2_max() -> u8 {
        7
    }

    pub const fn f3_min() -> u8 {
        0
    }

    pub const fn f3_max() -> u8 {
        7
    }

    pub const fn f4_min() -> u8 {
        0
    }

    pub const fn f4_max() -> u8 {
        7
    }
}

#[asn(sequence, extensible_after(f3))]

#[derive(Default, Debug, Clone, PartialEq, Hash)]
pub struct Ts5modmoe4 {
    #[asn(integer(0..7))] pub f0: u8,
    #[asn(optional(integer(0..7)))] pub f1: Option<u8>,
    #[asn(default(integer(0..7), 5))] pub f2: u8,
    #[asn(integer(0..7))] pub f3: u8,
    #[asn(optional(integer(0..7)))] pub f4: Option<u8>,
}

impl Ts5modmoe4 {
    pub const fn f0_min() -> u8 {
        0
    }

    pub const fn f0_max() -> u8 {
        7
    }

    pub const fn f1_min() -> u8 {
        0
    }

    pub const fn f1_max() -> u8 {
        7
    }

    pub const fn f2_min() -> u8 {
        0
    }

    pub const fn f2_max() -> u8 {
        7
    }

    pub const fn f3_min() -> u8 {
        0
    }

    pub const fn f3_max() -> u8 {
        7
    }

    pub const fn f4_min() -> u8 {
        0
    }

    pub const fn f4_max() -> u8 {
        7
    }
}
// ---- harness conversions (generated by the zoo build script from the items above) ----
impl FromValue for Ts5oommoe4 {
    fn from_value(v: &Value) -> Self {
        let s = match v { Value::Seq(s) => s, other => panic!("Ts5oommoe4: expected Seq, got {other:?}") };
        assert_eq!(s.len(), 5, "Ts5oommoe4: component count");
        let _ = s;
        Ts5oommoe4 {
            f0: s[0].as_ref().map(FromValue::from_value),
            f1: s[1].as_ref().map(FromValue::from_value),
            f2: FromValue::from_value(s[2].as_ref().expect("component f2 of Ts5oommoe4 must be present")),
            f3: FromValue::from_value(s[3].as_ref().expect("component f3 of Ts5oommoe4 must be present")),
            f4: s[4].as_ref().map(FromValue::from_value),
        }
    }
}
impl ToValue for Ts5oommoe4 {
    fn to_value(&self) -> Value {
        Value::Seq(vec![
            self.f0.as_ref().map(|x| x.to_value()),
            self.f1.as_ref().map(|x| x.to_value()),
            Some(self.f2.to_value()),
            Some(self.f3.to_value()),
            self.f4.as_ref().map(|x| x.to_value()),
        ])
    }
}
impl FromValue for Ts5oommoe5 {
    fn from_value(v: &Value) -> Self {
        let s = match v { Value::Seq(s) => s, other => panic!("Ts5oommoe5: expected Seq, got {other:?}") };
        assert_eq!(s.len(), 5, "Ts5oommoe5: component count");
        let _ = s;
        Ts5oommoe5 {
            f0: s[0].as_ref().map(FromValue::from_value),
            f1: s[1].as_ref().map(FromValue::from_value),
            f2: FromValue::from_value(s[2].as_ref().expect("component f2 of Ts5oommoe5 must be present")),
            f3: FromValue::from_value(s[3].as_ref().expect("component f3 of Ts5oommoe5 must be present")),
            f4: s[4].as_ref().map(FromValue::from_value),
        }
    }
}
impl ToValue for Ts5oommoe5 {
    fn to_value(&self) -> Value {
        Value::Seq(vec![
            self.f0.as_ref().map(|x| x.to_value()),
            self.f1.as_ref().map(|x| x.to_value()),
            Some(self.f2.to_value()),
            Some(self.f3.to_value()),
            self.f4.as_ref().map(|x| x.to_value()),
        ])
    }
}
impl FromValue for Ts5dommon {
    fn from_value(v: &Value) -> Self {
        let s = match v { Value::Seq(s) => s, other => panic!("Ts5dommon: expected Seq, got {other:?}") };
        assert_eq!(s.len(), 5, "Ts5dommon: component count");
        let _ = s;
        Ts5dommon {
            f0: FromValue::from_value(s[0].as_ref().expect("component f0 of Ts5dommon must be present")),
            f1: s[1].as_ref().map(FromValue::from_value),
            f2: FromValue::from_value(s[2].as_ref().expect("component f2 of Ts5dommon must be present")),
            f3: FromValue::from_value(s[3].as_ref().expect("component f3 of Ts5dommon must be present")),
            f4: s[4].as_ref().map(FromValue::from_value),
        }
    }
}
impl ToValue for Ts5dommon {
    fn to_value(&self) -> Value {
        Value::Seq(vec![
            Some(self.f0.to_value()),
            self.f1.as_ref().map(|x| x.to_value()),
            Some(self.f2.to_value()),
            Some(self.f3.to_value()),
            self.f4.as_ref().map(|x| x.to_value()),
        ])
    }
}
impl FromValue for Ts5dommoe0 {
    fn from_value(v: &Value) -> Self {
        let s = match v { Value::Seq(s) => s, other => panic!("Ts5dommoe0: expected Seq, got {other:?}") };
        assert_eq!(s.len(), 5, "Ts5dommoe0: component count");
        let _ = s;
        Ts5dommoe0 {
            f0: FromValue::from_value(s[0].as_ref().expect("component f0 of Ts5dommoe0 must be present")),
            f1: s[1].as_ref().map(FromValue::from_value),
            f2: s[2].as_ref().map(FromValue::from_value),
            f3: s[3].as_ref().map(FromValue::from_value),
            f4: s[4].as_ref().map(FromValue::from_value),
        }
    }
}
impl ToValue for Ts5dommoe0 {
    fn to_value(&self) -> Value {
        Value::Seq(vec![
            Some(self.f0.to_value()),
            self.f1.as_ref().map(|x| x.to_value()),
            self.f2.as_ref().map(|x| x.to_value()),
            self.f3.as_ref().map(|x| x.to_value()),
            self.f4.as_ref().map(|x| x.to_value()),
        ])
    }
}
impl FromValue for Ts5dommoe1 {
    fn from_value(v: &Value) -> Self {
        let s = match v { Value::Seq(s) => s, other => panic!("Ts5dommoe1: expected Seq, got {other:?}") };
        assert_eq!(s.len(), 5, "Ts5dommoe1: component count");
        let _ = s;
        Ts5dommoe1 {
            f0: FromValue::from_value(s[0].as_ref().expect("component f0 of Ts5dommoe1 must be present")),
            f1: s[1].as_ref().map(FromValue::from_value),
            f2: s[2].as_ref().map(FromValue::from_value),
            f3: s[3].as_ref().map(FromValue::from_value),
            f4: s[4].as_ref().map(FromValue::from_value),
        }
    }
}
impl ToValue for Ts5dommoe1 {
    fn to_value(&self) -> Value {
        Value::Seq(vec![
            Some(self.f0.to_value()),
            self.f1.as_ref().map(|x| x.to_value()),
            self.f2.as_ref().map(|x| x.to_value()),
            self.f3.as_ref().map(|x| x.to_value()),
            self.f4.as_ref().map(|x| x.to_value()),
        ])
    }
}
impl FromValue for Ts5dommoe2 {
    fn from_value(v: &Value) -> Self {
        let s = match v { Value::Seq(s) => s, other => panic!("Ts5dommoe2: expected Seq, got {other:?}") };
        assert_eq!(s.len(), 5, "Ts5dommoe2: component count");
        let _ = s;
        Ts5dommoe2 {
            f0: FromValue::from_value(s[0].as_ref().expect("component f0 of Ts5dommoe2 must be present")),
            f1: s[1].as_ref().map(FromValue::from_value),
            f2: s[2].as_ref().map(FromValue::from_value),
            f3: s[3].as_ref().map(FromValue::from_value),
            f4: s[4].as_ref().map(FromValue::from_value),
        }
    }
}
impl ToValue for Ts5dommoe2 {
    fn to_value(&self) -> Value {
        Value::Seq(vec![
            Some(self.f0.to_value()),
            self.f1.as_ref().map(|x| x.to_value()),
            self.f2.as_ref().map(|x| x.to_value()),
            self.f3.as_ref().map(|x| x.to_value()),
            self.f4.as_ref().map(|x| x.to_value()),
        ])
    }
}
impl FromValue for Ts5dommoe3 {
    fn from_value(v: &Value) -> Self {
        let s = match v { Value::Seq(s) => s, other => panic!("Ts5dommoe3: expected Seq, got {other:?}") };
        assert_eq!(s.len(), 5, "Ts5dommoe3: component count");
        let _ = s;
        Ts5dommoe3 {
            f0: FromValue::from_value(s[0].as_ref().expect("component f0 of Ts5dommoe3 must be present")),
            f1: s[1].as_ref().map(FromValue::from_value),
            f2: FromValue::from_value(s[2].as_ref().expect("component f2 of Ts5dommoe3 must be present")),
            f3: s[3].as_ref().map(FromValue::from_value),
            f4: s[4].as_ref().map(FromValue::from_value),
        }
    }
}
impl ToValue for Ts5dommoe3 {
    fn to_value(&self) -> Value {
        Value::Seq(vec![
            Some(self.f0.to_value()),
            self.f1.as_ref().map(|x| x.to_value()),
            Some(self.f2.to_value()),
            self.f3.as_ref().map(|x| x.to_value()),
            self.f4.as_ref().map(|x| x.to_value()),
        ])
    }
}
impl FromValue for Ts5dommoe4 {
    fn from_value(v: &Value) -> Self {
        let s = match v { Value::Seq(s) => s, other => panic!("Ts5dommoe4: expected Seq, got {other:?}") };
        assert_eq!(s.len(), 5, "Ts5dommoe4: component count");
        let _ = s;
        Ts5dommoe4 {
            f0: FromValue::from_value(s[0].as_ref().expect("component f0 of Ts5dommoe4 must be present")),
            f1: s[1].as_ref().map(FromValue::from_value),
            f2: FromValue::from_value(s[2].as_ref().expect("component f2 of Ts5dommoe4 must be present")),
            f3: FromValue::from_value(s[3].as_ref().expect("component f3 of Ts5dommoe4 must be present")),
            f4: s[4].as_ref().map(FromValue::from_value),
        }
    }
}
impl ToValue for Ts5dommoe4 {
    fn to_value(&self) -> Value {
        Value::Seq(vec![
            Some(self.f0.to_value()),
            self.f1.as_ref().map(|x| x.to_value()),
            Some(self.f2.to_value()),
            Some(self.f3.to_value()),
            self.f4.as_ref().map(|x| x.to_value()),
        ])
    }
}
impl FromValue for Ts5dommoe5 {
    fn from_value(v: &Value) -> Self {
        let s = match v { Value::Seq(s) => s, other => panic!("Ts5dommoe5: expected Seq, got {other:?}") };
        assert_eq!(s.len(), 5, "Ts5dommoe5: component count");
        let _ = s;
        Ts5dommoe5 {
            f0: FromValue::from_value(s[0].as_ref().expect("component f0 of Ts5dommoe5 must be present")),
            f1: s[1].as_ref().map(FromValue::from_value),
            f2: FromValue::from_value(s[2].as_ref().expect("component f2 of Ts5dommoe5 must be present")),
            f3: FromValue::from_value(s[3].as_ref().expect("component f3 of Ts5dommoe5 must be present")),
            f4: s[4].as_ref().map(FromValue::from_value),
        }
    }
}
impl ToValue for Ts5dommoe5 {
    fn to_value(&self) -> Value {
        Value::Seq(vec![
            Some(self.f0.to_value()),
            self.f1.as_ref().map(|x| x.to_value()),
            Some(self.f2.to_value()),
            Some(self.f3.to_value()),
            self.f4.as_ref().map(|x| x.to_value()),
        ])
    }
}
impl FromValue for Ts5mdmmon {
    fn from_value(v: &Value) -> Self {
        let s = match v { Value::Seq(s) => s, other => panic!("Ts5mdmmon: expected Seq, got {other:?}") };
        assert_eq!(s.len(), 5, "Ts5mdmmon: component count");
        let _ = s;
        Ts5mdmmon {
            f0: FromValue::from_value(s[0].as_ref().expect("component f0 of Ts5mdmmon must be present")),
            f1: FromValue::from_value(s[1].as_ref().expect("component f1 of Ts5mdmmon must be present")),
            f2: FromValue::from_value(s[2].as_ref().expect("component f2 of Ts5mdmmon must be present")),
            f3: FromValue::from_value(s[3].as_ref().expect("component f3 of Ts5mdmmon must be present")),
            f4: s[4].as_ref().map(FromValue::from_value),
        }
    }
}
impl ToValue for Ts5mdmmon {
    fn to_value(&self) -> Value {
        Value::Seq(vec![
            Some(self.f0.to_value()),
            Some(self.f1.to_value()),
            Some(self.f2.to_value()),
            Some(self.f3.to_value()),
            self.f4.as_ref().map(|x| x.to_value()),
        ])
    }
}
impl FromValue for Ts5mdmmoe0 {
    fn from_value(v: &Value) -> Self {
        let s = match v { Value::Seq(s) => s, other => panic!("Ts5mdmmoe0: expected Seq, got {other:?}") };
        assert_eq!(s.len(), 5, "Ts5mdmmoe0: component count");
        let _ = s;
        Ts5mdmmoe0 {
            f0: FromValue::from_value(s[0].as_ref().expect("component f0 of Ts5mdmmoe0 must be present")),
            f1: FromValue::from_value(s[1].as_ref().expect("component f1 of Ts5mdmmoe0 must be present")),
            f2: s[2].as_ref().map(FromValue::from_value),
            f3: s[3].as_ref().map(FromValue::from_value),
            f4: s[4].as_ref().map(FromValue::from_value),
        }
    }
}
impl ToValue for Ts5mdmmoe0 {
    fn to_value(&self) -> Value {
        Value::Seq(vec![
            Some(self.f0.to_value()),
            Some(self.f1.to_value()),
            self.f2.as_ref().map(|x| x.to_value()),
            self.f3.as_ref().map(|x| x.to_value()),
            self.f4.as_ref().map(|x| x.to_value()),
        ])
    }
}
impl FromValue for Ts5mdmmoe1 {
    fn from_value(v: &Value) -> Self {
        let s = match v { Value::Seq(s) => s, other => panic!("Ts5mdmmoe1: expected Seq, got {other:?}") };
        assert_eq!(s.len(), 5, "Ts5mdmmoe1: component count");
        let _ = s;
        Ts5mdmmoe1 {
            f0: FromValue::from_value(s[0].as_ref().expect("component f0 of Ts5mdmmoe1 must be present")),
            f1: FromValue::from_value(s[1].as_ref().expect("component f1 of Ts5mdmmoe1 must be present")),
            f2: s[2].as_ref().map(FromValue::from_value),
            f3: s[3].as_ref().map(FromValue::from_value),
            f4: s[4].as_ref().map(FromValue::from_value),
        }
    }
}
impl ToValue for Ts5mdmmoe1 {
    fn to_value(&self) -> Value {
        Value::Seq(vec![
            Some(self.f0.to_value()),
            Some(self.f1.to_value()),
            self.f2.as_ref().map(|x| x.to_value()),
            self.f3.as_ref().map(|x| x.to_value()),
            self.f4.as_ref().map(|x| x.to_value()),
        ])
    }
}
impl FromValue for Ts5mdmmoe2 {
    fn from_value(v: &Value) -> Self {
        let s = match v { Value::Seq(s) => s, other => panic!("Ts5mdmmoe2: expected Seq, got {other:?}") };
        assert_eq!(s.len(), 5, "Ts5mdmmoe2: component count");
        let _ = s;
        Ts5mdmmoe2 {
            f0: FromValue::from_value(s[0].as_ref().expect("component f0 of Ts5mdmmoe2 must be present")),
            f1: FromValue::from_value(s[1].as_ref().expect("component f1 of Ts5mdmmoe2 must be present")),
            f2: s[2].as_ref().map(FromValue::from_value),
            f3: s[3].as_ref().map(FromValue::from_value),
            f4: s[4].as_ref().map(FromValue::from_value),
        }
    }
}
impl ToValue for Ts5mdmmoe2 {
    fn to_value(&self) -> Value {
        Value::Seq(vec![
            Some(self.f0.to_value()),
            Some(self.f1.to_value()),
            self.f2.as_ref().map(|x| x.to_value()),
            self.f3.as_ref().map(|x| x.to_value()),
            self.f4.as_ref().map(|x| x.to_value()),
        ])
    }
}
impl FromValue for Ts5mdmmoe3 {
    fn from_value(v: &Value) -> Self {
        let s = match v { Value::Seq(s) => s, other => panic!("Ts5mdmmoe3: expected Seq, got {other:?}") };
        assert_eq!(s.len(), 5, "Ts5mdmmoe3: component count");
        let _ = s;
        Ts5mdmmoe3 {
            f0: FromValue::from_value(s[0].as_ref().expect("component f0 of Ts5mdmmoe3 must be present")),
            f1: FromValue::from_value(s[1].as_ref().expect("component f1 of Ts5mdmmoe3 must be present")),
            f2: FromValue::from_value(s[2].as_ref().expect("component f2 of Ts5mdmmoe3 must be present")),
            f3: s[3].as_ref().map(FromValue::from_value),
            f4: s[4].as_ref().map(FromValue::from_value),
        }
    }
}
impl ToValue for Ts5mdmmoe3 {
    fn to_value(&self) -> Value {
        Value::Seq(vec![
            Some(self.f0.to_value()),
            Some(self.f1.to_value()),
            Some(self.f2.to_value()),
            self.f3.as_ref().map(|x| x.to_value()),
            self.f4.as_ref().map(|x| x.to_value()),
        ])
    }
}
impl FromValue for Ts5mdmmoe4 {
    fn from_value(v: &Value) -> Self {
        let s = match v { Value::Seq(s) => s, other => panic!("Ts5mdmmoe4: expected Seq, got {other:?}") };
        assert_eq!(s.len(), 5, "Ts5mdmmoe4: component count");
        let _ = s;
        Ts5mdmmoe4 {
            f0: FromValue::from_value(s[0].as_ref().expect("component f0 of Ts5mdmmoe4 must be present")),
            f1: FromValue::from_value(s[1].as_ref().expect("component f1 of Ts5mdmmoe4 must be present")),
            f2: FromValue::from_value(s[2].as_ref().expect("component f2 of Ts5mdmmoe4 must be present")),
            f3: FromValue::from_value(s[3].as_ref().expect("component f3 of Ts5mdmmoe4 must be present")),
            f4: s[4].as_ref().map(FromValue::from_value),
        }
    }
}
impl ToValue for Ts5mdmmoe4 {
    fn to_value(&self) -> Value {
        Value::Seq(vec![
            Some(self.f0.to_value()),
            Some(self.f1.to_value()),
            Some(self.f2.to_value()),
            Some(self.f3.to_value()),
            self.f4.as_ref().map(|x| x.to_value()),
        ])
    }
}
impl FromValue for Ts5mdmmoe5 {
    fn from_value(v: &Value) -> Self {
        let s = match v { Value::Seq(s) => s, other => panic!("Ts5mdmmoe5: expected Seq, got {other:?}") };
        assert_eq!(s.len(), 5, "Ts5mdmmoe5: component count");
        let _ = s;
        Ts5mdmmoe5 {
            f0: FromValue::from_value(s[0].as_ref().expect("component f0 of Ts5mdmmoe5 must be present")),
            f1: FromValue::from_value(s[1].as_ref().expect("component f1 of Ts5mdmmoe5 must be present")),
            f2: FromValue::from_value(s[2].as_ref().expect("component f2 of Ts5mdmmoe5 must be present")),
            f3: FromValue::from_value(s[3].as_ref().expect("component f3 of Ts5mdmmoe5 must be present")),
            f4: s[4].as_ref().map(FromValue::from_value),
        }
    }
}
impl ToValue for Ts5mdmmoe5 {
    fn to_value(&self) -> Value {
        Value::Seq(vec![
            Some(self.f0.to_value()),
            Some(self.f1.to_value()),
            Some(self.f2.to_value()),
            Some(self.f3.to_value()),
            self.f4.as_ref().map(|x| x.to_value()),
        ])
    }
}
impl FromValue for Ts5odmmon {
    fn from_value(v: &Value) -> Self {
        let s = match v { Value::Seq(s) => s, other => panic!("Ts5odmmon: expected Seq, got {other:?}") };
        assert_eq!(s.len(), 5, "Ts5odmmon: component count");
        let _ = s;
        Ts5odmmon {
            f0: s[0].as_ref().map(FromValue::from_value),
            f1: FromValue::from_value(s[1].as_ref().expect("component f1 of Ts5odmmon must be present")),
            f2: FromValue::from_value(s[2].as_ref().expect("component f2 of Ts5odmmon must be present")),
            f3: FromValue::from_value(s[3].as_ref().expect("component f3 of Ts5odmmon must be present")),
            f4: s[4].as_ref().map(FromValue::from_value),
        }
    }
}
impl ToValue for Ts5odmmon {
    fn to_value(&self) -> Value {
        Value::Seq(vec![
            self.f0.as_ref().map(|x| x.to_value()),
            Some(self.f1.to_value()),
            Some(self.f2.to_value()),
            Some(self.f3.to_value()),
            self.f4.as_ref().map(|x| x.to_value()),
        ])
    }
}
impl FromValue for Ts5odmmoe0 {
    fn from_value(v: &Value) -> Self {
        let s = match v { Value::Seq(s) => s, other => panic!("Ts5odmmoe0: expected Seq, got {other:?}") };
        assert_eq!(s.len(), 5, "Ts5odmmoe0: component count");
        let _ = s;
        Ts5odmmoe0 {
            f0: s[0].as_ref().map(FromValue::from_value),
            f1: FromValue::from_value(s[1].as_ref().expect("component f1 of Ts5odmmoe0 must be present")),
            f2: s[2].as_ref().map(FromValue::from_value),
            f3: s[3].as_ref().map(FromValue::from_value),
            f4: s[4].as_ref().map(FromValue::from_value),
        }
    }
}
impl ToValue for Ts5odmmoe0 {
    fn to_value(&self) -> Value {
        Value::Seq(vec![
            self.f0.as_ref().map(|x| x.to_value()),
            Some(self.f1.to_value()),
            self.f2.as_ref().map(|x| x.to_value()),
            self.f3.as_ref().map(|x| x.to_value()),
            self.f4.as_ref().map(|x| x.to_value()),
        ])
    }
}
impl FromValue for Ts5odmmoe1 {
    fn from_value(v: &Value) -> Self {
        let s = match v { Value::Seq(s) => s, other => panic!("Ts5odmmoe1: expected Seq, got {other:?}") };
        assert_eq!(s.len(), 5, "Ts5odmmoe1: component count");
        let _ = s;
        Ts5odmmoe1 {
            f0: s[0].as_ref().map(FromValue::from_value),
            f1: FromValue::from_value(s[1].as_ref().expect("component f1 of Ts5odmmoe1 must be present")),
            f2: s[2].as_ref().map(FromValue::from_value),
            f3: s[3].as_ref().map(FromValue::from_value),
            f4: s[4].as_ref().map(FromValue::from_value),
        }
    }
}
impl ToValue for Ts5odmmoe1 {
    fn to_value(&self) -> Value {
        Value::Seq(vec![
            self.f0.as_ref().map(|x| x.to_value()),
            Some(self.f1.to_value()),
            self.f2.as_ref().map(|x| x.to_value()),
            self.f3.as_ref().map(|x| x.to_value()),
            self.f4.as_ref().map(|x| x.to_value()),
        ])
    }
}
impl FromValue for Ts5odmmoe2 {
    fn from_value(v: &Value) -> Self {
        let s = match v { Value::Seq(s) => s, other => panic!("Ts5odmmoe2: expected Seq, got {other:?}") };
        assert_eq!(s.len(), 5, "Ts5odmmoe2: component count");
        let _ = s;
        Ts5odmmoe2 {
            f0: s[0].as_ref().map(FromValue::from_value),
            f1: FromValue::from_value(s[1].as_ref().expect("component f1 of Ts5odmmoe2 must be present")),
            f2: s[2].as_ref().map(FromValue::from_value),
            f3: s[3].as_ref().map(FromValue::from_value),
            f4: s[4].as_ref().map(FromValue::from_value),
        }
    }
}
impl ToValue for Ts5odmmoe2 {
    fn to_value(&self) -> Value {
        Value::Seq(vec![
            self.f0.as_ref().map(|x| x.to_value()),
            Some(self.f1.to_value()),
            self.f2.as_ref().map(|x| x.to_value()),
            self.f3.as_ref().map(|x| x.to_value()),
            self.f4.as_ref().map(|x| x.to_value()),
        ])
    }
}
impl FromValue for Ts5odmmoe3 {
    fn from_value(v: &Value) -> Self {
        let s = match v { Value::Seq(s) => s, other => panic!("Ts5odmmoe3: expected Seq, got {other:?}") };
        assert_eq!(s.len(), 5, "Ts5odmmoe3: component count");
        let _ = s;
        Ts5odmmoe3 {
            f0: s[0].as_ref().map(FromValue::from_value),
            f1: FromValue::from_value(s[1].as_ref().expect("component f1 of Ts5odmmoe3 must be present")),
            f2: FromValue::from_value(s[2].as_ref().expect("component f2 of Ts5odmmoe3 must be present")),
            f3: s[3].as_ref().map(FromValue::from_value),
            f4: s[4].as_ref().map(FromValue::from_value),
        }
    }
}
impl ToValue for Ts5odmmoe3 {
    fn to_value(&self) -> Value {
        Value::Seq(vec![
            self.f0.as_ref().map(|x| x.to_value()),
            Some(self.f1.to_value()),
            Some(self.f2.to_value()),
            self.f3.as_ref().map(|x| x.to_value()),
            self.f4.as_ref().map(|x| x.to_value()),
        ])
    }
}
impl FromValue for Ts5odmmoe4 {
    fn from_value(v: &Value) -> Self {
        let s = match v { Value::Seq(s) => s, other => panic!("Ts5odmmoe4: expected Seq, got {other:?}") };
        assert_eq!(s.len(), 5, "Ts5odmmoe4: component count");
        let _ = s;
        Ts5odmmoe4 {
            f0: s[0].as_ref().map(FromValue::from_value),
            f1: FromValue::from_value(s[1].as_ref().expect("component f1 of Ts5odmmoe4 must be present")),
            f2: FromValue::from_value(s[2].as_ref().expect("component f2 of Ts5odmmoe4 must be present")),
            f3: FromValue::from_value(s[3].as_ref().expect("component f3 of Ts5odmmoe4 must be present")),
            f4: s[4].as_ref().map(FromValue::from_value),
        }
    }
}
impl ToValue for Ts5odmmoe4 {
    fn to_value(&self) -> Value {
        Value::Seq(vec![
            self.f0.as_ref().map(|x| x.to_value()),
            Some(self.f1.to_value()),
            Some(self.f2.to_value()),
            Some(self.f3.to_value()),
            self.f4.as_ref().map(|x| x.to_value()),
        ])
    }
}
impl FromValue for Ts5odmmoe5 {
    fn from_value(v: &Value) -> Self {
        let s = match v { Value::Seq(s) => s, other => panic!("Ts5odmmoe5: expected Seq, got {other:?}") };
        assert_eq!(s.len(), 5, "Ts5odmmoe5: component count");
        let _ = s;
        Ts5odmmoe5 {
            f0: s[0].as_ref().map(FromValue::from_value),
            f1: FromValue::from_value(s[1].as_ref().expect("component f1 of Ts5odmmoe5 must be present")),
            f2: FromValue::from_value(s[2].as_ref().expect("component f2 of Ts5odmmoe5 must be present")),
            f3: FromValue::from_value(s[3].as_ref().expect("component f3 of Ts5odmmoe5 must be present")),
            f4: s[4].as_ref().map(FromValue::from_value),
        }
    }
}
impl ToValue for Ts5odmmoe5 {
    fn to_value(&self) -> Value {
        Value::Seq(vec![
            self.f0.as_ref().map(|x| x.to_value()),
            Some(self.f1.to_value()),
            Some(self.f2.to_value()),
            Some(self.f3.to_value()),
            self.f4.as_ref().map(|x| x.to_value()),
        ])
    }
}
impl FromValue for Ts5ddmmon {
    fn from_value(v: &Value) -> Self {
        let s = match v { Value::Seq(s) => s, other => panic!("Ts5ddmmon: expected Seq, got {other:?}") };
        assert_eq!(s.len(), 5, "Ts5ddmmon: component count");
        let _ = s;
        Ts5ddmmon {
            f0: FromValue::from_value(s[0].as_ref().expect("component f0 of Ts5ddmmon must be present")),
            f1: FromValue::from_value(s[1].as_ref().expect("component f1 of Ts5ddmmon must be present")),
            f2: FromValue::from_value(s[2].as_ref().expect("component f2 of Ts5ddmmon must be present")),
            f3: FromValue::from_value(s[3].as_ref().expect("component f3 of Ts5ddmmon must be present")),
            f4: s[4].as_ref().map(FromValue::from_value),
        }
    }
}
impl ToValue for Ts5ddmmon {
    fn to_value(&self) -> Value {
        Value::Seq(vec![
            Some(self.f0.to_value()),
            Some(self.f1.to_value()),
            Some(self.f2.to_value()),
            Some(self.f3.to_value()),
            self.f4.as_ref().map(|x| x.to_value()),
        ])
    }
}
impl FromValue for Ts5ddmmoe0 {
    fn from_value(v: &Value) -> Self {
        let s = match v { Value::Seq(s) => s, other => panic!("Ts5ddmmoe0: expected Seq, got {other:?}") };
        assert_eq!(s.len(), 5, "Ts5ddmmoe0: component count");
        let _ = s;
        Ts5ddmmoe0 {
            f0: FromValue::from_value(s[0].as_ref().expect("component f0 of Ts5ddmmoe0 must be present")),
            f1: FromValue::from_value(s[1].as_ref().expect("component f1 of Ts5ddmmoe0 must be present")),
            f2: s[2].as_ref().map(FromValue::from_value),
            f3: s[3].as_ref().map(FromValue::from_value),
            f4: s[4].as_ref().map(FromValue::from_value),
        }
    }
}
impl ToValue for Ts5ddmmoe0 {
    fn to_value(&self) -> Value {
        Value::Seq(vec![
            Some(self.f0.to_value()),
            Some(self.f1.to_value()),
            self.f2.as_ref().map(|x| x.to_value()),
            self.f3.as_ref().map(|x| x.to_value()),
            self.f4.as_ref().map(|x| x.to_value()),
        ])
    }
}
impl FromValue for Ts5ddmmoe1 {
    fn from_value(v: &Value) -> Self {
        let s = match v { Value::Seq(s) => s, other => panic!("Ts5ddmmoe1: expected Seq, got {other:?}") };
        assert_eq!(s.len(), 5, "Ts5ddmmoe1: component count");
        let _ = s;
        Ts5ddmmoe1 {
            f0: FromValue::from_value(s[0].as_ref().expect("component f0 of Ts5ddmmoe1 must be present")),
            f1: FromValue::from_value(s[1].as_ref().expect("component f1 of Ts5ddmmoe1 must be present")),
            f2: s[2].as_ref().map(FromValue::from_value),
            f3: s[3].as_ref().map(FromValue::from_value),
            f4: s[4].as_ref().map(FromValue::from_value),
        }
    }
}
impl ToValue for Ts5ddmmoe1 {
    fn to_value(&self) -> Value {
        Value::Seq(vec![
            Some(self.f0.to_value()),
            Some(self.f1.to_value()),
            self.f2.as_ref().map(|x| x.to_value()),
            self.f3.as_ref().map(|x| x.to_value()),
            self.f4.as_ref().map(|x| x.to_value()),
        ])
    }
}
impl FromValue for Ts5ddmmoe2 {
    fn from_value(v: &Value) -> Self {
        let s = match v { Value::Seq(s) => s, other => panic!("Ts5ddmmoe2: expected Seq, got {other:?}") };
        assert_eq!(s.len(), 5, "Ts5ddmmoe2: component count");
        let _ = s;
        Ts5ddmmoe2 {
            f0: FromValue::from_value(s[0].as_ref().expect("component f0 of Ts5ddmmoe2 must be present")),
            f1: FromValue::from_value(s[1].as_ref().expect("component f1 of Ts5ddmmoe2 must be present")),
            f2: s[2].as_ref().map(FromValue::from_value),
            f3: s[3].as_ref().map(FromValue::from_value),
            f4: s[4].as_ref().map(FromValue::from_value),
        }
    }
}
impl ToValue for Ts5ddmmoe2 {
    fn to_value(&self) -> Value {
        Value::Seq(vec![
            Some(self.f0.to_value()),
            Some(self.f1.to_value()),
            self.f2.as_ref().map(|x| x.to_value()),
            self.f3.as_ref().map(|x| x.to_value()),
            self.f4.as_ref().map(|x| x.to_value()),
        ])
    }
}
impl FromValue for Ts5ddmmoe3 {
    fn from_value(v: &Value) -> Self {
        let s = match v { Value::Seq(s) => s, other => panic!("Ts5ddmmoe3: expected Seq, got {other:?}") };
        assert_eq!(s.len(), 5, "Ts5ddmmoe3: component count");
        let _ = s;
        Ts5ddmmoe3 {
            f0: FromValue::from_value(s[0].as_ref().expect("component f0 of Ts5ddmmoe3 must be present")),
            f1: FromValue::from_value(s[1].as_ref().expect("component f1 of Ts5ddmmoe3 must be present")),
            f2: FromValue::from_value(s[2].as_ref().expect("component f2 of Ts5ddmmoe3 must be present")),
            f3: s[3].as_ref().map(FromValue::from_value),
            f4: s[4].as_ref().map(FromValue::from_value),
        }
    }
}
impl ToValue for Ts5ddmmoe3 {
    fn to_value(&self) -> Value {
        Value::Seq(vec![
            Some(self.f0.to_value()),
            Some(self.f1.to_value()),
            Some(self.f2.to_value()),
            self.f3.as_ref().map(|x| x.to_value()),
            self.f4.as_ref().map(|x| x.to_value()),
        ])
    }
}
impl FromValue for Ts5ddmmoe4 {
    fn from_value(v: &Value) -> Self {
        let s = match v { Value::Seq(s) => s, other => panic!("Ts5ddmmoe4: expected Seq, got {other:?}") };
        assert_eq!(s.len(), 5, "Ts5ddmmoe4: component count");
        let _ = s;
        Ts5ddmmoe4 {
            f0: FromValue::from_value(s[0].as_ref().expect("component f0 of Ts5ddmmoe4 must be present")),
            f1: FromValue::from_value(s[1].as_ref().expect("component f1 of Ts5ddmmoe4 must be present")),
            f2: FromValue::from_value(s[2].as_ref().expect("component f2 of Ts5ddmmoe4 must be present")),
            f3: FromValue::from_value(s[3].as_ref().expect("component f3 of Ts5ddmmoe4 must be present")),
            f4: s[4].as_ref().map(FromValue::from_value),
        }
    }
}
impl ToValue for Ts5ddmmoe4 {
    fn to_value(&self) -> Value {
        Value::Seq(vec![
            Some(self.f0.to_value()),
            Some(self.f1.to_value()),
            Some(self.f2.to_value()),
            Some(self.f3.to_value()),
            self.f4.as_ref().map(|x| x.to_value()),
        ])
    }
}
impl FromValue for Ts5ddmmoe5 {
    fn from_value(v: &Value) -> Self {
        let s = match v { Value::Seq(s) => s, other => panic!("Ts5ddmmoe5: expected Seq, got {other:?}") };
        assert_eq!(s.len(), 5, "Ts5ddmmoe5: component count");
        let _ = s;
        Ts5ddmmoe5 {
            f0: FromValue::from_value(s[0].as_ref().expect("component f0 of Ts5ddmmoe5 must be present")),
            f1: FromValue::from_value(s[1].as_ref().expect("component f1 of Ts5ddmmoe5 must be present")),
            f2: FromValue::from_value(s[2].as_ref().expect("component f2 of Ts5ddmmoe5 must be present")),
            f3: FromValue::from_value(s[3].as_ref().expect("component f3 of Ts5ddmmoe5 must be present")),
            f4: s[4].as_ref().map(FromValue::from_value),
        }
    }
}
impl ToValue for Ts5ddmmoe5 {
    fn to_value(&self) -> Value {
        Value::Seq(vec![
            Some(self.f0.to_value()),
            Some(self.f1.to_value()),
            Some(self.f2.to_value()),
            Some(self.f3.to_value()),
            self.f4.as_ref().map(|x| x.to_value()),
        ])
    }
}
impl FromValue for Ts5mmomon {
    fn from_value(v: &Value) -> Self {
        let s = match v { Value::Seq(s) => s, other => panic!("Ts5mmomon: expected Seq, got {other:?}") };
        assert_eq!(s.len(), 5, "Ts5mmomon: component count");
        let _ = s;
        Ts5mmomon {
            f0: FromValue::from_value(s[0].as_ref().expect("component f0 of Ts5mmomon must be present")),
            f1: FromValue::from_value(s[1].as_ref().expect("component f1 of Ts5mmomon must be present")),
            f2: s[2].as_ref().map(FromValue::from_value),
            f3: FromValue::from_value(s[3].as_ref().expect("component f3 of Ts5mmomon must be present")),
            f4: s[4].as_ref().map(FromValue::from_value),
        }
    }
}
impl ToValue for Ts5mmomon {
    fn to_value(&self) -> Value {
        Value::Seq(vec![
            Some(self.f0.to_value()),
            Some(self.f1.to_value()),
            self.f2.as_ref().map(|x| x.to_value()),
            Some(self.f3.to_value()),
            self.f4.as_ref().map(|x| x.to_value()),
        ])
    }
}
impl FromValue for Ts5mmomoe0 {
    fn from_value(v: &Value) -> Self {
        let s = match v { Value::Seq(s) => s, other => panic!("Ts5mmomoe0: expected Seq, got {other:?}") };
        assert_eq!(s.len(), 5, "Ts5mmomoe0: component count");
        let _ = s;
        Ts5mmomoe0 {
            f0: FromValue::from_value(s[0].as_ref().expect("component f0 of Ts5mmomoe0 must be present")),
            f1: s[1].as_ref().map(FromValue::from_value),
            f2: s[2].as_ref().map(FromValue::from_value),
            f3: s[3].as_ref().map(FromValue::from_value),
            f4: s[4].as_ref().map(FromValue::from_value),
        }
    }
}
impl ToValue for Ts5mmomoe0 {
    fn to_value(&self) -> Value {
        Value::Seq(vec![
            Some(self.f0.to_value()),
            self.f1.as_ref().map(|x| x.to_value()),
            self.f2.as_ref().map(|x| x.to_value()),
            self.f3.as_ref().map(|x| x.to_value()),
            self.f4.as_ref().map(|x| x.to_value()),
        ])
    }
}
impl FromValue for Ts5mmomoe1 {
    fn from_value(v: &Value) -> Self {
        let s = match v { Value::Seq(s) => s, other => panic!("Ts5mmomoe1: expected Seq, got {other:?}") };
        assert_eq!(s.len(), 5, "Ts5mmomoe1: component count");
        let _ = s;
        Ts5mmomoe1 {
            f0: FromValue::from_value(s[0].as_ref().expect("component f0 of Ts5mmomoe1 must be present")),
            f1: s[1].as_ref().map(FromValue::from_value),
            f2: s[2].as_ref().map(FromValue::from_value),
            f3: s[3].as_ref().map(FromValue::from_value),
            f4: s[4].as_ref().map(FromValue::from_value),
        }
    }
}
impl ToValue for Ts5mmomoe1 {
    fn to_value(&self) -> Value {
        Value::Seq(vec![
            Some(self.f0.to_value()),
            self.f1.as_ref().map(|x| x.to_value()),
            self.f2.as_ref().map(|x| x.to_value()),
            self.f3.as_ref().map(|x| x.to_value()),
            self.f4.as_ref().map(|x| x.to_value()),
        ])
    }
}
impl FromValue for Ts5mmomoe2 {
    fn from_value(v: &Value) -> Self {
        let s = match v { Value::Seq(s) => s, other => panic!("Ts5mmomoe2: expected Seq, got {other:?}") };
        assert_eq!(s.len(), 5, "Ts5mmomoe2: component count");
        let _ = s;
        Ts5mmomoe2 {
            f0: FromValue::from_value(s[0].as_ref().expect("component f0 of Ts5mmomoe2 must be present")),
            f1: FromValue::from_value(s[1].as_ref().expect("component f1 of Ts5mmomoe2 must be present")),
            f2: s[2].as_ref().map(FromValue::from_value),
            f3: s[3].as_ref().map(FromValue::from_value),
            f4: s[4].as_ref().map(FromValue::from_value),
        }
    }
}
impl ToValue for Ts5mmomoe2 {
    fn to_value(&self) -> Value {
        Value::Seq(vec![
            Some(self.f0.to_value()),
            Some(self.f1.to_value()),
            self.f2.as_ref().map(|x| x.to_value()),
            self.f3.as_ref().map(|x| x.to_value()),
            self.f4.as_ref().map(|x| x.to_value()),
        ])
    }
}
impl FromValue for Ts5mmomoe3 {
    fn from_value(v: &Value) -> Self {
        let s = match v { Value::Seq(s) => s, other => panic!("Ts5mmomoe3: expected Seq, got {other:?}") };
        assert_eq!(s.len(), 5, "Ts5mmomoe3: component count");
        let _ = s;
        Ts5mmomoe3 {
            f0: FromValue::from_value(s[0].as_ref().expect("component f0 of Ts5mmomoe3 must be present")),
            f1: FromValue::from_value(s[1].as_ref().expect("component f1 of Ts5mmomoe3 must be present")),
            f2: s[2].as_ref().map(FromValue::from_value),
            f3: s[3].as_ref().map(FromValue::from_value),
            f4: s[4].as_ref().map(FromValue::from_value),
        }
    }
}
impl ToValue for Ts5mmomoe3 {
    fn to_value(&self) -> Value {
        Value::Seq(vec![
            Some(self.f0.to_value()),
            Some(self.f1.to_value()),
            self.f2.as_ref().map(|x| x.to_value()),
            self.f3.as_ref().map(|x| x.to_value()),
            self.f4.as_ref().map(|x| x.to_value()),
        ])
    }
}
impl FromValue for Ts5mmomoe4 {
    fn from_value(v: &Value) -> Self {
        let s = match v { Value::Seq(s) => s, other => panic!("Ts5mmomoe4: expected Seq, got {other:?}") };
        assert_eq!(s.len(), 5, "Ts5mmomoe4: component count");
        let _ = s;
        Ts5mmomoe4 {
            f0: FromValue::from_value(s[0].as_ref().expect("component f0 of Ts5mmomoe4 must be present")),
            f1: FromValue::from_value(s[1].as_ref().expect("component f1 of Ts5mmomoe4 must be present")),
            f2: s[2].as_ref().map(FromValue::from_value),
            f3: FromValue::from_value(s[3].as_ref().expect("component f3 of Ts5mmomoe4 must be present")),
            f4: s[4].as_ref().map(FromValue::from_value),
        }
    }
}
impl ToValue for Ts5mmomoe4 {
    fn to_value(&self) -> Value {
        Value::Seq(vec![
            Some(self.f0.to_value()),
            Some(self.f1.to_value()),
            self.f2.as_ref().map(|x| x.to_value()),
            Some(self.f3.to_value()),
            self.f4.as_ref().map(|x| x.to_value()),
        ])
    }
}
impl FromValue for Ts5mmomoe5 {
    fn from_value(v: &Value) -> Self {
        let s = match v { Value::Seq(s) => s, other => panic!("Ts5mmomoe5: expected Seq, got {other:?}") };
        assert_eq!(s.len(), 5, "Ts5mmomoe5: component count");
        let _ = s;
        Ts5mmomoe5 {
            f0: FromValue::from_value(s[0].as_ref().expect("component f0 of Ts5mmomoe5 must be present")),
            f1: FromValue::from_value(s[1].as_ref().expect("component f1 of Ts5mmomoe5 must be present")),
            f2: s[2].as_ref().map(FromValue::from_value),
            f3: FromValue::from_value(s[3].as_ref().expect("component f3 of Ts5mmomoe5 must be present")),
            f4: s[4].as_ref().map(FromValue::from_value),
        }
    }
}
impl ToValue for Ts5mmomoe5 {
    fn to_value(&self) -> Value {
        Value::Seq(vec![
            Some(self.f0.to_value()),
            Some(self.f1.to_value()),
            self.f2.as_ref().map(|x| x.to_value()),
            Some(self.f3.to_value()),
            self.f4.as_ref().map(|x| x.to_value()),
        ])
    }
}
impl FromValue for Ts5omomon {
    fn from_value(v: &Value) -> Self {
        let s = match v { Value::Seq(s) => s, other => panic!("Ts5omomon: expected Seq, got {other:?}") };
        assert_eq!(s.len(), 5, "Ts5omomon: component count");
        let _ = s;
        Ts5omomon {
            f0: s[0].as_ref().map(FromValue::from_value),
            f1: FromValue::from_value(s[1].as_ref().expect("component f1 of Ts5omomon must be present")),
            f2: s[2].as_ref().map(FromValue::from_value),
            f3: FromValue::from_value(s[3].as_ref().expect("component f3 of Ts5omomon must be present")),
            f4: s[4].as_ref().map(FromValue::from_value),
        }
    }
}
impl ToValue for Ts5omomon {
    fn to_value(&self) -> Value {
        Value::Seq(vec![
            self.f0.as_ref().map(|x| x.to_value()),
            Some(self.f1.to_value()),
            self.f2.as_ref().map(|x| x.to_value()),
            Some(self.f3.to_value()),
            self.f4.as_ref().map(|x| x.to_value()),
        ])
    }
}
impl FromValue for Ts5omomoe0 {
    fn from_value(v: &Value) -> Self {
        let s = match v { Value::Seq(s) => s, other => panic!("Ts5omomoe0: expected Seq, got {other:?}") };
        assert_eq!(s.len(), 5, "Ts5omomoe0: component count");
        let _ = s;
        Ts5omomoe0 {
            f0: s[0].as_ref().map(FromValue::from_value),
            f1: s[1].as_ref().map(FromValue::from_value),
            f2: s[2].as_ref().map(FromValue::from_value),
            f3: s[3].as_ref().map(FromValue::from_value),
            f4: s[4].as_ref().map(FromValue::from_value),
        }
    }
}
impl ToValue for Ts5omomoe0 {
    fn to_value(&self) -> Value {
        Value::Seq(vec![
            self.f0.as_ref().map(|x| x.to_value()),
            self.f1.as_ref().map(|x| x.to_value()),
            self.f2.as_ref().map(|x| x.to_value()),
            self.f3.as_ref().map(|x| x.to_value()),
            self.f4.as_ref().map(|x| x.to_value()),
        ])
    }
}
impl FromValue for Ts5omomoe1 {
    fn from_value(v: &Value) -> Self {
        let s = match v { Value::Seq(s) => s, other => panic!("Ts5omomoe1: expected Seq, got {other:?}") };
        assert_eq!(s.len(), 5, "Ts5omomoe1: component count");
        let _ = s;
        Ts5omomoe1 {
            f0: s[0].as_ref().map(FromValue::from_value),
            f1: s[1].as_ref().map(FromValue::from_value),
            f2: s[2].as_ref().map(FromValue::from_value),
            f3: s[3].as_ref().map(FromValue::from_value),
            f4: s[4].as_ref().map(FromValue::from_value),
        }
    }
}
impl ToValue for Ts5omomoe1 {
    fn to_value(&self) -> Value {
        Value::Seq(vec![
            self.f0.as_ref().map(|x| x.to_value()),
            self.f1.as_ref().map(|x| x.to_value()),
            self.f2.as_ref().map(|x| x.to_value()),
            self.f3.as_ref().map(|x| x.to_value()),
            self.f4.as_ref().map(|x| x.to_value()),
        ])
    }
}
impl FromValue for Ts5omomoe2 {
    fn from_value(v: &Value) -> Self {
        let s = match v { Value::Seq(s) => s, other => panic!("Ts5omomoe2: expected Seq, got {other:?}") };
        assert_eq!(s.len(), 5, "Ts5omomoe2: component count");
        let _ = s;
        Ts5omomoe2 {
            f0: s[0].as_ref().map(FromValue::from_value),
            f1: FromValue::from_value(s[1].as_ref().expect("component f1 of Ts5omomoe2 must be present")),
            f2: s[2].as_ref().map(FromValue::from_value),
            f3: s[3].as_ref().map(FromValue::from_value),
            f4: s[4].as_ref().map(FromValue::from_value),
        }
    }
}
impl ToValue for Ts5omomoe2 {
    fn to_value(&self) -> Value {
        Value::Seq(vec![
            self.f0.as_ref().map(|x| x.to_value()),
            Some(self.f1.to_value()),
            self.f2.as_ref().map(|x| x.to_value()),
            self.f3.as_ref().map(|x| x.to_value()),
            self.f4.as_ref().map(|x| x.to_value()),
        ])
    }
}
impl FromValue for Ts5omomoe3 {
    fn from_value(v: &Value) -> Self {
        let s = match v { Value::Seq(s) => s, other => panic!("Ts5omomoe3: expected Seq, got {other:?}") };
        assert_eq!(s.len(), 5, "Ts5omomoe3: component count");
        let _ = s;
        Ts5omomoe3 {
            f0: s[0].as_ref().map(FromValue::from_value),
            f1: FromValue::from_value(s[1].as_ref().expect("component f1 of Ts5omomoe3 must be present")),
            f2: s[2].as_ref().map(FromValue::from_value),
            f3: s[3].as_ref().map(FromValue::from_value),
            f4: s[4].as_ref().map(FromValue::from_value),
        }
    }
}
impl ToValue for Ts5omomoe3 {
    fn to_value(&self) -> Value {
        Value::Seq(vec![
            self.f0.as_ref().map(|x| x.to_value()),
            Some(self.f1.to_value()),
            self.f2.as_ref().map(|x| x.to_value()),
            self.f3.as_ref().map(|x| x.to_value()),
            self.f4.as_ref().map(|x| x.to_value()),
        ])
    }
}
impl FromValue for Ts5omomoe4 {
    fn from_value(v: &Value) -> Self {
        let s = match v { Value::Seq(s) => s, other => panic!("Ts5omomoe4: expected Seq, got {other:?}") };
        assert_eq!(s.len(), 5, "Ts5omomoe4: component count");
        let _ = s;
        Ts5omomoe4 {
            f0: s[0].as_ref().map(FromValue::from_value),
            f1: FromValue::from_value(s[1].as_ref().expect("component f1 of Ts5omomoe4 must be present")),
            f2: s[2].as_ref().map(FromValue::from_value),
            f3: FromValue::from_value(s[3].as_ref().expect("component f3 of Ts5omomoe4 must be present")),
            f4: s[4].as_ref().map(FromValue::from_value),
        }
    }
}
impl ToValue for Ts5omomoe4 {
    fn to_value(&self) -> Value {
        Value::Seq(vec![
            self.f0.as_ref().map(|x| x.to_value()),
            Some(self.f1.to_value()),
            self.f2.as_ref().map(|x| x.to_value()),
            Some(self.f3.to_value()),
            self.f4.as_ref().map(|x| x.to_value()),
        ])
    }
}
impl FromValue for Ts5omomoe5 {
    fn from_value(v: &Value) -> Self {
        let s = match v { Value::Seq(s) => s, other => panic!("Ts5omomoe5: expected Seq, got {other:?}") };
        assert_eq!(s.len(), 5, "Ts5omomoe5: component count");
        let _ = s;
        Ts5omomoe5 {
            f0: s[0].as_ref().map(FromValue::from_value),
            f1: FromValue::from_value(s[1].as_ref().expect("component f1 of Ts5omomoe5 must be present")),
            f2: s[2].as_ref().map(FromValue::from_value),
            f3: FromValue::from_value(s[3].as_ref().expect("component f3 of Ts5omomoe5 must be present")),
            f4: s[4].as_ref().map(FromValue::from_value),
        }
    }
}
impl ToValue for Ts5omomoe5 {
    fn to_value(&self) -> Value {
        Value::Seq(vec![
            self.f0.as_ref().map(|x| x.to_value()),
            Some(self.f1.to_value()),
            self.f2.as_ref().map(|x| x.to_value()),
            Some(self.f3.to_value()),
            self.f4.as_ref().map(|x| x.to_value()),
        ])
    }
}
impl FromValue for Ts5dmomon {
    fn from_value(v: &Value) -> Self {
        let s = match v { Value::Seq(s) => s, other => panic!("Ts5dmomon: expected Seq, got {other:?}") };
        assert_eq!(s.len(), 5, "Ts5dmomon: component count");
        let _ = s;
        Ts5dmomon {
            f0: FromValue::from_value(s[0].as_ref().expect("component f0 of Ts5dmomon must be present")),
            f1: FromValue::from_value(s[1].as_ref().expect("component f1 of Ts5dmomon must be present")),
            f2: s[2].as_ref().map(FromValue::from_value),
            f3: FromValue::from_value(s[3].as_ref().expect("component f3 of Ts5dmomon must be present")),
            f4: s[4].as_ref().map(FromValue::from_value),
        }
    }
}
impl ToValue for Ts5dmomon {
    fn to_value(&self) -> Value {
        Value::Seq(vec![
            Some(self.f0.to_value()),
            Some(self.f1.to_value()),
            self.f2.as_ref().map(|x| x.to_value()),
            Some(self.f3.to_value()),
            self.f4.as_ref().map(|x| x.to_value()),
        ])
    }
}
impl FromValue for Ts5dmomoe0 {
    fn from_value(v: &Value) -> Self {
        let s = match v { Value::Seq(s) => s, other => panic!("Ts5dmomoe0: expected Seq, got {other:?}") };
        assert_eq!(s.len(), 5, "Ts5dmomoe0: component count");
        let _ = s;
        Ts5dmomoe0 {
            f0: FromValue::from_value(s[0].as_ref().expect("component f0 of Ts5dmomoe0 must be present")),
            f1: s[1].as_ref().map(FromValue::from_value),
            f2: s[2].as_ref().map(FromValue::from_value),
            f3: s[3].as_ref().map(FromValue::from_value),
            f4: s[4].as_ref().map(FromValue::from_value),
        }
    }
}
impl ToValue for Ts5dmomoe0 {
    fn to_value(&self) -> Value {
        Value::Seq(vec![
            Some(self.f0.to_value()),
            self.f1.as_ref().map(|x| x.to_value()),
            self.f2.as_ref().map(|x| x.to_value()),
            self.f3.as_ref().map(|x| x.to_value()),
            self.f4.as_ref().map(|x| x.to_value()),
        ])
    }
}
impl FromValue for Ts5dmomoe1 {
    fn from_value(v: &Value) -> Self {
        let s = match v { Value::Seq(s) => s, other => panic!("Ts5dmomoe1: expected Seq, got {other:?}") };
        assert_eq!(s.len(), 5, "Ts5dmomoe1: component count");
        let _ = s;
        Ts5dmomoe1 {
            f0: FromValue::from_value(s[0].as_ref().expect("component f0 of Ts5dmomoe1 must be present")),
            f1: s[1].as_ref().map(FromValue::from_value),
            f2: s[2].as_ref().map(FromValue::from_value),
            f3: s[3].as_ref().map(FromValue::from_value),
            f4: s[4].as_ref().map(FromValue::from_value),
        }
    }
}
impl ToValue for Ts5dmomoe1 {
    fn to_value(&self) -> Value {
        Value::Seq(vec![
            Some(self.f0.to_value()),
            self.f1.as_ref().map(|x| x.to_value()),
            self.f2.as_ref().map(|x| x.to_value()),
            self.f3.as_ref().map(|x| x.to_value()),
            self.f4.as_ref().map(|x| x.to_value()),
        ])
    }
}
impl FromValue for Ts5dmomoe2 {
    fn from_value(v: &Value) -> Self {
        let s = match v { Value::Seq(s) => s, other => panic!("Ts5dmomoe2: expected Seq, got {other:?}") };
        assert_eq!(s.len(), 5, "Ts5dmomoe2: component count");
        let _ = s;
        Ts5dmomoe2 {
            f0: FromValue::from_value(s[0].as_ref().expect("component f0 of Ts5dmomoe2 must be present")),
            f1: FromValue::from_value(s[1].as_ref().expect("component f1 of Ts5dmomoe2 must be present")),
            f2: s[2].as_ref().map(FromValue::from_value),
            f3: s[3].as_ref().map(FromValue::from_value),
            f4: s[4].as_ref().map(FromValue::from_value),
        }
    }
}
impl ToValue for Ts5dmomoe2 {
    fn to_value(&self) -> Value {
        Value::Seq(vec![
            Some(self.f0.to_value()),
            Some(self.f1.to_value()),
            self.f2.as_ref().map(|x| x.to_value()),
            self.f3.as_ref().map(|x| x.to_value()),
            self.f4.as_ref().map(|x| x.to_value()),
        ])
    }
}
impl FromValue for Ts5dmomoe3 {
    fn from_value(v: &Value) -> Self {
        let s = match v { Value::Seq(s) => s, other => panic!("Ts5dmomoe3: expected Seq, got {other:?}") };
        assert_eq!(s.len(), 5, "Ts5dmomoe3: component count");
        let _ = s;
        Ts5dmomoe3 {
            f0: FromValue::from_value(s[0].as_ref().expect("component f0 of Ts5dmomoe3 must be present")),
            f1: FromValue::from_value(s[1].as_ref().expect("component f1 of Ts5dmomoe3 must be present")),
            f2: s[2].as_ref().map(FromValue::from_value),
            f3: s[3].as_ref().map(FromValue::from_value),
            f4: s[4].as_ref().map(FromValue::from_value),
        }
    }
}
impl ToValue for Ts5dmomoe3 {
    fn to_value(&self) -> Value {
        Value::Seq(vec![
            Some(self.f0.to_value()),
            Some(self.f1.to_value()),
            self.f2.as_ref().map(|x| x.to_value()),
            self.f3.as_ref().map(|x| x.to_value()),
            self.f4.as_ref().map(|x| x.to_value()),
        ])
    }
}
impl FromValue for Ts5dmomoe4 {
    fn from_value(v: &Value) -> Self {
        let s = match v { Value::Seq(s) => s, other => panic!("Ts5dmomoe4: expected Seq, got {other:?}") };
        assert_eq!(s.len(), 5, "Ts5dmomoe4: component count");
        let _ = s;
        Ts5dmomoe4 {
            f0: FromValue::from_value(s[0].as_ref().expect("component f0 of Ts5dmomoe4 must be present")),
            f1: FromValue::from_value(s[1].as_ref().expect("component f1 of Ts5dmomoe4 must be present")),
            f2: s[2].as_ref().map(FromValue::from_value),
            f3: FromValue::from_value(s[3].as_ref().expect("component f3 of Ts5dmomoe4 must be present")),
            f4: s[4].as_ref().map(FromValue::from_value),
        }
    }
}
impl ToValue for Ts5dmomoe4 {
    fn to_value(&self) -> Value {
        Value::Seq(vec![
            Some(self.f0.to_value()),
            Some(self.f1.to_value()),
            self.f2.as_ref().map(|x| x.to_value()),
            Some(self.f3.to_value()),
            self.f4.as_ref().map(|x| x.to_value()),
        ])
    }
}
impl FromValue for Ts5dmomoe5 {
    fn from_value(v: &Value) -> Self {
        let s = match v { Value::Seq(s) => s, other => panic!("Ts5dmomoe5: expected Seq, got {other:?}") };
        assert_eq!(s.len(), 5, "Ts5dmomoe5: component count");
        let _ = s;
        Ts5dmomoe5 {
            f0: FromValue::from_value(s[0].as_ref().expect("component f0 of Ts5dmomoe5 must be present")),
            f1: FromValue::from_value(s[1].as_ref().expect("component f1 of Ts5dmomoe5 must be present")),
            f2: s[2].as_ref().map(FromValue::from_value),
            f3: FromValue::from_value(s[3].as_ref().expect("component f3 of Ts5dmomoe5 must be present")),
            f4: s[4].as_ref().map(FromValue::from_value),
        }
    }
}
impl ToValue for Ts5dmomoe5 {
    fn to_value(&self) -> Value {
        Value::Seq(vec![
            Some(self.f0.to_value()),
            Some(self.f1.to_value()),
            self.f2.as_ref().map(|x| x.to_value()),
            Some(self.f3.to_value()),
            self.f4.as_ref().map(|x| x.to_value()),
        ])
    }
}
impl FromValue for Ts5moomon {
    fn from_value(v: &Value) -> Self {
        let s = match v { Value::Seq(s) => s, other => panic!("Ts5moomon: expected Seq, got {other:?}") };
        assert_eq!(s.len(), 5, "Ts5moomon: component count");
        let _ = s;
        Ts5moomon {
            f0: FromValue::from_value(s[0].as_ref().expect("component f0 of Ts5moomon must be present")),
            f1: s[1].as_ref().map(FromValue::from_value),
            f2: s[2].as_ref().map(FromValue::from_value),
            f3: FromValue::from_value(s[3].as_ref().expect("component f3 of Ts5moomon must be present")),
            f4: s[4].as_ref().map(FromValue::from_value),
        }
    }
}
impl ToValue for Ts5moomon {
    fn to_value(&self) -> Value {
        Value::Seq(vec![
            Some(self.f0.to_value()),
            self.f1.as_ref().map(|x| x.to_value()),
            self.f2.as_ref().map(|x| x.to_value()),
            Some(self.f3.to_value()),
            self.f4.as_ref().map(|x| x.to_value()),
        ])
    }
}
impl FromValue for Ts5moomoe0 {
    fn from_value(v: &Value) -> Self {
        let s = match v { Value::Seq(s) => s, other => panic!("Ts5moomoe0: expected Seq, got {other:?}") };
        assert_eq!(s.len(), 5, "Ts5moomoe0: component count");
        let _ = s;
        Ts5moomoe0 {
            f0: FromValue::from_value(s[0].as_ref().expect("component f0 of Ts5moomoe0 must be present")),
            f1: s[1].as_ref().map(FromValue::from_value),
            f2: s[2].as_ref().map(FromValue::from_value),
            f3: s[3].as_ref().map(FromValue::from_value),
            f4: s[4].as_ref().map(FromValue::from_value),
        }
    }
}
impl ToValue for Ts5moomoe0 {
    fn to_value(&self) -> Value {
        Value::Seq(vec![
            Some(self.f0.to_value()),
            self.f1.as_ref().map(|x| x.to_value()),
            self.f2.as_ref().map(|x| x.to_value()),
            self.f3.as_ref().map(|x| x.to_value()),
            self.f4.as_ref().map(|x| x.to_value()),
        ])
    }
}
impl FromValue for Ts5moomoe1 {
    fn from_value(v: &Value) -> Self {
        let s = match v { Value::Seq(s) => s, other => panic!("Ts5moomoe1: expected Seq, got {other:?}") };
        assert_eq!(s.len(), 5, "Ts5moomoe1: component count");
        let _ = s;
        Ts5moomoe1 {
            f0: FromValue::from_value(s[0].as_ref().expect("component f0 of Ts5moomoe1 must be present")),
            f1: s[1].as_ref().map(FromValue::from_value),
            f2: s[2].as_ref().map(FromValue::from_value),
            f3: s[3].as_ref().map(FromValue::from_value),
            f4: s[4].as_ref().map(FromValue::from_value),
        }
    }
}
impl ToValue for Ts5moomoe1 {
    fn to_value(&self) -> Value {
        Value::Seq(vec![
            Some(self.f0.to_value()),
            self.f1.as_ref().map(|x| x.to_value()),
            self.f2.as_ref().map(|x| x.to_value()),
            self.f3.as_ref().map(|x| x.to_value()),
            self.f4.as_ref().map(|x| x.to_value()),
        ])
    }
}
impl FromValue for Ts5moomoe2 {
    fn from_value(v: &Value) -> Self {
        let s = match v { Value::Seq(s) => s, other => panic!("Ts5moomoe2: expected Seq, got {other:?}") };
        assert_eq!(s.len(), 5, "Ts5moomoe2: component count");
        let _ = s;
        Ts5moomoe2 {
            f0: FromValue::from_value(s[0].as_ref().expect("component f0 of Ts5moomoe2 must be present")),
            f1: s[1].as_ref().map(FromValue::from_value),
            f2: s[2].as_ref().map(FromValue::from_value),
            f3: s[3].as_ref().map(FromValue::from_value),
            f4: s[4].as_ref().map(FromValue::from_value),
        }
    }
}
impl ToValue for Ts5moomoe2 {
    fn to_value(&self) -> Value {
        Value::Seq(vec![
            Some(self.f0.to_value()),
            self.f1.as_ref().map(|x| x.to_value()),
            self.f2.as_ref().map(|x| x.to_value()),
            self.f3.as_ref().map(|x| x.to_value()),
            self.f4.as_ref().map(|x| x.to_value()),
        ])
    }
}
impl FromValue for Ts5moomoe3 {
    fn from_value(v: &Value) -> Self {
        let s = match v { Value::Seq(s) => s, other => panic!("Ts5moomoe3: expected Seq, got {other:?}") };
        assert_eq!(s.len(), 5, "Ts5moomoe3: component count");
        let _ = s;
        Ts5moomoe3 {
            f0: FromValue::from_value(s[0].as_ref().expect("component f0 of Ts5moomoe3 must be present")),
            f1: s[1].as_ref().map(FromValue::from_value),
            f2: s[2].as_ref().map(FromValue::from_value),
            f3: s[3].as_ref().map(FromValue::from_value),
            f4: s[4].as_ref().map(FromValue::from_value),
        }
    }
}
impl ToValue for Ts5moomoe3 {
    fn to_value(&self) -> Value {
        Value::Seq(vec![
            Some(self.f0.to_value()),
            self.f1.as_ref().map(|x| x.to_value()),
            self.f2.as_ref().map(|x| x.to_value()),
            self.f3.as_ref().map(|x| x.to_value()),
            self.f4.as_ref().map(|x| x.to_value()),
        ])
    }
}
impl FromValue for Ts5moomoe4 {
    fn from_value(v: &Value) -> Self {
        let s = match v { Value::Seq(s) => s, other => panic!("Ts5moomoe4: expected Seq, got {other:?}") };
        assert_eq!(s.len(), 5, "Ts5moomoe4: component count");
        let _ = s;
        Ts5moomoe4 {
            f0: FromValue::from_value(s[0].as_ref().expect("component f0 of Ts5moomoe4 must be present")),
            f1: s[1].as_ref().map(FromValue::from_value),
            f2: s[2].as_ref().map(FromValue::from_value),
            f3: FromValue::from_value(s[3].as_ref().expect("component f3 of Ts5moomoe4 must be present")),
            f4: s[4].as_ref().map(FromValue::from_value),
        }
    }
}
impl ToValue for Ts5moomoe4 {
    fn to_value(&self) -> Value {
        Value::Seq(vec![
            Some(self.f0.to_value()),
            self.f1.as_ref().map(|x| x.to_value()),
            self.f2.as_ref().map(|x| x.to_value()),
            Some(self.f3.to_value()),
            self.f4.as_ref().map(|x| x.to_value()),
        ])
    }
}
impl FromValue for Ts5moomoe5 {
    fn from_value(v: &Value) -> Self {
        let s = match v { Value::Seq(s) => s, other => panic!("Ts5moomoe5: expected Seq, got {other:?}") };
        assert_eq!(s.len(), 5, "Ts5moomoe5: component count");
        let _ = s;
        Ts5moomoe5 {
            f0: FromValue::from_value(s[0].as_ref().expect("component f0 of Ts5moomoe5 must be present")),
            f1: s[1].as_ref().map(FromValue::from_value),
            f2: s[2].as_ref().map(FromValue::from_value),
            f3: FromValue::from_value(s[3].as_ref().expect("component f3 of Ts5moomoe5 must be present")),
            f4: s[4].as_ref().map(FromValue::from_value),
        }
    }
}
impl ToValue for Ts5moomoe5 {
    fn to_value(&self) -> Value {
        Value::Seq(vec![
            Some(self.f0.to_value()),
            self.f1.as_ref().map(|x| x.to_value()),
            self.f2.as_ref().map(|x| x.to_value()),
            Some(self.f3.to_value()),
            self.f4.as_ref().map(|x| x.to_value()),
        ])
    }
}
impl FromValue for Ts5ooomon {
    fn from_value(v: &Value) -> Self {
        let s = match v { Value::Seq(s) => s, other => panic!("Ts5ooomon: expected Seq, got {other:?}") };
        assert_eq!(s.len(), 5, "Ts5ooomon: component count");
        let _ = s;
        Ts5ooomon {
            f0: s[0].as_ref().map(FromValue::from_value),
            f1: s[1].as_ref().map(FromValue::from_value),
            f2: s[2].as_ref().map(FromValue::from_value),
            f3: FromValue::from_value(s[3].as_ref().expect("component f3 of Ts5ooomon must be present")),
            f4: s[4].as_ref().map(FromValue::from_value),
        }
    }
}
impl ToValue for Ts5ooomon {
    fn to_value(&self) -> Value {
        Value::Seq(vec![
            self.f0.as_ref().map(|x| x.to_value()),
            self.f1.as_ref().map(|x| x.to_value()),
            self.f2.as_ref().map(|x| x.to_value()),
            Some(self.f3.to_value()),
            self.f4.as_ref().map(|x| x.to_value()),
        ])
    }
}
impl FromValue for Ts5ooomoe0 {
    fn from_value(v: &Value) -> Self {
        let s = match v { Value::Seq(s) => s, other => panic!("Ts5ooomoe0: expected Seq, got {other:?}") };
        assert_eq!(s.len(), 5, "Ts5ooomoe0: component count");
        let _ = s;
        Ts5ooomoe0 {
            f0: s[0].as_ref().map(FromValue::from_value),
            f1: s[1].as_ref().map(FromValue::from_value),
            f2: s[2].as_ref().map(FromValue::from_value),
            f3: s[3].as_ref().map(FromValue::from_value),
            f4: s[4].as_ref().map(FromValue::from_value),
        }
    }
}
impl ToValue for Ts5ooomoe0 {
    fn to_value(&self) -> Value {
        Value::Seq(vec![
            self.f0.as_ref().map(|x| x.to_value()),
            self.f1.as_ref().map(|x| x.to_value()),
            self.f2.as_ref().map(|x| x.to_value()),
            self.f3.as_ref().map(|x| x.to_value()),
            self.f4.as_ref().map(|x| x.to_value()),
        ])
    }
}
impl FromValue for Ts5ooomoe1 {
    fn from_value(v: &Value) -> Self {
        let s = match v { Value::Seq(s) => s, other => panic!("Ts5ooomoe1: expected Seq, got {other:?}") };
        assert_eq!(s.len(), 5, "Ts5ooomoe1: component count");
        let _ = s;
        Ts5ooomoe1 {
            f0: s[0].as_ref().map(FromValue::from_value),
            f1: s[1].as_ref().map(FromValue::from_value),
            f2: s[2].as_ref().map(FromValue::from_value),
            f3: s[3].as_ref().map(FromValue::from_value),
            f4: s[4].as_ref().map(FromValue::from_value),
        }
    }
}
impl ToValue for Ts5ooomoe1 {
    fn to_value(&self) -> Value {
        Value::Seq(vec![
            self.f0.as_ref().map(|x| x.to_value()),
            self.f1.as_ref().map(|x| x.to_value()),
            self.f2.as_ref().map(|x| x.to_value()),
            self.f3.as_ref().map(|x| x.to_value()),
            self.f4.as_ref().map(|x| x.to_value()),
        ])
    }
}
impl FromValue for Ts5ooomoe2 {
    fn from_value(v: &Value) -> Self {
        let s = match v { Value::Seq(s) => s, other => panic!("Ts5ooomoe2: expected Seq, got {other:?}") };
        assert_eq!(s.len(), 5, "Ts5ooomoe2: component count");
        let _ = s;
        Ts5ooomoe2 {
            f0: s[0].as_ref().map(FromValue::from_value),
            f1: s[1].as_ref().map(FromValue::from_value),
            f2: s[2].as_ref().map(FromValue::from_value),
            f3: s[3].as_ref().map(FromValue::from_value),
            f4: s[4].as_ref().map(FromValue::from_value),
        }
    }
}
impl ToValue for Ts5ooomoe2 {
    fn to_value(&self) -> Value {
        Value::Seq(vec![
            self.f0.as_ref().map(|x| x.to_value()),
            self.f1.as_ref().map(|x| x.to_value()),
            self.f2.as_ref().map(|x| x.to_value()),
            self.f3.as_ref().map(|x| x.to_value()),
            self.f4.as_ref().map(|x| x.to_value()),
        ])
    }
}
impl FromValue for Ts5ooomoe3 {
    fn from_value(v: &Value) -> Self {
        let s = match v { Value::Seq(s) => s, other => panic!("Ts5ooomoe3: expected Seq, got {other:?}") };
        assert_eq!(s.len(), 5, "Ts5ooomoe3: component count");
        let _ = s;
        Ts5ooomoe3 {
            f0: s[0].as_ref().map(FromValue::from_value),
            f1: s[1].as_ref().map(FromValue::from_value),
            f2: s[2].as_ref().map(FromValue::from_value),
            f3: s[3].as_ref().map(FromValue::from_value),
            f4: s[4].as_ref().map(FromValue::from_value),
        }
    }
}
impl ToValue for Ts5ooomoe3 {
    fn to_value(&self) -> Value {
        Value::Seq(vec![
            self.f0.as_ref().map(|x| x.to_value()),
            self.f1.as_ref().map(|x| x.to_value()),
            self.f2.as_ref().map(|x| x.to_value()),
            self.f3.as_ref().map(|x| x.to_value()),
            self.f4.as_ref().map(|x| x.to_value()),
        ])
    }
}
impl FromValue for Ts5ooomoe4 {
    fn from_value(v: &Value) -> Self {
        let s = match v { Value::Seq(s) => s, other => panic!("Ts5ooomoe4: expected Seq, got {other:?}") };
        assert_eq!(s.len(), 5, "Ts5ooomoe4: component count");
        let _ = s;
        Ts5ooomoe4 {
            f0: s[0].as_ref().map(FromValue::from_value),
            f1: s[1].as_ref().map(FromValue::from_value),
            f2: s[2].as_ref().map(FromValue::from_value),
            f3: FromValue::from_value(s[3].as_ref().expect("component f3 of Ts5ooomoe4 must be present")),
            f4: s[4].as_ref().map(FromValue::from_value),
        }
    }
}
impl ToValue for Ts5ooomoe4 {
    fn to_value(&self) -> Value {
        Value::Seq(vec![
            self.f0.as_ref().map(|x| x.to_value()),
            self.f1.as_ref().map(|x| x.to_value()),
            self.f2.as_ref().map(|x| x.to_value()),
            Some(self.f3.to_value()),
            self.f4.as_ref().map(|x| x.to_value()),
        ])
    }
}
impl FromValue for Ts5ooomoe5 {
    fn from_value(v: &Value) -> Self {
        let s = match v { Value::Seq(s) => s, other => panic!("Ts5ooomoe5: expected Seq, got {other:?}") };
        assert_eq!(s.len(), 5, "Ts5ooomoe5: component count");
        let _ = s;
        Ts5ooomoe5 {
            f0: s[0].as_ref().map(FromValue::from_value),
            f1: s[1].as_ref().map(FromValue::from_value),
            f2: s[2].as_ref().map(FromValue::from_value),
            f3: FromValue::from_value(s[3].as_ref().expect("component f3 of Ts5ooomoe5 must be present")),
            f4: s[4].as_ref().map(FromValue::from_value),
        }
    }
}
impl ToValue for Ts5ooomoe5 {
    fn to_value(&self) -> Value {
        Value::Seq(vec![
            self.f0.as_ref().map(|x| x.to_value()),
            self.f1.as_ref().map(|x| x.to_value()),
            self.f2.as_ref().map(|x| x.to_value()),
            Some(self.f3.to_value()),
            self.f4.as_ref().map(|x| x.to_value()),
        ])
    }
}
impl FromValue for Ts5doomon {
    fn from_value(v: &Value) -> Self {
        let s = match v { Value::Seq(s) => s, other => panic!("Ts5doomon: expected Seq, got {other:?}") };
        assert_eq!(s.len(), 5, "Ts5doomon: component count");
        let _ = s;
        Ts5doomon {
            f0: FromValue::from_value(s[0].as_ref().expect("component f0 of Ts5doomon must be present")),
            f1: s[1].as_ref().map(FromValue::from_value),
            f2: s[2].as_ref().map(FromValue::from_value),
            f3: FromValue::from_value(s[3].as_ref().expect("component f3 of Ts5doomon must be present")),
            f4: s[4].as_ref().map(FromValue::from_value),
        }
    }
}
impl ToValue for Ts5doomon {
    fn to_value(&self) -> Value {
        Value::Seq(vec![
            Some(self.f0.to_value()),
            self.f1.as_ref().map(|x| x.to_value()),
            self.f2.as_ref().map(|x| x.to_value()),
            Some(self.f3.to_value()),
            self.f4.as_ref().map(|x| x.to_value()),
        ])
    }
}
impl FromValue for Ts5doomoe0 {
    fn from_value(v: &Value) -> Self {
        let s = match v { Value::Seq(s) => s, other => panic!("Ts5doomoe0: expected Seq, got {other:?}") };
        assert_eq!(s.len(), 5, "Ts5doomoe0: component count");
        let _ = s;
        Ts5doomoe0 {
            f0: FromValue::from_value(s[0].as_ref().expect("component f0 of Ts5doomoe0 must be present")),
            f1: s[1].as_ref().map(FromValue::from_value),
            f2: s[2].as_ref().map(FromValue::from_value),
            f3: s[3].as_ref().map(FromValue::from_value),
            f4: s[4].as_ref().map(FromValue::from_value),
        }
    }
}
impl ToValue for Ts5doomoe0 {
    fn to_value(&self) -> Value {
        Value::Seq(vec![
            Some(self.f0.to_value()),
            self.f1.as_ref().map(|x| x.to_value()),
            self.f2.as_ref().map(|x| x.to_value()),
            self.f3.as_ref().map(|x| x.to_value()),
            self.f4.as_ref().map(|x| x.to_value()),
        ])
    }
}
impl FromValue for Ts5doomoe1 {
    fn from_value(v: &Value) -> Self {
        let s = match v { Value::Seq(s) => s, other => panic!("Ts5doomoe1: expected Seq, got {other:?}") };
        assert_eq!(s.len(), 5, "Ts5doomoe1: component count");
        let _ = s;
        Ts5doomoe1 {
            f0: FromValue::from_value(s[0].as_ref().expect("component f0 of Ts5doomoe1 must be present")),
            f1: s[1].as_ref().map(FromValue::from_value),
            f2: s[2].as_ref().map(FromValue::from_value),
            f3: s[3].as_ref().map(FromValue::from_value),
            f4: s[4].as_ref().map(FromValue::from_value),
        }
    }
}
impl ToValue for Ts5doomoe1 {
    fn to_value(&self) -> Value {
        Value::Seq(vec![
            Some(self.f0.to_value()),
            self.f1.as_ref().map(|x| x.to_value()),
            self.f2.as_ref().map(|x| x.to_value()),
            self.f3.as_ref().map(|x| x.to_value()),
            self.f4.as_ref().map(|x| x.to_value()),
        ])
    }
}
impl FromValue for Ts5doomoe2 {
    fn from_value(v: &Value) -> Self {
        let s = match v { Value::Seq(s) => s, other => panic!("Ts5doomoe2: expected Seq, got {other:?}") };
        assert_eq!(s.len(), 5, "Ts5doomoe2: component count");
        let _ = s;
        Ts5doomoe2 {
            f0: FromValue::from_value(s[0].as_ref().expect("component f0 of Ts5doomoe2 must be present")),
            f1: s[1].as_ref().map(FromValue::from_value),
            f2: s[2].as_ref().map(FromValue::from_value),
            f3: s[3].as_ref().map(FromValue::from_value),
            f4: s[4].as_ref().map(FromValue::from_value),
        }
    }
}
impl ToValue for Ts5doomoe2 {
    fn to_value(&self) -> Value {
        Value::Seq(vec![
            Some(self.f0.to_value()),
            self.f1.as_ref().map(|x| x.to_value()),
            self.f2.as_ref().map(|x| x.to_value()),
            self.f3.as_ref().map(|x| x.to_value()),
            self.f4.as_ref().map(|x| x.to_value()),
        ])
    }
}
impl FromValue for Ts5doomoe3 {
    fn from_value(v: &Value) -> Self {
        let s = match v { Value::Seq(s) => s, other => panic!("Ts5doomoe3: expected Seq, got {other:?}") };
        assert_eq!(s.len(), 5, "Ts5doomoe3: component count");
        let _ = s;
        Ts5doomoe3 {
            f0: FromValue::from_value(s[0].as_ref().expect("component f0 of Ts5doomoe3 must be present")),
            f1: s[1].as_ref().map(FromValue::from_value),
            f2: s[2].as_ref().map(FromValue::from_value),
            f3: s[3].as_ref().map(FromValue::from_value),
            f4: s[4].as_ref().map(FromValue::from_value),
        }
    }
}
impl ToValue for Ts5doomoe3 {
    fn to_value(&self) -> Value {
        Value::Seq(vec![
            Some(self.f0.to_value()),
            self.f1.as_ref().map(|x| x.to_value()),
            self.f2.as_ref().map(|x| x.to_value()),
            self.f3.as_ref().map(|x| x.to_value()),
            self.f4.as_ref().map(|x| x.to_value()),
        ])
    }
}
impl FromValue for Ts5doomoe4 {
    fn from_value(v: &Value) -> Self {
        let s = match v { Value::Seq(s) => s, other => panic!("Ts5doomoe4: expected Seq, got {other:?}") };
        assert_eq!(s.len(), 5, "Ts5doomoe4: component count");
        let _ = s;
        Ts5doomoe4 {
            f0: FromValue::from_value(s[0].as_ref().expect("component f0 of Ts5doomoe4 must be present")),
            f1: s[1].as_ref().map(FromValue::from_value),
            f2: s[2].as_ref().map(FromValue::from_value),
            f3: FromValue::from_value(s[3].as_ref().expect("component f3 of Ts5doomoe4 must be present")),
            f4: s[4].as_ref().map(FromValue::from_value),
        }
    }
}
impl ToValue for Ts5doomoe4 {
    fn to_value(&self) -> Value {
        Value::Seq(vec![
            Some(self.f0.to_value()),
            self.f1.as_ref().map(|x| x.to_value()),
            self.f2.as_ref().map(|x| x.to_value()),
            Some(self.f3.to_value()),
            self.f4.as_ref().map(|x| x.to_value()),
        ])
    }
}
impl FromValue for Ts5doomoe5 {
    fn from_value(v: &Value) -> Self {
        let s = match v { Value::Seq(s) => s, other => panic!("Ts5doomoe5: expected Seq, got {other:?}") };
        assert_eq!(s.len(), 5, "Ts5doomoe5: component count");
        let _ = s;
        Ts5doomoe5 {
            f0: FromValue::from_value(s[0].as_ref().expect("component f0 of Ts5doomoe5 must be present")),
            f1: s[1].as_ref().map(FromValue::from_value),
            f2: s[2].as_ref().map(FromValue::from_value),
            f3: FromValue::from_value(s[3].as_ref().expect("component f3 of Ts5doomoe5 must be present")),
            f4: s[4].as_ref().map(FromValue::from_value),
        }
    }
}
impl ToValue for Ts5doomoe5 {
    fn to_value(&self) -> Value {
        Value::Seq(vec![
            Some(self.f0.to_value()),
            self.f1.as_ref().map(|x| x.to_value()),
            self.f2.as_ref().map(|x| x.to_value()),
            Some(self.f3.to_value()),
            self.f4.as_ref().map(|x| x.to_value()),
        ])
    }
}
impl FromValue for Ts5mdomon {
    fn from_value(v: &Value) -> Self {
        let s = match v { Value::Seq(s) => s, other => panic!("Ts5mdomon: expected Seq, got {other:?}") };
        assert_eq!(s.len(), 5, "Ts5mdomon: component count");
        let _ = s;
        Ts5mdomon {
            f0: FromValue::from_value(s[0].as_ref().expect("component f0 of Ts5mdomon must be present")),
            f1: FromValue::from_value(s[1].as_ref().expect("component f1 of Ts5mdomon must be present")),
            f2: s[2].as_ref().map(FromValue::from_value),
            f3: FromValue::from_value(s[3].as_ref().expect("component f3 of Ts5mdomon must be present")),
            f4: s[4].as_ref().map(FromValue::from_value),
        }
    }
}
impl ToValue for Ts5mdomon {
    fn to_value(&self) -> Value {
        Value::Seq(vec![
            Some(self.f0.to_value()),
            Some(self.f1.to_value()),
            self.f2.as_ref().map(|x| x.to_value()),
            Some(self.f3.to_value()),
            self.f4.as_ref().map(|x| x.to_value()),
        ])
    }
}
impl FromValue for Ts5mdomoe0 {
    fn from_value(v: &Value) -> Self {
        let s = match v { Value::Seq(s) => s, other => panic!("Ts5mdomoe0: expected Seq, got {other:?}") };
        assert_eq!(s.len(), 5, "Ts5mdomoe0: component count");
        let _ = s;
        Ts5mdomoe0 {
            f0: FromValue::from_value(s[0].as_ref().expect("component f0 of Ts5mdomoe0 must be present")),
            f1: FromValue::from_value(s[1].as_ref().expect("component f1 of Ts5mdomoe0 must be present")),
            f2: s[2].as_ref().map(FromValue::from_value),
            f3: s[3].as_ref().map(FromValue::from_value),
            f4: s[4].as_ref().map(FromValue::from_value),
        }
    }
}
impl ToValue for Ts5mdomoe0 {
    fn to_value(&self) -> Value {
        Value::Seq(vec![
            Some(self.f0.to_value()),
            Some(self.f1.to_value()),
            self.f2.as_ref().map(|x| x.to_value()),
            self.f3.as_ref().map(|x| x.to_value()),
            self.f4.as_ref().map(|x| x.to_value()),
        ])
    }
}
impl FromValue for Ts5mdomoe1 {
    fn from_value(v: &Value) -> Self {
        let s = match v { Value::Seq(s) => s, other => panic!("Ts5mdomoe1: expected Seq, got {other:?}") };
        assert_eq!(s.len(), 5, "Ts5mdomoe1: component count");
        let _ = s;
        Ts5mdomoe1 {
            f0: FromValue::from_value(s[0].as_ref().expect("component f0 of Ts5mdomoe1 must be present")),
            f1: FromValue::from_value(s[1].as_ref().expect("component f1 of Ts5mdomoe1 must be present")),
            f2: s[2].as_ref().map(FromValue::from_value),
            f3: s[3].as_ref().map(FromValue::from_value),
            f4: s[4].as_ref().map(FromValue::from_value),
        }
    }
}
impl ToValue for Ts5mdomoe1 {
    fn to_value(&self) -> Value {
        Value::Seq(vec![
            Some(self.f0.to_value()),
            Some(self.f1.to_value()),
            self.f2.as_ref().map(|x| x.to_value()),
            self.f3.as_ref().map(|x| x.to_value()),
            self.f4.as_ref().map(|x| x.to_value()),
        ])
    }
}
impl FromValue for Ts5mdomoe2 {
    fn from_value(v: &Value) -> Self {
        let s = match v { Value::Seq(s) => s, other => panic!("Ts5mdomoe2: expected Seq, got {other:?}") };
        assert_eq!(s.len(), 5, "Ts5mdomoe2: component count");
        let _ = s;
        Ts5mdomoe2 {
            f0: FromValue::from_value(s[0].as_ref().expect("component f0 of Ts5mdomoe2 must be present")),
            f1: FromValue::from_value(s[1].as_ref().expect("component f1 of Ts5mdomoe2 must be present")),
            f2: s[2].as_ref().map(FromValue::from_value),
            f3: s[3].as_ref().map(FromValue::from_value),
            f4: s[4].as_ref().map(FromValue::from_value),
        }
    }
}
impl ToValue for Ts5mdomoe2 {
    fn to_value(&self) -> Value {
        Value::Seq(vec![
            Some(self.f0.to_value()),
            Some(self.f1.to_value()),
            self.f2.as_ref().map(|x| x.to_value()),
            self.f3.as_ref().map(|x| x.to_value()),
            self.f4.as_ref().map(|x| x.to_value()),
        ])
    }
}
impl FromValue for Ts5mdomoe3 {
    fn from_value(v: &Value) -> Self {
        let s = match v { Value::Seq(s) => s, other => panic!("Ts5mdomoe3: expected Seq, got {other:?}") };
        assert_eq!(s.len(), 5, "Ts5mdomoe3: component count");
        let _ = s;
        Ts5mdomoe3 {
            f0: FromValue::from_value(s[0].as_ref().expect("component f0 of Ts5mdomoe3 must be present")),
            f1: FromValue::from_value(s[1].as_ref().expect("component f1 of Ts5mdomoe3 must be present")),
            f2: s[2].as_ref().map(FromValue::from_value),
            f3: s[3].as_ref().map(FromValue::from_value),
            f4: s[4].as_ref().map(FromValue::from_value),
        }
    }
}
impl ToValue for Ts5mdomoe3 {
    fn to_value(&self) -> Value {
        Value::Seq(vec![
            Some(self.f0.to_value()),
            Some(self.f1.to_value()),
            self.f2.as_ref().map(|x| x.to_value()),
            self.f3.as_ref().map(|x| x.to_value()),
            self.f4.as_ref().map(|x| x.to_value()),
        ])
    }
}
impl FromValue for Ts5mdomoe4 {
    fn from_value(v: &Value) -> Self {
        let s = match v { Value::Seq(s) => s, other => panic!("Ts5mdomoe4: expected Seq, got {other:?}") };
        assert_eq!(s.len(), 5, "Ts5mdomoe4: component count");
        let _ = s;
        Ts5mdomoe4 {
            f0: FromValue::from_value(s[0].as_ref().expect("component f0 of Ts5mdomoe4 must be present")),
            f1: FromValue::from_value(s[1].as_ref().expect("component f1 of Ts5mdomoe4 must be present")),
            f2: s[2].as_ref().map(FromValue::from_value),
            f3: FromValue::from_value(s[3].as_ref().expect("component f3 of Ts5mdomoe4 must be present")),
            f4: s[4].as_ref().map(FromValue::from_value),
        }
    }
}
impl ToValue for Ts5mdomoe4 {
    fn to_value(&self) -> Value {
        Value::Seq(vec![
            Some(self.f0.to_value()),
            Some(self.f1.to_value()),
            self.f2.as_ref().map(|x| x.to_value()),
            Some(self.f3.to_value()),
            self.f4.as_ref().map(|x| x.to_value()),
        ])
    }
}
impl FromValue for Ts5mdomoe5 {
    fn from_value(v: &Value) -> Self {
        let s = match v { Value::Seq(s) => s, other => panic!("Ts5mdomoe5: expected Seq, got {other:?}") };
        assert_eq!(s.len(), 5, "Ts5mdomoe5: component count");
        let _ = s;
        Ts5mdomoe5 {
            f0: FromValue::from_value(s[0].as_ref().expect("component f0 of Ts5mdomoe5 must be present")),
            f1: FromValue::from_value(s[1].as_ref().expect("component f1 of Ts5mdomoe5 must be present")),
            f2: s[2].as_ref().map(FromValue::from_value),
            f3: FromValue::from_value(s[3].as_ref().expect("component f3 of Ts5mdomoe5 must be present")),
            f4: s[4].as_ref().map(FromValue::from_value),
        }
    }
}
impl ToValue for Ts5mdomoe5 {
    fn to_value(&self) -> Value {
        Value::Seq(vec![
            Some(self.f0.to_value()),
            Some(self.f1.to_value()),
            self.f2.as_ref().map(|x| x.to_value()),
            Some(self.f3.to_value()),
            self.f4.as_ref().map(|x| x.to_value()),
        ])
    }
}
impl FromValue for Ts5odomon {
    fn from_value(v: &Value) -> Self {
        let s = match v { Value::Seq(s) => s, other => panic!("Ts5odomon: expected Seq, got {other:?}") };
        assert_eq!(s.len(), 5, "Ts5odomon: component count");
        let _ = s;
        Ts5odomon {
            f0: s[0].as_ref().map(FromValue::from_value),
            f1: FromValue::from_value(s[1].as_ref().expect("component f1 of Ts5odomon must be present")),
            f2: s[2].as_ref().map(FromValue::from_value),
            f3: FromValue::from_value(s[3].as_ref().expect("component f3 of Ts5odomon must be present")),
            f4: s[4].as_ref().map(FromValue::from_value),
        }
    }
}
impl ToValue for Ts5odomon {
    fn to_value(&self) -> Value {
        Value::Seq(vec![
            self.f0.as_ref().map(|x| x.to_value()),
            Some(self.f1.to_value()),
            self.f2.as_ref().map(|x| x.to_value()),
            Some(self.f3.to_value()),
            self.f4.as_ref().map(|x| x.to_value()),
        ])
    }
}
impl FromValue for Ts5odomoe0 {
    fn from_value(v: &Value) -> Self {
        let s = match v { Value::Seq(s) => s, other => panic!("Ts5odomoe0: expected Seq, got {other:?}") };
        assert_eq!(s.len(), 5, "Ts5odomoe0: component count");
        let _ = s;
        Ts5odomoe0 {
            f0: s[0].as_ref().map(FromValue::from_value),
            f1: FromValue::from_value(s[1].as_ref().expect("component f1 of Ts5odomoe0 must be present")),
            f2: s[2].as_ref().map(FromValue::from_value),
            f3: s[3].as_ref().map(FromValue::from_value),
            f4: s[4].as_ref().map(FromValue::from_value),
        }
    }
}
impl ToValue for Ts5odomoe0 {
    fn to_value(&self) -> Value {
        Value::Seq(vec![
            self.f0.as_ref().map(|x| x.to_value()),
            Some(self.f1.to_value()),
            self.f2.as_ref().map(|x| x.to_value()),
            self.f3.as_ref().map(|x| x.to_value()),
            self.f4.as_ref().map(|x| x.to_value()),
        ])
    }
}
impl FromValue for Ts5odomoe1 {
    fn from_value(v: &Value) -> Self {
        let s = match v { Value::Seq(s) => s, other => panic!("Ts5odomoe1: expected Seq, got {other:?}") };
        assert_eq!(s.len(), 5, "Ts5odomoe1: component count");
        let _ = s;
        Ts5odomoe1 {
            f0: s[0].as_ref().map(FromValue::from_value),
            f1: FromValue::from_value(s[1].as_ref().expect("component f1 of Ts5odomoe1 must be present")),
            f2: s[2].as_ref().map(FromValue::from_value),
            f3: s[3].as_ref().map(FromValue::from_value),
            f4: s[4].as_ref().map(FromValue::from_value),
        }
    }
}
impl ToValue for Ts5odomoe1 {
    fn to_value(&self) -> Value {
        Value::Seq(vec![
            self.f0.as_ref().map(|x| x.to_value()),
            Some(self.f1.to_value()),
            self.f2.as_ref().map(|x| x.to_value()),
            self.f3.as_ref().map(|x| x.to_value()),
            self.f4.as_ref().map(|x| x.to_value()),
        ])
    }
}
impl FromValue for Ts5odomoe2 {
    fn from_value(v: &Value) -> Self {
        let s = match v { Value::Seq(s) => s, other => panic!("Ts5odomoe2: expected Seq, got {other:?}") };
        assert_eq!(s.len(), 5, "Ts5odomoe2: component count");
        let _ = s;
        Ts5odomoe2 {
            f0: s[0].as_ref().map(FromValue::from_value),
            f1: FromValue::from_value(s[1].as_ref().expect("component f1 of Ts5odomoe2 must be present")),
            f2: s[2].as_ref().map(FromValue::from_value),
            f3: s[3].as_ref().map(FromValue::from_value),
            f4: s[4].as_ref().map(FromValue::from_value),
        }
    }
}
impl ToValue for Ts5odomoe2 {
    fn to_value(&self) -> Value {
        Value::Seq(vec![
            self.f0.as_ref().map(|x| x.to_value()),
            Some(self.f1.to_value()),
            self.f2.as_ref().map(|x| x.to_value()),
            self.f3.as_ref().map(|x| x.to_value()),
            self.f4.as_ref().map(|x| x.to_value()),
        ])
    }
}
impl FromValue for Ts5odomoe3 {
    fn from_value(v: &Value) -> Self {
        let s = match v { Value::Seq(s) => s, other => panic!("Ts5odomoe3: expected Seq, got {other:?}") };
        assert_eq!(s.len(), 5, "Ts5odomoe3: component count");
        let _ = s;
        Ts5odomoe3 {
            f0: s[0].as_ref().map(FromValue::from_value),
            f1: FromValue::from_value(s[1].as_ref().expect("component f1 of Ts5odomoe3 must be present")),
            f2: s[2].as_ref().map(FromValue::from_value),
            f3: s[3].as_ref().map(FromValue::from_value),
            f4: s[4].as_ref().map(FromValue::from_value),
        }
    }
}
impl ToValue for Ts5odomoe3 {
    fn to_value(&self) -> Value {
        Value::Seq(vec![
            self.f0.as_ref().map(|x| x.to_value()),
            Some(self.f1.to_value()),
            self.f2.as_ref().map(|x| x.to_value()),
            self.f3.as_ref().map(|x| x.to_value()),
            self.f4.as_ref().map(|x| x.to_value()),
        ])
    }
}
impl FromValue for Ts5odomoe4 {
    fn from_value(v: &Value) -> Self {
        let s = match v { Value::Seq(s) => s, other => panic!("Ts5odomoe4: expected Seq, got {other:?}") };
        assert_eq!(s.len(), 5, "Ts5odomoe4: component count");
        let _ = s;
        Ts5odomoe4 {
            f0: s[0].as_ref().map(FromValue::from_value),
            f1: FromValue::from_value(s[1].as_ref().expect("component f1 of Ts5odomoe4 must be present")),
            f2: s[2].as_ref().map(FromValue::from_value),
            f3: FromValue::from_value(s[3].as_ref().expect("component f3 of Ts5odomoe4 must be present")),
            f4: s[4].as_ref().map(FromValue::from_value),
        }
    }
}
impl ToValue for Ts5odomoe4 {
    fn to_value(&self) -> Value {
        Value::Seq(vec![
            self.f0.as_ref().map(|x| x.to_value()),
            Some(self.f1.to_value()),
            self.f2.as_ref().map(|x| x.to_value()),
            Some(self.f3.to_value()),
            self.f4.as_ref().map(|x| x.to_value()),
        ])
    }
}
impl FromValue for Ts5odomoe5 {
    fn from_value(v: &Value) -> Self {
        let s = match v { Value::Seq(s) => s, other => panic!("Ts5odomoe5: expected Seq, got {other:?}") };
        assert_eq!(s.len(), 5, "Ts5odomoe5: component count");
        let _ = s;
        Ts5odomoe5 {
            f0: s[0].as_ref().map(FromValue::from_value),
            f1: FromValue::from_value(s[1].as_ref().expect("component f1 of Ts5odomoe5 must be present")),
            f2: s[2].as_ref().map(FromValue::from_value),
            f3: FromValue::from_value(s[3].as_ref().expect("component f3 of Ts5odomoe5 must be present")),
            f4: s[4].as_ref().map(FromValue::from_value),
        }
    }
}
impl ToValue for Ts5odomoe5 {
    fn to_value(&self) -> Value {
        Value::Seq(vec![
            self.f0.as_ref().map(|x| x.to_value()),
            Some(self.f1.to_value()),
            self.f2.as_ref().map(|x| x.to_value()),
            Some(self.f3.to_value()),
            self.f4.as_ref().map(|x| x.to_value()),
        ])
    }
}
impl FromValue for Ts5ddomon {
    fn from_value(v: &Value) -> Self {
        let s = match v { Value::Seq(s) => s, other => panic!("Ts5ddomon: expected Seq, got {other:?}") };
        assert_eq!(s.len(), 5, "Ts5ddomon: component count");
        let _ = s;
        Ts5ddomon {
            f0: FromValue::from_value(s[0].as_ref().expect("component f0 of Ts5ddomon must be present")),
            f1: FromValue::from_value(s[1].as_ref().expect("component f1 of Ts5ddomon must be present")),
            f2: s[2].as_ref().map(FromValue::from_value),
            f3: FromValue::from_value(s[3].as_ref().expect("component f3 of Ts5ddomon must be present")),
            f4: s[4].as_ref().map(FromValue::from_value),
        }
    }
}
impl ToValue for Ts5ddomon {
    fn to_value(&self) -> Value {
        Value::Seq(vec![
            Some(self.f0.to_value()),
            Some(self.f1.to_value()),
            self.f2.as_ref().map(|x| x.to_value()),
            Some(self.f3.to_value()),
            self.f4.as_ref().map(|x| x.to_value()),
        ])
    }
}
impl FromValue for Ts5ddomoe0 {
    fn from_value(v: &Value) -> Self {
        let s = match v { Value::Seq(s) => s, other => panic!("Ts5ddomoe0: expected Seq, got {other:?}") };
        assert_eq!(s.len(), 5, "Ts5ddomoe0: component count");
        let _ = s;
        Ts5ddomoe0 {
            f0: FromValue::from_value(s[0].as_ref().expect("component f0 of Ts5ddomoe0 must be present")),
            f1: FromValue::from_value(s[1].as_ref().expect("component f1 of Ts5ddomoe0 must be present")),
            f2: s[2].as_ref().map(FromValue::from_value),
            f3: s[3].as_ref().map(FromValue::from_value),
            f4: s[4].as_ref().map(FromValue::from_value),
        }
    }
}
impl ToValue for Ts5ddomoe0 {
    fn to_value(&self) -> Value {
        Value::Seq(vec![
            Some(self.f0.to_value()),
            Some(self.f1.to_value()),
            self.f2.as_ref().map(|x| x.to_value()),
            self.f3.as_ref().map(|x| x.to_value()),
            self.f4.as_ref().map(|x| x.to_value()),
        ])
    }
}
impl FromValue for Ts5ddomoe1 {
    fn from_value(v: &Value) -> Self {
        let s = match v { Value::Seq(s) => s, other => panic!("Ts5ddomoe1: expected Seq, got {other:?}") };
        assert_eq!(s.len(), 5, "Ts5ddomoe1: component count");
        let _ = s;
        Ts5ddomoe1 {
            f0: FromValue::from_value(s[0].as_ref().expect("component f0 of Ts5ddomoe1 must be present")),
            f1: FromValue::from_value(s[1].as_ref().expect("component f1 of Ts5ddomoe1 must be present")),
            f2: s[2].as_ref().map(FromValue::from_value),
            f3: s[3].as_ref().map(FromValue::from_value),
            f4: s[4].as_ref().map(FromValue::from_value),
        }
    }
}
impl ToValue for Ts5ddomoe1 {
    fn to_value(&self) -> Value {
        Value::Seq(vec![
            Some(self.f0.to_value()),
            Some(self.f1.to_value()),
            self.f2.as_ref().map(|x| x.to_value()),
            self.f3.as_ref().map(|x| x.to_value()),
            self.f4.as_ref().map(|x| x.to_value()),
        ])
    }
}
impl FromValue for Ts5ddomoe2 {
    fn from_value(v: &Value) -> Self {
        let s = match v { Value::Seq(s) => s, other => panic!("Ts5ddomoe2: expected Seq, got {other:?}") };
        assert_eq!(s.len(), 5, "Ts5ddomoe2: component count");
        let _ = s;
        Ts5ddomoe2 {
            f0: FromValue::from_value(s[0].as_ref().expect("component f0 of Ts5ddomoe2 must be present")),
            f1: FromValue::from_value(s[1].as_ref().expect("component f1 of Ts5ddomoe2 must be present")),
            f2: s[2].as_ref().map(FromValue::from_value),
            f3: s[3].as_ref().map(FromValue::from_value),
            f4: s[4].as_ref().map(FromValue::from_value),
        }
    }
}
impl ToValue for Ts5ddomoe2 {
    fn to_value(&self) -> Value {
        Value::Seq(vec![
            Some(self.f0.to_value()),
            Some(self.f1.to_value()),
            self.f2.as_ref().map(|x| x.to_value()),
            self.f3.as_ref().map(|x| x.to_value()),
            self.f4.as_ref().map(|x| x.to_value()),
        ])
    }
}
impl FromValue for Ts5ddomoe3 {
    fn from_value(v: &Value) -> Self {
        let s = match v { Value::Seq(s) => s, other => panic!("Ts5ddomoe3: expected Seq, got {other:?}") };
        assert_eq!(s.len(), 5, "Ts5ddomoe3: component count");
        let _ = s;
        Ts5ddomoe3 {
            f0: FromValue::from_value(s[0].as_ref().expect("component f0 of Ts5ddomoe3 must be present")),
            f1: FromValue::from_value(s[1].as_ref().expect("component f1 of Ts5ddomoe3 must be present")),
            f2: s[2].as_ref().map(FromValue::from_value),
            f3: s[3].as_ref().map(FromValue::from_value),
            f4: s[4].as_ref().map(FromValue::from_value),
        }
    }
}
impl ToValue for Ts5ddomoe3 {
    fn to_value(&self) -> Value {
        Value::Seq(vec![
            Some(self.f0.to_value()),
            Some(self.f1.to_value()),
            self.f2.as_ref().map(|x| x.to_value()),
            self.f3.as_ref().map(|x| x.to_value()),
            self.f4.as_ref().map(|x| x.to_value()),
        ])
    }
}
impl FromValue for Ts5ddomoe4 {
    fn from_value(v: &Value) -> Self {
        let s = match v { Value::Seq(s) => s, other => panic!("Ts5ddomoe4: expected Seq, got {other:?}") };
        assert_eq!(s.len(), 5, "Ts5ddomoe4: component count");
        let _ = s;
        Ts5ddomoe4 {
            f0: FromValue::from_value(s[0].as_ref().expect("component f0 of Ts5ddomoe4 must be present")),
            f1: FromValue::from_value(s[1].as_ref().expect("component f1 of Ts5ddomoe4 must be present")),
            f2: s[2].as_ref().map(FromValue::from_value),
            f3: FromValue::from_value(s[3].as_ref().expect("component f3 of Ts5ddomoe4 must be present")),
            f4: s[4].as_ref().map(FromValue::from_value),
        }
    }
}
impl ToValue for Ts5ddomoe4 {
    fn to_value(&self) -> Value {
        Value::Seq(vec![
            Some(self.f0.to_value()),
            Some(self.f1.to_value()),
            self.f2.as_ref().map(|x| x.to_value()),
            Some(self.f3.to_value()),
            self.f4.as_ref().map(|x| x.to_value()),
        ])
    }
}
impl FromValue for Ts5ddomoe5 {
    fn from_value(v: &Value) -> Self {
        let s = match v { Value::Seq(s) => s, other => panic!("Ts5ddomoe5: expected Seq, got {other:?}") };
        assert_eq!(s.len(), 5, "Ts5ddomoe5: component count");
        let _ = s;
        Ts5ddomoe5 {
            f0: FromValue::from_value(s[0].as_ref().expect("component f0 of Ts5ddomoe5 must be present")),
            f1: FromValue::from_value(s[1].as_ref().expect("component f1 of Ts5ddomoe5 must be present")),
            f2: s[2].as_ref().map(FromValue::from_value),
            f3: FromValue::from_value(s[3].as_ref().expect("component f3 of Ts5ddomoe5 must be present")),
            f4: s[4].as_ref().map(FromValue::from_value),
        }
    }
}
impl ToValue for Ts5ddomoe5 {
    fn to_value(&self) -> Value {
        Value::Seq(vec![
            Some(self.f0.to_value()),
            Some(self.f1.to_value()),
            self.f2.as_ref().map(|x| x.to_value()),
            Some(self.f3.to_value()),
            self.f4.as_ref().map(|x| x.to_value()),
        ])
    }
}
impl FromValue for Ts5mmdmon {
    fn from_value(v: &Value) -> Self {
        let s = match v { Value::Seq(s) => s, other => panic!("Ts5mmdmon: expected Seq, got {other:?}") };
        assert_eq!(s.len(), 5, "Ts5mmdmon: component count");
        let _ = s;
        Ts5mmdmon {
            f0: FromValue::from_value(s[0].as_ref().expect("component f0 of Ts5mmdmon must be present")),
            f1: FromValue::from_value(s[1].as_ref().expect("component f1 of Ts5mmdmon must be present")),
            f2: FromValue::from_value(s[2].as_ref().expect("component f2 of Ts5mmdmon must be present")),
            f3: FromValue::from_value(s[3].as_ref().expect("component f3 of Ts5mmdmon must be present")),
            f4: s[4].as_ref().map(FromValue::from_value),
        }
    }
}
impl ToValue for Ts5mmdmon {
    fn to_value(&self) -> Value {
        Value::Seq(vec![
            Some(self.f0.to_value()),
            Some(self.f1.to_value()),
            Some(self.f2.to_value()),
            Some(self.f3.to_value()),
            self.f4.as_ref().map(|x| x.to_value()),
        ])
    }
}
impl FromValue for Ts5mmdmoe0 {
    fn from_value(v: &Value) -> Self {
        let s = match v { Value::Seq(s) => s, other => panic!("Ts5mmdmoe0: expected Seq, got {other:?}") };
        assert_eq!(s.len(), 5, "Ts5mmdmoe0: component count");
        let _ = s;
        Ts5mmdmoe0 {
            f0: FromValue::from_value(s[0].as_ref().expect("component f0 of Ts5mmdmoe0 must be present")),
            f1: s[1].as_ref().map(FromValue::from_value),
            f2: FromValue::from_value(s[2].as_ref().expect("component f2 of Ts5mmdmoe0 must be present")),
            f3: s[3].as_ref().map(FromValue::from_value),
            f4: s[4].as_ref().map(FromValue::from_value),
        }
    }
}
impl ToValue for Ts5mmdmoe0 {
    fn to_value(&self) -> Value {
        Value::Seq(vec![
            Some(self.f0.to_value()),
            self.f1.as_ref().map(|x| x.to_value()),
            Some(self.f2.to_value()),
            self.f3.as_ref().map(|x| x.to_value()),
            self.f4.as_ref().map(|x| x.to_value()),
        ])
    }
}
impl FromValue for Ts5mmdmoe1 {
    fn from_value(v: &Value) -> Self {
        let s = match v { Value::Seq(s) => s, other => panic!("Ts5mmdmoe1: expected Seq, got {other:?}") };
        assert_eq!(s.len(), 5, "Ts5mmdmoe1: component count");
        let _ = s;
        Ts5mmdmoe1 {
            f0: FromValue::from_value(s[0].as_ref().expect("component f0 of Ts5mmdmoe1 must be present")),
            f1: s[1].as_ref().map(FromValue::from_value),
            f2: FromValue::from_value(s[2].as_ref().expect("component f2 of Ts5mmdmoe1 must be present")),
            f3: s[3].as_ref().map(FromValue::from_value),
            f4: s[4].as_ref().map(FromValue::from_value),
        }
    }
}
impl ToValue for Ts5mmdmoe1 {
    fn to_value(&self) -> Value {
        Value::Seq(vec![
            Some(self.f0.to_value()),
            self.f1.as_ref().map(|x| x.to_value()),
            Some(self.f2.to_value()),
            self.f3.as_ref().map(|x| x.to_value()),
            self.f4.as_ref().map(|x| x.to_value()),
        ])
    }
}
impl FromValue for Ts5mmdmoe2 {
    fn from_value(v: &Value) -> Self {
        let s = match v { Value::Seq(s) => s, other => panic!("Ts5mmdmoe2: expected Seq, got {other:?}") };
        assert_eq!(s.len(), 5, "Ts5mmdmoe2: component count");
        let _ = s;
        Ts5mmdmoe2 {
            f0: FromValue::from_value(s[0].as_ref().expect("component f0 of Ts5mmdmoe2 must be present")),
            f1: FromValue::from_value(s[1].as_ref().expect("component f1 of Ts5mmdmoe2 must be present")),
            f2: FromValue::from_value(s[2].as_ref().expect("component f2 of Ts5mmdmoe2 must be present")),
            f3: s[3].as_ref().map(FromValue::from_value),
            f4: s[4].as_ref().map(FromValue::from_value),
        }
    }
}
impl ToValue for Ts5mmdmoe2 {
    fn to_value(&self) -> Value {
        Value::Seq(vec![
            Some(self.f0.to_value()),
            Some(self.f1.to_value()),
            Some(self.f2.to_value()),
            self.f3.as_ref().map(|x| x.to_value()),
            self.f4.as_ref().map(|x| x.to_value()),
        ])
    }
}
impl FromValue for Ts5mmdmoe3 {
    fn from_value(v: &Value) -> Self {
        let s = match v { Value::Seq(s) => s, other => panic!("Ts5mmdmoe3: expected Seq, got {other:?}") };
        assert_eq!(s.len(), 5, "Ts5mmdmoe3: component count");
        let _ = s;
        Ts5mmdmoe3 {
            f0: FromValue::from_value(s[0].as_ref().expect("component f0 of Ts5mmdmoe3 must be present")),
            f1: FromValue::from_value(s[1].as_ref().expect("component f1 of Ts5mmdmoe3 must be present")),
            f2: FromValue::from_value(s[2].as_ref().expect("component f2 of Ts5mmdmoe3 must be present")),
            f3: s[3].as_ref().map(FromValue::from_value),
            f4: s[4].as_ref().map(FromValue::from_value),
        }
    }
}
impl ToValue for Ts5mmdmoe3 {
    fn to_value(&self) -> Value {
        Value::Seq(vec![
            Some(self.f0.to_value()),
            Some(self.f1.to_value()),
            Some(self.f2.to_value()),
            self.f3.as_ref().map(|x| x.to_value()),
            self.f4.as_ref().map(|x| x.to_value()),
        ])
    }
}
impl FromValue for Ts5mmdmoe4 {
    fn from_value(v: &Value) -> Self {
        let s = match v { Value::Seq(s) => s, other => panic!("Ts5mmdmoe4: expected Seq, got {other:?}") };
        assert_eq!(s.len(), 5, "Ts5mmdmoe4: component count");
        let _ = s;
        Ts5mmdmoe4 {
            f0: FromValue::from_value(s[0].as_ref().expect("component f0 of Ts5mmdmoe4 must be present")),
            f1: FromValue::from_value(s[1].as_ref().expect("component f1 of Ts5mmdmoe4 must be present")),
            f2: FromValue::from_value(s[2].as_ref().expect("component f2 of Ts5mmdmoe4 must be present")),
            f3: FromValue::from_value(s[3].as_ref().expect("component f3 of Ts5mmdmoe4 must be present")),
            f4: s[4].as_ref().map(FromValue::from_value),
        }
    }
}
impl ToValue for Ts5mmdmoe4 {
    fn to_value(&self) -> Value {
        Value::Seq(vec![
            Some(self.f0.to_value()),
            Some(self.f1.to_value()),
            Some(self.f2.to_value()),
            Some(self.f3.to_value()),
            self.f4.as_ref().map(|x| x.to_value()),
        ])
    }
}
impl FromValue for Ts5mmdmoe5 {
    fn from_value(v: &Value) -> Self {
        let s = match v { Value::Seq(s) => s, other => panic!("Ts5mmdmoe5: expected Seq, got {other:?}") };
        assert_eq!(s.len(), 5, "Ts5mmdmoe5: component count");
        let _ = s;
        Ts5mmdmoe5 {
            f0: FromValue::from_value(s[0].as_ref().expect("component f0 of Ts5mmdmoe5 must be present")),
            f1: FromValue::from_value(s[1].as_ref().expect("component f1 of Ts5mmdmoe5 must be present")),
            f2: FromValue::from_value(s[2].as_ref().expect("component f2 of Ts5mmdmoe5 must be present")),
            f3: FromValue::from_value(s[3].as_ref().expect("component f3 of Ts5mmdmoe5 must be present")),
            f4: s[4].as_ref().map(FromValue::from_value),
        }
    }
}
impl ToValue for Ts5mmdmoe5 {
    fn to_value(&self) -> Value {
        Value::Seq(vec![
            Some(self.f0.to_value()),
            Some(self.f1.to_value()),
            Some(self.f2.to_value()),
            Some(self.f3.to_value()),
            self.f4.as_ref().map(|x| x.to_value()),
        ])
    }
}
impl FromValue for Ts5omdmon {
    fn from_value(v: &Value) -> Self {
        let s = match v { Value::Seq(s) => s, other => panic!("Ts5omdmon: expected Seq, got {other:?}") };
        assert_eq!(s.len(), 5, "Ts5omdmon: component count");
        let _ = s;
        Ts5omdmon {
            f0: s[0].as_ref().map(FromValue::from_value),
            f1: FromValue::from_value(s[1].as_ref().expect("component f1 of Ts5omdmon must be present")),
            f2: FromValue::from_value(s[2].as_ref().expect("component f2 of Ts5omdmon must be present")),
            f3: FromValue::from_value(s[3].as_ref().expect("component f3 of Ts5omdmon must be present")),
            f4: s[4].as_ref().map(FromValue::from_value),
        }
    }
}
impl ToValue for Ts5omdmon {
    fn to_value(&self) -> Value {
        Value::Seq(vec![
            self.f0.as_ref().map(|x| x.to_value()),
            Some(self.f1.to_value()),
            Some(self.f2.to_value()),
            Some(self.f3.to_value()),
            self.f4.as_ref().map(|x| x.to_value()),
        ])
    }
}
impl FromValue for Ts5omdmoe0 {
    fn from_value(v: &Value) -> Self {
        let s = match v { Value::Seq(s) => s, other => panic!("Ts5omdmoe0: expected Seq, got {other:?}") };
        assert_eq!(s.len(), 5, "Ts5omdmoe0: component count");
        let _ = s;
        Ts5omdmoe0 {
            f0: s[0].as_ref().map(FromValue::from_value),
            f1: s[1].as_ref().map(FromValue::from_value),
            f2: FromValue::from_value(s[2].as_ref().expect("component f2 of Ts5omdmoe0 must be present")),
            f3: s[3].as_ref().map(FromValue::from_value),
            f4: s[4].as_ref().map(FromValue::from_value),
        }
    }
}
impl ToValue for Ts5omdmoe0 {
    fn to_value(&self) -> Value {
        Value::Seq(vec![
            self.f0.as_ref().map(|x| x.to_value()),
            self.f1.as_ref().map(|x| x.to_value()),
            Some(self.f2.to_value()),
            self.f3.as_ref().map(|x| x.to_value()),
            self.f4.as_ref().map(|x| x.to_value()),
        ])
    }
}
impl FromValue for Ts5omdmoe1 {
    fn from_value(v: &Value) -> Self {
        let s = match v { Value::Seq(s) => s, other => panic!("Ts5omdmoe1: expected Seq, got {other:?}") };
        assert_eq!(s.len(), 5, "Ts5omdmoe1: component count");
        let _ = s;
        Ts5omdmoe1 {
            f0: s[0].as_ref().map(FromValue::from_value),
            f1: s[1].as_ref().map(FromValue::from_value),
            f2: FromValue::from_value(s[2].as_ref().expect("component f2 of Ts5omdmoe1 must be present")),
            f3: s[3].as_ref().map(FromValue::from_value),
            f4: s[4].as_ref().map(FromValue::from_value),
        }
    }
}
impl ToValue for Ts5omdmoe1 {
    fn to_value(&self) -> Value {
        Value::Seq(vec![
            self.f0.as_ref().map(|x| x.to_value()),
            self.f1.as_ref().map(|x| x.to_value()),
            Some(self.f2.to_value()),
            self.f3.as_ref().map(|x| x.to_value()),
            self.f4.as_ref().map(|x| x.to_value()),
        ])
    }
}
impl FromValue for Ts5omdmoe2 {
    fn from_value(v: &Value) -> Self {
        let s = match v { Value::Seq(s) => s, other => panic!("Ts5omdmoe2: expected Seq, got {other:?}") };
        assert_eq!(s.len(), 5, "Ts5omdmoe2: component count");
        let _ = s;
        Ts5omdmoe2 {
            f0: s[0].as_ref().map(FromValue::from_value),
            f1: FromValue::from_value(s[1].as_ref().expect("component f1 of Ts5omdmoe2 must be present")),
            f2: FromValue::from_value(s[2].as_ref().expect("component f2 of Ts5omdmoe2 must be present")),
            f3: s[3].as_ref().map(FromValue::from_value),
            f4: s[4].as_ref().map(FromValue::from_value),
        }
    }
}
impl ToValue for Ts5omdmoe2 {
    fn to_value(&self) -> Value {
        Value::Seq(vec![
            self.f0.as_ref().map(|x| x.to_value()),
            Some(self.f1.to_value()),
            Some(self.f2.to_value()),
            self.f3.as_ref().map(|x| x.to_value()),
            self.f4.as_ref().map(|x| x.to_value()),
        ])
    }
}
impl FromValue for Ts5omdmoe3 {
    fn from_value(v: &Value) -> Self {
        let s = match v { Value::Seq(s) => s, other => panic!("Ts5omdmoe3: expected Seq, got {other:?}") };
        assert_eq!(s.len(), 5, "Ts5omdmoe3: component count");
        let _ = s;
        Ts5omdmoe3 {
            f0: s[0].as_ref().map(FromValue::from_value),
            f1: FromValue::from_value(s[1].as_ref().expect("component f1 of Ts5omdmoe3 must be present")),
            f2: FromValue::from_value(s[2].as_ref().expect("component f2 of Ts5omdmoe3 must be present")),
            f3: s[3].as_ref().map(FromValue::from_value),
            f4: s[4].as_ref().map(FromValue::from_value),
        }
    }
}
impl ToValue for Ts5omdmoe3 {
    fn to_value(&self) -> Value {
        Value::Seq(vec![
            self.f0.as_ref().map(|x| x.to_value()),
            Some(self.f1.to_value()),
            Some(self.f2.to_value()),
            self.f3.as_ref().map(|x| x.to_value()),
            self.f4.as_ref().map(|x| x.to_value()),
        ])
    }
}
impl FromValue for Ts5omdmoe4 {
    fn from_value(v: &Value) -> Self {
        let s = match v { Value::Seq(s) => s, other => panic!("Ts5omdmoe4: expected Seq, got {other:?}") };
        assert_eq!(s.len(), 5, "Ts5omdmoe4: component count");
        let _ = s;
        Ts5omdmoe4 {
            f0: s[0].as_ref().map(FromValue::from_value),
            f1: FromValue::from_value(s[1].as_ref().expect("component f1 of Ts5omdmoe4 must be present")),
            f2: FromValue::from_value(s[2].as_ref().expect("component f2 of Ts5omdmoe4 must be present")),
            f3: FromValue::from_value(s[3].as_ref().expect("component f3 of Ts5omdmoe4 must be present")),
            f4: s[4].as_ref().map(FromValue::from_value),
        }
    }
}
impl ToValue for Ts5omdmoe4 {
    fn to_value(&self) -> Value {
        Value::Seq(vec![
            self.f0.as_ref().map(|x| x.to_value()),
            Some(self.f1.to_value()),
            Some(self.f2.to_value()),
            Some(self.f3.to_value()),
            self.f4.as_ref().map(|x| x.to_value()),
        ])
    }
}
impl FromValue for Ts5omdmoe5 {
    fn from_value(v: &Value) -> Self {
        let s = match v { Value::Seq(s) => s, other => panic!("Ts5omdmoe5: expected Seq, got {other:?}") };
        assert_eq!(s.len(), 5, "Ts5omdmoe5: component count");
        let _ = s;
        Ts5omdmoe5 {
            f0: s[0].as_ref().map(FromValue::from_value),
            f1: FromValue::from_value(s[1].as_ref().expect("component f1 of Ts5omdmoe5 must be present")),
            f2: FromValue::from_value(s[2].as_ref().expect("component f2 of Ts5omdmoe5 must be present")),
            f3: FromValue::from_value(s[3].as_ref().expect("component f3 of Ts5omdmoe5 must be present")),
            f4: s[4].as_ref().map(FromValue::from_value),
        }
    }
}
impl ToValue for Ts5omdmoe5 {
    fn to_value(&self) -> Value {
        Value::Seq(vec![
            self.f0.as_ref().map(|x| x.to_value()),
            Some(self.f1.to_value()),
            Some(self.f2.to_value()),
            Some(self.f3.to_value()),
            self.f4.as_ref().map(|x| x.to_value()),
        ])
    }
}
impl FromValue for Ts5dmdmon {
    fn from_value(v: &Value) -> Self {
        let s = match v { Value::Seq(s) => s, other => panic!("Ts5dmdmon: expected Seq, got {other:?}") };
        assert_eq!(s.len(), 5, "Ts5dmdmon: component count");
        let _ = s;
        Ts5dmdmon {
            f0: FromValue::from_value(s[0].as_ref().expect("component f0 of Ts5dmdmon must be present")),
            f1: FromValue::from_value(s[1].as_ref().expect("component f1 of Ts5dmdmon must be present")),
            f2: FromValue::from_value(s[2].as_ref().expect("component f2 of Ts5dmdmon must be present")),
            f3: FromValue::from_value(s[3].as_ref().expect("component f3 of Ts5dmdmon must be present")),
            f4: s[4].as_ref().map(FromValue::from_value),
        }
    }
}
impl ToValue for Ts5dmdmon {
    fn to_value(&self) -> Value {
        Value::Seq(vec![
            Some(self.f0.to_value()),
            Some(self.f1.to_value()),
            Some(self.f2.to_value()),
            Some(self.f3.to_value()),
            self.f4.as_ref().map(|x| x.to_value()),
        ])
    }
}
impl FromValue for Ts5dmdmoe0 {
    fn from_value(v: &Value) -> Self {
        let s = match v { Value::Seq(s) => s, other => panic!("Ts5dmdmoe0: expected Seq, got {other:?}") };
        assert_eq!(s.len(), 5, "Ts5dmdmoe0: component count");
        let _ = s;
        Ts5dmdmoe0 {
            f0: FromValue::from_value(s[0].as_ref().expect("component f0 of Ts5dmdmoe0 must be present")),
            f1: s[1].as_ref().map(FromValue::from_value),
            f2: FromValue::from_value(s[2].as_ref().expect("component f2 of Ts5dmdmoe0 must be present")),
            f3: s[3].as_ref().map(FromValue::from_value),
            f4: s[4].as_ref().map(FromValue::from_value),
        }
    }
}
impl ToValue for Ts5dmdmoe0 {
    fn to_value(&self) -> Value {
        Value::Seq(vec![
            Some(self.f0.to_value()),
            self.f1.as_ref().map(|x| x.to_value()),
            Some(self.f2.to_value()),
            self.f3.as_ref().map(|x| x.to_value()),
            self.f4.as_ref().map(|x| x.to_value()),
        ])
    }
}
impl FromValue for Ts5dmdmoe1 {
    fn from_value(v: &Value) -> Self {
        let s = match v { Value::Seq(s) => s, other => panic!("Ts5dmdmoe1: expected Seq, got {other:?}") };
        assert_eq!(s.len(), 5, "Ts5dmdmoe1: component count");
        let _ = s;
        Ts5dmdmoe1 {
            f0: FromValue::from_value(s[0].as_ref().expect("component f0 of Ts5dmdmoe1 must be present")),
            f1: s[1].as_ref().map(FromValue::from_value),
            f2: FromValue::from_value(s[2].as_ref().expect("component f2 of Ts5dmdmoe1 must be present")),
            f3: s[3].as_ref().map(FromValue::from_value),
            f4: s[4].as_ref().map(FromValue::from_value),
        }
    }
}
impl ToValue for Ts5dmdmoe1 {
    fn to_value(&self) -> Value {
        Value::Seq(vec![
            Some(self.f0.to_value()),
            self.f1.as_ref().map(|x| x.to_value()),
            Some(self.f2.to_value()),
            self.f3.as_ref().map(|x| x.to_value()),
            self.f4.as_ref().map(|x| x.to_value()),
        ])
    }
}
impl FromValue for Ts5dmdmoe2 {
    fn from_value(v: &Value) -> Self {
        let s = match v { Value::Seq(s) => s, other => panic!("Ts5dmdmoe2: expected Seq, got {other:?}") };
        assert_eq!(s.len(), 5, "Ts5dmdmoe2: component count");
        let _ = s;
        Ts5dmdmoe2 {
            f0: FromValue::from_value(s[0].as_ref().expect("component f0 of Ts5dmdmoe2 must be present")),
            f1: FromValue::from_value(s[1].as_ref().expect("component f1 of Ts5dmdmoe2 must be present")),
            f2: FromValue::from_value(s[2].as_ref().expect("component f2 of Ts5dmdmoe2 must be present")),
            f3: s[3].as_ref().map(FromValue::from_value),
            f4: s[4].as_ref().map(FromValue::from_value),
        }
    }
}
impl ToValue for Ts5dmdmoe2 {
    fn to_value(&self) -> Value {
        Value::Seq(vec![
            Some(self.f0.to_value()),
            Some(self.f1.to_value()),
            Some(self.f2.to_value()),
            self.f3.as_ref().map(|x| x.to_value()),
            self.f4.as_ref().map(|x| x.to_value()),
        ])
    }
}
impl FromValue for Ts5dmdmoe3 {
    fn from_value(v: &Value) -> Self {
        let s = match v { Value::Seq(s) => s, other => panic!("Ts5dmdmoe3: expected Seq, got {other:?}") };
        assert_eq!(s.len(), 5, "Ts5dmdmoe3: component count");
        let _ = s;
        Ts5dmdmoe3 {
            f0: FromValue::from_value(s[0].as_ref().expect("component f0 of Ts5dmdmoe3 must be present")),
            f1: FromValue::from_value(s[1].as_ref().expect("component f1 of Ts5dmdmoe3 must be present")),
            f2: FromValue::from_value(s[2].as_ref().expect("component f2 of Ts5dmdmoe3 must be present")),
            f3: s[3].as_ref().map(FromValue::from_value),
            f4: s[4].as_ref().map(FromValue::from_value),
        }
    }
}
impl ToValue for Ts5dmdmoe3 {
    fn to_value(&self) -> Value {
        Value::Seq(vec![
            Some(self.f0.to_value()),
            Some(self.f1.to_value()),
            Some(self.f2.to_value()),
            self.f3.as_ref().map(|x| x.to_value()),
            self.f4.as_ref().map(|x| x.to_value()),
        ])
    }
}
impl FromValue for Ts5dmdmoe4 {
    fn from_value(v: &Value) -> Self {
        let s = match v { Value::Seq(s) => s, other => panic!("Ts5dmdmoe4: expected Seq, got {other:?}") };
        assert_eq!(s.len(), 5, "Ts5dmdmoe4: component count");
        let _ = s;
        Ts5dmdmoe4 {
            f0: FromValue::from_value(s[0].as_ref().expect("component f0 of Ts5dmdmoe4 must be present")),
            f1: FromValue::from_value(s[1].as_ref().expect("component f1 of Ts5dmdmoe4 must be present")),
            f2: FromValue::from_value(s[2].as_ref().expect("component f2 of Ts5dmdmoe4 must be present")),
            f3: FromValue::from_value(s[3].as_ref().expect("component f3 of Ts5dmdmoe4 must be present")),
            f4: s[4].as_ref().map(FromValue::from_value),
        }
    }
}
impl ToValue for Ts5dmdmoe4 {
    fn to_value(&self) -> Value {
        Value::Seq(vec![
            Some(self.f0.to_value()),
            Some(self.f1.to_value()),
            Some(self.f2.to_value()),
            Some(self.f3.to_value()),
            self.f4.as_ref().map(|x| x.to_value()),
        ])
    }
}
impl FromValue for Ts5dmdmoe5 {
    fn from_value(v: &Value) -> Self {
        let s = match v { Value::Seq(s) => s, other => panic!("Ts5dmdmoe5: expected Seq, got {other:?}") };
        assert_eq!(s.len(), 5, "Ts5dmdmoe5: component count");
        let _ = s;
        Ts5dmdmoe5 {
            f0: FromValue::from_value(s[0].as_ref().expect("component f0 of Ts5dmdmoe5 must be present")),
            f1: FromValue::from_value(s[1].as_ref().expect("component f1 of Ts5dmdmoe5 must be present")),
            f2: FromValue::from_value(s[2].as_ref().expect("component f2 of Ts5dmdmoe5 must be present")),
            f3: FromValue::from_value(s[3].as_ref().expect("component f3 of Ts5dmdmoe5 must be present")),
            f4: s[4].as_ref().map(FromValue::from_value),
        }
    }
}
impl ToValue for Ts5dmdmoe5 {
    fn to_value(&self) -> Value {
        Value::Seq(vec![
            Some(self.f0.to_value()),
            Some(self.f1.to_value()),
            Some(self.f2.to_value()),
            Some(self.f3.to_value()),
            self.f4.as_ref().map(|x| x.to_value()),
        ])
    }
}
impl FromValue for Ts5modmon {
    fn from_value(v: &Value) -> Self {
        let s = match v { Value::Seq(s) => s, other => panic!("Ts5modmon: expected Seq, got {other:?}") };
        assert_eq!(s.len(), 5, "Ts5modmon: component count");
        let _ = s;
        Ts5modmon {
            f0: FromValue::from_value(s[0].as_ref().expect("component f0 of Ts5modmon must be present")),
            f1: s[1].as_ref().map(FromValue::from_value),
            f2: FromValue::from_value(s[2].as_ref().expect("component f2 of Ts5modmon must be present")),
            f3: FromValue::from_value(s[3].as_ref().expect("component f3 of Ts5modmon must be present")),
            f4: s[4].as_ref().map(FromValue::from_value),
        }
    }
}
impl ToValue for Ts5modmon {
    fn to_value(&self) -> Value {
        Value::Seq(vec![
            Some(self.f0.to_value()),
            self.f1.as_ref().map(|x| x.to_value()),
            Some(self.f2.to_value()),
            Some(self.f3.to_value()),
            self.f4.as_ref().map(|x| x.to_value()),
        ])
    }
}
impl FromValue for Ts5modmoe0 {
    fn from_value(v: &Value) -> Self {
        let s = match v { Value::Seq(s) => s, other => panic!("Ts5modmoe0: expected Seq, got {other:?}") };
        assert_eq!(s.len(), 5, "Ts5modmoe0: component count");
        let _ = s;
        Ts5modmoe0 {
            f0: FromValue::from_value(s[0].as_ref().expect("component f0 of Ts5modmoe0 must be present")),
            f1: s[1].as_ref().map(FromValue::from_value),
            f2: FromValue::from_value(s[2].as_ref().expect("component f2 of Ts5modmoe0 must be present")),
            f3: s[3].as_ref().map(FromValue::from_value),
            f4: s[4].as_ref().map(FromValue::from_value),
        }
    }
}
impl ToValue for Ts5modmoe0 {
    fn to_value(&self) -> Value {
        Value::Seq(vec![
            Some(self.f0.to_value()),
            self.f1.as_ref().map(|x| x.to_value()),
            Some(self.f2.to_value()),
            self.f3.as_ref().map(|x| x.to_value()),
            self.f4.as_ref().map(|x| x.to_value()),
        ])
    }
}
impl FromValue for Ts5modmoe1 {
    fn from_value(v: &Value) -> Self {
        let s = match v { Value::Seq(s) => s, other => panic!("Ts5modmoe1: expected Seq, got {other:?}") };
        assert_eq!(s.len(), 5, "Ts5modmoe1: component count");
        let _ = s;
        Ts5modmoe1 {
            f0: FromValue::from_value(s[0].as_ref().expect("component f0 of Ts5modmoe1 must be present")),
            f1: s[1].as_ref().map(FromValue::from_value),
            f2: FromValue::from_value(s[2].as_ref().expect("component f2 of Ts5modmoe1 must be present")),
            f3: s[3].as_ref().map(FromValue::from_value),
            f4: s[4].as_ref().map(FromValue::from_value),
        }
    }
}
impl ToValue for Ts5modmoe1 {
    fn to_value(&self) -> Value {
        Value::Seq(vec![
            Some(self.f0.to_value()),
            self.f1.as_ref().map(|x| x.to_value()),
            Some(self.f2.to_value()),
            self.f3.as_ref().map(|x| x.to_value()),
            self.f4.as_ref().map(|x| x.to_value()),
        ])
    }
}
impl FromValue for Ts5modmoe2 {
    fn from_value(v: &Value) -> Self {
        let s = match v { Value::Seq(s) => s, other => panic!("Ts5modmoe2: expected Seq, got {other:?}") };
        assert_eq!(s.len(), 5, "Ts5modmoe2: component count");
        let _ = s;
        Ts5modmoe2 {
            f0: FromValue::from_value(s[0].as_ref().expect("component f0 of Ts5modmoe2 must be present")),
            f1: s[1].as_ref().map(FromValue::from_value),
            f2: FromValue::from_value(s[2].as_ref().expect("component f2 of Ts5modmoe2 must be present")),
            f3: s[3].as_ref().map(FromValue::from_value),
            f4: s[4].as_ref().map(FromValue::from_value),
        }
    }
}
impl ToValue for Ts5modmoe2 {
    fn to_value(&self) -> Value {
        Value::Seq(vec![
            Some(self.f0.to_value()),
            self.f1.as_ref().map(|x| x.to_value()),
            Some(self.f2.to_value()),
            self.f3.as_ref().map(|x| x.to_value()),
            self.f4.as_ref().map(|x| x.to_value()),
        ])
    }
}
impl FromValue for Ts5modmoe3 {
    fn from_value(v: &Value) -> Self {
        let s = match v { Value::Seq(s) => s, other => panic!("Ts5modmoe3: expected Seq, got {other:?}") };
        assert_eq!(s.len(), 5, "Ts5modmoe3: component count");
        let _ = s;
        Ts5modmoe3 {
            f0: FromValue::from_value(s[0].as_ref().expect("component f0 of Ts5modmoe3 must be present")),
            f1: s[1].as_ref().map(FromValue::from_value),
            f2: FromValue::from_value(s[2].as_ref().expect("component f2 of Ts5modmoe3 must be present")),
            f3: s[3].as_ref().map(FromValue::from_value),
            f4: s[4].as_ref().map(FromValue::from_value),
        }
    }
}
impl ToValue for Ts5modmoe3 {
    fn to_value(&self) -> Value {
        Value::Seq(vec![
            Some(self.f0.to_value()),
            self.f1.as_ref().map(|x| x.to_value()),
            Some(self.f2.to_value()),
            self.f3.as_ref().map(|x| x.to_value()),
            self.f4.as_ref().map(|x| x.to_value()),
        ])
    }
}
impl FromValue for Ts5modmoe4 {
    fn from_value(v: &Value) -> Self {
        let s = match v { Value::Seq(s) => s, other => panic!("Ts5modmoe4: expected Seq, got {other:?}") };
        assert_eq!(s.len(), 5, "Ts5modmoe4: component count");
        let _ = s;
        Ts5modmoe4 {
            f0: FromValue::from_value(s[0].as_ref().expect("component f0 of Ts5modmoe4 must be present")),
            f1: s[1].as_ref().map(FromValue::from_value),
            f2: FromValue::from_value(s[2].as_ref().expect("component f2 of Ts5modmoe4 must be present")),
            f3: FromValue::from_value(s[3].as_ref().expect("component f3 of Ts5modmoe4 must be present")),
            f4: s[4].as_ref().map(FromValue::from_value),
        }
    }
}
impl ToValue for Ts5modmoe4 {
    fn to_value(&self) -> Value {
        Value::Seq(vec![
            Some(self.f0.to_value()),
            self.f1.as_ref().map(|x| x.to_value()),
            Some(self.f2.to_value()),
            Some(self.f3.to_value()),
            self.f4.as_ref().map(|x| x.to_value()),
        ])
    }
}

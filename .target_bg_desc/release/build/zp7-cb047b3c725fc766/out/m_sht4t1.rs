use asn1rs::prelude::*;

#[asn(set)]

#[derive(Default, Debug, Clone, PartialEq, Hash)]
pub struct Tt4dmdmn {
    #[asn(default(integer(0..7), 5))] pub f0: u8,
    #[asn(integer(0..7))] pub f1: u8,
    #[asn(default(integer(0..7), 5))] pub f2: u8,
    #[asn(integer(0..7))] pub f3: u8,
}

impl Tt4dmdmn {
    pub const fn f0_min() -> u8 {
        0
    }

    pub const fn f0_max() -> u8 {
        7
    }

    pub const fn f1_min() -> u8 {
        0
    }

    pub const fn f1_max() -> u8 {
        7
    }

    pub const fn f2_min() -> u8 {
        0
    }

    pub const fn f2_max() -> u8 {
        7
    }

    pub const fn f3_min() -> u8 {
        0
    }

    pub const fn f3_max() -> u8 {
        7
    }
}

#[asn(set, extensible_after(f0))]

#[derive(Default, Debug, Clone, PartialEq, Hash)]
pub struct Tt4dmdme0 {
    #[asn(default(integer(0..7), 5))] pub f0: u8,
    #[asn(optional(integer(0..7)))] pub f1: Option<u8>,
    #[asn(default(integer(0..7), 5))] pub f2: u8,
    #[asn(optional(integer(0..7)))] pub f3: Option<u8>,
}

impl Tt4dmdme0 {
    pub const fn f0_min() -> u8 {
        0
    }

    pub const fn f0_max() -> u8 {
        7
    }

    pub const fn f1_min() -> u8 {
        0
    }

    pub const fn f1_max() -> u8 {
        7
    }

    pub const fn f2_min() -> u8 {
        0
    }

    pub const fn f2_max() -> u8 {
        7
    }

    pub const fn f3_min() -> u8 {
        0
    }

    pub const fn f3_max() -> u8 {
        7
    }
}

#[asn(set, extensible_after(f0))]

#[derive(Default, Debug, Clone, PartialEq, Hash)]
pub struct Tt4dmdme1 {
    #[asn(default(integer(0..7), 5))] pub f0: u8,
    #[asn(optional(integer(0..7)))] pub f1: Option<u8>,
    #[asn(default(integer(0..7), 5))] pub f2: u8,
    #[asn(optional(integer(0..7)))] pub f3: Option<u8>,
}

impl Tt4dmdme1 {
    pub const fn f0_min() -> u8 {
        0
    }

    pub const fn f0_max() -> u8 {
        7
    }

    pub const fn f1_min() -> u8 {
        0
    }

    pub const fn f1_max() -> u8 {
        7
    }

    pub const fn f2_min() -> u8 {
        0
    }

    pub const fn f2_max() -> u8 {
        7
    }

    pub const fn f3_min() -> u8 {
        0
    }

    pub const fn f3_max() -> u8 {
        7
    }
}

#[asn(set, extensible_after(f1))]

#[derive(Default, Debug, Clone, PartialEq, Hash)]
pub struct Tt4dmdme2 {
    #[asn(default(integer(0..7), 5))] pub f0: u8,
    #[asn(integer(0..7))] pub f1: u8,
    #[asn(default(integer(0..7), 5))] pub f2: u8,
    #[asn(optional(integer(0..7)))] pub f3: Option<u8>,
}

impl Tt4dmdme2 {
    pub const fn f0_min() -> u8 {
        0
    }

    pub const fn f0_max() -> u8 {
        7
    }

    pub const fn f1_min() -> u8 {
        0
    }

    pub const fn f1_max() -> u8 {
        7
    }

    pub const fn f2_min() -> u8 {
        0
    }

    pub const fn f2_max() -> u8 {
        7
    }

    pub const fn f3_min() -> u8 {
        0
    }

    pub const fn f3_max() -> u8 {
        7
    }
}

#[asn(set, extensible_after(f2))]

#[derive(Default, Debug, Clone, PartialEq, Hash)]
pub struct Tt4dmdme3 {
    #[asn(default(integer(0..7), 5))] pub f0: u8,
    #[asn(integer(0..7))] pub f1: u8,
    #[asn(default(integer(0..7), 5))] pub f2: u8,
    #[asn(optional(integer(0..7)))] pub f3: Option<u8>,
}

impl Tt4dmdme3 {
    pub const fn f0_min() -> u8 {
        0
    }

    pub const fn f0_max() -> u8 {
        7
    }

    pub const fn f1_min() -> u8 {
        0
    }

    pub const fn f1_max() -> u8 {
        7
    }

    pub const fn f2_min() -> u8 {
        0
    }

    pub const fn f2_max() -> u8 {
        7
    }

    pub const fn f3_min() -> u8 {
        0
    }

    pub const fn f3_max() -> u8 {
        7
    }
}

#[asn(set, extensible_after(f3))]

#[derive(Default, Debug, Clone, PartialEq, Hash)]
pub struct Tt4dmdme4 {
    #[asn(default(integer(0..7), 5))] pub f0: u8,
    #[asn(integer(0..7))] pub f1: u8,
    #[asn(default(integer(0..7), 5))] pub f2: u8,
    #[asn(integer(0..7))] pub f3: u8,
}

impl Tt4dmdme4 {
    pub const fn f0_min() -> u8 {
        0
    }

    pub const fn f0_max() -> u8 {
        7
    }

    pub const fn f1_min() -> u8 {
        0
    }

    pub const fn f1_max() -> u8 {
        7
    }

    pub const fn f2_min() -> u8 {
        0
    }

    pub const fn f2_max() -> u8 {
        7
    }

    pub const fn f3_min() -> u8 {
        0
    }

    pub const fn f3_max() -> u8 {
        7
    }
}

#[asn(set)]

#[derive(Default, Debug, Clone, PartialEq, Hash)]
pub struct Tt4modmn {
    #[asn(integer(0..7))] pub f0: u8,
    #[asn(optional(integer(0..7)))] pub f1: Option<u8>,
    #[asn(default(integer(0..7), 5))] pub f2: u8,
    #[asn(integer(0..7))] pub f3: u8,
}

impl Tt4modmn {
    pub const fn f0_min() -> u8 {
        0
    }

    pub const fn f0_max() -> u8 {
        7
    }

    pub const fn f1_min() -> u8 {
        0
    }

    pub const fn f1_max() -> u8 {
        7
    }

    pub const fn f2_min() -> u8 {
        0
    }

    pub const fn f2_max() -> u8 {
        7
    }

    pub const fn f3_min() -> u8 {
        0
    }

    pub const fn f3_max() -> u8 {
        7
    }
}

#[asn(set, extensible_after(f0))]

#[derive(Default, Debug, Clone, PartialEq, Hash)]
pub struct Tt4modme0 {
    #[asn(integer(0..7))] pub f0: u8,
    #[asn(optional(integer(0..7)))] pub f1: Option<u8>,
    #[asn(default(integer(0..7), 5))] pub f2: u8,
    #[asn(optional(integer(0..7)))] pub f3: Option<u8>,
}

impl Tt4modme0 {
    pub const fn f0_min() -> u8 {
        0
    }

    pub const fn f0_max() -> u8 {
        7
    }

    pub const fn f1_min() -> u8 {
        0
    }

    pub const fn f1_max() -> u8 {
        7
    }

    pub const fn f2_min() -> u8 {
        0
    }

    pub const fn f2_max() -> u8 {
        7
    }

    pub const fn f3_min() -> u8 {
        0
    }

    pub const fn f3_max() -> u8 {
        7
    }
}

#[asn(set, extensible_after(f0))]

#[derive(Default, Debug, Clone, PartialEq, Hash)]
pub struct Tt4modme1 {
    #[asn(integer(0..7))] pub f0: u8,
    #[asn(optional(integer(0..7)))] pub f1: Option<u8>,
    #[asn(default(integer(0..7), 5))] pub f2: u8,
    #[asn(optional(integer(0..7)))] pub f3: Option<u8>,
}

impl Tt4modme1 {
    pub const fn f0_min() -> u8 {
        0
    }

    pub const fn f0_max() -> u8 {
        7
    }

    pub const fn f1_min() -> u8 {
        0
    }

    pub const fn f1_max() -> u8 {
        7
    }

    pub const fn f2_min() -> u8 {
        0
    }

    pub const fn f2_max() -> u8 {
        7
    }

    pub const fn f3_min() -> u8 {
        0
    }

    pub const fn f3_max() -> u8 {
        7
    }
}

#[asn(set, extensible_after(f1))]

#[derive(Default, Debug, Clone, PartialEq, Hash)]
pub struct Tt4modme2 {
    #[asn(integer(0..7))] pub f0: u8,
    #[asn(optional(integer(0..7)))] pub f1: Option<u8>,
    #[asn(default(integer(0..7), 5))] pub f2: u8,
    #[asn(optional(integer(0..7)))] pub f3: Option<u8>,
}

impl Tt4modme2 {
    pub const fn f0_min() -> u8 {
        0
    }

    pub const fn f0_max() -> u8 {
        7
    }

    pub const fn f1_min() -> u8 {
        0
    }

    pub const fn f1_max() -> u8 {
        7
    }

    pub const fn f2_min() -> u8 {
        0
    }

    pub const fn f2_max() -> u8 {
        7
    }

    pub const fn f3_min() -> u8 {
        0
    }

    pub const fn f3_max() -> u8 {
        7
    }
}

#[asn(set, extensible_after(f2))]

#[derive(Default, Debug, Clone, PartialEq, Hash)]
pub struct Tt4modme3 {
    #[asn(integer(0..7))] pub f0: u8,
    #[asn(optional(integer(0..7)))] pub f1: Option<u8>,
    #[asn(default(integer(0..7), 5))] pub f2: u8,
    #[asn(optional(integer(0..7)))] pub f3: Option<u8>,
}

impl Tt4modme3 {
    pub const fn f0_min() -> u8 {
        0
    }

    pub const fn f0_max() -> u8 {
        7
    }

    pub const fn f1_min() -> u8 {
        0
    }

    pub const fn f1_max() -> u8 {
        7
    }

    pub const fn f2_min() -> u8 {
        0
    }

    pub const fn f2_max() -> u8 {
        7
    }

    pub const fn f3_min() -> u8 {
        0
    }

    pub const fn f3_max() -> u8 {
        7
    }
}

#[asn(set, extensible_after(f3))]

#[derive(Default, Debug, Clone, PartialEq, Hash)]
pub struct Tt4modme4 {
    #[asn(integer(0..7))] pub f0: u8,
    #[asn(optional(integer(0..7)))] pub f1: Option<u8>,
    #[asn(default(integer(0..7), 5))] pub f2: u8,
    #[asn(integer(0..7))] pub f3: u8,
}

impl Tt4modme4 {
    pub const fn f0_min() -> u8 {
        0
    }

    pub const fn f0_max() -> u8 {
        7
    }

    pub const fn f1_min() -> u8 {
        0
    }

    pub const fn f1_max() -> u8 {
        7
    }

    pub const fn f2_min() -> u8 {
        0
    }

    pub const fn f2_max() -> u8 {
        7
    }

    pub const fn f3_min() -> u8 {
        0
    }

    pub const fn f3_max() -> u8 {
        7
    }
}

#[asn(set)]

#[derive(Default, Debug, Clone, PartialEq, Hash)]
pub struct Tt4oodmn {
    #[asn(optional(integer(0..7)))] pub f0: Option<u8>,
    #[asn(optional(integer(0..7)))] pub f1: Option<u8>,
    #[asn(default(integer(0..7), 5))] pub f2: u8,
    #[asn(integer(0..7))] pub f3: u8,
}

impl Tt4oodmn {
    pub const fn f0_min() -> u8 {
        0
    }

    pub const fn f0_max() -> u8 {
        7
    }

    pub const fn f1_min() -> u8 {
        0
    }

    pub const fn f1_max() -> u8 {
        7
    }

    pub const fn f2_min() -> u8 {
        0
    }

    pub const fn f2_max() -> u8 {
        7
    }

    pub const fn f3_min() -> u8 {
        0
    }

    pub const fn f3_max() -> u8 {
        7
    }
}

#[asn(set, extensible_after(f0))]

#[derive(Default, Debug, Clone, PartialEq, Hash)]
pub struct Tt4oodme0 {
    #[asn(optional(integer(0..7)))] pub f0: Option<u8>,
    #[asn(optional(integer(0..7)))] pub f1: Option<u8>,
    #[asn(default(integer(0..7), 5))] pub f2: u8,
    #[asn(optional(integer(0..7)))] pub f3: Option<u8>,
}

impl Tt4oodme0 {
    pub const fn f0_min() -> u8 {
        0
    }

    pub const fn f0_max() -> u8 {
        7
    }

    pub const fn f1_min() -> u8 {
        0
    }

    pub const fn f1_max() -> u8 {
        7
    }

    pub const fn f2_min() -> u8 {
        0
    }

    pub const fn f2_max() -> u8 {
        7
    }

    pub const fn f3_min() -> u8 {
        0
    }

    pub const fn f3_max() -> u8 {
        7
    }
}

#[asn(set, extensible_after(f0))]

#[derive(Default, Debug, Clone, PartialEq, Hash)]
pub struct Tt4oodme1 {
    #[asn(optional(integer(0..7)))] pub f0: Option<u8>,
    #[asn(optional(integer(0..7)))] pub f1: Option<u8>,
    #[asn(default(integer(0..7), 5))] pub f2: u8,
    #[asn(optional(integer(0..7)))] pub f3: Option<u8>,
}

impl Tt4oodme1 {
    pub const fn f0_min() -> u8 {
        0
    }

    pub const fn f0_max() -> u8 {
        7
    }

    pub const fn f1_min() -> u8 {
        0
    }

    pub const fn f1_max() -> u8 {
        7
    }

    pub const fn f2_min() -> u8 {
        0
    }

    pub const fn f2_max() -> u8 {
        7
    }

    pub const fn f3_min() -> u8 {
        0
    }

    pub const fn f3_max() -> u8 {
        7
    }
}

#[asn(set, extensible_after(f1))]

#[derive(Default, Debug, Clone, PartialEq, Hash)]
pub struct Tt4oodme2 {
    #[asn(optional(integer(0..7)))] pub f0: Option<u8>,
    #[asn(optional(integer(0..7)))] pub f1: Option<u8>,
    #[asn(default(integer(0..7), 5))] pub f2: u8,
    #[asn(optional(integer(0..7)))] pub f3: Option<u8>,
}

impl Tt4oodme2 {
    pub const fn f0_min() -> u8 {
        0
    }

    pub const fn f0_max() -> u8 {
        7
    }

    pub const fn f1_min() -> u8 {
        0
    }

    pub const fn f1_max() -> u8 {
        7
    }

    pub const fn f2_min() -> u8 {
        0
    }

    pub const fn f2_max() -> u8 {
        7
    }

    pub const fn f3_min() -> u8 {
        0
    }

    pub const fn f3_max() -> u8 {
        7
    }
}

#[asn(set, extensible_after(f2))]

#[derive(Default, Debug, Clone, PartialEq, Hash)]
pub struct Tt4oodme3 {
    #[asn(optional(integer(0..7)))] pub f0: Option<u8>,
    #[asn(optional(integer(0..7)))] pub f1: Option<u8>,
    #[asn(default(integer(0..7), 5))] pub f2: u8,
    #[asn(optional(integer(0..7)))] pub f3: Option<u8>,
}

impl Tt4oodme3 {
    pub const fn f0_min() -> u8 {
        0
    }

    pub const fn f0_max() -> u8 {
        7
    }

    pub const fn f1_min() -> u8 {
        0
    }

    pub const fn f1_max() -> u8 {
        7
    }

    pub const fn f2_min() -> u8 {
        0
    }

    pub const fn f2_max() -> u8 {
        7
    }

    pub const fn f3_min() -> u8 {
        0
    }

    pub const fn f3_max() -> u8 {
        7
    }
}

#[asn(set, extensible_after(f3))]

#[derive(Default, Debug, Clone, PartialEq, Hash)]
pub struct Tt4oodme4 {
    #[asn(optional(integer(0..7)))] pub f0: Option<u8>,
    #[asn(optional(integer(0..7)))] pub f1: Option<u8>,
    #[asn(default(integer(0..7), 5))] pub f2: u8,
    #[asn(integer(0..7))] pub f3: u8,
}

impl Tt4oodme4 {
    pub const fn f0_min() -> u8 {
        0
    }

    pub const fn f0_max() -> u8 {
        7
    }

    pub const fn f1_min() -> u8 {
        0
    }

    pub const fn f1_max() -> u8 {
        7
    }

    pub const fn f2_min() -> u8 {
        0
    }

    pub const fn f2_max() -> u8 {
        7
    }

    pub const fn f3_min() -> u8 {
        0
    }

    pub const fn f3_max() -> u8 {
        7
    }
}

#[asn(set)]

#[derive(Default, Debug, Clone, PartialEq, Hash)]
pub struct Tt4dodmn {
    #[asn(default(integer(0..7), 5))] pub f0: u8,
    #[asn(optional(integer(0..7)))] pub f1: Option<u8>,
    #[asn(default(integer(0..7), 5))] pub f2: u8,
    #[asn(integer(0..7))] pub f3: u8,
}

impl Tt4dodmn {
    pub const fn f0_min() -> u8 {
        0
    }

    pub const fn f0_max() -> u8 {
        7
    }

    pub const fn f1_min() -> u8 {
        0
    }

    pub const fn f1_max() -> u8 {
        7
    }

    pub const fn f2_min() -> u8 {
        0
    }

    pub const fn f2_max() -> u8 {
        7
    }

    pub const fn f3_min() -> u8 {
        0
    }

    pub const fn f3_max() -> u8 {
        7
    }
}

#[asn(set, extensible_after(f0))]

#[derive(Default, Debug, Clone, PartialEq, Hash)]
pub struct Tt4dodme0 {
    #[asn(default(integer(0..7), 5))] pub f0: u8,
    #[asn(optional(integer(0..7)))] pub f1: Option<u8>,
    #[asn(default(integer(0..7), 5))] pub f2: u8,
    #[asn(optional(integer(0..7)))] pub f3: Option<u8>,
}

impl Tt4dodme0 {
    pub const fn f0_min() -> u8 {
        0
    }

    pub const fn f0_max() -> u8 {
        7
    }

    pub const fn f1_min() -> u8 {
        0
    }

    pub const fn f1_max() -> u8 {
        7
    }

    pub const fn f2_min() -> u8 {
        0
    }

    pub const fn f2_max() -> u8 {
        7
    }

    pub const fn f3_min() -> u8 {
        0
    }

    pub const fn f3_max() -> u8 {
        7
    }
}

#[asn(set, extensible_after(f0))]

#[derive(Default, Debug, Clone, PartialEq, Hash)]
pub struct Tt4dodme1 {
    #[asn(default(integer(0..7), 5))] pub f0: u8,
    #[asn(optional(integer(0..7)))] pub f1: Option<u8>,
    #[asn(default(integer(0..7), 5))] pub f2: u8,
    #[asn(optional(integer(0..7)))] pub f3: Option<u8>,
}

impl Tt4dodme1 {
    pub const fn f0_min() -> u8 {
        0
    }

    pub const fn f0_max() -> u8 {
        7
    }

    pub const fn f1_min() -> u8 {
        0
    }

    pub const fn f1_max() -> u8 {
        7
    }

    pub const fn f2_min() -> u8 {
        0
    }

    pub const fn f2_max() -> u8 {
        7
    }

    pub const fn f3_min() -> u8 {
        0
    }

    pub const fn f3_max() -> u8 {
        7
    }
}

#[asn(set, extensible_after(f1))]

#[derive(Default, Debug, Clone, PartialEq, Hash)]
pub struct Tt4dodme2 {
    #[asn(default(integer(0..7), 5))] pub f0: u8,
    #[asn(optional(integer(0..7)))] pub f1: Option<u8>,
    #[asn(default(integer(0..7), 5))] pub f2: u8,
    #[asn(optional(integer(0..7)))] pub f3: Option<u8>,
}

impl Tt4dodme2 {
    pub const fn f0_min() -> u8 {
        0
    }

    pub const fn f0_max() -> u8 {
        7
    }

    pub const fn f1_min() -> u8 {
        0
    }

    pub const fn f1_max() -> u8 {
        7
    }

    pub const fn f2_min() -> u8 {
        0
    }

    pub const fn f2_max() -> u8 {
        7
    }

    pub const fn f3_min() -> u8 {
        0
    }

    pub const fn f3_max() -> u8 {
        7
    }
}

#[asn(set, extensible_after(f2))]

#[derive(Default, Debug, Clone, PartialEq, Hash)]
pub struct Tt4dodme3 {
    #[asn(default(integer(0..7), 5))] pub f0: u8,
    #[asn(optional(integer(0..7)))] pub f1: Option<u8>,
    #[asn(default(integer(0..7), 5))] pub f2: u8,
    #[asn(optional(integer(0..7)))] pub f3: Option<u8>,
}

impl Tt4dodme3 {
    pub const fn f0_min() -> u8 {
        0
    }

    pub const fn f0_max() -> u8 {
        7
    }

    pub const fn f1_min() -> u8 {
        0
    }

    pub const fn f1_max() -> u8 {
        7
    }

    pub const fn f2_min() -> u8 {
        0
    }

    pub const fn f2_max() -> u8 {
        7
    }

    pub const fn f3_min() -> u8 {
        0
    }

    pub const fn f3_max() -> u8 {
        7
    }
}

#[asn(set, extensible_after(f3))]

#[derive(Default, Debug, Clone, PartialEq, Hash)]
pub struct Tt4dodme4 {
    #[asn(default(integer(0..7), 5))] pub f0: u8,
    #[asn(optional(integer(0..7)))] pub f1: Option<u8>,
    #[asn(default(integer(0..7), 5))] pub f2: u8,
    #[asn(integer(0..7))] pub f3: u8,
}

impl Tt4dodme4 {
    pub const fn f0_min() -> u8 {
        0
    }

    pub const fn f0_max() -> u8 {
        7
    }

    pub const fn f1_min() -> u8 {
        0
    }

    pub const fn f1_max() -> u8 {
        7
    }

    pub const fn f2_min() -> u8 {
        0
    }

    pub const fn f2_max() -> u8 {
        7
    }

    pub const fn f3_min() -> u8 {
        0
    }

    pub const fn f3_max() -> u8 {
        7
    }
}

#[asn(set)]

#[derive(Default, Debug, Clone, PartialEq, Hash)]
pub struct Tt4mddmn {
    #[asn(integer(0..7))] pub f0: u8,
    #[asn(default(integer(0..7), 5))] pub f1: u8,
    #[asn(default(integer(0..7), 5))] pub f2: u8,
    #[asn(integer(0..7))] pub f3: u8,
}

impl Tt4mddmn {
    pub const fn f0_min() -> u8 {
        0
    }

    pub const fn f0_max() -> u8 {
        7
    }

    pub const fn f1_min() -> u8 {
        0
    }

    pub const fn f1_max() -> u8 {
        7
    }

    pub const fn f2_min() -> u8 {
        0
    }

    pub const fn f2_max() -> u8 {
        7
    }

    pub const fn f3_min() -> u8 {
        0
    }

    pub const fn f3_max() -> u8 {
        7
    }
}

#[asn(set, extensible_after(f0))]

#[derive(Default, Debug, Clone, PartialEq, Hash)]
pub struct Tt4mddme0 {
    #[asn(integer(0..7))] pub f0: u8,
    #[asn(default(integer(0..7), 5))] pub f1: u8,
    #[asn(default(integer(0..7), 5))] pub f2: u8,
    #[asn(optional(integer(0..7)))] pub f3: Option<u8>,
}

impl Tt4mddme0 {
    pub const fn f0_min() -> u8 {
        0
    }

    pub const fn f0_max() -> u8 {
        7
    }

    pub const fn f1_min() -> u8 {
        0
    }

    pub const fn f1_max() -> u8 {
        7
    }

    pub const fn f2_min() -> u8 {
        0
    }

    pub const fn f2_max() -> u8 {
        7
    }

    pub const fn f3_min() -> u8 {
        0
    }

    pub const fn f3_max() -> u8 {
        7
    }
}

#[asn(set, extensible_after(f0))]

#[derive(Default, Debug, Clone, PartialEq, Hash)]
pub struct Tt4mddme1 {
    #[asn(integer(0..7))] pub f0: u8,
    #[asn(default(integer(0..7), 5))] pub f1: u8,
    #[asn(default(integer(0..7), 5))] pub f2: u8,
    #[asn(optional(integer(0..7)))] pub f3: Option<u8>,
}

impl Tt4mddme1 {
    pub const fn f0_min() -> u8 {
        0
    }

    pub const fn f0_max() -> u8 {
        7
    }

    pub const fn f1_min() -> u8 {
        0
    }

    pub const fn f1_max() -> u8 {
        7
    }

    pub const fn f2_min() -> u8 {
        0
    }

    pub const fn f2_max() -> u8 {
        7
    }

    pub const fn f3_min() -> u8 {
        0
    }

    pub const fn f3_max() -> u8 {
        7
    }
}

#[asn(set, extensible_after(f1))]

#[derive(Default, Debug, Clone, PartialEq, Hash)]
pub struct Tt4mddme2 {
    #[asn(integer(0..7))] pub f0: u8,
    #[asn(default(integer(0..7), 5))] pub f1: u8,
    #[asn(default(integer(0..7), 5))] pub f2: u8,
    #[asn(optional(integer(0..7)))] pub f3: Option<u8>,
}

impl Tt4mddme2 {
    pub const fn f0_min() -> u8 {
        0
    }

    pub const fn f0_max() -> u8 {
        7
    }

    pub const fn f1_min() -> u8 {
        0
    }

    pub const fn f1_max() -> u8 {
        7
    }

    pub const fn f2_min() -> u8 {
        0
    }

    pub const fn f2_max() -> u8 {
        7
    }

    pub const fn f3_min() -> u8 {
        0
    }

    pub const fn f3_max() -> u8 {
        7
    }
}

#[asn(set, extensible_after(f2))]

#[derive(Default, Debug, Clone, PartialEq, Hash)]
pub struct Tt4mddme3 {
    #[asn(integer(0..7))] pub f0: u8,
    #[asn(default(integer(0..7), 5))] pub f1: u8,
    #[asn(default(integer(0..7), 5))] pub f2: u8,
    #[asn(optional(integer(0..7)))] pub f3: Option<u8>,
}

impl Tt4mddme3 {
    pub const fn f0_min() -> u8 {
        0
    }

    pub const fn f0_max() -> u8 {
        7
    }

    pub const fn f1_min() -> u8 {
        0
    }

    pub const fn f1_max() -> u8 {
        7
    }

    pub const fn f2_min() -> u8 {
        0
    }

    pub const fn f2_max() -> u8 {
        7
    }

    pub const fn f3_min() -> u8 {
        0
    }

    pub const fn f3_max() -> u8 {
        7
    }
}

#[asn(set, extensible_after(f3))]

#[derive(Default, Debug, Clone, PartialEq, Hash)]
pub struct Tt4mddme4 {
    #[asn(integer(0..7))] pub f0: u8,
    #[asn(default(integer(0..7), 5))] pub f1: u8,
    #[asn(default(integer(0..7), 5))] pub f2: u8,
    #[asn(integer(0..7))] pub f3: u8,
}

impl Tt4mddme4 {
    pub const fn f0_min() -> u8 {
        0
    }

    pub const fn f0_max() -> u8 {
        7
    }

    pub const fn f1_min() -> u8 {
        0
    }

    pub const fn f1_max() -> u8 {
        7
    }

    pub const fn f2_min() -> u8 {
        0
    }

    pub const fn f2_max() -> u8 {
        7
    }

    pub const fn f3_min() -> u8 {
        0
    }

    pub const fn f3_max() -> u8 {
        7
    }
}

#[asn(set)]

#[derive(Default, Debug, Clone, PartialEq, Hash)]
pub struct Tt4oddmn {
    #[asn(optional(integer(0..7)))] pub f0: Option<u8>,
    #[asn(default(integer(0..7), 5))] pub f1: u8,
    #[asn(default(integer(0..7), 5))] pub f2: u8,
    #[asn(integer(0..7))] pub f3: u8,
}

impl Tt4oddmn {
    pub const fn f0_min() -> u8 {
        0
    }

    pub const fn f0_max() -> u8 {
        7
    }

    pub const fn f1_min() -> u8 {
        0
    }

    pub const fn f1_max() -> u8 {
        7
    }

    pub const fn f2_min() -> u8 {
        0
    }

    pub const fn f2_max() -> u8 {
        7
    }

    pub const fn f3_min() -> u8 {
        0
    }

    pub const fn f3_max() -> u8 {
        7
    }
}

#[asn(set, extensible_after(f0))]

#[derive(Default, Debug, Clone, PartialEq, Hash)]
pub struct Tt4oddme0 {
    #[asn(optional(integer(0..7)))] pub f0: Option<u8>,
    #[asn(default(integer(0..7), 5))] pub f1: u8,
    #[asn(default(integer(0..7), 5))] pub f2: u8,
    #[asn(optional(integer(0..7)))] pub f3: Option<u8>,
}

impl Tt4oddme0 {
    pub const fn f0_min() -> u8 {
        0
    }

    pub const fn f0_max() -> u8 {
        7
    }

    pub const fn f1_min() -> u8 {
        0
    }

    pub const fn f1_max() -> u8 {
        7
    }

    pub const fn f2_min() -> u8 {
        0
    }

    pub const fn f2_max() -> u8 {
        7
    }

    pub const fn f3_min() -> u8 {
        0
    }

    pub const fn f3_max() -> u8 {
        7
    }
}

#[asn(set, extensible_after(f0))]

#[derive(Default, Debug, Clone, PartialEq, Hash)]
pub struct Tt4oddme1 {
    #[asn(optional(integer(0..7)))] pub f0: Option<u8>,
    #[asn(default(integer(0..7), 5))] pub f1: u8,
    #[asn(default(integer(0..7), 5))] pub f2: u8,
    #[asn(optional(integer(0..7)))] pub f3: Option<u8>,
}

impl Tt4oddme1 {
    pub const fn f0_min() -> u8 {
        0
    }

    pub const fn f0_max() -> u8 {
        7
    }

    pub const fn f1_min() -> u8 {
        0
    }

    pub const fn f1_max() -> u8 {
        7
    }

    pub const fn f2_min() -> u8 {
        0
    }

    pub const fn f2_max() -> u8 {
        7
    }

    pub const fn f3_min() -> u8 {
        0
    }

    pub const fn f3_max() -> u8 {
        7
    }
}

#[asn(set, extensible_after(f1))]

#[derive(Default, Debug, Clone, PartialEq, Hash)]
pub struct Tt4oddme2 {
    #[asn(optional(integer(0..7)))] pub f0: Option<u8>,
    #[asn(default(integer(0..7), 5))] pub f1: u8,
    #[asn(default(integer(0..7), 5))] pub f2: u8,
    #[asn(optional(integer(0..7)))] pub f3: Option<u8>,
}

impl Tt4oddme2 {
    pub const fn f0_min() -> u8 {
        0
    }

    pub const fn f0_max() -> u8 {
        7
    }

    pub const fn f1_min() -> u8 {
        0
    }

    pub const fn f1_max() -> u8 {
        7
    }

    pub const fn f2_min() -> u8 {
        0
    }

    pub const fn f2_max() -> u8 {
        7
    }

    pub const fn f3_min() -> u8 {
        0
    }

    pub const fn f3_max() -> u8 {
        7
    }
}

#[asn(set, extensible_after(f2))]

#[derive(Default, Debug, Clone, PartialEq, Hash)]
pub struct Tt4oddme3 {
    #[asn(optional(integer(0..7)))] pub f0: Option<u8>,
    #[asn(default(integer(0..7), 5))] pub f1: u8,
    #[asn(default(integer(0..7), 5))] pub f2: u8,
    #[asn(optional(integer(0..7)))] pub f3: Option<u8>,
}

impl Tt4oddme3 {
    pub const fn f0_min() -> u8 {
        0
    }

    pub const fn f0_max() -> u8 {
        7
    }

    pub const fn f1_min() -> u8 {
        0
    }

    pub const fn f1_max() -> u8 {
        7
    }

    pub const fn f2_min() -> u8 {
        0
    }

    pub const fn f2_max() -> u8 {
        7
    }

    pub const fn f3_min() -> u8 {
        0
    }

    pub const fn f3_max() -> u8 {
        7
    }
}

#[asn(set, extensible_after(f3))]

#[derive(Default, Debug, Clone, PartialEq, Hash)]
pub struct Tt4oddme4 {
    #[asn(optional(integer(0..7)))] pub f0: Option<u8>,
    #[asn(default(integer(0..7), 5))] pub f1: u8,
    #[asn(default(integer(0..7), 5))] pub f2: u8,
    #[asn(integer(0..7))] pub f3: u8,
}

impl Tt4oddme4 {
    pub const fn f0_min() -> u8 {
        0
    }

    pub const fn f0_max() -> u8 {
        7
    }

    pub const fn f1_min() -> u8 {
        0
    }

    pub const fn f1_max() -> u8 {
        7
    }

    pub const fn f2_min() -> u8 {
        0
    }

    pub const fn f2_max() -> u8 {
        7
    }

    pub const fn f3_min() -> u8 {
        0
    }

    pub const fn f3_max() -> u8 {
        7
    }
}

#[asn(set)]

#[derive(Default, Debug, Clone, PartialEq, Hash)]
pub struct Tt4dddmn {
    #[asn(default(integer(0..7), 5))] pub f0: u8,
    #[asn(default(integer(0..7), 5))] pub f1: u8,
    #[asn(default(integer(0..7), 5))] pub f2: u8,
    #[asn(integer(0..7))] pub f3: u8,
}

impl Tt4dddmn {
    pub const fn f0_min() -> u8 {
        0
    }

    pub const fn f0_max() -> u8 {
        7
    }

    pub const fn f1_min() -> u8 {
        0
    }

    pub const fn f1_max() -> u8 {
        7
    }

    pub const fn f2_min() -> u8 {
        0
    }

    pub const fn f2_max() -> u8 {
        7
    }

    pub const fn f3_min() -> u8 {
        0
    }

    pub const fn f3_max() -> u8 {
        7
    }
}

#[asn(set, extensible_after(f0))]

#[derive(Default, Debug, Clone, PartialEq, Hash)]
pub struct Tt4dddme0 {
    #[asn(default(integer(0..7), 5))] pub f0: u8,
    #[asn(default(integer(0..7), 5))] pub f1: u8,
    #[asn(default(integer(0..7), 5))] pub f2: u8,
    #[asn(optional(integer(0..7)))] pub f3: Option<u8>,
}

impl Tt4dddme0 {
    pub const fn f0_min() -> u8 {
        0
    }

    pub const fn f0_max() -> u8 {
        7
    }

    pub const fn f1_min() -> u8 {
        0
    }

    pub const fn f1_max() -> u8 {
        7
    }

    pub const fn f2_min() -> u8 {
        0
    }

    pub const fn f2_max() -> u8 {
        7
    }

    pub const fn f3_min() -> u8 {
        0
    }

    pub const fn f3_max() -> u8 {
        7
    }
}

#[asn(set, extensible_after(f0))]

#[derive(Default, Debug, Clone, PartialEq, Hash)]
pub struct Tt4dddme1 {
    #[asn(default(integer(0..7), 5))] pub f0: u8,
    #[asn(default(integer(0..7), 5))] pub f1: u8,
    #[asn(default(integer(0..7), 5))] pub f2: u8,
    #[asn(optional(integer(0..7)))] pub f3: Option<u8>,
}

impl Tt4dddme1 {
    pub const fn f0_min() -> u8 {
        0
    }

    pub const fn f0_max() -> u8 {
        7
    }

    pub const fn f1_min() -> u8 {
        0
    }

    pub const fn f1_max() -> u8 {
        7
    }

    pub const fn f2_min() -> u8 {
        0
    }

    pub const fn f2_max() -> u8 {
        7
    }

    pub const fn f3_min() -> u8 {
        0
    }

    pub const fn f3_max() -> u8 {
        7
    }
}

#[asn(set, extensible_after(f1))]

#[derive(Default, Debug, Clone, PartialEq, Hash)]
pub struct Tt4dddme2 {
    #[asn(default(integer(0..7), 5))] pub f0: u8,
    #[asn(default(integer(0..7), 5))] pub f1: u8,
    #[asn(default(integer(0..7), 5))] pub f2: u8,
    #[asn(optional(integer(0..7)))] pub f3: Option<u8>,
}

impl Tt4dddme2 {
    pub const fn f0_min() -> u8 {
        0
    }

    pub const fn f0_max() -> u8 {
        7
    }

    pub const fn f1_min() -> u8 {
        0
    }

    pub const fn f1_max() -> u8 {
        7
    }

    pub const fn f2_min() -> u8 {
        0
    }

    pub const fn f2_max() -> u8 {
        7
    }

    pub const fn f3_min() -> u8 {
        0
    }

    pub const fn f3_max() -> u8 {
        7
    }
}

#[asn(set, extensible_after(f2))]

#[derive(Default, Debug, Clone, PartialEq, Hash)]
pub struct Tt4dddme3 {
    #[asn(default(integer(0..7), 5))] pub f0: u8,
    #[asn(default(integer(0..7), 5))] pub f1: u8,
    #[asn(default(integer(0..7), 5))] pub f2: u8,
    #[asn(optional(integer(0..7)))] pub f3: Option<u8>,
}

impl Tt4dddme3 {
    pub const fn f0_min() -> u8 {
        0
    }

    pub const fn f0_max() -> u8 {
        7
    }

    pub const fn f1_min() -> u8 {
        0
    }

    pub const fn f1_max() -> u8 {
        7
    }

    pub const fn f2_min() -> u8 {
        0
    }

    pub const fn f2_max() -> u8 {
        7
    }

    pub const fn f3_min() -> u8 {
        0
    }

    pub const fn f3_max() -> u8 {
        7
    }
}

#[asn(set, extensible_after(f3))]

#[derive(Default, Debug, Clone, PartialEq, Hash)]
pub struct Tt4dddme4 {
    #[asn(default(integer(0..7), 5))] pub f0: u8,
    #[asn(default(integer(0..7), 5))] pub f1: u8,
    #[asn(default(integer(0..7), 5))] pub f2: u8,
    #[asn(integer(0..7))] pub f3: u8,
}

impl Tt4dddme4 {
    pub const fn f0_min() -> u8 {
        0
    }

    pub const fn f0_max() -> u8 {
        7
    }

    pub const fn f1_min() -> u8 {
        0
    }

    pub const fn f1_max() -> u8 {
        7
    }

    pub const fn f2_min() -> u8 {
        0
    }

    pub const fn f2_max() -> u8 {
        7
    }

    pub const fn f3_min() -> u8 {
        0
    }

    pub const fn f3_max() -> u8 {
        7
    }
}

#[asn(set)]

#[derive(Default, Debug, Clone, PartialEq, Hash)]
pub struct Tt4mmmon {
    #[asn(integer(0..7))] pub f0: u8,
    #[asn(integer(0..7))] pub f1: u8,
    #[asn(integer(0..7))] pub f2: u8,
    #[asn(optional(integer(0..7)))] pub f3: Option<u8>,
}

impl Tt4mmmon {
    pub const fn f0_min() -> u8 {
        0
    }

    pub const fn f0_max() -> u8 {
        7
    }

    pub const fn f1_min() -> u8 {
        0
    }

    pub const fn f1_max() -> u8 {
        7
    }

    pub const fn f2_min() -> u8 {
        0
    }

    pub const fn f2_max() -> u8 {
        7
    }

    pub const fn f3_min() -> u8 {
        0
    }

    pub const fn f3_max() -> u8 {
        7
    }
}

#[asn(set, extensible_after(f0))]

#[derive(Default, Debug, Clone, PartialEq, Hash)]
pub struct Tt4mmmoe0 {
    #[asn(integer(0..7))] pub f0: u8,
    #[asn(optional(integer(0..7)))] pub f1: Option<u8>,
    #[asn(optional(integer(0..7)))] pub f2: Option<u8>,
    #[asn(optional(integer(0..7)))] pub f3: Option<u8>,
}

impl Tt4mmmoe0 {
    pub const fn f0_min() -> u8 {
        0
    }

    pub const fn f0_max() -> u8 {
        7
    }

    pub const fn f1_min() -> u8 {
        0
    }

    pub const fn f1_max() -> u8 {
        7
    }

    pub const fn f2_min() -> u8 {
        0
    }

    pub const fn f2_max() -> u8 {
        7
    }

    pub const fn f3_min() -> u8 {
        0
    }

    pub const fn f3_max() -> u8 {
        7
    }
}

#[asn(set, extensible_after(f0))]

#[derive(Default, Debug, Clone, PartialEq, Hash)]
pub struct Tt4mmmoe1 {
    #[asn(integer(0..7))] pub f0: u8,
    #[asn(optional(integer(0..7)))] pub f1: Option<u8>,
    #[asn(optional(integer(0..7)))] pub f2: Option<u8>,
    #[asn(optional(integer(0..7)))] pub f3: Option<u8>,
}

impl Tt4mmmoe1 {
    pub const fn f0_min() -> u8 {
        0
    }

    pub const fn f0_max() -> u8 {
        7
    }

    pub const fn f1_min() -> u8 {
        0
    }

    pub const fn f1_max() -> u8 {
        7
    }

    pub const fn f2_min() -> u8 {
        0
    }

    pub const fn f2_max() -> u8 {
        7
    }

    pub const fn f3_min() -> u8 {
        0
    }

    pub const fn f3_max() -> u8 {
        7
    }
}

#[asn(set, extensible_after(f1))]

#[derive(Default, Debug, Clone, PartialEq, Hash)]
pub struct Tt4mmmoe2 {
    #[asn(integer(0..7))] pub f0: u8,
    #[asn(integer(0..7))] pub f1: u8,
    #[asn(optional(integer(0..7)))] pub f2: Option<u8>,
    #[asn(optional(integer(0..7)))] pub f3: Option<u8>,
}

impl Tt4mmmoe2 {
    pub const fn f0_min() -> u8 {
        0
    }

    pub const fn f0_max() -> u8 {
        7
    }

    pub const fn f1_min() -> u8 {
        0
    }

    pub const fn f1_max() -> u8 {
        7
    }

    pub const fn f2_min() -> u8 {
        0
    }

    pub const fn f2_max() -> u8 {
        7
    }

    pub const fn f3_min() -> u8 {
        0
    }

    pub const fn f3_max() -> u8 {
        7
    }
}

#[asn(set, extensible_after(f2))]

#[derive(Default, Debug, Clone, PartialEq, Hash)]
pub struct Tt4mmmoe3 {
    #[asn(integer(0..7))] pub f0: u8,
    #[asn(integer(0..7))] pub f1: u8,
    #[asn(integer(0..7))] pub f2: u8,
    #[asn(optional(integer(0..7)))] pub f3: Option<u8>,
}

impl Tt4mmmoe3 {
    pub const fn f0_min() -> u8 {
        0
    }

    pub const fn f0_max() -> u8 {
        7
    }

    pub const fn f1_min() -> u8 {
        0
    }

    pub const fn f1_max() -> u8 {
        7
    }

    pub const fn f2_min() -> u8 {
        0
    }

    pub const fn f2_max() -> u8 {
        7
    }

    pub const fn f3_min() -> u8 {
        0
    }

    pub const fn f3_max() -> u8 {
        7
    }
}

#[asn(set, extensible_after(f3))]

#[derive(Default, Debug, Clone, PartialEq, Hash)]
pub struct Tt4mmmoe4 {
    #[asn(integer(0..7))] pub f0: u8,
    #[asn(integer(0..7))] pub f1: u8,
    #[asn(integer(0..7))] pub f2: u8,
    #[asn(optional(integer(0..7)))] pub f3: Option<u8>,
}

impl Tt4mmmoe4 {
    pub const fn f0_min() -> u8 {
        0
    }

    pub const fn f0_max() -> u8 {
        7
    }

    pub const fn f1_min() -> u8 {
        0
    }

    pub const fn f1_max() -> u8 {
        7
    }

    pub const fn f2_min() -> u8 {
        0
    }

    pub const fn f2_max() -> u8 {
        7
    }

    pub const fn f3_min() -> u8 {
        0
    }

    pub const fn f3_max() -> u8 {
        7
    }
}

#[asn(set)]

#[derive(Default, Debug, Clone, PartialEq, Hash)]
pub struct Tt4ommon {
    #[asn(optional(integer(0..7)))] pub f0: Option<u8>,
    #[asn(integer(0..7))] pub f1: u8,
    #[asn(integer(0..7))] pub f2: u8,
    #[asn(optional(integer(0..7)))] pub f3: Option<u8>,
}

impl Tt4ommon {
    pub const fn f0_min() -> u8 {
        0
    }

    pub const fn f0_max() -> u8 {
        7
    }

    pub const fn f1_min() -> u8 {
        0
    }

    pub const fn f1_max() -> u8 {
        7
    }

    pub const fn f2_min() -> u8 {
        0
    }

    pub const fn f2_max() -> u8 {
        7
    }

    pub const fn f3_min() -> u8 {
        0
    }

    pub const fn f3_max() -> u8 {
        7
    }
}

#[asn(set, extensible_after(f0))]

#[derive(Default, Debug, Clone, PartialEq, Hash)]
pub struct Tt4ommoe0 {
    #[asn(optional(integer(0..7)))] pub f0: Option<u8>,
    #[asn(optional(integer(0..7)))] pub f1: Option<u8>,
    #[asn(optional(integer(0..7)))] pub f2: Option<u8>,
    #[asn(optional(integer(0..7)))] pub f3: Option<u8>,
}

impl Tt4ommoe0 {
    pub const fn f0_min() -> u8 {
        0
    }

    pub const fn f0_max() -> u8 {
        7
    }

    pub const fn f1_min() -> u8 {
        0
    }

    pub const fn f1_max() -> u8 {
        7
    }

    pub const fn f2_min() -> u8 {
        0
    }

    pub const fn f2_max() -> u8 {
        7
    }

    pub const fn f3_min() -> u8 {
        0
    }

    pub const fn f3_max() -> u8 {
        7
    }
}

#[asn(set, extensible_after(f0))]

#[derive(Default, Debug, Clone, PartialEq, Hash)]
pub struct Tt4ommoe1 {
    #[asn(optional(integer(0..7)))] pub f0: Option<u8>,
    #[asn(optional(integer(0..7)))] pub f1: Option<u8>,
    #[asn(optional(integer(0..7)))] pub f2: Option<u8>,
    #[asn(optional(integer(0..7)))] pub f3: Option<u8>,
}

impl Tt4ommoe1 {
    pub const fn f0_min() -> u8 {
        0
    }

    pub const fn f0_max() -> u8 {
        7
    }

    pub const fn f1_min() -> u8 {
        0
    }

    pub const fn f1_max() -> u8 {
        7
    }

    pub const fn f2_min() -> u8 {
        0
    }

    pub const fn f2_max() -> u8 {
        7
    }

    pub const fn f3_min() -> u8 {
        0
    }

    pub const fn f3_max() -> u8 {
        7
    }
}

#[asn(set, extensible_after(f1))]

#[derive(Default, Debug, Clone, PartialEq, Hash)]
pub struct Tt4ommoe2 {
    #[asn(optional(integer(0..7)))] pub f0: Option<u8>,
    #[asn(integer(0..7))] pub f1: u8,
    #[asn(optional(integer(0..7)))] pub f2: Option<u8>,
    #[asn(optional(integer(0..7)))] pub f3: Option<u8>,
}

impl Tt4ommoe2 {
    pub const fn f0_min() -> u8 {
        0
    }

    pub const fn f0_max() -> u8 {
        7
    }

    pub const fn f1_min() -> u8 {
        0
    }

    pub const fn f1_max() -> u8 {
        7
    }

    pub const fn f2_min() -> u8 {
        0
    }

    pub const fn f2_max() -> u8 {
        7
    }

    pub const fn f3_min() -> u8 {
        0
    }

    pub const fn f3_max() -> u8 {
        7
    }
}

#[asn(set, extensible_after(f2))]

#[derive(Default, Debug, Clone, PartialEq, Hash)]
pub struct Tt4ommoe3 {
    #[asn(optional(integer(0..7)))] pub f0: Option<u8>,
    #[asn(integer(0..7))] pub f1: u8,
    #[asn(integer(0..7))] pub f2: u8,
    #[asn(optional(integer(0..7)))] pub f3: Option<u8>,
}

impl Tt4ommoe3 {
    pub const fn f0_min() -> u8 {
        0
    }

    pub const fn f0_max() -> u8 {
        7
    }

    pub const fn f1_min() -> u8 {
        0
    }

    pub const fn f1_max() -> u8 {
        7
    }

    pub const fn f2_min() -> u8 {
        0
    }

    pub const fn f2_max() -> u8 {
        7
    }

    pub const fn f3_min() -> u8 {
        0
    }

    pub const fn f3_max() -> u8 {
        7
    }
}

#[asn(set, extensible_after(f3))]

#[derive(Default, Debug, Clone, PartialEq, Hash)]
pub struct Tt4ommoe4 {
    #[asn(optional(integer(0..7)))] pub f0: Option<u8>,
    #[asn(integer(0..7))] pub f1: u8,
    #[asn(integer(0..7))] pub f2: u8,
    #[asn(optional(integer(0..7)))] pub f3: Option<u8>,
}

impl Tt4ommoe4 {
    pub const fn f0_min() -> u8 {
        0
    }

    pub const fn f0_max() -> u8 {
        7
    }

    pub const fn f1_min() -> u8 {
        0
    }

    pub const fn f1_max() -> u8 {
        7
    }

    pub const fn f2_min() -> u8 {
        0
    }

    pub const fn f2_max() -> u8 {
        7
    }

    pub const fn f3_min() -> u8 {
        0
    }

    pub const fn f3_max() -> u8 {
        7
    }
}

#[asn(set)]

#[derive(Default, Debug, Clone, PartialEq, Hash)]
pub struct Tt4dmmon {
    #[asn(default(integer(0..7), 5))] pub f0: u8,
    #[asn(integer(0..7))] pub f1: u8,
    #[asn(integer(0..7))] pub f2: u8,
    #[asn(optional(integer(0..7)))] pub f3: Option<u8>,
}

impl Tt4dmmon {
    pub const fn f0_min() -> u8 {
        0
    }

    pub const fn f0_max() -> u8 {
        7
    }

    pub const fn f1_min() -> u8 {
        0
    }

    pub const fn f1_max() -> u8 {
        7
    }

    pub const fn f2_min() -> u8 {
        0
    }

    pub const fn f2_max() -> u8 {
        7
    }

    pub const fn f3_min() -> u8 {
        0
    }

    pub const fn f3_max() -> u8 {
        7
    }
}

#[asn(set, extensible_after(f0))]

#[derive(Default, Debug, Clone, PartialEq, Hash)]
pub struct Tt4dmmoe0 {
    #[asn(default(integer(0..7), 5))] pub f0: u8,
    #[asn(optional(integer(0..7)))] pub f1: Option<u8>,
    #[asn(optional(integer(0..7)))] pub f2: Option<u8>,
    #[asn(optional(integer(0..7)))] pub f3: Option<u8>,
}

impl Tt4dmmoe0 {
    pub const fn f0_min() -> u8 {
        0
    }

    pub const fn f0_max() -> u8 {
        7
    }

    pub const fn f1_min() -> u8 {
        0
    }

    pub const fn f1_max() -> u8 {
        7
    }

    pub const fn f2_min() -> u8 {
        0
    }

    pub const fn f2_max() -> u8 {
        7
    }

    pub const fn f3_min() -> u8 {
        0
    }

    pub const fn f3_max() -> u8 {
        7
    }
}

#[asn(set, extensible_after(f0))]

#[derive(Default, Debug, Clone, PartialEq, Hash)]
pub struct Tt4dmmoe1 {
    #[asn(default(integer(0..7), 5))] pub f0: u8,
    #[asn(optional(integer(0..7)))] pub f1: Option<u8>,
    #[asn(optional(integer(0..7)))] pub f2: Option<u8>,
    #[asn(optional(integer(0..7)))] pub f3: Option<u8>,
}

impl Tt4dmmoe1 {
    pub const fn f0_min() -> u8 {
        0
    }

    pub const fn f0_max() -> u8 {
        7
    }

    pub const fn f1_min() -> u8 {
        0
    }

    pub const fn f1_max() -> u8 {
        7
    }

    pub const fn f2_min() -> u8 {
        0
    }

    pub const fn f2_max() -> u8 {
        7
    }

    pub const fn f3_min() -> u8 {
        0
    }

    pub const fn f3_max() -> u8 {
        7
    }
}

#[asn(set, extensible_after(f1))]

#[derive(Default, Debug, Clone, PartialEq, Hash)]
pub struct Tt4dmmoe2 {
    #[asn(default(integer(0..7), 5))] pub f0: u8,
    #[asn(integer(0..7))] pub f1: u8,
    #[asn(optional(integer(0..7)))] pub f2: Option<u8>,
    #[asn(optional(integer(0..7)))] pub f3: Option<u8>,
}

impl Tt4dmmoe2 {
    pub const fn f0_min() -> u8 {
        0
    }

    pub const fn f0_max() -> u8 {
        7
    }

    pub const fn f1_min() -> u8 {
        0
    }

    pub const fn f1_max() -> u8 {
        7
    }

    pub const fn f2_min() -> u8 {
        0
    }

    pub const fn f2_max() -> u8 {
        7
    }

    pub const fn f3_min() -> u8 {
        0
    }

    pub const fn f3_max() -> u8 {
        7
    }
}

#[asn(set, extensible_after(f2))]

#[derive(Default, Debug, Clone, PartialEq, Hash)]
pub struct Tt4dmmoe3 {
    #[asn(default(integer(0..7), 5))] pub f0: u8,
    #[asn(integer(0..7))] pub f1: u8,
    #[asn(integer(0..7))] pub f2: u8,
    #[asn(optional(integer(0..7)))] pub f3: Option<u8>,
}

impl Tt4dmmoe3 {
    pub const fn f0_min() -> u8 {
        0
    }

    pub const fn f0_max() -> u8 {
        7
    }

    pub const fn f1_min() -> u8 {
        0
    }

    pub const fn f1_max() -> u8 {
        7
    }

    pub const fn f2_min() -> u8 {
        0
    }

    pub const fn f2_max() -> u8 {
        7
    }

    pub const fn f3_min() -> u8 {
        0
    }

    pub const fn f3_max() -> u8 {
        7
    }
}

#[asn(set, extensible_after(f3))]

#[derive(Default, Debug, Clone, PartialEq, Hash)]
pub struct Tt4dmmoe4 {
    #[asn(default(integer(0..7), 5))] pub f0: u8,
    #[asn(integer(0..7))] pub f1: u8,
    #[asn(integer(0..7))] pub f2: u8,
    #[asn(optional(integer(0..7)))] pub f3: Option<u8>,
}

impl Tt4dmmoe4 {
    pub const fn f0_min() -> u8 {
        0
    }

    pub const fn f0_max() -> u8 {
        7
    }

    pub const fn f1_min() -> u8 {
        0
    }

    pub const fn f1_max() -> u8 {
        7
    }

    pub const fn f2_min() -> u8 {
        0
    }

    pub const fn f2_max() -> u8 {
        7
    }

    pub const fn f3_min() -> u8 {
        0
    }

    pub const fn f3_max() -> u8 {
        7
    }
}

#[asn(set)]

#[derive(Default, Debug, Clone, PartialEq, Hash)]
pub struct Tt4momon {
    #[asn(integer(0..7))] pub f0: u8,
    #[asn(optional(integer(0..7)))] pub f1: Option<u8>,
    #[asn(integer(0..7))] pub f2: u8,
    #[asn(optional(integer(0..7)))] pub f3: Option<u8>,
}

impl Tt4momon {
    pub const fn f0_min() -> u8 {
        0
    }

    pub const fn f0_max() -> u8 {
        7
    }

    pub const fn f1_min() -> u8 {
        0
    }

    pub const fn f1_max() -> u8 {
        7
    }

    pub const fn f2_min() -> u8 {
        0
    }

    pub const fn f2_max() -> u8 {
        7
    }

    pub const fn f3_min() -> u8 {
        0
    }

    pub const fn f3_max() -> u8 {
        7
    }
}

#[asn(set, extensible_after(f0))]

#[derive(Default, Debug, Clone, PartialEq, Hash)]
pub struct Tt4momoe0 {
    #[asn(integer(0..7))] pub f0: u8,
    #[asn(optional(integer(0..7)))] pub f1: Option<u8>,
    #[asn(optional(integer(0..7)))] pub f2: Option<u8>,
    #[asn(optional(integer(0..7)))] pub f3: Option<u8>,
}

impl Tt4momoe0 {
    pub const fn f0_min() -> u8 {
        0
    }

    pub const fn f0_max() -> u8 {
        7
    }

    pub const fn f1_min() -> u8 {
        0
    }

    pub const fn f1_max() -> u8 {
        7
    }

    pub const fn f2_min() -> u8 {
        0
    }

    pub const fn f2_max() -> u8 {
        7
    }

    pub const fn f3_min() -> u8 {
        0
    }

    pub const fn f3_max() -> u8 {
        7
    }
}

#[asn(set, extensible_after(f0))]

#[derive(Default, Debug, Clone, PartialEq, Hash)]
pub struct Tt4momoe1 {
    #[asn(integer(0..7))] pub f0: u8,
    #[asn(optional(integer(0..7)))] pub f1: Option<u8>,
    #[asn(optional(integer(0..7)))] pub f2: Option<u8>,
    #[asn(optional(integer(0..7)))] pub f3: Option<u8>,
}

impl Tt4momoe1 {
    pub const fn f0_min() -> u8 {
        0
    }

    pub const fn f0_max() -> u8 {
        7
    }

    pub const fn f1_min() -> u8 {
        0
    }

    pub const fn f1_max() -> u8 {
        7
    }

    pub const fn f2_min() -> u8 {
        0
    }

    pub const fn f2_max() -> u8 {
        7
    }

    pub const fn f3_min() -> u8 {
        0
    }

    pub const fn f3_max() -> u8 {
        7
    }
}

#[asn(set, extensible_after(f1))]

#[derive(Default, Debug, Clone, PartialEq, Hash)]
pub struct Tt4momoe2 {
    #[asn(integer(0..7))] pub f0: u8,
    #[asn(optional(integer(0..7)))] pub f1: Option<u8>,
    #[asn(optional(integer(0..7)))] pub f2: Option<u8>,
    #[asn(optional(integer(0..7)))] pub f3: Option<u8>,
}

impl Tt4momoe2 {
    pub const fn f0_min() -> u8 {
        0
    }

    pub const fn f0_max() -> u8 {
        7
    }

    pub const fn f1_min() -> u8 {
        0
    }

    pub const fn f1_max() -> u8 {
        7
    }

    pub const fn f2_min() -> u8 {
        0
    }

    pub const fn f2_max() -> u8 {
        7
    }

    pub const fn f3_min() -> u8 {
        0
    }

    pub const fn f3_max() -> u8 {
        7
    }
}

#[asn(set, extensible_after(f2))]

#[derive(Default, Debug, Clone, PartialEq, Hash)]
pub struct Tt4momoe3 {
    #[asn(integer(0..7))] pub f0: u8,
    #[asn(optional(integer(0..7)))] pub f1: Option<u8>,
    #[asn(integer(0..7))] pub f2: u8,
    #[asn(optional(integer(0..7)))] pub f3: Option<u8>,
}

impl Tt4momoe3 {
    pub const fn f0_min() -> u8 {
        0
    }

    pub const fn f0_max() -> u8 {
        7
    }

    pub const fn f1_min() -> u8 {
        0
    }

    pub const fn f1_max() -> u8 {
        7
    }

    pub const fn f2_min() -> u8 {
        0
    }

    pub const fn f2_max() -> u8 {
        7
    }

    pub const fn f3_min() -> u8 {
        0
    }

    pub const fn f3_max() -> u8 {
        7
    }
}

#[asn(set, extensible_after(f3))]

#[derive(Default, Debug, Clone, PartialEq, Hash)]
pub struct Tt4momoe4 {
    #[asn(integer(0..7))] pub f0: u8,
    #[asn(optional(integer(0..7)))] pub f1: Option<u8>,
    #[asn(integer(0..7))] pub f2: u8,
    #[asn(optional(integer(0..7)))] pub f3: Option<u8>,
}

impl Tt4momoe4 {
    pub const fn f0_min() -> u8 {
        0
    }

    pub const fn f0_max() -> u8 {
        7
    }

    pub const fn f1_min() -> u8 {
        0
    }

    pub const fn f1_max() -> u8 {
        7
    }

    pub const fn f2_min() -> u8 {
        0
    }

    pub const fn f2_max() -> u8 {
        7
    }

    pub const fn f3_min() -> u8 {
        0
    }

    pub const fn f3_max() -> u8 {
        7
    }
}

#[asn(set)]

#[derive(Default, Debug, Clone, PartialEq, Hash)]
pub struct Tt4oomon {
    #[asn(optional(integer(0..7)))] pub f0: Option<u8>,
    #[asn(optional(integer(0..7)))] pub f1: Option<u8>,
    #[asn(integer(0..7))] pub f2: u8,
    #[asn(optional(integer(0..7)))] pub f3: Option<u8>,
}

impl Tt4oomon {
    pub const fn f0_min() -> u8 {
        0
    }

    pub const fn f0_max() -> u8 {
        7
    }

    pub const fn f1_min() -> u8 {
        0
    }

    pub const fn f1_max() -> u8 {
        7
    }

    pub const fn f2_min() -> u8 {
        0
    }

    pub const fn f2_max() -> u8 {
        7
    }

    pub const fn f3_min() -> u8 {
        0
    }

    pub const fn f3_max() -> u8 {
        7
    }
}

#[asn(set, extensible_after(f0))]

#[derive(Default, Debug, Clone, PartialEq, Hash)]
pub struct Tt4oomoe0 {
    #[asn(optional(integer(0..7)))] pub f0: Option<u8>,
    #[asn(optional(integer(0..7)))] pub f1: Option<u8>,
    #[asn(optional(integer(0..7)))] pub f2: Option<u8>,
    #[asn(optional(integer(0..7)))] pub f3: Option<u8>,
}

impl Tt4oomoe0 {
    pub const fn f0_min() -> u8 {
        0
    }

    pub const fn f0_max() -> u8 {
        7
    }

    pub const fn f1_min() -> u8 {
        0
    }

    pub const fn f1_max() -> u8 {
        7
    }

    pub const fn f2_min() -> u8 {
        0
    }

    pub const fn f2_max() -> u8 {
        7
    }

    pub const fn f3_min() -> u8 {
        0
    }

    pub const fn f3_max() -> u8 {
        7
    }
}

#[asn(set, extensible_after(f0))]

#[derive(Default, Debug, Clone, PartialEq, Hash)]
pub struct Tt4oomoe1 {
    #[asn(optional(integer(0..7)))] pub f0: Option<u8>,
    #[asn(optional(integer(0..7)))] pub f1: Option<u8>,
    #[asn(optional(integer(0..7)))] pub f2: Option<u8>,
    #[asn(optional(integer(0..7)))] pub f3: Option<u8>,
}

impl Tt4oomoe1 {
    pub const fn f0_min() -> u8 {
        0
    }

    pub const fn f0_max() -> u8 {
        7
    }

    pub const fn f1_min() -> u8 {
        0
    }

    pub const fn f1_max() -> u8 {
        7
    }

    pub const fn f2_min() -> u8 {
        0
    }

    pub const fn f2_max() -> u8 {
        7
    }

    pub const fn f3_min() -> u8 {
        0
    }

    pub const fn f3_max() -> u8 {
        7
    }
}

#[asn(set, extensible_after(f1))]

#[derive(Default, Debug, Clone, PartialEq, Hash)]
pub struct Tt4oomoe2 {
    #[asn(optional(integer(0..7)))] pub f0: Option<u8>,
    #[asn(optional(integer(0..7)))] pub f1: Option<u8>,
    #[asn(optional(integer(0..7)))] pub f2: Option<u8>,
    #[asn(optional(integer(0..7)))] pub f3: Option<u8>,
}

impl Tt4oomoe2 {
    pub const fn f0_min() -> u8 {
        0
    }

    pub const fn f0_max() -> u8 {
        7
    }

    pub const fn f1_min() -> u8 {
        0
    }

    pub const fn f1_max() -> u8 {
        7
    }

    pub const fn f2_min() -> u8 {
        0
    }

    pub const fn f2_max() -> u8 {
        7
    }

    pub const fn f3_min() -> u8 {
        0
    }

    pub const fn f3_max() -> u8 {
        7
    }
}

#[asn(set, extensible_after(f2))]

#[derive(Default, Debug, Clone, PartialEq, Hash)]
pub struct Tt4oomoe3 {
    #[asn(optional(integer(0..7)))] pub f0: Option<u8>,
    #[asn(optional(integer(0..7)))] pub f1: Option<u8>,
    #[asn(integer(0..7))] pub f2: u8,
    #[asn(optional(integer(0..7)))] pub f3: Option<u8>,
}

impl Tt4oomoe3 {
    pub const fn f0_min() -> u8 {
        0
    }

    pub const fn f0_max() -> u8 {
        7
    }

    pub const fn f1_min() -> u8 {
        0
    }

    pub const fn f1_max() -> u8 {
        7
    }

    pub const fn f2_min() -> u8 {
        0
    }

    pub const fn f2_max() -> u8 {
        7
    }

    pub const fn f3_min() -> u8 {
        0
    }

    pub const fn f3_max() -> u8 {
        7
    }
}

#[asn(set, extensible_after(f3))]

#[derive(Default, Debug, Clone, PartialEq, Hash)]
pub struct Tt4oomoe4 {
    #[asn(optional(integer(0..7)))] pub f0: Option<u8>,
    #[asn(optional(integer(0..7)))] pub f1: Option<u8>,
    #[asn(integer(0..7))] pub f2: u8,
    #[asn(optional(integer(0..7)))] pub f3: Option<u8>,
}

impl Tt4oomoe4 {
    pub const fn f0_min() -> u8 {
        0
    }

    pub const fn f0_max() -> u8 {
        7
    }

    pub const fn f1_min() -> u8 {
        0
    }

    pub const fn f1_max() -> u8 {
        7
    }

    pub const fn f2_min() -> u8 {
        0
    }

    pub const fn f2_max() -> u8 {
        7
    }

    pub const fn f3_min() -> u8 {
        0
    }

    pub const fn f3_max() -> u8 {
        7
    }
}

#[asn(set)]

#[derive(Default, Debug, Clone, PartialEq, Hash)]
pub struct Tt4domon {
    #[asn(default(integer(0..7), 5))] pub f0: u8,
    #[asn(optional(integer(0..7)))] pub f1: Option<u8>,
    #[asn(integer(0..7))] pub f2: u8,
    #[asn(optional(integer(0..7)))] pub f3: Option<u8>,
}

impl Tt4domon {
    pub const fn f0_min() -> u8 {
        0
    }

    pub const fn f0_max() -> u8 {
        7
    }

    pub const fn f1_min() -> u8 {
        0
    }

    pub const fn f1_max() -> u8 {
        7
    }

    pub const fn f2_min() -> u8 {
        0
    }

    pub const fn f2_max() -> u8 {
        7
    }

    pub const fn f3_min() -> u8 {
        0
    }

    pub const fn f3_max() -> u8 {
        7
    }
}

#[asn(set, extensible_after(f0))]

#[derive(Default, Debug, Clone, PartialEq, Hash)]
pub struct Tt4domoe0 {
    #[asn(default(integer(0..7), 5))] pub f0: u8,
    #[asn(optional(integer(0..7)))] pub f1: Option<u8>,
    #[asn(optional(integer(0..7)))] pub f2: Option<u8>,
    #[asn(optional(integer(0..7)))] pub f3: Option<u8>,
}

impl Tt4domoe0 {
    pub const fn f0_min() -> u8 {
        0
    }

    pub const fn f0_max() -> u8 {
        7
    }

    pub const fn f1_min() -> u8 {
        0
    }

    pub const fn f1_max() -> u8 {
        7
    }

    pub const fn f2_min() -> u8 {
        0
    }

    pub const fn f2_max() -> u8 {
        7
    }

    pub const fn f3_min() -> u8 {
        0
    }

    pub const fn f3_max() -> u8 {
        7
    }
}

#[asn(set, extensible_after(f0))]

#[derive(Default, Debug, Clone, PartialEq, Hash)]
pub struct Tt4domoe1 {
    #[asn(default(integer(0..7), 5))] pub f0: u8,
    #[asn(optional(integer(0..7)))] pub f1: Option<u8>,
    #[asn(optional(integer(0..7)))] pub f2: Option<u8>,
    #[asn(optional(integer(0..7)))] pub f3: Option<u8>,
}

impl Tt4domoe1 {
    pub const fn f0_min() -> u8 {
        0
    }

    pub const fn f0_max() -> u8 {
        7
    }

    pub const fn f1_min() -> u8 {
        0
    }

    pub const fn f1_max() -> u8 {
        7
    }

    pub const fn f2_min() -> u8 {
        0
    }

    pub const fn f2_max() -> u8 {
        7
    }

    pub const fn f3_min() -> u8 {
        0
    }

    pub const fn f3_max() -> u8 {
        7
    }
}

#[asn(set, extensible_after(f1))]

#[derive(Default, Debug, Clone, PartialEq, Hash)]
pub struct Tt4domoe2 {
    #[asn(default(integer(0..7), 5))] pub f0: u8,
    #[asn(optional(integer(0..7)))] pub f1: Option<u8>,
    #[asn(optional(integer(0..7)))] pub f2: Option<u8>,
    #[asn(optional(integer(0..7)))] pub f3: Option<u8>,
}

impl Tt4domoe2 {
    pub const fn f0_min() -> u8 {
        0
    }

    pub const fn f0_max() -> u8 {
        7
    }

    pub const fn f1_min() -> u8 {
        0
    }

    pub const fn f1_max() -> u8 {
        7
    }

    pub const fn f2_min() -> u8 {
        0
    }

    pub const fn f2_max() -> u8 {
        7
    }

    pub const fn f3_min() -> u8 {
        0
    }

    pub const fn f3_max() -> u8 {
        7
    }
}

#[asn(set, extensible_after(f2))]

#[derive(Default, Debug, Clone, PartialEq, Hash)]
pub struct Tt4domoe3 {
    #[asn(default(integer(0..7), 5))] pub f0: u8,
    #[asn(optional(integer(0..7)))] pub f1: Option<u8>,
    #[asn(integer(0..7))] pub f2: u8,
    #[asn(optional(integer(0..7)))] pub f3: Option<u8>,
}

impl Tt4domoe3 {
    pub const fn f0_min() -> u8 {
        0
    }

    pub const fn f0_max() -> u8 {
        7
    }

    pub const fn f1_min() -> u8 {
        0
    }

    pub const fn f1_max() -> u8 {
        7
    }

    pub const fn f2_min() -> u8 {
        0
    }

    pub const fn f2_max() -> u8 {
        7
    }

    pub const fn f3_min() -> u8 {
        0
    }

    pub const fn f3_max() -> u8 {
        7
    }
}

#[asn(set, extensible_after(f3))]

#[derive(Default, Debug, Clone, PartialEq, Hash)]
pub struct Tt4domoe4 {
    #[asn(default(integer(0..7), 5))] pub f0: u8,
    #[asn(optional(integer(0..7)))] pub f1: Option<u8>,
    #[asn(integer(0..7))] pub f2: u8,
    #[asn(optional(integer(0..7)))] pub f3: Option<u8>,
}

impl Tt4domoe4 {
    pub const fn f0_min() -> u8 {
        0
    }

    pub const fn f0_max() -> u8 {
        7
    }

    pub const fn f1_min() -> u8 {
        0
    }

    pub const fn f1_max() -> u8 {
        7
    }

    pub const fn f2_min() -> u8 {
        0
    }

    pub const fn f2_max() -> u8 {
        7
    }

    pub const fn f3_min() -> u8 {
        0
    }

    pub const fn f3_max() -> u8 {
        7
    }
}

#[asn(set)]

#[derive(Default, Debug, Clone, PartialEq, Hash)]
pub struct Tt4mdmon {
    #[asn(integer(0..7))] pub f0: u8,
    #[asn(default(integer(0..7), 5))] pub f1: u8,
    #[asn(integer(0..7))] pub f2: u8,
    #[asn(optional(integer(0..7)))] pub f3: Option<u8>,
}

impl Tt4mdmon {
    pub const fn f0_min() -> u8 {
        0
    }

    pub const fn f0_max() -> u8 {
        7
    }

    pub const fn f1_min() -> u8 {
        0
    }

    pub const fn f1_max() -> u8 {
        7
    }

    pub const fn f2_min() -> u8 {
        0
    }

    pub const fn f2_max() -> u8 {
        7
    }

    pub const fn f3_min() -> u8 {
        0
    }

    pub const fn f3_max() -> u8 {
        7
    }
}

#[asn(set, extensible_after(f0))]

#[derive(Default, Debug, Clone, PartialEq, Hash)]
pub struct Tt4mdmoe0 {
    #[asn(integer(0..7))] pub f0: u8,
    #[asn(default(integer(0..7), 5))] pub f1: u8,
    #[asn(optional(integer(0..7)))] pub f2: Option<u8>,
    #[asn(optional(integer(0..7)))] pub f3: Option<u8>,
}

impl Tt4mdmoe0 {
    pub const fn f0_min() -> u8 {
        0
    }

    pub const fn f0_max() -> u8 {
        7
    }

    pub const fn f1_min() -> u8 {
        0
    }

    pub const fn f1_max() -> u8 {
        7
    }

    pub const fn f2_min() -> u8 {
        0
    }

    pub const fn f2_max() -> u8 {
        7
    }

    pub const fn f3_min() -> u8 {
        0
    }

    pub const fn f3_max() -> u8 {
        7
    }
}

#[asn(set, extensible_after(f0))]

#[derive(Default, Debug, Clone, PartialEq, Hash)]
pub struct Tt4mdmoe1 {
    #[asn(integer(0..7))] pub f0: u8,
    #[asn(default(integer(0..7), 5))] pub f1: u8,
    #[asn(optional(integer(0..7)))] pub f2: Option<u8>,
    #[asn(optional(integer(0..7)))] pub f3: Option<u8>,
}

impl Tt4mdmoe1 {
    pub const fn f0_min() -> u8 {
        0
    }

    pub const fn f0_max() -> u8 {
        7
    }

    pub const fn f1_min() -> u8 {
        0
    }

    pub const fn f1_max() -> u8 {
        7
    }

    pub const fn f2_min() -> u8 {
        0
    }

    pub const fn f2_max() -> u8 {
        7
    }

    pub const fn f3_min() -> u8 {
        0
    }

    pub const fn f3_max() -> u8 {
        7
    }
}

#[asn(set, extensible_after(f1))]

#[derive(Default, Debug, Clone, PartialEq, Hash)]
pub struct Tt4mdmoe2 {
    #[asn(integer(0..7))] pub f0: u8,
    #[asn(default(integer(0..7), 5))] pub f1: u8,
    #[asn(optional(integer(0..7)))] pub f2: Option<u8>,
    #[asn(optional(integer(0..7)))] pub f3: Option<u8>,
}

impl Tt4mdmoe2 {
    pub const fn f0_min() -> u8 {
        0
    }

    pub const fn f0_max() -> u8 {
        7
    }

    pub const fn f1_min() -> u8 {
        0
    }

    pub const fn f1_max() -> u8 {
        7
    }

    pub const fn f2_min() -> u8 {
        0
    }

    pub const fn f2_max() -> u8 {
        7
    }

    pub const fn f3_min() -> u8 {
        0
    }

    pub const fn f3_max() -> u8 {
        7
    }
}

#[asn(set, extensible_after(f2))]

#[derive(Default, Debug, Clone, PartialEq, Hash)]
pub struct Tt4mdmoe3 {
    #[asn(integer(0..7))] pub f0: u8,
    #[asn(default(integer(0..7), 5))] pub f1: u8,
    #[asn(integer(0..7))] pub f2: u8,
    #[asn(optional(integer(0..7)))] pub f3: Option<u8>,
}

impl Tt4mdmoe3 {
    pub const fn f0_min() -> u8 {
        0
    }

    pub const fn f0_max() -> u8 {
        7
    }

    pub const fn f1_min() -> u8 {
        0
    }

    pub const fn f1_max() -> u8 {
        7
    }

    pub const fn f2_min() -> u8 {
        0
    }

    pub const fn f2_max() -> u8 {
        7
    }

    pub const fn f3_min() -> u8 {
        0
    }

    pub const fn f3_max() -> u8 {
        7
    }
}

#[asn(set, extensible_after(f3))]

#[derive(Default, Debug, Clone, PartialEq, Hash)]
pub struct Tt4mdmoe4 {
    #[asn(integer(0..7))] pub f0: u8,
    #[asn(default(integer(0..7), 5))] pub f1: u8,
    #[asn(integer(0..7))] pub f2: u8,
    #[asn(optional(integer(0..7)))] pub f3: Option<u8>,
}

impl Tt4mdmoe4 {
    pub const fn f0_min() -> u8 {
        0
    }

    pub const fn f0_max() -> u8 {
        7
    }

    pub const fn f1_min() -> u8 {
        0
    }

    pub const fn f1_max() -> u8 {
        7
    }

    pub const fn f2_min() -> u8 {
        0
    }

    pub const fn f2_max() -> u8 {
        7
    }

    pub const fn f3_min() -> u8 {
        0
    }

    pub const fn f3_max() -> u8 {
        7
    }
}

#[asn(set)]

#[derive(Default, Debug, Clone, PartialEq, Hash)]
pub struct Tt4odmon {
    #[asn(optional(integer(0..7)))] pub f0: Option<u8>,
    #[asn(default(integer(0..7), 5))] pub f1: u8,
    #[asn(integer(0..7))] pub f2: u8,
    #[asn(optional(integer(0..7)))] pub f3: Option<u8>,
}

impl Tt4odmon {
    pub const fn f0_min() -> u8 {
        0
    }

    pub const fn f0_max() -> u8 {
        7
    }

    pub const fn f1_min() -> u8 {
        0
    }

    pub const fn f1_max() -> u8 {
        7
    }

    pub const fn f2_min() -> u8 {
        0
    }

    pub const fn f2_max() -> u8 {
        7
    }

    pub const fn f3_min() -> u8 {
        0
    }

    pub const fn f3_max() -> u8 {
        7
    }
}

#[asn(set, extensible_after(f0))]

#[derive(Default, Debug, Clone, PartialEq, Hash)]
pub struct Tt4odmoe0 {
    #[asn(optional(integer(0..7)))] pub f0: Option<u8>,
    #[asn(default(integer(0..7), 5))] pub f1: u8,
    #[asn(optional(integer(0..7)))] pub f2: Option<u8>,
    #[asn(optional(integer(0..7)))] pub f3: Option<u8>,
}

impl Tt4odmoe0 {
    pub const fn f0_min() -> u8 {
        0
    }

    pub const fn f0_max() -> u8 {
        7
    }

    pub const fn f1_min() -> u8 {
        0
    }

    pub const fn f1_max() -> u8 {
        7
    }

    pub const fn f2_min() -> u8 {
        0
    }

    pub const fn f2_max() -> u8 {
        7
    }

    pub const fn f3_min() -> u8 {
        0
    }

    pub const fn f3_max() -> u8 {
        7
    }
}

#[asn(set, extensible_after(f0))]

#[derive(Default, Debug, Clone, PartialEq, Hash)]
pub struct Tt4odmoe1 {
    #[asn(optional(integer(0..7)))] pub f0: Option<u8>,
    #[asn(default(integer(0..7), 5))] pub f1: u8,
    #[asn(optional(integer(0..7)))] pub f2: Option<u8>,
    #[asn(optional(integer(0..7)))] pub f3: Option<u8>,
}

impl Tt4odmoe1 {
    pub const fn f0_min() -> u8 {
        0
    }

    pub const fn f0_max() -> u8 {
        7
    }

    pub const fn f1_min() -> u8 {
        0
    }

    pub const fn f1_max() -> u8 {
        7
    }

    pub const fn f2_min() -> u8 {
        0
    }

    pub const fn f2_max() -> u8 {
        7
    }

    pub const fn f3_min() -> u8 {
        0
    }

    pub const fn f3_max() -> u8 {
        7
    }
}

#[asn(set, extensible_after(f1))]

#[derive(Default, Debug, Clone, PartialEq, Hash)]
pub struct Tt4odmoe2 {
    #[asn(optional(integer(0..7)))] pub f0: Option<u8>,
    #[asn(default(integer(0..7), 5))] pub f1: u8,
    #[asn(optional(integer(0..7)))] pub f2: Option<u8>,
    #[asn(optional(integer(0..7)))] pub f3: Option<u8>,
}

impl Tt4odmoe2 {
    pub const fn f0_min() -> u8 {
        0
    }

    pub const fn f0_max() -> u8 {
        7
    }

    pub const fn f1_min() -> u8 {
        0
    }

    pub const fn f1_max() -> u8 {
        7
    }

    pub const fn f2_min() -> u8 {
        0
    }

    pub const fn f2_max() -> u8 {
        7
    }

    pub const fn f3_min() -> u8 {
        0
    }

    pub const fn f3_max() -> u8 {
        7
    }
}

#[asn(set, extensible_after(f2))]

#[derive(Default, Debug, Clone, PartialEq, Hash)]
pub struct Tt4odmoe3 {
    #[asn(optional(integer(0..7)))] pub f0: Option<u8>,
    #[asn(default(integer(0..7), 5))] pub f1: u8,
    #[asn(integer(0..7))] pub f2: u8,
    #[asn(optional(integer(0..7)))] pub f3: Option<u8>,
}

impl Tt4odmoe3 {
    pub const fn f0_min() -> u8 {
        0
    }

    pub const fn f0_max() -> u8 {
        7
    }

    pub const fn f1_min() -> u8 {
        0
    }

    pub const fn f1_max() -> u8 {
        7
    }

    pub const fn f2_min() -> u8 {
        0
    }

    pub const fn f2_max() -> u8 {
        7
    }

    pub const fn f3_min() -> u8 {
        0
    }

    pub const fn f3_max() -> u8 {
        7
    }
}

#[asn(set, extensible_after(f3))]

#[derive(Default, Debug, Clone, PartialEq, Hash)]
pub struct Tt4odmoe4 {
    #[asn(optional(integer(0..7)))] pub f0: Option<u8>,
    #[asn(default(integer(0..7), 5))] pub f1: u8,
    #[asn(integer(0..7))] pub f2: u8,
    #[asn(optional(integer(0..7)))] pub f3: Option<u8>,
}

impl Tt4odmoe4 {
    pub const fn f0_min() -> u8 {
        0
    }

    pub const fn f0_max() -> u8 {
        7
    }

    pub const fn f1_min() -> u8 {
        0
    }

    pub const fn f1_max() -> u8 {
        7
    }

    pub const fn f2_min() -> u8 {
        0
    }

    pub const fn f2_max() -> u8 {
        7
    }

    pub const fn f3_min() -> u8 {
        0
    }

    pub const fn f3_max() -> u8 {
        7
    }
}

#[asn(set)]

#[derive(Default, Debug, Clone, PartialEq, Hash)]
pub struct Tt4ddmon {
    #[asn(default(integer(0..7), 5))] pub f0: u8,
    #[asn(default(integer(0..7), 5))] pub f1: u8,
    #[asn(integer(0..7))] pub f2: u8,
    #[asn(optional(integer(0..7)))] pub f3: Option<u8>,
}

impl Tt4ddmon {
    pub const fn f0_min() -> u8 {
        0
    }

    pub const fn f0_max() -> u8 {
        7
    }

    pub const fn f1_min() -> u8 {
        0
    }

    pub const fn f1_max() -> u8 {
        7
    }

    pub const fn f2_min() -> u8 {
        0
    }

    pub const fn f2_max() -> u8 {
        7
    }

    pub const fn f3_min() -> u8 {
        0
    }

    pub const fn f3_max() -> u8 {
        7
    }
}

#[asn(set, extensible_after(f0))]

#[derive(Default, Debug, Clone, PartialEq, Hash)]
pub struct Tt4ddmoe0 {
    #[asn(default(integer(0..7), 5))] pub f0: u8,
    #[asn(default(integer(0..7), 5))] pub f1: u8,
    #[asn(optional(integer(0..7)))] pub f2: Option<u8>,
    #[asn(optional(integer(0..7)))] pub f3: Option<u8>,
}

impl Tt4ddmoe0 {
    pub const fn f0_min() -> u8 {
        0
    }

    pub const fn f0_max() -> u8 {
        7
    }

    pub const fn f1_min() -> u8 {
        0
    }

    pub const fn f1_max() -> u8 {
        7
    }

    pub const fn f2_min() -> u8 {
        0
    }

    pub const fn f2_max() -> u8 {
        7
    }

    pub const fn f3_min() -> u8 {
        0
    }

    pub const fn f3_max() -> u8 {
        7
    }
}

#[asn(set, extensible_after(f0))]

#[derive(Default, Debug, Clone, PartialEq, Hash)]
pub struct Tt4ddmoe1 {
    #[asn(default(integer(0..7), 5))] pub f0: u8,
    #[asn(default(integer(0..7), 5))] pub f1: u8,
    #[asn(optional(integer(0..7)))] pub f2: Option<u8>,
    #[asn(optional(integer(0..7)))] pub f3: Option<u8>,
}

impl Tt4ddmoe1 {
    pub const fn f0_min() -> u8 {
        0
    }

    pub const fn f0_max() -> u8 {
        7
    }

    pub const fn f1_min() -> u8 {
        0
    }

    pub const fn f1_max() -> u8 {
        7
    }

    pub const fn f2_min() -> u8 {
        0
    }

    pub const fn f2_max() -> u8 {
        7
    }

    pub const fn f3_min() -> u8 {
        0
    }

    pub const fn f3_max() -> u8 {
        7
    }
}

#[asn(set, extensible_after(f1))]

#[derive(Default, Debug, Clone, PartialEq, Hash)]
pub struct Tt4ddmoe2 {
    #[asn(default(integer(0..7), 5))] pub f0: u8,
    #[asn(default(integer(0..7), 5))] pub f1: u8,
    #[asn(optional(integer(0..7)))] pub f2: Option<u8>,
    #[asn(optional(integer(0..7)))] pub f3: Option<u8>,
}

impl Tt4ddmoe2 {
    pub const fn f0_min() -> u8 {
        0
    }

    pub const fn f0_max() -> u8 {
        7
    }

    pub const fn f1_min() -> u8 {
        0
    }

    pub const fn f1_max() -> u8 {
        7
    }

    pub const fn f2_min() -> u8 {
        0
    }

    pub const fn f2_max() -> u8 {
        7
    }

    pub const fn f3_min() -> u8 {
        0
    }

    pub const fn f3_max() -> u8 {
        7
    }
}

#[asn(set, extensible_after(f2))]

#[derive(Default, Debug, Clone, PartialEq, Hash)]
pub struct Tt4ddmoe3 {
    #[asn(default(integer(0..7), 5))] pub f0: u8,
    #[asn(default(integer(0..7), 5))] pub f1: u8,
    #[asn(integer(0..7))] pub f2: u8,
    #[asn(optional(integer(0..7)))] pub f3: Option<u8>,
}

impl Tt4ddmoe3 {
    pub const fn f0_min() -> u8 {
        0
    }

    pub const fn f0_max() -> u8 {
        7
    }

    pub const fn f1_min() -> u8 {
        0
    }

    pub const fn f1_max() -> u8 {
        7
    }

    pub const fn f2_min() -> u8 {
        0
    }

    pub const fn f2_max() -> u8 {
        7
    }

    pub const fn f3_min() -> u8 {
        0
    }

    pub const fn f3_max() -> u8 {
        7
    }
}

#[asn(set, extensible_after(f3))]

#[derive(Default, Debug, Clone, PartialEq, Hash)]
pub struct Tt4ddmoe4 {
    #[asn(default(integer(0..7), 5))] pub f0: u8,
    #[asn(default(integer(0..7), 5))] pub f1: u8,
    #[asn(integer(0..7))] pub f2: u8,
    #[asn(optional(integer(0..7)))] pub f3: Option<u8>,
}

impl Tt4ddmoe4 {
    pub const fn f0_min() -> u8 {
        0
    }

    pub const fn f0_max() -> u8 {
        7
    }

    pub const fn f1_min() -> u8 {
        0
    }

    pub const fn f1_max() -> u8 {
        7
    }

    pub const fn f2_min() -> u8 {
        0
    }

    pub const fn f2_max() -> u8 {
        7
    }

    pub const fn f3_min() -> u8 {
        0
    }

    pub const fn f3_max() -> u8 {
        7
    }
}

#[asn(set)]

#[derive(Default, Debug, Clone, PartialEq, Hash)]
pub struct Tt4mmoon {
    #[asn(integer(0..7))] pub f0: u8,
    #[asn(integer(0..7))] pub f1: u8,
    #[asn(optional(integer(0..7)))] pub f2: Option<u8>,
    #[asn(optional(integer(0..7)))] pub f3: Option<u8>,
}

impl Tt4mmoon {
    pub const fn f0_min() -> u8 {
        0
    }

    pub const fn f0_max() -> u8 {
        7
    }

    pub const fn f1_min() -> u8 {
        0
    }

    pub const fn f1_max() -> u8 {
        7
    }

    pub const fn f2_min() -> u8 {
        0
    }

    pub const fn f2_max() -> u8 {
        7
    }

    pub const fn f3_min() -> u8 {
        0
    }

    pub const fn f3_max() -> u8 {
        7
    }
}

#[asn(set, extensible_after(f0))]

#[derive(Default, Debug, Clone, PartialEq, Hash)]
pub struct Tt4mmooe0 {
    #[asn(integer(0..7))] pub f0: u8,
    #[asn(optional(integer(0..7)))] pub f1: Option<u8>,
    #[asn(optional(integer(0..7)))] pub f2: Option<u8>,
    #[asn(optional(integer(0..7)))] pub f3: Option<u8>,
}

impl Tt4mmooe0 {
    pub const fn f0_min() -> u8 {
        0
    }

    pub const fn f0_max() -> u8 {
        7
    }

    pub const fn f1_min() -> u8 {
        0
    }

    pub const fn f1_max() -> u8 {
        7
    }

    pub const fn f2_min() -> u8 {
        0
    }

    pub const fn f2_max() -> u8 {
        7
    }

    pub const fn f3_min() -> u8 {
        0
    }

    pub const fn f3_max() -> u8 {
        7
    }
}

#[asn(set, extensible_after(f0))]

#[derive(Default, Debug, Clone, PartialEq, Hash)]
pub struct Tt4mmooe1 {
    #[asn(integer(0..7))] pub f0: u8,
    #[asn(optional(integer(0..7)))] pub f1: Option<u8>,
    #[asn(optional(integer(0..7)))] pub f2: Option<u8>,
    #[asn(optional(integer(0..7)))] pub f3: Option<u8>,
}

impl Tt4mmooe1 {
    pub const fn f0_min() -> u8 {
        0
    }

    pub const fn f0_max() -> u8 {
        7
    }

    pub const fn f1_min() -> u8 {
        0
    }

    pub const fn f1_max() -> u8 {
        7
    }

    pub const fn f2_min() -> u8 {
        0
    }

    pub const fn f2_max() -> u8 {
        7
    }

    pub const fn f3_min() -> u8 {
        0
    }

    pub const fn f3_max() -> u8 {
        7
    }
}

#[asn(set, extensible_after(f1))]

#[derive(Default, Debug, Clone, PartialEq, Hash)]
pub struct Tt4mmooe2 {
    #[asn(integer(0..7))] pub f0: u8,
    #[asn(integer(0..7))] pub f1: u8,
    #[asn(optional(integer(0..7)))] pub f2: Option<u8>,
    #[asn(optional(integer(0..7)))] pub f3: Option<u8>,
}

impl Tt4mmooe2 {
    pub const fn f0_min() -> u8 {
        0
    }

    pub const fn f0_max() -> u8 {
        7
    }

    pub const fn f1_min() -> u8 {
        0
    }

    pub const fn f1_max() -> u8 {
        7
    }

    pub const fn f2_min() -> u8 {
        0
    }

    pub const fn f2_max() -> u8 {
        7
    }

    pub const fn f3_min() -> u8 {
        0
    }

    pub const fn f3_max() -> u8 {
        7
    }
}

#[asn(set, extensible_after(f2))]

#[derive(Default, Debug, Clone, PartialEq, Hash)]
pub struct Tt4mmooe3 {
    #[asn(integer(0..7))] pub f0: u8,
    #[asn(integer(0..7))] pub f1: u8,
    #[asn(optional(integer(0..7)))] pub f2: Option<u8>,
    #[asn(optional(integer(0..7)))] pub f3: Option<u8>,
}

impl Tt4mmooe3 {
    pub const fn f0_min() -> u8 {
        0
    }

    pub const fn f0_max() -> u8 {
        7
    }

    pub const fn f1_min() -> u8 {
        0
    }

    pub const fn f1_max() -> u8 {
        7
    }

    pub const fn f2_min() -> u8 {
        0
    }

    pub const fn f2_max() -> u8 {
        7
    }

    pub const fn f3_min() -> u8 {
        0
    }

    pub const fn f3_max() -> u8 {
        7
    }
}

#[asn(set, extensible_after(f3))]

#[derive(Default, Debug, Clone, PartialEq, Hash)]
pub struct Tt4mmooe4 {
    #[asn(integer(0..7))] pub f0: u8,
    #[asn(integer(0..7))] pub f1: u8,
    #[asn(optional(integer(0..7)))] pub f2: Option<u8>,
    #[asn(optional(integer(0..7)))] pub f3: Option<u8>,
}

impl Tt4mmooe4 {
    pub const fn f0_min() -> u8 {
        0
    }

    pub const fn f0_max() -> u8 {
        7
    }

    pub const fn f1_min() -> u8 {
        0
    }

    pub const fn f1_max() -> u8 {
        7
    }

    pub const fn f2_min() -> u8 {
        0
    }

    pub const fn f2_max() -> u8 {
        7
    }

    pub const fn f3_min() -> u8 {
        0
    }

    pub const fn f3_max() -> u8 {
        7
    }
}

#[asn(set)]

#[derive(Default, Debug, Clone, PartialEq, Hash)]
pub struct Tt4omoon {
    #[asn(optional(integer(0..7)))] pub f0: Option<u8>,
    #[asn(integer(0..7))] pub f1: u8,
    #[asn(optional(integer(0..7)))] pub f2: Option<u8>,
    #[asn(optional(integer(0..7)))] pub f3: Option<u8>,
}

impl Tt4omoon {
    pub const fn f0_min() -> u8 {
        0
    }

    pub const fn f0_max() -> u8 {
        7
    }

    pub const fn f1_min() -> u8 {
        0
    }

    pub const fn f1_max() -> u8 {
        7
    }

    pub const fn f2_min() -> u8 {
        0
    }

    pub const fn f2_max() -> u8 {
        7
    }

    pub const fn f3_min() -> u8 {
        0
    }

    pub const fn f3_max() -> u8 {
        7
    }
}

#[asn(set, extensible_after(f0))]

#[derive(Default, Debug, Clone, PartialEq, Hash)]
pub struct Tt4omooe0 {
    #[asn(optional(integer(0..7)))] pub f0: Option<u8>,
    #[asn(optional(integer(0..7)))] pub f1: Option<u8>,
    #[asn(optional(integer(0..7)))] pub f2: Option<u8>,
    #[asn(optional(integer(0..7)))] pub f3: Option<u8>,
}

impl Tt4omooe0 {
    pub const fn f0_min() -> u8 {
        0
    }

    pub const fn f0_max() -> u8 {
        7
    }

    pub const fn f1_min() -> u8 {
        0
    }

    pub const fn f1_max() -> u8 {
        7
    }

    pub const fn f2_min() -> u8 {
        0
    }

    pub const fn f2_max() -> u8 {
        7
    }

    pub const fn f3_min() -> u8 {
        0
    }

    pub const fn f3_max() -> u8 {
        7
    }
}

#[asn(set, extensible_after(f0))]

#[derive(Default, Debug, Clone, PartialEq, Hash)]
pub struct Tt4omooe1 {
    #[asn(optional(integer(0..7)))] pub f0: Option<u8>,
    #[asn(optional(integer(0..7)))] pub f1: Option<u8>,
    #[asn(optional(integer(0..7)))] pub f2: Option<u8>,
    #[asn(optional(integer(0..7)))] pub f3: Option<u8>,
}

impl Tt4omooe1 {
    pub const fn f0_min() -> u8 {
        0
    }

    pub const fn f0_max() -> u8 {
        7
    }

    pub const fn f1_min() -> u8 {
        0
    }

    pub const fn f1_max() -> u8 {
        7
    }

    pub const fn f2_min() -> u8 {
        0
    }

    pub const fn f2_max() -> u8 {
        7
    }

    pub const fn f3_min() -> u8 {
        0
    }

    pub const fn f3_max() -> u8 {
        7
    }
}

#[asn(set, extensible_after(f1))]

#[derive(Default, Debug, Clone, PartialEq, Hash)]
pub struct Tt4omooe2 {
    #[asn(optional(integer(0..7)))] pub f0: Option<u8>,
    #[asn(integer(0..7))] pub f1: u8,
    #[asn(optional(integer(0..7)))] pub f2: Option<u8>,
    #[asn(optional(integer(0..7)))] pub f3: Option<u8>,
}

impl Tt4omooe2 {
    pub const fn f0_min() -> u8 {
        0
    }

    pub const fn f0_max() -> u8 {
        7
    }

    pub const fn f1_min() -> u8 {
        0
    }

    pub const fn f1_max() -> u8 {
        7
    }

    pub const fn f2_min() -> u8 {
        0
    }

    pub const fn f2_max() -> u8 {
        7
    }

    pub const fn f3_min() -> u8 {
        0
    }

    pub const fn f3_max() -> u8 {
        7
    }
}

#[asn(set, extensible_after(f2))]

#[derive(Default, Debug, Clone, PartialEq, Hash)]
pub struct Tt4omooe3 {
    #[asn(optional(integer(0..7)))] pub f0: Option<u8>,
    #[asn(integer(0..7))] pub f1: u8,
    #[asn(optional(integer(0..7)))] pub f2: Option<u8>,
    #[asn(optional(integer(0..7)))] pub f3: Option<u8>,
}

impl Tt4omooe3 {
    pub const fn f0_min() -> u8 {
        0
    }

    pub const fn f0_max() -> u8 {
        7
    }

    pub const fn f1_min() -> u8 {
        0
    }

    pub const fn f1_max() -> u8 {
        7
    }

    pub const fn f2_min() -> u8 {
        0
    }

    pub const fn f2_max() -> u8 {
        7
    }

    pub const fn f3_min() -> u8 {
        0
    }

    pub const fn f3_max() -> u8 {
        7
    }
}

#[asn(set, extensible_after(f3))]

#[derive(Default, Debug, Clone, PartialEq, Hash)]
pub struct Tt4omooe4 {
    #[asn(optional(integer(0..7)))] pub f0: Option<u8>,
    #[asn(integer(0..7))] pub f1: u8,
    #[asn(optional(integer(0..7)))] pub f2: Option<u8>,
    #[asn(optional(integer(0..7)))] pub f3: Option<u8>,
}

impl Tt4omooe4 {
    pub const fn f0_min() -> u8 {
        0
    }

    pub const fn f0_max() -> u8 {
        7
    }

    pub const fn f1_min() -> u8 {
        0
    }

    pub const fn f1_max() -> u8 {
        7
    }

    pub const fn f2_min() -> u8 {
        0
    }

    pub const fn f2_max() -> u8 {
        7
    }

    pub const fn f3_min() -> u8 {
        0
    }

    pub const fn f3_max() -> u8 {
        7
    }
}

#[asn(set)]

#[derive(Default, Debug, Clone, PartialEq, Hash)]
pub struct Tt4dmoon {
    #[asn(default(integer(0..7), 5))] pub f0: u8,
    #[asn(integer(0..7))] pub f1: u8,
    #[asn(optional(integer(0..7)))] pub f2: Option<u8>,
    #[asn(optional(integer(0..7)))] pub f3: Option<u8>,
}

impl Tt4dmoon {
    pub const fn f0_min() -> u8 {
        0
    }

    pub const fn f0_max() -> u8 {
        7
    }

    pub const fn f1_min() -> u8 {
        0
    }

    pub const fn f1_max() -> u8 {
        7
    }

    pub const fn f2_min() -> u8 {
        0
    }

    pub const fn f2_max() -> u8 {
        7
    }

    pub const fn f3_min() -> u8 {
        0
    }

    pub const fn f3_max() -> u8 {
        7
    }
}

#[asn(set, extensible_after(f0))]

#[derive(Default, Debug, Clone, PartialEq, Hash)]
pub struct Tt4dmooe0 {
    #[asn(default(integer(0..7), 5))] pub f0: u8,
    #[asn(optional(integer(0..7)))] pub f1: Option<u8>,
    #[asn(optional(integer(0..7)))] pub f2: Option<u8>,
    #[asn(optional(integer(0..7)))] pub f3: Option<u8>,
}

impl Tt4dmooe0 {
    pub const fn f0_min() -> u8 {
        0
    }

    pub const fn f0_max() -> u8 {
        7
    }

    pub const fn f1_min() -> u8 {
        0
    }

    pub const fn f1_max() -> u8 {
        7
    }

    pub const fn f2_min() -> u8 {
        0
    }

    pub const fn f2_max() -> u8 {
        7
    }

    pub const fn f3_min() -> u8 {
        0
    }

    pub const fn f3_max() -> u8 {
        7
    }
}

#[asn(set, extensible_after(f0))]

#[derive(Default, Debug, Clone, PartialEq, Hash)]
pub struct Tt4dmooe1 {
    #[asn(default(integer(0..7), 5))] pub f0: u8,
    #[asn(optional(integer(0..7)))] pub f1: Option<u8>,
    #[asn(optional(integer(0..7)))] pub f2: Option<u8>,
    #[asn(optional(integer(0..7)))] pub f3: Option<u8>,
}

impl Tt4dmooe1 {
    pub const fn f0_min() -> u8 {
        0
    }

    pub const fn f0_max() -> u8 {
        7
    }

    pub const fn f1_min() -> u8 {
        0
    }

    pub const fn f1_max() -> u8 {
        7
    }

    pub const fn f2_min() -> u8 {
        0
    }

    pub const fn f2_max() -> u8 {
        7
    }

    pub const fn f3_min() -> u8 {
        0
    }

    pub const fn f3_max() -> u8 {
        7
    }
}

#[asn(set, extensible_after(f1))]

#[derive(Default, Debug, Clone, PartialEq, Hash)]
pub struct Tt4dmooe2 {
    #[asn(default(integer(0..7), 5))] pub f0: u8,
    #[asn(integer(0..7))] pub f1: u8,
    #[asn(optional(integer(0..7)))] pub f2: Option<u8>,
    #[asn(optional(integer(0..7)))] pub f3: Option<u8>,
}

impl Tt4dmooe2 {
    pub const fn f0_min() -> u8 {
        0
    }

    pub const fn f0_max() -> u8 {
        7
    }

    pub const fn f1_min() -> u8 {
        0
    }

    pub const fn f1_max() -> u8 {
        7
    }

    pub const fn f2_min() -> u8 {
        0
    }

    pub const fn f2_max() -> u8 {
        7
    }

    pub const fn f3_min() -> u8 {
        0
    }

    pub const fn f3_max() -> u8 {
        7
    }
}

#[asn(set, extensible_after(f2))]

#[derive(Default, Debug, Clone, PartialEq, Hash)]
pub struct Tt4dmooe3 {
    #[asn(default(integer(0..7), 5))] pub f0: u8,
    #[asn(integer(0..7))] pub f1: u8,
    #[asn(optional(integer(0..7)))] pub f2: Option<u8>,
    #[asn(optional(integer(0..7)))] pub f3: Option<u8>,
}

impl Tt4dmooe3 {
    pub const fn f0_min() -> u8 {
        0
    }

    pub const fn f0_max() -> u8 {
        7
    }

    pub const fn f1_min() -> u8 {
        0
    }

    pub const fn f1_max() -> u8 {
        7
    }

    pub const fn f2_min() -> u8 {
        0
    }

    pub const fn f2_max() -> u8 {
        7
    }

    pub const fn f3_min() -> u8 {
        0
    }

    pub const fn f3_max() -> u8 {
        7
    }
}

#[asn(set, extensible_after(f3))]

#[derive(Default, Debug, Clone, PartialEq, Hash)]
pub struct Tt4dmooe4 {
    #[asn(default(integer(0..7), 5))] pub f0: u8,
    #[asn(integer(0..7))] pub f1: u8,
    #[asn(optional(integer(0..7)))] pub f2: Option<u8>,
    #[asn(optional(integer(0..7)))] pub f3: Option<u8>,
}

impl Tt4dmooe4 {
    pub const fn f0_min() -> u8 {
        0
    }

    pub const fn f0_max() -> u8 {
        7
    }

    pub const fn f1_min() -> u8 {
        0
    }

    pub const fn f1_max() -> u8 {
        7
    }

    pub const fn f2_min() -> u8 {
        0
    }

    pub const fn f2_max() -> u8 {
        7
    }

    pub const fn f3_min() -> u8 {
        0
    }

    pub const fn f3_max() -> u8 {
        7
    }
}

#[asn(set)]

#[derive(Default, Debug, Clone, PartialEq, Hash)]
pub struct Tt4mooon {
    #[asn(integer(0..7))] pub f0: u8,
    #[asn(optional(integer(0..7)))] pub f1: Option<u8>,
    #[asn(optional(integer(0..7)))] pub f2: Option<u8>,
    #[asn(optional(integer(0..7)))] pub f3: Option<u8>,
}

impl Tt4mooon {
    pub const fn f0_min() -> u8 {
        0
    }

    pub const fn f0_max() -> u8 {
        7
    }

    pub const fn f1_min() -> u8 {
        0
    }

    pub const fn f1_max() -> u8 {
        7
    }

    pub const fn f2_min() -> u8 {
        0
    }

    pub const fn f2_max() -> u8 {
        7
    }

    pub const fn f3_min() -> u8 {
        0
    }

    pub const fn f3_max() -> u8 {
        7
    }
}

#[asn(set, extensible_after(f0))]

#[derive(Default, Debug, Clone, PartialEq, Hash)]
pub struct Tt4moooe0 {
    #[asn(integer(0..7))] pub f0: u8,
    #[asn(optional(integer(0..7)))] pub f1: Option<u8>,
    #[asn(optional(integer(0..7)))] pub f2: Option<u8>,
    #[asn(optional(integer(0..7)))] pub f3: Option<u8>,
}

impl Tt4moooe0 {
    pub const fn f0_min() -> u8 {
        0
    }

    pub const fn f0_max() -> u8 {
        7
    }

    pub const fn f1_min() -> u8 {
        0
    }

    pub const fn f1_max() -> u8 {
        7
    }

    pub const fn f2_min() -> u8 {
        0
    }

    pub const fn f2_max() -> u8 {
        7
    }

    pub const fn f3_min() -> u8 {
        0
    }

    pub const fn f3_max() -> u8 {
        7
    }
}

#[asn(set, extensible_after(f0))]

#[derive(Default, Debug, Clone, PartialEq, Hash)]
pub struct Tt4moooe1 {
    #[asn(integer(0..7))] pub f0: u8,
    #[asn(optional(integer(0..7)))] pub f1: Option<u8>,
    #[asn(optional(integer(0..7)))] pub f2: Option<u8>,
    #[asn(optional(integer(0..7)))] pub f3: Option<u8>,
}

impl Tt4moooe1 {
    pub const fn f0_min() -> u8 {
        0
    }

    pub const fn f0_max() -> u8 {
        7
    }

    pub const fn f1_min() -> u8 {
        0
    }

    pub const fn f1_max() -> u8 {
        7
    }

    pub const fn f2_min() -> u8 {
        0
    }

    pub const fn f2_max() -> u8 {
        7
    }

    pub const fn f3_min() -> u8 {
        0
    }

    pub const fn f3_max() -> u8 {
        7
    }
}

#[asn(set, extensible_after(f1))]

#[derive(Default, Debug, Clone, PartialEq, Hash)]
pub struct Tt4moooe2 {
    #[asn(integer(0..7))] pub f0: u8,
    #[asn(optional(integer(0..7)))] pub f1: Option<u8>,
    #[asn(optional(integer(0..7)))] pub f2: Option<u8>,
    #[asn(optional(integer(0..7)))] pub f3: Option<u8>,
}

impl Tt4moooe2 {
    pub const fn f0_min() -> u8 {
        0
    }

    pub const fn f0_max() -> u8 {
        7
    }

    pub const fn f1_min() -> u8 {
        0
    }

    pub const fn f1_max() -> u8 {
        7
    }

    pub const fn f2_min() -> u8 {
        0
    }

    pub const fn f2_max() -> u8 {
        7
    }

    pub const fn f3_min() -> u8 {
        0
    }

    pub const fn f3_max() -> u8 {
        7
    }
}

#[asn(set, extensible_after(f2))]

#[derive(Default, Debug, Clone, PartialEq, Hash)]
pub struct Tt4moooe3 {
    #[asn(integer(0..7))] pub f0: u8,
    #[asn(optional(integer(0..7)))] pub f1: Option<u8>,
    #[asn(optional(integer(0..7)))] pub f2: Option<u8>,
    #[asn(optional(integer(0..7)))] pub f3: Option<u8>,
}

impl Tt4moooe3 {
    pub const fn f0_min() -> u8 {
        0
    }

    pub const fn f0_max() -> u8 {
        7
    }

    pub const fn f1_min() -> u8 {
        0
    }

    pub const fn f1_max() -> u8 {
        7
    }

    pub const fn f2_min() -> u8 {
        0
    }

    pub const fn f2_max() -> u8 {
        7
    }

    pub const fn f3_min() -> u8 {
        0
    }

    pub const fn f3_max() -> u8 {
        7
    }
}

#[asn(set, extensible_after(f3))]

#[derive(Default, Debug, Clone, PartialEq, Hash)]
pub struct Tt4moooe4 {
    #[asn(integer(0..7))] pub f0: u8,
    #[asn(optional(integer(0..7)))] pub f1: Option<u8>,
    #[asn(optional(integer(0..7)))] pub f2: Option<u8>,
    #[asn(optional(integer(0..7)))] pub f3: Option<u8>,
}

impl Tt4moooe4 {
    pub const fn f0_min() -> u8 {
        0
    }

    pub const fn f0_max() -> u8 {
        7
    }

    pub const fn f1_min() -> u8 {
        0
    }

    pub const fn f1_max() -> u8 {
        7
    }

    pub const fn f2_min() -> u8 {
        0
    }

    pub const fn f2_max() -> u8 {
        7
    }

    pub const fn f3_min() -> u8 {
        0
    }

    pub const fn f3_max() -> u8 {
        7
    }
}
// ---- harness conversions (generated by the zoo build script from the items above) ----
impl FromValue for Tt4dmdmn {
    fn from_value(v: &Value) -> Self {
        let s = match v { Value::Seq(s) => s, other => panic!("Tt4dmdmn: expected Seq, got {other:?}") };
        assert_eq!(s.len(), 4, "Tt4dmdmn: component count");
        let _ = s;
        Tt4dmdmn {
            f0: FromValue::from_value(s[0].as_ref().expect("component f0 of Tt4dmdmn must be present")),
            f1: FromValue::from_value(s[1].as_ref().expect("component f1 of Tt4dmdmn must be present")),
            f2: FromValue::from_value(s[2].as_ref().expect("component f2 of Tt4dmdmn must be present")),
            f3: FromValue::from_value(s[3].as_ref().expect("component f3 of Tt4dmdmn must be present")),
        }
    }
}
impl ToValue for Tt4dmdmn {
    fn to_value(&self) -> Value {
        Value::Seq(vec![
            Some(self.f0.to_value()),
            Some(self.f1.to_value()),
            Some(self.f2.to_value()),
            Some(self.f3.to_value()),
        ])
    }
}
impl FromValue for Tt4dmdme0 {
    fn from_value(v: &Value) -> Self {
        let s = match v { Value::Seq(s) => s, other => panic!("Tt4dmdme0: expected Seq, got {other:?}") };
        assert_eq!(s.len(), 4, "Tt4dmdme0: component count");
        let _ = s;
        Tt4dmdme0 {
            f0: FromValue::from_value(s[0].as_ref().expect("component f0 of Tt4dmdme0 must be present")),
            f1: s[1].as_ref().map(FromValue::from_value),
            f2: FromValue::from_value(s[2].as_ref().expect("component f2 of Tt4dmdme0 must be present")),
            f3: s[3].as_ref().map(FromValue::from_value),
        }
    }
}
impl ToValue for Tt4dmdme0 {
    fn to_value(&self) -> Value {
        Value::Seq(vec![
            Some(self.f0.to_value()),
            self.f1.as_ref().map(|x| x.to_value()),
            Some(self.f2.to_value()),
            self.f3.as_ref().map(|x| x.to_value()),
        ])
    }
}
impl FromValue for Tt4dmdme1 {
    fn from_value(v: &Value) -> Self {
        let s = match v { Value::Seq(s) => s, other => panic!("Tt4dmdme1: expected Seq, got {other:?}") };
        assert_eq!(s.len(), 4, "Tt4dmdme1: component count");
        let _ = s;
        Tt4dmdme1 {
            f0: FromValue::from_value(s[0].as_ref().expect("component f0 of Tt4dmdme1 must be present")),
            f1: s[1].as_ref().map(FromValue::from_value),
            f2: FromValue::from_value(s[2].as_ref().expect("component f2 of Tt4dmdme1 must be present")),
            f3: s[3].as_ref().map(FromValue::from_value),
        }
    }
}
impl ToValue for Tt4dmdme1 {
    fn to_value(&self) -> Value {
        Value::Seq(vec![
            Some(self.f0.to_value()),
            self.f1.as_ref().map(|x| x.to_value()),
            Some(self.f2.to_value()),
            self.f3.as_ref().map(|x| x.to_value()),
        ])
    }
}
impl FromValue for Tt4dmdme2 {
    fn from_value(v: &Value) -> Self {
        let s = match v { Value::Seq(s) => s, other => panic!("Tt4dmdme2: expected Seq, got {other:?}") };
        assert_eq!(s.len(), 4, "Tt4dmdme2: component count");
        let _ = s;
        Tt4dmdme2 {
            f0: FromValue::from_value(s[0].as_ref().expect("component f0 of Tt4dmdme2 must be present")),
            f1: FromValue::from_value(s[1].as_ref().expect("component f1 of Tt4dmdme2 must be present")),
            f2: FromValue::from_value(s[2].as_ref().expect("component f2 of Tt4dmdme2 must be present")),
            f3: s[3].as_ref().map(FromValue::from_value),
        }
    }
}
impl ToValue for Tt4dmdme2 {
    fn to_value(&self) -> Value {
        Value::Seq(vec![
            Some(self.f0.to_value()),
            Some(self.f1.to_value()),
            Some(self.f2.to_value()),
            self.f3.as_ref().map(|x| x.to_value()),
        ])
    }
}
impl FromValue for Tt4dmdme3 {
    fn from_value(v: &Value) -> Self {
        let s = match v { Value::Seq(s) => s, other => panic!("Tt4dmdme3: expected Seq, got {other:?}") };
        assert_eq!(s.len(), 4, "Tt4dmdme3: component count");
        let _ = s;
        Tt4dmdme3 {
            f0: FromValue::from_value(s[0].as_ref().expect("component f0 of Tt4dmdme3 must be present")),
            f1: FromValue::from_value(s[1].as_ref().expect("component f1 of Tt4dmdme3 must be present")),
            f2: FromValue::from_value(s[2].as_ref().expect("component f2 of Tt4dmdme3 must be present")),
            f3: s[3].as_ref().map(FromValue::from_value),
        }
    }
}
impl ToValue for Tt4dmdme3 {
    fn to_value(&self) -> Value {
        Value::Seq(vec![
            Some(self.f0.to_value()),
            Some(self.f1.to_value()),
            Some(self.f2.to_value()),
            self.f3.as_ref().map(|x| x.to_value()),
        ])
    }
}
impl FromValue for Tt4dmdme4 {
    fn from_value(v: &Value) -> Self {
        let s = match v { Value::Seq(s) => s, other => panic!("Tt4dmdme4: expected Seq, got {other:?}") };
        assert_eq!(s.len(), 4, "Tt4dmdme4: component count");
        let _ = s;
        Tt4dmdme4 {
            f0: FromValue::from_value(s[0].as_ref().expect("component f0 of Tt4dmdme4 must be present")),
            f1: FromValue::from_value(s[1].as_ref().expect("component f1 of Tt4dmdme4 must be present")),
            f2: FromValue::from_value(s[2].as_ref().expect("component f2 of Tt4dmdme4 must be present")),
            f3: FromValue::from_value(s[3].as_ref().expect("component f3 of Tt4dmdme4 must be present")),
        }
    }
}
impl ToValue for Tt4dmdme4 {
    fn to_value(&self) -> Value {
        Value::Seq(vec![
            Some(self.f0.to_value()),
            Some(self.f1.to_value()),
            Some(self.f2.to_value()),
            Some(self.f3.to_value()),
        ])
    }
}
impl FromValue for Tt4modmn {
    fn from_value(v: &Value) -> Self {
        let s = match v { Value::Seq(s) => s, other => panic!("Tt4modmn: expected Seq, got {other:?}") };
        assert_eq!(s.len(), 4, "Tt4modmn: component count");
        let _ = s;
        Tt4modmn {
            f0: FromValue::from_value(s[0].as_ref().expect("component f0 of Tt4modmn must be present")),
            f1: s[1].as_ref().map(FromValue::from_value),
            f2: FromValue::from_value(s[2].as_ref().expect("component f2 of Tt4modmn must be present")),
            f3: FromValue::from_value(s[3].as_ref().expect("component f3 of Tt4modmn must be present")),
        }
    }
}
impl ToValue for Tt4modmn {
    fn to_value(&self) -> Value {
        Value::Seq(vec![
            Some(self.f0.to_value()),
            self.f1.as_ref().map(|x| x.to_value()),
            Some(self.f2.to_value()),
            Some(self.f3.to_value()),
        ])
    }
}
impl FromValue for Tt4modme0 {
    fn from_value(v: &Value) -> Self {
        let s = match v { Value::Seq(s) => s, other => panic!("Tt4modme0: expected Seq, got {other:?}") };
        assert_eq!(s.len(), 4, "Tt4modme0: component count");
        let _ = s;
        Tt4modme0 {
            f0: FromValue::from_value(s[0].as_ref().expect("component f0 of Tt4modme0 must be present")),
            f1: s[1].as_ref().map(FromValue::from_value),
            f2: FromValue::from_value(s[2].as_ref().expect("component f2 of Tt4modme0 must be present")),
            f3: s[3].as_ref().map(FromValue::from_value),
        }
    }
}
impl ToValue for Tt4modme0 {
    fn to_value(&self) -> Value {
        Value::Seq(vec![
            Some(self.f0.to_value()),
            self.f1.as_ref().map(|x| x.to_value()),
            Some(self.f2.to_value()),
            self.f3.as_ref().map(|x| x.to_value()),
        ])
    }
}
impl FromValue for Tt4modme1 {
    fn from_value(v: &Value) -> Self {
        let s = match v { Value::Seq(s) => s, other => panic!("Tt4modme1: expected Seq, got {other:?}") };
        assert_eq!(s.len(), 4, "Tt4modme1: component count");
        let _ = s;
        Tt4modme1 {
            f0: FromValue::from_value(s[0].as_ref().expect("component f0 of Tt4modme1 must be present")),
            f1: s[1].as_ref().map(FromValue::from_value),
            f2: FromValue::from_value(s[2].as_ref().expect("component f2 of Tt4modme1 must be present")),
            f3: s[3].as_ref().map(FromValue::from_value),
        }
    }
}
impl ToValue for Tt4modme1 {
    fn to_value(&self) -> Value {
        Value::Seq(vec![
            Some(self.f0.to_value()),
            self.f1.as_ref().map(|x| x.to_value()),
            Some(self.f2.to_value()),
            self.f3.as_ref().map(|x| x.to_value()),
        ])
    }
}
impl FromValue for Tt4modme2 {
    fn from_value(v: &Value) -> Self {
        let s = match v { Value::Seq(s) => s, other => panic!("Tt4modme2: expected Seq, got {other:?}") };
        assert_eq!(s.len(), 4, "Tt4modme2: component count");
        let _ = s;
        Tt4modme2 {
            f0: FromValue::from_value(s[0].as_ref().expect("component f0 of Tt4modme2 must be present")),
            f1: s[1].as_ref().map(FromValue::from_value),
            f2: FromValue::from_value(s[2].as_ref().expect("component f2 of Tt4modme2 must be present")),
            f3: s[3].as_ref().map(FromValue::from_value),
        }
    }
}
impl ToValue for Tt4modme2 {
    fn to_value(&self) -> Value {
        Value::Seq(vec![
            Some(self.f0.to_value()),
            self.f1.as_ref().map(|x| x.to_value()),
            Some(self.f2.to_value()),
            self.f3.as_ref().map(|x| x.to_value()),
        ])
    }
}
impl FromValue for Tt4modme3 {
    fn from_value(v: &Value) -> Self {
        let s = match v { Value::Seq(s) => s, other => panic!("Tt4modme3: expected Seq, got {other:?}") };
        assert_eq!(s.len(), 4, "Tt4modme3: component count");
        let _ = s;
        Tt4modme3 {
            f0: FromValue::from_value(s[0].as_ref().expect("component f0 of Tt4modme3 must be present")),
            f1: s[1].as_ref().map(FromValue::from_value),
            f2: FromValue::from_value(s[2].as_ref().expect("component f2 of Tt4modme3 must be present")),
            f3: s[3].as_ref().map(FromValue::from_value),
        }
    }
}
impl ToValue for Tt4modme3 {
    fn to_value(&self) -> Value {
        Value::Seq(vec![
            Some(self.f0.to_value()),
            self.f1.as_ref().map(|x| x.to_value()),
            Some(self.f2.to_value()),
            self.f3.as_ref().map(|x| x.to_value()),
        ])
    }
}
impl FromValue for Tt4modme4 {
    fn from_value(v: &Value) -> Self {
        let s = match v { Value::Seq(s) => s, other => panic!("Tt4modme4: expected Seq, got {other:?}") };
        assert_eq!(s.len(), 4, "Tt4modme4: component count");
        let _ = s;
        Tt4modme4 {
            f0: FromValue::from_value(s[0].as_ref().expect("component f0 of Tt4modme4 must be present")),
            f1: s[1].as_ref().map(FromValue::from_value),
            f2: FromValue::from_value(s[2].as_ref().expect("component f2 of Tt4modme4 must be present")),
            f3: FromValue::from_value(s[3].as_ref().expect("component f3 of Tt4modme4 must be present")),
        }
    }
}
impl ToValue for Tt4modme4 {
    fn to_value(&self) -> Value {
        Value::Seq(vec![
            Some(self.f0.to_value()),
            self.f1.as_ref().map(|x| x.to_value()),
            Some(self.f2.to_value()),
            Some(self.f3.to_value()),
        ])
    }
}
impl FromValue for Tt4oodmn {
    fn from_value(v: &Value) -> Self {
        let s = match v { Value::Seq(s) => s, other => panic!("Tt4oodmn: expected Seq, got {other:?}") };
        assert_eq!(s.len(), 4, "Tt4oodmn: component count");
        let _ = s;
        Tt4oodmn {
            f0: s[0].as_ref().map(FromValue::from_value),
            f1: s[1].as_ref().map(FromValue::from_value),
            f2: FromValue::from_value(s[2].as_ref().expect("component f2 of Tt4oodmn must be present")),
            f3: FromValue::from_value(s[3].as_ref().expect("component f3 of Tt4oodmn must be present")),
        }
    }
}
impl ToValue for Tt4oodmn {
    fn to_value(&self) -> Value {
        Value::Seq(vec![
            self.f0.as_ref().map(|x| x.to_value()),
            self.f1.as_ref().map(|x| x.to_value()),
            Some(self.f2.to_value()),
            Some(self.f3.to_value()),
        ])
    }
}
impl FromValue for Tt4oodme0 {
    fn from_value(v: &Value) -> Self {
        let s = match v { Value::Seq(s) => s, other => panic!("Tt4oodme0: expected Seq, got {other:?}") };
        assert_eq!(s.len(), 4, "Tt4oodme0: component count");
        let _ = s;
        Tt4oodme0 {
            f0: s[0].as_ref().map(FromValue::from_value),
            f1: s[1].as_ref().map(FromValue::from_value),
            f2: FromValue::from_value(s[2].as_ref().expect("component f2 of Tt4oodme0 must be present")),
            f3: s[3].as_ref().map(FromValue::from_value),
        }
    }
}
impl ToValue for Tt4oodme0 {
    fn to_value(&self) -> Value {
        Value::Seq(vec![
            self.f0.as_ref().map(|x| x.to_value()),
            self.f1.as_ref().map(|x| x.to_value()),
            Some(self.f2.to_value()),
            self.f3.as_ref().map(|x| x.to_value()),
        ])
    }
}
impl FromValue for Tt4oodme1 {
    fn from_value(v: &Value) -> Self {
        let s = match v { Value::Seq(s) => s, other => panic!("Tt4oodme1: expected Seq, got {other:?}") };
        assert_eq!(s.len(), 4, "Tt4oodme1: component count");
        let _ = s;
        Tt4oodme1 {
            f0: s[0].as_ref().map(FromValue::from_value),
            f1: s[1].as_ref().map(FromValue::from_value),
            f2: FromValue::from_value(s[2].as_ref().expect("component f2 of Tt4oodme1 must be present")),
            f3: s[3].as_ref().map(FromValue::from_value),
        }
    }
}
impl ToValue for Tt4oodme1 {
    fn to_value(&self) -> Value {
        Value::Seq(vec![
            self.f0.as_ref().map(|x| x.to_value()),
            self.f1.as_ref().map(|x| x.to_value()),
            Some(self.f2.to_value()),
            self.f3.as_ref().map(|x| x.to_value()),
        ])
    }
}
impl FromValue for Tt4oodme2 {
    fn from_value(v: &Value) -> Self {
        let s = match v { Value::Seq(s) => s, other => panic!("Tt4oodme2: expected Seq, got {other:?}") };
        assert_eq!(s.len(), 4, "Tt4oodme2: component count");
        let _ = s;
        Tt4oodme2 {
            f0: s[0].as_ref().map(FromValue::from_value),
            f1: s[1].as_ref().map(FromValue::from_value),
            f2: FromValue::from_value(s[2].as_ref().expect("component f2 of Tt4oodme2 must be present")),
            f3: s[3].as_ref().map(FromValue::from_value),
        }
    }
}
impl ToValue for Tt4oodme2 {
    fn to_value(&self) -> Value {
        Value::Seq(vec![
            self.f0.as_ref().map(|x| x.to_value()),
            self.f1.as_ref().map(|x| x.to_value()),
            Some(self.f2.to_value()),
            self.f3.as_ref().map(|x| x.to_value()),
        ])
    }
}
impl FromValue for Tt4oodme3 {
    fn from_value(v: &Value) -> Self {
        let s = match v { Value::Seq(s) => s, other => panic!("Tt4oodme3: expected Seq, got {other:?}") };
        assert_eq!(s.len(), 4, "Tt4oodme3: component count");
        let _ = s;
        Tt4oodme3 {
            f0: s[0].as_ref().map(FromValue::from_value),
            f1: s[1].as_ref().map(FromValue::from_value),
            f2: FromValue::from_value(s[2].as_ref().expect("component f2 of Tt4oodme3 must be present")),
            f3: s[3].as_ref().map(FromValue::from_value),
        }
    }
}
impl ToValue for Tt4oodme3 {
    fn to_value(&self) -> Value {
        Value::Seq(vec![
            self.f0.as_ref().map(|x| x.to_value()),
            self.f1.as_ref().map(|x| x.to_value()),
            Some(self.f2.to_value()),
            self.f3.as_ref().map(|x| x.to_value()),
        ])
    }
}
impl FromValue for Tt4oodme4 {
    fn from_value(v: &Value) -> Self {
        let s = match v { Value::Seq(s) => s, other => panic!("Tt4oodme4: expected Seq, got {other:?}") };
        assert_eq!(s.len(), 4, "Tt4oodme4: component count");
        let _ = s;
        Tt4oodme4 {
            f0: s[0].as_ref().map(FromValue::from_value),
            f1: s[1].as_ref().map(FromValue::from_value),
            f2: FromValue::from_value(s[2].as_ref().expect("component f2 of Tt4oodme4 must be present")),
            f3: FromValue::from_value(s[3].as_ref().expect("component f3 of Tt4oodme4 must be present")),
        }
    }
}
impl ToValue for Tt4oodme4 {
    fn to_value(&self) -> Value {
        Value::Seq(vec![
            self.f0.as_ref().map(|x| x.to_value()),
            self.f1.as_ref().map(|x| x.to_value()),
            Some(self.f2.to_value()),
            Some(self.f3.to_value()),
        ])
    }
}
impl FromValue for Tt4dodmn {
    fn from_value(v: &Value) -> Self {
        let s = match v { Value::Seq(s) => s, other => panic!("Tt4dodmn: expected Seq, got {other:?}") };
        assert_eq!(s.len(), 4, "Tt4dodmn: component count");
        let _ = s;
        Tt4dodmn {
            f0: FromValue::from_value(s[0].as_ref().expect("component f0 of Tt4dodmn must be present")),
            f1: s[1].as_ref().map(FromValue::from_value),
            f2: FromValue::from_value(s[2].as_ref().expect("component f2 of Tt4dodmn must be present")),
            f3: FromValue::from_value(s[3].as_ref().expect("component f3 of Tt4dodmn must be present")),
        }
    }
}
impl ToValue for Tt4dodmn {
    fn to_value(&self) -> Value {
        Value::Seq(vec![
            Some(self.f0.to_value()),
            self.f1.as_ref().map(|x| x.to_value()),
            Some(self.f2.to_value()),
            Some(self.f3.to_value()),
        ])
    }
}
impl FromValue for Tt4dodme0 {
    fn from_value(v: &Value) -> Self {
        let s = match v { Value::Seq(s) => s, other => panic!("Tt4dodme0: expected Seq, got {other:?}") };
        assert_eq!(s.len(), 4, "Tt4dodme0: component count");
        let _ = s;
        Tt4dodme0 {
            f0: FromValue::from_value(s[0].as_ref().expect("component f0 of Tt4dodme0 must be present")),
            f1: s[1].as_ref().map(FromValue::from_value),
            f2: FromValue::from_value(s[2].as_ref().expect("component f2 of Tt4dodme0 must be present")),
            f3: s[3].as_ref().map(FromValue::from_value),
        }
    }
}
impl ToValue for Tt4dodme0 {
    fn to_value(&self) -> Value {
        Value::Seq(vec![
            Some(self.f0.to_value()),
            self.f1.as_ref().map(|x| x.to_value()),
            Some(self.f2.to_value()),
            self.f3.as_ref().map(|x| x.to_value()),
        ])
    }
}
impl FromValue for Tt4dodme1 {
    fn from_value(v: &Value) -> Self {
        let s = match v { Value::Seq(s) => s, other => panic!("Tt4dodme1: expected Seq, got {other:?}") };
        assert_eq!(s.len(), 4, "Tt4dodme1: component count");
        let _ = s;
        Tt4dodme1 {
            f0: FromValue::from_value(s[0].as_ref().expect("component f0 of Tt4dodme1 must be present")),
            f1: s[1].as_ref().map(FromValue::from_value),
            f2: FromValue::from_value(s[2].as_ref().expect("component f2 of Tt4dodme1 must be present")),
            f3: s[3].as_ref().map(FromValue::from_value),
        }
    }
}
impl ToValue for Tt4dodme1 {
    fn to_value(&self) -> Value {
        Value::Seq(vec![
            Some(self.f0.to_value()),
            self.f1.as_ref().map(|x| x.to_value()),
            Some(self.f2.to_value()),
            self.f3.as_ref().map(|x| x.to_value()),
        ])
    }
}
impl FromValue for Tt4dodme2 {
    fn from_value(v: &Value) -> Self {
        let s = match v { Value::Seq(s) => s, other => panic!("Tt4dodme2: expected Seq, got {other:?}") };
        assert_eq!(s.len(), 4, "Tt4dodme2: component count");
        let _ = s;
        Tt4dodme2 {
            f0: FromValue::from_value(s[0].as_ref().expect("component f0 of Tt4dodme2 must be present")),
            f1: s[1].as_ref().map(FromValue::from_value),
            f2: FromValue::from_value(s[2].as_ref().expect("component f2 of Tt4dodme2 must be present")),
            f3: s[3].as_ref().map(FromValue::from_value),
        }
    }
}
impl ToValue for Tt4dodme2 {
    fn to_value(&self) -> Value {
        Value::Seq(vec![
            Some(self.f0.to_value()),
            self.f1.as_ref().map(|x| x.to_value()),
            Some(self.f2.to_value()),
            self.f3.as_ref().map(|x| x.to_value()),
        ])
    }
}
impl FromValue for Tt4dodme3 {
    fn from_value(v: &Value) -> Self {
        let s = match v { Value::Seq(s) => s, other => panic!("Tt4dodme3: expected Seq, got {other:?}") };
        assert_eq!(s.len(), 4, "Tt4dodme3: component count");
        let _ = s;
        Tt4dodme3 {
            f0: FromValue::from_value(s[0].as_ref().expect("component f0 of Tt4dodme3 must be present")),
            f1: s[1].as_ref().map(FromValue::from_value),
            f2: FromValue::from_value(s[2].as_ref().expect("component f2 of Tt4dodme3 must be present")),
            f3: s[3].as_ref().map(FromValue::from_value),
        }
    }
}
impl ToValue for Tt4dodme3 {
    fn to_value(&self) -> Value {
        Value::Seq(vec![
            Some(self.f0.to_value()),
            self.f1.as_ref().map(|x| x.to_value()),
            Some(self.f2.to_value()),
            self.f3.as_ref().map(|x| x.to_value()),
        ])
    }
}
impl FromValue for Tt4dodme4 {
    fn from_value(v: &Value) -> Self {
        let s = match v { Value::Seq(s) => s, other => panic!("Tt4dodme4: expected Seq, got {other:?}") };
        assert_eq!(s.len(), 4, "Tt4dodme4: component count");
        let _ = s;
        Tt4dodme4 {
            f0: FromValue::from_value(s[0].as_ref().expect("component f0 of Tt4dodme4 must be present")),
            f1: s[1].as_ref().map(FromValue::from_value),
            f2: FromValue::from_value(s[2].as_ref().expect("component f2 of Tt4dodme4 must be present")),
            f3: FromValue::from_value(s[3].as_ref().expect("component f3 of Tt4dodme4 must be present")),
        }
    }
}
impl ToValue for Tt4dodme4 {
    fn to_value(&self) -> Value {
        Value::Seq(vec![
            Some(self.f0.to_value()),
            self.f1.as_ref().map(|x| x.to_value()),
            Some(self.f2.to_value()),
            Some(self.f3.to_value()),
        ])
    }
}
impl FromValue for Tt4mddmn {
    fn from_value(v: &Value) -> Self {
        let s = match v { Value::Seq(s) => s, other => panic!("Tt4mddmn: expected Seq, got {other:?}") };
        assert_eq!(s.len(), 4, "Tt4mddmn: component count");
        let _ = s;
        Tt4mddmn {
            f0: FromValue::from_value(s[0].as_ref().expect("component f0 of Tt4mddmn must be present")),
            f1: FromValue::from_value(s[1].as_ref().expect("component f1 of Tt4mddmn must be present")),
            f2: FromValue::from_value(s[2].as_ref().expect("component f2 of Tt4mddmn must be present")),
            f3: FromValue::from_value(s[3].as_ref().expect("component f3 of Tt4mddmn must be present")),
        }
    }
}
impl ToValue for Tt4mddmn {
    fn to_value(&self) -> Value {
        Value::Seq(vec![
            Some(self.f0.to_value()),
            Some(self.f1.to_value()),
            Some(self.f2.to_value()),
            Some(self.f3.to_value()),
        ])
    }
}
impl FromValue for Tt4mddme0 {
    fn from_value(v: &Value) -> Self {
        let s = match v { Value::Seq(s) => s, other => panic!("Tt4mddme0: expected Seq, got {other:?}") };
        assert_eq!(s.len(), 4, "Tt4mddme0: component count");
        let _ = s;
        Tt4mddme0 {
            f0: FromValue::from_value(s[0].as_ref().expect("component f0 of Tt4mddme0 must be present")),
            f1: FromValue::from_value(s[1].as_ref().expect("component f1 of Tt4mddme0 must be present")),
            f2: FromValue::from_value(s[2].as_ref().expect("component f2 of Tt4mddme0 must be present")),
            f3: s[3].as_ref().map(FromValue::from_value),
        }
    }
}
impl ToValue for Tt4mddme0 {
    fn to_value(&self) -> Value {
        Value::Seq(vec![
            Some(self.f0.to_value()),
            Some(self.f1.to_value()),
            Some(self.f2.to_value()),
            self.f3.as_ref().map(|x| x.to_value()),
        ])
    }
}
impl FromValue for Tt4mddme1 {
    fn from_value(v: &Value) -> Self {
        let s = match v { Value::Seq(s) => s, other => panic!("Tt4mddme1: expected Seq, got {other:?}") };
        assert_eq!(s.len(), 4, "Tt4mddme1: component count");
        let _ = s;
        Tt4mddme1 {
            f0: FromValue::from_value(s[0].as_ref().expect("component f0 of Tt4mddme1 must be present")),
            f1: FromValue::from_value(s[1].as_ref().expect("component f1 of Tt4mddme1 must be present")),
            f2: FromValue::from_value(s[2].as_ref().expect("component f2 of Tt4mddme1 must be present")),
            f3: s[3].as_ref().map(FromValue::from_value),
        }
    }
}
impl ToValue for Tt4mddme1 {
    fn to_value(&self) -> Value {
        Value::Seq(vec![
            Some(self.f0.to_value()),
            Some(self.f1.to_value()),
            Some(self.f2.to_value()),
            self.f3.as_ref().map(|x| x.to_value()),
        ])
    }
}
impl FromValue for Tt4mddme2 {
    fn from_value(v: &Value) -> Self {
        let s = match v { Value::Seq(s) => s, other => panic!("Tt4mddme2: expected Seq, got {other:?}") };
        assert_eq!(s.len(), 4, "Tt4mddme2: component count");
        let _ = s;
        Tt4mddme2 {
            f0: FromValue::from_value(s[0].as_ref().expect("component f0 of Tt4mddme2 must be present")),
            f1: FromValue::from_value(s[1].as_ref().expect("component f1 of Tt4mddme2 must be present")),
            f2: FromValue::from_value(s[2].as_ref().expect("component f2 of Tt4mddme2 must be present")),
            f3: s[3].as_ref().map(FromValue::from_value),
        }
    }
}
impl ToValue for Tt4mddme2 {
    fn to_value(&self) -> Value {
        Value::Seq(vec![
            Some(self.f0.to_value()),
            Some(self.f1.to_value()),
            Some(self.f2.to_value()),
            self.f3.as_ref().map(|x| x.to_value()),
        ])
    }
}
impl FromValue for Tt4mddme3 {
    fn from_value(v: &Value) -> Self {
        let s = match v { Value::Seq(s) => s, other => panic!("Tt4mddme3: expected Seq, got {other:?}") };
        assert_eq!(s.len(), 4, "Tt4mddme3: component count");
        let _ = s;
        Tt4mddme3 {
            f0: FromValue::from_value(s[0].as_ref().expect("component f0 of Tt4mddme3 must be present")),
            f1: FromValue::from_value(s[1].as_ref().expect("component f1 of Tt4mddme3 must be present")),
            f2: FromValue::from_value(s[2].as_ref().expect("component f2 of Tt4mddme3 must be present")),
            f3: s[3].as_ref().map(FromValue::from_value),
        }
    }
}
impl ToValue for Tt4mddme3 {
    fn to_value(&self) -> Value {
        Value::Seq(vec![
            Some(self.f0.to_value()),
            Some(self.f1.to_value()),
            Some(self.f2.to_value()),
            self.f3.as_ref().map(|x| x.to_value()),
        ])
    }
}
impl FromValue for Tt4mddme4 {
    fn from_value(v: &Value) -> Self {
        let s = match v { Value::Seq(s) => s, other => panic!("Tt4mddme4: expected Seq, got {other:?}") };
        assert_eq!(s.len(), 4, "Tt4mddme4: component count");
        let _ = s;
        Tt4mddme4 {
            f0: FromValue::from_value(s[0].as_ref().expect("component f0 of Tt4mddme4 must be present")),
            f1: FromValue::from_value(s[1].as_ref().expect("component f1 of Tt4mddme4 must be present")),
            f2: FromValue::from_value(s[2].as_ref().expect("component f2 of Tt4mddme4 must be present")),
            f3: FromValue::from_value(s[3].as_ref().expect("component f3 of Tt4mddme4 must be present")),
        }
    }
}
impl ToValue for Tt4mddme4 {
    fn to_value(&self) -> Value {
        Value::Seq(vec![
            Some(self.f0.to_value()),
            Some(self.f1.to_value()),
            Some(self.f2.to_value()),
            Some(self.f3.to_value()),
        ])
    }
}
impl FromValue for Tt4oddmn {
    fn from_value(v: &Value) -> Self {
        let s = match v { Value::Seq(s) => s, other => panic!("Tt4oddmn: expected Seq, got {other:?}") };
        assert_eq!(s.len(), 4, "Tt4oddmn: component count");
        let _ = s;
        Tt4oddmn {
            f0: s[0].as_ref().map(FromValue::from_value),
            f1: FromValue::from_value(s[1].as_ref().expect("component f1 of Tt4oddmn must be present")),
            f2: FromValue::from_value(s[2].as_ref().expect("component f2 of Tt4oddmn must be present")),
            f3: FromValue::from_value(s[3].as_ref().expect("component f3 of Tt4oddmn must be present")),
        }
    }
}
impl ToValue for Tt4oddmn {
    fn to_value(&self) -> Value {
        Value::Seq(vec![
            self.f0.as_ref().map(|x| x.to_value()),
            Some(self.f1.to_value()),
            Some(self.f2.to_value()),
            Some(self.f3.to_value()),
        ])
    }
}
impl FromValue for Tt4oddme0 {
    fn from_value(v: &Value) -> Self {
        let s = match v { Value::Seq(s) => s, other => panic!("Tt4oddme0: expected Seq, got {other:?}") };
        assert_eq!(s.len(), 4, "Tt4oddme0: component count");
        let _ = s;
        Tt4oddme0 {
            f0: s[0].as_ref().map(FromValue::from_value),
            f1: FromValue::from_value(s[1].as_ref().expect("component f1 of Tt4oddme0 must be present")),
            f2: FromValue::from_value(s[2].as_ref().expect("component f2 of Tt4oddme0 must be present")),
            f3: s[3].as_ref().map(FromValue::from_value),
        }
    }
}
impl ToValue for Tt4oddme0 {
    fn to_value(&self) -> Value {
        Value::Seq(vec![
            self.f0.as_ref().map(|x| x.to_value()),
            Some(self.f1.to_value()),
            Some(self.f2.to_value()),
            self.f3.as_ref().map(|x| x.to_value()),
        ])
    }
}
impl FromValue for Tt4oddme1 {
    fn from_value(v: &Value) -> Self {
        let s = match v { Value::Seq(s) => s, other => panic!("Tt4oddme1: expected Seq, got {other:?}") };
        assert_eq!(s.len(), 4, "Tt4oddme1: component count");
        let _ = s;
        Tt4oddme1 {
            f0: s[0].as_ref().map(FromValue::from_value),
            f1: FromValue::from_value(s[1].as_ref().expect("component f1 of Tt4oddme1 must be present")),
            f2: FromValue::from_value(s[2].as_ref().expect("component f2 of Tt4oddme1 must be present")),
            f3: s[3].as_ref().map(FromValue::from_value),
        }
    }
}
impl ToValue for Tt4oddme1 {
    fn to_value(&self) -> Value {
        Value::Seq(vec![
            self.f0.as_ref().map(|x| x.to_value()),
            Some(self.f1.to_value()),
            Some(self.f2.to_value()),
            self.f3.as_ref().map(|x| x.to_value()),
        ])
    }
}
impl FromValue for Tt4oddme2 {
    fn from_value(v: &Value) -> Self {
        let s = match v { Value::Seq(s) => s, other => panic!("Tt4oddme2: expected Seq, got {other:?}") };
        assert_eq!(s.len(), 4, "Tt4oddme2: component count");
        let _ = s;
        Tt4oddme2 {
            f0: s[0].as_ref().map(FromValue::from_value),
            f1: FromValue::from_value(s[1].as_ref().expect("component f1 of Tt4oddme2 must be present")),
            f2: FromValue::from_value(s[2].as_ref().expect("component f2 of Tt4oddme2 must be present")),
            f3: s[3].as_ref().map(FromValue::from_value),
        }
    }
}
impl ToValue for Tt4oddme2 {
    fn to_value(&self) -> Value {
        Value::Seq(vec![
            self.f0.as_ref().map(|x| x.to_value()),
            Some(self.f1.to_value()),
            Some(self.f2.to_value()),
            self.f3.as_ref().map(|x| x.to_value()),
        ])
    }
}
impl FromValue for Tt4oddme3 {
    fn from_value(v: &Value) -> Self {
        let s = match v { Value::Seq(s) => s, other => panic!("Tt4oddme3: expected Seq, got {other:?}") };
        assert_eq!(s.len(), 4, "Tt4oddme3: component count");
        let _ = s;
        Tt4oddme3 {
            f0: s[0].as_ref().map(FromValue::from_value),
            f1: FromValue::from_value(s[1].as_ref().expect("component f1 of Tt4oddme3 must be present")),
            f2: FromValue::from_value(s[2].as_ref().expect("component f2 of Tt4oddme3 must be present")),
            f3: s[3].as_ref().map(FromValue::from_value),
        }
    }
}
impl ToValue for Tt4oddme3 {
    fn to_value(&self) -> Value {
        Value::Seq(vec![
            self.f0.as_ref().map(|x| x.to_value()),
            Some(self.f1.to_value()),
            Some(self.f2.to_value()),
            self.f3.as_ref().map(|x| x.to_value()),
        ])
    }
}
impl FromValue for Tt4oddme4 {
    fn from_value(v: &Value) -> Self {
        let s = match v { Value::Seq(s) => s, other => panic!("Tt4oddme4: expected Seq, got {other:?}") };
        assert_eq!(s.len(), 4, "Tt4oddme4: component count");
        let _ = s;
        Tt4oddme4 {
            f0: s[0].as_ref().map(FromValue::from_value),
            f1: FromValue::from_value(s[1].as_ref().expect("component f1 of Tt4oddme4 must be present")),
            f2: FromValue::from_value(s[2].as_ref().expect("component f2 of Tt4oddme4 must be present")),
            f3: FromValue::from_value(s[3].as_ref().expect("component f3 of Tt4oddme4 must be present")),
        }
    }
}
impl ToValue for Tt4oddme4 {
    fn to_value(&self) -> Value {
        Value::Seq(vec![
            self.f0.as_ref().map(|x| x.to_value()),
            Some(self.f1.to_value()),
            Some(self.f2.to_value()),
            Some(self.f3.to_value()),
        ])
    }
}
impl FromValue for Tt4dddmn {
    fn from_value(v: &Value) -> Self {
        let s = match v { Value::Seq(s) => s, other => panic!("Tt4dddmn: expected Seq, got {other:?}") };
        assert_eq!(s.len(), 4, "Tt4dddmn: component count");
        let _ = s;
        Tt4dddmn {
            f0: FromValue::from_value(s[0].as_ref().expect("component f0 of Tt4dddmn must be present")),
            f1: FromValue::from_value(s[1].as_ref().expect("component f1 of Tt4dddmn must be present")),
            f2: FromValue::from_value(s[2].as_ref().expect("component f2 of Tt4dddmn must be present")),
            f3: FromValue::from_value(s[3].as_ref().expect("component f3 of Tt4dddmn must be present")),
        }
    }
}
impl ToValue for Tt4dddmn {
    fn to_value(&self) -> Value {
        Value::Seq(vec![
            Some(self.f0.to_value()),
            Some(self.f1.to_value()),
            Some(self.f2.to_value()),
            Some(self.f3.to_value()),
        ])
    }
}
impl FromValue for Tt4dddme0 {
    fn from_value(v: &Value) -> Self {
        let s = match v { Value::Seq(s) => s, other => panic!("Tt4dddme0: expected Seq, got {other:?}") };
        assert_eq!(s.len(), 4, "Tt4dddme0: component count");
        let _ = s;
        Tt4dddme0 {
            f0: FromValue::from_value(s[0].as_ref().expect("component f0 of Tt4dddme0 must be present")),
            f1: FromValue::from_value(s[1].as_ref().expect("component f1 of Tt4dddme0 must be present")),
            f2: FromValue::from_value(s[2].as_ref().expect("component f2 of Tt4dddme0 must be present")),
            f3: s[3].as_ref().map(FromValue::from_value),
        }
    }
}
impl ToValue for Tt4dddme0 {
    fn to_value(&self) -> Value {
        Value::Seq(vec![
            Some(self.f0.to_value()),
            Some(self.f1.to_value()),
            Some(self.f2.to_value()),
            self.f3.as_ref().map(|x| x.to_value()),
        ])
    }
}
impl FromValue for Tt4dddme1 {
    fn from_value(v: &Value) -> Self {
        let s = match v { Value::Seq(s) => s, other => panic!("Tt4dddme1: expected Seq, got {other:?}") };
        assert_eq!(s.len(), 4, "Tt4dddme1: component count");
        let _ = s;
        Tt4dddme1 {
            f0: FromValue::from_value(s[0].as_ref().expect("component f0 of Tt4dddme1 must be present")),
            f1: FromValue::from_value(s[1].as_ref().expect("component f1 of Tt4dddme1 must be present")),
            f2: FromValue::from_value(s[2].as_ref().expect("component f2 of Tt4dddme1 must be present")),
            f3: s[3].as_ref().map(FromValue::from_value),
        }
    }
}
impl ToValue for Tt4dddme1 {
    fn to_value(&self) -> Value {
        Value::Seq(vec![
            Some(self.f0.to_value()),
            Some(self.f1.to_value()),
            Some(self.f2.to_value()),
            self.f3.as_ref().map(|x| x.to_value()),
        ])
    }
}
impl FromValue for Tt4dddme2 {
    fn from_value(v: &Value) -> Self {
        let s = match v { Value::Seq(s) => s, other => panic!("Tt4dddme2: expected Seq, got {other:?}") };
        assert_eq!(s.len(), 4, "Tt4dddme2: component count");
        let _ = s;
        Tt4dddme2 {
            f0: FromValue::from_value(s[0].as_ref().expect("component f0 of Tt4dddme2 must be present")),
            f1: FromValue::from_value(s[1].as_ref().expect("component f1 of Tt4dddme2 must be present")),
            f2: FromValue::from_value(s[2].as_ref().expect("component f2 of Tt4dddme2 must be present")),
            f3: s[3].as_ref().map(FromValue::from_value),
        }
    }
}
impl ToValue for Tt4dddme2 {
    fn to_value(&self) -> Value {
        Value::Seq(vec![
            Some(self.f0.to_value()),
            Some(self.f1.to_value()),
            Some(self.f2.to_value()),
            self.f3.as_ref().map(|x| x.to_value()),
        ])
    }
}
impl FromValue for Tt4dddme3 {
    fn from_value(v: &Value) -> Self {
        let s = match v { Value::Seq(s) => s, other => panic!("Tt4dddme3: expected Seq, got {other:?}") };
        assert_eq!(s.len(), 4, "Tt4dddme3: component count");
        let _ = s;
        Tt4dddme3 {
            f0: FromValue::from_value(s[0].as_ref().expect("component f0 of Tt4dddme3 must be present")),
            f1: FromValue::from_value(s[1].as_ref().expect("component f1 of Tt4dddme3 must be present")),
            f2: FromValue::from_value(s[2].as_ref().expect("component f2 of Tt4dddme3 must be present")),
            f3: s[3].as_ref().map(FromValue::from_value),
        }
    }
}
impl ToValue for Tt4dddme3 {
    fn to_value(&self) -> Value {
        Value::Seq(vec![
            Some(self.f0.to_value()),
            Some(self.f1.to_value()),
            Some(self.f2.to_value()),
            self.f3.as_ref().map(|x| x.to_value()),
        ])
    }
}
impl FromValue for Tt4dddme4 {
    fn from_value(v: &Value) -> Self {
        let s = match v { Value::Seq(s) => s, other => panic!("Tt4dddme4: expected Seq, got {other:?}") };
        assert_eq!(s.len(), 4, "Tt4dddme4: component count");
        let _ = s;
        Tt4dddme4 {
            f0: FromValue::from_value(s[0].as_ref().expect("component f0 of Tt4dddme4 must be present")),
            f1: FromValue::from_value(s[1].as_ref().expect("component f1 of Tt4dddme4 must be present")),
            f2: FromValue::from_value(s[2].as_ref().expect("component f2 of Tt4dddme4 must be present")),
            f3: FromValue::from_value(s[3].as_ref().expect("component f3 of Tt4dddme4 must be present")),
        }
    }
}
impl ToValue for Tt4dddme4 {
    fn to_value(&self) -> Value {
        Value::Seq(vec![
            Some(self.f0.to_value()),
            Some(self.f1.to_value()),
            Some(self.f2.to_value()),
            Some(self.f3.to_value()),
        ])
    }
}
impl FromValue for Tt4mmmon {
    fn from_value(v: &Value) -> Self {
        let s = match v { Value::Seq(s) => s, other => panic!("Tt4mmmon: expected Seq, got {other:?}") };
        assert_eq!(s.len(), 4, "Tt4mmmon: component count");
        let _ = s;
        Tt4mmmon {
            f0: FromValue::from_value(s[0].as_ref().expect("component f0 of Tt4mmmon must be present")),
            f1: FromValue::from_value(s[1].as_ref().expect("component f1 of Tt4mmmon must be present")),
            f2: FromValue::from_value(s[2].as_ref().expect("component f2 of Tt4mmmon must be present")),
            f3: s[3].as_ref().map(FromValue::from_value),
        }
    }
}
impl ToValue for Tt4mmmon {
    fn to_value(&self) -> Value {
        Value::Seq(vec![
            Some(self.f0.to_value()),
            Some(self.f1.to_value()),
            Some(self.f2.to_value()),
            self.f3.as_ref().map(|x| x.to_value()),
        ])
    }
}
impl FromValue for Tt4mmmoe0 {
    fn from_value(v: &Value) -> Self {
        let s = match v { Value::Seq(s) => s, other => panic!("Tt4mmmoe0: expected Seq, got {other:?}") };
        assert_eq!(s.len(), 4, "Tt4mmmoe0: component count");
        let _ = s;
        Tt4mmmoe0 {
            f0: FromValue::from_value(s[0].as_ref().expect("component f0 of Tt4mmmoe0 must be present")),
            f1: s[1].as_ref().map(FromValue::from_value),
            f2: s[2].as_ref().map(FromValue::from_value),
            f3: s[3].as_ref().map(FromValue::from_value),
        }
    }
}
impl ToValue for Tt4mmmoe0 {
    fn to_value(&self) -> Value {
        Value::Seq(vec![
            Some(self.f0.to_value()),
            self.f1.as_ref().map(|x| x.to_value()),
            self.f2.as_ref().map(|x| x.to_value()),
            self.f3.as_ref().map(|x| x.to_value()),
        ])
    }
}
impl FromValue for Tt4mmmoe1 {
    fn from_value(v: &Value) -> Self {
        let s = match v { Value::Seq(s) => s, other => panic!("Tt4mmmoe1: expected Seq, got {other:?}") };
        assert_eq!(s.len(), 4, "Tt4mmmoe1: component count");
        let _ = s;
        Tt4mmmoe1 {
            f0: FromValue::from_value(s[0].as_ref().expect("component f0 of Tt4mmmoe1 must be present")),
            f1: s[1].as_ref().map(FromValue::from_value),
            f2: s[2].as_ref().map(FromValue::from_value),
            f3: s[3].as_ref().map(FromValue::from_value),
        }
    }
}
impl ToValue for Tt4mmmoe1 {
    fn to_value(&self) -> Value {
        Value::Seq(vec![
            Some(self.f0.to_value()),
            self.f1.as_ref().map(|x| x.to_value()),
            self.f2.as_ref().map(|x| x.to_value()),
            self.f3.as_ref().map(|x| x.to_value()),
        ])
    }
}
impl FromValue for Tt4mmmoe2 {
    fn from_value(v: &Value) -> Self {
        let s = match v { Value::Seq(s) => s, other => panic!("Tt4mmmoe2: expected Seq, got {other:?}") };
        assert_eq!(s.len(), 4, "Tt4mmmoe2: component count");
        let _ = s;
        Tt4mmmoe2 {
            f0: FromValue::from_value(s[0].as_ref().expect("component f0 of Tt4mmmoe2 must be present")),
            f1: FromValue::from_value(s[1].as_ref().expect("component f1 of Tt4mmmoe2 must be present")),
            f2: s[2].as_ref().map(FromValue::from_value),
            f3: s[3].as_ref().map(FromValue::from_value),
        }
    }
}
impl ToValue for Tt4mmmoe2 {
    fn to_value(&self) -> Value {
        Value::Seq(vec![
            Some(self.f0.to_value()),
            Some(self.f1.to_value()),
            self.f2.as_ref().map(|x| x.to_value()),
            self.f3.as_ref().map(|x| x.to_value()),
        ])
    }
}
impl FromValue for Tt4mmmoe3 {
    fn from_value(v: &Value) -> Self {
        let s = match v { Value::Seq(s) => s, other => panic!("Tt4mmmoe3: expected Seq, got {other:?}") };
        assert_eq!(s.len(), 4, "Tt4mmmoe3: component count");
        let _ = s;
        Tt4mmmoe3 {
            f0: FromValue::from_value(s[0].as_ref().expect("component f0 of Tt4mmmoe3 must be present")),
            f1: FromValue::from_value(s[1].as_ref().expect("component f1 of Tt4mmmoe3 must be present")),
            f2: FromValue::from_value(s[2].as_ref().expect("component f2 of Tt4mmmoe3 must be present")),
            f3: s[3].as_ref().map(FromValue::from_value),
        }
    }
}
impl ToValue for Tt4mmmoe3 {
    fn to_value(&self) -> Value {
        Value::Seq(vec![
            Some(self.f0.to_value()),
            Some(self.f1.to_value()),
            Some(self.f2.to_value()),
            self.f3.as_ref().map(|x| x.to_value()),
        ])
    }
}
impl FromValue for Tt4mmmoe4 {
    fn from_value(v: &Value) -> Self {
        let s = match v { Value::Seq(s) => s, other => panic!("Tt4mmmoe4: expected Seq, got {other:?}") };
        assert_eq!(s.len(), 4, "Tt4mmmoe4: component count");
        let _ = s;
        Tt4mmmoe4 {
            f0: FromValue::from_value(s[0].as_ref().expect("component f0 of Tt4mmmoe4 must be present")),
            f1: FromValue::from_value(s[1].as_ref().expect("component f1 of Tt4mmmoe4 must be present")),
            f2: FromValue::from_value(s[2].as_ref().expect("component f2 of Tt4mmmoe4 must be present")),
            f3: s[3].as_ref().map(FromValue::from_value),
        }
    }
}
impl ToValue for Tt4mmmoe4 {
    fn to_value(&self) -> Value {
        Value::Seq(vec![
            Some(self.f0.to_value()),
            Some(self.f1.to_value()),
            Some(self.f2.to_value()),
            self.f3.as_ref().map(|x| x.to_value()),
        ])
    }
}
impl FromValue for Tt4ommon {
    fn from_value(v: &Value) -> Self {
        let s = match v { Value::Seq(s) => s, other => panic!("Tt4ommon: expected Seq, got {other:?}") };
        assert_eq!(s.len(), 4, "Tt4ommon: component count");
        let _ = s;
        Tt4ommon {
            f0: s[0].as_ref().map(FromValue::from_value),
            f1: FromValue::from_value(s[1].as_ref().expect("component f1 of Tt4ommon must be present")),
            f2: FromValue::from_value(s[2].as_ref().expect("component f2 of Tt4ommon must be present")),
            f3: s[3].as_ref().map(FromValue::from_value),
        }
    }
}
impl ToValue for Tt4ommon {
    fn to_value(&self) -> Value {
        Value::Seq(vec![
            self.f0.as_ref().map(|x| x.to_value()),
            Some(self.f1.to_value()),
            Some(self.f2.to_value()),
            self.f3.as_ref().map(|x| x.to_value()),
        ])
    }
}
impl FromValue for Tt4ommoe0 {
    fn from_value(v: &Value) -> Self {
        let s = match v { Value::Seq(s) => s, other => panic!("Tt4ommoe0: expected Seq, got {other:?}") };
        assert_eq!(s.len(), 4, "Tt4ommoe0: component count");
        let _ = s;
        Tt4ommoe0 {
            f0: s[0].as_ref().map(FromValue::from_value),
            f1: s[1].as_ref().map(FromValue::from_value),
            f2: s[2].as_ref().map(FromValue::from_value),
            f3: s[3].as_ref().map(FromValue::from_value),
        }
    }
}
impl ToValue for Tt4ommoe0 {
    fn to_value(&self) -> Value {
        Value::Seq(vec![
            self.f0.as_ref().map(|x| x.to_value()),
            self.f1.as_ref().map(|x| x.to_value()),
            self.f2.as_ref().map(|x| x.to_value()),
            self.f3.as_ref().map(|x| x.to_value()),
        ])
    }
}
impl FromValue for Tt4ommoe1 {
    fn from_value(v: &Value) -> Self {
        let s = match v { Value::Seq(s) => s, other => panic!("Tt4ommoe1: expected Seq, got {other:?}") };
        assert_eq!(s.len(), 4, "Tt4ommoe1: component count");
        let _ = s;
        Tt4ommoe1 {
            f0: s[0].as_ref().map(FromValue::from_value),
            f1: s[1].as_ref().map(FromValue::from_value),
            f2: s[2].as_ref().map(FromValue::from_value),
            f3: s[3].as_ref().map(FromValue::from_value),
        }
    }
}
impl ToValue for Tt4ommoe1 {
    fn to_value(&self) -> Value {
        Value::Seq(vec![
            self.f0.as_ref().map(|x| x.to_value()),
            self.f1.as_ref().map(|x| x.to_value()),
            self.f2.as_ref().map(|x| x.to_value()),
            self.f3.as_ref().map(|x| x.to_value()),
        ])
    }
}
impl FromValue for Tt4ommoe2 {
    fn from_value(v: &Value) -> Self {
        let s = match v { Value::Seq(s) => s, other => panic!("Tt4ommoe2: expected Seq, got {other:?}") };
        assert_eq!(s.len(), 4, "Tt4ommoe2: component count");
        let _ = s;
        Tt4ommoe2 {
            f0: s[0].as_ref().map(FromValue::from_value),
            f1: FromValue::from_value(s[1].as_ref().expect("component f1 of Tt4ommoe2 must be present")),
            f2: s[2].as_ref().map(FromValue::from_value),
            f3: s[3].as_ref().map(FromValue::from_value),
        }
    }
}
impl ToValue for Tt4ommoe2 {
    fn to_value(&self) -> Value {
        Value::Seq(vec![
            self.f0.as_ref().map(|x| x.to_value()),
            Some(self.f1.to_value()),
            self.f2.as_ref().map(|x| x.to_value()),
            self.f3.as_ref().map(|x| x.to_value()),
        ])
    }
}
impl FromValue for Tt4ommoe3 {
    fn from_value(v: &Value) -> Self {
        let s = match v { Value::Seq(s) => s, other => panic!("Tt4ommoe3: expected Seq, got {other:?}") };
        assert_eq!(s.len(), 4, "Tt4ommoe3: component count");
        let _ = s;
        Tt4ommoe3 {
            f0: s[0].as_ref().map(FromValue::from_value),
            f1: FromValue::from_value(s[1].as_ref().expect("component f1 of Tt4ommoe3 must be present")),
            f2: FromValue::from_value(s[2].as_ref().expect("component f2 of Tt4ommoe3 must be present")),
            f3: s[3].as_ref().map(FromValue::from_value),
        }
    }
}
impl ToValue for Tt4ommoe3 {
    fn to_value(&self) -> Value {
        Value::Seq(vec![
            self.f0.as_ref().map(|x| x.to_value()),
            Some(self.f1.to_value()),
            Some(self.f2.to_value()),
            self.f3.as_ref().map(|x| x.to_value()),
        ])
    }
}
impl FromValue for Tt4ommoe4 {
    fn from_value(v: &Value) -> Self {
        let s = match v { Value::Seq(s) => s, other => panic!("Tt4ommoe4: expected Seq, got {other:?}") };
        assert_eq!(s.len(), 4, "Tt4ommoe4: component count");
        let _ = s;
        Tt4ommoe4 {
            f0: s[0].as_ref().map(FromValue::from_value),
            f1: FromValue::from_value(s[1].as_ref().expect("component f1 of Tt4ommoe4 must be present")),
            f2: FromValue::from_value(s[2].as_ref().expect("component f2 of Tt4ommoe4 must be present")),
            f3: s[3].as_ref().map(FromValue::from_value),
        }
    }
}
impl ToValue for Tt4ommoe4 {
    fn to_value(&self) -> Value {
        Value::Seq(vec![
            self.f0.as_ref().map(|x| x.to_value()),
            Some(self.f1.to_value()),
            Some(self.f2.to_value()),
            self.f3.as_ref().map(|x| x.to_value()),
        ])
    }
}
impl FromValue for Tt4dmmon {
    fn from_value(v: &Value) -> Self {
        let s = match v { Value::Seq(s) => s, other => panic!("Tt4dmmon: expected Seq, got {other:?}") };
        assert_eq!(s.len(), 4, "Tt4dmmon: component count");
        let _ = s;
        Tt4dmmon {
            f0: FromValue::from_value(s[0].as_ref().expect("component f0 of Tt4dmmon must be present")),
            f1: FromValue::from_value(s[1].as_ref().expect("component f1 of Tt4dmmon must be present")),
            f2: FromValue::from_value(s[2].as_ref().expect("component f2 of Tt4dmmon must be present")),
            f3: s[3].as_ref().map(FromValue::from_value),
        }
    }
}
impl ToValue for Tt4dmmon {
    fn to_value(&self) -> Value {
        Value::Seq(vec![
            Some(self.f0.to_value()),
            Some(self.f1.to_value()),
            Some(self.f2.to_value()),
            self.f3.as_ref().map(|x| x.to_value()),
        ])
    }
}
impl FromValue for Tt4dmmoe0 {
    fn from_value(v: &Value) -> Self {
        let s = match v { Value::Seq(s) => s, other => panic!("Tt4dmmoe0: expected Seq, got {other:?}") };
        assert_eq!(s.len(), 4, "Tt4dmmoe0: component count");
        let _ = s;
        Tt4dmmoe0 {
            f0: FromValue::from_value(s[0].as_ref().expect("component f0 of Tt4dmmoe0 must be present")),
            f1: s[1].as_ref().map(FromValue::from_value),
            f2: s[2].as_ref().map(FromValue::from_value),
            f3: s[3].as_ref().map(FromValue::from_value),
        }
    }
}
impl ToValue for Tt4dmmoe0 {
    fn to_value(&self) -> Value {
        Value::Seq(vec![
            Some(self.f0.to_value()),
            self.f1.as_ref().map(|x| x.to_value()),
            self.f2.as_ref().map(|x| x.to_value()),
            self.f3.as_ref().map(|x| x.to_value()),
        ])
    }
}
impl FromValue for Tt4dmmoe1 {
    fn from_value(v: &Value) -> Self {
        let s = match v { Value::Seq(s) => s, other => panic!("Tt4dmmoe1: expected Seq, got {other:?}") };
        assert_eq!(s.len(), 4, "Tt4dmmoe1: component count");
        let _ = s;
        Tt4dmmoe1 {
            f0: FromValue::from_value(s[0].as_ref().expect("component f0 of Tt4dmmoe1 must be present")),
            f1: s[1].as_ref().map(FromValue::from_value),
            f2: s[2].as_ref().map(FromValue::from_value),
            f3: s[3].as_ref().map(FromValue::from_value),
        }
    }
}
impl ToValue for Tt4dmmoe1 {
    fn to_value(&self) -> Value {
        Value::Seq(vec![
            Some(self.f0.to_value()),
            self.f1.as_ref().map(|x| x.to_value()),
            self.f2.as_ref().map(|x| x.to_value()),
            self.f3.as_ref().map(|x| x.to_value()),
        ])
    }
}
impl FromValue for Tt4dmmoe2 {
    fn from_value(v: &Value) -> Self {
        let s = match v { Value::Seq(s) => s, other => panic!("Tt4dmmoe2: expected Seq, got {other:?}") };
        assert_eq!(s.len(), 4, "Tt4dmmoe2: component count");
        let _ = s;
        Tt4dmmoe2 {
            f0: FromValue::from_value(s[0].as_ref().expect("component f0 of Tt4dmmoe2 must be present")),
            f1: FromValue::from_value(s[1].as_ref().expect("component f1 of Tt4dmmoe2 must be present")),
            f2: s[2].as_ref().map(FromValue::from_value),
            f3: s[3].as_ref().map(FromValue::from_value),
        }
    }
}
impl ToValue for Tt4dmmoe2 {
    fn to_value(&self) -> Value {
        Value::Seq(vec![
            Some(self.f0.to_value()),
            Some(self.f1.to_value()),
            self.f2.as_ref().map(|x| x.to_value()),
            self.f3.as_ref().map(|x| x.to_value()),
        ])
    }
}
impl FromValue for Tt4dmmoe3 {
    fn from_value(v: &Value) -> Self {
        let s = match v { Value::Seq(s) => s, other => panic!("Tt4dmmoe3: expected Seq, got {other:?}") };
        assert_eq!(s.len(), 4, "Tt4dmmoe3: component count");
        let _ = s;
        Tt4dmmoe3 {
            f0: FromValue::from_value(s[0].as_ref().expect("component f0 of Tt4dmmoe3 must be present")),
            f1: FromValue::from_value(s[1].as_ref().expect("component f1 of Tt4dmmoe3 must be present")),
            f2: FromValue::from_value(s[2].as_ref().expect("component f2 of Tt4dmmoe3 must be present")),
            f3: s[3].as_ref().map(FromValue::from_value),
        }
    }
}
impl ToValue for Tt4dmmoe3 {
    fn to_value(&self) -> Value {
        Value::Seq(vec![
            Some(self.f0.to_value()),
            Some(self.f1.to_value()),
            Some(self.f2.to_value()),
            self.f3.as_ref().map(|x| x.to_value()),
        ])
    }
}
impl FromValue for Tt4dmmoe4 {
    fn from_value(v: &Value) -> Self {
        let s = match v { Value::Seq(s) => s, other => panic!("Tt4dmmoe4: expected Seq, got {other:?}") };
        assert_eq!(s.len(), 4, "Tt4dmmoe4: component count");
        let _ = s;
        Tt4dmmoe4 {
            f0: FromValue::from_value(s[0].as_ref().expect("component f0 of Tt4dmmoe4 must be present")),
            f1: FromValue::from_value(s[1].as_ref().expect("component f1 of Tt4dmmoe4 must be present")),
            f2: FromValue::from_value(s[2].as_ref().expect("component f2 of Tt4dmmoe4 must be present")),
            f3: s[3].as_ref().map(FromValue::from_value),
        }
    }
}
impl ToValue for Tt4dmmoe4 {
    fn to_value(&self) -> Value {
        Value::Seq(vec![
            Some(self.f0.to_value()),
            Some(self.f1.to_value()),
            Some(self.f2.to_value()),
            self.f3.as_ref().map(|x| x.to_value()),
        ])
    }
}
impl FromValue for Tt4momon {
    fn from_value(v: &Value) -> Self {
        let s = match v { Value::Seq(s) => s, other => panic!("Tt4momon: expected Seq, got {other:?}") };
        assert_eq!(s.len(), 4, "Tt4momon: component count");
        let _ = s;
        Tt4momon {
            f0: FromValue::from_value(s[0].as_ref().expect("component f0 of Tt4momon must be present")),
            f1: s[1].as_ref().map(FromValue::from_value),
            f2: FromValue::from_value(s[2].as_ref().expect("component f2 of Tt4momon must be present")),
            f3: s[3].as_ref().map(FromValue::from_value),
        }
    }
}
impl ToValue for Tt4momon {
    fn to_value(&self) -> Value {
        Value::Seq(vec![
            Some(self.f0.to_value()),
            self.f1.as_ref().map(|x| x.to_value()),
            Some(self.f2.to_value()),
            self.f3.as_ref().map(|x| x.to_value()),
        ])
    }
}
impl FromValue for Tt4momoe0 {
    fn from_value(v: &Value) -> Self {
        let s = match v { Value::Seq(s) => s, other => panic!("Tt4momoe0: expected Seq, got {other:?}") };
        assert_eq!(s.len(), 4, "Tt4momoe0: component count");
        let _ = s;
        Tt4momoe0 {
            f0: FromValue::from_value(s[0].as_ref().expect("component f0 of Tt4momoe0 must be present")),
            f1: s[1].as_ref().map(FromValue::from_value),
            f2: s[2].as_ref().map(FromValue::from_value),
            f3: s[3].as_ref().map(FromValue::from_value),
        }
    }
}
impl ToValue for Tt4momoe0 {
    fn to_value(&self) -> Value {
        Value::Seq(vec![
            Some(self.f0.to_value()),
            self.f1.as_ref().map(|x| x.to_value()),
            self.f2.as_ref().map(|x| x.to_value()),
            self.f3.as_ref().map(|x| x.to_value()),
        ])
    }
}
impl FromValue for Tt4momoe1 {
    fn from_value(v: &Value) -> Self {
        let s = match v { Value::Seq(s) => s, other => panic!("Tt4momoe1: expected Seq, got {other:?}") };
        assert_eq!(s.len(), 4, "Tt4momoe1: component count");
        let _ = s;
        Tt4momoe1 {
            f0: FromValue::from_value(s[0].as_ref().expect("component f0 of Tt4momoe1 must be present")),
            f1: s[1].as_ref().map(FromValue::from_value),
            f2: s[2].as_ref().map(FromValue::from_value),
            f3: s[3].as_ref().map(FromValue::from_value),
        }
    }
}
impl ToValue for Tt4momoe1 {
    fn to_value(&self) -> Value {
        Value::Seq(vec![
            Some(self.f0.to_value()),
            self.f1.as_ref().map(|x| x.to_value()),
            self.f2.as_ref().map(|x| x.to_value()),
            self.f3.as_ref().map(|x| x.to_value()),
        ])
    }
}
impl FromValue for Tt4momoe2 {
    fn from_value(v: &Value) -> Self {
        let s = match v { Value::Seq(s) => s, other => panic!("Tt4momoe2: expected Seq, got {other:?}") };
        assert_eq!(s.len(), 4, "Tt4momoe2: component count");
        let _ = s;
        Tt4momoe2 {
            f0: FromValue::from_value(s[0].as_ref().expect("component f0 of Tt4momoe2 must be present")),
            f1: s[1].as_ref().map(FromValue::from_value),
            f2: s[2].as_ref().map(FromValue::from_value),
            f3: s[3].as_ref().map(FromValue::from_value),
        }
    }
}
impl ToValue for Tt4momoe2 {
    fn to_value(&self) -> Value {
        Value::Seq(vec![
            Some(self.f0.to_value()),
            self.f1.as_ref().map(|x| x.to_value()),
            self.f2.as_ref().map(|x| x.to_value()),
            self.f3.as_ref().map(|x| x.to_value()),
        ])
    }
}
impl FromValue for Tt4momoe3 {
    fn from_value(v: &Value) -> Self {
        let s = match v { Value::Seq(s) => s, other => panic!("Tt4momoe3: expected Seq, got {other:?}") };
        assert_eq!(s.len(), 4, "Tt4momoe3: component count");
        let _ = s;
        Tt4momoe3 {
            f0: FromValue::from_value(s[0].as_ref().expect("component f0 of Tt4momoe3 must be present")),
            f1: s[1].as_ref().map(FromValue::from_value),
            f2: FromValue::from_value(s[2].as_ref().expect("component f2 of Tt4momoe3 must be present")),
            f3: s[3].as_ref().map(FromValue::from_value),
        }
    }
}
impl ToValue for Tt4momoe3 {
    fn to_value(&self) -> Value {
        Value::Seq(vec![
            Some(self.f0.to_value()),
            self.f1.as_ref().map(|x| x.to_value()),
            Some(self.f2.to_value()),
            self.f3.as_ref().map(|x| x.to_value()),
        ])
    }
}
impl FromValue for Tt4momoe4 {
    fn from_value(v: &Value) -> Self {
        let s = match v { Value::Seq(s) => s, other => panic!("Tt4momoe4: expected Seq, got {other:?}") };
        assert_eq!(s.len(), 4, "Tt4momoe4: component count");
        let _ = s;
        Tt4momoe4 {
            f0: FromValue::from_value(s[0].as_ref().expect("component f0 of Tt4momoe4 must be present")),
            f1: s[1].as_ref().map(FromValue::from_value),
            f2: FromValue::from_value(s[2].as_ref().expect("component f2 of Tt4momoe4 must be present")),
            f3: s[3].as_ref().map(FromValue::from_value),
        }
    }
}
impl ToValue for Tt4momoe4 {
    fn to_value(&self) -> Value {
        Value::Seq(vec![
            Some(self.f0.to_value()),
            self.f1.as_ref().map(|x| x.to_value()),
            Some(self.f2.to_value()),
            self.f3.as_ref().map(|x| x.to_value()),
        ])
    }
}
impl FromValue for Tt4oomon {
    fn from_value(v: &Value) -> Self {
        let s = match v { Value::Seq(s) => s, other => panic!("Tt4oomon: expected Seq, got {other:?}") };
        assert_eq!(s.len(), 4, "Tt4oomon: component count");
        let _ = s;
        Tt4oomon {
            f0: s[0].as_ref().map(FromValue::from_value),
            f1: s[1].as_ref().map(FromValue::from_value),
            f2: FromValue::from_value(s[2].as_ref().expect("component f2 of Tt4oomon must be present")),
            f3: s[3].as_ref().map(FromValue::from_value),
        }
    }
}
impl ToValue for Tt4oomon {
    fn to_value(&self) -> Value {
        Value::Seq(vec![
            self.f0.as_ref().map(|x| x.to_value()),
            self.f1.as_ref().map(|x| x.to_value()),
            Some(self.f2.to_value()),
            self.f3.as_ref().map(|x| x.to_value()),
        ])
    }
}
impl FromValue for Tt4oomoe0 {
    fn from_value(v: &Value) -> Self {
        let s = match v { Value::Seq(s) => s, other => panic!("Tt4oomoe0: expected Seq, got {other:?}") };
        assert_eq!(s.len(), 4, "Tt4oomoe0: component count");
        let _ = s;
        Tt4oomoe0 {
            f0: s[0].as_ref().map(FromValue::from_value),
            f1: s[1].as_ref().map(FromValue::from_value),
            f2: s[2].as_ref().map(FromValue::from_value),
            f3: s[3].as_ref().map(FromValue::from_value),
        }
    }
}
impl ToValue for Tt4oomoe0 {
    fn to_value(&self) -> Value {
        Value::Seq(vec![
            self.f0.as_ref().map(|x| x.to_value()),
            self.f1.as_ref().map(|x| x.to_value()),
            self.f2.as_ref().map(|x| x.to_value()),
            self.f3.as_ref().map(|x| x.to_value()),
        ])
    }
}
impl FromValue for Tt4oomoe1 {
    fn from_value(v: &Value) -> Self {
        let s = match v { Value::Seq(s) => s, other => panic!("Tt4oomoe1: expected Seq, got {other:?}") };
        assert_eq!(s.len(), 4, "Tt4oomoe1: component count");
        let _ = s;
        Tt4oomoe1 {
            f0: s[0].as_ref().map(FromValue::from_value),
            f1: s[1].as_ref().map(FromValue::from_value),
            f2: s[2].as_ref().map(FromValue::from_value),
            f3: s[3].as_ref().map(FromValue::from_value),
        }
    }
}
impl ToValue for Tt4oomoe1 {
    fn to_value(&self) -> Value {
        Value::Seq(vec![
            self.f0.as_ref().map(|x| x.to_value()),
            self.f1.as_ref().map(|x| x.to_value()),
            self.f2.as_ref().map(|x| x.to_value()),
            self.f3.as_ref().map(|x| x.to_value()),
        ])
    }
}
impl FromValue for Tt4oomoe2 {
    fn from_value(v: &Value) -> Self {
        let s = match v { Value::Seq(s) => s, other => panic!("Tt4oomoe2: expected Seq, got {other:?}") };
        assert_eq!(s.len(), 4, "Tt4oomoe2: component count");
        let _ = s;
        Tt4oomoe2 {
            f0: s[0].as_ref().map(FromValue::from_value),
            f1: s[1].as_ref().map(FromValue::from_value),
            f2: s[2].as_ref().map(FromValue::from_value),
            f3: s[3].as_ref().map(FromValue::from_value),
        }
    }
}
impl ToValue for Tt4oomoe2 {
    fn to_value(&self) -> Value {
        Value::Seq(vec![
            self.f0.as_ref().map(|x| x.to_value()),
            self.f1.as_ref().map(|x| x.to_value()),
            self.f2.as_ref().map(|x| x.to_value()),
            self.f3.as_ref().map(|x| x.to_value()),
        ])
    }
}
impl FromValue for Tt4oomoe3 {
    fn from_value(v: &Value) -> Self {
        let s = match v { Value::Seq(s) => s, other => panic!("Tt4oomoe3: expected Seq, got {other:?}") };
        assert_eq!(s.len(), 4, "Tt4oomoe3: component count");
        let _ = s;
        Tt4oomoe3 {
            f0: s[0].as_ref().map(FromValue::from_value),
            f1: s[1].as_ref().map(FromValue::from_value),
            f2: FromValue::from_value(s[2].as_ref().expect("component f2 of Tt4oomoe3 must be present")),
            f3: s[3].as_ref().map(FromValue::from_value),
        }
    }
}
impl ToValue for Tt4oomoe3 {
    fn to_value(&self) -> Value {
        Value::Seq(vec![
            self.f0.as_ref().map(|x| x.to_value()),
            self.f1.as_ref().map(|x| x.to_value()),
            Some(self.f2.to_value()),
            self.f3.as_ref().map(|x| x.to_value()),
        ])
    }
}
impl FromValue for Tt4oomoe4 {
    fn from_value(v: &Value) -> Self {
        let s = match v { Value::Seq(s) => s, other => panic!("Tt4oomoe4: expected Seq, got {other:?}") };
        assert_eq!(s.len(), 4, "Tt4oomoe4: component count");
        let _ = s;
        Tt4oomoe4 {
            f0: s[0].as_ref().map(FromValue::from_value),
            f1: s[1].as_ref().map(FromValue::from_value),
            f2: FromValue::from_value(s[2].as_ref().expect("component f2 of Tt4oomoe4 must be present")),
            f3: s[3].as_ref().map(FromValue::from_value),
        }
    }
}
impl ToValue for Tt4oomoe4 {
    fn to_value(&self) -> Value {
        Value::Seq(vec![
            self.f0.as_ref().map(|x| x.to_value()),
            self.f1.as_ref().map(|x| x.to_value()),
            Some(self.f2.to_value()),
            self.f3.as_ref().map(|x| x.to_value()),
        ])
    }
}
impl FromValue for Tt4domon {
    fn from_value(v: &Value) -> Self {
        let s = match v { Value::Seq(s) => s, other => panic!("Tt4domon: expected Seq, got {other:?}") };
        assert_eq!(s.len(), 4, "Tt4domon: component count");
        let _ = s;
        Tt4domon {
            f0: FromValue::from_value(s[0].as_ref().expect("component f0 of Tt4domon must be present")),
            f1: s[1].as_ref().map(FromValue::from_value),
            f2: FromValue::from_value(s[2].as_ref().expect("component f2 of Tt4domon must be present")),
            f3: s[3].as_ref().map(FromValue::from_value),
        }
    }
}
impl ToValue for Tt4domon {
    fn to_value(&self) -> Value {
        Value::Seq(vec![
            Some(self.f0.to_value()),
            self.f1.as_ref().map(|x| x.to_value()),
            Some(self.f2.to_value()),
            self.f3.as_ref().map(|x| x.to_value()),
        ])
    }
}
impl FromValue for Tt4domoe0 {
    fn from_value(v: &Value) -> Self {
        let s = match v { Value::Seq(s) => s, other => panic!("Tt4domoe0: expected Seq, got {other:?}") };
        assert_eq!(s.len(), 4, "Tt4domoe0: component count");
        let _ = s;
        Tt4domoe0 {
            f0: FromValue::from_value(s[0].as_ref().expect("component f0 of Tt4domoe0 must be present")),
            f1: s[1].as_ref().map(FromValue::from_value),
            f2: s[2].as_ref().map(FromValue::from_value),
            f3: s[3].as_ref().map(FromValue::from_value),
        }
    }
}
impl ToValue for Tt4domoe0 {
    fn to_value(&self) -> Value {
        Value::Seq(vec![
            Some(self.f0.to_value()),
            self.f1.as_ref().map(|x| x.to_value()),
            self.f2.as_ref().map(|x| x.to_value()),
            self.f3.as_ref().map(|x| x.to_value()),
        ])
    }
}
impl FromValue for Tt4domoe1 {
    fn from_value(v: &Value) -> Self {
        let s = match v { Value::Seq(s) => s, other => panic!("Tt4domoe1: expected Seq, got {other:?}") };
        assert_eq!(s.len(), 4, "Tt4domoe1: component count");
        let _ = s;
        Tt4domoe1 {
            f0: FromValue::from_value(s[0].as_ref().expect("component f0 of Tt4domoe1 must be present")),
            f1: s[1].as_ref().map(FromValue::from_value),
            f2: s[2].as_ref().map(FromValue::from_value),
            f3: s[3].as_ref().map(FromValue::from_value),
        }
    }
}
impl ToValue for Tt4domoe1 {
    fn to_value(&self) -> Value {
        Value::Seq(vec![
            Some(self.f0.to_value()),
            self.f1.as_ref().map(|x| x.to_value()),
            self.f2.as_ref().map(|x| x.to_value()),
            self.f3.as_ref().map(|x| x.to_value()),
        ])
    }
}
impl FromValue for Tt4domoe2 {
    fn from_value(v: &Value) -> Self {
        let s = match v { Value::Seq(s) => s, other => panic!("Tt4domoe2: expected Seq, got {other:?}") };
        assert_eq!(s.len(), 4, "Tt4domoe2: component count");
        let _ = s;
        Tt4domoe2 {
            f0: FromValue::from_value(s[0].as_ref().expect("component f0 of Tt4domoe2 must be present")),
            f1: s[1].as_ref().map(FromValue::from_value),
            f2: s[2].as_ref().map(FromValue::from_value),
            f3: s[3].as_ref().map(FromValue::from_value),
        }
    }
}
impl ToValue for Tt4domoe2 {
    fn to_value(&self) -> Value {
        Value::Seq(vec![
            Some(self.f0.to_value()),
            self.f1.as_ref().map(|x| x.to_value()),
            self.f2.as_ref().map(|x| x.to_value()),
            self.f3.as_ref().map(|x| x.to_value()),
        ])
    }
}
impl FromValue for Tt4domoe3 {
    fn from_value(v: &Value) -> Self {
        let s = match v { Value::Seq(s) => s, other => panic!("Tt4domoe3: expected Seq, got {other:?}") };
        assert_eq!(s.len(), 4, "Tt4domoe3: component count");
        let _ = s;
        Tt4domoe3 {
            f0: FromValue::from_value(s[0].as_ref().expect("component f0 of Tt4domoe3 must be present")),
            f1: s[1].as_ref().map(FromValue::from_value),
            f2: FromValue::from_value(s[2].as_ref().expect("component f2 of Tt4domoe3 must be present")),
            f3: s[3].as_ref().map(FromValue::from_value),
        }
    }
}
impl ToValue for Tt4domoe3 {
    fn to_value(&self) -> Value {
        Value::Seq(vec![
            Some(self.f0.to_value()),
            self.f1.as_ref().map(|x| x.to_value()),
            Some(self.f2.to_value()),
            self.f3.as_ref().map(|x| x.to_value()),
        ])
    }
}
impl FromValue for Tt4domoe4 {
    fn from_value(v: &Value) -> Self {
        let s = match v { Value::Seq(s) => s, other => panic!("Tt4domoe4: expected Seq, got {other:?}") };
        assert_eq!(s.len(), 4, "Tt4domoe4: component count");
        let _ = s;
        Tt4domoe4 {
            f0: FromValue::from_value(s[0].as_ref().expect("component f0 of Tt4domoe4 must be present")),
            f1: s[1].as_ref().map(FromValue::from_value),
            f2: FromValue::from_value(s[2].as_ref().expect("component f2 of Tt4domoe4 must be present")),
            f3: s[3].as_ref().map(FromValue::from_value),
        }
    }
}
impl ToValue for Tt4domoe4 {
    fn to_value(&self) -> Value {
        Value::Seq(vec![
            Some(self.f0.to_value()),
            self.f1.as_ref().map(|x| x.to_value()),
            Some(self.f2.to_value()),
            self.f3.as_ref().map(|x| x.to_value()),
        ])
    }
}
impl FromValue for Tt4mdmon {
    fn from_value(v: &Value) -> Self {
        let s = match v { Value::Seq(s) => s, other => panic!("Tt4mdmon: expected Seq, got {other:?}") };
        assert_eq!(s.len(), 4, "Tt4mdmon: component count");
        let _ = s;
        Tt4mdmon {
            f0: FromValue::from_value(s[0].as_ref().expect("component f0 of Tt4mdmon must be present")),
            f1: FromValue::from_value(s[1].as_ref().expect("component f1 of Tt4mdmon must be present")),
            f2: FromValue::from_value(s[2].as_ref().expect("component f2 of Tt4mdmon must be present")),
            f3: s[3].as_ref().map(FromValue::from_value),
        }
    }
}
impl ToValue for Tt4mdmon {
    fn to_value(&self) -> Value {
        Value::Seq(vec![
            Some(self.f0.to_value()),
            Some(self.f1.to_value()),
            Some(self.f2.to_value()),
            self.f3.as_ref().map(|x| x.to_value()),
        ])
    }
}
impl FromValue for Tt4mdmoe0 {
    fn from_value(v: &Value) -> Self {
        let s = match v { Value::Seq(s) => s, other => panic!("Tt4mdmoe0: expected Seq, got {other:?}") };
        assert_eq!(s.len(), 4, "Tt4mdmoe0: component count");
        let _ = s;
        Tt4mdmoe0 {
            f0: FromValue::from_value(s[0].as_ref().expect("component f0 of Tt4mdmoe0 must be present")),
            f1: FromValue::from_value(s[1].as_ref().expect("component f1 of Tt4mdmoe0 must be present")),
            f2: s[2].as_ref().map(FromValue::from_value),
            f3: s[3].as_ref().map(FromValue::from_value),
        }
    }
}
impl ToValue for Tt4mdmoe0 {
    fn to_value(&self) -> Value {
        Value::Seq(vec![
            Some(self.f0.to_value()),
            Some(self.f1.to_value()),
            self.f2.as_ref().map(|x| x.to_value()),
            self.f3.as_ref().map(|x| x.to_value()),
        ])
    }
}
impl FromValue for Tt4mdmoe1 {
    fn from_value(v: &Value) -> Self {
        let s = match v { Value::Seq(s) => s, other => panic!("Tt4mdmoe1: expected Seq, got {other:?}") };
        assert_eq!(s.len(), 4, "Tt4mdmoe1: component count");
        let _ = s;
        Tt4mdmoe1 {
            f0: FromValue::from_value(s[0].as_ref().expect("component f0 of Tt4mdmoe1 must be present")),
            f1: FromValue::from_value(s[1].as_ref().expect("component f1 of Tt4mdmoe1 must be present")),
            f2: s[2].as_ref().map(FromValue::from_value),
            f3: s[3].as_ref().map(FromValue::from_value),
        }
    }
}
impl ToValue for Tt4mdmoe1 {
    fn to_value(&self) -> Value {
        Value::Seq(vec![
            Some(self.f0.to_value()),
            Some(self.f1.to_value()),
            self.f2.as_ref().map(|x| x.to_value()),
            self.f3.as_ref().map(|x| x.to_value()),
        ])
    }
}
impl FromValue for Tt4mdmoe2 {
    fn from_value(v: &Value) -> Self {
        let s = match v { Value::Seq(s) => s, other => panic!("Tt4mdmoe2: expected Seq, got {other:?}") };
        assert_eq!(s.len(), 4, "Tt4mdmoe2: component count");
        let _ = s;
        Tt4mdmoe2 {
            f0: FromValue::from_value(s[0].as_ref().expect("component f0 of Tt4mdmoe2 must be present")),
            f1: FromValue::from_value(s[1].as_ref().expect("component f1 of Tt4mdmoe2 must be present")),
            f2: s[2].as_ref().map(FromValue::from_value),
            f3: s[3].as_ref().map(FromValue::from_value),
        }
    }
}
impl ToValue for Tt4mdmoe2 {
    fn to_value(&self) -> Value {
        Value::Seq(vec![
            Some(self.f0.to_value()),
            Some(self.f1.to_value()),
            self.f2.as_ref().map(|x| x.to_value()),
            self.f3.as_ref().map(|x| x.to_value()),
        ])
    }
}
impl FromValue for Tt4mdmoe3 {
    fn from_value(v: &Value) -> Self {
        let s = match v { Value::Seq(s) => s, other => panic!("Tt4mdmoe3: expected Seq, got {other:?}") };
        assert_eq!(s.len(), 4, "Tt4mdmoe3: component count");
        let _ = s;
        Tt4mdmoe3 {
            f0: FromValue::from_value(s[0].as_ref().expect("component f0 of Tt4mdmoe3 must be present")),
            f1: FromValue::from_value(s[1].as_ref().expect("component f1 of Tt4mdmoe3 must be present")),
            f2: FromValue::from_value(s[2].as_ref().expect("component f2 of Tt4mdmoe3 must be present")),
            f3: s[3].as_ref().map(FromValue::from_value),
        }
    }
}
impl ToValue for Tt4mdmoe3 {
    fn to_value(&self) -> Value {
        Value::Seq(vec![
            Some(self.f0.to_value()),
            Some(self.f1.to_value()),
            Some(self.f2.to_value()),
            self.f3.as_ref().map(|x| x.to_value()),
        ])
    }
}
impl FromValue for Tt4mdmoe4 {
    fn from_value(v: &Value) -> Self {
        let s = match v { Value::Seq(s) => s, other => panic!("Tt4mdmoe4: expected Seq, got {other:?}") };
        assert_eq!(s.len(), 4, "Tt4mdmoe4: component count");
        let _ = s;
        Tt4mdmoe4 {
            f0: FromValue::from_value(s[0].as_ref().expect("component f0 of Tt4mdmoe4 must be present")),
            f1: FromValue::from_value(s[1].as_ref().expect("component f1 of Tt4mdmoe4 must be present")),
            f2: FromValue::from_value(s[2].as_ref().expect("component f2 of Tt4mdmoe4 must be present")),
            f3: s[3].as_ref().map(FromValue::from_value),
        }
    }
}
impl ToValue for Tt4mdmoe4 {
    fn to_value(&self) -> Value {
        Value::Seq(vec![
            Some(self.f0.to_value()),
            Some(self.f1.to_value()),
            Some(self.f2.to_value()),
            self.f3.as_ref().map(|x| x.to_value()),
        ])
    }
}
impl FromValue for Tt4odmon {
    fn from_value(v: &Value) -> Self {
        let s = match v { Value::Seq(s) => s, other => panic!("Tt4odmon: expected Seq, got {other:?}") };
        assert_eq!(s.len(), 4, "Tt4odmon: component count");
        let _ = s;
        Tt4odmon {
            f0: s[0].as_ref().map(FromValue::from_value),
            f1: FromValue::from_value(s[1].as_ref().expect("component f1 of Tt4odmon must be present")),
            f2: FromValue::from_value(s[2].as_ref().expect("component f2 of Tt4odmon must be present")),
            f3: s[3].as_ref().map(FromValue::from_value),
        }
    }
}
impl ToValue for Tt4odmon {
    fn to_value(&self) -> Value {
        Value::Seq(vec![
            self.f0.as_ref().map(|x| x.to_value()),
            Some(self.f1.to_value()),
            Some(self.f2.to_value()),
            self.f3.as_ref().map(|x| x.to_value()),
        ])
    }
}
impl FromValue for Tt4odmoe0 {
    fn from_value(v: &Value) -> Self {
        let s = match v { Value::Seq(s) => s, other => panic!("Tt4odmoe0: expected Seq, got {other:?}") };
        assert_eq!(s.len(), 4, "Tt4odmoe0: component count");
        let _ = s;
        Tt4odmoe0 {
            f0: s[0].as_ref().map(FromValue::from_value),
            f1: FromValue::from_value(s[1].as_ref().expect("component f1 of Tt4odmoe0 must be present")),
            f2: s[2].as_ref().map(FromValue::from_value),
            f3: s[3].as_ref().map(FromValue::from_value),
        }
    }
}
impl ToValue for Tt4odmoe0 {
    fn to_value(&self) -> Value {
        Value::Seq(vec![
            self.f0.as_ref().map(|x| x.to_value()),
            Some(self.f1.to_value()),
            self.f2.as_ref().map(|x| x.to_value()),
            self.f3.as_ref().map(|x| x.to_value()),
        ])
    }
}
impl FromValue for Tt4odmoe1 {
    fn from_value(v: &Value) -> Self {
        let s = match v { Value::Seq(s) => s, other => panic!("Tt4odmoe1: expected Seq, got {other:?}") };
        assert_eq!(s.len(), 4, "Tt4odmoe1: component count");
        let _ = s;
        Tt4odmoe1 {
            f0: s[0].as_ref().map(FromValue::from_value),
            f1: FromValue::from_value(s[1].as_ref().expect("component f1 of Tt4odmoe1 must be present")),
            f2: s[2].as_ref().map(FromValue::from_value),
            f3: s[3].as_ref().map(FromValue::from_value),
        }
    }
}
impl ToValue for Tt4odmoe1 {
    fn to_value(&self) -> Value {
        Value::Seq(vec![
            self.f0.as_ref().map(|x| x.to_value()),
            Some(self.f1.to_value()),
            self.f2.as_ref().map(|x| x.to_value()),
            self.f3.as_ref().map(|x| x.to_value()),
        ])
    }
}
impl FromValue for Tt4odmoe2 {
    fn from_value(v: &Value) -> Self {
        let s = match v { Value::Seq(s) => s, other => panic!("Tt4odmoe2: expected Seq, got {other:?}") };
        assert_eq!(s.len(), 4, "Tt4odmoe2: component count");
        let _ = s;
        Tt4odmoe2 {
            f0: s[0].as_ref().map(FromValue::from_value),
            f1: FromValue::from_value(s[1].as_ref().expect("component f1 of Tt4odmoe2 must be present")),
            f2: s[2].as_ref().map(FromValue::from_value),
            f3: s[3].as_ref().map(FromValue::from_value),
        }
    }
}
impl ToValue for Tt4odmoe2 {
    fn to_value(&self) -> Value {
        Value::Seq(vec![
            self.f0.as_ref().map(|x| x.to_value()),
            Some(self.f1.to_value()),
            self.f2.as_ref().map(|x| x.to_value()),
            self.f3.as_ref().map(|x| x.to_value()),
        ])
    }
}
impl FromValue for Tt4odmoe3 {
    fn from_value(v: &Value) -> Self {
        let s = match v { Value::Seq(s) => s, other => panic!("Tt4odmoe3: expected Seq, got {other:?}") };
        assert_eq!(s.len(), 4, "Tt4odmoe3: component count");
        let _ = s;
        Tt4odmoe3 {
            f0: s[0].as_ref().map(FromValue::from_value),
            f1: FromValue::from_value(s[1].as_ref().expect("component f1 of Tt4odmoe3 must be present")),
            f2: FromValue::from_value(s[2].as_ref().expect("component f2 of Tt4odmoe3 must be present")),
            f3: s[3].as_ref().map(FromValue::from_value),
        }
    }
}
impl ToValue for Tt4odmoe3 {
    fn to_value(&self) -> Value {
        Value::Seq(vec![
            self.f0.as_ref().map(|x| x.to_value()),
            Some(self.f1.to_value()),
            Some(self.f2.to_value()),
            self.f3.as_ref().map(|x| x.to_value()),
        ])
    }
}
impl FromValue for Tt4odmoe4 {
    fn from_value(v: &Value) -> Self {
        let s = match v { Value::Seq(s) => s, other => panic!("Tt4odmoe4: expected Seq, got {other:?}") };
        assert_eq!(s.len(), 4, "Tt4odmoe4: component count");
        let _ = s;
        Tt4odmoe4 {
            f0: s[0].as_ref().map(FromValue::from_value),
            f1: FromValue::from_value(s[1].as_ref().expect("component f1 of Tt4odmoe4 must be present")),
            f2: FromValue::from_value(s[2].as_ref().expect("component f2 of Tt4odmoe4 must be present")),
            f3: s[3].as_ref().map(FromValue::from_value),
        }
    }
}
impl ToValue for Tt4odmoe4 {
    fn to_value(&self) -> Value {
        Value::Seq(vec![
            self.f0.as_ref().map(|x| x.to_value()),
            Some(self.f1.to_value()),
            Some(self.f2.to_value()),
            self.f3.as_ref().map(|x| x.to_value()),
        ])
    }
}
impl FromValue for Tt4ddmon {
    fn from_value(v: &Value) -> Self {
        let s = match v { Value::Seq(s) => s, other => panic!("Tt4ddmon: expected Seq, got {other:?}") };
        assert_eq!(s.len(), 4, "Tt4ddmon: component count");
        let _ = s;
        Tt4ddmon {
            f0: FromValue::from_value(s[0].as_ref().expect("component f0 of Tt4ddmon must be present")),
            f1: FromValue::from_value(s[1].as_ref().expect("component f1 of Tt4ddmon must be present")),
            f2: FromValue::from_value(s[2].as_ref().expect("component f2 of Tt4ddmon must be present")),
            f3: s[3].as_ref().map(FromValue::from_value),
        }
    }
}
impl ToValue for Tt4ddmon {
    fn to_value(&self) -> Value {
        Value::Seq(vec![
            Some(self.f0.to_value()),
            Some(self.f1.to_value()),
            Some(self.f2.to_value()),
            self.f3.as_ref().map(|x| x.to_value()),
        ])
    }
}
impl FromValue for Tt4ddmoe0 {
    fn from_value(v: &Value) -> Self {
        let s = match v { Value::Seq(s) => s, other => panic!("Tt4ddmoe0: expected Seq, got {other:?}") };
        assert_eq!(s.len(), 4, "Tt4ddmoe0: component count");
        let _ = s;
        Tt4ddmoe0 {
            f0: FromValue::from_value(s[0].as_ref().expect("component f0 of Tt4ddmoe0 must be present")),
            f1: FromValue::from_value(s[1].as_ref().expect("component f1 of Tt4ddmoe0 must be present")),
            f2: s[2].as_ref().map(FromValue::from_value),
            f3: s[3].as_ref().map(FromValue::from_value),
        }
    }
}
impl ToValue for Tt4ddmoe0 {
    fn to_value(&self) -> Value {
        Value::Seq(vec![
            Some(self.f0.to_value()),
            Some(self.f1.to_value()),
            self.f2.as_ref().map(|x| x.to_value()),
            self.f3.as_ref().map(|x| x.to_value()),
        ])
    }
}
impl FromValue for Tt4ddmoe1 {
    fn from_value(v: &Value) -> Self {
        let s = match v { Value::Seq(s) => s, other => panic!("Tt4ddmoe1: expected Seq, got {other:?}") };
        assert_eq!(s.len(), 4, "Tt4ddmoe1: component count");
        let _ = s;
        Tt4ddmoe1 {
            f0: FromValue::from_value(s[0].as_ref().expect("component f0 of Tt4ddmoe1 must be present")),
            f1: FromValue::from_value(s[1].as_ref().expect("component f1 of Tt4ddmoe1 must be present")),
            f2: s[2].as_ref().map(FromValue::from_value),
            f3: s[3].as_ref().map(FromValue::from_value),
        }
    }
}
impl ToValue for Tt4ddmoe1 {
    fn to_value(&self) -> Value {
        Value::Seq(vec![
            Some(self.f0.to_value()),
            Some(self.f1.to_value()),
            self.f2.as_ref().map(|x| x.to_value()),
            self.f3.as_ref().map(|x| x.to_value()),
        ])
    }
}
impl FromValue for Tt4ddmoe2 {
    fn from_value(v: &Value) -> Self {
        let s = match v { Value::Seq(s) => s, other => panic!("Tt4ddmoe2: expected Seq, got {other:?}") };
        assert_eq!(s.len(), 4, "Tt4ddmoe2: component count");
        let _ = s;
        Tt4ddmoe2 {
            f0: FromValue::from_value(s[0].as_ref().expect("component f0 of Tt4ddmoe2 must be present")),
            f1: FromValue::from_value(s[1].as_ref().expect("component f1 of Tt4ddmoe2 must be present")),
            f2: s[2].as_ref().map(FromValue::from_value),
            f3: s[3].as_ref().map(FromValue::from_value),
        }
    }
}
impl ToValue for Tt4ddmoe2 {
    fn to_value(&self) -> Value {
        Value::Seq(vec![
            Some(self.f0.to_value()),
            Some(self.f1.to_value()),
            self.f2.as_ref().map(|x| x.to_value()),
            self.f3.as_ref().map(|x| x.to_value()),
        ])
    }
}
impl FromValue for Tt4ddmoe3 {
    fn from_value(v: &Value) -> Self {
        let s = match v { Value::Seq(s) => s, other => panic!("Tt4ddmoe3: expected Seq, got {other:?}") };
        assert_eq!(s.len(), 4, "Tt4ddmoe3: component count");
        let _ = s;
        Tt4ddmoe3 {
            f0: FromValue::from_value(s[0].as_ref().expect("component f0 of Tt4ddmoe3 must be present")),
            f1: FromValue::from_value(s[1].as_ref().expect("component f1 of Tt4ddmoe3 must be present")),
            f2: FromValue::from_value(s[2].as_ref().expect("component f2 of Tt4ddmoe3 must be present")),
            f3: s[3].as_ref().map(FromValue::from_value),
        }
    }
}
impl ToValue for Tt4ddmoe3 {
    fn to_value(&self) -> Value {
        Value::Seq(vec![
            Some(self.f0.to_value()),
            Some(self.f1.to_value()),
            Some(self.f2.to_value()),
            self.f3.as_ref().map(|x| x.to_value()),
        ])
    }
}
impl FromValue for Tt4ddmoe4 {
    fn from_value(v: &Value) -> Self {
        let s = match v { Value::Seq(s) => s, other => panic!("Tt4ddmoe4: expected Seq, got {other:?}") };
        assert_eq!(s.len(), 4, "Tt4ddmoe4: component count");
        let _ = s;
        Tt4ddmoe4 {
            f0: FromValue::from_value(s[0].as_ref().expect("component f0 of Tt4ddmoe4 must be present")),
            f1: FromValue::from_value(s[1].as_ref().expect("component f1 of Tt4ddmoe4 must be present")),
            f2: FromValue::from_value(s[2].as_ref().expect("component f2 of Tt4ddmoe4 must be present")),
            f3: s[3].as_ref().map(FromValue::from_value),
        }
    }
}
impl ToValue for Tt4ddmoe4 {
    fn to_value(&self) -> Value {
        Value::Seq(vec![
            Some(self.f0.to_value()),
            Some(self.f1.to_value()),
            Some(self.f2.to_value()),
            self.f3.as_ref().map(|x| x.to_value()),
        ])
    }
}
impl FromValue for Tt4mmoon {
    fn from_value(v: &Value) -> Self {
        let s = match v { Value::Seq(s) => s, other => panic!("Tt4mmoon: expected Seq, got {other:?}") };
        assert_eq!(s.len(), 4, "Tt4mmoon: component count");
        let _ = s;
        Tt4mmoon {
            f0: FromValue::from_value(s[0].as_ref().expect("component f0 of Tt4mmoon must be present")),
            f1: FromValue::from_value(s[1].as_ref().expect("component f1 of Tt4mmoon must be present")),
            f2: s[2].as_ref().map(FromValue::from_value),
            f3: s[3].as_ref().map(FromValue::from_value),
        }
    }
}
impl ToValue for Tt4mmoon {
    fn to_value(&self) -> Value {
        Value::Seq(vec![
            Some(self.f0.to_value()),
            Some(self.f1.to_value()),
            self.f2.as_ref().map(|x| x.to_value()),
            self.f3.as_ref().map(|x| x.to_value()),
        ])
    }
}
impl FromValue for Tt4mmooe0 {
    fn from_value(v: &Value) -> Self {
        let s = match v { Value::Seq(s) => s, other => panic!("Tt4mmooe0: expected Seq, got {other:?}") };
        assert_eq!(s.len(), 4, "Tt4mmooe0: component count");
        let _ = s;
        Tt4mmooe0 {
            f0: FromValue::from_value(s[0].as_ref().expect("component f0 of Tt4mmooe0 must be present")),
            f1: s[1].as_ref().map(FromValue::from_value),
            f2: s[2].as_ref().map(FromValue::from_value),
            f3: s[3].as_ref().map(FromValue::from_value),
        }
    }
}
impl ToValue for Tt4mmooe0 {
    fn to_value(&self) -> Value {
        Value::Seq(vec![
            Some(self.f0.to_value()),
            self.f1.as_ref().map(|x| x.to_value()),
            self.f2.as_ref().map(|x| x.to_value()),
            self.f3.as_ref().map(|x| x.to_value()),
        ])
    }
}
impl FromValue for Tt4mmooe1 {
    fn from_value(v: &Value) -> Self {
        let s = match v { Value::Seq(s) => s, other => panic!("Tt4mmooe1: expected Seq, got {other:?}") };
        assert_eq!(s.len(), 4, "Tt4mmooe1: component count");
        let _ = s;
        Tt4mmooe1 {
            f0: FromValue::from_value(s[0].as_ref().expect("component f0 of Tt4mmooe1 must be present")),
            f1: s[1].as_ref().map(FromValue::from_value),
            f2: s[2].as_ref().map(FromValue::from_value),
            f3: s[3].as_ref().map(FromValue::from_value),
        }
    }
}
impl ToValue for Tt4mmooe1 {
    fn to_value(&self) -> Value {
        Value::Seq(vec![
            Some(self.f0.to_value()),
            self.f1.as_ref().map(|x| x.to_value()),
            self.f2.as_ref().map(|x| x.to_value()),
            self.f3.as_ref().map(|x| x.to_value()),
        ])
    }
}
impl FromValue for Tt4mmooe2 {
    fn from_value(v: &Value) -> Self {
        let s = match v { Value::Seq(s) => s, other => panic!("Tt4mmooe2: expected Seq, got {other:?}") };
        assert_eq!(s.len(), 4, "Tt4mmooe2: component count");
        let _ = s;
        Tt4mmooe2 {
            f0: FromValue::from_value(s[0].as_ref().expect("component f0 of Tt4mmooe2 must be present")),
            f1: FromValue::from_value(s[1].as_ref().expect("component f1 of Tt4mmooe2 must be present")),
            f2: s[2].as_ref().map(FromValue::from_value),
            f3: s[3].as_ref().map(FromValue::from_value),
        }
    }
}
impl ToValue for Tt4mmooe2 {
    fn to_value(&self) -> Value {
        Value::Seq(vec![
            Some(self.f0.to_value()),
            Some(self.f1.to_value()),
            self.f2.as_ref().map(|x| x.to_value()),
            self.f3.as_ref().map(|x| x.to_value()),
        ])
    }
}
impl FromValue for Tt4mmooe3 {
    fn from_value(v: &Value) -> Self {
        let s = match v { Value::Seq(s) => s, other => panic!("Tt4mmooe3: expected Seq, got {other:?}") };
        assert_eq!(s.len(), 4, "Tt4mmooe3: component count");
        let _ = s;
        Tt4mmooe3 {
            f0: FromValue::from_value(s[0].as_ref().expect("component f0 of Tt4mmooe3 must be present")),
            f1: FromValue::from_value(s[1].as_ref().expect("component f1 of Tt4mmooe3 must be present")),
            f2: s[2].as_ref().map(FromValue::from_value),
            f3: s[3].as_ref().map(FromValue::from_value),
        }
    }
}
impl ToValue for Tt4mmooe3 {
    fn to_value(&self) -> Value {
        Value::Seq(vec![
            Some(self.f0.to_value()),
            Some(self.f1.to_value()),
            self.f2.as_ref().map(|x| x.to_value()),
            self.f3.as_ref().map(|x| x.to_value()),
        ])
    }
}
impl FromValue for Tt4mmooe4 {
    fn from_value(v: &Value) -> Self {
        let s = match v { Value::Seq(s) => s, other => panic!("Tt4mmooe4: expected Seq, got {other:?}") };
        assert_eq!(s.len(), 4, "Tt4mmooe4: component count");
        let _ = s;
        Tt4mmooe4 {
            f0: FromValue::from_value(s[0].as_ref().expect("component f0 of Tt4mmooe4 must be present")),
            f1: FromValue::from_value(s[1].as_ref().expect("component f1 of Tt4mmooe4 must be present")),
            f2: s[2].as_ref().map(FromValue::from_value),
            f3: s[3].as_ref().map(FromValue::from_value),
        }
    }
}
impl ToValue for Tt4mmooe4 {
    fn to_value(&self) -> Value {
        Value::Seq(vec![
            Some(self.f0.to_value()),
            Some(self.f1.to_value()),
            self.f2.as_ref().map(|x| x.to_value()),
            self.f3.as_ref().map(|x| x.to_value()),
        ])
    }
}
impl FromValue for Tt4omoon {
    fn from_value(v: &Value) -> Self {
        let s = match v { Value::Seq(s) => s, other => panic!("Tt4omoon: expected Seq, got {other:?}") };
        assert_eq!(s.len(), 4, "Tt4omoon: component count");
        let _ = s;
        Tt4omoon {
            f0: s[0].as_ref().map(FromValue::from_value),
            f1: FromValue::from_value(s[1].as_ref().expect("component f1 of Tt4omoon must be present")),
            f2: s[2].as_ref().map(FromValue::from_value),
            f3: s[3].as_ref().map(FromValue::from_value),
        }
    }
}
impl ToValue for Tt4omoon {
    fn to_value(&self) -> Value {
        Value::Seq(vec![
            self.f0.as_ref().map(|x| x.to_value()),
            Some(self.f1.to_value()),
            self.f2.as_ref().map(|x| x.to_value()),
            self.f3.as_ref().map(|x| x.to_value()),
        ])
    }
}
impl FromValue for Tt4omooe0 {
    fn from_value(v: &Value) -> Self {
        let s = match v { Value::Seq(s) => s, other => panic!("Tt4omooe0: expected Seq, got {other:?}") };
        assert_eq!(s.len(), 4, "Tt4omooe0: component count");
        let _ = s;
        Tt4omooe0 {
            f0: s[0].as_ref().map(FromValue::from_value),
            f1: s[1].as_ref().map(FromValue::from_value),
            f2: s[2].as_ref().map(FromValue::from_value),
            f3: s[3].as_ref().map(FromValue::from_value),
        }
    }
}
impl ToValue for Tt4omooe0 {
    fn to_value(&self) -> Value {
        Value::Seq(vec![
            self.f0.as_ref().map(|x| x.to_value()),
            self.f1.as_ref().map(|x| x.to_value()),
            self.f2.as_ref().map(|x| x.to_value()),
            self.f3.as_ref().map(|x| x.to_value()),
        ])
    }
}
impl FromValue for Tt4omooe1 {
    fn from_value(v: &Value) -> Self {
        let s = match v { Value::Seq(s) => s, other => panic!("Tt4omooe1: expected Seq, got {other:?}") };
        assert_eq!(s.len(), 4, "Tt4omooe1: component count");
        let _ = s;
        Tt4omooe1 {
            f0: s[0].as_ref().map(FromValue::from_value),
            f1: s[1].as_ref().map(FromValue::from_value),
            f2: s[2].as_ref().map(FromValue::from_value),
            f3: s[3].as_ref().map(FromValue::from_value),
        }
    }
}
impl ToValue for Tt4omooe1 {
    fn to_value(&self) -> Value {
        Value::Seq(vec![
            self.f0.as_ref().map(|x| x.to_value()),
            self.f1.as_ref().map(|x| x.to_value()),
            self.f2.as_ref().map(|x| x.to_value()),
            self.f3.as_ref().map(|x| x.to_value()),
        ])
    }
}
impl FromValue for Tt4omooe2 {
    fn from_value(v: &Value) -> Self {
        let s = match v { Value::Seq(s) => s, other => panic!("Tt4omooe2: expected Seq, got {other:?}") };
        assert_eq!(s.len(), 4, "Tt4omooe2: component count");
        let _ = s;
        Tt4omooe2 {
            f0: s[0].as_ref().map(FromValue::from_value),
            f1: FromValue::from_value(s[1].as_ref().expect("component f1 of Tt4omooe2 must be present")),
            f2: s[2].as_ref().map(FromValue::from_value),
            f3: s[3].as_ref().map(FromValue::from_value),
        }
    }
}
impl ToValue for Tt4omooe2 {
    fn to_value(&self) -> Value {
        Value::Seq(vec![
            self.f0.as_ref().map(|x| x.to_value()),
            Some(self.f1.to_value()),
            self.f2.as_ref().map(|x| x.to_value()),
            self.f3.as_ref().map(|x| x.to_value()),
        ])
    }
}
impl FromValue for Tt4omooe3 {
    fn from_value(v: &Value) -> Self {
        let s = match v { Value::Seq(s) => s, other => panic!("Tt4omooe3: expected Seq, got {other:?}") };
        assert_eq!(s.len(), 4, "Tt4omooe3: component count");
        let _ = s;
        Tt4omooe3 {
            f0: s[0].as_ref().map(FromValue::from_value),
            f1: FromValue::from_value(s[1].as_ref().expect("component f1 of Tt4omooe3 must be present")),
            f2: s[2].as_ref().map(FromValue::from_value),
            f3: s[3].as_ref().map(FromValue::from_value),
        }
    }
}
impl ToValue for Tt4omooe3 {
    fn to_value(&self) -> Value {
        Value::Seq(vec![
            self.f0.as_ref().map(|x| x.to_value()),
            Some(self.f1.to_value()),
            self.f2.as_ref().map(|x| x.to_value()),
            self.f3.as_ref().map(|x| x.to_value()),
        ])
    }
}
impl FromValue for Tt4omooe4 {
    fn from_value(v: &Value) -> Self {
        let s = match v { Value::Seq(s) => s, other => panic!("Tt4omooe4: expected Seq, got {other:?}") };
        assert_eq!(s.len(), 4, "Tt4omooe4: component count");
        let _ = s;
        Tt4omooe4 {
            f0: s[0].as_ref().map(FromValue::from_value),
            f1: FromValue::from_value(s[1].as_ref().expect("component f1 of Tt4omooe4 must be present")),
            f2: s[2].as_ref().map(FromValue::from_value),
            f3: s[3].as_ref().map(FromValue::from_value),
        }
    }
}
impl ToValue for Tt4omooe4 {
    fn to_value(&self) -> Value {
        Value::Seq(vec![
            self.f0.as_ref().map(|x| x.to_value()),
            Some(self.f1.to_value()),
            self.f2.as_ref().map(|x| x.to_value()),
            self.f3.as_ref().map(|x| x.to_value()),
        ])
    }
}
impl FromValue for Tt4dmoon {
    fn from_value(v: &Value) -> Self {
        let s = match v { Value::Seq(s) => s, other => panic!("Tt4dmoon: expected Seq, got {other:?}") };
        assert_eq!(s.len(), 4, "Tt4dmoon: component count");
        let _ = s;
        Tt4dmoon {
            f0: FromValue::from_value(s[0].as_ref().expect("component f0 of Tt4dmoon must be present")),
            f1: FromValue::from_value(s[1].as_ref().expect("component f1 of Tt4dmoon must be present")),
            f2: s[2].as_ref().map(FromValue::from_value),
            f3: s[3].as_ref().map(FromValue::from_value),
        }
    }
}
impl ToValue for Tt4dmoon {
    fn to_value(&self) -> Value {
        Value::Seq(vec![
            Some(self.f0.to_value()),
            Some(self.f1.to_value()),
            self.f2.as_ref().map(|x| x.to_value()),
            self.f3.as_ref().map(|x| x.to_value()),
        ])
    }
}
impl FromValue for Tt4dmooe0 {
    fn from_value(v: &Value) -> Self {
        let s = match v { Value::Seq(s) => s, other => panic!("Tt4dmooe0: expected Seq, got {other:?}") };
        assert_eq!(s.len(), 4, "Tt4dmooe0: component count");
        let _ = s;
        Tt4dmooe0 {
            f0: FromValue::from_value(s[0].as_ref().expect("component f0 of Tt4dmooe0 must be present")),
            f1: s[1].as_ref().map(FromValue::from_value),
            f2: s[2].as_ref().map(FromValue::from_value),
            f3: s[3].as_ref().map(FromValue::from_value),
        }
    }
}
impl ToValue for Tt4dmooe0 {
    fn to_value(&self) -> Value {
        Value::Seq(vec![
            Some(self.f0.to_value()),
            self.f1.as_ref().map(|x| x.to_value()),
            self.f2.as_ref().map(|x| x.to_value()),
            self.f3.as_ref().map(|x| x.to_value()),
        ])
    }
}
impl FromValue for Tt4dmooe1 {
    fn from_value(v: &Value) -> Self {
        let s = match v { Value::Seq(s) => s, other => panic!("Tt4dmooe1: expected Seq, got {other:?}") };
        assert_eq!(s.len(), 4, "Tt4dmooe1: component count");
        let _ = s;
        Tt4dmooe1 {
            f0: FromValue::from_value(s[0].as_ref().expect("component f0 of Tt4dmooe1 must be present")),
            f1: s[1].as_ref().map(FromValue::from_value),
            f2: s[2].as_ref().map(FromValue::from_value),
            f3: s[3].as_ref().map(FromValue::from_value),
        }
    }
}
impl ToValue for Tt4dmooe1 {
    fn to_value(&self) -> Value {
        Value::Seq(vec![
            Some(self.f0.to_value()),
            self.f1.as_ref().map(|x| x.to_value()),
            self.f2.as_ref().map(|x| x.to_value()),
            self.f3.as_ref().map(|x| x.to_value()),
        ])
    }
}
impl FromValue for Tt4dmooe2 {
    fn from_value(v: &Value) -> Self {
        let s = match v { Value::Seq(s) => s, other => panic!("Tt4dmooe2: expected Seq, got {other:?}") };
        assert_eq!(s.len(), 4, "Tt4dmooe2: component count");
        let _ = s;
        Tt4dmooe2 {
            f0: FromValue::from_value(s[0].as_ref().expect("component f0 of Tt4dmooe2 must be present")),
            f1: FromValue::from_value(s[1].as_ref().expect("component f1 of Tt4dmooe2 must be present")),
            f2: s[2].as_ref().map(FromValue::from_value),
            f3: s[3].as_ref().map(FromValue::from_value),
        }
    }
}
impl ToValue for Tt4dmooe2 {
    fn to_value(&self) -> Value {
        Value::Seq(vec![
            Some(self.f0.to_value()),
            Some(self.f1.to_value()),
            self.f2.as_ref().map(|x| x.to_value()),
            self.f3.as_ref().map(|x| x.to_value()),
        ])
    }
}
impl FromValue for Tt4dmooe3 {
    fn from_value(v: &Value) -> Self {
        let s = match v { Value::Seq(s) => s, other => panic!("Tt4dmooe3: expected Seq, got {other:?}") };
        assert_eq!(s.len(), 4, "Tt4dmooe3: component count");
        let _ = s;
        Tt4dmooe3 {
            f0: FromValue::from_value(s[0].as_ref().expect("component f0 of Tt4dmooe3 must be present")),
            f1: FromValue::from_value(s[1].as_ref().expect("component f1 of Tt4dmooe3 must be present")),
            f2: s[2].as_ref().map(FromValue::from_value),
            f3: s[3].as_ref().map(FromValue::from_value),
        }
    }
}
impl ToValue for Tt4dmooe3 {
    fn to_value(&self) -> Value {
        Value::Seq(vec![
            Some(self.f0.to_value()),
            Some(self.f1.to_value()),
            self.f2.as_ref().map(|x| x.to_value()),
            self.f3.as_ref().map(|x| x.to_value()),
        ])
    }
}
impl FromValue for Tt4dmooe4 {
    fn from_value(v: &Value) -> Self {
        let s = match v { Value::Seq(s) => s, other => panic!("Tt4dmooe4: expected Seq, got {other:?}") };
        assert_eq!(s.len(), 4, "Tt4dmooe4: component count");
        let _ = s;
        Tt4dmooe4 {
            f0: FromValue::from_value(s[0].as_ref().expect("component f0 of Tt4dmooe4 must be present")),
            f1: FromValue::from_value(s[1].as_ref().expect("component f1 of Tt4dmooe4 must be present")),
            f2: s[2].as_ref().map(FromValue::from_value),
            f3: s[3].as_ref().map(FromValue::from_value),
        }
    }
}
impl ToValue for Tt4dmooe4 {
    fn to_value(&self) -> Value {
        Value::Seq(vec![
            Some(self.f0.to_value()),
            Some(self.f1.to_value()),
            self.f2.as_ref().map(|x| x.to_value()),
            self.f3.as_ref().map(|x| x.to_value()),
        ])
    }
}
impl FromValue for Tt4mooon {
    fn from_value(v: &Value) -> Self {
        let s = match v { Value::Seq(s) => s, other => panic!("Tt4mooon: expected Seq, got {other:?}") };
        assert_eq!(s.len(), 4, "Tt4mooon: component count");
        let _ = s;
        Tt4mooon {
            f0: FromValue::from_value(s[0].as_ref().expect("component f0 of Tt4mooon must be present")),
            f1: s[1].as_ref().map(FromValue::from_value),
            f2: s[2].as_ref().map(FromValue::from_value),
            f3: s[3].as_ref().map(FromValue::from_value),
        }
    }
}
impl ToValue for Tt4mooon {
    fn to_value(&self) -> Value {
        Value::Seq(vec![
            Some(self.f0.to_value()),
            self.f1.as_ref().map(|x| x.to_value()),
            self.f2.as_ref().map(|x| x.to_value()),
            self.f3.as_ref().map(|x| x.to_value()),
        ])
    }
}
impl FromValue for Tt4moooe0 {
    fn from_value(v: &Value) -> Self {
        let s = match v { Value::Seq(s) => s, other => panic!("Tt4moooe0: expected Seq, got {other:?}") };
        assert_eq!(s.len(), 4, "Tt4moooe0: component count");
        let _ = s;
        Tt4moooe0 {
            f0: FromValue::from_value(s[0].as_ref().expect("component f0 of Tt4moooe0 must be present")),
            f1: s[1].as_ref().map(FromValue::from_value),
            f2: s[2].as_ref().map(FromValue::from_value),
            f3: s[3].as_ref().map(FromValue::from_value),
        }
    }
}
impl ToValue for Tt4moooe0 {
    fn to_value(&self) -> Value {
        Value::Seq(vec![
            Some(self.f0.to_value()),
            self.f1.as_ref().map(|x| x.to_value()),
            self.f2.as_ref().map(|x| x.to_value()),
            self.f3.as_ref().map(|x| x.to_value()),
        ])
    }
}
impl FromValue for Tt4moooe1 {
    fn from_value(v: &Value) -> Self {
        let s = match v { Value::Seq(s) => s, other => panic!("Tt4moooe1: expected Seq, got {other:?}") };
        assert_eq!(s.len(), 4, "Tt4moooe1: component count");
        let _ = s;
        Tt4moooe1 {
            f0: FromValue::from_value(s[0].as_ref().expect("component f0 of Tt4moooe1 must be present")),
            f1: s[1].as_ref().map(FromValue::from_value),
            f2: s[2].as_ref().map(FromValue::from_value),
            f3: s[3].as_ref().map(FromValue::from_value),
        }
    }
}
impl ToValue for Tt4moooe1 {
    fn to_value(&self) -> Value {
        Value::Seq(vec![
            Some(self.f0.to_value()),
            self.f1.as_ref().map(|x| x.to_value()),
            self.f2.as_ref().map(|x| x.to_value()),
            self.f3.as_ref().map(|x| x.to_value()),
        ])
    }
}
impl FromValue for Tt4moooe2 {
    fn from_value(v: &Value) -> Self {
        let s = match v { Value::Seq(s) => s, other => panic!("Tt4moooe2: expected Seq, got {other:?}") };
        assert_eq!(s.len(), 4, "Tt4moooe2: component count");
        let _ = s;
        Tt4moooe2 {
            f0: FromValue::from_value(s[0].as_ref().expect("component f0 of Tt4moooe2 must be present")),
            f1: s[1].as_ref().map(FromValue::from_value),
            f2: s[2].as_ref().map(FromValue::from_value),
            f3: s[3].as_ref().map(FromValue::from_value),
        }
    }
}
impl ToValue for Tt4moooe2 {
    fn to_value(&self) -> Value {
        Value::Seq(vec![
            Some(self.f0.to_value()),
            self.f1.as_ref().map(|x| x.to_value()),
            self.f2.as_ref().map(|x| x.to_value()),
            self.f3.as_ref().map(|x| x.to_value()),
        ])
    }
}
impl FromValue for Tt4moooe3 {
    fn from_value(v: &Value) -> Self {
        let s = match v { Value::Seq(s) => s, other => panic!("Tt4moooe3: expected Seq, got {other:?}") };
        assert_eq!(s.len(), 4, "Tt4moooe3: component count");
        let _ = s;
        Tt4moooe3 {
            f0: FromValue::from_value(s[0].as_ref().expect("component f0 of Tt4moooe3 must be present")),
            f1: s[1].as_ref().map(FromValue::from_value),
            f2: s[2].as_ref().map(FromValue::from_value),
            f3: s[3].as_ref().map(FromValue::from_value),
        }
    }
}
impl ToValue for Tt4moooe3 {
    fn to_value(&self) -> Value {
        Value::Seq(vec![
            Some(self.f0.to_value()),
            self.f1.as_ref().map(|x| x.to_value()),
            self.f2.as_ref().map(|x| x.to_value()),
            self.f3.as_ref().map(|x| x.to_value()),
        ])
    }
}
impl FromValue for Tt4moooe4 {
    fn from_value(v: &Value) -> Self {
        let s = match v { Value::Seq(s) => s, other => panic!("Tt4moooe4: expected Seq, got {other:?}") };
        assert_eq!(s.len(), 4, "Tt4moooe4: component count");
        let _ = s;
        Tt4moooe4 {
            f0: FromValue::from_value(s[0].as_ref().expect("component f0 of Tt4moooe4 must be present")),
            f1: s[1].as_ref().map(FromValue::from_value),
            f2: s[2].as_ref().map(FromValue::from_value),
            f3: s[3].as_ref().map(FromValue::from_value),
        }
    }
}
impl ToValue for Tt4moooe4 {
    fn to_value(&self) -> Value {
        Value::Seq(vec![
            Some(self.f0.to_value()),
            self.f1.as_ref().map(|x| x.to_value()),
            self.f2.as_ref().map(|x| x.to_value()),
            self.f3.as_ref().map(|x| x.to_value()),
        ])
    }
}

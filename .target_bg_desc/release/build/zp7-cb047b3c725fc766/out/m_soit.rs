use asn1rs::prelude::*;

#[asn(transparent)]

#[derive(Default, Debug, Clone, PartialEq, Hash)]
pub struct Tsoif0(#[asn(sequence_of(size(0), integer(0..255)))] pub Vec<u8>);

impl Tsoif0 {
    pub const fn value_min() -> u8 {
        0
    }

    pub const fn value_max() -> u8 {
        255
    }
}

impl Tsoif0 {
    pub const fn new(value: Vec<u8>) -> Self {
        Self(value)
    }
}

impl ::core::ops::Deref for Tsoif0 {
    type Target = Vec<u8>;

    fn deref(&self) -> &Vec<u8> {
        &self.0
    }
}

impl ::core::ops::DerefMut for Tsoif0 {
    fn deref_mut(&mut self) -> &mut Vec<u8> {
        &mut self.0
    }
}

impl ::core::convert::From<Vec<u8>> for Tsoif0 {
    fn from(value: Vec<u8>) -> Self {
        Self(value)
    }
}

impl ::core::convert::From<Tsoif0> for Vec<u8> {
    fn from(value: Tsoif0) -> Self {
        value.0
    }
}

#[asn(transparent)]

#[derive(Default, Debug, Clone, PartialEq, Hash)]
pub struct Tsoif2(#[asn(sequence_of(size(2), integer(0..255)))] pub Vec<u8>);

impl Tsoif2 {
    pub const fn value_min() -> u8 {
        0
    }

    pub const fn value_max() -> u8 {
        255
    }
}

impl Tsoif2 {
    pub const fn new(value: Vec<u8>) -> Self {
        Self(value)
    }
}

impl ::core::ops::Deref for Tsoif2 {
    type Target = Vec<u8>;

    fn deref(&self) -> &Vec<u8> {
        &self.0
    }
}

impl ::core::ops::DerefMut for Tsoif2 {
    fn deref_mut(&mut self) -> &mut Vec<u8> {
        &mut self.0
    }
}

impl ::core::convert::From<Vec<u8>> for Tsoif2 {
    fn from(value: Vec<u8>) -> Self {
        Self(value)
    }
}

impl ::core::convert::From<Tsoif2> for Vec<u8> {
    fn from(value: Tsoif2) -> Self {
        value.0
    }
}

#[asn(transparent)]

#[derive(Default, Debug, Clone, PartialEq, Hash)]
pub struct Tsoif17(#[asn(sequence_of(size(17), integer(0..255)))] pub Vec<u8>);

impl Tsoif17 {
    pub const fn value_min() -> u8 {
        0
    }

    pub const fn value_max() -> u8 {
        255
    }
}

impl Tsoif17 {
    pub const fn new(value: Vec<u8>) -> Self {
        Self(value)
    }
}

impl ::core::ops::Deref for Tsoif17 {
    type Target = Vec<u8>;

    fn deref(&self) -> &Vec<u8> {
        &self.0
    }
}

impl ::core::ops::DerefMut for Tsoif17 {
    fn deref_mut(&mut self) -> &mut Vec<u8> {
        &mut self.0
    }
}

impl ::core::convert::From<Vec<u8>> for Tsoif17 {
    fn from(value: Vec<u8>) -> Self {
        Self(value)
    }
}

impl ::core::convert::From<Tsoif17> for Vec<u8> {
    fn from(value: Tsoif17) -> Self {
        value.0
    }
}

#[asn(transparent)]

#[derive(Default, Debug, Clone, PartialEq, Hash)]
pub struct Tsoir0to1(#[asn(sequence_of(size(0..1), integer(0..255)))] pub Vec<u8>);

impl Tsoir0to1 {
    pub const fn value_min() -> u8 {
        0
    }

    pub const fn value_max() -> u8 {
        255
    }
}

impl Tsoir0to1 {
    pub const fn new(value: Vec<u8>) -> Self {
        Self(value)
    }
}

impl ::core::ops::Deref for Tsoir0to1 {
    type Target = Vec<u8>;

    fn deref(&self) -> &Vec<u8> {
        &self.0
    }
}

impl ::core::ops::DerefMut for Tsoir0to1 {
    fn deref_mut(&mut self) -> &mut Vec<u8> {
        &mut self.0
    }
}

impl ::core::convert::From<Vec<u8>> for Tsoir0to1 {
    fn from(value: Vec<u8>) -> Self {
        Self(value)
    }
}

impl ::core::convert::From<Tsoir0to1> for Vec<u8> {
    fn from(value: Tsoir0to1) -> Self {
        value.0
    }
}

#[asn(transparent)]

#[derive(Default, Debug, Clone, PartialEq, Hash)]
pub struct Tsoir0to255(#[asn(sequence_of(size(0..255), integer(0..255)))] pub Vec<u8>);

impl Tsoir0to255 {
    pub const fn value_min() -> u8 {
        0
    }

    pub const fn value_max() -> u8 {
        255
    }
}

impl Tsoir0to255 {
    pub const fn new(value: Vec<u8>) -> Self {
        Self(value)
    }
}

impl ::core::ops::Deref for Tsoir0to255 {
    type Target = Vec<u8>;

    fn deref(&self) -> &Vec<u8> {
        &self.0
    }
}

impl ::core::ops::DerefMut for Tsoir0to255 {
    fn deref_mut(&mut self) -> &mut Vec<u8> {
        &mut self.0
    }
}

impl ::core::convert::From<Vec<u8>> for Tsoir0to255 {
    fn from(value: Vec<u8>) -> Self {
        Self(value)
    }
}

impl ::core::convert::From<Tsoir0to255> for Vec<u8> {
    fn from(value: Tsoir0to255) -> Self {
        value.0
    }
}

#[asn(transparent)]

#[derive(Default, Debug, Clone, PartialEq, Hash)]
pub struct Tsoir0to256(#[asn(sequence_of(size(0..256), integer(0..255)))] pub Vec<u8>);

impl Tsoir0to256 {
    pub const fn value_min() -> u8 {
        0
    }

    pub const fn value_max() -> u8 {
        255
    }
}

impl Tsoir0to256 {
    pub const fn new(value: Vec<u8>) -> Self {
        Self(value)
    }
}

impl ::core::ops::Deref for Tsoir0to256 {
    type Target = Vec<u8>;

    fn deref(&self) -> &Vec<u8> {
        &self.0
    }
}

impl ::core::ops::DerefMut for Tsoir0to256 {
    fn deref_mut(&mut self) -> &mut Vec<u8> {
        &mut self.0
    }
}

impl ::core::convert::From<Vec<u8>> for Tsoir0to256 {
    fn from(value: Vec<u8>) -> Self {
        Self(value)
    }
}

impl ::core::convert::From<Tsoir0to256> for Vec<u8> {
    fn from(value: Tsoir0to256) -> Self {
        value.0
    }
}

#[asn(transparent)]

#[derive(Default, Debug, Clone, PartialEq, Hash)]
pub struct Tsoir1to65535(#[asn(sequence_of(size(1..65535), integer(0..255)))] pub Vec<u8>);

impl Tsoir1to65535 {
    pub const fn value_min() -> u8 {
        0
    }

    pub const fn value_max() -> u8 {
        255
    }
}

impl Tsoir1to65535 {
    pub const fn new(value: Vec<u8>) -> Self {
        Self(value)
    }
}

impl ::core::ops::Deref for Tsoir1to65535 {
    type Target = Vec<u8>;

    fn deref(&self) -> &Vec<u8> {
        &self.0
    }
}

impl ::core::ops::DerefMut for Tsoir1to65535 {
    fn deref_mut(&mut self) -> &mut Vec<u8> {
        &mut self.0
    }
}

impl ::core::convert::From<Vec<u8>> for Tsoir1to65535 {
    fn from(value: Vec<u8>) -> Self {
        Self(value)
    }
}

impl ::core::convert::From<Tsoir1to65535> for Vec<u8> {
    fn from(value: Tsoir1to65535) -> Self {
        value.0
    }
}

#[asn(transparent)]

#[derive(Default, Debug, Clone, PartialEq, Hash)]
pub struct Tsoir1to65536(#[asn(sequence_of(size(1..65536), integer(0..255)))] pub Vec<u8>);

impl Tsoir1to65536 {
    pub const fn value_min() -> u8 {
        0
    }

    pub const fn value_max() -> u8 {
        255
    }
}

impl Tsoir1to65536 {
    pub const fn new(value: Vec<u8>) -> Self {
        Self(value)
    }
}

impl ::core::ops::Deref for Tsoir1to65536 {
    type Target = Vec<u8>;

    fn deref(&self) -> &Vec<u8> {
        &self.0
    }
}

impl ::core::ops::DerefMut for Tsoir1to65536 {
    fn deref_mut(&mut self) -> &mut Vec<u8> {
        &mut self.0
    }
}

impl ::core::convert::From<Vec<u8>> for Tsoir1to65536 {
    fn from(value: Vec<u8>) -> Self {
        Self(value)
    }
}

impl ::core::convert::From<Tsoir1to65536> for Vec<u8> {
    fn from(value: Tsoir1to65536) -> Self {
        value.0
    }
}

#[asn(transparent)]

#[derive(Default, Debug, Clone, PartialEq, Hash)]
pub struct Tsoir0to65535x(#[asn(sequence_of(size(0..65535,...), integer(0..255)))] pub Vec<u8>);

impl Tsoir0to65535x {
    pub const fn value_min() -> u8 {
        0
    }

    pub const fn value_max() -> u8 {
        255
    }
}

impl Tsoir0to65535x {
    pub const fn new(value: Vec<u8>) -> Self {
        Self(value)
    }
}

impl ::core::ops::Deref for Tsoir0to65535x {
    type Target = Vec<u8>;

    fn deref(&self) -> &Vec<u8> {
        &self.0
    }
}

impl ::core::ops::DerefMut for Tsoir0to65535x {
    fn deref_mut(&mut self) -> &mut Vec<u8> {
        &mut self.0
    }
}

impl ::core::convert::From<Vec<u8>> for Tsoir0to65535x {
    fn from(value: Vec<u8>) -> Self {
        Self(value)
    }
}

impl ::core::convert::From<Tsoir0to65535x> for Vec<u8> {
    fn from(value: Tsoir0to65535x) -> Self {
        value.0
    }
}
// ---- harness conversions (generated by the zoo build script from the items above) ----
impl FromValue for Tsoif0 { fn from_value(v: &Value) -> Self { Tsoif0(FromValue::from_value(v)) } }
impl ToValue for Tsoif0 { fn to_value(&self) -> Value { self.0.to_value() } }
impl FromValue for Tsoif2 { fn from_value(v: &Value) -> Self { Tsoif2(FromValue::from_value(v)) } }
impl ToValue for Tsoif2 { fn to_value(&self) -> Value { self.0.to_value() } }
impl FromValue for Tsoif17 { fn from_value(v: &Value) -> Self { Tsoif17(FromValue::from_value(v)) } }
impl ToValue for Tsoif17 { fn to_value(&self) -> Value { self.0.to_value() } }
impl FromValue for Tsoir0to1 { fn from_value(v: &Value) -> Self { Tsoir0to1(FromValue::from_value(v)) } }
impl ToValue for Tsoir0to1 { fn to_value(&self) -> Value { self.0.to_value() } }
impl FromValue for Tsoir0to255 { fn from_value(v: &Value) -> Self { Tsoir0to255(FromValue::from_value(v)) } }
impl ToValue for Tsoir0to255 { fn to_value(&self) -> Value { self.0.to_value() } }
impl FromValue for Tsoir0to256 { fn from_value(v: &Value) -> Self { Tsoir0to256(FromValue::from_value(v)) } }
impl ToValue for Tsoir0to256 { fn to_value(&self) -> Value { self.0.to_value() } }
impl FromValue for Tsoir1to65535 { fn from_value(v: &Value) -> Self { Tsoir1to65535(FromValue::from_value(v)) } }
impl ToValue for Tsoir1to65535 { fn to_value(&self) -> Value { self.0.to_value() } }
impl FromValue for Tsoir1to65536 { fn from_value(v: &Value) -> Self { Tsoir1to65536(FromValue::from_value(v)) } }
impl ToValue for Tsoir1to65536 { fn to_value(&self) -> Value { self.0.to_value() } }
impl FromValue for Tsoir0to65535x { fn from_value(v: &Value) -> Self { Tsoir0to65535x(FromValue::from_value(v)) } }
impl ToValue for Tsoir0to65535x { fn to_value(&self) -> Value { self.0.to_value() } }

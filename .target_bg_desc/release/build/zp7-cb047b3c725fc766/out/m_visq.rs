use asn1rs::prelude::*;

#[asn(transparent)]

#[derive(Default, Debug, Clone, PartialEq, Hash)]
pub struct Tvisany(#[asn(visiblestring)] pub String);

impl Tvisany {
}

impl Tvisany {
    pub const fn new(value: String) -> Self {
        Self(value)
    }
}

impl ::core::ops::Deref for Tvisany {
    type Target = String;

    fn deref(&self) -> &String {
        &self.0
    }
}

impl ::core::ops::DerefMut for Tvisany {
    fn deref_mut(&mut self) -> &mut String {
        &mut self.0
    }
}

impl ::core::convert::From<String> for Tvisany {
    fn from(value: String) -> Self {
        Self(value)
    }
}

impl ::core::convert::From<Tvisany> for String {
    fn from(value: Tvisany) -> Self {
        value.0
    }
}

#[asn(transparent)]

#[derive(Default, Debug, Clone, PartialEq, Hash)]
pub struct Tvisf1(#[asn(visiblestring(size(1)))] pub String);

impl Tvisf1 {
}

impl Tvisf1 {
    pub const fn new(value: String) -> Self {
        Self(value)
    }
}

impl ::core::ops::Deref for Tvisf1 {
    type Target = String;

    fn deref(&self) -> &String {
        &self.0
    }
}

impl ::core::ops::DerefMut for Tvisf1 {
    fn deref_mut(&mut self) -> &mut String {
        &mut self.0
    }
}

impl ::core::convert::From<String> for Tvisf1 {
    fn from(value: String) -> Self {
        Self(value)
    }
}

impl ::core::convert::From<Tvisf1> for String {
    fn from(value: Tvisf1) -> Self {
        value.0
    }
}

#[asn(transparent)]

#[derive(Default, Debug, Clone, PartialEq, Hash)]
pub struct Tvisf3(#[asn(visiblestring(size(3)))] pub String);

impl Tvisf3 {
}

impl Tvisf3 {
    pub const fn new(value: String) -> Self {
        Self(value)
    }
}

impl ::core::ops::Deref for Tvisf3 {
    type Target = String;

    fn deref(&self) -> &String {
        &self.0
    }
}

impl ::core::ops::DerefMut for Tvisf3 {
    fn deref_mut(&mut self) -> &mut String {
        &mut self.0
    }
}

impl ::core::convert::From<String> for Tvisf3 {
    fn from(value: String) -> Self {
        Self(value)
    }
}

impl ::core::convert::From<Tvisf3> for String {
    fn from(value: Tvisf3) -> Self {
        value.0
    }
}

#[asn(transparent)]

#[derive(Default, Debug, Clone, PartialEq, Hash)]
pub struct Tvisf65535(#[asn(visiblestring(size(65535)))] pub String);

impl Tvisf65535 {
}

impl Tvisf65535 {
    pub const fn new(value: String) -> Self {
        Self(value)
    }
}

impl ::core::ops::Deref for Tvisf65535 {
    type Target = String;

    fn deref(&self) -> &String {
        &self.0
    }
}

impl ::core::ops::DerefMut for Tvisf65535 {
    fn deref_mut(&mut self) -> &mut String {
        &mut self.0
    }
}

impl ::core::convert::From<String> for Tvisf65535 {
    fn from(value: String) -> Self {
        Self(value)
    }
}

impl ::core::convert::From<Tvisf65535> for String {
    fn from(value: Tvisf65535) -> Self {
        value.0
    }
}

#[asn(transparent)]

#[derive(Default, Debug, Clone, PartialEq, Hash)]
pub struct Tvisf65536(#[asn(visiblestring(size(65536)))] pub String);

impl Tvisf65536 {
}

impl Tvisf65536 {
    pub const fn new(value: String) -> Self {
        Self(value)
    }
}

impl ::core::ops::Deref for Tvisf65536 {
    type Target = String;

    fn deref(&self) -> &String {
        &self.0
    }
}

impl ::core::ops::DerefMut for Tvisf65536 {
    fn deref_mut(&mut self) -> &mut String {
        &mut self.0
    }
}

impl ::core::convert::From<String> for Tvisf65536 {
    fn from(value: String) -> Self {
        Self(value)
    }
}

impl ::core::convert::From<Tvisf65536> for String {
    fn from(value: Tvisf65536) -> Self {
        value.0
    }
}

#[asn(transparent)]

#[derive(Default, Debug, Clone, PartialEq, Hash)]
pub struct Tvisr1to4(#[asn(visiblestring(size(1..4)))] pub String);

impl Tvisr1to4 {
}

impl Tvisr1to4 {
    pub const fn new(value: String) -> Self {
        Self(value)
    }
}

impl ::core::ops::Deref for Tvisr1to4 {
    type Target = String;

    fn deref(&self) -> &String {
        &self.0
    }
}

impl ::core::ops::DerefMut for Tvisr1to4 {
    fn deref_mut(&mut self) -> &mut String {
        &mut self.0
    }
}

impl ::core::convert::From<String> for Tvisr1to4 {
    fn from(value: String) -> Self {
        Self(value)
    }
}

impl ::core::convert::From<Tvisr1to4> for String {
    fn from(value: Tvisr1to4) -> Self {
        value.0
    }
}

#[asn(transparent)]

#[derive(Default, Debug, Clone, PartialEq, Hash)]
pub struct Tvisr4to6(#[asn(visiblestring(size(4..6)))] pub String);

impl Tvisr4to6 {
}

impl Tvisr4to6 {
    pub const fn new(value: String) -> Self {
        Self(value)
    }
}

impl ::core::ops::Deref for Tvisr4to6 {
    type Target = String;

    fn deref(&self) -> &String {
        &self.0
    }
}

impl ::core::ops::DerefMut for Tvisr4to6 {
    fn deref_mut(&mut self) -> &mut String {
        &mut self.0
    }
}

impl ::core::convert::From<String> for Tvisr4to6 {
    fn from(value: String) -> Self {
        Self(value)
    }
}

impl ::core::convert::From<Tvisr4to6> for String {
    fn from(value: Tvisr4to6) -> Self {
        value.0
    }
}

#[asn(transparent)]

#[derive(Default, Debug, Clone, PartialEq, Hash)]
pub struct Tvisr1to70000(#[asn(visiblestring(size(1..70000)))] pub String);

impl Tvisr1to70000 {
}

impl Tvisr1to70000 {
    pub const fn new(value: String) -> Self {
        Self(value)
    }
}

impl ::core::ops::Deref for Tvisr1to70000 {
    type Target = String;

    fn deref(&self) -> &String {
        &self.0
    }
}

impl ::core::ops::DerefMut for Tvisr1to70000 {
    fn deref_mut(&mut self) -> &mut String {
        &mut self.0
    }
}

impl ::core::convert::From<String> for Tvisr1to70000 {
    fn from(value: String) -> Self {
        Self(value)
    }
}

impl ::core::convert::From<Tvisr1to70000> for String {
    fn from(value: Tvisr1to70000) -> Self {
        value.0
    }
}

#[asn(transparent)]

#[derive(Default, Debug, Clone, PartialEq, Hash)]
pub struct Tvisr2tomax(#[asn(visiblestring(size(2..9223372036854775807)))] pub String);

impl Tvisr2tomax {
}

impl Tvisr2tomax {
    pub const fn new(value: String) -> Self {
        Self(value)
    }
}

impl ::core::ops::Deref for Tvisr2tomax {
    type Target = String;

    fn deref(&self) -> &String {
        &self.0
    }
}

impl ::core::ops::DerefMut for Tvisr2tomax {
    fn deref_mut(&mut self) -> &mut String {
        &mut self.0
    }
}

impl ::core::convert::From<String> for Tvisr2tomax {
    fn from(value: String) -> Self {
        Self(value)
    }
}

impl ::core::convert::From<Tvisr2tomax> for String {
    fn from(value: Tvisr2tomax) -> Self {
        value.0
    }
}

#[asn(transparent)]

#[derive(Default, Debug, Clone, PartialEq, Hash)]
pub struct Tvisf3x(#[asn(visiblestring(size(3,...)))] pub String);

impl Tvisf3x {
}

impl Tvisf3x {
    pub const fn new(value: String) -> Self {
        Self(value)
    }
}

impl ::core::ops::Deref for Tvisf3x {
    type Target = String;

    fn deref(&self) -> &String {
        &self.0
    }
}

impl ::core::ops::DerefMut for Tvisf3x {
    fn deref_mut(&mut self) -> &mut String {
        &mut self.0
    }
}

impl ::core::convert::From<String> for Tvisf3x {
    fn from(value: String) -> Self {
        Self(value)
    }
}

impl ::core::convert::From<Tvisf3x> for String {
    fn from(value: Tvisf3x) -> Self {
        value.0
    }
}

#[asn(transparent)]

#[derive(Default, Debug, Clone, PartialEq, Hash)]
pub struct Tvisr1to4x(#[asn(visiblestring(size(1..4,...)))] pub String);

impl Tvisr1to4x {
}

impl Tvisr1to4x {
    pub const fn new(value: String) -> Self {
        Self(value)
    }
}

impl ::core::ops::Deref for Tvisr1to4x {
    type Target = String;

    fn deref(&self) -> &String {
        &self.0
    }
}

impl ::core::ops::DerefMut for Tvisr1to4x {
    fn deref_mut(&mut self) -> &mut String {
        &mut self.0
    }
}

impl ::core::convert::From<String> for Tvisr1to4x {
    fn from(value: String) -> Self {
        Self(value)
    }
}

impl ::core::convert::From<Tvisr1to4x> for String {
    fn from(value: Tvisr1to4x) -> Self {
        value.0
    }
}
// ---- harness conversions (generated by the zoo build script from the items above) ----
impl FromValue for Tvisany { fn from_value(v: &Value) -> Self { Tvisany(FromValue::from_value(v)) } }
impl ToValue for Tvisany { fn to_value(&self) -> Value { self.0.to_value() } }
impl FromValue for Tvisf1 { fn from_value(v: &Value) -> Self { Tvisf1(FromValue::from_value(v)) } }
impl ToValue for Tvisf1 { fn to_value(&self) -> Value { self.0.to_value() } }
impl FromValue for Tvisf3 { fn from_value(v: &Value) -> Self { Tvisf3(FromValue::from_value(v)) } }
impl ToValue for Tvisf3 { fn to_value(&self) -> Value { self.0.to_value() } }
impl FromValue for Tvisf65535 { fn from_value(v: &Value) -> Self { Tvisf65535(FromValue::from_value(v)) } }
impl ToValue for Tvisf65535 { fn to_value(&self) -> Value { self.0.to_value() } }
impl FromValue for Tvisf65536 { fn from_value(v: &Value) -> Self { Tvisf65536(FromValue::from_value(v)) } }
impl ToValue for Tvisf65536 { fn to_value(&self) -> Value { self.0.to_value() } }
impl FromValue for Tvisr1to4 { fn from_value(v: &Value) -> Self { Tvisr1to4(FromValue::from_value(v)) } }
impl ToValue for Tvisr1to4 { fn to_value(&self) -> Value { self.0.to_value() } }
impl FromValue for Tvisr4to6 { fn from_value(v: &Value) -> Self { Tvisr4to6(FromValue::from_value(v)) } }
impl ToValue for Tvisr4to6 { fn to_value(&self) -> Value { self.0.to_value() } }
impl FromValue for Tvisr1to70000 { fn from_value(v: &Value) -> Self { Tvisr1to70000(FromValue::from_value(v)) } }
impl ToValue for Tvisr1to70000 { fn to_value(&self) -> Value { self.0.to_value() } }
impl FromValue for Tvisr2tomax { fn from_value(v: &Value) -> Self { Tvisr2tomax(FromValue::from_value(v)) } }
impl ToValue for Tvisr2tomax { fn to_value(&self) -> Value { self.0.to_value() } }
impl FromValue for Tvisf3x { fn from_value(v: &Value) -> Self { Tvisf3x(FromValue::from_value(v)) } }
impl ToValue for Tvisf3x { fn to_value(&self) -> Value { self.0.to_value() } }
impl FromValue for Tvisr1to4x { fn from_value(v: &Value) -> Self { Tvisr1to4x(FromValue::from_value(v)) } }
impl ToValue for Tvisr1to4x { fn to_value(&self) -> Value { self.0.to_value() } }
